(** C05 — Hash input is a function of the variant and the non-ignored fields:
    running the emitted `hash` yields exactly the specified trace. *)
From Educe.Spec Require Export SpecHash.
From Educe.Proofs Require Export P_C02b.
From Educe.Model Require Export Expand_Hash.

Definition state_place : place := {| pl_root := "state"; pl_path := [] |}.
Definition hash_env : env := [("self", VRef self_place); ("state", VRef state_place)].
(** [v] is the hashed value, [h] the caller's hasher (opaque) *)
Definition hash_state (v h : value) : state :=
  {| st_store := [("self", v); ("state", h)]; st_trace := [] |}.

(** `v.hash(&mut h)` through the generated impl, observed by its trace *)
Definition run_hash (I : interp) (it : item) (v h : value) : option (list event) :=
  match find_fn "hash" it with
  | Some body =>
      match run_body I hash_env body (hash_state v h) with
      | (RVal VUnit, s) => Some (st_trace s)
      | _ => None
      end
  | None => None
  end.

Definition add_trace (s : state) (evs : list event) : state :=
  {| st_store := st_store s; st_trace := st_trace s ++ evs |}.

Lemma add_trace_nil s : add_trace s [] = s.
Proof. destruct s as [st tr]. unfold add_trace. cbn [st_store st_trace]. rewrite app_nil_r. reflexivity. Qed.
Lemma add_trace_log s e evs : add_trace (log e s) evs = add_trace s (e :: evs).
Proof. unfold add_trace, log. cbn [st_store st_trace]. rewrite <- app_assoc. reflexivity. Qed.

Section Stmts.
  Variable I : interp.
  Variable h : value.

  Definition hstore (s : state) (vn : option string) (xs : list (string * value)) : Prop :=
    st_store s = [("self", VData vn xs); ("state", h)].

  Lemma load_self_h s vn xs k : hstore s vn xs -> load (st_store s) (sub self_place k) = lookup k xs.
  Proof. unfold hstore. intros ->. cbn. destruct (lookup k xs); reflexivity. Qed.
  Lemma load_state_h s vn xs : hstore s vn xs -> load (st_store s) state_place = Some h.
  Proof. unfold hstore. intros ->. reflexivity. Qed.
  Lemma load_self_root s vn xs : hstore s vn xs -> load (st_store s) self_place = Some (VData vn xs).
  Proof. unfold hstore. intros ->. reflexivity. Qed.

  (** one `hash(<operand>, state);` statement, the operand being a reference to a field *)
  Lemma eval_hash_stmt fa en op p x s :
    (forall s0, eval I en op s0 = (RVal (VRef p), s0)) ->
    lookup "state" en = Some (VRef state_place) ->
    load (st_store s) p = Some x -> load (st_store s) state_place = Some h ->
    eval I en (hash_stmt fa op) s = (RVal VUnit, log (field_event h fa x) s).
  Proof.
    intros Hop Hst Hx Hh. unfold hash_stmt, hash_callee, field_event.
    destruct (fa_method fa) as [m|].
    - cbn [eval eval_args]. rewrite Hop. rewrite Hst. cbn [apply_path]. unfold call_user.
      cbn [strip_all strip]. rewrite Hx, Hh. reflexivity.
    - cbn [eval eval_args]. rewrite Hop. rewrite Hst. cbn [apply_path]. unfold call_core.
      cbn [strip]. rewrite Hx. destruct x; reflexivity.
  Qed.

  (** the variant-index statement `Hash::hash(&<vi>usize, state);` *)
  Lemma eval_index_stmt en vi s :
    lookup "state" en = Some (VRef state_place) ->
    eval I en (hash_index_stmt vi) s = (RVal VUnit, log (EvHashUsize vi) s).
  Proof.
    intros Hst. unfold hash_index_stmt. cbn [eval eval_args place_of]. rewrite Hst. reflexivity.
  Qed.
End Stmts.

(** ** a run of field statements *)
Definition hash_stmts (ops : list (string * fattr * expr)) : block :=
  flat_map (fun '(k, fa, op) => if fa_ignore fa then [] else [hash_stmt fa op]) ops.
Definition ops_cfg (ops : list (string * fattr * expr)) : list (string * fattr) :=
  map (fun '(k, fa, _) => (k, fa)) ops.

Lemma flat_map_map {A B C} (f : A -> B) (g : B -> list C) l :
  flat_map g (map f l) = flat_map (fun x => g (f x)) l.
Proof. induction l as [|x r IH]; cbn; [reflexivity|]. rewrite IH. reflexivity. Qed.

Section Chain.
  Variable I : interp.
  Variable h : value.

  Lemma hash_stmt_no_let fa op : no_let (hash_stmt fa op) = true.
  Proof. reflexivity. Qed.

  (** statements `e1; e2; ..` all evaluating to unit: a block made of them evaluates to unit *)
  Lemma eval_block_unit_cons en e r s s1 s2 :
    no_let e = true -> eval I en e s = (RVal VUnit, s1) ->
    eval_block (eval I) en r s1 = (RVal VUnit, s2) ->
    eval_block (eval I) en (e :: r) s = (RVal VUnit, s2).
  Proof.
    intros Hn He Hr. rewrite eval_block_cons by exact Hn. rewrite He.
    destruct r as [|e' r']; cbn [is_nil]; [|exact Hr]. cbn in Hr. exact Hr.
  Qed.

  Lemma hash_stmts_eval vn xs en :
    lookup "state" en = Some (VRef state_place) ->
    forall ops s,
    hstore h s vn xs ->
    (forall k fa op, In (k, fa, op) ops -> fa_ignore fa = false ->
                     forall s0, eval I en op s0 = (RVal (VRef (sub self_place k)), s0)) ->
    (forall k fa op, In (k, fa, op) ops -> lookup k xs <> None) ->
    eval_block (eval I) en (hash_stmts ops) s =
    (RVal VUnit, add_trace s (spec_fields_trace h (ops_cfg ops) xs)).
  Proof.
    intros Hst. induction ops as [|[[k fa] op] r IH]; intros s Hs Hops Hkeys.
    - cbn. rewrite add_trace_nil. reflexivity.
    - cbn [hash_stmts flat_map ops_cfg map spec_fields_trace].
      fold (hash_stmts r). fold (ops_cfg r).
      change (flat_map _ (ops_cfg r)) with (spec_fields_trace h (ops_cfg r) xs).
      assert (Hops' : forall k0 fa0 op0, In (k0, fa0, op0) r -> fa_ignore fa0 = false ->
                forall s0, eval I en op0 s0 = (RVal (VRef (sub self_place k0)), s0))
        by (intros k0 fa0 op0 Hin; apply (Hops k0 fa0 op0); right; exact Hin).
      assert (Hkeys' : forall k0 fa0 op0, In (k0, fa0, op0) r -> lookup k0 xs <> None)
        by (intros k0 fa0 op0 Hin; apply (Hkeys k0 fa0 op0); right; exact Hin).
      destruct (fa_ignore fa) eqn:Eig.
      + cbn [app]. apply IH; assumption.
      + destruct (lookup k xs) as [x|] eqn:Ex;
          [|exfalso; apply (Hkeys k fa op (or_introl eq_refl)); exact Ex].
        cbn [app].
        apply (eval_block_unit_cons en _ _ s (log (field_event h fa x) s)).
        * apply hash_stmt_no_let.
        * apply (eval_hash_stmt I h fa en op (sub self_place k) x s).
          -- apply (Hops k fa op (or_introl eq_refl) Eig).
          -- exact Hst.
          -- rewrite (load_self_h h s vn xs k Hs). exact Ex.
          -- apply (load_state_h h s vn xs Hs).
        * rewrite <- add_trace_log. apply IH; assumption.
  Qed.
End Chain.

Lemma keys_ok_inv c v :
  keys_ok c v = true ->
  exists vn xs l, v = VData vn xs /\ vcfg_get vn c = Some l /\ map fst l = map fst xs.
Proof.
  destruct v as [| | | | | |vn xs| | | | |]; try discriminate. cbn [keys_ok].
  destruct (vcfg_get vn c) as [l|] eqn:El; [|discriminate].
  destruct (list_eq_dec string_dec (map fst l) (map fst xs)) as [E|]; [|discriminate].
  intros _. exists vn, xs, l. split; [reflexivity|]. split; [exact El|exact E].
Qed.

Lemma value_ok_keys_ok c v : value_ok c v = true -> keys_ok c v = true.
Proof.
  destruct v as [| | | | | |vn xs| | | | |]; try discriminate. cbn [value_ok keys_ok].
  destruct (vcfg_get vn c) as [l|]; [|discriminate]. unfold shape_ok.
  destruct (list_eq_dec string_dec (map fst l) (map fst xs)); [reflexivity|discriminate].
Qed.

Section Struct.
  Variable I : interp.
  Variable h : value.
  Variables (F : features) (traits : list trait).

  Definition struct_ops (il : list (nat * (field * fattr))) : list (string * fattr * expr) :=
    map (fun '(i, (f, fa)) =>
           (field_member f i, fa, ERef (EField (EVar "self") (field_member f i)))) il.

  Lemma hash_struct_body_ops il : hash_struct_body il = hash_stmts (struct_ops il).
  Proof.
    unfold hash_struct_body, hash_stmts, struct_ops. rewrite flat_map_map.
    apply flat_map_ext. intros [i [f fa]]. reflexivity.
  Qed.

  Lemma struct_ops_cfg il : ops_cfg (struct_ops il) = map key_of il.
  Proof.
    unfold ops_cfg, struct_ops. rewrite map_map. apply map_ext. intros [i [f fa]]. reflexivity.
  Qed.

  Lemma hash_field_attrs_fst fs l : hash_field_attrs F traits fs = Ok l -> map fst l = fs.
  Proof.
    unfold hash_field_attrs. revert l. induction fs as [|f r IH]; cbn [mapM]; intros l H.
    - inversion H. reflexivity.
    - inv_bind H. inv_bind Hb. inversion Hb; subst a. inv_bind H. inversion H; subst l.
      cbn. f_equal. apply IH. assumption.
  Qed.

  Theorem struct_hash_trace d m fs items c v :
    d_data d = DStruct fs ->
    expand_hash F traits d m = Ok items ->
    hash_cfg F traits d = Ok c ->
    keys_ok c v = true ->
    exists it, items = [it] /\ run_hash I it v h = spec_hash_trace c h v.
  Proof.
    intros Hd He Hc Hv.
    unfold expand_hash in He. rewrite Hd in He.
    inv_bind He. inv_bind He. inversion He; subst items; clear He. rename a0 into l.
    unfold hash_cfg in Hc. rewrite Hd in Hc. rewrite Hb0 in Hc. cbn [bind] in Hc.
    inversion Hc; subst c; clear Hc.
    destruct (keys_ok_inv _ _ Hv) as [vn [xs [l0 [-> [Hl0 Hkeys]]]]].
    destruct vn as [n|]; [discriminate Hl0|]. cbn [vcfg_get] in Hl0. inversion Hl0; subst l0; clear Hl0.
    eexists; split; [reflexivity|].
    unfold run_hash, find_fn, hash_item. cbn [i_members find String.eqb Ascii.eqb Bool.eqb].
    cbn [spec_hash_trace vcfg_get app]. unfold run_body.
    rewrite hash_struct_body_ops.
    rewrite (hash_stmts_eval I h None xs hash_env eq_refl (struct_ops (indexed l))
               (hash_state (VData None xs) h)).
    - rewrite struct_ops_cfg, <- keyed_eq. reflexivity.
    - reflexivity.
    - intros k fa op Hin _ s0. unfold struct_ops in Hin. apply in_map_iff in Hin.
      destruct Hin as [[i [f fa']] [Heq _]]. inversion Heq; subst. reflexivity.
    - intros k fa op Hin. apply in_fst_lookup. rewrite <- Hkeys, keyed_eq, <- struct_ops_cfg.
      unfold ops_cfg. rewrite map_map.
      apply (in_map (fun x => fst (let '(k0, fa0, _) := x in (k0, fa0))) _ (k, fa, op)). exact Hin.
  Qed.
End Struct.

Section Enum.
  Variable I : interp.
  Variable h : value.
  Variables (F : features) (traits : list trait).

  Definition hcfg_entry (v : variant) : outcome (option string * list (string * fattr)) :=
    let* l := hash_field_attrs F traits (fields_list (v_fields v)) in Ok (Some (v_name v), keyed l).

  Definition named_ops (l : list (field * fattr)) : list (string * fattr * expr) :=
    map (fun '(f, fa) => (fname f, fa, EVar ("v_" ^^ unraw (fname f)))) l.
  Definition unnamed_ops (il : list (nat * (field * fattr))) : list (string * fattr * expr) :=
    map (fun '(i, (f, fa)) => (dec i, fa, EVar ("_" ^^ dec i))) il.

  Lemma hash_arm_named_eq vi v fs l :
    hash_arm vi v (FNamed fs) l =
    (PStruct (RSelfV v) (pats_named "v_" l) true false,
     EBlock (hash_index_stmt vi :: hash_stmts (named_ops l))).
  Proof.
    unfold hash_arm, hash_stmts, named_ops. rewrite flat_map_map.
    f_equal. f_equal. f_equal. apply flat_map_ext. intros [f fa]. reflexivity.
  Qed.
  Lemma hash_arm_unnamed_eq vi v fs l :
    hash_arm vi v (FUnnamed fs) l =
    (PTuple (RSelfV v) (pats_unnamed "_" (indexed l)) true false,
     EBlock (hash_index_stmt vi :: hash_stmts (unnamed_ops (indexed l)))).
  Proof.
    unfold hash_arm, hash_stmts, unnamed_ops. rewrite flat_map_map.
    f_equal. f_equal. f_equal. apply flat_map_ext. intros [i [f fa]]. reflexivity.
  Qed.

  Lemma named_ops_cfg l : ops_cfg (named_ops l) = map (fun t => (fname (fst t), snd t)) l.
  Proof. unfold ops_cfg, named_ops. rewrite map_map. apply map_ext. intros [f fa]. reflexivity. Qed.
  Lemma unnamed_ops_cfg il :
    ops_cfg (unnamed_ops il) = map (fun t => (dec (fst t), snd (snd t))) il.
  Proof. unfold ops_cfg, unnamed_ops. rewrite map_map. apply map_ext. intros [i [f fa]]. reflexivity. Qed.

  Lemma state_not_v u : String.eqb "state" ("v_" ^^ u) = false.
  Proof. reflexivity. Qed.
  Lemma state_not_us u : String.eqb "state" ("_" ^^ u) = false.
  Proof. reflexivity. Qed.

  (** a block `index; field statements` *)
  Lemma arm_block_eval en vi ops vn xs s :
    lookup "state" en = Some (VRef state_place) ->
    hstore h s vn xs ->
    (forall k fa op, In (k, fa, op) ops -> fa_ignore fa = false ->
                     forall s0, eval I en op s0 = (RVal (VRef (sub self_place k)), s0)) ->
    (forall k fa op, In (k, fa, op) ops -> lookup k xs <> None) ->
    eval I en (EBlock (hash_index_stmt vi :: hash_stmts ops)) s =
    (RVal VUnit, add_trace s (EvHashUsize vi :: spec_fields_trace h (ops_cfg ops) xs)).
  Proof.
    intros Hst Hs Hops Hkeys. cbn [eval].
    apply (eval_block_unit_cons I en _ _ s (log (EvHashUsize vi) s)).
    - reflexivity.
    - apply eval_index_stmt. exact Hst.
    - rewrite <- add_trace_log. apply (hash_stmts_eval I h vn xs en Hst); assumption.
  Qed.

  Lemma arm_named_eval vi (l : list (field * fattr)) va xs s :
    hstore h s (Some va) xs ->
    NoDup (map (fun t => unraw (fname (fst t))) l) ->
    map (fun t => fname (fst t)) l = map fst xs ->
    eval I (binds_named "v_" self_place l ++ hash_env)
         (EBlock (hash_index_stmt vi :: hash_stmts (named_ops l))) s =
    (RVal VUnit, add_trace s (EvHashUsize vi ::
                              spec_fields_trace h (map (fun t => (fname (fst t), snd t)) l) xs)).
  Proof.
    intros Hs Hnd Hkeys. rewrite <- named_ops_cfg.
    apply (arm_block_eval _ vi (named_ops l) (Some va) xs s).
    - rewrite lookup_app. rewrite lookup_binds_named_none by apply state_not_v. reflexivity.
    - exact Hs.
    - intros k fa op Hin Hig s0. unfold named_ops in Hin. apply in_map_iff in Hin.
      destruct Hin as [[f fa'] [Heq Hin]]. inversion Heq; subst k fa' op. cbn [eval].
      rewrite lookup_app.
      match goal with |- context [lookup ?k (binds_named _ _ _)] =>
        change k with ("v_" ^^ unraw (fname f)) end.
      rewrite (lookup_binds_named "v_" self_place l f fa Hnd Hin Hig). reflexivity.
    - intros k fa op Hin. apply in_fst_lookup. rewrite <- Hkeys.
      unfold named_ops in Hin. apply in_map_iff in Hin.
      destruct Hin as [[f fa'] [Heq Hin]]. inversion Heq; subst k fa' op.
      apply (in_map (fun t => fname (fst t)) l (f, fa)). exact Hin.
  Qed.

  Lemma arm_unnamed_eval vi (l : list (field * fattr)) va xs s :
    hstore h s (Some va) xs ->
    map (fun t => dec (fst t)) (indexed l) = map fst xs ->
    eval I (binds_unnamed "_" self_place (indexed l) ++ hash_env)
         (EBlock (hash_index_stmt vi :: hash_stmts (unnamed_ops (indexed l)))) s =
    (RVal VUnit, add_trace s (EvHashUsize vi ::
                              spec_fields_trace h (map (fun t => (dec (fst t), snd (snd t))) (indexed l)) xs)).
  Proof.
    intros Hs Hkeys. rewrite <- unnamed_ops_cfg.
    apply (arm_block_eval _ vi (unnamed_ops (indexed l)) (Some va) xs s).
    - rewrite lookup_app. rewrite lookup_binds_unnamed_none by apply state_not_us. reflexivity.
    - exact Hs.
    - intros k fa op Hin Hig s0. unfold unnamed_ops in Hin. apply in_map_iff in Hin.
      destruct Hin as [[i [f fa']] [Heq Hin]]. inversion Heq; subst k fa' op. cbn [eval].
      rewrite lookup_app.
      match goal with |- context [lookup ?k (binds_unnamed _ _ _)] =>
        change k with ("_" ^^ dec i) end.
      rewrite (lookup_binds_unnamed "_" self_place (indexed l) i f fa Hin Hig). reflexivity.
    - intros k fa op Hin. apply in_fst_lookup. rewrite <- Hkeys.
      unfold unnamed_ops in Hin. apply in_map_iff in Hin.
      destruct Hin as [[i [f fa']] [Heq Hin]]. inversion Heq; subst k fa' op.
      apply (in_map (fun t => dec (fst t)) (indexed l) (i, (f, fa))). exact Hin.
  Qed.

  (** the pattern of an arm fails on a value of another variant *)
  Lemma hash_arm_pat_other iv arm tys st va xs :
    hash_variant F traits iv = Ok (arm, tys) ->
    load st self_place = Some (VData (Some va) xs) ->
    String.eqb va (v_name (snd iv)) = false ->
    match_pat st (fst arm) (VRef self_place) = None.
  Proof.
    destruct iv as [vi v]. intros Hv Hl Hne. cbn [snd] in Hne.
    unfold hash_variant in Hv. inv_bind Hv. inv_bind Hv. inversion Hv; subst arm tys.
    destruct (v_fields v) as [fs|fs|].
    - rewrite hash_arm_named_eq. cbn [fst match_pat strip]. rewrite Hl, Hne. reflexivity.
    - rewrite hash_arm_unnamed_eq. cbn [fst match_pat strip is_some_path]. rewrite Hl, Hne. reflexivity.
    - cbn [hash_arm fst match_pat strip]. rewrite Hl, Hne. reflexivity.
  Qed.
End Enum.

Section EnumTop.
  Variable I : interp.
  Variable h : value.
  Variables (F : features) (traits : list trait).

  Lemma hash_arms_eval : forall vs i0 arms c,
    mapM (hash_variant F traits) (index_from i0 vs) = Ok arms ->
    mapM (hcfg_entry F traits) vs = Ok c ->
    (forall v, In v vs -> fields_wf (v_fields v)) ->
    forall va xs l s,
    hstore h s (Some va) xs ->
    vcfg_get (Some va) c = Some l -> map fst l = map fst xs ->
    eval_arms (eval I) hash_env (VRef self_place) (map fst arms) s =
    (RVal VUnit, add_trace s (EvHashUsize (i0 + vcfg_index va c) :: spec_fields_trace h l xs)).
  Proof.
    induction vs as [|v vs IH]; intros i0 arms c Harms Hc Hwf va xs l s Hs Hl Hxs.
    - cbn in Hc. inversion Hc; subst c. discriminate Hl.
    - cbn [index_from mapM] in Harms, Hc.
      inv_bind_as Harms as armt Hv. destruct armt as [arm tys].
      inv_bind_as Harms as arms' Harms'. inversion Harms; subst arms; clear Harms.
      inv_bind_as Hc as ent He. destruct ent as [en el].
      inv_bind_as Hc as c' Hc'. inversion Hc; subst c; clear Hc.
      cbn [map fst eval_arms].
      pose proof (load_self_root h s (Some va) xs Hs) as Hself.
      unfold hcfg_entry in He. inv_bind_as He as l1 Hl1. inversion He; subst en el; clear He.
      cbn [vcfg_get vcfg_index] in Hl |- *.
      destruct (String.eqb va (v_name v)) eqn:En.
      + inversion Hl; subst l; clear Hl. rewrite Nat.add_0_r.
        pose proof (Hwf v (or_introl eq_refl)) as Hfw.
        pose proof (hash_field_attrs_fst F traits _ _ Hl1) as Hfst.
        unfold hash_variant in Hv. inv_bind_as Hv as tav Htav.
        rewrite Hl1 in Hv. cbn [bind] in Hv. inversion Hv; subst arm tys; clear Hv.
        destruct (v_fields v) as [fs|fs|] eqn:Efs; cbn [fields_list] in Hl1, Hfst.
        * (* named *)
          cbn [fields_wf] in Hfw. destruct Hfw as [Hnames Hnd].
          assert (Hnamed : forall f fa, In (f, fa) l1 -> f_name f <> None).
          { intros f fa Hin. apply Hnames. rewrite <- Hfst. apply (in_map fst l1 (f, fa)). exact Hin. }
          assert (Hk : keyed l1 = map (fun t => (fname (fst t), snd t)) l1).
          { rewrite keyed_eq. unfold indexed. apply keyed_named_from. exact Hnamed. }
          rewrite Hk in *.
          assert (Hkeys : map fst (map (fun t : field * fattr => (fname (fst t), snd t)) l1)
                          = map (fun t => fname (fst t)) l1) by (rewrite map_map; reflexivity).
          rewrite Hkeys in Hxs.
          rewrite hash_arm_named_eq. cbn [fst snd].
          rewrite (match_struct_pat (st_store s) self_place "v_" (v_name v) va xs l1).
          -- rewrite En. apply (arm_named_eval I h i0 l1 va xs s Hs); [|exact Hxs].
             assert (Hmap : map (fun t => unraw (fname (fst t))) l1
                            = map (fun f => unraw match f_name f with Some n => n | None => "" end) fs).
             { rewrite <- Hfst. rewrite map_map. reflexivity. }
             rewrite Hmap. exact Hnd.
          -- exact Hself.
          -- rewrite <- (map_length (fun t => fname (fst t)) l1), Hxs, map_length. reflexivity.
          -- intros f fa Hin. rewrite (load_self_h h s (Some va) xs _ Hs).
             apply in_fst_lookup. rewrite <- Hxs.
             apply (in_map (fun t => fname (fst t)) l1 (f, fa)). exact Hin.
        * (* unnamed *)
          cbn [fields_wf] in Hfw.
          assert (Hunnamed : forall f fa, In (f, fa) l1 -> f_name f = None).
          { intros f fa Hin. apply Hfw. rewrite <- Hfst. apply (in_map fst l1 (f, fa)). exact Hin. }
          assert (Hk : keyed l1 = map (fun t => (dec (fst t), snd (snd t))) (indexed l1)).
          { rewrite keyed_eq. unfold indexed. apply keyed_unnamed_from. exact Hunnamed. }
          rewrite Hk in *.
          assert (Hkeys : map fst (map (fun t : nat * (field * fattr) => (dec (fst t), snd (snd t))) (indexed l1))
                          = map (fun t => dec (fst t)) (indexed l1)) by (rewrite map_map; reflexivity).
          rewrite Hkeys in Hxs.
          rewrite hash_arm_unnamed_eq. cbn [fst snd].
          rewrite (match_tuple_pat (st_store s) self_place "_" (v_name v) va xs (indexed l1)).
          -- rewrite En. apply (arm_unnamed_eval I h i0 l1 va xs s Hs). exact Hxs.
          -- exact Hself.
          -- rewrite <- (map_length (fun t => dec (fst t)) (indexed l1)), Hxs, map_length. reflexivity.
          -- unfold indexed. rewrite index_from_fst, index_from_length. reflexivity.
          -- intros i f fa Hin. rewrite (load_self_h h s (Some va) xs _ Hs).
             apply in_fst_lookup. rewrite <- Hxs.
             apply (in_map (fun t => dec (fst t)) (indexed l1) (i, (f, fa))). exact Hin.
        * (* unit *)
          cbn [hash_field_attrs mapM] in Hl1. inversion Hl1; subst l1.
          cbn [hash_arm fst snd]. rewrite (match_unit_pat (st_store s) self_place (v_name v) va xs Hself).
          rewrite En. cbn [app].
          change (EBlock [hash_index_stmt i0]) with (EBlock (hash_index_stmt i0 :: hash_stmts [])).
          apply (arm_block_eval I h hash_env i0 [] (Some va) xs s eq_refl Hs).
          -- intros k fa op [].
          -- intros k fa op [].
      + pose proof (hash_arm_pat_other F traits (i0, v) arm tys (st_store s) va xs Hv Hself En) as Hnone.
        destruct arm as [ap ab]. cbn [fst] in Hnone. rewrite Hnone.
        replace (i0 + S (vcfg_index va c')) with (S i0 + vcfg_index va c') by lia.
        apply (IH (S i0) arms' c' Harms' Hc'); try assumption.
        intros w Hw. apply Hwf. right. exact Hw.
  Qed.

  Theorem enum_hash_trace d m vs items c v :
    d_data d = DEnum vs ->
    (forall v, In v vs -> fields_wf (v_fields v)) ->
    expand_hash F traits d m = Ok items ->
    hash_cfg F traits d = Ok c ->
    keys_ok c v = true ->
    exists it, items = [it] /\ run_hash I it v h = spec_hash_trace c h v.
  Proof.
    intros Hd Hwf He Hc Hv.
    unfold expand_hash in He. rewrite Hd in He.
    inv_bind He. inv_bind He. inversion He; subst items; clear He. rename a0 into arms.
    unfold hash_cfg in Hc. rewrite Hd in Hc. fold (hcfg_entry F traits) in Hc.
    destruct (keys_ok_inv _ _ Hv) as [vn [xs [l [-> [Hl Hkeys]]]]].
    assert (Hsome : forall vn l, vcfg_get vn c = Some l -> exists n, vn = Some n).
    { clear - Hc. revert c Hc. induction vs as [|v r IH]; intros c Hc vn l H.
      - cbn in Hc. inversion Hc; subst c. discriminate H.
      - cbn [mapM] in Hc. inv_bind Hc. inv_bind Hc. inversion Hc; subst c.
        unfold hcfg_entry in Hb. inv_bind Hb. inversion Hb; subst a.
        cbn [vcfg_get] in H. destruct vn as [n|]; [eauto|]. eapply IH; eauto. }
    destruct (Hsome _ _ Hl) as [na ->].
    eexists; split; [reflexivity|].
    unfold run_hash, find_fn, hash_item. cbn [i_members find String.eqb Ascii.eqb Bool.eqb].
    cbn [spec_hash_trace]. rewrite Hl.
    destruct arms as [|arm0 arms'] eqn:Earms.
    - destruct vs as [|v r]; [cbn in Hc; inversion Hc; subst c; discriminate Hl|].
      unfold indexed in Hb0. cbn [index_from mapM] in Hb0. inv_bind Hb0. inv_bind Hb0. discriminate Hb0.
    - rewrite <- Earms in *. assert (Hnn : is_nil arms = false) by (rewrite Earms; reflexivity).
      rewrite Hnn. unfold run_body. cbn [eval_block eval hash_env lookup String.eqb Ascii.eqb Bool.eqb is_nil].
      rewrite (hash_arms_eval vs 0 arms c Hb0 Hc Hwf na xs l (hash_state (VData (Some na) xs) h));
        [reflexivity|reflexivity|exact Hl|exact Hkeys].
  Qed.
End EnumTop.
