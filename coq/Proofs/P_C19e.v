(** C19 / H2 -- the bindings a template introduces: shared lemmas; PartialEq, Hash, Clone,
    PartialOrd, Ord. *)
From Educe.Proofs Require Export P_C01e P_C07c.
From Educe.Spec Require Export SpecEq.     (* fields_wf, data_wf *)

(** ** binder classes: every binding of a pattern starts with the template's prefix *)
Fixpoint prefixb (pre s : string) : bool :=
  match pre with
  | EmptyString => true
  | String a p => match s with
                  | String b r => Ascii.eqb a b && prefixb p r
                  | EmptyString => false
                  end
  end.

Lemma prefixb_append pre k : prefixb pre (pre ^^ k) = true.
Proof. induction pre as [|a p IH]; cbn; [reflexivity|]. rewrite Ascii.eqb_refl. exact IH. Qed.

Lemma append_inj pre a b : pre ^^ a = pre ^^ b -> a = b.
Proof.
  intros H. apply String.eqb_eq. rewrite <- (append_eqb_prefix pre). apply String.eqb_eq. exact H.
Qed.

Lemma In_mem_str s l : mem_str s l = true -> In s l.
Proof.
  unfold mem_str. intros H. apply existsb_exists in H. destruct H as [x [Hin Hx]].
  apply String.eqb_eq in Hx. subst x. exact Hin.
Qed.

Lemma NoDup_nodupb l : NoDup l -> nodupb l = true.
Proof. apply nodupb_NoDup. Qed.

(** a name outside the class is not among names of the class *)
Lemma mem_str_class pre x l :
  prefixb pre x = false -> (forall b, In b l -> prefixb pre b = true) -> mem_str x l = false.
Proof.
  intros Hx Hl. apply mem_str_not_In. intros Hin. rewrite (Hl x Hin) in Hx. discriminate Hx.
Qed.

Lemma h2_pnode_class pre c p :
  NoDup (pat_binders p) ->
  (forall b, In b (pat_binders p) -> prefixb pre b = true) ->
  forallb (fun s => negb (prefixb pre s)) (fst c ++ snd c) = true ->
  h2_pnode c p = true.
Proof.
  intros Hnd Hcl Hsc. unfold h2_pnode. rewrite (nodupb_NoDup _ Hnd). cbn [andb].
  apply forallb_forall. intros b Hb. apply negb_true_iff. apply mem_str_not_In. intros Hin.
  rewrite forallb_forall in Hsc. specialize (Hsc b Hin). rewrite (Hcl b Hb) in Hsc. discriminate Hsc.
Qed.

Lemma h2_pnode_nobinders c p : pat_binders p = [] -> h2_pnode c p = true.
Proof. intros H. unfold h2_pnode. rewrite H. reflexivity. Qed.

(** ** the bindings of the per-field patterns *)
Section Binders.
  Context {A : Type}.
  Variable key : A -> string.
  Variable keep : A -> bool.
  Variable pre : string.

  Definition field_binders (l : list A) : list string :=
    flat_map (fun x => if keep x then [pre ^^ key x] else []) l.

  Lemma field_binders_in l b : In b (field_binders l) -> exists x, In x l /\ b = pre ^^ key x.
  Proof.
    unfold field_binders. intros H. apply in_flat_map in H. destruct H as [x [Hx Hb]].
    destruct (keep x); [|destruct Hb]. destruct Hb as [<-|[]]. eauto.
  Qed.

  Lemma field_binders_class l b : In b (field_binders l) -> prefixb pre b = true.
  Proof. intros H. destruct (field_binders_in l b H) as [x [_ ->]]. apply prefixb_append. Qed.

  Lemma field_binders_NoDup l : NoDup (map key l) -> NoDup (field_binders l).
  Proof.
    unfold field_binders. induction l as [|x l IH]; intros H; cbn [flat_map map] in *; [constructor|].
    inversion H as [|? ? Hx Hl]; subst. destruct (keep x); cbn [app]; [|apply IH; exact Hl].
    constructor; [|apply IH; exact Hl]. intros Hin.
    destruct (field_binders_in l _ Hin) as [y [Hy Heq]]. apply append_inj in Heq.
    apply Hx. rewrite Heq. apply in_map. exact Hy.
  Qed.
End Binders.

(** the bindings of a struct pattern / tuple pattern built per field *)
Lemma binders_struct {A} r t rs (g : A -> string * option pat) l :
  pat_binders (PStruct r (map g l) t rs) =
  flat_map (fun x => match snd (g x) with Some q => pat_binders q | None => [fst (g x)] end) l.
Proof.
  cbn [pat_binders]. induction l as [|x l IH]; cbn [map flat_map]; [reflexivity|].
  rewrite IH. reflexivity.
Qed.

Lemma binders_tuple {A} r t rs (g : A -> pat) l :
  pat_binders (PTuple r (map g l) t rs) = flat_map (fun x => pat_binders (g x)) l.
Proof.
  cbn [pat_binders]. induction l as [|x l IH]; cbn [map flat_map]; [reflexivity|].
  rewrite IH. reflexivity.
Qed.

Lemma flat_map_ext' {A B} (f g : A -> list B) l : (forall x, f x = g x) -> flat_map f l = flat_map g l.
Proof. intros H. induction l as [|x l IH]; cbn; [reflexivity|]. rewrite H, IH. reflexivity. Qed.

Lemma map_fst_indexed {A} (l : list A) : map fst (indexed l) = seq 0 (List.length l).
Proof.
  unfold indexed. generalize 0. induction l as [|x l IH]; intros k; cbn; [reflexivity|].
  rewrite IH. reflexivity.
Qed.

Lemma NoDup_dec_indices {A} (idx : A -> nat) l : NoDup (map idx l) -> NoDup (map (fun x => dec (idx x)) l).
Proof.
  intros H. rewrite <- (map_map idx dec). apply NoDup_map_of_inj; [exact dec_inj|exact H].
Qed.

(** scopes *)
Lemma scope_app pre (a b : list string) :
  forallb (fun s => negb (prefixb pre s)) a = true ->
  forallb (fun s => negb (prefixb pre s)) b = true ->
  forallb (fun s => negb (prefixb pre s)) (a ++ b) = true.
Proof. intros Ha Hb. rewrite forallb_app, Ha, Hb. reflexivity. Qed.

Lemma scope_binders {A} pre pre' (key : A -> string) keep l :
  (forall k, prefixb pre (pre' ^^ k) = false) ->
  forallb (fun s => negb (prefixb pre s)) (field_binders key keep pre' l) = true.
Proof.
  intros H. apply forallb_forall. intros b Hb.
  destruct (field_binders_in key keep pre' l b Hb) as [x [_ ->]]. rewrite H. reflexivity.
Qed.

(** `__` is not a prefix of `_<digits>` *)
Lemma uu_not_prefix_dec i : prefixb "__" ("_" ^^ dec i) = false.
Proof.
  pose proof (dec_starts_digit i) as H. destruct (dec i) as [|c r]; [discriminate H|].
  change (prefixb "__" ("_" ^^ String c r))
    with (Ascii.eqb "_" "_" && (Ascii.eqb "_" c && prefixb "" r)).
  destruct (Ascii.eqb "_" c) eqn:E; [|reflexivity].
  apply Ascii.eqb_eq in E. subst c. discriminate H.
Qed.

Ltac bsimpl :=
  cbv beta delta [member_binds item_binds];
  cbn [expr_binds walk walk_body h2_node let_names forallb flat_map app
       fst snd andb negb mem_str existsb String.eqb Ascii.eqb Bool.eqb map i_members nodupb];
  fold expr_binds;
  cbv beta delta [h2_enter_block h2_enter_arm];
  cbn [let_names forallb flat_map app fst snd andb negb mem_str existsb String.eqb Ascii.eqb
       Bool.eqb nodupb].

Lemma one_fn_item_binds attrs g tr self_ fattrs name sig params body :
  nodupb params = true ->
  forallb (expr_binds (params, flat_map let_names body ++ [])) body = true ->
  item_binds {| i_attrs := attrs; i_generics := g; i_trait := tr; i_self := self_;
                i_members := [MFn fattrs name sig params body] |} = true.
Proof.
  intros Hp H. unfold item_binds. cbn [i_members forallb member_binds]. rewrite Hp.
  unfold walk_body. fold expr_binds. unfold h2_enter_block. cbn [fst snd]. rewrite H. reflexivity.
Qed.

(** * PartialEq *)
Lemma peq_check_binds c fa a b :
  expr_binds c a = true -> expr_binds c b = true -> expr_binds c (peq_check fa a b) = true.
Proof.
  intros Ha Hb. unfold peq_check, ne_path. destruct (fa_method fa); bsimpl; rewrite Ha, Hb; reflexivity.
Qed.

Definition fa_keep (x : field * fattr) : bool := negb (fa_ignore (snd x)).
Definition fa_key (x : field * fattr) : string :=
  unraw (match f_name (fst x) with Some n => n | None => "" end).

Lemma peq_named_binders r t rs pre l :
  pat_binders (PStruct r (map (fun '(f, fa) =>
     (match f_name f with Some n => n | None => "" end,
      Some (if fa_ignore fa then PWild
            else PBind (pre ^^ unraw (match f_name f with Some n => n | None => "" end))))) l) t rs)
  = field_binders fa_key fa_keep pre l.
Proof.
  rewrite (binders_struct r t rs). unfold field_binders. apply flat_map_ext'. intros [f fa].
  unfold fa_keep, fa_key. cbn [fst snd]. destruct (fa_ignore fa); reflexivity.
Qed.

Definition ifa_keep (x : nat * (field * fattr)) : bool := negb (fa_ignore (snd (snd x))).
Definition i_key {A} (x : nat * A) : string := dec (fst x).

Lemma peq_unnamed_binders r t rs pre (l : list (nat * (field * fattr))) :
  pat_binders (PTuple r (map (fun '(i, (f, fa)) =>
     if fa_ignore fa then PWild else PBind (pre ^^ dec i)) l) t rs)
  = field_binders i_key ifa_keep pre l.
Proof.
  rewrite (binders_tuple r t rs). unfold field_binders. apply flat_map_ext'. intros [i [f fa]].
  unfold ifa_keep, i_key. cbn [fst snd]. destruct (fa_ignore fa); reflexivity.
Qed.

Lemma indexed_keys_NoDup {A} (l : list A) : NoDup (map (@i_key A) (indexed l)).
Proof.
  unfold i_key. apply NoDup_dec_indices. rewrite map_fst_indexed. apply seq_NoDup.
Qed.

(** the two-level arm `P1 => { if let P2 = src { stmts } [else { els }] }` *)
Definition cls (pre b : string) : Prop := exists k, b = pre ^^ k.

Lemma cls_prefixb pre b : cls pre b -> prefixb pre b = true.
Proof. intros [k ->]. apply prefixb_append. Qed.

Lemma field_binders_cls {A} (key : A -> string) keep pre l b :
  In b (field_binders key keep pre l) -> cls pre b.
Proof. intros H. destruct (field_binders_in key keep pre l b H) as [x [_ ->]]. eexists; reflexivity. Qed.

Lemma two_level_arm_binds c P1 P2 src stmts els pre1 pre2 (C1 : string -> Prop) :
  snd c = [] ->
  NoDup (pat_binders P1) -> NoDup (pat_binders P2) ->
  (forall b, In b (pat_binders P1) -> C1 b) ->
  (forall b, In b (pat_binders P2) -> cls pre2 b) ->
  forallb (fun s => negb (prefixb pre1 s)) (fst c) = true ->
  forallb (fun s => negb (prefixb pre2 s)) (fst c) = true ->
  (forall b, C1 b -> prefixb pre1 b = true /\ prefixb pre2 b = false) ->
  (forall c', forallb (expr_binds c') stmts = true) ->
  (forall c', match els with Some b => forallb (expr_binds c') b | None => true end = true) ->
  h2_pnode c P1 = true /\
  expr_binds (h2_enter_arm c P1) (EBlock [EIfLet P2 (EVar src) stmts els]) = true.
Proof.
  intros Hs Hn1 Hn2 Hc1 Hc2 Hsc1 Hsc2 Hdis Hst Hel. destruct c as [hard soft].
  cbn [fst snd] in *. subst soft. split.
  - apply (h2_pnode_class pre1); [exact Hn1|intros b Hb; apply (Hdis b (Hc1 b Hb))|].
    cbn [fst snd]. rewrite app_nil_r. exact Hsc1.
  - bsimpl. rewrite Hst. cbn [andb].
    assert (Hp2 : h2_pnode (pat_binders P1 ++ hard, []) P2 = true).
    { apply (h2_pnode_class pre2); [exact Hn2|intros b Hb; apply cls_prefixb; auto|].
      cbn [fst snd]. rewrite app_nil_r. apply scope_app; [|exact Hsc2].
      apply forallb_forall. intros b Hb. destruct (Hdis b (Hc1 b Hb)) as [_ ->]. reflexivity. }
    rewrite Hp2. cbn [andb]. rewrite andb_true_r.
    destruct els as [b|]; [apply Hel|reflexivity].
Qed.

Lemma wf_named_keys (fs : list field) (l : list (field * fattr)) :
  fields_wf (FNamed fs) -> map fst l = fs -> NoDup (map fa_key l).
Proof.
  intros [_ Hnd] Hl. unfold fa_key. rewrite <- Hl, map_map in Hnd. exact Hnd.
Qed.

(** the scopes of the methods *)
Lemma cls_so b : cls "_s_" b -> prefixb "_s_" b = true /\ prefixb "_o_" b = false.
Proof. intros [k ->]. split; reflexivity. Qed.
Lemma cls_ds b : cls "_d_" b -> prefixb "_d_" b = true /\ prefixb "_s_" b = false.
Proof. intros [k ->]. split; reflexivity. Qed.
(** `_<digits>` *)
Definition cls_idx (b : string) : Prop := exists i, b = "_" ^^ dec i.
Lemma cls_uu b : cls_idx b -> prefixb "_" b = true /\ prefixb "__" b = false.
Proof. intros [i ->]. split; [reflexivity|apply uu_not_prefix_dec]. Qed.

Lemma idx_binders_cls {A} (keep : nat * A -> bool) l b :
  In b (field_binders i_key keep "_" l) -> cls_idx b.
Proof.
  intros H. destruct (field_binders_in i_key keep "_" l b H) as [x [_ ->]]. exists (fst x). reflexivity.
Qed.

Lemma peq_variant_binds F traits v r c :
  fields_wf (v_fields v) -> fst c = ["self"; "other"] -> snd c = [] ->
  peq_variant F traits v = Ok r ->
  h2_pnode c (fst (fst r)) = true /\ expr_binds (h2_enter_arm c (fst (fst r))) (snd (fst r)) = true.
Proof.
  intros Hwf Hc1 Hc2 H. unfold peq_variant in H. inv_bind H.
  assert (Hchecks : forall (A : Type) (g : A -> list expr) (l : list A),
             (forall x c', forallb (expr_binds c') (g x) = true) ->
             forall c', forallb (expr_binds c') (flat_map g l) = true).
  { intros A g l Hg c'. rewrite forallb_flat_map. apply forallb_true. intros x. apply Hg. }
  destruct (v_fields v) as [fs|fs|] eqn:Ef.
  - inv_bind H. inversion H; subst r. cbn [fst snd]. pose proof (field_attrs_fst' _ _ _ _ Hb0) as Hl.
    pose proof (wf_named_keys fs a0 Hwf Hl) as Hnd.
    unfold peq_arm_named. cbn [fst snd].
    apply (two_level_arm_binds c _ _ "other" _ else_false "_s_" "_o_" (cls "_s_")); try assumption.
    + rewrite peq_named_binders. apply field_binders_NoDup. exact Hnd.
    + rewrite peq_named_binders. apply field_binders_NoDup. exact Hnd.
    + intros b. rewrite peq_named_binders. apply field_binders_cls.
    + intros b. rewrite peq_named_binders. apply field_binders_cls.
    + rewrite Hc1. reflexivity.
    + rewrite Hc1. reflexivity.
    + exact cls_so.
    + apply Hchecks. intros [f fa] c'. destruct (fa_ignore fa); [reflexivity|]. cbn [forallb].
      rewrite peq_check_binds; reflexivity.
    + intros c'. reflexivity.
  - inv_bind H. inversion H; subst r. cbn [fst snd].
    unfold peq_arm_unnamed. cbn [fst snd].
    apply (two_level_arm_binds c _ _ "other" _ else_false "_" "__" cls_idx); try assumption.
    + rewrite peq_unnamed_binders. apply field_binders_NoDup. apply indexed_keys_NoDup.
    + rewrite peq_unnamed_binders. apply field_binders_NoDup. apply indexed_keys_NoDup.
    + intros b. rewrite peq_unnamed_binders. apply idx_binders_cls.
    + intros b. rewrite peq_unnamed_binders. apply field_binders_cls.
    + rewrite Hc1. reflexivity.
    + rewrite Hc1. reflexivity.
    + exact cls_uu.
    + apply Hchecks. intros [i [f fa]] c'. destruct (fa_ignore fa); [reflexivity|]. cbn [forallb].
      rewrite peq_check_binds; reflexivity.
    + intros c'. reflexivity.
  - inversion H; subst r. cbn [fst snd]. unfold peq_arm_unit. cbn [fst snd]. split; [reflexivity|].
    bsimpl. reflexivity.
Qed.

Lemma mapM_Forall_r {A B} (f : A -> outcome B) l r (P : B -> Prop) :
  mapM f l = Ok r -> (forall x y, In x l -> f x = Ok y -> P y) -> Forall P r.
Proof.
  intros H HP. apply mapM_ok_Forall2 in H. induction H as [|x y l r Hxy _ IH]; constructor.
  - apply (HP x y); [left; reflexivity|exact Hxy].
  - apply IH. intros x' y' Hin. apply HP. right. exact Hin.
Qed.

Lemma arms_binds {A} hard soft (g : A -> pat * expr) (rs : list A) :
  Forall (fun r => h2_pnode (hard, soft) (fst (g r)) = true /\
                   expr_binds (h2_enter_arm (hard, soft) (fst (g r))) (snd (g r)) = true) rs ->
  forallb (fun pe => h2_pnode (hard, soft) (fst pe) &&
                     expr_binds (pat_binders (fst pe) ++ hard, soft) (snd pe))
          (map g rs) = true.
Proof.
  induction 1 as [|r rs [Hp He] _ IH]; [reflexivity|]. cbn [map forallb].
  unfold h2_enter_arm in He. cbn [fst snd] in He. rewrite Hp, He. exact IH.
Qed.

Lemma self_field_binds c x n : expr_binds c (ERef (EField (EVar x) n)) = true.
Proof. reflexivity. Qed.

Theorem partial_eq_binds F traits d m items :
  data_wf (d_data d) ->
  expand_partial_eq F traits d m = Ok items -> forallb item_binds items = true.
Proof.
  intros Hwf. unfold expand_partial_eq. intros H.
  assert (Hitems : forall g body,
             forallb (expr_binds (["self"; "other"], flat_map let_names (body ++ [EBool true]) ++ []))
                     body = true ->
             forallb item_binds (peq_items traits F d g body) = true).
  { intros g body Hb. unfold peq_items. cbn [forallb]. rewrite one_fn_item_binds.
    - destruct (has_trait TEq F && has_trait TEq traits); reflexivity.
    - reflexivity.
    - rewrite forallb_app, Hb. reflexivity. }
  destruct (d_data d) as [fs|vs|fs] eqn:Ed.
  - inv_bind H. inv_bind H. inversion H; subst items. apply Hitems.
    unfold peq_struct_body at 2. rewrite forallb_flat_map. apply forallb_true. intros [[i f] fa].
    destruct (fa_ignore fa); [reflexivity|]. cbn [forallb]. rewrite peq_check_binds; reflexivity.
  - inv_bind H. inv_bind H. inversion H; subst items. apply Hitems.
    destruct (is_nil a0); [reflexivity|].
    bsimpl. rewrite andb_true_r.
    apply (arms_binds ["self"; "other"] [] fst a0).
    apply (mapM_Forall_r _ _ _ _ Hb0). intros v r Hin Hv.
    apply (peq_variant_binds F traits v r (["self"; "other"], []) (Hwf v Hin) eq_refl eq_refl Hv).
  - inv_bind H. destruct (negb (ta_unsafe a)); [discriminate H|]. inv_bind H.
    inversion H; subst items. cbn [forallb]. rewrite one_fn_item_binds.
    + destruct (has_trait TEq F && has_trait TEq traits); reflexivity.
    + reflexivity.
    + reflexivity.
Qed.

(** the one-level arm `P => body` whose body binds nothing *)
Lemma one_level_arm_binds hard P body pre :
  NoDup (pat_binders P) -> (forall b, In b (pat_binders P) -> prefixb pre b = true) ->
  forallb (fun s => negb (prefixb pre s)) hard = true ->
  (forall c', expr_binds c' body = true) ->
  h2_pnode (hard, []) P = true /\ expr_binds (h2_enter_arm (hard, []) P) body = true.
Proof.
  intros Hn Hc Hs Hb. split; [|apply Hb].
  apply (h2_pnode_class pre); [exact Hn|exact Hc|]. cbn [fst snd]. rewrite app_nil_r. exact Hs.
Qed.

(** * Hash *)
Lemma hash_stmt_binds c fa op : expr_binds c op = true -> expr_binds c (hash_stmt fa op) = true.
Proof.
  intros Ho. unfold hash_stmt, hash_callee. destruct (fa_method fa); bsimpl; rewrite Ho; reflexivity.
Qed.

Lemma hash_variant_binds F traits vi v r :
  fields_wf (v_fields v) -> hash_variant F traits (vi, v) = Ok r ->
  h2_pnode (["self"; "state"], []) (fst (fst r)) = true /\
  expr_binds (h2_enter_arm (["self"; "state"], []) (fst (fst r))) (snd (fst r)) = true.
Proof.
  intros Hwf H. unfold hash_variant in H. inv_bind H. inv_bind H. inversion H; subst r.
  cbn [fst snd]. pose proof (mapM_fst _ _ _ Hb0) as Hl. unfold hash_arm, hash_index_stmt.
  destruct (v_fields v) as [fs|fs|] eqn:Ef; cbn [fields_list] in Hl; cbn [fst snd].
  - apply (one_level_arm_binds _ _ _ "v_").
    + rewrite peq_named_binders. apply field_binders_NoDup. apply (wf_named_keys fs a0 Hwf Hl).
    + intros b. rewrite peq_named_binders. apply field_binders_class.
    + reflexivity.
    + intros c'. bsimpl. rewrite forallb_flat_map. apply forallb_true. intros [f fa].
      destruct (fa_ignore fa); [reflexivity|]. cbn [forallb]. rewrite hash_stmt_binds; reflexivity.
  - apply (one_level_arm_binds _ _ _ "_").
    + rewrite peq_unnamed_binders. apply field_binders_NoDup. apply indexed_keys_NoDup.
    + intros b. rewrite peq_unnamed_binders. apply field_binders_class.
    + reflexivity.
    + intros c'. bsimpl. rewrite forallb_flat_map. apply forallb_true. intros [i [f fa]].
      destruct (fa_ignore fa); [reflexivity|]. cbn [forallb]. rewrite hash_stmt_binds; reflexivity.
  - split; reflexivity.
Qed.

Theorem hash_binds F traits d m items :
  data_wf (d_data d) ->
  expand_hash F traits d m = Ok items -> forallb item_binds items = true.
Proof.
  intros Hwf. unfold expand_hash. intros H. destruct (d_data d) as [fs|vs|fs] eqn:Ed.
  - inv_bind H. inv_bind H. inversion H; subst items. cbn [forallb]. unfold hash_item.
    rewrite one_fn_item_binds; [reflexivity|reflexivity|]. unfold hash_struct_body at 2.
    rewrite forallb_flat_map. apply forallb_true. intros [i [f fa]].
    destruct (fa_ignore fa); [reflexivity|]. cbn [forallb]. rewrite hash_stmt_binds; reflexivity.
  - inv_bind H. inv_bind H. inversion H; subst items. cbn [forallb]. unfold hash_item.
    rewrite one_fn_item_binds; [reflexivity|reflexivity|].
    destruct (is_nil a0); [reflexivity|]. bsimpl. rewrite andb_true_r.
    apply (arms_binds ["self"; "state"] [] fst a0).
    apply (mapM_Forall_r _ _ _ _ Hb0). intros [vi v] r Hin Hv. apply in_indexed in Hin.
    apply (hash_variant_binds F traits vi v r (Hwf v Hin) Hv).
  - inv_bind H. destruct (negb (ta_unsafe a)); [discriminate H|]. inv_bind H.
    inversion H; subst items. reflexivity.
Qed.

(** * Clone *)
Lemma clone_call_binds c m src : expr_binds c src = true -> expr_binds c (clone_call m src) = true.
Proof. intros Hs. unfold clone_call, clone_fn. destruct m; bsimpl; rewrite Hs; reflexivity. Qed.

Lemma clone_from_stmt_binds c m dp dr src :
  expr_binds c dp = true -> expr_binds c dr = true -> expr_binds c src = true ->
  expr_binds c (clone_from_stmt m dp dr src) = true.
Proof.
  intros H1 H2 H3. unfold clone_from_stmt, clone_from_fn. destruct m; bsimpl;
    rewrite ?H1, ?H2, ?H3; reflexivity.
Qed.

Definition c_key (x : cfield) : string := unraw (cfield_name (fst x)).
Definition c_keep (x : cfield) : bool := true.
Definition ic_keep (x : nat * cfield) : bool := true.

Lemma clone_named_binders r t rs pre (l : list cfield) :
  pat_binders (PStruct r (map (fun '(f, m) =>
     (cfield_name f, Some (PBind (pre ^^ unraw (cfield_name f))))) l) t rs)
  = field_binders c_key c_keep pre l.
Proof.
  rewrite (binders_struct r t rs). unfold field_binders. apply flat_map_ext'. intros [f m]. reflexivity.
Qed.

Lemma clone_unnamed_binders r t rs pre (l : list (nat * cfield)) :
  pat_binders (PTuple r (map (fun '(i, (f, m)) => PBind (pre ^^ dec i)) l) t rs)
  = field_binders i_key ic_keep pre l.
Proof.
  rewrite (binders_tuple r t rs). unfold field_binders. apply flat_map_ext'. intros [i [f m]]. reflexivity.
Qed.

Lemma wf_named_ckeys (fs : list field) (l : list cfield) :
  fields_wf (FNamed fs) -> map fst l = fs -> NoDup (map c_key l).
Proof.
  intros [_ Hnd] Hl. unfold c_key, cfield_name. rewrite <- Hl, map_map in Hnd. exact Hnd.
Qed.

Lemma clone_variant_binds F traits v cv :
  fields_wf (v_fields v) -> clone_variant F traits v = Ok cv ->
  (h2_pnode (["self"], []) (fst (clone_arm cv)) = true /\
   expr_binds (h2_enter_arm (["self"], []) (fst (clone_arm cv))) (snd (clone_arm cv)) = true) /\
  (h2_pnode (["self"; "source"], []) (fst (clone_from_arm cv)) = true /\
   expr_binds (h2_enter_arm (["self"; "source"], []) (fst (clone_from_arm cv)))
              (snd (clone_from_arm cv)) = true).
Proof.
  intros Hwf H. unfold clone_variant in H. inv_bind H. inv_bind H. inversion H; subst cv.
  pose proof (clone_field_attrs_fst _ _ _ _ _ Hb0) as Hl.
  unfold clone_arm, clone_from_arm. cbn [cv_name cv_fields cv_plan].
  destruct (v_fields v) as [fs|fs|] eqn:Ef; cbn [fields_list] in Hl; cbn [fst snd].
  - pose proof (wf_named_ckeys fs a0 Hwf Hl) as Hnd. split.
    + apply (one_level_arm_binds _ _ _ "_s_").
      * rewrite clone_named_binders. apply field_binders_NoDup. exact Hnd.
      * intros b. rewrite clone_named_binders. apply field_binders_class.
      * reflexivity.
      * intros c'. bsimpl. rewrite forallb_map. apply forallb_true. intros [f m]. cbn [snd].
        apply clone_call_binds. reflexivity.
    + apply (two_level_arm_binds (["self"; "source"], []) _ _ "source" _ else_clone_source
               "_d_" "_s_" (cls "_d_")); try reflexivity.
      * rewrite clone_named_binders. apply field_binders_NoDup. exact Hnd.
      * rewrite clone_named_binders. apply field_binders_NoDup. exact Hnd.
      * intros b. rewrite clone_named_binders. apply field_binders_cls.
      * intros b. rewrite clone_named_binders. apply field_binders_cls.
      * exact cls_ds.
      * intros c'. rewrite forallb_map. apply forallb_true. intros [f m].
        apply clone_from_stmt_binds; reflexivity.
  - split.
    + apply (one_level_arm_binds _ _ _ "_").
      * rewrite clone_unnamed_binders. apply field_binders_NoDup. apply indexed_keys_NoDup.
      * intros b. rewrite clone_unnamed_binders. apply field_binders_class.
      * reflexivity.
      * intros c'. bsimpl. rewrite forallb_map. apply forallb_true. intros [i [f m]].
        apply clone_call_binds. reflexivity.
    + apply (two_level_arm_binds (["self"; "source"], []) _ _ "source" _ else_clone_source
               "_" "__" cls_idx); try reflexivity.
      * rewrite clone_unnamed_binders. apply field_binders_NoDup. apply indexed_keys_NoDup.
      * rewrite clone_unnamed_binders. apply field_binders_NoDup. apply indexed_keys_NoDup.
      * intros b. rewrite clone_unnamed_binders. apply idx_binders_cls.
      * intros b. rewrite clone_unnamed_binders. apply field_binders_cls.
      * exact cls_uu.
      * intros c'. rewrite forallb_map. apply forallb_true. intros [i [f m]].
        apply clone_from_stmt_binds; reflexivity.
  - split; split; reflexivity.
Qed.

Lemma clone_items_binds ce d g body from_body :
  forallb (expr_binds (["self"], flat_map let_names body ++ [])) body = true ->
  forallb (expr_binds (["self"; "source"], flat_map let_names from_body ++ [])) from_body = true ->
  forallb item_binds (clone_items ce d g body from_body) = true.
Proof.
  intros Hb Hf. unfold clone_items. cbn [forallb]. rewrite andb_true_iff. split.
  - unfold item_binds. cbn [i_members forallb member_binds nodupb mem_str existsb negb andb].
    unfold walk_body. fold expr_binds. unfold h2_enter_block. cbn [fst snd]. rewrite Hb.
    cbn [andb]. destruct (is_nil from_body); [reflexivity|].
    cbn [forallb member_binds nodupb mem_str existsb negb andb String.eqb Ascii.eqb Bool.eqb].
    unfold walk_body. fold expr_binds. unfold h2_enter_block. cbn [fst snd]. rewrite Hf. reflexivity.
  - destruct ce; reflexivity.
Qed.

Theorem clone_binds F traits d m items :
  data_wf (d_data d) ->
  expand_clone F traits d m = Ok items -> forallb item_binds items = true.
Proof.
  intros Hwf. unfold expand_clone. intros H. inv_bind H. destruct (d_data d) as [fs|vs|fs] eqn:Ed.
  - inv_bind H. inversion H; subst items.
    destruct (has_trait TCopy F && has_trait TCopy traits).
    + apply clone_items_binds; reflexivity.
    + apply clone_items_binds.
      * unfold clone_struct_body. destruct fs as [nl|ul|]; [| |reflexivity]; bsimpl;
          rewrite forallb_map, ?andb_true_r; apply forallb_true; intros [i [f m0]]; cbn [snd];
          unfold cs_clone_field; apply clone_call_binds; reflexivity.
      * unfold clone_from_struct_body. destruct fs as [nl|ul|]; [| |reflexivity];
          (destruct (is_nil a0); [reflexivity|]); rewrite forallb_map; apply forallb_true;
          intros [i [f m0]]; unfold cs_clone_from_field; apply clone_from_stmt_binds; reflexivity.
  - inv_bind H. inversion H; subst items.
    destruct (negb (has_custom_method a0) && (has_trait TCopy F && has_trait TCopy traits)).
    + apply clone_items_binds; reflexivity.
    + assert (HF : Forall (fun cv =>
         (h2_pnode (["self"], []) (fst (clone_arm cv)) = true /\
          expr_binds (h2_enter_arm (["self"], []) (fst (clone_arm cv))) (snd (clone_arm cv)) = true) /\
         (h2_pnode (["self"; "source"], []) (fst (clone_from_arm cv)) = true /\
          expr_binds (h2_enter_arm (["self"; "source"], []) (fst (clone_from_arm cv)))
                     (snd (clone_from_arm cv)) = true)) a0).
      { apply (mapM_Forall_r _ _ _ _ Hb0). intros v cv Hin Hv.
        apply (clone_variant_binds F traits v cv (Hwf v Hin) Hv). }
      apply clone_items_binds.
      * unfold clone_enum_body. destruct (is_nil a0); [reflexivity|]. bsimpl. rewrite andb_true_r.
        apply (arms_binds ["self"] [] clone_arm a0).
        eapply Forall_impl; [|exact HF]. intros cv [H1 _]. exact H1.
      * unfold clone_from_enum_body. destruct (is_nil a0); [reflexivity|]. bsimpl.
        rewrite andb_true_r. apply (arms_binds ["self"; "source"] [] clone_from_arm a0).
        eapply Forall_impl; [|exact HF]. intros cv [_ H2]. exact H2.
  - inv_bind H. inversion H; subst items. apply clone_items_binds; reflexivity.
Qed.
