(** C14, part f: Eq, Copy, Clone, Deref, DerefMut. *)
From Educe.Proofs Require Export P_C14e.

(** * a tactic for "the emitted code only looks at the names and types of the fields" *)
Ltac fr_solve :=
  repeat match goal with
  | x : (_ * _)%type |- _ => destruct x
  | f : field |- _ => destruct f
  end;
  unfold FR, fsame in *; cbn [fst snd f_name f_ty] in *;
  repeat match goal with H : _ /\ _ |- _ => destruct H end; subst; reflexivity.

Ltac emit_step H :=
  first
  [ reflexivity
  | eapply map_Forall2; [exact H|intros ? ? ?; fr_solve]
  | eapply map_Forall2; [apply Forall2_index_from; exact H|intros ? ? ?; fr_solve]
  | eapply flat_map_Forall2; [exact H|intros ? ? ?; fr_solve]
  | eapply flat_map_Forall2; [apply Forall2_index_from; exact H|intros ? ? ?; fr_solve]
  | exact (Forall2_is_nil _ _ _ H)
  | f_equal ].
Ltac same_emit H := unfold indexed; repeat (emit_step H).

Lemma existsb_Forall2 {A B} (R : A -> B -> Prop) (f : A -> bool) (g : B -> bool) l l' :
  Forall2 R l l' -> (forall a b, R a b -> f a = g b) -> existsb f l = existsb g l'.
Proof. intros H Hf. induction H; cbn [existsb]; [reflexivity|]. rewrite (Hf _ _ H), IHForall2. reflexivity. Qed.

(** the kind of a field list *)
Definition kind_same (fs fs' : fields) : Prop :=
  match fs, fs' with
  | FNamed _, FNamed _ | FUnnamed _, FUnnamed _ | FUnit, FUnit => True
  | _, _ => False
  end.
Lemma fields_equiv_kind_same AE fs fs' : fields_equiv AE fs fs' -> kind_same fs fs'.
Proof. destruct 1; exact Logic.I. Qed.

(** when none of the scanner's traits has the `= true` shorthand *)
Lemma no_shorthand_build_true {A} F (own : trait -> bool) (build : meta -> outcome A) dflt :
  (forall t, own t = true -> ~ In (trait_name t) bool_shorthand_traits) ->
  forall p t, trait_from_path F p = Some t -> In (trait_name t) bool_shorthand_traits -> own t = true ->
              build (MNameValue p (XLit (tok_bool true))) = Ok dflt.
Proof. intros H p t _ Hin Ho. exfalso. exact (H t Ho Hin). Qed.

Lemma one_trait_no_shorthand T :
  ~ In (trait_name T) bool_shorthand_traits ->
  forall t, trait_eqb T t = true -> ~ In (trait_name t) bool_shorthand_traits.
Proof. intros H t E. apply trait_eqb_eq in E. subst. exact H. Qed.

(** * the markers: Eq and Copy on their own *)
Lemma marker_field_attr_spelling F own traits traits' attrs attrs' :
  ~ In (trait_name own) bool_shorthand_traits ->
  (forall t, has_trait t traits = has_trait t traits') ->
  field_attrs_equiv F traits attrs attrs' ->
  osim (marker_field_attr F own traits attrs) (marker_field_attr F own traits' attrs').
Proof.
  intros Hns Ht H.
  assert (E : forall tr at0, marker_field_attr F own tr at0 =
                (let* _ := scan_default F (trait_eqb own) (fun _ : meta => @Err unit E_attr_format) tr
                             Datatypes.tt at0 in Ok Datatypes.tt)).
  { intros. unfold marker_field_attr, scan_default. rewrite bind_assoc. reflexivity. }
  rewrite !E. apply osim_bind; [|intros x; apply osim_refl].
  apply scan_default_spelling;
    [exact Ht|intros; reflexivity|apply one_trait_group
    |intros p t _ Hin Ho; exfalso; apply trait_eqb_eq in Ho; subst; exact (Hns Hin)
    |intros m m' _ t _ _; exact Logic.I|exact H].
Qed.

Lemma marker_ufield_attr_spelling F own traits traits' attrs attrs' :
  (forall t, has_trait t traits = has_trait t traits') ->
  ufield_attrs_equiv attrs attrs' ->
  osim (marker_field_attr F own traits attrs) (marker_field_attr F own traits' attrs').
Proof.
  intros Ht H. unfold marker_field_attr. apply osim_bind; [|intros o; apply osim_refl].
  apply (scan_attrs_spelling F _ _ _ traits traits' PField); auto.
  intros m m' _ t _ _. exact Logic.I.
Qed.

Lemma one_trait_tattr_respects F T pos ef eu eb :
  pos <> PField -> In (trait_name T) tattr_traits ->
  build_respects F (trait_eqb T) (build_tattr ef eu eb) pos.
Proof.
  intros Hpos Hin m m' H t Et Eo. apply trait_eqb_eq in Eo. subst t.
  apply (build_tattr_equiv pos ef eu eb m m' Hpos H (trait_name T)).
  - exact (trait_from_path_name F _ T Et).
  - exact Hin.
Qed.

Lemma marker_variant_attr_spelling F own traits traits' attrs attrs' :
  In (trait_name own) tattr_traits ->
  (forall t, has_trait t traits = has_trait t traits') ->
  variant_attrs_equiv attrs attrs' ->
  osim (marker_variant_attr F own traits attrs) (marker_variant_attr F own traits' attrs').
Proof.
  intros Hin Ht H. unfold marker_variant_attr. apply osim_bind; [|intros o; apply osim_refl].
  apply (scan_attrs_spelling F _ _ _ traits traits' PVariant); auto.
  apply one_trait_tattr_respects; [discriminate|exact Hin].
Qed.

Lemma all_field_types_spelling F own traits traits' d d' :
  ~ In (trait_name own) bool_shorthand_traits -> In (trait_name own) tattr_traits ->
  (forall t, has_trait t traits = has_trait t traits') ->
  data_equiv F traits d d' ->
  osim (all_field_types F own traits d) (all_field_types F own traits' d').
Proof.
  intros Hns Hin Ht Hd. unfold all_field_types.
  assert (Hfs : forall l l', Forall2 (field_equiv (field_attrs_equiv F traits)) l l' ->
            osim (mapM (fun f => let* _ := marker_field_attr F own traits (f_attrs f) in Ok (f_ty f)) l)
                 (mapM (fun f => let* _ := marker_field_attr F own traits' (f_attrs f) in Ok (f_ty f)) l')).
  { intros l l' H. apply (mapM_osim (field_equiv (field_attrs_equiv F traits))); [|exact H].
    intros f f' [_ Hty Ha]. rewrite Hty. apply osim_bind; [|intros x; apply osim_refl].
    exact (marker_field_attr_spelling F own traits traits' _ _ Hns Ht Ha). }
  destruct Hd as [fs fs' H|vs vs' H|fs fs' H].
  - apply Hfs. exact (fields_equiv_list _ _ _ H).
  - apply osim_bind; [|intros x; apply osim_refl].
    apply (mapM_osim (variant_equiv F traits)); [|exact H].
    intros v v' [_ _ Ha Hf]. apply osim_bind.
    + exact (marker_variant_attr_spelling F own traits traits' _ _ Hin Ht Ha).
    + intros _. apply Hfs. exact (fields_equiv_list _ _ _ Hf).
  - apply (mapM_osim (field_equiv ufield_attrs_equiv)); [|exact H].
    intros f f' [_ Hty Ha]. rewrite Hty. apply osim_bind; [|intros x; apply osim_refl].
    exact (marker_ufield_attr_spelling F own traits traits' _ _ Ht Ha).
Qed.

Theorem expand_eq_spelling F traits traits' d d' m m' :
  (forall t, has_trait t traits = has_trait t traits') ->
  d_name d = d_name d' -> d_generics d = d_generics d' ->
  data_equiv F traits (d_data d) (d_data d') ->
  tmeta_equiv PType m m' -> get_ident (meta_path m) = Some "Eq"%string ->
  osim (expand_eq F traits d m) (expand_eq F traits' d' m').
Proof.
  intros Ht Hn Hg Hd Hm Hp. unfold expand_eq. rewrite <- Ht, <- Hg, <- Hn.
  apply osim_bind.
  { apply (tmeta_type_tattr _ _ _ m m' _ Hm Hp). cbn. auto 10. }
  intros ta. destruct (has_trait TPartialEq F && has_trait TPartialEq traits); [apply osim_refl|].
  apply osim_bind; [|intros x; apply osim_refl].
  apply all_field_types_spelling; auto.
  - cbn. intuition discriminate.
  - cbn. auto 10.
Qed.

Theorem expand_copy_spelling F traits traits' d d' m m' :
  (forall t, has_trait t traits = has_trait t traits') ->
  d_name d = d_name d' -> d_generics d = d_generics d' ->
  data_equiv F traits (d_data d) (d_data d') ->
  tmeta_equiv PType m m' -> get_ident (meta_path m) = Some "Copy"%string ->
  osim (expand_copy F traits d m) (expand_copy F traits' d' m').
Proof.
  intros Ht Hn Hg Hd Hm Hp. unfold expand_copy, copy_item, copy_generics. rewrite <- Ht, <- Hg, <- Hn.
  apply osim_bind.
  { apply (tmeta_type_tattr _ _ _ m m' _ Hm Hp). cbn. auto 10. }
  intros ta. destruct (has_trait TClone F && has_trait TClone traits); [apply osim_refl|].
  apply osim_bind; [|intros x; apply osim_refl].
  apply all_field_types_spelling; auto.
  - cbn. intuition discriminate.
  - cbn. auto 10.
Qed.

(** * Clone (+ the Copy companion) *)
Lemma clone_fattr_respects F pos ei em : build_respects F (trait_eqb TClone) (build_fattr ei em) pos.
Proof.
  intros m m' H t Et Eo. apply trait_eqb_eq in Eo. subst t.
  apply (build_fattr_equiv pos ei em m m' H "Clone"%string).
  - exact (trait_from_path_name F _ TClone Et).
  - cbn. auto.
Qed.

Lemma clone_field_attr_default F traits em attrs :
  clone_field_attr F traits em attrs =
  (let* x := scan_default F (trait_eqb TClone) (build_fattr false em) traits fattr_default attrs in
   Ok (fa_method x)).
Proof.
  unfold clone_field_attr, scan_default. rewrite bind_assoc.
  destruct (scan_attrs F (trait_eqb TClone) (build_fattr false em) traits attrs) as [[a|]| | |];
    reflexivity.
Qed.

Lemma clone_field_attr_spelling F traits traits' em attrs attrs' :
  (forall t, has_trait t traits = has_trait t traits') ->
  field_attrs_equiv F traits attrs attrs' ->
  osim (clone_field_attr F traits em attrs) (clone_field_attr F traits' em attrs').
Proof.
  intros Ht H. rewrite !clone_field_attr_default. apply osim_bind; [|intros x; apply osim_refl].
  apply scan_default_spelling;
    [exact Ht|intros; reflexivity|apply one_trait_group
    |apply no_shorthand_build_true; apply one_trait_no_shorthand; cbn; intuition discriminate
    |apply clone_fattr_respects|exact H].
Qed.

Lemma clone_ufield_attr_spelling F traits traits' em attrs attrs' :
  (forall t, has_trait t traits = has_trait t traits') ->
  ufield_attrs_equiv attrs attrs' ->
  osim (clone_field_attr F traits em attrs) (clone_field_attr F traits' em attrs').
Proof.
  intros Ht H. unfold clone_field_attr. apply osim_bind; [|intros o; apply osim_refl].
  apply (scan_attrs_spelling F _ _ _ traits traits' PField); auto. apply clone_fattr_respects.
Qed.

Lemma clone_field_attrs_spelling F traits traits' em fs fs' :
  (forall t, has_trait t traits = has_trait t traits') ->
  Forall2 (field_equiv (field_attrs_equiv F traits)) fs fs' ->
  osimR (Forall2 FR) (clone_field_attrs F traits em fs) (clone_field_attrs F traits' em fs').
Proof.
  intros Ht H. unfold clone_field_attrs. eapply mapM_osimR; [|exact H].
  intros f f' Hf. eapply osimR_bind.
  - exact (clone_field_attr_spelling F traits traits' em _ _ Ht (fe_attrs _ _ _ Hf)).
  - intros a b ->. split; [exact (field_equiv_fsame _ _ _ Hf)|reflexivity].
Qed.

Lemma clone_ufield_attrs_spelling F traits traits' em fs fs' :
  (forall t, has_trait t traits = has_trait t traits') ->
  Forall2 (field_equiv ufield_attrs_equiv) fs fs' ->
  osimR (Forall2 FR) (clone_field_attrs F traits em fs) (clone_field_attrs F traits' em fs').
Proof.
  intros Ht H. unfold clone_field_attrs. eapply mapM_osimR; [|exact H].
  intros f f' Hf. eapply osimR_bind.
  - exact (clone_ufield_attr_spelling F traits traits' em _ _ Ht (fe_attrs _ _ _ Hf)).
  - intros a b ->. split; [exact (field_equiv_fsame _ _ _ Hf)|reflexivity].
Qed.

Lemma clone_types_same l l' : Forall2 FR l l' -> clone_types l = clone_types l'.
Proof. intros H. unfold clone_types. same_emit H. Qed.

Lemma clone_struct_body_same fs fs' l l' :
  kind_same fs fs' -> Forall2 FR l l' -> clone_struct_body fs l = clone_struct_body fs' l'.
Proof.
  intros Hk H. unfold clone_struct_body. destruct fs, fs'; try contradiction; same_emit H.
Qed.

Lemma clone_from_struct_body_same fs fs' l l' :
  kind_same fs fs' -> Forall2 FR l l' -> clone_from_struct_body fs l = clone_from_struct_body fs' l'.
Proof.
  intros Hk H. unfold clone_from_struct_body, cfield. destruct fs, fs'; try contradiction; try reflexivity;
    rewrite (Forall2_is_nil _ _ _ H); (destruct (is_nil l'); [reflexivity|]); same_emit H.
Qed.

Definition CVR (v v' : cvariant) : Prop :=
  cv_name v = cv_name v' /\ kind_same (cv_fields v) (cv_fields v') /\ Forall2 FR (cv_plan v) (cv_plan v').

Lemma clone_arm_same v v' : CVR v v' -> clone_arm v = clone_arm v'.
Proof.
  destruct v as [n fs l], v' as [n' fs' l']. intros [Hn [Hk H]]. cbn [cv_name cv_fields cv_plan] in *.
  subst n'. unfold clone_arm. cbn [cv_name cv_fields cv_plan].
  destruct fs, fs'; try contradiction; same_emit H.
Qed.

Lemma clone_from_arm_same v v' : CVR v v' -> clone_from_arm v = clone_from_arm v'.
Proof.
  destruct v as [n fs l], v' as [n' fs' l']. intros [Hn [Hk H]]. cbn [cv_name cv_fields cv_plan] in *.
  subst n'. unfold clone_from_arm. cbn [cv_name cv_fields cv_plan].
  destruct fs, fs'; try contradiction; same_emit H.
Qed.

Lemma clone_variant_spelling F traits traits' v v' :
  (forall t, has_trait t traits = has_trait t traits') ->
  variant_equiv F traits v v' ->
  osimR CVR (clone_variant F traits v) (clone_variant F traits' v').
Proof.
  intros Ht [Hn _ Ha Hf]. unfold clone_variant.
  eapply (osimR_bind eq).
  - unfold clone_variant_attr. apply osim_bind; [|intros o; apply osim_refl].
    apply (scan_attrs_spelling F _ _ _ traits traits' PVariant); auto.
    apply one_trait_tattr_respects; [discriminate|cbn; auto 10].
  - intros _ _ _. eapply osimR_bind;
      [exact (clone_field_attrs_spelling F traits traits' true _ _ Ht (fields_equiv_list _ _ _ Hf))|].
    intros l l' Hl. cbn [osimR]. split; [exact Hn|]. split; [|exact Hl].
    exact (fields_equiv_kind_same _ _ _ Hf).
Qed.

Lemma has_custom_method_same cvs cvs' : Forall2 CVR cvs cvs' -> has_custom_method cvs = has_custom_method cvs'.
Proof.
  intros H. unfold has_custom_method. apply (existsb_Forall2 CVR); [exact H|].
  intros v v' [_ [_ Hl]]. apply (existsb_Forall2 FR); [exact Hl|]. intros; fr_solve.
Qed.

Theorem expand_clone_spelling F traits traits' d d' m m' :
  (forall t, has_trait t traits = has_trait t traits') ->
  d_name d = d_name d' -> d_generics d = d_generics d' ->
  data_equiv F traits (d_data d) (d_data d') ->
  tmeta_equiv PType m m' -> get_ident (meta_path m) = Some "Clone"%string ->
  osim (expand_clone F traits d m) (expand_clone F traits' d' m').
Proof.
  intros Ht Hn Hg Hd Hm Hp. unfold expand_clone, clone_generics, clone_items. rewrite <- Ht, <- Hg, <- Hn.
  apply osim_bind.
  { apply (tmeta_type_tattr _ _ _ m m' _ Hm Hp). cbn. auto 10. }
  intros ta. destruct Hd as [fs fs' Hfs|vs vs' Hvs|fs fs' Hfs].
  - eapply osimR_bind;
      [exact (clone_field_attrs_spelling F traits traits' _ _ _ Ht (fields_equiv_list _ _ _ Hfs))|].
    intros l l' Hl. cbn [osimR].
    rewrite (clone_types_same l l' Hl),
            (clone_struct_body_same fs fs' l l' (fields_equiv_kind_same _ _ _ Hfs) Hl),
            (clone_from_struct_body_same fs fs' l l' (fields_equiv_kind_same _ _ _ Hfs) Hl).
    reflexivity.
  - eapply osimR_bind.
    + apply (mapM_osimR (variant_equiv F traits) CVR); [|exact Hvs].
      intros v v' Hv. exact (clone_variant_spelling F traits traits' v v' Ht Hv).
    + intros cvs cvs' Hc. cbn [osimR].
      rewrite (has_custom_method_same cvs cvs' Hc).
      assert (E1 : flat_map (fun v => clone_types (cv_plan v)) cvs
                   = flat_map (fun v => clone_types (cv_plan v)) cvs').
      { apply (flat_map_Forall2 CVR); [exact Hc|]. intros v v' [_ [_ Hl]]. exact (clone_types_same _ _ Hl). }
      assert (E2 : clone_enum_body cvs = clone_enum_body cvs').
      { unfold clone_enum_body. rewrite (Forall2_is_nil _ _ _ Hc). destruct (is_nil cvs'); [reflexivity|].
        f_equal. f_equal. apply (map_Forall2 CVR); [exact Hc|]. exact clone_arm_same. }
      assert (E3 : clone_from_enum_body cvs = clone_from_enum_body cvs').
      { unfold clone_from_enum_body. rewrite (Forall2_is_nil _ _ _ Hc). destruct (is_nil cvs'); [reflexivity|].
        f_equal. f_equal. apply (map_Forall2 CVR); [exact Hc|]. exact clone_from_arm_same. }
      rewrite E1, E2, E3. reflexivity.
  - eapply osimR_bind; [exact (clone_ufield_attrs_spelling F traits traits' _ _ _ Ht Hfs)|].
    intros l l' Hl. cbn [osimR].
    assert (E : map (fun f => f_ty f) fs = map (fun f => f_ty f) fs').
    { apply (map_Forall2 (field_equiv ufield_attrs_equiv)); [exact Hfs|]. intros f f' [_ Hty _]. exact Hty. }
    rewrite E. reflexivity.
Qed.

(** * Deref, DerefMut *)
Definition PR (x y : nat * field) : Prop := fst x = fst y /\ fsame (snd x) (snd y).
Definition opt_R {A B} (R : A -> B -> Prop) (o : option A) (o' : option B) : Prop :=
  match o, o' with Some a, Some b => R a b | None, None => True | _, _ => False end.

Lemma deref_respects F own pos ef : build_respects F (trait_eqb own) (deref_build ef) pos.
Proof. intros m m' H t _ _. exact (deref_build_equiv pos ef m m' H). Qed.

Lemma deref_field_flag_spelling F own traits traits' attrs attrs' :
  ~ In (trait_name own) bool_shorthand_traits ->
  (forall t, has_trait t traits = has_trait t traits') ->
  field_attrs_equiv F traits attrs attrs' ->
  osim (deref_field_flag F own traits attrs) (deref_field_flag F own traits' attrs').
Proof.
  intros Hns Ht H.
  apply (scan_default_spelling F (trait_eqb own) (trait_eqb own) (deref_build true) traits traits' false);
    [exact Ht|intros; reflexivity|apply one_trait_group
    |intros p t _ Hin Ho; exfalso; apply trait_eqb_eq in Ho; subst; exact (Hns Hin)
    |apply deref_respects|exact H].
Qed.

Lemma deref_select_spelling F own traits traits' fs fs' :
  ~ In (trait_name own) bool_shorthand_traits ->
  (forall t, has_trait t traits = has_trait t traits') ->
  Forall2 (field_equiv (field_attrs_equiv F traits)) fs fs' ->
  osimR PR (deref_select F own traits fs) (deref_select F own traits' fs').
Proof.
  intros Hns Ht H.
  assert (Hfold : forall l l', Forall2 (field_equiv (field_attrs_equiv F traits)) l l' ->
            osimR PR
              (let* o := foldM (deref_pick F own traits) None (indexed l) in
               match o with Some x => Ok x | None => Err (deref_err_none own) end)
              (let* o := foldM (deref_pick F own traits') None (indexed l') in
               match o with Some x => Ok x | None => Err (deref_err_none own) end)).
  { intros l l' Hl. eapply (osimR_bind (opt_R PR)).
    - apply (foldM_osimR (opt_R PR)
               (fun x y => fst x = fst y /\ field_equiv (field_attrs_equiv F traits) (snd x) (snd y)));
        [|apply Forall2_index_from; exact Hl|exact Logic.I].
      intros s s' [i f] [i' f'] Hs [Hi Hf]. cbn [fst snd] in *. subst i'. unfold deref_pick. cbn [snd].
      eapply (osimR_bind eq);
        [exact (deref_field_flag_spelling F own traits traits' _ _ Hns Ht (fe_attrs _ _ _ Hf))|].
      intros b b' <-. destruct b; [|exact Hs].
      destruct s, s'; cbn [opt_R] in Hs; try contradiction; cbn [osimR opt_R]; try exact Logic.I.
      split; [reflexivity|exact (field_equiv_fsame _ _ _ Hf)].
    - intros o o' Ho. destruct o, o'; cbn [opt_R] in Ho; try contradiction; [exact Ho|exact Logic.I]. }
  destruct H as [|f f' l l' Hf Hl]; [exact (Hfold [] [] (Forall2_nil _))|].
  destruct Hl as [|f2 f2' l l' Hf2 Hl].
  - unfold deref_select. eapply (osimR_bind eq).
    + exact (deref_field_flag_spelling F own traits traits' _ _ Hns Ht (fe_attrs _ _ _ Hf)).
    + intros _ _ _. split; [reflexivity|exact (field_equiv_fsame _ _ _ Hf)].
  - exact (Hfold (f :: f2 :: l) (f' :: f2' :: l') (Forall2_cons _ _ Hf (Forall2_cons _ _ Hf2 Hl))).
Qed.

Definition VR (x y : string * (nat * field)) : Prop := fst x = fst y /\ PR (snd x) (snd y).

Lemma deref_variant_spelling F own traits traits' v v' :
  ~ In (trait_name own) bool_shorthand_traits ->
  (forall t, has_trait t traits = has_trait t traits') ->
  variant_equiv F traits v v' ->
  osimR VR (deref_variant F own traits v) (deref_variant F own traits' v').
Proof.
  intros Hns Ht [Hn _ Ha Hf]. unfold deref_variant. eapply (osimR_bind eq).
  - unfold deref_variant_attr. apply osim_bind; [|intros o; apply osim_refl].
    apply (scan_attrs_spelling F _ _ _ traits traits' PVariant); auto. apply deref_respects.
  - intros _ _ _. destruct Hf as [l l' Hl|l l' Hl|]; [| |exact Logic.I].
    + eapply osimR_bind; [exact (deref_select_spelling F own traits traits' l l' Hns Ht Hl)|].
      intros x y Hxy. split; [exact Hn|exact Hxy].
    + eapply osimR_bind; [exact (deref_select_spelling F own traits traits' l l' Hns Ht Hl)|].
      intros x y Hxy. split; [exact Hn|exact Hxy].
Qed.

Definition plan_rel (p p' : deref_plan) : Prop :=
  match p, p' with
  | DPStruct i f, DPStruct i' f' => i = i' /\ fsame f f'
  | DPEnum x r, DPEnum x' r' => VR x x' /\ Forall2 VR r r'
  | _, _ => False
  end.

Lemma deref_analyse_spelling F own traits traits' d d' m m' :
  ~ In (trait_name own) bool_shorthand_traits ->
  (forall t, has_trait t traits = has_trait t traits') ->
  data_equiv F traits (d_data d) (d_data d') ->
  tmeta_equiv PType m m' ->
  osimR plan_rel (deref_analyse F own traits d m) (deref_analyse F own traits' d' m').
Proof.
  intros Hns Ht Hd Hm. unfold deref_analyse.
  destruct Hd as [fs fs' Hfs|vs vs' Hvs|fs fs' Hfs]; [| |exact Logic.I].
  - eapply (osimR_bind eq); [exact (deref_build_equiv PType true m m' Hm)|]. intros _ _ _.
    eapply osimR_bind;
      [exact (deref_select_spelling F own traits traits' _ _ Hns Ht (fields_equiv_list _ _ _ Hfs))|].
    intros x y Hxy. exact Hxy.
  - eapply (osimR_bind eq); [exact (deref_build_equiv PType true m m' Hm)|]. intros _ _ _.
    eapply osimR_bind.
    + apply (mapM_osimR (variant_equiv F traits) VR); [|exact Hvs].
      intros v v' Hv. exact (deref_variant_spelling F own traits traits' v v' Hns Ht Hv).
    + intros l l' Hl. destruct Hl; [exact Logic.I|]. split; assumption.
Qed.

Lemma deref_arm_same x y : VR x y -> deref_arm x = deref_arm y.
Proof.
  destruct x as [v [i [a n ty]]], y as [v' [i' [a' n' ty']]].
  intros [Hv [Hi [Hn Hty]]]. cbn [fst snd f_name f_ty] in *. subst. reflexivity.
Qed.

Lemma deref_emit_same d d' p p' :
  d_name d = d_name d' -> d_generics d = d_generics d' -> plan_rel p p' -> deref_emit d p = deref_emit d' p'.
Proof.
  intros Hn Hg H. unfold deref_emit, deref_item. rewrite <- Hn, <- Hg.
  destruct p as [i f|x r], p' as [i' f'|x' r']; try contradiction.
  - destruct H as [Hi [Hfn Hty]]. subst i'. unfold deref_target, deref_struct_body, field_member.
    rewrite Hfn, Hty. reflexivity.
  - destruct H as [Hx Hr]. unfold deref_match, deref_target. cbn [map].
    rewrite (deref_arm_same x x' Hx), (map_Forall2 VR deref_arm deref_arm r r' Hr deref_arm_same).
    destruct Hx as [_ [_ [_ Hty]]]. rewrite Hty. reflexivity.
Qed.

Lemma deref_mut_emit_same d d' p p' :
  d_name d = d_name d' -> d_generics d = d_generics d' -> plan_rel p p' ->
  deref_mut_emit d p = deref_mut_emit d' p'.
Proof.
  intros Hn Hg H. unfold deref_mut_emit, deref_mut_item. rewrite <- Hn, <- Hg.
  destruct p as [i f|x r], p' as [i' f'|x' r']; try contradiction.
  - destruct H as [Hi [Hfn Hty]]. subst i'. unfold deref_mut_struct_body, field_member.
    rewrite Hfn, Hty. reflexivity.
  - destruct H as [Hx Hr]. unfold deref_match. cbn [map].
    rewrite (deref_arm_same x x' Hx), (map_Forall2 VR deref_arm deref_arm r r' Hr deref_arm_same).
    reflexivity.
Qed.

Theorem expand_deref_spelling F traits traits' d d' m m' :
  (forall t, has_trait t traits = has_trait t traits') ->
  d_name d = d_name d' -> d_generics d = d_generics d' ->
  data_equiv F traits (d_data d) (d_data d') ->
  tmeta_equiv PType m m' ->
  osim (expand_deref F traits d m) (expand_deref F traits' d' m').
Proof.
  intros Ht Hn Hg Hd Hm. unfold expand_deref.
  eapply osimR_bind.
  - apply (deref_analyse_spelling F TDeref traits traits' d d' m m'); auto. cbn. intuition discriminate.
  - intros p p' Hp. cbn [osimR]. exact (deref_emit_same d d' p p' Hn Hg Hp).
Qed.

Theorem expand_deref_mut_spelling F traits traits' d d' m m' :
  (forall t, has_trait t traits = has_trait t traits') ->
  d_name d = d_name d' -> d_generics d = d_generics d' ->
  data_equiv F traits (d_data d) (d_data d') ->
  tmeta_equiv PType m m' ->
  osim (expand_deref_mut F traits d m) (expand_deref_mut F traits' d' m').
Proof.
  intros Ht Hn Hg Hd Hm. unfold expand_deref_mut.
  eapply osimR_bind.
  - apply (deref_analyse_spelling F TDerefMut traits traits' d d' m m'); auto. cbn. intuition discriminate.
  - intros p p' Hp. cbn [osimR]. exact (deref_mut_emit_same d d' p p' Hn Hg Hp).
Qed.
