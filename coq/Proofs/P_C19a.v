(** C19 / H1 -- shared lemmas, and the handlers PartialEq, Eq, Copy, Hash, Clone. *)
From Educe.Spec Require Export Hygiene.
From Educe.Proofs Require Export EvalLemmas.

Arguments toks_hyg : simpl never.

(** ** lists *)
Lemma forallb_map {A B} (p : B -> bool) (f : A -> B) l :
  forallb p (map f l) = forallb (fun x => p (f x)) l.
Proof. induction l as [|x r IH]; cbn; [reflexivity|]. rewrite IH. reflexivity. Qed.

Lemma forallb_flat_map {A B} (p : B -> bool) (f : A -> list B) l :
  forallb p (flat_map f l) = forallb (fun x => forallb p (f x)) l.
Proof.
  induction l as [|x r IH]; cbn; [reflexivity|]. rewrite forallb_app, IH. reflexivity.
Qed.

Lemma forallb_true {A} (p : A -> bool) l : (forall x, p x = true) -> forallb p l = true.
Proof. intros H. apply forallb_forall. intros x _. apply H. Qed.

Lemma forallb_In {A} (p : A -> bool) l : (forall x, In x l -> p x = true) -> forallb p l = true.
Proof. intros H. apply forallb_forall. exact H. Qed.

Lemma forallb_repeat {A} (p : A -> bool) x n : p x = true -> forallb p (repeat x n) = true.
Proof. intros H. induction n; cbn; [reflexivity|]. rewrite H. exact IHn. Qed.

(** ** user fragments *)
Lemma flat_eqb_refl ts : flat_eqb ts ts = true.
Proof. unfold flat_eqb. destruct (list_eq_dec string_dec (flat ts) (flat ts)); congruence. Qed.

Lemma in_frags_In ts U : In ts U -> in_frags ts U = true.
Proof.
  intros H. unfold in_frags. apply existsb_exists. exists ts. split; [exact H|apply flat_eqb_refl].
Qed.

(** ** the template token fragments (closed terms, [fresh] aside) *)
Ltac ctoks := intros; vm_compute; reflexivity.

Lemma th_inline fresh : toks_hyg (tallow fresh) inline_attr = true. Proof. ctoks. Qed.
Lemma th_nil fresh : toks_hyg (tallow fresh) [] = true. Proof. ctoks. Qed.
Lemma th_eq_sig fresh : toks_hyg (tallow fresh) eq_sig = true. Proof. ctoks. Qed.
Lemma th_clone_sig fresh : toks_hyg (tallow fresh) clone_sig = true. Proof. ctoks. Qed.
Lemma th_clone_from_sig fresh : toks_hyg (tallow fresh) clone_from_sig = true. Proof. ctoks. Qed.
Lemma th_partial_cmp_sig fresh : toks_hyg (tallow fresh) partial_cmp_sig = true. Proof. ctoks. Qed.
Lemma th_cmp_sig fresh : toks_hyg (tallow fresh) cmp_sig = true. Proof. ctoks. Qed.
Lemma th_fmt_sig fresh b : toks_hyg (tallow fresh) (fmt_sig "f" b) = true.
Proof. destruct b; ctoks. Qed.
Lemma th_default_sig fresh : toks_hyg (tallow fresh) default_sig = true. Proof. ctoks. Qed.
Lemma th_deref_sig fresh : toks_hyg (tallow fresh) deref_sig = true. Proof. ctoks. Qed.
Lemma th_deref_mut_sig fresh : toks_hyg (tallow fresh) deref_mut_sig = true. Proof. ctoks. Qed.
Lemma th_new_attrs fresh :
  toks_hyg (tallow fresh) (new_doc_attr ++ inline_attr ++ [I "pub"]) = true.
Proof. ctoks. Qed.
Lemma th_map_builder fresh : toks_hyg (tallow fresh) map_builder_template = true. Proof. ctoks. Qed.
Lemma th_field_arg fresh : toks_hyg (tallow fresh) field_arg_template = true. Proof. ctoks. Qed.
Lemma th_size_of fresh :
  toks_hyg (tallow fresh) (core_path ["mem"; "size_of"] ++ [P "::"; P "<"; I "Self"; P ">"]) = true.
Proof. ctoks. Qed.
Lemma th_const_self fresh : toks_hyg (tallow fresh) [P "*"; I "const"; I "Self"] = true.
Proof. ctoks. Qed.
Lemma th_const_u8 fresh : toks_hyg (tallow fresh) const_u8_ty = true.
Proof. ctoks. Qed.
Lemma th_self_ty fresh : toks_hyg (tallow fresh) [I "Self"] = true. Proof. ctoks. Qed.

(** the hasher parameter is the one computed identifier *)
Lemma tallow_fresh fresh : tallow fresh fresh = true.
Proof. unfold tallow. rewrite String.eqb_refl. apply orb_true_r. Qed.

Lemma th_hash_sig_gen (A : string -> bool) h :
  A h = true -> A "self" = true -> A "state" = true -> toks_hyg A (hash_sig h) = true.
Proof.
  intros Hh Hself Hstate. unfold toks_hyg, hash_sig.
  destruct (mem_str h plain_keywords) eqn:Ek; cbn in Ek |- *; rewrite ?Ek, ?Hh, ?Hself, ?Hstate; cbn;
  rewrite ?Ek, ?Hh, ?Hself, ?Hstate; cbn; rewrite ?Ek, ?Hh, ?Hself, ?Hstate; reflexivity.
Qed.

Lemma th_hash_sig fresh : toks_hyg (tallow fresh) (hash_sig fresh) = true.
Proof. apply th_hash_sig_gen; [apply tallow_fresh|reflexivity|reflexivity]. Qed.

(** trait paths *)
Lemma trait_hyg_core cfg segs :
  toks_hyg no_ident (core_path segs) = true -> trait_hyg cfg (core_path segs) = true.
Proof. intros H. unfold trait_hyg. rewrite H. reflexivity. Qed.

#[export] Hint Rewrite th_inline th_nil th_eq_sig th_clone_sig th_clone_from_sig th_partial_cmp_sig
  th_cmp_sig th_fmt_sig th_default_sig th_deref_sig th_deref_mut_sig th_new_attrs th_map_builder
  th_field_arg th_size_of th_const_self th_const_u8 th_self_ty th_hash_sig : hygc.

(** ** bodies whose statements are hygienic under every scope *)
Lemma body_hyg_any cfg b :
  (forall sc, forallb (expr_hyg cfg sc) b = true) -> body_hyg cfg b = true.
Proof. intros H. unfold body_hyg, walk_body. apply H. Qed.

Ltac hsimpl :=
  cbv beta delta [item_hyg member_hyg sig_hyg macro_hyg];
  cbn [expr_hyg walk h1_node rpath_hyg pat_hyg pat_all forallb andb orb fst snd
       helper_decls h1_enter_block map app flat_map String.eqb Ascii.eqb Bool.eqb
       mem_str existsb i_attrs i_trait i_members];
  autorewrite with hygc;
  cbn [andb orb forallb];
  fold (expr_hyg).

(** a marker impl: `impl .. ::core::a::B for T { }` *)
Lemma marker_item_hyg cfg g segs self_ :
  toks_hyg no_ident (core_path segs) = true ->
  item_hyg cfg {| i_attrs := []; i_generics := g; i_trait := Some (core_path segs);
                  i_self := self_; i_members := [] |} = true.
Proof.
  intros H. unfold item_hyg. cbn [i_attrs i_trait i_members forallb].
  rewrite th_nil, (trait_hyg_core cfg segs H). reflexivity.
Qed.

(** * PartialEq *)
Lemma peq_check_hyg cfg sc fa a b :
  expr_hyg cfg sc a = true -> expr_hyg cfg sc b = true ->
  expr_hyg cfg sc (peq_check fa a b) = true.
Proof.
  intros Ha Hb. unfold peq_check, ne_path. destruct (fa_method fa); hsimpl;
    fold (expr_hyg cfg); rewrite Ha, Hb; reflexivity.
Qed.

Lemma peq_struct_body_hyg cfg sc l : forallb (expr_hyg cfg sc) (peq_struct_body l) = true.
Proof.
  unfold peq_struct_body. rewrite forallb_flat_map. apply forallb_true. intros [[i f] fa].
  destruct (fa_ignore fa); [reflexivity|]. cbn [forallb]. rewrite peq_check_hyg; reflexivity.
Qed.

Lemma peq_arm_hyg cfg sc (pe : pat * expr) :
  (exists v l, pe = peq_arm_named v l) \/ (exists v l, pe = peq_arm_unnamed v l)
  \/ (exists v, pe = peq_arm_unit v) ->
  pat_hyg sc (fst pe) = true /\ expr_hyg cfg sc (snd pe) = true.
Proof.
  intros [[v [l ->]]|[[v [l ->]]|[v ->]]].
  - unfold peq_arm_named. cbn [fst snd]. split.
    + hsimpl. rewrite forallb_map. apply forallb_true. intros [f fa]. cbn [snd].
      destruct (fa_ignore fa); reflexivity.
    + hsimpl. rewrite !forallb_map, forallb_flat_map.
      rewrite (forallb_true (fun x : field * fattr => _)) by
        (intros [f fa]; cbn [snd]; destruct (fa_ignore fa); reflexivity).
      rewrite forallb_true; [reflexivity|]. intros [f fa].
      destruct (fa_ignore fa); [reflexivity|]. cbn [forallb].
      rewrite peq_check_hyg; reflexivity.
  - unfold peq_arm_unnamed. cbn [fst snd]. split.
    + hsimpl. rewrite forallb_map. apply forallb_true. intros [i [f fa]].
      destruct (fa_ignore fa); reflexivity.
    + hsimpl. rewrite !forallb_map, forallb_flat_map.
      rewrite (forallb_true (fun x : nat * (field * fattr) => _)) by
        (intros [i [f fa]]; destruct (fa_ignore fa); reflexivity).
      rewrite forallb_true; [reflexivity|]. intros [i [f fa]].
      destruct (fa_ignore fa); [reflexivity|]. cbn [forallb].
      rewrite peq_check_hyg; reflexivity.
  - split; reflexivity.
Qed.

Lemma peq_variant_arm F traits v r :
  peq_variant F traits v = Ok r ->
  (exists n l, fst r = peq_arm_named n l) \/ (exists n l, fst r = peq_arm_unnamed n l)
  \/ (exists n, fst r = peq_arm_unit n).
Proof.
  unfold peq_variant. intros H. inv_bind H. destruct (v_fields v).
  - inv_bind H. inversion H. left. cbn [fst]. eauto.
  - inv_bind H. inversion H. right. left. cbn [fst]. eauto.
  - inversion H. right. right. cbn [fst]. eauto.
Qed.

Lemma peq_arms_hyg cfg sc F traits vs arms :
  mapM (peq_variant F traits) vs = Ok arms ->
  forallb (fun pe => pat_hyg sc (fst pe) && expr_hyg cfg sc (snd pe)) (map fst arms) = true.
Proof.
  intros H. apply mapM_ok_Forall2 in H. rewrite forallb_map.
  induction H as [|v r vs arms Hv _ IH]; [reflexivity|]. cbn [forallb].
  destruct (peq_arm_hyg cfg sc (fst r) (peq_variant_arm _ _ _ _ Hv)) as [Hp He].
  rewrite Hp, He. exact IH.
Qed.

Lemma peq_items_hyg cfg traits F d g body :
  (forall sc, forallb (expr_hyg cfg sc) body = true) ->
  forallb (item_hyg cfg) (peq_items traits F d g body) = true.
Proof.
  intros Hb. unfold peq_items. cbn [forallb]. rewrite andb_true_iff. split.
  - hsimpl. rewrite trait_hyg_core by reflexivity. cbn [andb].
    rewrite body_hyg_any; [reflexivity|]. intros sc. rewrite forallb_app, Hb. reflexivity.
  - destruct (has_trait TEq F && has_trait TEq traits); [|reflexivity].
    cbn [forallb]. rewrite marker_item_hyg; reflexivity.
Qed.

Lemma peq_union_body_hyg cfg : body_hyg cfg peq_union_body = true.
Proof. unfold peq_union_body, body_hyg. hsimpl. reflexivity. Qed.

Theorem partial_eq_hyg cfg F traits d m items :
  expand_partial_eq F traits d m = Ok items -> forallb (item_hyg cfg) items = true.
Proof.
  unfold expand_partial_eq. intros H. destruct (d_data d) as [fs|vs|fs].
  - inv_bind H. inv_bind H. inversion H; subst items. apply peq_items_hyg.
    intros sc. apply peq_struct_body_hyg.
  - inv_bind H. inv_bind H. inversion H; subst items. apply peq_items_hyg.
    intros sc. destruct (is_nil a0); [reflexivity|]. cbn [forallb]. rewrite andb_true_r.
    hsimpl. fold (expr_hyg cfg). apply (peq_arms_hyg cfg sc _ _ _ _ Hb0).
  - inv_bind H. destruct (negb (ta_unsafe a)); [discriminate H|]. inv_bind H.
    inversion H; subst items. cbn [forallb]. rewrite andb_true_iff. split.
    + hsimpl. rewrite trait_hyg_core by reflexivity. cbn [andb].
      rewrite peq_union_body_hyg. reflexivity.
    + destruct (has_trait TEq F && has_trait TEq traits); [|reflexivity].
      cbn [forallb]. rewrite marker_item_hyg; reflexivity.
Qed.

(** * Eq, Copy : marker impls *)
Theorem eq_hyg cfg F traits d m items :
  expand_eq F traits d m = Ok items -> forallb (item_hyg cfg) items = true.
Proof.
  unfold expand_eq. intros H. inv_bind H.
  destruct (has_trait TPartialEq F && has_trait TPartialEq traits).
  - inversion H. reflexivity.
  - inv_bind H. inversion H; subst items. cbn [forallb]. rewrite marker_item_hyg; reflexivity.
Qed.

Theorem copy_hyg cfg F traits d m items :
  expand_copy F traits d m = Ok items -> forallb (item_hyg cfg) items = true.
Proof.
  unfold expand_copy. intros H. inv_bind H.
  destruct (has_trait TClone F && has_trait TClone traits).
  - inversion H. reflexivity.
  - inv_bind H. inversion H; subst items. cbn [forallb]. unfold copy_item.
    rewrite marker_item_hyg; reflexivity.
Qed.

(** * Hash *)
Lemma hash_stmt_hyg cfg sc fa op :
  expr_hyg cfg sc op = true -> expr_hyg cfg sc (hash_stmt fa op) = true.
Proof.
  intros Ho. unfold hash_stmt, hash_callee. destruct (fa_method fa); hsimpl; rewrite Ho; reflexivity.
Qed.

Lemma hash_struct_body_hyg cfg sc l : forallb (expr_hyg cfg sc) (hash_struct_body l) = true.
Proof.
  unfold hash_struct_body. rewrite forallb_flat_map. apply forallb_true. intros [i [f fa]].
  destruct (fa_ignore fa); [reflexivity|]. cbn [forallb]. rewrite hash_stmt_hyg; reflexivity.
Qed.

Lemma hash_arm_hyg cfg sc vi v fs l :
  pat_hyg sc (fst (hash_arm vi v fs l)) = true /\ expr_hyg cfg sc (snd (hash_arm vi v fs l)) = true.
Proof.
  unfold hash_arm. destruct fs as [nl|ul|]; cbn [fst snd].
  - split.
    + hsimpl. rewrite forallb_map. apply forallb_true. intros [f fa]. cbn [snd].
      destruct (fa_ignore fa); reflexivity.
    + hsimpl. rewrite forallb_flat_map. apply forallb_true. intros [f fa].
      destruct (fa_ignore fa); [reflexivity|]. cbn [forallb]. rewrite hash_stmt_hyg; reflexivity.
  - split.
    + hsimpl. rewrite forallb_map. apply forallb_true. intros [i [f fa]].
      destruct (fa_ignore fa); reflexivity.
    + hsimpl. rewrite forallb_flat_map. apply forallb_true. intros [i [f fa]].
      destruct (fa_ignore fa); [reflexivity|]. cbn [forallb]. rewrite hash_stmt_hyg; reflexivity.
  - split; reflexivity.
Qed.

Lemma hash_arms_hyg cfg sc F traits ivs arms :
  mapM (hash_variant F traits) ivs = Ok arms ->
  forallb (fun pe => pat_hyg sc (fst pe) && expr_hyg cfg sc (snd pe)) (map fst arms) = true.
Proof.
  intros H. apply mapM_ok_Forall2 in H. rewrite forallb_map.
  induction H as [|[vi v] r ivs arms Hv _ IH]; [reflexivity|]. cbn [forallb].
  unfold hash_variant in Hv. inv_bind Hv. inv_bind Hv. inversion Hv; subst r. cbn [fst].
  destruct (hash_arm_hyg cfg sc vi (v_name v) (v_fields v) a0) as [Hp He].
  rewrite Hp, He. exact IH.
Qed.

Lemma hash_item_hyg cfg d g body :
  u_fresh cfg = hasher_ident (d_generics d) ->
  body_hyg cfg body = true -> item_hyg cfg (hash_item d g body) = true.
Proof.
  intros Hf Hb. unfold hash_item. hsimpl. rewrite <- Hf. autorewrite with hygc.
  rewrite trait_hyg_core by reflexivity. cbn [andb orb]. rewrite Hb. reflexivity.
Qed.

Lemma hash_union_body_hyg cfg : body_hyg cfg hash_union_body = true.
Proof. unfold hash_union_body, body_hyg, walk_body. hsimpl. reflexivity. Qed.

Theorem hash_hyg cfg F traits d m items :
  u_fresh cfg = hasher_ident (d_generics d) ->
  expand_hash F traits d m = Ok items -> forallb (item_hyg cfg) items = true.
Proof.
  intros Hf. unfold expand_hash. intros H. destruct (d_data d) as [fs|vs|fs].
  - inv_bind H. inv_bind H. inversion H; subst items. cbn [forallb].
    rewrite hash_item_hyg; [reflexivity|exact Hf|]. apply body_hyg_any. intros sc.
    apply hash_struct_body_hyg.
  - inv_bind H. inv_bind H. inversion H; subst items. cbn [forallb].
    rewrite hash_item_hyg; [reflexivity|exact Hf|]. apply body_hyg_any. intros sc.
    destruct (is_nil a0); [reflexivity|]. cbn [forallb]. rewrite andb_true_r.
    hsimpl. apply (hash_arms_hyg cfg sc _ _ _ _ Hb0).
  - inv_bind H. destruct (negb (ta_unsafe a)); [discriminate H|]. inv_bind H.
    inversion H; subst items. cbn [forallb].
    rewrite hash_item_hyg; [reflexivity|exact Hf|apply hash_union_body_hyg].
Qed.

(** * Clone *)
Lemma clone_call_hyg cfg sc m src :
  expr_hyg cfg sc src = true -> expr_hyg cfg sc (clone_call m src) = true.
Proof. intros Hs. unfold clone_call, clone_fn. destruct m; hsimpl; rewrite Hs; reflexivity. Qed.

Lemma clone_from_stmt_hyg cfg sc m dp dr src :
  expr_hyg cfg sc dp = true -> expr_hyg cfg sc dr = true -> expr_hyg cfg sc src = true ->
  expr_hyg cfg sc (clone_from_stmt m dp dr src) = true.
Proof.
  intros H1 H2 H3. unfold clone_from_stmt, clone_from_fn. destruct m; hsimpl;
    rewrite ?H1, ?H2, ?H3; reflexivity.
Qed.

Lemma clone_struct_body_hyg cfg sc fs l : forallb (expr_hyg cfg sc) (clone_struct_body fs l) = true.
Proof.
  unfold clone_struct_body. destruct fs as [nl|ul|]; [| |reflexivity]; hsimpl;
    rewrite forallb_map, andb_true_r; apply forallb_true; intros [i [f m]]; cbn [snd];
    unfold cs_clone_field; apply clone_call_hyg; reflexivity.
Qed.

Lemma clone_from_struct_body_hyg cfg sc fs l :
  forallb (expr_hyg cfg sc) (clone_from_struct_body fs l) = true.
Proof.
  unfold clone_from_struct_body. destruct fs as [nl|ul|]; [| |reflexivity];
    (destruct (is_nil l); [reflexivity|]); rewrite forallb_map; apply forallb_true;
    intros [i [f m]]; unfold cs_clone_from_field; apply clone_from_stmt_hyg; reflexivity.
Qed.

Lemma clone_arm_hyg cfg sc v :
  pat_hyg sc (fst (clone_arm v)) = true /\ expr_hyg cfg sc (snd (clone_arm v)) = true.
Proof.
  unfold clone_arm. destruct (cv_fields v) as [nl|ul|]; cbn [fst snd].
  - split.
    + hsimpl. rewrite forallb_map. apply forallb_true. intros [f m]. reflexivity.
    + hsimpl. rewrite forallb_map. apply forallb_true. intros [f m]. cbn [snd].
      apply clone_call_hyg. reflexivity.
  - split.
    + hsimpl. rewrite forallb_map. apply forallb_true. intros [i [f m]]. reflexivity.
    + hsimpl. rewrite forallb_map. apply forallb_true. intros [i [f m]].
      apply clone_call_hyg. reflexivity.
  - split; reflexivity.
Qed.

Lemma clone_from_arm_hyg cfg sc v :
  pat_hyg sc (fst (clone_from_arm v)) = true /\ expr_hyg cfg sc (snd (clone_from_arm v)) = true.
Proof.
  unfold clone_from_arm, else_clone_source, clone_fn.
  destruct (cv_fields v) as [nl|ul|]; cbn [fst snd].
  - split.
    + hsimpl. rewrite forallb_map. apply forallb_true. intros [f m]. reflexivity.
    + hsimpl. rewrite !forallb_map.
      rewrite (forallb_true (fun x : cfield => _)) by (intros [f m]; reflexivity).
      rewrite forallb_true; [reflexivity|]. intros [f m]. apply clone_from_stmt_hyg; reflexivity.
  - split.
    + hsimpl. rewrite forallb_map. apply forallb_true. intros [i [f m]]. reflexivity.
    + hsimpl. rewrite !forallb_map.
      rewrite (forallb_true (fun x : nat * cfield => _)) by (intros [i [f m]]; reflexivity).
      rewrite forallb_true; [reflexivity|]. intros [i [f m]].
      apply clone_from_stmt_hyg; reflexivity.
  - split; reflexivity.
Qed.

Lemma clone_enum_body_hyg cfg sc vs : forallb (expr_hyg cfg sc) (clone_enum_body vs) = true.
Proof.
  unfold clone_enum_body. destruct (is_nil vs).
  - hsimpl. reflexivity.
  - hsimpl. rewrite forallb_map, andb_true_r. apply forallb_true. intros v.
    destruct (clone_arm_hyg cfg sc v) as [Hp He]. rewrite Hp, He. reflexivity.
Qed.

Lemma clone_from_enum_body_hyg cfg sc vs :
  forallb (expr_hyg cfg sc) (clone_from_enum_body vs) = true.
Proof.
  unfold clone_from_enum_body. destruct (is_nil vs); [reflexivity|].
  hsimpl. rewrite forallb_map, andb_true_r. apply forallb_true. intros v.
  destruct (clone_from_arm_hyg cfg sc v) as [Hp He]. rewrite Hp, He. reflexivity.
Qed.

Lemma clone_items_hyg cfg ce d g body from_body :
  (forall sc, forallb (expr_hyg cfg sc) body = true) ->
  (forall sc, forallb (expr_hyg cfg sc) from_body = true) ->
  forallb (item_hyg cfg) (clone_items ce d g body from_body) = true.
Proof.
  intros Hb Hf. unfold clone_items. cbn [forallb]. rewrite andb_true_iff. split.
  - hsimpl. rewrite trait_hyg_core by reflexivity. cbn [andb].
    rewrite (body_hyg_any cfg body Hb). cbn [andb].
    destruct (is_nil from_body); [reflexivity|]. hsimpl.
    rewrite (body_hyg_any cfg from_body Hf). reflexivity.
  - destruct ce; [|reflexivity]. cbn [forallb]. rewrite marker_item_hyg; reflexivity.
Qed.

Theorem clone_hyg cfg F traits d m items :
  expand_clone F traits d m = Ok items -> forallb (item_hyg cfg) items = true.
Proof.
  unfold expand_clone. intros H. inv_bind H. destruct (d_data d) as [fs|vs|fs].
  - inv_bind H. inversion H; subst items.
    destruct (has_trait TCopy F && has_trait TCopy traits).
    + apply clone_items_hyg; intros sc; reflexivity.
    + apply clone_items_hyg; intros sc;
        [apply clone_struct_body_hyg|apply clone_from_struct_body_hyg].
  - inv_bind H. inversion H; subst items.
    destruct (negb (has_custom_method a0) && (has_trait TCopy F && has_trait TCopy traits)).
    + apply clone_items_hyg; intros sc; reflexivity.
    + apply clone_items_hyg; intros sc;
        [apply clone_enum_body_hyg|apply clone_from_enum_body_hyg].
  - inv_bind H. inversion H; subst items. apply clone_items_hyg; intros sc; reflexivity.
Qed.
