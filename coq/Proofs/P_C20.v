(** C20 — union impls are byte-wise and only generated behind an explicit `unsafe`. *)
From Educe.Spec Require Export SpecUnion.
From Educe.Proofs Require Export P_C05.
From Educe.Model Require Export Expand_PartialEq Expand_Hash Expand_Clone.
From Educe.Model Require Expand_Debug Expand_Default.

(** ** the spec's statements are the emitted ones *)
Lemma let_size_model :
  let_size = ELet false "size"
               (ECall (EToks (core_path ["mem"; "size_of"] ++ [P "::"; P "<"; I "Self"; P ">"])) []).
Proof. reflexivity. Qed.

Lemma bytes_eqb_spec a b : bytes_eqb a b = true <-> a = b.
Proof. unfold bytes_eqb. destruct (list_eq_dec Nat.eq_dec a b); split; congruence. Qed.

Lemma const_ptr_ty t : is_const_ptr_ty [P "*"; I "const"; I t] = true.
Proof. reflexivity. Qed.
Lemma const_ptr_prim_ty t :
  is_const_ptr_ty [P "*"; I "const"; P "::"; I "core"; P "::"; I "primitive"; P "::"; I t] = true.
Proof. reflexivity. Qed.

Section Bytes.
  Variable I : interp.

  (** `let size = size_of::<Self>(); rest` *)
  Lemma eval_let_size en rest s :
    eval_block (eval I) en (let_size :: rest) s =
    eval_block (eval I) (("size", VUsize (i_size_of_self I)) :: en) rest s.
  Proof. reflexivity. Qed.

  (** `unsafe { from_raw_parts(x as *const Self as *const u8, size) }` is exactly the
      size_of::<Self>() bytes of the object [x] refers to *)
  Lemma eval_raw_bytes en x p l s :
    lookup x en = Some (VRef p) ->
    lookup "size" en = Some (VUsize (i_size_of_self I)) ->
    load (st_store s) p = Some (VBytes l) ->
    List.length l = i_size_of_self I ->
    eval I en (raw_bytes x) s = (RVal (VRefTmp (VBytes l)), s).
  Proof.
    intros Hx Hsz Hl Hlen. unfold raw_bytes.
    cbn [eval is_from_raw_parts]. rewrite const_ptr_prim_ty, const_ptr_ty. rewrite Hx. rewrite Hsz.
    unfold from_raw_parts. rewrite Hl. rewrite <- Hlen. rewrite Nat.leb_refl, firstn_all. reflexivity.
  Qed.
End Bytes.

(** ** PartialEq *)
Lemma peq_union_body_eq :
  peq_union_body =
  [let_size; ELet false "self_data" (raw_bytes "self"); ELet false "other_data" (raw_bytes "other");
   ECall (EPath (RCore ["cmp"; "PartialEq"; "eq"])) [EVar "self_data"; EVar "other_data"]].
Proof. reflexivity. Qed.

Section UnionEq.
  Variable I : interp.

  Lemma union_eq_body_run la lb :
    List.length la = i_size_of_self I -> List.length lb = i_size_of_self I ->
    run_body I eq_env peq_union_body (eq_state (VBytes la) (VBytes lb)) =
    (RVal (VBool (bytes_eqb la lb)), eq_state (VBytes la) (VBytes lb)).
  Proof.
    intros Ha Hb. unfold run_body. rewrite peq_union_body_eq. rewrite eval_let_size.
    cbn [eval_block].
    erewrite (eval_raw_bytes I _ "self" self_place la); [|reflexivity|reflexivity|reflexivity|exact Ha].
    erewrite (eval_raw_bytes I _ "other" other_place lb); [|reflexivity|reflexivity|reflexivity|exact Hb].
    reflexivity.
  Qed.

  Theorem union_eq_bytes F traits d m fs items la lb :
    d_data d = DUnion fs ->
    expand_partial_eq F traits d m = Ok items ->
    List.length la = i_size_of_self I -> List.length lb = i_size_of_self I ->
    exists it rest, items = it :: rest /\
      run_eq I it (VBytes la) (VBytes lb) = Some (spec_union_eq la lb).
  Proof.
    intros Hd He Ha Hb. unfold expand_partial_eq in He. rewrite Hd in He.
    inv_bind He. destruct (negb (ta_unsafe a)); [discriminate He|].
    inv_bind He. inversion He; subst items; clear He.
    eexists; eexists; split; [reflexivity|].
    unfold run_eq, find_fn. cbn [i_members find String.eqb Ascii.eqb Bool.eqb].
    rewrite (union_eq_body_run la lb Ha Hb). reflexivity.
  Qed.
End UnionEq.

(** ** Hash *)
Lemma hash_union_body_eq :
  hash_union_body =
  [let_size; ELet false "data" (raw_bytes "self");
   ECall (EPath (RCore ["hash"; "Hash"; "hash"])) [EVar "data"; EVar "state"]].
Proof. reflexivity. Qed.

Section UnionHash.
  Variable I : interp.

  Theorem union_hash_one_slice F traits d m fs items l h :
    d_data d = DUnion fs ->
    expand_hash F traits d m = Ok items ->
    List.length l = i_size_of_self I ->
    exists it, items = [it] /\ run_hash I it (VBytes l) h = Some (spec_union_hash l).
  Proof.
    intros Hd He Hl. unfold expand_hash in He. rewrite Hd in He.
    inv_bind He. destruct (negb (ta_unsafe a)); [discriminate He|].
    inv_bind He. inversion He; subst items; clear He.
    eexists; split; [reflexivity|].
    unfold run_hash, find_fn, hash_item. cbn [i_members find String.eqb Ascii.eqb Bool.eqb].
    unfold run_body. rewrite hash_union_body_eq. rewrite eval_let_size. cbn [eval_block].
    erewrite (eval_raw_bytes I _ "self" self_place l); [|reflexivity|reflexivity|reflexivity|exact Hl].
    reflexivity.
  Qed.
End UnionHash.

(** ** the byte view bound by `let size ..; let data ..;` (also the first statements of
    both Debug shapes): whatever follows runs with `data` = exactly the bytes of `*self` *)
Lemma union_data_binding (I : interp) en p l rest s :
  lookup "self" en = Some (VRef p) ->
  load (st_store s) p = Some (VBytes l) ->
  List.length l = i_size_of_self I ->
  eval_block (eval I) en (let_size :: ELet false "data" (raw_bytes "self") :: rest) s =
  eval_block (eval I) (("data", VRefTmp (VBytes l)) :: ("size", VUsize (i_size_of_self I)) :: en) rest s.
Proof.
  intros Hself Hl Hlen. rewrite eval_let_size. cbn [eval_block].
  erewrite (eval_raw_bytes I _ "self" p l s); [reflexivity|exact Hself|reflexivity|exact Hl|exact Hlen].
Qed.

(** ** only behind `unsafe` *)
Lemma parse_unsafe_metas_other t r :
  is_ident "unsafe" t = false ->
  parse_unsafe_metas (t :: r) = (let* ms := parse_metas (t :: r) in Ok (false, ms)).
Proof.
  destruct t as [s| | | | |]; try reflexivity. cbn [is_ident]. intros H.
  unfold parse_unsafe_metas.
  destruct s as [|[[] [] [] [] [] [] [] []] s]; try reflexivity.
  destruct s as [|[[] [] [] [] [] [] [] []] s]; try reflexivity.
  destruct s as [|[[] [] [] [] [] [] [] []] s]; try reflexivity.
  destruct s as [|[[] [] [] [] [] [] [] []] s]; try reflexivity.
  destruct s as [|[[] [] [] [] [] [] [] []] s]; try reflexivity.
  destruct s as [|[[] [] [] [] [] [] [] []] s]; try reflexivity.
  destruct s; [discriminate H|reflexivity].
Qed.

Lemma parse_unsafe_flag ts u ms :
  parse_unsafe_metas ts = Ok (u, ms) ->
  match ts with t :: _ => is_ident "unsafe" t = false | [] => True end -> u = false.
Proof.
  destruct ts as [|t r]; intros H Hm.
  - cbn in H. inversion H. reflexivity.
  - rewrite (parse_unsafe_metas_other t r Hm) in H. inv_bind H. inversion H. reflexivity.
Qed.

Lemma tattr_no_marker ef eb m ta :
  has_unsafe_marker m = false -> build_tattr ef true eb m = Ok ta -> ta_unsafe ta = false.
Proof.
  intros Hm Hb. destruct m as [p|p v|p dl ts]; cbn [build_tattr] in Hb.
  - destruct ef; [|discriminate Hb]. inversion Hb. reflexivity.
  - discriminate Hb.
  - inv_bind Hb. destruct a as [u ms]. inv_bind Hb. destruct a as [x b]. inversion Hb. cbn [ta_unsafe].
    apply (parse_unsafe_flag ts u ms Hb0). cbn [has_unsafe_marker] in Hm.
    destruct ts; [exact Logic.I|exact Hm].
Qed.

Lemma dtattr_no_marker b m ta :
  has_unsafe_marker m = false -> Expand_Debug.tb_unsafe b = true ->
  Expand_Debug.build_dtattr b m = Ok ta -> Expand_Debug.dt_unsafe ta = false.
Proof.
  intros Hm Hu Hb. destruct m as [p|p v|p dl ts]; cbn [Expand_Debug.build_dtattr] in Hb.
  - destruct (Expand_Debug.tb_flag b); [|discriminate Hb]. inversion Hb. reflexivity.
  - destruct (negb (Expand_Debug.tb_name b)); [discriminate Hb|]. inv_bind Hb. inversion Hb. reflexivity.
  - rewrite Hu in Hb. inv_bind Hb. destruct a as [u ms]. inv_bind Hb. inversion Hb.
    cbn [Expand_Debug.dt_unsafe].
    apply (parse_unsafe_flag ts u ms Hb0). cbn [has_unsafe_marker] in Hm.
    destruct ts; [exact Logic.I|exact Hm].
Qed.

Definition debug_union_builder : Expand_Debug.dtbuilder :=
  {| Expand_Debug.tb_flag := true; Expand_Debug.tb_unsafe := true; Expand_Debug.tb_name := true;
     Expand_Debug.tb_named_field := false; Expand_Debug.tb_bound := false;
     Expand_Debug.tb_name0 := Expand_Debug.TNDefault; Expand_Debug.tb_named_field0 := false |}.

(** without the marker the three handlers never produce an impl; when the attribute is
    otherwise well-formed the answer is the dedicated error *)
Theorem union_needs_unsafe F traits d m fs :
  d_data d = DUnion fs -> has_unsafe_marker m = false ->
  (forall items, Expand_Debug.expand_debug F traits d m <> Ok items) /\
  (forall items, expand_partial_eq F traits d m <> Ok items) /\
  (forall items, expand_hash F traits d m <> Ok items) /\
  (forall ta, Expand_Debug.build_dtattr debug_union_builder m = Ok ta ->
              Expand_Debug.expand_debug F traits d m = Err E_union_without_unsafe) /\
  (forall ta, build_tattr true true false m = Ok ta ->
              expand_partial_eq F traits d m = Err E_union_without_unsafe /\
              expand_hash F traits d m = Err E_union_without_unsafe).
Proof.
  intros Hd Hm.
  assert (HD : forall ta, Expand_Debug.build_dtattr debug_union_builder m = Ok ta ->
                          Expand_Debug.expand_debug F traits d m = Err E_union_without_unsafe).
  { intros ta Hta. unfold Expand_Debug.expand_debug. rewrite Hd.
    fold debug_union_builder. rewrite Hta. cbn [bind].
    rewrite (dtattr_no_marker debug_union_builder m ta Hm eq_refl Hta). reflexivity. }
  assert (HE : forall ta, build_tattr true true false m = Ok ta ->
                          expand_partial_eq F traits d m = Err E_union_without_unsafe).
  { intros ta Hta. unfold expand_partial_eq. rewrite Hd, Hta. cbn [bind].
    rewrite (tattr_no_marker true false m ta Hm Hta). reflexivity. }
  assert (HH : forall ta, build_tattr true true false m = Ok ta ->
                          expand_hash F traits d m = Err E_union_without_unsafe).
  { intros ta Hta. unfold expand_hash. rewrite Hd, Hta. cbn [bind].
    rewrite (tattr_no_marker true false m ta Hm Hta). reflexivity. }
  repeat split.
  - intros items H. pose proof H as H0. unfold Expand_Debug.expand_debug in H0. rewrite Hd in H0.
    fold debug_union_builder in H0. inv_bind H0. rewrite (HD a Hb) in H. discriminate H.
  - intros items H. pose proof H as H0. unfold expand_partial_eq in H0. rewrite Hd in H0.
    inv_bind H0. rewrite (HE a Hb) in H. discriminate H.
  - intros items H. pose proof H as H0. unfold expand_hash in H0. rewrite Hd in H0.
    inv_bind H0. rewrite (HH a Hb) in H. discriminate H.
  - exact HD.
  - exact (HE ta H).
  - exact (HH ta H).
Qed.

(** conversely, the flag the handlers test IS the marker *)
Lemma parse_unsafe_metas_marker r u ms :
  parse_unsafe_metas (TIdent "unsafe" :: r) = Ok (u, ms) -> u = true.
Proof.
  destruct r as [|t r']; cbn [parse_unsafe_metas].
  - intros H. inversion H. reflexivity.
  - destruct t as [s|s| | | |]; try discriminate.
    destruct s as [|[[] [] [] [] [] [] [] []] s]; try discriminate.
    destruct s; [|discriminate]. intros H. inv_bind H. inversion H. reflexivity.
Qed.

Lemma is_ident_eq s t : is_ident s t = true -> t = TIdent s.
Proof.
  destruct t; cbn [is_ident]; try discriminate. intros H. apply String.eqb_eq in H. subst. reflexivity.
Qed.

Theorem tattr_unsafe_is_marker ef eb m ta :
  build_tattr ef true eb m = Ok ta -> ta_unsafe ta = has_unsafe_marker m.
Proof.
  intros Hb. destruct (has_unsafe_marker m) eqn:Hm; [|exact (tattr_no_marker ef eb m ta Hm Hb)].
  destruct m as [p|p v|p dl [|t r]]; try discriminate Hm. cbn [has_unsafe_marker] in Hm.
  apply is_ident_eq in Hm. subst t. cbn [build_tattr] in Hb.
  inv_bind Hb. destruct a as [u ms]. inv_bind Hb. destruct a as [x b]. inversion Hb. cbn [ta_unsafe].
  exact (parse_unsafe_metas_marker r u ms Hb0).
Qed.
