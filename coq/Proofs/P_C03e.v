(** C03 / C04 — top-level theorems: the emitted `cmp` / `partial_cmp` compute
    [spec_cmp] / [spec_partial_cmp]; the PartialOrd impl emitted by the Ord
    handler is `Some(Ord::cmp(self, other))`. *)
From Educe.Proofs Require Export P_C03d.

(** `a.cmp(&b)` / `a.partial_cmp(&b)` through the generated impl *)
Definition run_cmp (I : interp) (it : item) (a b : value) : option comparison :=
  match find_fn "cmp" it with
  | Some body =>
      match run_body I eq_env body (eq_state a b) with
      | (RVal (VOrd c), _) => Some c
      | _ => None
      end
  | None => None
  end.

Definition run_partial_cmp (I : interp) (it : item) (a b : value) : option (option comparison) :=
  match find_fn "partial_cmp" it with
  | Some body =>
      match run_body I eq_env body (eq_state a b) with
      | (RVal (VOpt None), _) => Some None
      | (RVal (VOpt (Some (VOrd c))), _) => Some (Some c)
      | _ => None
      end
  | None => None
  end.

(** what the handlers put in the method body, in terms of the analysis *)
Definition body_of (partial : bool) (F : features) (own : trait -> bool) (traits : list trait)
           (d : dinput) (body : block) : Prop :=
  match d_data d with
  | DStruct fs =>
      exists p, plan_fields F own traits (fields_list fs) = Ok p /\ body = cmp_struct_body partial p
  | DEnum vs =>
      exists ds vps, discriminant_values vs = Ok ds /\
                     mapM (plan_variant F own traits) vs = Ok vps /\
                     body = cmp_enum_body partial ds vps
  | DUnion _ => False
  end.

Lemma expand_ord_body F traits d m items :
  expand_ord F traits d m = Ok items ->
  exists g body, items = ord_items F traits d g body /\
                 body_of false F (own_ord F traits) traits d body.
Proof.
  intros H. unfold expand_ord in H. unfold body_of. destruct (d_data d) as [fs|vs|fs].
  - apply bind_ok in H as [ta [_ H]]. apply bind_ok in H as [p [Hp H]]. inversion H.
    eexists; eexists; split; [reflexivity|]. exists p. split; [exact Hp|reflexivity].
  - apply bind_ok in H as [ta [_ H]]. apply bind_ok in H as [ds [Hds H]].
    apply bind_ok in H as [vps [Hvps H]]. inversion H.
    eexists; eexists; split; [reflexivity|]. exists ds, vps. repeat split; assumption.
  - discriminate H.
Qed.

Lemma expand_partial_ord_body F traits d m items :
  has_trait TOrd F && has_trait TOrd traits = false ->
  expand_partial_ord F traits d m = Ok items ->
  exists g body, items = [partial_ord_item d g body] /\
                 body_of true F (trait_eqb TPartialOrd) traits d body.
Proof.
  intros Hc H. unfold expand_partial_ord in H. rewrite Hc in H. unfold body_of.
  destruct (d_data d) as [fs|vs|fs].
  - apply bind_ok in H as [ta [_ H]]. apply bind_ok in H as [p [Hp H]]. inversion H.
    eexists; eexists; split; [reflexivity|]. exists p. split; [exact Hp|reflexivity].
  - apply bind_ok in H as [ta [_ H]]. apply bind_ok in H as [ds [Hds H]].
    apply bind_ok in H as [vps [Hvps H]]. inversion H.
    eexists; eexists; split; [reflexivity|]. exists ds, vps. repeat split; assumption.
  - discriminate H.
Qed.

Section Top.
  Variable I : interp.

  (** running either flavour's body gives the specification's answer *)
  Theorem body_generic partial F own traits d c a b body :
    data_wf (d_data d) ->
    body_of partial F own traits d body ->
    ord_cfg F own traits d = Ok c ->
    omethods_typed partial I c ->
    ovalue_ok c a = true -> ovalue_ok c b = true ->
    exists o s', spec_o partial I c a b = Some o /\
                 run_body I eq_env body (eq_state a b) = (RVal (enc partial o), s').
  Proof.
    intros Hwf Hbody Hc Hm Ha Hb. unfold body_of in Hbody. unfold ord_cfg in Hc.
    destruct (d_data d) as [fs|vs|fs]; [| |destruct Hbody].
    - destruct Hbody as [p [Hp ->]].
      rewrite (plan_keyed F own traits _ p Hp) in Hc. cbn [bind] in Hc.
      inversion Hc; subst c; clear Hc.
      destruct a as [| | | | | |va xs| | | | |]; try discriminate Ha.
      destruct b as [| | | | | |vb ys| | | | |]; try discriminate Hb.
      destruct va as [va|]; [cbn in Ha; discriminate Ha|].
      destruct vb as [vb|]; [cbn in Hb; discriminate Hb|].
      cbn [ovalue_ok oc_get] in Ha, Hb. apply oshape_ok_keys in Ha. apply oshape_ok_keys in Hb.
      destruct (struct_generic I F own traits partial _ p xs ys Hp Ha Hb) as [s' Hev].
      { apply (Hm None 0%Z). left. reflexivity. }
      eexists; exists s'. split; [|exact Hev].
      erewrite spec_o_data by reflexivity. reflexivity.
    - destruct Hbody as [ds [vps [Hds [Hvps ->]]]].
      rewrite Hds in Hc. cbn [bind] in Hc.
      apply bind_ok in Hc as [ls [Hls Hc]]. inversion Hc; subst c; clear Hc.
      apply (enum_generic I F own traits partial vs ds vps ls a b Hds Hvps Hls Hwf Hm Ha Hb).
  Qed.

  Theorem ord_cmp_spec F traits d m items c a b :
    data_wf (d_data d) ->
    expand_ord F traits d m = Ok items ->
    ord_cfg F (own_ord F traits) traits d = Ok c ->
    omethods_typed false I c ->
    ovalue_ok c a = true -> ovalue_ok c b = true ->
    exists it rest, items = it :: rest /\ run_cmp I it a b = spec_cmp I c a b.
  Proof.
    intros Hwf He Hc Hm Ha Hb.
    destruct (expand_ord_body F traits d m items He) as [g [body [-> Hbody]]].
    unfold ord_items. eexists; eexists; split; [reflexivity|].
    destruct (body_generic false F _ traits d c a b body Hwf Hbody Hc Hm Ha Hb) as [o [s' [Hspec Hev]]].
    unfold run_cmp, find_fn, ord_item. cbn [i_members find String.eqb Ascii.eqb Bool.eqb].
    rewrite Hev. unfold spec_o in Hspec.
    destruct (spec_cmp I c a b) as [r|]; [|discriminate Hspec].
    inversion Hspec; subst o. reflexivity.
  Qed.

  Theorem partial_ord_cmp_spec F traits d m items c a b :
    has_trait TOrd F && has_trait TOrd traits = false ->
    data_wf (d_data d) ->
    expand_partial_ord F traits d m = Ok items ->
    ord_cfg F (trait_eqb TPartialOrd) traits d = Ok c ->
    omethods_typed true I c ->
    ovalue_ok c a = true -> ovalue_ok c b = true ->
    exists it rest, items = it :: rest /\ run_partial_cmp I it a b = spec_partial_cmp I c a b.
  Proof.
    intros Hno Hwf He Hc Hm Ha Hb.
    destruct (expand_partial_ord_body F traits d m items Hno He) as [g [body [-> Hbody]]].
    eexists; eexists; split; [reflexivity|].
    destruct (body_generic true F _ traits d c a b body Hwf Hbody Hc Hm Ha Hb) as [o [s' [Hspec Hev]]].
    unfold run_partial_cmp, find_fn, partial_ord_item.
    cbn [i_members find String.eqb Ascii.eqb Bool.eqb].
    rewrite Hev. unfold spec_o in Hspec. rewrite Hspec.
    destruct o as [r|]; reflexivity.
  Qed.
End Top.

(** ** both traits educed: the PartialOrd impl comes from the Ord handler and
    is `Some(::core::cmp::Ord::cmp(self, other))` *)
Theorem partial_is_some_cmp F traits d m items :
  has_trait TPartialOrd F = true -> has_trait TPartialOrd traits = true ->
  expand_ord F traits d m = Ok items ->
  exists ito itp,
    items = [ito; itp] /\
    i_trait ito = Some (core_path ["cmp"; "Ord"]) /\
    i_trait itp = Some (core_path ["cmp"; "PartialOrd"]) /\
    i_generics itp = i_generics ito /\
    i_members itp = [MFn inline_attr "partial_cmp" partial_cmp_sig ["self"; "other"]
                         partial_ord_via_ord_body] /\
    (* whatever the operands, it answers Some(<Self as Ord>::cmp(a, b)) ... *)
    (forall I a b, run_partial_cmp I itp a b = Some (Some (i_cmp I a b))) /\
    (* ... so, <Self as Ord>::cmp being the emitted `cmp`, partial_cmp(a, b) = Some(cmp(a, b)) *)
    (forall I a b r, run_cmp I ito a b = Some r -> i_cmp I a b = r ->
                     run_partial_cmp I itp a b = Some (Some r)).
Proof.
  intros HF HT He. destruct (expand_ord_body F traits d m items He) as [g [body [-> _]]].
  unfold ord_items. rewrite HF, HT. cbn [andb].
  eexists; eexists. split; [reflexivity|]. repeat split.
  intros I a b r _ <-. reflexivity.
Qed.

(** ... and the PartialOrd handler itself emits nothing then *)
Theorem partial_ord_defers_to_ord F traits d m items :
  has_trait TOrd F = true -> has_trait TOrd traits = true ->
  expand_partial_ord F traits d m = Ok items -> items = [].
Proof.
  intros HF HT He. unfold expand_partial_ord in He. rewrite HF, HT in He. cbn [andb] in He.
  apply bind_ok in He as [ta [_ He]]. inversion He. reflexivity.
Qed.

(** "whichever of Ord(...) / PartialOrd(...) carried the field attributes":
    the Ord handler's attribute scanner treats an `Ord(args)` entry and a
    `PartialOrd(args)` entry with the same arguments alike *)
Definition same_args (m1 m2 : meta) : Prop :=
  match m1, m2 with
  | MPath _, MPath _ => True
  | MNameValue _ v1, MNameValue _ v2 => v1 = v2
  | MList _ _ t1, MList _ _ t2 => t1 = t2
  | _, _ => False
  end.

Theorem attr_carrier_irrelevant F traits ei em er rank acc m1 m2 :
  has_trait TOrd traits = true ->
  has_trait TPartialOrd F = true -> has_trait TPartialOrd traits = true ->
  trait_from_path F (meta_path m1) = Some TOrd ->
  trait_from_path F (meta_path m2) = Some TPartialOrd ->
  same_args m1 m2 ->
  scan_meta F (own_ord F traits) (build_ofattr ei em er rank) traits acc m1 =
  scan_meta F (own_ord F traits) (build_ofattr ei em er rank) traits acc m2.
Proof.
  intros HO HPF HP H1 H2 Hs. unfold scan_meta. rewrite H1, H2, HO, HP. cbn [negb].
  unfold own_ord. rewrite HPF, HP. cbn [trait_eqb orb andb].
  destruct acc; [reflexivity|].
  destruct m1, m2; cbn [same_args] in Hs; try destruct Hs; try subst; reflexivity.
Qed.
