(** C02 — PartialEq is exactly field-wise equality over the compared fields. *)
From Educe.Spec Require Export SpecEq.
From Educe.Proofs Require Export StringLemmas EvalLemmas.
From Educe.Model Require Export Expand_PartialEq.

Definition find_fn (name : string) (it : item) : option block :=
  match find (fun m => match m with MFn _ n _ _ _ => String.eqb n name | _ => false end)
             (i_members it) with
  | Some (MFn _ _ _ _ body) => Some body
  | _ => None
  end.

Definition self_place : place := {| pl_root := "self"; pl_path := [] |}.
Definition other_place : place := {| pl_root := "other"; pl_path := [] |}.
Definition eq_env : env := [("self", VRef self_place); ("other", VRef other_place)].
Definition eq_state (a b : value) : state :=
  {| st_store := [("self", a); ("other", b)]; st_trace := [] |}.

(** `a == b` through the generated impl *)
Definition run_eq (I : interp) (it : item) (a b : value) : option bool :=
  match find_fn "eq" it with
  | Some body =>
      match run_body I eq_env body (eq_state a b) with
      | (RVal (VBool r), _) => Some r
      | _ => None
      end
  | None => None
  end.

(** "the user-written parts are well-typed": every custom method returns a bool *)
Definition methods_typed (I : interp) (l : list (string * fattr)) : Prop :=
  forall k fa m x y, In (k, fa) l -> fa_method fa = Some m -> exists b, i_user I m [x; y] = VBool b.

Section Proofs.
  Variable I : interp.

  Definition same_store (s s' : state) : Prop := st_store s' = st_store s.

  (** one comparison statement on two references *)
  Lemma eval_check fa en ea eb pa pb x y s :
    (forall s0, eval I en ea s0 = (RVal (VRef pa), s0)) ->
    (forall s0, eval I en eb s0 = (RVal (VRef pb), s0)) ->
    load (st_store s) pa = Some x -> load (st_store s) pb = Some y ->
    (forall m, fa_method fa = Some m -> exists b, i_user I m [x; y] = VBool b) ->
    exists s', same_store s s' /\
      eval I en (peq_check fa ea eb) s =
      ((if field_eq I fa x y then RVal VUnit else RRet (VBool false)), s').
  Proof.
    intros Ha Hb Hx Hy Hm. unfold peq_check, field_eq.
    destruct (fa_method fa) as [m|] eqn:Em.
    - destruct (Hm m eq_refl) as [b Hbv].
      cbn [eval eval_args]. rewrite Ha, Hb. cbn [apply_path]. unfold call_user.
      cbn [strip_all strip]. rewrite Hx, Hy. rewrite Hbv. cbn [as_bool negb].
      eexists; split; [|destruct b; cbn; reflexivity]. reflexivity.
    - cbn [eval eval_args ne_path]. rewrite Ha, Hb.
      cbn [apply_path]. unfold call_core, strip2. cbn [strip]. rewrite Hx, Hy.
      exists s; split; [reflexivity|]. destruct (i_ne I x y); cbn; reflexivity.
  Qed.

  Lemma peq_check_no_let fa a b : no_let (peq_check fa a b) = true.
  Proof. unfold peq_check. destruct (fa_method fa); reflexivity. Qed.

  Lemma eval_self_field n s0 :
    eval I eq_env (ERef (EField (EVar "self") n)) s0 = (RVal (VRef (sub self_place n)), s0).
  Proof. reflexivity. Qed.
  Lemma eval_other_field n s0 :
    eval I eq_env (ERef (EField (EVar "other") n)) s0 = (RVal (VRef (sub other_place n)), s0).
  Proof. reflexivity. Qed.

  Lemma load_self va vb xs ys n s :
    st_store s = [("self", VData va xs); ("other", VData vb ys)] ->
    load (st_store s) (sub self_place n) = lookup n xs.
  Proof. intros ->. cbn. destruct (lookup n xs); reflexivity. Qed.
  Lemma load_other va vb xs ys n s :
    st_store s = [("self", VData va xs); ("other", VData vb ys)] ->
    load (st_store s) (sub other_place n) = lookup n ys.
  Proof. intros ->. cbn. destruct (lookup n ys); reflexivity. Qed.

  (** the per-field meaning used by the spec, on (index, field, request) triples *)
  Definition triple_ok (xs ys : list (string * value)) (t : nat * field * fattr) : bool :=
    let '(i, f, fa) := t in
    fa_ignore fa ||
    match lookup (field_member f i) xs, lookup (field_member f i) ys with
    | Some x, Some y => field_eq I fa x y
    | _, _ => false
    end.

  Definition triple_wf (xs ys : list (string * value)) (t : nat * field * fattr) : Prop :=
    let '(i, f, fa) := t in
    exists x y, lookup (field_member f i) xs = Some x /\ lookup (field_member f i) ys = Some y /\
                forall m, fa_method fa = Some m -> exists b, i_user I m [x; y] = VBool b.

  Lemma struct_checks l : forall xs ys s,
    st_store s = [("self", VData None xs); ("other", VData None ys)] ->
    Forall (triple_wf xs ys) l ->
    exists s', same_store s s' /\
      eval_block (eval I) eq_env (peq_struct_body l ++ [EBool true]) s =
      ((if forallb (triple_ok xs ys) l then RVal (VBool true) else RRet (VBool false)), s').
  Proof.
    induction l as [|[[i f] fa] r IH]; intros xs ys s Hs Hwf.
    - exists s. split; [reflexivity|]. reflexivity.
    - inversion Hwf as [|? ? Ht Hr]; subst.
      destruct Ht as [x [y [Hx [Hy Hm]]]].
      unfold peq_struct_body. cbn [flat_map]. fold (peq_struct_body r).
      cbn [forallb triple_ok].
      destruct (fa_ignore fa) eqn:Eig.
      + cbn [app orb]. apply IH; assumption.
      + cbn [app orb]. rewrite Hx, Hy.
        rewrite eval_block_cons by apply peq_check_no_let.
        destruct (eval_check fa eq_env _ _ _ _ x y s
                    (eval_self_field (field_member f i)) (eval_other_field (field_member f i)))
          as [s1 [Hs1 Hev]].
        * rewrite (load_self _ _ _ _ _ _ Hs). exact Hx.
        * rewrite (load_other _ _ _ _ _ _ Hs). exact Hy.
        * exact Hm.
        * rewrite Hev. destruct (field_eq I fa x y).
          -- cbn [andb].
             assert (Hne : is_nil (peq_struct_body r ++ [EBool true]) = false)
               by (destruct (peq_struct_body r); reflexivity).
             rewrite Hne.
             destruct (IH xs ys s1) as [s2 [Hs2 Hev2]].
             ++ rewrite Hs1. exact Hs.
             ++ exact Hr.
             ++ exists s2. split; [unfold same_store in *; congruence|exact Hev2].
          -- cbn [andb]. exists s1. split; [exact Hs1|reflexivity].
  Qed.

  (** ** enum arms *)
  Definition fname (f : field) : string := match f_name f with Some n => n | None => "" end.

  (** bindings introduced by matching a named-variant pattern through a reference to [p] *)
  Definition binds_named (pre : string) (p : place) (l : list (field * fattr)) : env :=
    flat_map (fun '(f, fa) => if fa_ignore fa then []
                              else [(pre ^^ unraw (fname f), VRef (sub p (fname f)))]) l.
  Definition binds_unnamed (pre : string) (p : place) (l : list (nat * (field * fattr))) : env :=
    flat_map (fun '(i, (f, fa)) => if fa_ignore fa then []
                                   else [(pre ^^ dec i, VRef (sub p (dec i)))]) l.

  Definition pats_named (pre : string) (l : list (field * fattr)) : list (string * option pat) :=
    map (fun '(f, fa) => (fname f, Some (if fa_ignore fa then PWild
                                         else PBind (pre ^^ unraw (fname f))))) l.
  Definition pats_unnamed (pre : string) (l : list (nat * (field * fattr))) : list pat :=
    map (fun '(i, (f, fa)) => if fa_ignore fa then PWild else PBind (pre ^^ dec i)) l.

  Lemma match_named pre p st l :
    (forall f fa, In (f, fa) l -> load st (sub p (fname f)) <> None) ->
    match_field_pats (match_pat st) st (VRef p) (pats_named pre l) = Some (binds_named pre p l).
  Proof.
    induction l as [|[f fa] r IH]; intros H; [reflexivity|].
    cbn [pats_named map match_field_pats binds_named flat_map].
    fold (pats_named pre r). fold (binds_named pre p r).
    unfold sub_scrut. destruct (load st (sub p (fname f))) eqn:E.
    - rewrite IH by (intros g ga Hin; apply (H g ga); right; assumption).
      destruct (fa_ignore fa); reflexivity.
    - exfalso. eapply H; [left; reflexivity|exact E].
  Qed.

  Lemma match_unnamed pre p st l :
    (forall i f fa, In (i, (f, fa)) l -> load st (sub p (dec i)) <> None) ->
    forall i0, map fst l = seq i0 (List.length l) ->
    match_tuple_pats (match_pat st) st (VRef p) i0 (pats_unnamed pre l) = Some (binds_unnamed pre p l).
  Proof.
    induction l as [|[i [f fa]] r IH]; intros H i0 Hidx; [reflexivity|].
    cbn in Hidx. inversion Hidx as [[Hi Hr]]. subst i0.
    cbn [pats_unnamed map match_tuple_pats binds_unnamed flat_map].
    fold (pats_unnamed pre r). fold (binds_unnamed pre p r).
    unfold sub_scrut. destruct (load st (sub p (dec i))) eqn:E.
    - rewrite (IH (fun j g ga Hin => H j g ga (or_intror Hin)) (S i) Hr).
      destruct (fa_ignore fa); reflexivity.
    - exfalso. eapply H; [left; reflexivity|exact E].
  Qed.

  Lemma lookup_binds_named pre p l f fa :
    NoDup (map (fun t => unraw (fname (fst t))) l) ->
    In (f, fa) l -> fa_ignore fa = false ->
    lookup (pre ^^ unraw (fname f)) (binds_named pre p l) = Some (VRef (sub p (fname f))).
  Proof.
    induction l as [|[g ga] r IH]; intros Hnd Hin Hig; [destruct Hin|].
    cbn [map fst] in Hnd. inversion Hnd as [|? ? Hnotin Hnd']; subst.
    cbn [binds_named flat_map]. fold (binds_named pre p r).
    destruct Hin as [Heq|Hin].
    - inversion Heq; subst. rewrite Hig. cbn [app lookup].
      rewrite String.eqb_refl. reflexivity.
    - destruct (fa_ignore ga).
      + cbn [app]. apply IH; assumption.
      + cbn [app lookup]. rewrite append_eqb_prefix.
        destruct (String.eqb (unraw (fname f)) (unraw (fname g))) eqn:E.
        * apply String.eqb_eq in E. exfalso. apply Hnotin.
          rewrite <- E. apply (in_map (fun t => unraw (fname (fst t))) r (f, fa)). exact Hin.
        * apply IH; assumption.
  Qed.

  Lemma lookup_binds_unnamed pre p l i f fa :
    In (i, (f, fa)) l -> fa_ignore fa = false ->
    lookup (pre ^^ dec i) (binds_unnamed pre p l) = Some (VRef (sub p (dec i))).
  Proof.
    induction l as [|[j [g ga]] r IH]; intros Hin Hig; [destruct Hin|].
    cbn [binds_unnamed flat_map]. fold (binds_unnamed pre p r).
    destruct (fa_ignore ga) eqn:Ega.
    - cbn [app]. destruct Hin as [Heq|Hin]; [inversion Heq; subst; congruence|].
      apply IH; assumption.
    - cbn [app lookup]. rewrite append_eqb_prefix.
      destruct (String.eqb (dec i) (dec j)) eqn:E.
      + apply String.eqb_eq in E. rewrite E. reflexivity.
      + destruct Hin as [Heq|Hin]; [inversion Heq; subst; rewrite String.eqb_refl in E; discriminate|].
        apply IH; assumption.
  Qed.

  Lemma lookup_binds_named_other pre pre' p l k :
    (forall u, String.eqb (pre' ^^ k) (pre ^^ u) = false) ->
    lookup (pre' ^^ k) (binds_named pre p l) = None.
  Proof.
    intros H. induction l as [|[g ga] r IH]; [reflexivity|].
    cbn [binds_named flat_map]. fold (binds_named pre p r).
    destruct (fa_ignore ga); cbn [app lookup]; [exact IH|]. rewrite H. exact IH.
  Qed.

  Lemma lookup_binds_unnamed_other p l i :
    lookup ("_" ^^ dec i) (binds_unnamed "__" p l) = None.
  Proof.
    induction l as [|[j [g ga]] r IH]; [reflexivity|].
    cbn [binds_unnamed flat_map]. fold (binds_unnamed "__" p r).
    destruct (fa_ignore ga); cbn [app lookup]; [exact IH|].
    rewrite underscore_dec_neq. exact IH.
  Qed.

  Lemma eval_block_cons_unit en e r s s1 :
    no_let e = true -> eval I en e s = (RVal VUnit, s1) ->
    eval_block (eval I) en (e :: r) s = eval_block (eval I) en r s1.
  Proof.
    intros Hn He. rewrite eval_block_cons by exact Hn. rewrite He.
    destruct r; reflexivity.
  Qed.

  Definition checks_named (l : list (field * fattr)) : block :=
    flat_map (fun '(f, fa) =>
                if fa_ignore fa then []
                else [peq_check fa (EVar ("_s_" ^^ unraw (fname f))) (EVar ("_o_" ^^ unraw (fname f)))]) l.
  Definition checks_unnamed (l : list (nat * (field * fattr))) : block :=
    flat_map (fun '(i, (f, fa)) =>
                if fa_ignore fa then []
                else [peq_check fa (EVar ("_" ^^ dec i)) (EVar ("__" ^^ dec i))]) l.

  Definition pair_ok (xs ys : list (string * value)) (k : string) (fa : fattr) : bool :=
    fa_ignore fa ||
    match lookup k xs, lookup k ys with
    | Some x, Some y => field_eq I fa x y
    | _, _ => false
    end.
  Definition pair_wf (xs ys : list (string * value)) (k : string) (fa : fattr) : Prop :=
    exists x y, lookup k xs = Some x /\ lookup k ys = Some y /\
                forall m, fa_method fa = Some m -> exists b, i_user I m [x; y] = VBool b.

  Definition env_named (l : list (field * fattr)) : env :=
    binds_named "_o_" other_place l ++ binds_named "_s_" self_place l ++ eq_env.
  Definition env_unnamed (l : list (nat * (field * fattr))) : env :=
    binds_unnamed "__" other_place l ++ binds_unnamed "_" self_place l ++ eq_env.

  Lemma so_neq k u : String.eqb ("_s_" ^^ k) ("_o_" ^^ u) = false.
  Proof. reflexivity. Qed.

  Lemma arm_checks_named l va vb xs ys :
    NoDup (map (fun t => unraw (fname (fst t))) l) ->
    forall r, incl r l -> forall s,
    st_store s = [("self", VData va xs); ("other", VData vb ys)] ->
    Forall (fun t => pair_wf xs ys (fname (fst t)) (snd t)) r ->
    exists s', same_store s s' /\
      eval_block (eval I) (env_named l) (checks_named r) s =
      ((if forallb (fun t => pair_ok xs ys (fname (fst t)) (snd t)) r
        then RVal VUnit else RRet (VBool false)), s').
  Proof.
    intros Hnd. induction r as [|[f fa] r IH]; intros Hincl s Hs Hwf.
    - exists s. split; reflexivity.
    - inversion Hwf as [|? ? Ht Hr]; subst. cbn [fst snd] in Ht.
      destruct Ht as [x [y [Hx [Hy Hm]]]].
      assert (Hin : In (f, fa) l) by (apply Hincl; left; reflexivity).
      assert (Hincl' : incl r l) by (intros t Ht; apply Hincl; right; exact Ht).
      cbn [checks_named flat_map forallb fst snd]. fold (checks_named r).
      unfold pair_ok at 1. destruct (fa_ignore fa) eqn:Eig.
      + cbn [app orb andb]. apply IH; assumption.
      + cbn [app orb]. rewrite Hx, Hy.
        destruct (eval_check fa (env_named l) (EVar ("_s_" ^^ unraw (fname f)))
                    (EVar ("_o_" ^^ unraw (fname f)))
                    (sub self_place (fname f)) (sub other_place (fname f)) x y s) as [s1 [Hs1 Hev]].
        * intros s0. cbn [eval]. unfold env_named. rewrite lookup_app.
          rewrite lookup_binds_named_other by (intros u; apply so_neq).
          rewrite lookup_app. rewrite (lookup_binds_named _ _ _ _ _ Hnd Hin Eig). reflexivity.
        * intros s0. cbn [eval]. unfold env_named. rewrite lookup_app.
          rewrite (lookup_binds_named _ _ _ _ _ Hnd Hin Eig). reflexivity.
        * rewrite (load_self _ _ _ _ _ _ Hs). exact Hx.
        * rewrite (load_other _ _ _ _ _ _ Hs). exact Hy.
        * exact Hm.
        * destruct (field_eq I fa x y).
          -- cbn [andb]. rewrite (eval_block_cons_unit _ _ _ _ s1) by (try apply peq_check_no_let; exact Hev).
             destruct (IH Hincl' s1) as [s2 [Hs2 Hev2]]; [rewrite Hs1; exact Hs|exact Hr|].
             exists s2. split; [unfold same_store in *; congruence|exact Hev2].
          -- cbn [andb]. rewrite eval_block_cons by apply peq_check_no_let. rewrite Hev.
             exists s1. split; [exact Hs1|reflexivity].
  Qed.

  Lemma arm_checks_unnamed l va vb xs ys :
    forall r, incl r l -> forall s,
    st_store s = [("self", VData va xs); ("other", VData vb ys)] ->
    Forall (fun t => pair_wf xs ys (dec (fst t)) (snd (snd t))) r ->
    exists s', same_store s s' /\
      eval_block (eval I) (env_unnamed l) (checks_unnamed r) s =
      ((if forallb (fun t => pair_ok xs ys (dec (fst t)) (snd (snd t))) r
        then RVal VUnit else RRet (VBool false)), s').
  Proof.
    induction r as [|[i [f fa]] r IH]; intros Hincl s Hs Hwf.
    - exists s. split; reflexivity.
    - inversion Hwf as [|? ? Ht Hr]; subst. cbn [fst snd] in Ht.
      destruct Ht as [x [y [Hx [Hy Hm]]]].
      assert (Hin : In (i, (f, fa)) l) by (apply Hincl; left; reflexivity).
      assert (Hincl' : incl r l) by (intros t Ht; apply Hincl; right; exact Ht).
      cbn [checks_unnamed flat_map forallb fst snd]. fold (checks_unnamed r).
      unfold pair_ok at 1. destruct (fa_ignore fa) eqn:Eig.
      + cbn [app orb andb]. apply IH; assumption.
      + cbn [app orb]. rewrite Hx, Hy.
        destruct (eval_check fa (env_unnamed l) (EVar ("_" ^^ dec i)) (EVar ("__" ^^ dec i))
                    (sub self_place (dec i)) (sub other_place (dec i)) x y s) as [s1 [Hs1 Hev]].
        * intros s0. cbn [eval]. unfold env_unnamed. rewrite lookup_app.
          rewrite lookup_binds_unnamed_other.
          rewrite lookup_app. rewrite (lookup_binds_unnamed _ _ _ _ _ _ Hin Eig). reflexivity.
        * intros s0. cbn [eval]. unfold env_unnamed. rewrite lookup_app.
          change ("__" ^^ dec i) with ("__" ^^ dec i).
          rewrite (lookup_binds_unnamed "__" _ _ _ _ _ Hin Eig). reflexivity.
        * rewrite (load_self _ _ _ _ _ _ Hs). exact Hx.
        * rewrite (load_other _ _ _ _ _ _ Hs). exact Hy.
        * exact Hm.
        * destruct (field_eq I fa x y).
          -- cbn [andb]. rewrite (eval_block_cons_unit _ _ _ _ s1) by (try apply peq_check_no_let; exact Hev).
             destruct (IH Hincl' s1) as [s2 [Hs2 Hev2]]; [rewrite Hs1; exact Hs|exact Hr|].
             exists s2. split; [unfold same_store in *; congruence|exact Hev2].
          -- cbn [andb]. rewrite eval_block_cons by apply peq_check_no_let. rewrite Hev.
             exists s1. split; [exact Hs1|reflexivity].
  Qed.

  (** *** a whole arm *)
  Lemma lookup_binds_named_none pre p l k :
    (forall u, String.eqb k (pre ^^ u) = false) -> lookup k (binds_named pre p l) = None.
  Proof.
    intros H. induction l as [|[g ga] r IH]; [reflexivity|].
    cbn [binds_named flat_map]. fold (binds_named pre p r).
    destruct (fa_ignore ga); cbn [app lookup]; [exact IH|]. rewrite H. exact IH.
  Qed.
  Lemma lookup_binds_unnamed_none pre p l k :
    (forall u, String.eqb k (pre ^^ u) = false) -> lookup k (binds_unnamed pre p l) = None.
  Proof.
    intros H. induction l as [|[j [g ga]] r IH]; [reflexivity|].
    cbn [binds_unnamed flat_map]. fold (binds_unnamed pre p r).
    destruct (fa_ignore ga); cbn [app lookup]; [exact IH|]. rewrite H. exact IH.
  Qed.

  Lemma in_fst_lookup {A} k (xs : list (string * A)) : In k (map fst xs) -> lookup k xs <> None.
  Proof.
    induction xs as [|[k' v] r IH]; cbn; intros H; [destruct H|].
    destruct (String.eqb k k') eqn:E; [discriminate|].
    destruct H as [H|H]; [subst; rewrite String.eqb_refl in E; discriminate|auto].
  Qed.

  Lemma else_false_eval en s :
    eval_block (eval I) en [ESemi (EReturn (EBool false))] s = (RRet (VBool false), s).
  Proof. reflexivity. Qed.

  Lemma peq_arm_named_eq v l :
    peq_arm_named v l =
    (PStruct (RSelfV v) (pats_named "_s_" l) true false,
     EBlock [EIfLet (PStruct (RSelfV v) (pats_named "_o_" l) true false) (EVar "other")
               (checks_named l) else_false]).
  Proof. reflexivity. Qed.
  Lemma peq_arm_unnamed_eq v l :
    peq_arm_unnamed v l =
    (PTuple (RSelfV v) (pats_unnamed "_" l) true false,
     EBlock [EIfLet (PTuple (RSelfV v) (pats_unnamed "__" l) true false) (EVar "other")
               (checks_unnamed l) else_false]).
  Proof. reflexivity. Qed.

  Lemma pats_named_length pre l : List.length (pats_named pre l) = List.length l.
  Proof. apply map_length. Qed.
  Lemma pats_unnamed_length pre l : List.length (pats_unnamed pre l) = List.length l.
  Proof. apply map_length. Qed.

  (** matching `Self::V { .. }` through a reference to a place holding variant [w] *)
  Lemma match_struct_pat st p pre v w zs l :
    load st p = Some (VData (Some w) zs) ->
    List.length l = List.length zs ->
    (forall f fa, In (f, fa) l -> load st (sub p (fname f)) <> None) ->
    match_pat st (PStruct (RSelfV v) (pats_named pre l) true false) (VRef p) =
    if String.eqb w v then Some (binds_named pre p l) else None.
  Proof.
    intros Hl Hlen Hloads. cbn [match_pat strip]. rewrite Hl.
    destruct (String.eqb w v); [|reflexivity].
    rewrite pats_named_length, Hlen, Nat.eqb_refl. cbn [orb andb].
    apply match_named. exact Hloads.
  Qed.
  Lemma match_tuple_pat st p pre v w zs l :
    load st p = Some (VData (Some w) zs) ->
    List.length l = List.length zs ->
    map fst l = seq 0 (List.length l) ->
    (forall i f fa, In (i, (f, fa)) l -> load st (sub p (dec i)) <> None) ->
    match_pat st (PTuple (RSelfV v) (pats_unnamed pre l) true false) (VRef p) =
    if String.eqb w v then Some (binds_unnamed pre p l) else None.
  Proof.
    intros Hl Hlen Hidx Hloads. cbn [match_pat strip is_some_path]. rewrite Hl.
    destruct (String.eqb w v); [|reflexivity].
    rewrite pats_unnamed_length, Hlen, Nat.eqb_refl. cbn [andb].
    apply match_unnamed; assumption.
  Qed.
  Lemma match_unit_pat st p v w zs :
    load st p = Some (VData (Some w) zs) ->
    match_pat st (PPath (RSelfV v)) (VRef p) = if String.eqb w v then Some [] else None.
  Proof. intros Hl. cbn [match_pat strip]. rewrite Hl. reflexivity. Qed.
End Proofs.
