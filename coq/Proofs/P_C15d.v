(** C15, the other direction — base: when every meta of an attribute list names an enabled trait
    that is educed on the type (the validation every scanner performs), a scanner returns on the
    restricted list exactly what it returns on the whole list (an equality of outcomes, not
    only of successes).  Plus the traversal lemmas in equality form used handler by handler. *)
From Educe.Proofs Require Export P_C15c.

(** * validity: the validation-only scanner (no own trait) accepts the attribute list *)
Definition attrs_valid (F : features) (tr : list trait) (attrs : list attr) : bool :=
  match scan_attrs F (fun _ => false) (fun _ : meta => Ok Datatypes.tt) tr attrs with
  | Ok _ => true
  | _ => false
  end.
Definition field_valid F tr (f : field) : bool := attrs_valid F tr (f_attrs f).
Definition variant_valid F tr (v : variant) : bool :=
  attrs_valid F tr (v_attrs v) && forallb (field_valid F tr) (fields_list (v_fields v)).
Definition data_valid F tr (dd : data) : bool :=
  match dd with
  | DStruct fs => forallb (field_valid F tr) (fields_list fs)
  | DEnum vs => forallb (variant_valid F tr) vs
  | DUnion fs => forallb (field_valid F tr) fs
  end.

(** every `#[educe(..)]` list attribute of the input — type, variants, fields — parses and each of
    its metas names an enabled trait that is educed at type level *)
Definition metas_educed (F : features) (d : dinput) : bool :=
  match foldM (collect_attr F) [] (d_attrs d) with
  | Ok tm => attrs_valid F (map fst tm) (d_attrs d) && data_valid F (map fst tm) (d_data d)
  | _ => false
  end.

(** Prop versions, convenient to thread through the traversals *)
Definition vattrs F tr attrs : Prop := attrs_valid F tr attrs = true.
Definition vfield F tr f : Prop := vattrs F tr (f_attrs f).
Definition vvariant F tr v : Prop := vattrs F tr (v_attrs v) /\ Forall (vfield F tr) (fields_list (v_fields v)).
Definition vdata F tr dd : Prop :=
  match dd with
  | DStruct fs => Forall (vfield F tr) (fields_list fs)
  | DEnum vs => Forall (vvariant F tr) vs
  | DUnion fs => Forall (vfield F tr) fs
  end.
Definition vinput F tr d : Prop := vattrs F tr (d_attrs d) /\ vdata F tr (d_data d).

Lemma forallb_Forall {A} (p : A -> bool) l : forallb p l = true -> Forall (fun x => p x = true) l.
Proof. intros H. apply Forall_forall. apply forallb_forall. exact H. Qed.

Lemma data_valid_v F tr dd : data_valid F tr dd = true -> vdata F tr dd.
Proof.
  destruct dd as [fs|vs|fs]; cbn [data_valid vdata]; intros H.
  - apply forallb_Forall in H. exact H.
  - apply forallb_Forall in H. revert H. apply Forall_impl. intros v Hv.
    unfold variant_valid in Hv. apply andb_true_iff in Hv as [H1 H2].
    split; [exact H1|apply forallb_Forall in H2; exact H2].
  - apply forallb_Forall in H. exact H.
Qed.

Lemma metas_educed_v F d tm :
  foldM (collect_attr F) [] (d_attrs d) = Ok tm -> metas_educed F d = true -> vinput F (map fst tm) d.
Proof.
  intros Hc H. unfold metas_educed in H. rewrite Hc in H. apply andb_true_iff in H as [H1 H2].
  split; [exact H1|apply data_valid_v; exact H2].
Qed.

(** * folds of the scanner shape: restricted = whole, given that the validation fold accepts *)
Section RevFold.
  Context {S U : Type}.
  Variables (step step' : S -> meta -> outcome S) (vstep : U -> meta -> outcome U)
            (other : S -> outcome S) (keep : trait -> bool).
  Hypothesis Hkept : forall u m u', vstep u m = Ok u' -> meta_kept keep m = true ->
                                    forall s, step' s m = step s m.
  Hypothesis Hdrop : forall u m u', vstep u m = Ok u' -> meta_kept keep m = false ->
                                    forall s, step s m = Ok s.

  Lemma rev_metas_fold ms : forall u u' s,
    foldM vstep u ms = Ok u' ->
    foldM step' s (filter (meta_kept keep) ms) = foldM step s ms.
  Proof.
    induction ms as [|m r IH]; intros u u' s H; cbn [foldM] in H; [reflexivity|].
    bo H. cbn [filter]. destruct (meta_kept keep m) eqn:E.
    - cbn [foldM]. rewrite (Hkept _ _ _ Hb E). destruct (step s m); cbn [bind]; try reflexivity.
      apply (IH _ _ _ H).
    - cbn [foldM]. rewrite (Hdrop _ _ _ Hb E). cbn [bind]. apply (IH _ _ _ H).
  Qed.

  Lemma rev_attr_fold attrs : forall u u' s,
    foldM (attr_step vstep (fun x => Ok x)) u attrs = Ok u' ->
    foldM (attr_step step' other) s (restrict_attrs keep attrs) = foldM (attr_step step other) s attrs.
  Proof.
    induction attrs as [|a r IH]; intros u u' s H; cbn [foldM] in H; [reflexivity|].
    bo H. unfold restrict_attrs. cbn [flat_map]. rewrite foldM_app. cbn [foldM].
    assert (Ha : foldM (attr_step step' other) s (restrict_attr keep a) = attr_step step other s a).
    { unfold restrict_attr. unfold attr_step in Hb at 1. unfold attr_step at 2.
      destruct (is_educe a) eqn:Ee.
      - destruct (a_meta a) as [| |dl ts] eqn:Em.
        + cbn [foldM]. unfold attr_step. rewrite Ee, Em. destruct (other s); reflexivity.
        + cbn [foldM]. unfold attr_step. rewrite Ee, Em. destruct (other s); reflexivity.
        + bo Hb. pose proof (parse_metas_restrict keep ts _ Hb0) as Hp.
          pose proof (rev_metas_fold _ _ _ s Hb) as Hf. rewrite Hb0. cbn [bind].
          destruct (is_nil (restrict_toks keep ts)) eqn:En.
          * destruct (restrict_toks keep ts); [|discriminate]. rewrite parse_metas_nil in Hp.
            injection Hp as Hp. rewrite <- Hp in Hf. exact Hf.
          * cbn [foldM]. unfold attr_step.
            change (is_educe {| a_path := a_path a; a_meta := AMList dl (restrict_toks keep ts) |})
              with (is_educe a). cbn [a_meta]. rewrite Ee, Hp. cbn [bind].
            rewrite Hf. destruct (foldM step s a1); reflexivity.
      - cbn [foldM]. unfold attr_step. rewrite Ee. reflexivity. }
    rewrite Ha. destruct (attr_step step other s a); cbn [bind]; try reflexivity.
    apply (IH _ _ _ H).
  Qed.
End RevFold.

(** * the scanners *)
Section RevScan.
  Variables (F : features) (keep : trait -> bool) (tr tr' : list trait).
  Hypothesis Htr : forall t, keep t = true -> has_trait t tr' = has_trait t tr.

  Lemma vstep_inv (u : option unit) m u' :
    scan_meta F (fun _ => false) (fun _ : meta => Ok Datatypes.tt) tr u m = Ok u' ->
    exists t, trait_from_path F (meta_path m) = Some t /\ has_trait t tr = true.
  Proof.
    unfold scan_meta. destruct (trait_from_path F (meta_path m)) as [t|]; [|discriminate].
    destruct (has_trait t tr) eqn:Eh; [|discriminate]. intros _. exists t. split; [reflexivity|exact Eh].
  Qed.

  Theorem scan_rev {A} own own' (build : meta -> outcome A) attrs :
    (forall t, own t = true -> keep t = true) ->
    (forall t, keep t = true -> own' t = own t) ->
    vattrs F tr attrs ->
    scan_attrs F own' build tr' (restrict_attrs keep attrs) = scan_attrs F own build tr attrs.
  Proof.
    intros Hown Hown' Hv. unfold vattrs, attrs_valid in Hv.
    destruct (scan_attrs F (fun _ => false) (fun _ : meta => Ok Datatypes.tt) tr attrs) as [u'| | |] eqn:Es;
      try discriminate. clear Hv.
    unfold scan_attrs, scan_attr in *.
    apply (rev_attr_fold (scan_meta F own build tr) (scan_meta F own' build tr')
             (scan_meta F (fun _ => false) (fun _ : meta => Ok Datatypes.tt) tr)
             (fun s => Ok s) keep) with (u := None) (u' := u'); [| |exact Es].
    - intros u m u1 Hs Hk s. apply vstep_inv in Hs as [t [Et Eh]].
      rewrite (meta_kept_tfp F keep _ _ Et) in Hk. unfold scan_meta. rewrite Et, (Htr t Hk), Eh.
      cbn [negb]. rewrite (Hown' t Hk). reflexivity.
    - intros u m u1 Hs Hk s. apply vstep_inv in Hs as [t [Et Eh]].
      rewrite (meta_kept_tfp F keep _ _ Et) in Hk. unfold scan_meta. rewrite Et, Eh. cbn [negb].
      destruct (own t) eqn:Eo; [rewrite (Hown t Eo) in Hk; discriminate|reflexivity].
  Qed.

  Theorem into_collect_rev attrs :
    keep TInto = true -> vattrs F tr attrs ->
    into_collect F tr' (restrict_attrs keep attrs) = into_collect F tr attrs.
  Proof.
    intros Hki Hv. unfold vattrs, attrs_valid in Hv.
    destruct (scan_attrs F (fun _ => false) (fun _ : meta => Ok Datatypes.tt) tr attrs) as [u'| | |] eqn:Es;
      try discriminate. clear Hv.
    unfold scan_attrs, scan_attr, into_collect, into_collect_attr in *.
    apply (rev_attr_fold (into_collect_meta F tr) (into_collect_meta F tr')
             (scan_meta F (fun _ => false) (fun _ : meta => Ok Datatypes.tt) tr)
             (fun s => Ok s) keep) with (u := None) (u' := u'); [| |exact Es].
    - intros u m u1 Hs Hk s. apply vstep_inv in Hs as [t [Et Eh]].
      rewrite (meta_kept_tfp F keep _ _ Et) in Hk. unfold into_collect_meta.
      rewrite Et, (Htr t Hk), Eh. reflexivity.
    - intros u m u1 Hs Hk s. apply vstep_inv in Hs as [t [Et Eh]].
      rewrite (meta_kept_tfp F keep _ _ Et) in Hk. unfold into_collect_meta. rewrite Et, Eh. cbn [negb].
      destruct (trait_eqb t TInto) eqn:Ei; [|reflexivity].
      apply trait_eqb_eq in Ei. subst t. congruence.
  Qed.

  (** the single-trait scanner, as the handlers call it *)
  Lemma scan_e {A} t0 (build : meta -> outcome A) attrs : keep t0 = true -> vattrs F tr attrs ->
    scan_attrs F (trait_eqb t0) build tr' (restrict_attrs keep attrs)
    = scan_attrs F (trait_eqb t0) build tr attrs.
  Proof.
    intros Hk. apply scan_rev; [|reflexivity].
    intros t E. apply trait_eqb_eq in E. subst. exact Hk.
  Qed.

  Lemma coupling_e t : keep t = true ->
    has_trait t F && has_trait t tr' = has_trait t F && has_trait t tr.
  Proof. intros Hk. rewrite (Htr t Hk). reflexivity. Qed.
End RevScan.

(** * traversals, equality form *)
Lemma omap_id {A} (o : outcome A) : omap (fun x => x) o = o.
Proof. destruct o; reflexivity. Qed.

Lemma mapM_e {A B} (P : A -> Prop) (f f' : A -> outcome B) (h : A -> A) (g : B -> B) l :
  (forall x, P x -> f' (h x) = omap g (f x)) -> Forall P l ->
  mapM f' (map h l) = omap (map g) (mapM f l).
Proof.
  intros H Hl. induction Hl as [|x l Hx Hl IH]; [reflexivity|]. cbn [map mapM]. rewrite (H x Hx), IH.
  destruct (f x); cbn [omap bind]; try reflexivity. destruct (mapM f l); reflexivity.
Qed.

(** same result type, nothing to map *)
Lemma mapM_e0 {A B} (P : A -> Prop) (f f' : A -> outcome B) (h : A -> A) l :
  (forall x, P x -> f' (h x) = f x) -> Forall P l -> mapM f' (map h l) = mapM f l.
Proof.
  intros H Hl. induction Hl as [|x l Hx Hl IH]; [reflexivity|]. cbn [map mapM]. rewrite (H x Hx), IH.
  reflexivity.
Qed.

Lemma foldM_e {A S} (P : A -> Prop) (f f' : S -> A -> outcome S) (h : A -> A) (g : S -> S) l :
  (forall s x, P x -> f' (g s) (h x) = omap g (f s x)) -> Forall P l ->
  forall s, foldM f' (g s) (map h l) = omap g (foldM f s l).
Proof.
  intros H Hl. induction Hl as [|x l Hx Hl IH]; intros s; [reflexivity|]. cbn [map foldM].
  rewrite (H s x Hx). destruct (f s x); cbn [omap bind]; try reflexivity. apply IH.
Qed.

Lemma Forall_indexed_from {A} (P : A -> Prop) l : forall i,
  Forall P l -> Forall (fun x => P (snd x)) (index_from i l).
Proof.
  induction l as [|x l IH]; intros i H; cbn [index_from]; [constructor|].
  inversion H; subst. constructor; [assumption|apply IH; assumption].
Qed.
Lemma Forall_indexed {A} (P : A -> Prop) (l : list A) :
  Forall P l -> Forall (fun x => P (snd x)) (indexed l).
Proof. apply Forall_indexed_from. Qed.

Lemma omap_ok {A B} (g : A -> B) o y : omap g o = Ok y -> exists x, o = Ok x /\ y = g x.
Proof. destruct o; cbn [omap]; intros H; try discriminate. injection H as <-. eauto. Qed.
