(** C01 / acceptance, continued -- TYPE-LEVEL parameter lists: `#[educe(T(params))]`, ONE trait
    educed, on a type without variant / field attributes.

    - the driver: `expand` on such a request reduces to the handler of [T] called on the list meta
      ([expand_single_list]);
    - "transfer": a handler that accepts the bare flag accepts every parameter list whose
      type-level attribute differs from the flag's only in the bound (tattr handlers, Debug) / in
      the bound and `new` (Default);
    - `bound = false`, `bound(false)`, `bound = true`, `bound( * )` for the nine traits that take
      `bound` ([expand_accepts_bound]). *)
From Educe.Proofs Require Export P_C01h.

(** the attribute `#[educe(T(g))]`; it parses to the meta `MList T Paren g` ([parse_list_meta]) *)
Definition educe_list (t : trait) (g : toks) : attr :=
  {| a_path := ["educe"]; a_meta := AMList Paren [I (trait_name t); G Paren g] |}.

Definition list_meta (t : trait) (g : toks) : meta := MList (flag_path t) Paren g.

Lemma handlers_nodup : NoDup (map fst handlers).
Proof. unfold handlers. cbn [map fst]. repeat constructor; cbn [In]; intuition discriminate. Qed.

(** * the driver, one trait requested with any single meta [m] of that trait *)
Theorem expand_single_meta F d t m ts :
  has_trait t F = true -> t <> TInto ->
  d_attrs d = [{| a_path := ["educe"]; a_meta := AMList Paren ts |}] ->
  parse_metas ts = Ok [m] -> meta_path m = flag_path t ->
  (forall h, In (t, h) handlers -> exists its, h F [t] d m = Ok its) ->
  exists items, expand F d = Ok items.
Proof.
  intros Hf Hni Ha Hparse Hpath Hacc.
  assert (Htm : foldM (collect_attr F) [] (d_attrs d) = Ok [(t, [m])]).
  { rewrite Ha. cbn [foldM]. unfold collect_attr at 1.
    cbn [is_educe a_path a_meta String.eqb Ascii.eqb Bool.eqb].
    rewrite Hparse. cbn [bind foldM]. unfold collect_meta. rewrite Hpath. unfold flag_path.
    rewrite (trait_from_flag F t Hf). reflexivity. }
  destruct (handler_of t Hni) as [h Hin].
  destruct (handlers_single F d t m handlers [] handlers_nodup Hacc) as [r [Hr Hrest]].
  destruct (Hacc h Hin) as [its Hits].
  pose proof (Hrest h its Hin Hf Hits) as Er. cbn [app] in Er. subst r.
  unfold expand. rewrite Htm. cbn [bind map fst]. rewrite Hr. cbn [bind].
  rewrite tmap_get_single.
  replace (trait_eqb t TInto) with false by (destruct t; try reflexivity; contradiction).
  cbn [bind]. pose proof (handler_nonempty F d t h m its Hin Hits) as Hne.
  destruct its as [|it its]; [contradiction|]. ok.
Qed.

Theorem expand_single_list F d t g :
  has_trait t F = true -> t <> TInto ->
  d_attrs d = [educe_list t g] ->
  (forall h, In (t, h) handlers -> exists its, h F [t] d (list_meta t g) = Ok its) ->
  exists items, expand F d = Ok items.
Proof.
  intros Hf Hni Ha Hacc.
  apply (expand_single_meta F d t (list_meta t g) [I (trait_name t); G Paren g] Hf Hni Ha).
  - apply parse_list_meta.
  - reflexivity.
  - exact Hacc.
Qed.

(** * transfer from the bare flag *)

(** [m] builds, whatever is enabled beside the bound, a type attribute `{unsafe: false, bound: b}` *)
Definition bound_only (m : meta) : Prop :=
  forall ef eu, exists b, build_tattr ef eu true m = Ok {| ta_unsafe := false; ta_bound := b |}.

(** destruct the scrutinees of the binds of the hypothesis [H] one after the other *)
Ltac step_bind H :=
  match type of H with
  | context [bind ?x _] =>
      let v := fresh "v" in let E := fresh "E" in
      destruct x as [v| | |] eqn:E; cbn [bind] in H |- *; [|discriminate H ..]
  end.

Section Transfer.
  Variables (F : features) (traits : list trait) (d : dinput) (p : mpath) (m : meta).

  Lemma transfer_partial_eq its :
    bound_only m -> expand_partial_eq F traits d (MPath p) = Ok its ->
    exists its', expand_partial_eq F traits d m = Ok its'.
  Proof.
    intros Hm H. unfold expand_partial_eq in *. destruct (d_data d) as [fs|vs|fs].
    - destruct (Hm true false) as [b Hb]. rewrite Hb. cbn [build_tattr bind] in H |- *.
      step_bind H. ok.
    - destruct (Hm true false) as [b Hb]. rewrite Hb. cbn [build_tattr bind] in H |- *.
      step_bind H. ok.
    - cbn [build_tattr bind tattr_default ta_unsafe negb] in H. discriminate H.
  Qed.

  Lemma transfer_hash its :
    bound_only m -> expand_hash F traits d (MPath p) = Ok its ->
    exists its', expand_hash F traits d m = Ok its'.
  Proof.
    intros Hm H. unfold expand_hash in *. destruct (d_data d) as [fs|vs|fs].
    - destruct (Hm true false) as [b Hb]. rewrite Hb. cbn [build_tattr bind] in H |- *.
      step_bind H. ok.
    - destruct (Hm true false) as [b Hb]. rewrite Hb. cbn [build_tattr bind] in H |- *.
      step_bind H. ok.
    - cbn [build_tattr bind tattr_default ta_unsafe negb] in H. discriminate H.
  Qed.

  Lemma transfer_clone its :
    bound_only m -> expand_clone F traits d (MPath p) = Ok its ->
    exists its', expand_clone F traits d m = Ok its'.
  Proof.
    intros Hm H. unfold expand_clone in *.
    destruct (Hm true false) as [b Hb]. rewrite Hb. cbn [build_tattr bind] in H |- *.
    destruct (d_data d) as [fs|vs|fs]; step_bind H; ok.
  Qed.

  Lemma transfer_copy its :
    bound_only m -> has_trait TClone F && has_trait TClone traits = false ->
    expand_copy F traits d (MPath p) = Ok its ->
    exists its', expand_copy F traits d m = Ok its'.
  Proof.
    intros Hm Hc H. unfold expand_copy in *. rewrite Hc in *. cbn [negb] in H |- *.
    destruct (Hm true false) as [b Hb]. rewrite Hb. cbn [build_tattr bind] in H |- *.
    step_bind H. ok.
  Qed.

  Lemma transfer_eq its :
    bound_only m -> has_trait TPartialEq F && has_trait TPartialEq traits = false ->
    expand_eq F traits d (MPath p) = Ok its ->
    exists its', expand_eq F traits d m = Ok its'.
  Proof.
    intros Hm Hc H. unfold expand_eq in *. rewrite Hc in *. cbn [negb] in H |- *.
    destruct (Hm true false) as [b Hb]. rewrite Hb. cbn [build_tattr bind] in H |- *.
    step_bind H. ok.
  Qed.

  Lemma transfer_partial_ord its :
    bound_only m -> has_trait TOrd F && has_trait TOrd traits = false ->
    expand_partial_ord F traits d (MPath p) = Ok its ->
    exists its', expand_partial_ord F traits d m = Ok its'.
  Proof.
    intros Hm Hc H. unfold expand_partial_ord in *. rewrite Hc in *.
    destruct (d_data d) as [fs|vs|fs]; [| |discriminate H].
    - destruct (Hm true false) as [b Hb]. rewrite Hb. cbn [build_tattr bind] in H |- *.
      step_bind H. ok.
    - destruct (Hm true false) as [b Hb]. rewrite Hb. cbn [build_tattr bind] in H |- *.
      step_bind H. step_bind H. ok.
  Qed.

  Lemma transfer_ord its :
    bound_only m -> expand_ord F traits d (MPath p) = Ok its ->
    exists its', expand_ord F traits d m = Ok its'.
  Proof.
    intros Hm H. unfold expand_ord in *.
    destruct (d_data d) as [fs|vs|fs]; [| |discriminate H].
    - destruct (Hm true false) as [b Hb]. rewrite Hb. cbn [build_tattr bind] in H |- *.
      step_bind H. ok.
    - destruct (Hm true false) as [b Hb]. rewrite Hb. cbn [build_tattr bind] in H |- *.
      step_bind H. step_bind H. ok.
  Qed.

  (** Debug: the name and `named_field` are those of the bare flag, `unsafe` is absent *)
  Definition debug_bound_only : Prop :=
    forall b, tb_unsafe b = false -> tb_bound b = true ->
      exists bd, Expand_Debug.build_dtattr b m =
                   Ok {| Expand_Debug.dt_unsafe := false; Expand_Debug.dt_name := tb_name0 b;
                         Expand_Debug.dt_named_field := tb_named_field0 b;
                         Expand_Debug.dt_bound := bd |}.

  Lemma transfer_debug its :
    debug_bound_only -> expand_debug F traits d (MPath p) = Ok its ->
    exists its', expand_debug F traits d m = Ok its'.
  Proof.
    intros Hm H. unfold expand_debug in *. destruct (d_data d) as [fs|vs|fs].
    - match goal with |- context [Expand_Debug.build_dtattr ?b m] =>
        destruct (Hm b eq_refl eq_refl) as [bd Hb]; rewrite Hb end.
      cbn [Expand_Debug.build_dtattr tb_flag bind Expand_Debug.dtattr_default Expand_Debug.dt_name
           tb_name0 tb_named_field0 Expand_Debug.dt_named_field] in H |- *.
      step_bind H. destruct (_ && _); [discriminate H|]. ok.
    - match goal with |- context [Expand_Debug.build_dtattr ?b m] =>
        destruct (Hm b eq_refl eq_refl) as [bd Hb]; rewrite Hb end.
      cbn [Expand_Debug.build_dtattr tb_flag bind Expand_Debug.dtattr_default Expand_Debug.dt_name
           tb_name0 tb_named_field0 Expand_Debug.dt_named_field] in H |- *.
      step_bind H. destruct (_ && _); [discriminate H|]. ok.
    - cbn [Expand_Debug.build_dtattr tb_flag bind Expand_Debug.dtattr_default
           Expand_Debug.dt_unsafe negb] in H. discriminate H.
  Qed.

  (** Default: no type-level expression *)
  Definition default_no_expr : Prop :=
    exists ta, Expand_Default.build_dtattr true true true true m = Ok ta /\ dt_expr ta = None.

  Lemma transfer_default its :
    default_no_expr -> expand_default F traits d (MPath p) = Ok its ->
    exists its', expand_default F traits d m = Ok its'.
  Proof.
    intros [ta [Hb He]] H. unfold expand_default, default_plan in *. rewrite Hb.
    cbn [Expand_Default.build_dtattr bind dt_expr] in H |- *. rewrite He.
    match type of H with
    | context [bind (bind ?x _) _] => destruct x as [body| | |]; cbn [bind] in H |- *; [|discriminate H ..]
    end.
    ok.
  Qed.
End Transfer.

(** * the documented spellings of a literal bound *)
Inductive bform := BEqFalse | BParenFalse | BEqTrue | BParenStar.

Definition bform_toks (s : bform) : toks :=
  match s with
  | BEqFalse => [I "bound"; P "="; I "false"]
  | BParenFalse => [I "bound"; G Paren [I "false"]]
  | BEqTrue => [I "bound"; P "="; I "true"]
  | BParenStar => [I "bound"; G Paren [P "*"]]
  end.

(** what the spelling means *)
Definition bform_bound (s : bform) : bound :=
  match s with
  | BEqFalse | BParenFalse => BDisabled
  | BEqTrue => BAuto
  | BParenStar => BAll
  end.

(** the traits whose type-level attribute knows `bound` (Deref / DerefMut do not; `Into` has it
    after the target type) *)
Definition takes_bound (t : trait) : Prop :=
  match t with
  | TDebug | TClone | TCopy | TPartialEq | TEq | TPartialOrd | TOrd | THash | TDefault => True
  | TDeref | TDerefMut | TInto => False
  end.

Lemma bform_bound_only pth s : bound_only (MList pth Paren (bform_toks s)).
Proof. intros ef eu. exists (bform_bound s). destruct s, eu; vm_compute; reflexivity. Qed.

Lemma bform_debug_bound_only pth s : debug_bound_only (MList pth Paren (bform_toks s)).
Proof.
  intros [fl us nm nf bd n0 nf0] Hu Hb. cbn [tb_unsafe tb_bound] in Hu, Hb. subst us bd.
  exists (bform_bound s). destruct s, nm, nf; vm_compute; reflexivity.
Qed.

Lemma bform_default_no_expr pth s : default_no_expr (MList pth Paren (bform_toks s)).
Proof. destruct s; (eexists; split; [vm_compute; reflexivity|reflexivity]). Qed.

Lemma single_no_partner t u : t <> u -> has_trait u [t] = false.
Proof.
  intros Hn. cbn [has_trait existsb]. rewrite orb_false_r. rewrite trait_eqb_sym.
  apply trait_eqb_neq. exact Hn.
Qed.

(** a handler run alone accepts the list meta whenever it accepts the flag *)
Lemma handler_transfer F d t h g :
  In (t, h) handlers ->
  bound_only (list_meta t g) -> debug_bound_only (list_meta t g) -> default_no_expr (list_meta t g) ->
  takes_bound t ->
  (exists its, h F [t] d (flag_meta t) = Ok its) ->
  exists its, h F [t] d (list_meta t g) = Ok its.
Proof.
  intros Hin Hb Hd Hdf Ht [its H]. unfold flag_meta in H. unfold handlers in Hin. cbn [In] in Hin.
  repeat (destruct Hin as [Hin|Hin]; [inversion Hin; subst t h; clear Hin|]); [..|destruct Hin];
    cbn [takes_bound] in Ht; try contradiction.
  - apply (transfer_debug F _ d _ _ its Hd H).
  - apply (transfer_clone F _ d _ _ its Hb H).
  - eapply (transfer_copy F _ d); [exact Hb| |exact H].
    rewrite (single_no_partner TCopy TClone) by discriminate. apply andb_false_r.
  - apply (transfer_partial_eq F _ d _ _ its Hb H).
  - eapply (transfer_eq F _ d); [exact Hb| |exact H].
    rewrite (single_no_partner TEq TPartialEq) by discriminate. apply andb_false_r.
  - eapply (transfer_partial_ord F _ d); [exact Hb| |exact H].
    rewrite (single_no_partner TPartialOrd TOrd) by discriminate. apply andb_false_r.
  - apply (transfer_ord F _ d _ _ its Hb H).
  - apply (transfer_hash F _ d _ _ its Hb H).
  - apply (transfer_default F _ d _ _ its Hdf H).
Qed.

(** * `#[educe(T(bound = false))]`, `T(bound(false))`, `T(bound = true)`, `T(bound( * ))` *)
Theorem expand_accepts_bound F d t s :
  takes_bound t -> has_trait t F = true ->
  d_attrs d = [educe_list t (bform_toks s)] ->
  plain_data (d_data d) -> flag_accepted t (d_data d) ->
  exists items, expand F d = Ok items.
Proof.
  intros Ht HF Ha Hp Hs.
  apply (expand_single_list F d t (bform_toks s) HF); [intros ->; exact Ht|exact Ha|].
  intros h Hin. apply (handler_transfer F d t h _ Hin).
  - apply bform_bound_only.
  - apply bform_debug_bound_only.
  - apply bform_default_no_expr.
  - exact Ht.
  - apply (handler_accepts F [t] d t h _ Hin Hp Hs).
Qed.
