(** C13 — R7 (Deref / DerefMut designation) and R6 (Default designation). *)
From Educe.Proofs Require Export P_C13e.

(** * selecting "the" marked element with a fold *)
Lemma count_app {A} (p : A -> bool) l1 l2 : count p (l1 ++ l2) = count p l1 + count p l2.
Proof. unfold count. rewrite filter_app, app_length. reflexivity. Qed.

Lemma select_fold {X Y} (step : option Y -> X -> outcome (option Y)) (syn : X -> bool) :
  (forall s x s', step s x = Ok s' -> if syn x then s = None /\ s' <> None else s' = s) ->
  forall l o, foldM step None l = Ok o ->
              count syn l = match o with Some _ => 1 | None => 0 end.
Proof.
  intros Hstep l o H.
  apply (foldM_hist step (fun o l => count syn l = match o with Some _ => 1 | None => 0 end))
    with (l1 := []) (s := None) in H; [exact H| |reflexivity].
  clear - Hstep. intros s l x s' Hq Hs. apply Hstep in Hs. rewrite count_app, Hq.
  unfold count. cbn [filter]. destruct (syn x); cbn [List.length].
  - destruct Hs as [-> Hs']. destruct s'; [reflexivity|congruence].
  - subst s'. lia.
Qed.

Lemma count_indexed {A} (p : A -> bool) (l : list A) :
  count (fun x : nat * A => p (snd x)) (indexed l) = count p l.
Proof.
  unfold indexed. generalize 0. unfold count. induction l as [|x r IH]; intros i; [reflexivity|].
  cbn [index_from filter snd]. destruct (p x); cbn [List.length]; rewrite IH; reflexivity.
Qed.

Lemma existsb_filter {A} (p q : A -> bool) l :
  existsb (fun x => p x && q x) l = existsb q (filter p l).
Proof.
  induction l as [|x r IH]; [reflexivity|]. cbn [existsb filter].
  destruct (p x); cbn [andb existsb orb]; rewrite IH; reflexivity.
Qed.

Lemma own_meta_eqb F t m : own_meta F (trait_eqb t) m = names F t m.
Proof. unfold own_meta, names. destruct (meta_trait F m); [apply trait_eqb_sym|reflexivity]. Qed.

Lemma filter_ext_eq {A} (p q : A -> bool) l : (forall x, p x = q x) -> filter p l = filter q l.
Proof. intros H. induction l as [|x r IH]; [reflexivity|]. cbn. rewrite H, IH. reflexivity. Qed.

(** the own items of an element scanned for the single trait [t] *)
Lemma scanned_single {A} F t (build : meta -> outcome A) traits attrs o :
  scan_attrs F (trait_eqb t) build traits attrs = Ok o ->
  match metas_of F t (educe_metas attrs) with
  | [] => o = None
  | [m] => exists v, build m = Ok v /\ o = Some v
  | _ => False
  end.
Proof.
  intros H. apply scan_attrs_scanned in H. destruct H as [_ H].
  unfold metas_of. rewrite (filter_ext_eq (names F t) (own_meta F (trait_eqb t))); [exact H|].
  intros x. symmetry. apply own_meta_eqb.
Qed.

Lemma has_meta_filter F t attrs :
  has_meta F t attrs = negb (is_nil (metas_of F t (educe_metas attrs))).
Proof.
  unfold has_meta, metas_of. induction (educe_metas attrs) as [|x r IH]; [reflexivity|].
  cbn [existsb filter]. destruct (names F t x); cbn [orb is_nil negb]; [reflexivity|exact IH].
Qed.

(** * R7 *)
Lemma deref_flag_syn F own traits attrs b :
  deref_field_flag F own traits attrs = Ok b -> b = has_meta F own attrs.
Proof.
  intros H. unfold deref_field_flag in H. inv_bind H. apply scanned_single in Hb.
  rewrite has_meta_filter. destruct (metas_of F own (educe_metas attrs)) as [|m [|m2 r]]; [| |destruct Hb].
  - subst a. inversion H; reflexivity.
  - destruct Hb as [v [Hv ->]]. inversion H; subst b. destruct m; cbn in Hv; inversion Hv; reflexivity.
Qed.

Lemma deref_select_designated F own traits fs x :
  deref_select F own traits fs = Ok x -> group_undesignated F own fs = false.
Proof.
  intros H. unfold group_undesignated. unfold deref_select in H.
  assert (Hgen : forall o, foldM (deref_pick F own traits) None (indexed fs) = Ok o ->
                 count (fun f => has_meta F own (f_attrs f)) fs = match o with Some _ => 1 | None => 0 end).
  { intros o Ho. rewrite <- (count_indexed (fun f => has_meta F own (f_attrs f))).
    apply (select_fold (deref_pick F own traits)); [|exact Ho].
    intros s y s' Hs. unfold deref_pick in Hs. inv_bind Hs. apply deref_flag_syn in Hb. subst a.
    destruct (has_meta F own (f_attrs (snd y))).
    - destruct s; [discriminate Hs|]. inversion Hs. split; [reflexivity|discriminate].
    - inversion Hs; reflexivity. }
  destruct fs as [|f [|f2 r]].
  - cbn in H. discriminate H.
  - reflexivity.
  - inv_bind H. destruct a as [y|]; [|discriminate H]. rewrite (Hgen _ Hb). cbn. reflexivity.
Qed.

Lemma deref_analyse_designated F own traits d m p :
  deref_analyse F own traits d m = Ok p ->
  (is_enum d && is_nil (d_variants d)) = false /\
  existsb (group_undesignated F own) (field_groups d) = false.
Proof.
  intros H. unfold deref_analyse in H. unfold is_enum, d_variants, field_groups.
  destruct (d_data d) as [fs|vs|fs]; [| |discriminate H].
  - inv_bind H. inv_bind H. split; [reflexivity|]. cbn [existsb].
    rewrite (deref_select_designated _ _ _ _ _ Hb0). reflexivity.
  - inv_bind H. inv_bind H. split.
    + destruct vs; [|reflexivity]. cbn in Hb0. inversion Hb0; subst a0. discriminate H.
    + apply existsb_false. intros g Hg. apply in_map_iff in Hg. destruct Hg as [v [<- Hv]].
      destruct (mapM_In_ok _ _ _ _ Hb0 Hv) as [y Hy]. unfold deref_variant in Hy. inv_bind Hy.
      destruct (v_fields v) as [l|l|]; [| |discriminate Hy]; cbn [fields_list]; inv_bind Hy;
        exact (deref_select_designated _ _ _ _ _ Hb2).
Qed.

Theorem R7_deref_designation F d its :
  expand F d = Ok its -> invalid_deref_designation F d = false.
Proof.
  intros H. destruct (expand_run_facts _ _ _ H) as [traits [Hag [Hh Hi]]].
  apply existsb_false. intros t Ht. destruct (educed F t d) eqn:He; [|reflexivity]. cbn [andb].
  destruct (educed_type_meta _ _ _ He) as [m Hm].
  cbn in Ht. destruct Ht as [<-|[<-|[]]].
  - destruct (Hh TDeref expand_deref m ltac:(in_handlers) Hm) as [l Hl]. unfold expand_deref in Hl.
    inv_bind Hl. destruct (deref_analyse_designated _ _ _ _ _ _ Hb) as [H1 H2]. rewrite H1, H2. reflexivity.
  - destruct (Hh TDerefMut expand_deref_mut m ltac:(in_handlers) Hm) as [l Hl]. unfold expand_deref_mut in Hl.
    inv_bind Hl. destruct (deref_analyse_designated _ _ _ _ _ _ Hb) as [H1 H2]. rewrite H1, H2. reflexivity.
Qed.

(** * R6 *)

(** an invariant of the engine along parameters that all satisfy [ok] *)
Lemma run_params_inv {S} (h : S -> meta -> outcome (option S)) (I : S -> Prop) (ok : meta -> bool) :
  (forall s m s', h s m = Ok (Some s') -> ok m = true -> I s -> I s') ->
  forall ms s s', run_params h s ms = Ok s' -> forallb ok ms = true -> I s -> I s'.
Proof.
  intros Hstep. induction ms as [|m r IH]; intros s s' H Hok Hi.
  - inversion H; subst. exact Hi.
  - unfold run_params in H. cbn [foldM] in H. inv_bind H. fold (run_params h a r) in H.
    cbn [forallb] in Hok. apply andb_true_iff in Hok. destruct Hok as [Hm Hr].
    unfold run_param in Hb. inv_bind Hb. destruct a0 as [s1|]; [|discriminate Hb]. inversion Hb; subst a.
    exact (IH _ _ H Hr (Hstep _ _ _ Hb0 Hm Hi)).
Qed.

Lemma key_is_of_param_is m names k :
  param_is m names = true -> (forall s, mem_str s names = true -> canon s = k) -> key_is k m = true.
Proof.
  intros Hp Hc. unfold key_is. rewrite (param_is_key _ _ _ Hp Hc). apply String.eqb_refl.
Qed.

Lemma forallb_negb_existsb {A} (p : A -> bool) l : existsb p l = false -> forallb (fun x => negb (p x)) l = true.
Proof.
  induction l as [|x r IH]; [reflexivity|]. cbn. intros H. apply orb_false_iff in H. destruct H as [H1 H2].
  rewrite H1, (IH H2). reflexivity.
Qed.

Lemma default_no_expression a b c e m ta :
  Expand_Default.build_dtattr a b c e m = Ok ta ->
  existsb (key_is "expression") (params LPlain m) = false ->
  Expand_Default.dt_expr ta = None.
Proof.
  unfold Expand_Default.build_dtattr. destruct m as [p|p v|p dl ts].
  - destruct a; [|discriminate]. intros H _. inversion H; reflexivity.
  - discriminate.
  - intros H Hex. inv_bind H. inv_bind H. inversion H; subst ta. cbn [Expand_Default.dt_expr].
    cbn [params] in Hex. rewrite Hb in Hex. apply forallb_negb_existsb in Hex.
    refine (run_params_inv _ (fun s => Expand_Default.ds_expr s = None)
              (fun x => negb (key_is "expression" x)) _ _ _ _ Hb0 Hex eq_refl).
    clear. intros s m s' Hs Hok Hi. unfold Expand_Default.dt_param in Hs.
    destruct (param_is m ["new"]).
    { destruct (negb b); [discriminate Hs|]. inv_bind Hs.
      destruct (Expand_Default.ds_new_set s); [discriminate Hs|]. inversion Hs; subst s'. exact Hi. }
    destruct (param_is m ["expression"; "expr"]) eqn:Hq.
    { rewrite (key_is_of_param_is _ _ "expression" Hq) in Hok; [discriminate Hok|canon_names]. }
    destruct (param_is m ["bound"]); [|discriminate Hs].
    destruct (negb e); [discriminate Hs|]. inv_bind Hs.
    destruct (Expand_Default.ds_bound_set s); [discriminate Hs|]. inversion Hs; subst s'. exact Hi.
Qed.

(** the variant flag the analysis reads is the bare `Default` marker *)
Lemma default_variant_flag_syn F traits v ta :
  Expand_Default.default_variant_attr F traits true (v_attrs v) = Ok ta ->
  Expand_Default.dt_flag ta = default_marked_variant F v.
Proof.
  intros H. unfold Expand_Default.default_variant_attr in H. inv_bind H. apply scanned_single in Hb.
  unfold default_marked_variant. rewrite existsb_filter. fold (metas_of F TDefault (educe_metas (v_attrs v))).
  destruct (metas_of F TDefault (educe_metas (v_attrs v))) as [|m [|m2 r]]; [| |destruct Hb].
  - subst a. inversion H; reflexivity.
  - destruct Hb as [x [Hx ->]]. inversion H; subst ta. cbn [existsb]. rewrite orb_false_r.
    unfold Expand_Default.build_dtattr in Hx. destruct m as [p|p w|p dl ts].
    + inversion Hx; reflexivity.
    + discriminate Hx.
    + inv_bind Hx. inv_bind Hx. inversion Hx; reflexivity.
Qed.

Lemma select_variant_designated F traits vs v :
  Expand_Default.select_variant F traits vs = Ok v ->
  (negb (Nat.eqb (List.length vs) 1) && negb (Nat.eqb (count (default_marked_variant F) vs) 1)) = false.
Proof.
  intros H. unfold Expand_Default.select_variant in H.
  assert (Hgen : forall o, foldM (Expand_Default.select_variant_step F traits) None vs = Ok o ->
                 count (default_marked_variant F) vs = match o with Some _ => 1 | None => 0 end).
  { intros o Ho. apply (select_fold (Expand_Default.select_variant_step F traits)); [|exact Ho].
    intros s y s' Hs. unfold Expand_Default.select_variant_step in Hs. inv_bind Hs.
    apply default_variant_flag_syn in Hb. rewrite <- Hb.
    destruct (Expand_Default.dt_flag a).
    - destruct s; [discriminate Hs|]. inversion Hs. split; [reflexivity|discriminate].
    - inv_bind Hs. inversion Hs; reflexivity. }
  destruct vs as [|w [|w2 r]].
  - cbn in H. discriminate H.
  - reflexivity.
  - inv_bind H. destruct a as [y|]; [|discriminate H]. rewrite (Hgen _ Hb). cbn. reflexivity.
Qed.

(** the union-field mark the analysis reads *)
Definition is_some' {A} (o : option A) : bool := match o with Some _ => true | None => false end.

Lemma default_df_expr_syn ee ty ms : forall s s',
  run_params (Expand_Default.df_param ee ty) s ms = Ok s' ->
  is_some' (fst s') = is_some' (fst s) || existsb (key_is "expression") ms.
Proof.
  induction ms as [|m r IH]; intros s s' H.
  - inversion H; subst. rewrite orb_false_r. reflexivity.
  - unfold run_params in H. cbn [foldM] in H. inv_bind H. fold (run_params (Expand_Default.df_param ee ty) a r) in H.
    unfold run_param in Hb. inv_bind Hb. destruct a0 as [s1|]; [|discriminate Hb]. inversion Hb; subst a.
    rewrite (IH _ _ H). unfold Expand_Default.df_param in Hb0.
    destruct (param_is m ["expression"; "expr"]) eqn:Hq; [|discriminate Hb0].
    destruct (negb ee); [discriminate Hb0|]. inv_bind Hb0. destruct (snd s); [discriminate Hb0|].
    inversion Hb0; subst s1. cbn [fst is_some' existsb].
    rewrite (key_is_of_param_is _ _ "expression" Hq); [|canon_names].
    rewrite !orb_true_r. reflexivity.
Qed.

Lemma default_field_mark_syn F traits f fa :
  Expand_Default.default_field_attr F traits true true f = Ok fa ->
  (Expand_Default.df_flag fa || is_some' (Expand_Default.df_expr fa)) = default_marked_field F f.
Proof.
  intros H. unfold Expand_Default.default_field_attr in H. inv_bind H. apply scanned_single in Hb.
  unfold default_marked_field.
  rewrite (existsb_filter (names F TDefault)). fold (metas_of F TDefault (educe_metas (f_attrs f))).
  destruct (metas_of F TDefault (educe_metas (f_attrs f))) as [|m [|m2 r]]; [| |destruct Hb].
  - subst a. inversion H; reflexivity.
  - destruct Hb as [x [Hx ->]]. inversion H; subst fa. cbn [existsb]. rewrite orb_false_r.
    unfold Expand_Default.build_dfattr in Hx. destruct m as [p|p w|p dl ts].
    + inversion Hx; reflexivity.
    + inversion Hx; reflexivity.
    + inv_bind Hx. inv_bind Hx. inversion Hx; subst x. cbn [Expand_Default.df_flag Expand_Default.df_expr orb].
      rewrite (default_df_expr_syn _ _ _ _ _ Hb0). cbn [fst is_some' orb params]. rewrite Hb. reflexivity.
Qed.

Lemma select_field_designated F traits fs x :
  Expand_Default.select_field F traits fs = Ok x ->
  (negb (Nat.eqb (List.length fs) 1) && negb (Nat.eqb (count (default_marked_field F) fs) 1)) = false.
Proof.
  intros H. unfold Expand_Default.select_field in H.
  assert (Hgen : forall o, foldM (Expand_Default.select_field_step F traits) None fs = Ok o ->
                 count (default_marked_field F) fs = match o with Some _ => 1 | None => 0 end).
  { intros o Ho. apply (select_fold (Expand_Default.select_field_step F traits)); [|exact Ho].
    intros s y s' Hs. unfold Expand_Default.select_field_step in Hs. inv_bind Hs.
    apply default_field_mark_syn in Hb. rewrite <- Hb. unfold is_some'.
    destruct (Expand_Default.df_flag a || match Expand_Default.df_expr a with Some _ => true | None => false end).
    - destruct s; [discriminate Hs|]. inversion Hs. split; [reflexivity|discriminate].
    - inversion Hs; reflexivity. }
  destruct fs as [|w [|w2 r]].
  - cbn in H. discriminate H.
  - reflexivity.
  - inv_bind H. destruct a as [y|]; [|discriminate H]. rewrite (Hgen _ Hb). cbn. reflexivity.
Qed.

Theorem R6_default_designation F d its :
  expand F d = Ok its -> invalid_default_designation F d = false.
Proof.
  intros H. unfold invalid_default_designation.
  destruct (educed F TDefault d) eqn:He; [|reflexivity]. cbn [andb].
  destruct (default_has_expression F d) eqn:Hx; [reflexivity|]. cbn [negb andb].
  destruct (expand_run_facts _ _ _ H) as [traits [Hag [Hh Hi]]].
  destruct (educed_type_meta _ _ _ He) as [m Hm].
  destruct (Hh TDefault Expand_Default.expand_default m ltac:(in_handlers) Hm) as [l Hl].
  unfold Expand_Default.expand_default in Hl. inv_bind Hl. clear Hl.
  unfold Expand_Default.default_plan in Hb. inv_bind Hb. inv_bind Hb. clear Hb.
  unfold default_has_expression in Hx. rewrite Hm in Hx.
  rewrite (default_no_expression _ _ _ _ _ _ Hb0 Hx) in Hb1.
  destruct (d_data d) as [fs|vs|fs]; [reflexivity| |].
  - inv_bind Hb1. exact (select_variant_designated _ _ _ _ Hb).
  - inv_bind Hb1. exact (select_field_designated _ _ _ _ Hb).
Qed.
