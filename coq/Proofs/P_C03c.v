(** C03 — the struct body and one enum arm compute the lexicographic
    comparison over the specification's visiting order. *)
From Educe.Proofs Require Export P_C03b P_C02b.

(** both flavours of the specification at once *)
Definition spec_o (partial : bool) (I : interp) (c : ocfg) (a b : value)
  : option (option comparison) :=
  if partial then spec_partial_cmp I c a b else option_map Some (spec_cmp I c a b).

Lemma spec_o_data partial I c va xs vb ys da la db lb :
  oc_get va c = Some (da, la) -> oc_get vb c = Some (db, lb) ->
  spec_o partial I c (VData va xs) (VData vb ys) =
  Some (if same_variant va vb then lex_o partial I (visit_order la) xs ys
        else Some (Z.compare da db)).
Proof.
  intros Ha Hb. unfold spec_o, spec_partial_cmp, spec_cmp, lex_o. rewrite Ha, Hb.
  destruct partial, (same_variant va vb); reflexivity.
Qed.

(** "the user-written parts are well-typed" for a whole request *)
Definition reqs_typed (partial : bool) (I : interp) (l : list request) : Prop :=
  forall k fa x y, In (k, fa) l -> user_typed partial I fa x y.
Definition omethods_typed (partial : bool) (I : interp) (c : ocfg) : Prop :=
  forall vn d l, In (vn, (d, l)) c -> reqs_typed partial I l.

Lemma oshape_ok_keys l xs : oshape_ok l xs = true -> map fst l = map fst xs.
Proof.
  unfold oshape_ok. destruct (list_eq_dec string_dec (map fst l) (map fst xs)); [auto|discriminate].
Qed.

Lemma index_from_in {A} (l : list A) : forall i0 i x, In (i, x) (index_from i0 l) -> In x l.
Proof.
  induction l as [|y r IH]; intros i0 i x H; [destruct H|].
  cbn [index_from] in H. destruct H as [H|H]; [inversion H; left; reflexivity|right; eapply IH; exact H].
Qed.
Lemma index_from_snd {A} (l : list A) : forall i0, map snd (index_from i0 l) = l.
Proof. induction l as [|y r IH]; intros i0; cbn; [reflexivity|]. f_equal. apply IH. Qed.

Section StructTop.
  Variable I : interp.
  Variables (F : features) (own : trait -> bool) (traits : list trait).

  Lemma okey_field_member (l : list ofield) :
    map (fun '(i, f, fa) => (field_member f i, fa)) l = map okey l.
  Proof. apply map_ext. intros [[i f] fa]. reflexivity. Qed.

  (** the struct body computes the lexicographic comparison in the spec's order *)
  Lemma struct_generic partial fs p xs ys :
    plan_fields F own traits fs = Ok p ->
    map fst (map okey (fp_declared p)) = map fst xs ->
    map fst (map okey (fp_declared p)) = map fst ys ->
    reqs_typed partial I (map okey (fp_declared p)) ->
    exists s',
      run_body I eq_env (cmp_struct_body partial p) (eq_state (VData None xs) (VData None ys)) =
      (RVal (enc partial (lex_o partial I (visit_order (map okey (fp_declared p))) xs ys)), s').
  Proof.
    intros Hp Hx Hy Hm. destruct (plan_fields_inv F own traits fs p Hp) as [Hi Hpos].
    rewrite cmp_struct_body_eq.
    destruct (chain_then_equal I partial eq_env None None xs ys (struct_quads (sorted_fields p))
                (eq_state (VData None xs) (VData None ys)) eq_refl) as [s' [_ Hev]].
    - apply struct_quads_ok. apply Forall_forall. intros [[i f] fa] Hin.
      destruct (sorted_in_declared F own traits p _ Hi Hin) as [Hd _].
      assert (Hk : In (okey (i, f, fa)) (map okey (fp_declared p))) by (apply in_map; exact Hd).
      assert (Hkk : In (field_key i f) (map fst (map okey (fp_declared p)))).
      { apply (in_map fst) in Hk. exact Hk. }
      change (field_member f i) with (field_key i f).
      destruct (lookup_some_of_keys (field_key i f) xs) as [x Hxx]; [rewrite <- Hx; exact Hkk|].
      destruct (lookup_some_of_keys (field_key i f) ys) as [y Hyy]; [rewrite <- Hy; exact Hkk|].
      exists x, y. repeat split; try assumption. apply (Hm (field_key i f) fa x y). exact Hk.
    - exists s'. rewrite Hev. rewrite struct_quads_req, okey_field_member.
      rewrite (sorted_fields_visit F own traits p Hi). reflexivity.
  Qed.
End StructTop.

(** ** enum arms: binders.  A binder is described by the suffix of the
    generated variable, the key of the field it binds and whether the field
    is ignored (then the pattern is `_`). *)
Definition btrip := (string * string * bool)%type.
Definition bt_var (t : btrip) : string := fst (fst t).
Definition bt_key (t : btrip) : string := snd (fst t).

Definition obinds (pre : string) (p : place) (l : list btrip) : env :=
  flat_map (fun '(u, k, ig) => if (ig : bool) then [] else [(pre ^^ u, VRef (sub p k))]) l.
Definition opats_named (pre : string) (l : list btrip) : list (string * option pat) :=
  map (fun '(u, k, ig) => (k, Some (if (ig : bool) then PWild else PBind (pre ^^ u)))) l.
Definition opats_unnamed (pre : string) (l : list btrip) : list pat :=
  map (fun '(u, k, ig) => if (ig : bool) then PWild else PBind (pre ^^ u)) l.

Lemma omatch_named pre p st l :
  (forall t, In t l -> load st (sub p (bt_key t)) <> None) ->
  match_field_pats (match_pat st) st (VRef p) (opats_named pre l) = Some (obinds pre p l).
Proof.
  induction l as [|[[u k] ig] r IH]; intros H; [reflexivity|].
  cbn [opats_named map match_field_pats obinds flat_map].
  fold (opats_named pre r). fold (obinds pre p r).
  unfold sub_scrut. destruct (load st (sub p k)) eqn:E.
  - rewrite IH by (intros t Hin; apply H; right; exact Hin).
    destruct ig; reflexivity.
  - exfalso. apply (H (u, k, ig)); [left; reflexivity|exact E].
Qed.

Lemma omatch_unnamed pre p st l :
  (forall t, In t l -> load st (sub p (bt_key t)) <> None) ->
  forall i0, map bt_key l = map dec (seq i0 (List.length l)) ->
  match_tuple_pats (match_pat st) st (VRef p) i0 (opats_unnamed pre l) = Some (obinds pre p l).
Proof.
  induction l as [|[[u k] ig] r IH]; intros H i0 Hidx; [reflexivity|].
  cbn in Hidx. inversion Hidx as [[Hk Hr]]. subst k.
  cbn [opats_unnamed map match_tuple_pats obinds flat_map].
  fold (opats_unnamed pre r). fold (obinds pre p r).
  unfold sub_scrut. destruct (load st (sub p (dec i0))) eqn:E.
  - rewrite (IH (fun t Hin => H t (or_intror Hin)) (S i0) Hr).
    destruct ig; reflexivity.
  - exfalso. apply (H (u, dec i0, ig)); [left; reflexivity|exact E].
Qed.

(** looking a generated name up among the binders *)
Lemma lookup_obinds pre p l u k :
  (forall t, In t l -> bt_var t = u -> bt_key t = k) -> In (u, k, false) l ->
  lookup (pre ^^ u) (obinds pre p l) = Some (VRef (sub p k)).
Proof.
  induction l as [|[[u' k'] ig'] r IH]; intros Hf Hin; [destruct Hin|].
  cbn [obinds flat_map]. fold (obinds pre p r).
  assert (Hf' : forall t, In t r -> bt_var t = u -> bt_key t = k)
    by (intros t Ht; apply Hf; right; exact Ht).
  destruct ig'.
  - cbn [app]. destruct Hin as [Heq|Hin]; [inversion Heq|]. apply IH; assumption.
  - cbn [app lookup]. rewrite append_eqb_prefix.
    destruct (String.eqb u u') eqn:E.
    + apply String.eqb_eq in E. subst u'.
      rewrite <- (Hf (u, k', false) (or_introl eq_refl) eq_refl). reflexivity.
    + destruct Hin as [Heq|Hin]; [inversion Heq; subst; rewrite String.eqb_refl in E; discriminate|].
      apply IH; assumption.
Qed.

Lemma lookup_obinds_none pre p l x :
  (forall t, In t l -> String.eqb x (pre ^^ bt_var t) = false) -> lookup x (obinds pre p l) = None.
Proof.
  induction l as [|[[u k] ig] r IH]; intros H; [reflexivity|].
  cbn [obinds flat_map]. fold (obinds pre p r).
  assert (H' : forall t, In t r -> String.eqb x (pre ^^ bt_var t) = false)
    by (intros t Ht; apply H; right; exact Ht).
  destruct ig; cbn [app lookup]; [apply IH; exact H'|].
  pose proof (H (u, k, false) (or_introl eq_refl)) as Hu. cbn [bt_var fst] in Hu.
  rewrite Hu. apply IH. exact H'.
Qed.

Lemma nodup_map_inj {A B} (g : A -> B) (l : list A) a b :
  NoDup (map g l) -> In a l -> In b l -> g a = g b -> a = b.
Proof.
  induction l as [|x r IH]; intros Hnd Ha Hb Hg; [destruct Ha|].
  cbn [map] in Hnd. inversion Hnd as [|? ? Hnotin Hnd']; subst.
  destruct Ha as [Ha|Ha], Hb as [Hb|Hb]; subst.
  - reflexivity.
  - exfalso. apply Hnotin. rewrite Hg. apply in_map. exact Hb.
  - exfalso. apply Hnotin. rewrite <- Hg. apply in_map. exact Ha.
  - apply IH; assumption.
Qed.

Section Arms.
  Variable I : interp.

  Lemma eval_block_single en e s :
    no_let e = true -> eval_block (eval I) en [e] s = eval I en e s.
  Proof.
    intros H. rewrite eval_block_cons by exact H.
    destruct (eval I en e s) as [[v|v|] s1]; reflexivity.
  Qed.

  (** what an arm leaves behind: Equal so far (falling through to the final
      `Equal`, or returning it), or a decisive result returned *)
  Definition arm_outcome (partial : bool) (o : option comparison) (r : res) : Prop :=
    match o with
    | Some Eq => r = RVal VUnit \/ r = RRet (enc partial (Some Eq))
    | _ => r = RRet (enc partial o)
    end.

  (** the steps of an arm run in the environment built by the two patterns *)
  Lemma arm_quads_ok partial pre_s pre_o trips (quads : list quad) xs ys :
    (forall t t', In t trips -> In t' trips -> bt_var t = bt_var t' -> bt_key t = bt_key t') ->
    (forall t t', In t trips -> In t' trips ->
                  String.eqb (pre_s ^^ bt_var t) (pre_o ^^ bt_var t') = false) ->
    Forall (fun '(k, fa, ea, eb) =>
              (exists u, In (u, k, false) trips /\ ea = EVar (pre_s ^^ u) /\ eb = EVar (pre_o ^^ u)) /\
              exists x y, lookup k xs = Some x /\ lookup k ys = Some y /\ user_typed partial I fa x y)
           quads ->
    Forall (quad_ok I partial (obinds pre_o other_place trips ++ obinds pre_s self_place trips ++ eq_env)
                    xs ys) quads.
  Proof.
    intros Hfun Hsep H. eapply Forall_impl; [|exact H].
    intros [[[k fa] ea] eb] [[u [Hin [-> ->]]] Hxy]. cbn [quad_ok].
    assert (Hf : forall t, In t trips -> bt_var t = u -> bt_key t = k).
    { intros t Ht Hu. apply (Hfun t (u, k, false) Ht Hin). exact Hu. }
    split; [|split; [|exact Hxy]].
    - intros s0. cbn [eval]. rewrite lookup_app.
      rewrite lookup_obinds_none by (intros t Ht; apply (Hsep (u, k, false) t Hin Ht)).
      rewrite lookup_app. rewrite (lookup_obinds pre_s self_place trips u k Hf Hin). reflexivity.
    - intros s0. cbn [eval]. rewrite lookup_app.
      rewrite (lookup_obinds pre_o other_place trips u k Hf Hin). reflexivity.
  Qed.

  (** an arm `pat_s => { if let pat_o = other { steps } }`, once `self` has
      matched [pat_s] *)
  Lemma arm_generic partial pre_s pre_o n (mkpat : string -> pat) trips (quads : list quad)
        (l : list request) va xs vb ys s :
    st_store s = [("self", VData (Some va) xs); ("other", VData (Some vb) ys)] ->
    (match_pat (st_store s) (mkpat pre_o) (VRef other_place) =
     if String.eqb vb n then Some (obinds pre_o other_place trips) else None) ->
    (forall t, In t trips -> String.eqb "other" (pre_s ^^ bt_var t) = false) ->
    (String.eqb vb n = true ->
     Forall (quad_ok I partial
               (obinds pre_o other_place trips ++ obinds pre_s self_place trips ++ eq_env) xs ys)
            quads) ->
    map quad_req quads = visit_order l ->
    exists r s', same_store s s' /\
      eval I (obinds pre_s self_place trips ++ eq_env)
           (EBlock [EIfLet (mkpat pre_o) (EVar "other") (map (quad_step partial) quads) None]) s
      = (r, s') /\
      arm_outcome partial (if String.eqb vb n then lex_o partial I (visit_order l) xs ys
                           else Some Eq) r.
  Proof.
    intros Hs Hpat Hother Hok Hreq.
    cbn [eval]. rewrite eval_block_single by reflexivity.
    cbn [eval]. rewrite lookup_app. rewrite lookup_obinds_none by exact Hother.
    cbn [eq_env lookup String.eqb Ascii.eqb Bool.eqb]. rewrite Hpat.
    destruct (String.eqb vb n) eqn:En.
    - destruct (steps_eval I partial _ (Some va) (Some vb) xs ys quads s Hs (Hok eq_refl))
        as [s1 [Hs1 Hev]].
      rewrite Hev, Hreq. eexists; exists s1. split; [exact Hs1|]. split; [reflexivity|].
      unfold arm_outcome, block_res.
      destruct (lex_o partial I (visit_order l) xs ys) as [[| |]|]; auto.
    - eexists; exists s. split; [reflexivity|]. split; [reflexivity|]. left. reflexivity.
  Qed.
End Arms.
