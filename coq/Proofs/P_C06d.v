(** C06 — part 4: from builder calls to text (`{:?}` and `{:#?}`), through the
    model of core::fmt's builders in Sem/Fmt.v. *)
From Educe.Proofs Require Export P_C06c.

Lemma sappend_assoc (a b c : string) : (a ^^ b) ^^ c = a ^^ (b ^^ c).
Proof. induction a as [|ch a IH]; cbn; [reflexivity|]. rewrite IH. reflexivity. Qed.
Lemma sappend_nil_r (a : string) : a ^^ "" = a.
Proof. induction a as [|ch a IH]; cbn; [reflexivity|]. rewrite IH. reflexivity. Qed.

Section Str.
  Variable alt : bool.
  Variable render : fmt_arg -> string.

  Lemma run_fields k e : forall fs n,
    run_events alt render (Some (k, n, e))
      (map (fun '(kk, a) => entry_event k kk a) fs ++ [EvBuilderFinish]) =
    Some (fields_text alt render k n fs ^^ finish_text alt k (n + List.length fs) e).
  Proof.
    induction fs as [|[key a] r IH]; intros n.
    - cbn [map app run_events option_map fields_text List.length]. rewrite Nat.add_0_r, sappend_nil_r.
      reflexivity.
    - cbn [map app List.length]. rewrite Nat.add_succ_r.
      destruct k; cbn [entry_event run_events]; rewrite IH; cbn [option_map fields_text];
        rewrite sappend_assoc; reflexivity.
  Qed.

  (** the builder program of a shape writes exactly [debug_string] *)
  Theorem string_of_program sh :
    run_events alt render None (builder_program sh) = Some (debug_string alt render sh).
  Proof.
    destruct sh as [n|name style fs].
    - cbn. rewrite sappend_nil_r. reflexivity.
    - destruct style.
      + rewrite (builder_program_fields name true fs). cbn [run_events]. rewrite run_fields.
        destruct name as [n|]; reflexivity.
      + rewrite (builder_program_fields name false fs). cbn [run_events]. rewrite run_fields.
        destruct name as [n|]; reflexivity.
  Qed.

  Lemma same_program_same_string (o1 o2 : option shape) :
    option_map builder_program o1 = option_map builder_program o2 ->
    option_map (debug_string alt render) o1 = option_map (debug_string alt render) o2.
  Proof.
    destruct o1 as [a|], o2 as [b|]; cbn; intros H; try discriminate H; [|reflexivity].
    inversion H as [E]. pose proof (string_of_program a) as Ha. rewrite E in Ha.
    rewrite (string_of_program b) in Ha. exact (eq_sym Ha).
  Qed.
End Str.

Section Top.
  Variable I : interp.
  Variables (F : features) (traits : list trait).

  (** the text of the emitted `fmt`, for both formatter modes *)
  Theorem debug_text alt render d m items c v :
    data_wf (d_data d) ->
    expand_debug F traits d m = Ok items ->
    debug_cfg_of F traits d m = Ok c ->
    dbg_value_ok c v = true ->
    exists it rest sh tr,
      items = it :: rest /\ debug_shape c v = Some sh /\ run_fmt I it v = Some tr /\
      run_events alt render None tr = Some (debug_string alt render sh).
  Proof.
    intros Hwf He Hc Hv.
    destruct (builder_program_correct I F traits d m items c v Hwf He Hc Hv)
      as [it [rest [sh [Hi [Hsh Hrun]]]]].
    exists it, rest, sh, (builder_program sh). repeat split; try assumption.
    apply string_of_program.
  Qed.

  (** no parameters: the text is the derive's, unit structs included *)
  Theorem same_text_as_derive alt render d p c v :
    debug_cfg_of F traits d (MPath p) = Ok c ->
    plain_data (d_data d) -> data_wf (d_data d) ->
    option_map (debug_string alt render) (debug_shape c v) =
    option_map (debug_string alt render) (derive_debug_shape d v).
  Proof.
    intros Hc Hp Hwf.
    assert (Hdec : d_data d = DStruct FUnit \/ d_data d <> DStruct FUnit).
    { destruct (d_data d) as [[| |]| |]; try (right; discriminate). left. reflexivity. }
    destruct Hdec as [Hu|Hnu].
    - unfold debug_cfg_of in Hc. unfold derive_debug_shape. rewrite Hu in *.
      cbn in Hc. inversion Hc; subst c.
      destruct v as [| | | | | |vn xs| | | | |]; try reflexivity.
      destruct vn as [vn|]; [reflexivity|].
      cbn. rewrite sappend_nil_r. reflexivity.
    - apply same_program_same_string. exact (same_as_derive F traits d p c v Hc Hp Hwf Hnu).
  Qed.
End Top.

(** * [debug_string] in closed form, per style and mode *)
Definition sconcat (l : list string) : string := fold_right append "" l.

Section Closed.
  Variable render : fmt_arg -> string.

  Lemma rest_text alt k (g : string * fmt_arg -> string) :
    (forall n key a, field_text alt render k (S n) key a = g (key, a)) ->
    forall r n, fields_text alt render k (S n) r = sconcat (map g r).
  Proof.
    intros Hg. induction r as [|[key a] r IH]; intros n; [reflexivity|].
    cbn [fields_text map sconcat fold_right]. rewrite Hg, IH. reflexivity.
  Qed.

  (** `{:?}` *)
  Theorem compact_struct n k0 a0 r :
    debug_string false render (ShFields (Some n) SStruct ((k0, a0) :: r)) =
    n ^^ " { " ^^ k0 ^^ ": " ^^ render a0
      ^^ sconcat (map (fun '(k, a) => ", " ^^ k ^^ ": " ^^ render a) r) ^^ " }".
  Proof.
    unfold debug_string. cbn [new_text fields_text List.length finish_text Nat.eqb].
    rewrite (rest_text false BStruct (fun '(k, a) => ", " ^^ k ^^ ": " ^^ render a))
      by (intros; reflexivity).
    unfold field_text. cbn [Nat.eqb]. rewrite !sappend_assoc. reflexivity.
  Qed.

  Theorem compact_map k0 a0 r :
    debug_string false render (ShFields None SStruct ((k0, a0) :: r)) =
    "{" ^^ k0 ^^ ": " ^^ render a0
      ^^ sconcat (map (fun '(k, a) => ", " ^^ k ^^ ": " ^^ render a) r) ^^ "}".
  Proof.
    unfold debug_string. cbn [new_text fields_text List.length finish_text Nat.eqb].
    rewrite (rest_text false BMap (fun '(k, a) => ", " ^^ k ^^ ": " ^^ render a))
      by (intros; reflexivity).
    unfold field_text. cbn [Nat.eqb]. rewrite !sappend_assoc. reflexivity.
  Qed.

  (** a nameless 1-tuple is `(v,)` *)
  Theorem compact_tuple name k0 a0 r :
    debug_string false render (ShFields name STuple ((k0, a0) :: r)) =
    shown_name name ^^ "(" ^^ render a0
      ^^ sconcat (map (fun '(_, a) => ", " ^^ render a) r)
      ^^ (if is_nil r && is_empty (shown_name name) then "," else "") ^^ ")".
  Proof.
    unfold debug_string. cbn [new_text fields_text List.length finish_text Nat.eqb].
    rewrite (rest_text false BTuple (fun '(_, a) => ", " ^^ render a)) by (intros; reflexivity).
    unfold field_text. cbn [Nat.eqb negb]. rewrite andb_true_r.
    fold (shown_name name).
    assert (E : Nat.eqb (List.length r) 0 = is_nil r) by (destruct r; reflexivity).
    rewrite E.
    destruct name as [n|]; cbn [shown_name]; rewrite !sappend_assoc; reflexivity.
  Qed.

  (** `{:#?}`: one indented line group per field, each closed by ",\n" *)
  Theorem pretty_struct n fs :
    fs <> [] ->
    debug_string true render (ShFields (Some n) SStruct fs) =
    n ^^ " {" ^^ nl
      ^^ sconcat (map (fun '(k, a) => indent (k ^^ ": " ^^ render a ^^ "," ^^ nl)) fs) ^^ "}".
  Proof.
    destruct fs as [|[k0 a0] r]; [congruence|intros _].
    unfold debug_string. cbn [new_text fields_text List.length finish_text Nat.eqb map sconcat fold_right].
    rewrite (rest_text true BStruct (fun '(k, a) => indent (k ^^ ": " ^^ render a ^^ "," ^^ nl)))
      by (intros; reflexivity).
    unfold field_text. cbn [Nat.eqb]. fold (sconcat (map (fun '(k, a) => indent (k ^^ ": " ^^ render a ^^ "," ^^ nl)) r)).
    rewrite !sappend_assoc. reflexivity.
  Qed.

  Theorem pretty_map fs :
    fs <> [] ->
    debug_string true render (ShFields None SStruct fs) =
    "{" ^^ nl ^^ sconcat (map (fun '(k, a) => indent (k ^^ ": " ^^ render a ^^ "," ^^ nl)) fs) ^^ "}".
  Proof.
    destruct fs as [|[k0 a0] r]; [congruence|intros _].
    unfold debug_string. cbn [new_text fields_text List.length finish_text Nat.eqb map sconcat fold_right].
    rewrite (rest_text true BMap (fun '(k, a) => indent (k ^^ ": " ^^ render a ^^ "," ^^ nl)))
      by (intros; reflexivity).
    unfold field_text. cbn [Nat.eqb]. fold (sconcat (map (fun '(k, a) => indent (k ^^ ": " ^^ render a ^^ "," ^^ nl)) r)).
    rewrite !sappend_assoc. reflexivity.
  Qed.

  Theorem pretty_tuple name fs :
    fs <> [] ->
    debug_string true render (ShFields name STuple fs) =
    shown_name name ^^ "(" ^^ nl
      ^^ sconcat (map (fun '(_, a) => indent (render a ^^ "," ^^ nl)) fs) ^^ ")".
  Proof.
    destruct fs as [|[k0 a0] r]; [congruence|intros _].
    unfold debug_string. cbn [new_text fields_text List.length finish_text Nat.eqb map sconcat fold_right].
    rewrite (rest_text true BTuple (fun '(_, a) => indent (render a ^^ "," ^^ nl)))
      by (intros; reflexivity).
    unfold field_text. cbn [Nat.eqb negb]. rewrite andb_false_r.
    fold (sconcat (map (fun '(_, a) => indent (render a ^^ "," ^^ nl)) r)). fold (shown_name name).
    destruct name as [n|]; cbn [shown_name]; rewrite !sappend_assoc; reflexivity.
  Qed.

  (** no shown field: the name alone (`{}` for the bare map) *)
  Theorem no_fields alt name style :
    debug_string alt render (ShFields name style []) =
    match style, name with SStruct, None => "{}" | _, _ => shown_name name end.
  Proof.
    unfold debug_string. destruct style, name as [n|]; cbn; rewrite ?sappend_nil_r; reflexivity.
  Qed.
End Closed.
