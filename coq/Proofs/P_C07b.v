(** C07 — clone_from: the emitted `clone_from` updates the place `self`,
    field by field through the right places (same variant), or replaces it by
    a clone of the source (another variant). *)
From Educe.Proofs Require Export P_C07.

Definition from_env : env := [("self", VRef self_place); ("source", VRef source_place)].
Definition from_state (a b : value) : state :=
  {| st_store := [("self", a); ("source", b)]; st_trace := [] |}.

(** the new content of a destination field *)
Definition clone_from_field (I : interp) (m : option toks) (d y : value) : value :=
  match m with Some p => i_user I p [y] | None => i_clone_from I d y end.

(** what the statements of a clone_from body do to the fields [zs] of `self`,
    given the fields [ys] of `source` (no lawfulness assumed here) *)
Fixpoint from_fields (I : interp) (l : creq) (zs ys : list (string * value))
  : option (list (string * value) * list event) :=
  match l with
  | [] => Some (zs, [])
  | (k, m) :: r =>
      match lookup k zs, lookup k ys with
      | Some d, Some y =>
          match from_fields I r (set_assoc k (clone_from_field I m d y) zs) ys with
          | Some (zs', evs) => Some (zs', clone_from_event m d y :: evs)
          | None => None
          end
      | _, _ => None
      end
  end.

(** ** pure facts *)
Lemma lookup_notin {A} k (l : list (string * A)) : ~ In k (map fst l) -> lookup k l = None.
Proof.
  induction l as [|[k' v] r IH]; intros H; [reflexivity|].
  cbn [lookup]. destruct (String.eqb k k') eqn:E.
  - apply String.eqb_eq in E. subst. exfalso. apply H. left. reflexivity.
  - apply IH. intros Hin. apply H. right. exact Hin.
Qed.

Lemma set_assoc_app_notin k v (a b : list (string * value)) :
  ~ In k (map fst a) -> set_assoc k v (a ++ b) = a ++ set_assoc k v b.
Proof.
  induction a as [|[k' w] r IH]; intros H; [reflexivity|].
  cbn [app set_assoc]. destruct (String.eqb k k') eqn:E.
  - apply String.eqb_eq in E. subst. exfalso. apply H. left. reflexivity.
  - f_equal. apply IH. intros Hin. apply H. right. exact Hin.
Qed.

Lemma spec_from_events_skip l k d t ys :
  ~ In k (map fst l) ->
  spec_clone_from_events l ((k, d) :: t) ys = spec_clone_from_events l t ys.
Proof.
  induction l as [|[k' m] r IH]; intros H; [reflexivity|].
  cbn [spec_clone_from_events lookup].
  destruct (String.eqb k' k) eqn:E.
  - apply String.eqb_eq in E. subst. exfalso. apply H. left. reflexivity.
  - rewrite IH by (intros Hin; apply H; right; exact Hin). reflexivity.
Qed.

(** with lawful field types, and distinct keys, the statements leave exactly
    the field-wise clone of the source *)
Lemma from_fields_spec I : lawful_clone_from I ->
  forall l done todo ys vs evs,
    NoDup (map fst l) ->
    map fst todo = map fst l ->
    (forall k, In k (map fst l) -> ~ In k (map fst done)) ->
    (forall k y, lookup k ys = Some y -> is_atom y = true) ->
    spec_clone_fields I l ys = Some (vs, evs) ->
    from_fields I l (done ++ todo) ys = Some (done ++ vs, spec_clone_from_events l todo ys).
Proof.
  intros Hlaw. induction l as [|[k m] r IH]; intros done todo ys vs evs Hnd Hkeys Hdisj Hat Hspec.
  - destruct todo; [|discriminate Hkeys]. inversion Hspec; subst. reflexivity.
  - destruct todo as [|[k0 d] todo']; [discriminate Hkeys|].
    cbn [map fst] in Hkeys, Hnd. inversion Hkeys as [[Hk Hkeys']]. subst k0.
    inversion Hnd as [|? ? Hnotin Hnd']; subst.
    cbn [spec_clone_fields] in Hspec.
    destruct (lookup k ys) as [y|] eqn:Hy; [|discriminate Hspec].
    destruct (spec_clone_fields I r ys) as [[vs' evs']|] eqn:Hr; [|discriminate Hspec].
    inversion Hspec; subst vs evs; clear Hspec.
    assert (Hkd : ~ In k (map fst done)) by (apply Hdisj; left; reflexivity).
    cbn [from_fields spec_clone_from_events]. rewrite lookup_app, (lookup_notin k done Hkd).
    cbn [lookup]. rewrite String.eqb_refl, Hy.
    rewrite (set_assoc_app_notin _ _ done _ Hkd). cbn [set_assoc]. rewrite String.eqb_refl.
    assert (Hval : clone_from_field I m d y = clone_field I m y).
    { unfold clone_from_field, clone_field. destruct m; [reflexivity|apply Hlaw; apply (Hat k y Hy)]. }
    rewrite Hval.
    change (done ++ (k, clone_field I m y) :: todo')
      with (done ++ [(k, clone_field I m y)] ++ todo').
    rewrite app_assoc.
    rewrite (IH (done ++ [(k, clone_field I m y)]) todo' ys vs' evs' Hnd' Hkeys').
    3:{ exact Hat. }
    + rewrite <- app_assoc. cbn [app].
      rewrite (spec_from_events_skip r k d todo' ys) by (rewrite <- Hkeys'; rewrite Hkeys'; exact Hnotin).
      reflexivity.
    + intros k' Hk' Hin. rewrite map_app in Hin. apply in_app_or in Hin as [Hin|Hin].
      * apply (Hdisj k'); [right; exact Hk'|exact Hin].
      * cbn in Hin. destruct Hin as [Hin|[]]. subst k'. apply Hnotin. exact Hk'.
    + exact Hr.
Qed.

Lemma from_fields_clone I l xs ys vs evs :
  lawful_clone_from I -> NoDup (map fst l) -> map fst l = map fst xs ->
  (forall k y, lookup k ys = Some y -> is_atom y = true) ->
  spec_clone_fields I l ys = Some (vs, evs) ->
  from_fields I l xs ys = Some (vs, spec_clone_from_events l xs ys).
Proof.
  intros Hlaw Hnd Hk Hat Hspec.
  apply (from_fields_spec I Hlaw l [] xs ys vs evs Hnd (eq_sym Hk)); [|exact Hat|exact Hspec].
  intros k _ [].
Qed.

Lemma store_set_self_field va zs src k d v :
  lookup k zs = Some d ->
  store_set [("self", VData va zs); ("source", src)] (sub self_place k) v
  = Some [("self", VData va (set_assoc k v zs)); ("source", src)].
Proof. intros H. unfold store_set. cbn. rewrite H. reflexivity. Qed.

Section CloneFrom.
  Variable I : interp.

  Definition from_done (va : option string) (zs : list (string * value)) (src : value)
             (evs : list event) (s : state) : state :=
    {| st_store := [("self", VData va zs); ("source", src)]; st_trace := st_trace s ++ evs |}.

  Lemma clone_from_stmt_no_let m a b c : no_let (clone_from_stmt m a b c) = true.
  Proof. destruct m; reflexivity. Qed.

  (** one statement of a clone_from body *)
  Lemma eval_clone_from_stmt m en dp dr se k va zs vb ys d y s :
    place_of en dp = Some (sub self_place k) ->
    (forall s0, eval I en dr s0 = (RVal (VRef (sub self_place k)), s0)) ->
    (forall s0, eval I en se s0 = (RVal (VRef (sub source_place k)), s0)) ->
    st_store s = [("self", VData va zs); ("source", VData vb ys)] ->
    lookup k zs = Some d -> lookup k ys = Some y ->
    eval I en (clone_from_stmt m dp dr se) s =
    (RVal VUnit, from_done va (set_assoc k (clone_from_field I m d y) zs) (VData vb ys)
                           [clone_from_event m d y] s).
  Proof.
    intros Hdp Hdr Hse Hs Hd Hy.
    assert (Hld : load (st_store s) (sub self_place k) = Some d).
    { rewrite (load_self_field _ va zs k); [exact Hd|rewrite Hs; reflexivity]. }
    assert (Hly : load (st_store s) (sub source_place k) = Some y).
    { rewrite (load_source_field _ vb ys k); [exact Hy|rewrite Hs; reflexivity]. }
    unfold clone_from_stmt, clone_from_field, clone_from_event, from_done. destruct m as [q|].
    - cbn [eval eval_args]. rewrite Hse. cbn [apply_path]. unfold call_user.
      cbn [strip_all strip]. rewrite Hly. rewrite Hdp. cbn [log st_store st_trace]. rewrite Hs.
      rewrite (store_set_self_field va zs (VData vb ys) k d _ Hd). reflexivity.
    - unfold clone_from_fn. cbn [eval eval_args]. rewrite Hdr, Hse. cbn [apply_path]. unfold call_core.
      cbn [strip]. rewrite Hld, Hly. rewrite Hs.
      rewrite (store_set_self_field va zs (VData vb ys) k d _ Hd). reflexivity.
  Qed.

  (** the statements, in order *)
  Lemma clone_from_stmts_eval en (dp dr se : string -> expr) va vb ys : forall (l : creq) zs zs' evs s,
    (forall k m, In (k, m) l ->
       place_of en (dp k) = Some (sub self_place k) /\
       (forall s0, eval I en (dr k) s0 = (RVal (VRef (sub self_place k)), s0)) /\
       (forall s0, eval I en (se k) s0 = (RVal (VRef (sub source_place k)), s0))) ->
    st_store s = [("self", VData va zs); ("source", VData vb ys)] ->
    from_fields I l zs ys = Some (zs', evs) ->
    eval_block (eval I) en (map (fun '(k, m) => clone_from_stmt m (dp k) (dr k) (se k)) l) s
    = (RVal VUnit, from_done va zs' (VData vb ys) evs s).
  Proof.
    induction l as [|[k m] r IH]; intros zs zs' evs s Hops Hs Hff.
    - inversion Hff; subst. cbn [map eval_block]. unfold from_done. rewrite <- Hs, app_nil_r.
      destruct s; reflexivity.
    - cbn [from_fields] in Hff.
      destruct (lookup k zs) as [d|] eqn:Hd; [|discriminate Hff].
      destruct (lookup k ys) as [y|] eqn:Hy; [|discriminate Hff].
      destruct (from_fields I r (set_assoc k (clone_from_field I m d y) zs) ys) as [[zs1 evs1]|] eqn:Hr;
        [|discriminate Hff].
      inversion Hff; subst zs' evs; clear Hff.
      destruct (Hops k m (or_introl eq_refl)) as [Hdp [Hdr Hse]].
      cbn [map].
      rewrite (eval_block_cons_unit I en _ _ s _ (clone_from_stmt_no_let _ _ _ _)
                 (eval_clone_from_stmt m en (dp k) (dr k) (se k) k va zs vb ys d y s Hdp Hdr Hse Hs Hd Hy)).
      rewrite (IH (set_assoc k (clone_from_field I m d y) zs) zs1 evs1
                  (from_done va (set_assoc k (clone_from_field I m d y) zs) (VData vb ys)
                             [clone_from_event m d y] s)
                  (fun k' m' Hin => Hops k' m' (or_intror Hin)) eq_refl Hr).
      unfold from_done. cbn [st_trace]. rewrite <- app_assoc. reflexivity.
  Qed.

  (** ** struct bodies *)
  Definition struct_from_stmt (k : string) (m : option toks) : expr :=
    clone_from_stmt m (EField (EVar "self") k) (ERefMut (EField (EVar "self") k))
                    (ERef (EField (EVar "source") k)).

  Lemma struct_from_named_eq l :
    map (fun '(i, (f, m)) => cs_clone_from_field (field_member f i) m) (indexed l)
    = map (fun '(k, m) => struct_from_stmt k m) (ckeyed l).
  Proof. unfold ckeyed. rewrite map_map. apply map_ext. intros [i [f m]]. reflexivity. Qed.
  Lemma struct_from_unnamed_eq l : plan_unnamed l ->
    map (fun '(i, (f, m)) => cs_clone_from_field (dec i) m) (indexed l)
    = map (fun '(k, m) => struct_from_stmt k m) (ckeyed l).
  Proof.
    intros H. rewrite (ckeyed_unnamed l H). rewrite map_map. apply map_ext. intros [i [f m]]. reflexivity.
  Qed.

  Lemma let_source_eval s : eval_block (eval I) from_env let_source s = (RVal VUnit, s).
  Proof. reflexivity. Qed.

  Lemma from_done_nil va zs src s :
    st_store s = [("self", VData va zs); ("source", src)] -> from_done va zs src [] s = s.
  Proof. intros H. unfold from_done. rewrite <- H, app_nil_r. destruct s; reflexivity. Qed.

  (** clone_struct.rs: the body of `clone_from` when Copy is not educed *)
  Lemma struct_clone_from_body fs l xs ys zs' evs s :
    fields_wf fs -> map fst l = fields_list fs ->
    st_store s = [("self", VData None xs); ("source", VData None ys)] ->
    from_fields I (ckeyed l) xs ys = Some (zs', evs) ->
    eval_block (eval I) from_env (clone_from_struct_body fs l) s
    = (RVal VUnit, from_done None zs' (VData None ys) evs s).
  Proof.
    intros Hwf Hfst Hs Hff.
    assert (Hgen : eval_block (eval I) from_env (map (fun '(k, m) => struct_from_stmt k m) (ckeyed l)) s
                   = (RVal VUnit, from_done None zs' (VData None ys) evs s)).
    { apply (clone_from_stmts_eval from_env (fun k => EField (EVar "self") k)
               (fun k => ERefMut (EField (EVar "self") k)) (fun k => ERef (EField (EVar "source") k))
               None None ys (ckeyed l) xs zs' evs s); [|exact Hs|exact Hff].
      intros k m _. repeat split; intros; reflexivity. }
    assert (Hnil : l = [] -> eval_block (eval I) from_env let_source s
                             = (RVal VUnit, from_done None zs' (VData None ys) evs s)).
    { intros ->. cbn in Hff. inversion Hff; subst. rewrite let_source_eval.
      rewrite (from_done_nil _ _ _ _ Hs). reflexivity. }
    destruct fs as [fl|fl|]; cbn [fields_list] in Hfst; unfold clone_from_struct_body.
    - destruct l as [|c r]; [apply Hnil; reflexivity|]. cbn [is_nil].
      rewrite struct_from_named_eq. exact Hgen.
    - destruct l as [|c r]; [apply Hnil; reflexivity|]. cbn [is_nil].
      rewrite struct_from_unnamed_eq; [exact Hgen|].
      intros f m Hin. apply Hwf. rewrite <- Hfst. apply (in_map fst _ (f, m)). exact Hin.
    - destruct l; [|discriminate Hfst]. apply Hnil. reflexivity.
  Qed.

  (** ** enum arms *)
  Definition enum_from_stmt (bd bs : string -> string) (k : string) (m : option toks) : expr :=
    clone_from_stmt m (EDeref (EVar (bd k))) (EVar (bd k)) (EVar (bs k)).

  Lemma clone_from_arm_named_eq cv fl : cv_fields cv = FNamed fl -> plan_named (cv_plan cv) ->
    clone_from_arm cv =
    (PStruct (RSelfV (cv_name cv))
       (map (fun k => (k, Some (PBind (bn_d k)))) (map fst (cv_req cv))) true false,
     EBlock [EIfLet (PStruct (RSelfV (cv_name cv))
                       (map (fun k => (k, Some (PBind (bn_s k)))) (map fst (cv_req cv))) true false)
                    (EVar "source")
                    (map (fun '(k, m) => enum_from_stmt bn_d bn_s k m) (cv_req cv))
                    else_clone_source]).
  Proof.
    intros Hf Hpn. unfold clone_from_arm, cv_req. rewrite Hf. rewrite (ckeyed_named _ Hpn).
    rewrite !map_map. f_equal.
    - f_equal. apply map_ext. intros [f m]. reflexivity.
    - f_equal. f_equal. f_equal.
      + f_equal. apply map_ext. intros [f m]. reflexivity.
      + apply map_ext. intros [f m]. reflexivity.
  Qed.

  Lemma clone_from_arm_unnamed_eq cv fl : cv_fields cv = FUnnamed fl -> plan_unnamed (cv_plan cv) ->
    clone_from_arm cv =
    (PTuple (RSelfV (cv_name cv))
       (map (fun k => PBind (bn_u k)) (map fst (cv_req cv))) true false,
     EBlock [EIfLet (PTuple (RSelfV (cv_name cv))
                       (map (fun k => PBind (bn_uu k)) (map fst (cv_req cv))) true false)
                    (EVar "source")
                    (map (fun '(k, m) => enum_from_stmt bn_u bn_uu k m) (cv_req cv))
                    else_clone_source]).
  Proof.
    intros Hf Hpu. unfold clone_from_arm, cv_req. rewrite Hf. rewrite (ckeyed_unnamed _ Hpu).
    rewrite !map_map. f_equal.
    - f_equal. apply map_ext. intros [i [f m]]. reflexivity.
    - f_equal. f_equal. f_equal.
      + f_equal. apply map_ext. intros [i [f m]]. reflexivity.
      + apply map_ext. intros [i [f m]]. reflexivity.
  Qed.

  Lemma clone_from_arm_other cv st va xs :
    load st self_place = Some (VData (Some va) xs) ->
    String.eqb va (cv_name cv) = false ->
    match_pat st (fst (clone_from_arm cv)) (VRef self_place) = None.
  Proof.
    intros Hl Hne. unfold clone_from_arm.
    destruct (cv_fields cv); cbn [fst match_pat strip is_some_path]; rewrite Hl, Hne; reflexivity.
  Qed.

  (** the fallback `*self = ::core::clone::Clone::clone(source);` *)
  Definition from_fallback (b : value) (s : state) : state :=
    {| st_store := [("self", i_clone I b); ("source", b)]; st_trace := st_trace s ++ [EvClone b] |}.

  Lemma else_clone_source_eval en a b s :
    lookup "self" en = Some (VRef self_place) ->
    lookup "source" en = Some (VRef source_place) ->
    st_store s = [("self", a); ("source", b)] ->
    match else_clone_source with
    | Some blk => eval_block (eval I) en blk s
    | None => (RVal VUnit, s)
    end = (RVal VUnit, from_fallback b s).
  Proof.
    intros Hself Hsrc Hs. unfold else_clone_source.
    cbn [eval_block eval eval_args place_of is_nil]. unfold clone_fn. rewrite Hsrc.
    cbn [apply_path]. unfold call_core. cbn [strip]. rewrite Hs.
    cbn [load source_place pl_root pl_path lookup String.eqb Ascii.eqb Bool.eqb project_path].
    rewrite Hself. cbn [log st_store st_trace].
    unfold store_set. cbn [self_place pl_root pl_path update_path]. rewrite Hs.
    cbn [lookup String.eqb Ascii.eqb Bool.eqb set_assoc]. reflexivity.
  Qed.

  Lemma block_single en e s v s1 :
    no_let e = true -> eval I en e s = (RVal v, s1) -> eval I en (EBlock [e]) s = (RVal v, s1).
  Proof. intros Hn He. cbn [eval]. rewrite eval_block_cons by exact Hn. rewrite He. reflexivity. Qed.

  Lemma self_not_d u : String.eqb "self" (bn_d u) = false. Proof. reflexivity. Qed.
  Lemma self_not_s u : String.eqb "self" (bn_s u) = false. Proof. reflexivity. Qed.
  Lemma self_not_u u : String.eqb "self" (bn_u u) = false. Proof. reflexivity. Qed.
  Lemma self_not_uu u : String.eqb "self" (bn_uu u) = false. Proof. reflexivity. Qed.
  Lemma source_not_d u : String.eqb "source" (bn_d u) = false. Proof. reflexivity. Qed.
  Lemma source_not_s u : String.eqb "source" (bn_s u) = false. Proof. reflexivity. Qed.
  Lemma source_not_u u : String.eqb "source" (bn_u u) = false. Proof. reflexivity. Qed.
  Lemma source_not_uu u : String.eqb "source" (bn_uu u) = false. Proof. reflexivity. Qed.
  Lemma d_not_s k u : String.eqb (bn_d k) (bn_s u) = false. Proof. reflexivity. Qed.
  Lemma u_not_uu i j : String.eqb (bn_u (dec i)) (bn_uu (dec j)) = false.
  Proof. apply underscore_dec_neq. Qed.

  (** a whole arm of `clone_from`, on a `self` of its variant *)
  Lemma clone_from_arm_eval cv xs vb ys s :
    cv_wf cv ->
    st_store s = [("self", VData (Some (cv_name cv)) xs); ("source", VData (Some vb) ys)] ->
    map fst (cv_req cv) = map fst xs ->
    (String.eqb vb (cv_name cv) = true -> map fst (cv_req cv) = map fst ys) ->
    exists binds,
      match_pat (st_store s) (fst (clone_from_arm cv)) (VRef self_place) = Some binds /\
      (String.eqb vb (cv_name cv) = false ->
       eval I (binds ++ from_env) (snd (clone_from_arm cv)) s
       = (RVal VUnit, from_fallback (VData (Some vb) ys) s)) /\
      (String.eqb vb (cv_name cv) = true -> forall zs' evs,
       from_fields I (cv_req cv) xs ys = Some (zs', evs) ->
       eval I (binds ++ from_env) (snd (clone_from_arm cv)) s
       = (RVal VUnit, from_done (Some (cv_name cv)) zs' (VData (Some vb) ys) evs s)).
  Proof.
    intros Hwf Hs Hkx Hky.
    set (q := cv_req cv) in *. set (keys := map fst q) in *. set (vn := cv_name cv) in *.
    assert (Hself : lookup "self" (st_store s) = Some (VData (Some vn) xs)) by (rewrite Hs; reflexivity).
    assert (Hsrc : lookup "source" (st_store s) = Some (VData (Some vb) ys)) by (rewrite Hs; reflexivity).
    assert (Hload : load (st_store s) self_place = Some (VData (Some vn) xs)) by (rewrite Hs; reflexivity).
    assert (Hloadb : load (st_store s) source_place = Some (VData (Some vb) ys)) by (rewrite Hs; reflexivity).
    assert (Hloads : forall k, In k keys -> load (st_store s) (sub self_place k) <> None).
    { intros k Hk. apply (in_keys_load _ "self" _ xs k Hself). rewrite <- Hkx. exact Hk. }
    assert (Hlen : List.length keys = List.length xs) by (rewrite Hkx; apply map_length).
    assert (Hinq : forall k m, In (k, m) q -> In k keys).
    { intros k m Hin. apply (in_map fst _ (k, m)). exact Hin. }
    destruct (cv_fields cv) as [fl|fl|] eqn:Hf.
    - (* named *)
      destruct (cv_wf_named cv fl Hwf Hf) as [Hpn Hnd]. fold q keys in Hnd.
      rewrite (clone_from_arm_named_eq cv fl Hf Hpn). fold q keys vn. cbn [fst snd].
      exists (rbinds bn_d self_place keys). split; [|split].
      + cbn [match_pat strip]. rewrite Hload, String.eqb_refl.
        rewrite map_length, Hlen, Nat.eqb_refl. cbn [orb andb].
        apply match_fields_bind. exact Hloads.
      + intros Hne. apply block_single; [reflexivity|]. cbn [eval]. rewrite lookup_app.
        rewrite lookup_rbinds_none by (intros; apply source_not_d).
        cbn [from_env lookup String.eqb Ascii.eqb Bool.eqb].
        cbn [match_pat strip]. rewrite Hloadb, Hne. cbn [andb].
        apply (else_clone_source_eval _ (VData (Some vn) xs) _ s); [| |exact Hs].
        * rewrite lookup_app, lookup_rbinds_none by (intros; apply self_not_d). reflexivity.
        * rewrite lookup_app, lookup_rbinds_none by (intros; apply source_not_d). reflexivity.
      + intros He zs' evs Hff. specialize (Hky He).
        apply block_single; [reflexivity|]. cbn [eval]. rewrite lookup_app.
        rewrite lookup_rbinds_none by (intros; apply source_not_d).
        cbn [from_env lookup String.eqb Ascii.eqb Bool.eqb].
        cbn [match_pat strip]. rewrite Hloadb, He.
        rewrite map_length. fold keys in Hky.
        assert (Hleny : List.length keys = List.length ys) by (rewrite Hky; apply map_length).
        rewrite Hleny, Nat.eqb_refl. cbn [orb andb].
        rewrite match_fields_bind.
        2:{ intros k Hk. apply (in_keys_load _ "source" _ ys k Hsrc). rewrite <- Hky. exact Hk. }
        apply (clone_from_stmts_eval _ (fun k => EDeref (EVar (bn_d k))) (fun k => EVar (bn_d k))
                 (fun k => EVar (bn_s k)) (Some vn) (Some vb) ys q xs zs' evs s); [|exact Hs|exact Hff].
        intros k m Hin. pose proof (Hinq k m Hin) as Hk.
        assert (Hd : lookup (bn_d k) (rbinds bn_s source_place keys ++ rbinds bn_d self_place keys ++ from_env)
                     = Some (VRef (sub self_place k))).
        { rewrite lookup_app, lookup_rbinds_none by (intros; apply d_not_s).
          rewrite lookup_app, lookup_rbinds; [reflexivity| |exact Hk].
          intros k' Hk' E. apply (bn_d_inj keys); assumption. }
        repeat split.
        * cbn [place_of]. rewrite Hd. reflexivity.
        * intros s0. cbn [eval]. rewrite Hd. reflexivity.
        * intros s0. cbn [eval]. rewrite lookup_app, lookup_rbinds; [reflexivity| |exact Hk].
          intros k' Hk' E. apply (bn_s_inj keys); assumption.
    - (* unnamed *)
      pose proof (cv_wf_unnamed cv fl Hwf Hf) as Hpu.
      rewrite (clone_from_arm_unnamed_eq cv fl Hf Hpu). fold q keys vn. cbn [fst snd].
      assert (Hk : keys = map dec (seq 0 (List.length (cv_plan cv))))
        by (apply ckeyed_unnamed_keys; exact Hpu).
      exists (rbinds bn_u self_place keys). split; [|split].
      + cbn [match_pat strip is_some_path]. rewrite Hload, String.eqb_refl.
        rewrite map_length, Hlen, Nat.eqb_refl. cbn [andb].
        rewrite Hk. apply match_tuple_bind. rewrite <- Hk. exact Hloads.
      + intros Hne. apply block_single; [reflexivity|]. cbn [eval]. rewrite lookup_app.
        rewrite lookup_rbinds_none by (intros; apply source_not_u).
        cbn [from_env lookup String.eqb Ascii.eqb Bool.eqb].
        cbn [match_pat strip is_some_path]. rewrite Hloadb, Hne. cbn [andb].
        apply (else_clone_source_eval _ (VData (Some vn) xs) _ s); [| |exact Hs].
        * rewrite lookup_app, lookup_rbinds_none by (intros; apply self_not_u). reflexivity.
        * rewrite lookup_app, lookup_rbinds_none by (intros; apply source_not_u). reflexivity.
      + intros He zs' evs Hff. specialize (Hky He).
        apply block_single; [reflexivity|]. cbn [eval]. rewrite lookup_app.
        rewrite lookup_rbinds_none by (intros; apply source_not_u).
        cbn [from_env lookup String.eqb Ascii.eqb Bool.eqb].
        cbn [match_pat strip is_some_path]. rewrite Hloadb, He.
        rewrite map_length. fold keys in Hky.
        assert (Hleny : List.length keys = List.length ys) by (rewrite Hky; apply map_length).
        rewrite Hleny, Nat.eqb_refl. cbn [andb].
        rewrite Hk at 1. rewrite match_tuple_bind.
        2:{ intros k Hin. apply (in_keys_load _ "source" _ ys k Hsrc). rewrite <- Hky, Hk. exact Hin. }
        rewrite <- Hk.
        apply (clone_from_stmts_eval _ (fun k => EDeref (EVar (bn_u k))) (fun k => EVar (bn_u k))
                 (fun k => EVar (bn_uu k)) (Some vn) (Some vb) ys q xs zs' evs s); [|exact Hs|exact Hff].
        intros k m Hin. pose proof (Hinq k m Hin) as Hkin.
        assert (Hd : lookup (bn_u k) (rbinds bn_uu source_place keys ++ rbinds bn_u self_place keys ++ from_env)
                     = Some (VRef (sub self_place k))).
        { rewrite lookup_app, lookup_rbinds_none.
          - rewrite lookup_app, lookup_rbinds; [reflexivity| |exact Hkin].
            intros k' _ E. apply bn_u_inj. exact E.
          - intros k' Hk'. rewrite Hk in Hkin, Hk'.
            apply in_map_iff in Hkin as [i [<- _]]. apply in_map_iff in Hk' as [j [<- _]].
            apply u_not_uu. }
        repeat split.
        * cbn [place_of]. rewrite Hd. reflexivity.
        * intros s0. cbn [eval]. rewrite Hd. reflexivity.
        * intros s0. cbn [eval]. rewrite lookup_app, lookup_rbinds; [reflexivity| |exact Hkin].
          intros k' _ E. apply bn_uu_inj. exact E.
    - (* unit *)
      pose proof (cv_wf_unit cv Hwf Hf) as Hnil.
      assert (Hq : q = []) by (unfold q, cv_req; rewrite Hnil; reflexivity).
      unfold clone_from_arm. rewrite Hf. fold vn. cbn [fst snd]. exists []. split; [|split].
      + cbn [match_pat strip]. rewrite Hload, String.eqb_refl. reflexivity.
      + intros Hne. apply block_single; [reflexivity|].
        cbn [app eval from_env lookup String.eqb Ascii.eqb Bool.eqb].
        cbn [match_pat strip]. rewrite Hloadb, Hne.
        apply (else_clone_source_eval _ (VData (Some vn) xs) _ s); try reflexivity. exact Hs.
      + intros He zs' evs Hff. rewrite Hq in Hff. cbn in Hff. inversion Hff; subst zs' evs.
        apply block_single; [reflexivity|].
        cbn [app eval from_env lookup String.eqb Ascii.eqb Bool.eqb].
        cbn [match_pat strip]. rewrite Hloadb, He. cbn [eval_block].
        rewrite (from_done_nil _ _ _ _ Hs). reflexivity.
  Qed.

  (** ** the `match self { .. }` of an enum's clone_from *)
  Lemma clone_from_arms_eval : forall cvs va xs vb ys l s,
    Forall cv_wf cvs ->
    st_store s = [("self", VData (Some va) xs); ("source", VData (Some vb) ys)] ->
    creq_get (Some va) (map cv_entry cvs) = Some l ->
    map fst l = map fst xs ->
    (String.eqb vb va = true -> map fst l = map fst ys) ->
    (String.eqb vb va = false ->
     eval_arms (eval I) from_env (VRef self_place) (map clone_from_arm cvs) s
     = (RVal VUnit, from_fallback (VData (Some vb) ys) s)) /\
    (String.eqb vb va = true -> forall zs' evs,
     from_fields I l xs ys = Some (zs', evs) ->
     eval_arms (eval I) from_env (VRef self_place) (map clone_from_arm cvs) s
     = (RVal VUnit, from_done (Some va) zs' (VData (Some vb) ys) evs s)).
  Proof.
    induction cvs as [|cv cvs IH]; intros va xs vb ys l s Hwf Hs Hget Hkx Hky.
    - discriminate Hget.
    - inversion Hwf as [|? ? Hcv Hrest]; subst.
      cbn [map cv_entry creq_get] in Hget. cbn [map eval_arms].
      destruct (String.eqb va (cv_name cv)) eqn:En.
      + inversion Hget; subst l. apply String.eqb_eq in En. subst va.
        destruct (clone_from_arm_eval cv xs vb ys s Hcv Hs Hkx Hky) as [binds [Hm [Hne He]]].
        destruct (clone_from_arm cv) as [ap ab]. cbn [fst snd] in Hm, Hne, He. rewrite Hm.
        split; assumption.
      + assert (Hload : load (st_store s) self_place = Some (VData (Some va) xs))
          by (rewrite Hs; reflexivity).
        pose proof (clone_from_arm_other cv (st_store s) va xs Hload En) as Hnone.
        destruct (clone_from_arm cv) as [ap ab]. cbn [fst] in Hnone. rewrite Hnone.
        apply (IH va xs vb ys l); assumption.
  Qed.
End CloneFrom.
