(** C20 — Clone (bitwise copy, Copy bounds), Default (the designated field), Debug (shape). *)
From Educe.Proofs Require Export P_C20.
From Educe.Model Require Export Expand_Clone.
From Educe.Model Require Expand_Debug Expand_Default.

(** ** Clone *)
Definition clone_env : env := [("self", VRef self_place)].
Definition clone_state (v : value) : state := {| st_store := [("self", v)]; st_trace := [] |}.

(** `v.clone()` through the generated impl: the result and the calls made on the way *)
Definition run_clone (I : interp) (it : item) (v : value) : option (value * list event) :=
  match find_fn "clone" it with
  | Some body =>
      match run_body I clone_env body (clone_state v) with
      | (RVal w, s) => Some (w, st_trace s)
      | _ => None
      end
  | None => None
  end.

Lemma copy_bound_model ty : copy_bound ty = ty ++ [P ":"] ++ core_path ["marker"; "Copy"].
Proof. reflexivity. Qed.

Theorem union_clone_bitwise (I : interp) F traits d m fs items :
  d_data d = DUnion fs ->
  expand_clone F traits d m = Ok items ->
  exists it rest, items = it :: rest /\
    (* the body is `*self` *)
    find_fn "clone" it = Some [EDeref (EVar "self")] /\
    (* a bitwise copy, calling nobody's Clone *)
    (forall v, run_clone I it v = Some (v, [])) /\
    (* clone_from is the trait's default *)
    find_fn "clone_from" it = None /\
    (* Copy bound on every field type (unless the user overrides the bounds with `bound(..)`) *)
    (forall ta, build_tattr true false true m = Ok ta -> ta_bound ta = BAuto ->
       forall f, In f fs -> In (copy_bound (f_ty f)) (g_where (i_generics it))) /\
    (* the companion Copy impl, if any, has the same header *)
    (forall it', In it' rest -> i_generics it' = i_generics it /\ i_members it' = []).
Proof.
  intros Hd He. unfold expand_clone in He. inv_bind He. rename a into ta. rewrite Hd in He.
  inv_bind He. inversion He; subst items; clear He. unfold clone_items.
  eexists; eexists; split; [reflexivity|]. cbn [is_nil deref_self].
  split; [reflexivity|]. split; [intros v; reflexivity|]. split; [reflexivity|]. split.
  - intros ta' Hta' Hauto f Hin. rewrite Hb in Hta'. inversion Hta'; subst ta'.
    cbn [i_generics]. unfold clone_generics. rewrite Hauto. cbn [bound_preds clone_bound_trait map].
    rewrite app_nil_r. unfold push_preds.
    destruct (is_nil (map _ (map _ fs))) eqn:En.
    + destruct fs; [destruct Hin|discriminate En].
    + cbn [g_where]. apply in_or_app. right. rewrite map_map.
      rewrite copy_bound_model. apply (in_map (fun x => f_ty x ++ [P ":"] ++ core_path ["marker"; "Copy"]) fs f Hin).
  - intros it' Hin. destruct (has_trait TCopy F && has_trait TCopy traits); [|destruct Hin].
    destruct Hin as [<-|[]]. split; reflexivity.
Qed.

(** ** Default *)
Module D := Expand_Default.

Section UnionDefault.
  Variables (F : features) (traits : list trait).

  Lemma select_fold fs : forall acc o,
    foldM (D.select_field_step F traits) acc fs = Ok o ->
    exists l, default_requests F traits fs = Ok l /\
      match acc with
      | Some a => filter default_marked l = [] /\ o = Some a
      | None => match filter default_marked l with
                | [] => o = None
                | [x] => o = Some x
                | _ => False
                end
      end.
  Proof.
    induction fs as [|f r IH]; intros acc o H.
    - cbn in H. inversion H; subst o. exists []. split; [reflexivity|].
      destruct acc; cbn; auto.
    - cbn [foldM] in H. inv_bind H. rename a into acc'. unfold D.select_field_step in Hb.
      inv_bind Hb. rename a into fa.
      unfold default_requests. cbn [mapM]. rewrite Hb0. cbn [bind].
      fold (default_requests F traits r).
      destruct (IH acc' o H) as [l' [Hl' Hsel]]. rewrite Hl'. cbn [bind].
      exists ((f, fa) :: l'). split; [reflexivity|].
      cbn [filter].
      change (default_marked (f, fa))
        with (D.df_flag fa || match D.df_expr fa with Some _ => true | None => false end).
      destruct (D.df_flag fa || match D.df_expr fa with Some _ => true | None => false end) eqn:Em.
      + destruct acc as [a0|]; [discriminate Hb|]. inversion Hb; subst acc'.
        destruct Hsel as [Hnil ->]. rewrite Hnil. reflexivity.
      + inversion Hb; subst acc'. exact Hsel.
  Qed.

  Lemma default_requests_fst fs l : default_requests F traits fs = Ok l -> map fst l = fs.
  Proof.
    unfold default_requests. revert l. induction fs as [|f r IH]; cbn [mapM]; intros l H.
    - inversion H. reflexivity.
    - inv_bind H. inv_bind Hb. inversion Hb; subst a. inv_bind H. inversion H; subst l.
      cbn. f_equal. apply IH. assumption.
  Qed.

  Lemma select_field_designated fs f fa :
    D.select_field F traits fs = Ok (f, fa) ->
    exists l, default_requests F traits fs = Ok l /\ designated l = Some (f, fa).
  Proof.
    intros H. destruct fs as [|f0 [|f1 r]].
    - cbn in H. discriminate H.
    - cbn [D.select_field] in H. inv_bind H. inversion H; subst f0 a.
      exists [(f, fa)]. unfold default_requests. cbn [mapM]. rewrite Hb. split; reflexivity.
    - unfold D.select_field in H. inv_bind H. destruct a as [x|]; [|discriminate H]. inversion H; subst x.
      destruct (select_fold (f0 :: f1 :: r) None (Some (f, fa)) Hb) as [l [Hl Hsel]].
      exists l. split; [exact Hl|].
      pose proof (default_requests_fst _ _ Hl) as Hfst.
      destruct l as [|x0 [|x1 l']]; try discriminate Hfst.
      unfold designated. destruct (filter default_marked (x0 :: x1 :: l')) as [|y [|z t]].
      + discriminate Hsel.
      + symmetry. exact Hsel.
      + destruct Hsel.
  Qed.

  Lemma designated_in l x : designated l = Some x -> In x l.
  Proof.
    unfold designated. destruct l as [|x0 [|x1 r]].
    - cbn. discriminate.
    - intros H. inversion H. left. reflexivity.
    - destruct (filter default_marked (x0 :: x1 :: r)) as [|y [|z t]] eqn:Ef; try discriminate.
      intros H. inversion H; subst y.
      assert (Hin : In x (filter default_marked (x0 :: x1 :: r))) by (rewrite Ef; left; reflexivity).
      apply filter_In in Hin. exact (proj1 Hin).
  Qed.

  Lemma init_expr_model f fa : D.dvalue_expr (D.field_value_of f fa) = init_expr f fa.
  Proof. unfold D.field_value_of, init_expr. destruct (D.df_expr fa); reflexivity. Qed.

  (** no type-level expression: exactly the designated field is initialised, with its
      expression or the field type's default; with a type-level expression the whole
      value is that expression *)
  Theorem union_default_designated d m fs items ta :
    d_data d = DUnion fs ->
    D.expand_default F traits d m = Ok items ->
    D.build_dtattr true true true true m = Ok ta ->
    exists it rest, items = it :: rest /\
      match D.dt_expr ta with
      | None =>
          exists l f fa, default_requests F traits fs = Ok l /\ designated l = Some (f, fa) /\
                         In f fs /\ find_fn "default" it = Some (spec_union_default_body f fa)
      | Some e => find_fn "default" it = Some [D.dvalue_expr e]
      end.
  Proof.
    intros Hd He Hta. unfold D.expand_default in He. inv_bind He. rename a into p.
    inversion He; subst items; clear He. unfold D.default_items.
    eexists; eexists; split; [reflexivity|].
    unfold D.default_plan in Hb. rewrite Hta in Hb. cbn [bind] in Hb. rewrite Hd in Hb.
    inv_bind Hb. rename a into body. inversion Hb; subst p; clear Hb. cbn [D.dp_body].
    unfold find_fn, D.default_item. cbn [i_members find String.eqb Ascii.eqb Bool.eqb].
    destruct (D.dt_expr ta) as [e|].
    - inv_bind Hb0. inversion Hb0; subst body. reflexivity.
    - inv_bind Hb0. destruct a as [f fa]. inversion Hb0; subst body.
      destruct (select_field_designated fs f fa Hb) as [l [Hl Hdes]].
      exists l, f, fa. split; [exact Hl|]. split; [exact Hdes|]. split.
      + rewrite <- (default_requests_fst fs l Hl).
        apply (in_map fst l (f, fa)). exact (designated_in l (f, fa) Hdes).
      + cbn [D.dbody_expr map]. rewrite init_expr_model. reflexivity.
  Qed.
End UnionDefault.

(** running the emitted `default()` when the designated field carries a spliced
    expression: the value has exactly that one field *)
Definition run_default (I : interp) (it : item) : option value :=
  match find_fn "default" it with
  | Some body =>
      match run_body I [] body {| st_store := []; st_trace := [] |} with
      | (RVal w, _) => Some w
      | _ => None
      end
  | None => None
  end.

Lemma union_default_run_expr (I : interp) it f fa ts :
  find_fn "default" it = Some (spec_union_default_body f fa) ->
  D.df_expr fa = Some (D.DVExpr ts) ->
  run_default I it = Some (VData None [(match f_name f with Some n => n | None => "" end, VTok ts)]).
Proof.
  intros Hf He. unfold run_default. rewrite Hf. unfold spec_union_default_body, init_expr.
  rewrite He. reflexivity.
Qed.

(** ** Debug *)
Module G := Expand_Debug.

Lemma dbg_union_body_model name : G.dbg_union_body name = spec_union_debug_body name.
Proof. destruct name; reflexivity. Qed.

Theorem union_debug_shape F traits d m fs items :
  d_data d = DUnion fs ->
  G.expand_debug F traits d m = Ok items ->
  exists ta it, G.build_dtattr debug_union_builder m = Ok ta /\ items = [it] /\
    find_fn "fmt" it = Some (spec_union_debug_body (effective_name (G.dt_name ta) (d_name d))).
Proof.
  intros Hd He. unfold G.expand_debug in He. rewrite Hd in He. fold debug_union_builder in He.
  inv_bind He. rename a into ta. destruct (negb (G.dt_unsafe ta)); [discriminate He|].
  inv_bind He. inversion He; subst items; clear He.
  exists ta. eexists. split; [exact Hb|]. split; [reflexivity|].
  unfold find_fn, G.dbg_item. cbn [i_members find String.eqb Ascii.eqb Bool.eqb].
  rewrite dbg_union_body_model. destruct (G.dt_name ta); reflexivity.
Qed.

(** in both shapes, the statements after `let size; let data` run with `data` bound to
    exactly the size_of::<Self>() bytes of `*self` *)
Theorem union_debug_data (I : interp) name en p l s :
  lookup "self" en = Some (VRef p) ->
  load (st_store s) p = Some (VBytes l) ->
  List.length l = i_size_of_self I ->
  exists pre rest,
    spec_union_debug_body name = pre ++ let_size :: ELet false "data" (raw_bytes "self") :: rest /\
    List.length pre <= 1 /\
    eval_block (eval I) en (let_size :: ELet false "data" (raw_bytes "self") :: rest) s =
    eval_block (eval I) (("data", VRefTmp (VBytes l)) :: ("size", VUsize (i_size_of_self I)) :: en) rest s.
Proof.
  intros Hself Hl Hlen. destruct name as [n|]; cbn [spec_union_debug_body].
  - eexists [_]. eexists. split; [reflexivity|]. split; [cbn; lia|].
    apply (union_data_binding I en p l _ s); assumption.
  - exists []. eexists. split; [reflexivity|]. split; [cbn; lia|].
    apply (union_data_binding I en p l _ s); assumption.
Qed.
