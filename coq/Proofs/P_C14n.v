(** C14, part n: rule (1) for expressions on tokens — a path (and whatever else syn accepts after
    `=`) is an expression for the list form `p(e)` too. *)
From Educe.Proofs Require Export P_C14m.

Definition strip_lead (ts : toks) : toks := if starts_with_punct "::" ts then tl ts else ts.

Lemma body_strip (ts : toks) :
  match ts with TPunct "::" :: r => r | _ => ts end = strip_lead ts.
Proof.
  unfold strip_lead. destruct ts as [|t r]; [reflexivity|].
  destruct t as [s|s|s|k s|a b c|d l]; try reflexivity. cbn [starts_with_punct is_punct].
  destruct s as [|[[] [] [] [] [] [] [] []] s]; try reflexivity.
  destruct s as [|[[] [] [] [] [] [] [] []] s]; try reflexivity.
  destruct s; reflexivity.
Qed.

Lemma path_segs_step ok s r :
  path_segs ok (TIdent s :: r) =
  if ok s then
    if starts_with_punct "::" r
    then match path_segs ok (tl r) with Some (l, rest) => Some (s :: l, rest) | None => None end
    else Some ([s], r)
  else None.
Proof.
  cbn [path_segs]. destruct (ok s); [|reflexivity].
  destruct r as [|t r']; [reflexivity|].
  destruct t as [s2|s2|s2|k s2|a b c|d l]; try reflexivity. cbn [starts_with_punct is_punct tl].
  destruct s2 as [|[[] [] [] [] [] [] [] []] s2]; try reflexivity.
  destruct s2 as [|[[] [] [] [] [] [] [] []] s2]; try reflexivity.
  destruct s2; reflexivity.
Qed.

Definition path_tok_ok (t : tt) : bool :=
  match t with TIdent s => mod_seg_ok s | TPunct s => String.eqb s "::" | _ => false end.

Lemma is_punct_eq s t : is_punct s t = true -> t = TPunct s.
Proof. destruct t; cbn [is_punct]; try discriminate. intros H. apply String.eqb_eq in H. subst. reflexivity. Qed.

Lemma path_segs_toks n : forall ts l,
  List.length ts <= n -> path_segs mod_seg_ok ts = Some (l, []) -> forallb path_tok_ok ts = true.
Proof.
  induction n as [|n IH]; intros ts l Hn H.
  - destruct ts; [discriminate H|cbn in Hn; lia].
  - destruct ts as [|t r]; [discriminate H|]. destruct t as [s|s|s|k s|a b c|d x]; try discriminate H.
    rewrite path_segs_step in H. destruct (mod_seg_ok s) eqn:Es; [|discriminate H].
    cbn [forallb path_tok_ok]. rewrite Es. cbn [andb].
    destruct (starts_with_punct "::" r) eqn:Er.
    + destruct r as [|t2 r2]; [discriminate Er|]. cbn [starts_with_punct] in Er.
      apply is_punct_eq in Er. subst t2. cbn [tl] in H. cbn [forallb path_tok_ok String.eqb Ascii.eqb Bool.eqb andb].
      destruct (path_segs mod_seg_ok r2) as [[l2 rest]|] eqn:E2; [|discriminate H].
      inversion H. subst. apply (IH r2 l2); [cbn in Hn; lia|exact E2].
    + inversion H. subst. reflexivity.
Qed.

(** the deep token check of [expr_all], restated with a named loop *)
Definition go' : nat -> list tt -> bool :=
  fix go (st : nat) (l : list tt) : bool :=
    match l with
    | [] => true
    | x :: r =>
        (match x with
         | TGroup _ _ => if Nat.eqb st 2 then true else expr_tok_ok x
         | _ => expr_tok_ok x
         end)
        && go (match x with
               | TIdent _ => 1
               | TPunct "!" => if Nat.eqb st 1 then 2 else 0
               | _ => 0
               end) r
    end.

Lemma expr_toks_ok_go ts : expr_toks_ok ts = go' 0 ts.
Proof. reflexivity. Qed.

Lemma mod_seg_expr_ident s : mod_seg_ok s = true -> expr_ident_ok s = true.
Proof.
  unfold mod_seg_ok, expr_ident_ok. intros H. apply orb_true_iff in H. destruct H as [H|H]; rewrite H.
  - reflexivity.
  - rewrite orb_true_r. reflexivity.
Qed.

Lemma go'_path ts : forallb path_tok_ok ts = true -> forall st, go' st ts = true.
Proof.
  induction ts as [|t r IH]; intros H st; [reflexivity|].
  cbn [forallb] in H. apply andb_prop in H. destruct H as [Ht Hr].
  destruct t as [s|s|s|k s|a b c|d x]; try discriminate Ht; cbn [path_tok_ok] in Ht.
  - cbn [go']. fold go'. cbn [expr_tok_ok]. rewrite (mod_seg_expr_ident s Ht). apply IH. exact Hr.
  - apply String.eqb_eq in Ht. subst s. cbn [go']. fold go'. cbn. apply IH. exact Hr.
Qed.

Lemma expr_scan_path f ts l :
  path_segs mod_seg_ok (strip_lead ts) = Some (l, []) ->
  expr_scan (S (S f)) true ts = Ok Datatypes.tt.
Proof.
  intros H. destruct ts as [|t r]; [discriminate H|].
  destruct t as [s|s|s|k s|a b c|d x].
  - (* identifier *)
    unfold strip_lead in H. cbn [starts_with_punct is_punct] in H.
    assert (Hs : mod_seg_ok s = true).
    { rewrite path_segs_step in H. destruct (mod_seg_ok s); [reflexivity|discriminate H]. }
    cbn [expr_scan]. rewrite (mod_seg_ok_not_lit s Hs). cbn [is_prefix_op is_punct orb].
    rewrite H. reflexivity.
  - (* `::` *)
    unfold strip_lead in H. cbn [starts_with_punct is_punct] in H.
    destruct (String.eqb s "::") eqn:E.
    + apply String.eqb_eq in E. subst s. cbn [tl] in H. cbn [expr_scan is_lit_tok is_prefix_op is_punct String.eqb Ascii.eqb Bool.eqb orb].
      rewrite H. reflexivity.
    + discriminate H.
  - discriminate H.
  - discriminate H.
  - discriminate H.
  - discriminate H.
Qed.

(** every path is an expression for the model of [syn::Expr::parse] *)
Theorem path_is_expr ts : parse_path_all ts = Ok ts -> expr_all ts = Ok Datatypes.tt.
Proof.
  intros H. unfold parse_path_all in H. destruct (has_angle ts); [discriminate H|].
  rewrite body_strip in H. unfold path_seg_ok in H.
  destruct (path_segs mod_seg_ok (strip_lead ts)) as [[l [|t0 r0]]|] eqn:E; try discriminate H.
  unfold expr_all. rewrite expr_toks_ok_go.
  assert (Hall : forallb path_tok_ok ts = true).
  { pose proof (path_segs_toks (List.length (strip_lead ts)) (strip_lead ts) l (le_n _) E) as Hs.
    unfold strip_lead in Hs. destruct (starts_with_punct "::" ts) eqn:Es; [|exact Hs].
    destruct ts as [|t r]; [discriminate Es|]. cbn [starts_with_punct] in Es. apply is_punct_eq in Es.
    subst t. cbn [tl] in Hs. cbn [forallb path_tok_ok String.eqb Ascii.eqb Bool.eqb andb]. exact Hs. }
  rewrite (go'_path ts Hall 0).
  replace (2 * toks_size ts + 2) with (S (S (2 * toks_size ts))) by lia.
  exact (expr_scan_path _ ts l E).
Qed.

Lemma neg_lit_is_expr t : is_num_lit t = true -> expr_all [TPunct "-"; t] = Ok Datatypes.tt.
Proof.
  destruct t as [s|s|s|k s|a b c|d x]; try discriminate. destruct k; try discriminate; intros _; reflexivity.
Qed.

(** the expressions of [expr_all] carry no `<` `>` at their top level *)
Lemma go'_no_angle ts : forall st, go' st ts = true -> has_angle ts = false.
Proof.
  induction ts as [|x r IH]; intros st H; [reflexivity|].
  change (go' st (x :: r))
    with ((match x with
           | TGroup _ _ => if Nat.eqb st 2 then true else expr_tok_ok x
           | _ => expr_tok_ok x
           end)
          && go' (match x with
                  | TIdent _ => 1
                  | TPunct "!" => if Nat.eqb st 1 then 2 else 0
                  | _ => 0
                  end) r) in H.
  apply andb_prop in H. destruct H as [Hx Hr].
  change (has_angle (x :: r)) with ((is_punct "<" x || is_punct ">" x) || has_angle r).
  rewrite (IH _ Hr), orb_false_r.
  destruct x as [s|s|s|k s|a b c|d l]; try reflexivity.
  cbn [is_punct]. cbn [expr_tok_ok] in Hx.
  destruct (String.eqb s "<") eqn:E1; [apply String.eqb_eq in E1; subst s; discriminate Hx|].
  destruct (String.eqb s ">") eqn:E2; [apply String.eqb_eq in E2; subst s; discriminate Hx|].
  reflexivity.
Qed.

Lemma expr_all_no_angle e u : expr_all e = Ok u -> has_angle e = false.
Proof.
  unfold expr_all. destruct (expr_toks_ok e) eqn:E; [|discriminate]. intros _.
  rewrite expr_toks_ok_go in E. exact (go'_no_angle e 0 E).
Qed.

Lemma args_expr_of_expr_all e :
  expr_all e = Ok Datatypes.tt -> exists v, args_expr e = Ok v.
Proof.
  intros H. pose proof (expr_all_no_angle e _ H) as Ha. unfold args_expr. destruct e as [|t [|t2 r]].
  - rewrite Ha, H. eexists. reflexivity.
  - destruct (is_lit_tok t); [eexists; reflexivity|]. rewrite H. eexists. reflexivity.
  - rewrite Ha, H. eexists. reflexivity.
Qed.

(** what a successful classification tells about the tokens *)
Inductive classified (e : toks) : Prop :=
| CL_lit t : e = [t] -> is_lit_tok t = true -> classified e
| CL_neg t : e = [TPunct "-"; t] -> is_num_lit t = true -> classified e
| CL_path : parse_path_all e = Ok e -> classified e
| CL_expr : expr_all e = Ok Datatypes.tt -> classified e
| CL_angle x : has_angle e = true -> (forall t, e <> [t]) -> angle_expr false e = Ok x -> classified e.

Lemma expr_all_unit e (u : unit) : expr_all e = Ok u -> expr_all e = Ok Datatypes.tt.
Proof. destruct u. auto. Qed.

Lemma classify_tail_classified last v x : (forall t, v <> [t]) -> classify_tail last v = Ok x -> classified v.
Proof.
  intros Hs. unfold classify_tail. destruct (has_angle v) eqn:Ea.
  { unfold classify_angle. intros H. apply angle_expr_ok in H. destruct H as [_ H].
    exact (CL_angle v x Ea Hs H). }
  destruct (parse_path_all v) as [p| | |] eqn:Ep.
  - intros _. apply CL_path. rewrite Ep, (parse_path_all_ok v p Ep). reflexivity.
  - intros H. apply bind_ok' in H. destruct H as [u [Hu _]]. apply CL_expr. exact (expr_all_unit v u Hu).
  - intros H. apply bind_ok' in H. destruct H as [u [Hu _]]. apply CL_expr. exact (expr_all_unit v u Hu).
  - intros H. apply bind_ok' in H. destruct H as [u [Hu _]]. apply CL_expr. exact (expr_all_unit v u Hu).
Qed.

Lemma classify_single_classified t1 v : classify_single t1 = Ok v -> classified [t1].
Proof.
  unfold classify_single. destruct (is_lit_tok t1) eqn:El.
  - intros _. exact (CL_lit [t1] t1 eq_refl El).
  - destruct (parse_path_all [t1]) as [p| | |] eqn:Ep.
    + intros _. apply CL_path. rewrite Ep, (parse_path_all_ok _ p Ep). reflexivity.
    + destruct t1; try discriminate; intros H; apply bind_ok' in H; destruct H as [u [Hu _]];
        apply CL_expr; exact (expr_all_unit _ u Hu).
    + destruct t1; try discriminate; intros H; apply bind_ok' in H; destruct H as [u [Hu _]];
        apply CL_expr; exact (expr_all_unit _ u Hu).
    + destruct t1; try discriminate; intros H; apply bind_ok' in H; destruct H as [u [Hu _]];
        apply CL_expr; exact (expr_all_unit _ u Hu).
Qed.

Lemma classify_classified last e v : classify_value last e = Ok v -> classified e.
Proof.
  unfold classify_value. destruct e as [|t1 [|t2 [|t3 r]]].
  - discriminate.
  - pose proof (classify_single_classified t1 v) as Hs. unfold classify_single in Hs.
    destruct t1 as [s|s|s|k s|a b c|d l]; try exact Hs.
    destruct s as [|[[] [] [] [] [] [] [] []] [|c s]]; exact Hs.
  - pose proof (classify_tail_classified last [t1; t2] v ltac:(intros t; discriminate)) as Ht.
    unfold classify_tail in Ht.
    destruct t1 as [s|s|s|k s|a b c|d l]; try exact Ht.
    destruct s as [|[[] [] [] [] [] [] [] []] [|c s]]; try exact Ht.
    destruct (is_num_lit t2) eqn:En.
    + intros _. exact (CL_neg _ t2 eq_refl En).
    + intros H. apply bind_ok' in H. destruct H as [u [Hu _]]. apply CL_expr. exact (expr_all_unit _ u Hu).
  - pose proof (classify_tail_classified last (t1 :: t2 :: t3 :: r) v ltac:(intros t; discriminate)) as Ht.
    unfold classify_tail in Ht.
    destruct t1 as [s|s|s|k s|a b c|d l]; try exact Ht.
    destruct s as [|[[] [] [] [] [] [] [] []] [|c s]]; exact Ht.
Qed.

(** rule (1) for expressions, on tokens: whatever can be written `p = e` can be written `p(e)`,
    and both are spellings of the expression [e] *)
Theorem nv_expr_has_list_form last e v :
  classify_value last e = Ok v -> exists v', args_expr e = Ok v' /\ nv_of e v /\ nv_of e v'.
Proof.
  intros H. pose proof (classify_nv_of last e v H) as Hv.
  assert (Ha : exists v', args_expr e = Ok v').
  { destruct (classify_classified last e v H) as [t -> Hl|t -> Hn|Hp|He|x Ha Hne Hx].
    - unfold args_expr. rewrite Hl. eexists. reflexivity.
    - apply args_expr_of_expr_all. exact (neg_lit_is_expr t Hn).
    - apply args_expr_of_expr_all. exact (path_is_expr e Hp).
    - apply args_expr_of_expr_all. exact He.
    - unfold args_expr. destruct e as [|t1 [|t2 r]]; [discriminate Ha|exfalso; exact (Hne t1 eq_refl)|].
      rewrite Ha. exists x. exact Hx. }
  destruct Ha as [v' Hv']. exists v'. split; [exact Hv'|]. split; [exact Hv|].
  exact (args_expr_nv_of e v' Hv').
Qed.
