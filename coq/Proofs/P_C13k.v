(** C13 — all classes together, the reading "an invalid construct is rejected", and the
    witness of the known gap. *)
From Educe.Proofs Require Export P_C13n.

(** every outcome of the model is items, a diagnostic, or "outside the modelled grammar" *)
Lemma not_ok_rejected F d :
  (forall its, expand F d <> Ok its) ->
  (exists e, expand F d = Err e) \/ (exists w, expand F d = OutOfDomain w).
Proof.
  intros H. destruct (expand F d) as [its|e|s|w]; [exfalso; exact (H its eq_refl)|eauto| |eauto].
  destruct s.
Qed.

(** a classifier that never fires on an accepted input rejects what it fires on *)
Lemma class_rejects (c : features -> dinput -> bool) F d :
  (forall its, expand F d = Ok its -> c F d = false) ->
  c F d = true ->
  (exists e, expand F d = Err e) \/ (exists w, expand F d = OutOfDomain w).
Proof.
  intros H Hc. apply not_ok_rejected. intros its Hok. rewrite (H its Hok) in Hc. discriminate Hc.
Qed.

Theorem R0_educe_format F d its : expand F d = Ok its -> invalid_educe_format d = false.
Proof.
  intros H. unfold expand in H. inv_bind H. apply foldM_Forall in Hb. apply existsb_false. intros x Hin.
  rewrite Forall_forall in Hb. destruct (Hb x Hin) as [s1 [s2 Hs]]. unfold collect_attr in Hs.
  unfold bad_educe_attr. destruct (is_educe x); [|reflexivity]. destruct (a_meta x); try discriminate Hs.
  reflexivity.
Qed.

Theorem accepted_clean_modulo_gap F d its :
  expand F d = Ok its -> invalid_classes_modulo_gap F d = [].
Proof.
  intros H. unfold invalid_classes_modulo_gap, classes. cbn [flat_map fst snd gap_sensitive].
  rewrite (R0_educe_format _ _ _ H), (R1_trait_twice _ _ _ H), (R10_unknown_trait _ _ _ H), (R9_trait_not_educed _ _ _ H),
    (R10'_attr_unknown_trait _ _ _ H), (R13_union_without_unsafe _ _ _ H),
    (R14_union_unsupported _ _ _ H), (R15_unit_variant _ _ _ H), (R6_default_designation _ _ _ H),
    (R7_deref_designation _ _ _ H), (R8_into_target_twice _ _ _ H), (R5_into_multi _ _ _ H),
    (R5_into_none _ _ _ H), (R5_into_undeclared _ _ _ H), (R3_rank_twice _ _ _ H),
    (R16_debug_nothing _ _ _ H), (R12_name_on_positional _ _ _ H), (R12_companion_bound _ _ _ H),
    (R12_default_beside_type_expression _ _ _ H).
  cbn [andb app].
  destruct (known_gap F d) eqn:Hg.
  - cbn. rewrite !andb_false_r. reflexivity.
  - rewrite (R1'_attr_trait_twice _ _ _ H Hg), (R2_param_twice _ _ _ H Hg), (R11_unknown_param _ _ _ H Hg),
      (R12_param_misplaced _ _ _ H Hg).
    reflexivity.
Qed.

Theorem accepted_clean F d its :
  expand F d = Ok its -> known_gap F d = false -> invalid_classes F d = [].
Proof.
  intros H Hg. unfold invalid_classes, classes. cbn [flat_map fst snd].
  rewrite (R0_educe_format _ _ _ H), (R1_trait_twice _ _ _ H), (R10_unknown_trait _ _ _ H), (R9_trait_not_educed _ _ _ H),
    (R10'_attr_unknown_trait _ _ _ H), (R13_union_without_unsafe _ _ _ H),
    (R14_union_unsupported _ _ _ H), (R15_unit_variant _ _ _ H), (R6_default_designation _ _ _ H),
    (R7_deref_designation _ _ _ H), (R8_into_target_twice _ _ _ H), (R5_into_multi _ _ _ H),
    (R5_into_none _ _ _ H), (R5_into_undeclared _ _ _ H), (R3_rank_twice _ _ _ H),
    (R16_debug_nothing _ _ _ H), (R12_name_on_positional _ _ _ H), (R12_companion_bound _ _ _ H),
    (R12_default_beside_type_expression _ _ _ H), (R11_unknown_param _ _ _ H Hg),
    (R1'_attr_trait_twice _ _ _ H Hg), (R2_param_twice _ _ _ H Hg), (R12_param_misplaced _ _ _ H Hg).
  reflexivity.
Qed.

Theorem invalid_rejected F d :
  invalid_classes_modulo_gap F d <> [] ->
  (exists e, expand F d = Err e) \/ (exists w, expand F d = OutOfDomain w).
Proof.
  intros H. apply not_ok_rejected. intros its Hok. apply H. exact (accepted_clean_modulo_gap _ _ _ Hok).
Qed.

(** the shared engines answer a second occurrence of an accepted parameter (whose value parses)
    with exactly `parameter_reset` *)
Lemma shared_engines_reset :
  (forall s m v, param_is m ["bound"] = true -> bound_from_meta m = Ok v -> fst s = true ->
                 bound_param true s m = Err E_param_reset) /\
  (forall em s m v, param_is m ["ignore"] = true -> meta_2_bool_allow_path m = Ok v ->
                    fs_ignore_set s = true -> im_param true em s m = Err E_param_reset) /\
  (forall ei s m v, param_is m ["ignore"] = false -> param_is m ["method"] = true ->
                    meta_2_path m = Ok v -> fs_method_set s = true ->
                    im_param ei true s m = Err E_param_reset).
Proof.
  split; [|split].
  - intros s m v Hp Hv Hs. unfold bound_param. rewrite Hp, Hv, Hs. reflexivity.
  - intros em s m v Hp Hv Hs. unfold im_param. rewrite Hp, Hv, Hs. reflexivity.
  - intros ei s m v Hp Hq Hv Hs. unfold im_param. rewrite Hp, Hq, Hv, Hs. reflexivity.
Qed.
