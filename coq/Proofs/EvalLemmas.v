(** General lemmas about the interpreter and the outcome monad. *)
From Educe.Sem Require Export Interp.
From Educe.Model Require Export Attr.

Lemma bind_ok {A B} (m : outcome A) (f : A -> outcome B) (b : B) :
  bind m f = Ok b -> exists a, m = Ok a /\ f a = Ok b.
Proof. destruct m; cbn; intros H; try discriminate; eauto. Qed.

Ltac inv_bind H :=
  let a := fresh "a" in
  let H1 := fresh "Hb" in
  apply bind_ok in H; destruct H as [a [H1 H]].

Lemma mapM_ok_length {A B} (f : A -> outcome B) l r :
  mapM f l = Ok r -> List.length r = List.length l.
Proof.
  revert r; induction l as [|x l IH]; cbn; intros r H.
  - inversion H; reflexivity.
  - inv_bind H. inv_bind H. inversion H; subst. cbn. f_equal. eauto.
Qed.

Lemma mapM_ok_Forall2 {A B} (f : A -> outcome B) l r :
  mapM f l = Ok r -> Forall2 (fun x y => f x = Ok y) l r.
Proof.
  revert r; induction l as [|x l IH]; cbn; intros r H.
  - inversion H; constructor.
  - inv_bind H. inv_bind H. inversion H; subst. constructor; eauto.
Qed.

(** a block whose statements contain no `let` *)
Definition no_let (e : expr) : bool :=
  match e with ELet _ _ _ | EDebugMapBuilder | EDebugFieldArg _ _ _ _ _ _ => false | _ => true end.

Section Blocks.
  Variable I : interp.

  Lemma eval_block_cons en e r s :
    no_let e = true ->
    eval_block (eval I) en (e :: r) s =
    match eval I en e s with
    | (RVal v, s1) => if is_nil r then (RVal v, s1) else eval_block (eval I) en r s1
    | other => other
    end.
  Proof. destruct e; cbn [no_let]; intros H; try discriminate H; reflexivity. Qed.

  (** sequencing: a let-free prefix that completes normally hands over to the rest *)
  Lemma eval_block_app_val en b1 b2 s v s1 :
    forallb no_let b1 = true -> b2 <> [] ->
    eval_block (eval I) en b1 s = (RVal v, s1) ->
    eval_block (eval I) en (b1 ++ b2) s = eval_block (eval I) en b2 s1.
  Proof.
    revert s; induction b1 as [|e r IH]; intros s Hnl Hne H.
    - cbn in H. inversion H; subst. reflexivity.
    - cbn [forallb] in Hnl. apply andb_true_iff in Hnl as [He Hr].
      cbn [app]. rewrite eval_block_cons in H |- * by exact He.
      destruct (eval I en e s) as [[w|w|] s'] eqn:E; try discriminate H.
      destruct r as [|nx rest].
      + cbn in H |- *. inversion H; subst. destruct b2; [congruence|reflexivity].
      + cbn [is_nil app] in H |- *. apply IH; auto.
  Qed.

  (** ... and a prefix that returns (or gets stuck) ends the block *)
  Lemma eval_block_app_stop en b1 b2 s x s1 :
    forallb no_let b1 = true ->
    eval_block (eval I) en b1 s = (x, s1) ->
    (forall v, x <> RVal v) ->
    eval_block (eval I) en (b1 ++ b2) s = (x, s1).
  Proof.
    revert s; induction b1 as [|e r IH]; intros s Hnl H Hx.
    - cbn in H. inversion H; subst. exfalso. eapply Hx; reflexivity.
    - cbn [forallb] in Hnl. apply andb_true_iff in Hnl as [He Hr].
      cbn [app]. rewrite eval_block_cons in H |- * by exact He.
      destruct (eval I en e s) as [[w|w|] s'] eqn:E; try exact H.
      destruct r as [|nx rest].
      + cbn in H. inversion H; subst. exfalso. eapply Hx; reflexivity.
      + cbn [is_nil app] in H |- *. apply IH; auto.
  Qed.
End Blocks.
