(** C14, part d: the attribute scanners.  [scan_attrs] (and the Into collector, and the
    type-level collector of the driver) see the `#[educe(..)]` attributes of an item only through
    the flattened list of their metas — rule (6) —, do not depend on the order of the metas of
    different traits — rule (7) — nor on the spelling of each meta — rules (1)-(5). *)
From Educe.Proofs Require Export P_C14c.

(** * folds *)
Lemma foldM_app {A S} (f : S -> A -> outcome S) (l1 l2 : list A) (s : S) :
  foldM f s (l1 ++ l2) = (let* s' := foldM f s l1 in foldM f s' l2).
Proof.
  revert s. induction l1 as [|x r IH]; intros s; cbn [foldM app bind]; [reflexivity|].
  destruct (f s x); cbn [bind]; auto.
Qed.

Lemma foldM_osimR {A B S S'} (R : S -> S' -> Prop) (Q : A -> B -> Prop)
      (f : S -> A -> outcome S) (g : S' -> B -> outcome S') l l' :
  (forall s s' a b, R s s' -> Q a b -> osimR R (f s a) (g s' b)) ->
  Forall2 Q l l' -> forall s s', R s s' -> osimR R (foldM f s l) (foldM g s' l').
Proof.
  intros Hf. induction 1 as [|a b l l' Hab Hl IH]; intros s s' Hs; cbn [foldM]; [exact Hs|].
  eapply osimR_bind; [exact (Hf s s' a b Hs Hab)|]. intros x y Hxy. exact (IH x y Hxy).
Qed.

Lemma foldM_rperm {A S} (ok : A -> A -> bool) (f : S -> A -> outcome S) l l' :
  (forall s x y, ok x y = true ->
     osim (let* s1 := f s y in f s1 x) (let* s1 := f s x in f s1 y)) ->
  rperm ok l l' -> forall s, osim (foldM f s l) (foldM f s l').
Proof.
  intros Hc. induction 1 as [|x l l' Hp IH|x y l Hok|l l' l'' H1 IH1 H2 IH2]; intros s.
  - apply osim_refl.
  - cbn [foldM]. apply osim_bind; [apply osim_refl|exact IH].
  - cbn [foldM]. rewrite <- !bind_assoc. apply osim_bind; [|intros a; apply osim_refl].
    exact (Hc s x y Hok).
  - exact (osim_trans _ _ _ (IH1 s) (IH2 s)).
Qed.

Lemma rperm_mono {A} (ok ok' : A -> A -> bool) l l' :
  (forall x y, ok x y = true -> ok' x y = true) -> rperm ok l l' -> rperm ok' l l'.
Proof.
  intros H. induction 1; [constructor|constructor; assumption|constructor; auto|].
  eapply rperm_trans; eassumption.
Qed.

Lemma rperm_Permutation {A} (ok : A -> A -> bool) l l' : rperm ok l l' -> Permutation l l'.
Proof.
  induction 1; [constructor|constructor; assumption|constructor|eapply perm_trans; eassumption].
Qed.

Lemma rperm_refl {A} (ok : A -> A -> bool) l : rperm ok l l.
Proof. induction l; constructor; assumption. Qed.

(** a sub-list of elements that may not be exchanged with one another keeps its order *)
Lemma rperm_filter {A} (ok : A -> A -> bool) (P : A -> bool) l l' :
  (forall x y, P x = true -> P y = true -> ok x y = false) ->
  rperm ok l l' -> filter P l = filter P l'.
Proof.
  intros H. induction 1 as [|x l l' Hp IH|x y l Hok|l l' l'' H1 IH1 H2 IH2]; cbn [filter].
  - reflexivity.
  - rewrite IH. reflexivity.
  - destruct (P y) eqn:Ey, (P x) eqn:Ex; try reflexivity.
    rewrite (H x y Ex Ey) in Hok. discriminate Hok.
  - congruence.
Qed.

(** * traits named by a meta *)
Lemma trait_of_name_inv s t : trait_of_name s = Some t -> s = trait_name t.
Proof.
  unfold trait_of_name. intros H. apply find_some in H. destruct H as [_ H].
  apply String.eqb_eq in H. symmetry. exact H.
Qed.

Lemma trait_from_path_name F p t : trait_from_path F p = Some t -> get_ident p = Some (trait_name t).
Proof.
  unfold trait_from_path. destruct (get_ident p) as [s|]; [|discriminate].
  destruct (trait_of_name s) as [t'|] eqn:E; [|discriminate].
  destruct (has_trait t' F); [|discriminate]. intros H. inversion H. subst.
  rewrite (trait_of_name_inv s t E). reflexivity.
Qed.

Lemma trait_of_name_name t : trait_of_name (trait_name t) = Some t.
Proof. destruct t; reflexivity. Qed.

Lemma trait_from_path_intro F p t :
  get_ident p = Some (trait_name t) -> has_trait t F = true -> trait_from_path F p = Some t.
Proof.
  intros H Hf. unfold trait_from_path. rewrite H, trait_of_name_name, Hf. reflexivity.
Qed.

(** * rule (6): the scanners see the flattened list of metas *)
Section Flat.
  Context {A : Type} (F : features) (own : trait -> bool) (build : meta -> outcome A)
          (traits : list trait).

  Definition scan_metas (acc : option A) (ms : list meta) : outcome (option A) :=
    foldM (scan_meta F own build traits) acc ms.

  Lemma scan_attrs_flat_acc attrs : forall ms acc,
    attrs_metas false attrs = Ok ms ->
    foldM (scan_attr F own build traits) acc attrs = scan_metas acc ms.
  Proof.
    induction attrs as [|a r IH]; intros ms acc H; cbn [attrs_metas] in H.
    - inversion H. reflexivity.
    - apply bind_ok' in H. destruct H as [m [Hm H]]. apply bind_ok' in H. destruct H as [ms' [Hr H]].
      inversion H. subst. cbn [foldM]. unfold scan_metas. rewrite foldM_app.
      assert (E : scan_attr F own build traits acc a = foldM (scan_meta F own build traits) acc m).
      { unfold scan_attr. unfold attr_metas in Hm. destruct (is_educe a).
        - destruct (a_meta a) as [|v|d ts].
          + inversion Hm. reflexivity.
          + inversion Hm. reflexivity.
          + rewrite Hm. reflexivity.
        - inversion Hm. reflexivity. }
      rewrite E. destruct (foldM (scan_meta F own build traits) acc m); cbn [bind]; try reflexivity.
      exact (IH ms' a0 Hr).
  Qed.

  Theorem scan_attrs_flat attrs ms :
    attrs_metas false attrs = Ok ms ->
    scan_attrs F own build traits attrs = scan_metas None ms.
  Proof. apply scan_attrs_flat_acc. Qed.
End Flat.

Lemma into_collect_flat F traits attrs : forall ms acc,
  attrs_metas false attrs = Ok ms ->
  foldM (into_collect_attr F traits) acc attrs = foldM (into_collect_meta F traits) acc ms.
Proof.
  induction attrs as [|a r IH]; intros ms acc H; cbn [attrs_metas] in H.
  - inversion H. reflexivity.
  - apply bind_ok' in H. destruct H as [m [Hm H]]. apply bind_ok' in H. destruct H as [ms' [Hr H]].
    inversion H. subst. cbn [foldM]. rewrite foldM_app.
    assert (E : into_collect_attr F traits acc a = foldM (into_collect_meta F traits) acc m).
    { unfold into_collect_attr. unfold attr_metas in Hm. destruct (is_educe a).
      - destruct (a_meta a) as [|v|d ts].
        + inversion Hm. reflexivity.
        + inversion Hm. reflexivity.
        + rewrite Hm. reflexivity.
      - inversion Hm. reflexivity. }
    rewrite E. destruct (foldM (into_collect_meta F traits) acc m); cbn [bind]; try reflexivity.
    exact (IH ms' a0 Hr).
Qed.

Lemma collect_flat F attrs : forall ms acc,
  attrs_metas true attrs = Ok ms ->
  foldM (collect_attr F) acc attrs = foldM (collect_meta F) acc ms.
Proof.
  induction attrs as [|a r IH]; intros ms acc H; cbn [attrs_metas] in H.
  - inversion H. reflexivity.
  - apply bind_ok' in H. destruct H as [m [Hm H]]. apply bind_ok' in H. destruct H as [ms' [Hr H]].
    inversion H. subst. cbn [foldM]. rewrite foldM_app.
    assert (E : collect_attr F acc a = foldM (collect_meta F) acc m).
    { unfold collect_attr. unfold attr_metas in Hm. destruct (is_educe a).
      - destruct (a_meta a) as [|v|d ts].
        + discriminate Hm.
        + discriminate Hm.
        + rewrite Hm. reflexivity.
      - inversion Hm. reflexivity. }
    rewrite E. destruct (foldM (collect_meta F) acc m); cbn [bind]; try reflexivity.
    exact (IH ms' a0 Hr).
Qed.

(** * rules (7) and (1)-(5) for [scan_attrs] *)
Section Scan.
  Context {A : Type} (F : features) (own : trait -> bool) (build : meta -> outcome A)
          (traits : list trait) (pos : position).

  (** the builder does not depend on the spelling of the metas it is given *)
  Definition build_respects : Prop :=
    forall m m', tmeta_equiv pos m m' ->
    forall t, trait_from_path F (meta_path m) = Some t -> own t = true ->
    osim (build m) (build m').

  (** two consecutive metas commute (whatever they are) *)
  Lemma scan_meta_comm acc m1 m2 :
    osim (let* a1 := scan_meta F own build traits acc m1 in scan_meta F own build traits a1 m2)
         (let* a1 := scan_meta F own build traits acc m2 in scan_meta F own build traits a1 m1).
  Proof.
    unfold scan_meta.
    destruct (trait_from_path F (meta_path m1)) as [t1|];
      destruct (trait_from_path F (meta_path m2)) as [t2|]; cbn [bind];
      try (destruct (negb (has_trait t1 traits))); try (destruct (negb (has_trait t2 traits)));
      try (destruct (own t1)); try (destruct (own t2)); try (destruct acc as [v|]);
      cbn [bind]; try exact Logic.I; try apply osim_refl;
      try (destruct (build m1)); try (destruct (build m2)); cbn [bind osim osimR];
      try exact Logic.I; try reflexivity.
  Qed.

  Lemma scan_metas_rperm ok ms ms' :
    rperm ok ms ms' -> forall acc, osim (scan_metas F own build traits acc ms)
                                        (scan_metas F own build traits acc ms').
  Proof.
    unfold scan_metas. apply foldM_rperm. intros s x y _. apply scan_meta_comm.
  Qed.

  Lemma scan_meta_equiv acc m m' :
    build_respects -> tmeta_equiv pos m m' ->
    osim (scan_meta F own build traits acc m) (scan_meta F own build traits acc m').
  Proof.
    intros Hb H. unfold scan_meta. rewrite <- (tmeta_equiv_path pos m m' H).
    destruct (trait_from_path F (meta_path m)) as [t|] eqn:Et; [|exact Logic.I].
    destruct (negb (has_trait t traits)); [exact Logic.I|].
    destruct (own t) eqn:Eo; [|apply osim_refl].
    destruct acc; [exact Logic.I|].
    apply osim_bind; [exact (Hb m m' H t Et Eo)|intros a; apply osim_refl].
  Qed.

  Theorem scan_metas_equiv ms ms' acc :
    build_respects -> metas_equiv pos ms ms' ->
    osim (scan_metas F own build traits acc ms) (scan_metas F own build traits acc ms').
  Proof.
    intros Hb [qs [Hp Hq]]. eapply osim_trans; [exact (scan_metas_rperm _ ms qs Hp acc)|].
    unfold scan_metas.
    apply (foldM_osimR eq (tmeta_equiv pos)); [|exact Hq|reflexivity].
    intros s s' a b -> Hab. apply scan_meta_equiv; assumption.
  Qed.
End Scan.

(** the scanners look at [traits] (and at [own]) through membership only *)
Lemma scan_metas_ext {A} F own own' (build : meta -> outcome A) traits traits' acc ms :
  (forall t, has_trait t traits = has_trait t traits') -> (forall t, own t = own' t) ->
  scan_metas F own build traits acc ms = scan_metas F own' build traits' acc ms.
Proof.
  intros Ht Ho. unfold scan_metas. revert acc. induction ms as [|m r IH]; intros acc; [reflexivity|].
  cbn [foldM].
  assert (E : scan_meta F own build traits acc m = scan_meta F own' build traits' acc m).
  { unfold scan_meta. destruct (trait_from_path F (meta_path m)); [|reflexivity].
    rewrite Ht, Ho. reflexivity. }
  rewrite E. destruct (scan_meta F own' build traits' acc m); cbn [bind]; auto.
Qed.

(** * the scanners with a default: `Trait = true` on a field is "no attribute" (rule (4)) *)
Definition unwrap {A} (dflt : A) (o : option A) : A := match o with Some a => a | None => dflt end.
Definition opt_rel {A} (dflt : A) (o o' : option A) : Prop := unwrap dflt o = unwrap dflt o'.

Section ScanDefault.
  Context {A : Type} (F : features) (own : trait -> bool) (build : meta -> outcome A)
          (traits : list trait) (dflt : A).

  (** the traits served by one scanner form one group (PartialEq+Eq, PartialOrd+Ord, or one trait) *)
  Hypothesis own_group : forall t1 t2, own t1 = true -> own t2 = true ->
                                       In (trait_name t2) (group (trait_name t1)).
  (** `Trait = true` builds the default attribute *)
  Hypothesis build_true : forall p t,
    trait_from_path F p = Some t -> In (trait_name t) bool_shorthand_traits -> own t = true ->
    build (MNameValue p (XLit (tok_bool true))) = Ok dflt.

  (** metas of other groups only validate *)
  Lemma scan_metas_nonown t0 l :
    own t0 = true ->
    (forall m b, In m l -> get_ident (meta_path m) = Some b -> ~ In b (group (trait_name t0))) ->
    forall acc acc',
      osimR (fun o o' => o = acc /\ o' = acc') (scan_metas F own build traits acc l)
            (scan_metas F own build traits acc' l).
  Proof.
    intros Ho. unfold scan_metas. induction l as [|m r IH]; intros Hl acc acc'; cbn [foldM].
    - split; reflexivity.
    - assert (Hr : forall m0 b, In m0 r -> get_ident (meta_path m0) = Some b ->
                                ~ In b (group (trait_name t0))).
      { intros m0 b Hin. apply Hl. right. exact Hin. }
      unfold scan_meta at 1 3.
      destruct (trait_from_path F (meta_path m)) as [t|] eqn:Et; [|exact Logic.I].
      destruct (negb (has_trait t traits)); [exact Logic.I|].
      destruct (own t) eqn:Eo.
      + exfalso. apply (Hl m (trait_name t) (or_introl eq_refl) (trait_from_path_name F _ t Et)).
        exact (own_group t0 t Ho Eo).
      + cbn [bind]. exact (IH Hr acc acc').
  Qed.

  Theorem scan_metas_fequiv ms ms' :
    build_respects F own build PField -> fmetas_equiv F traits ms ms' ->
    osimR (opt_rel dflt) (scan_metas F own build traits None ms) (scan_metas F own build traits None ms').
  Proof.
    intros Hb. induction 1 as [ms ms' H|ms1 ms2 p a t Hp Ha Ht HF HT Hno|ms ms' H IH|ms ms' ms'' H1 IH1 H2 IH2].
    - eapply osimR_mono; [|exact (scan_metas_equiv F own build traits PField ms ms' None Hb H)].
      intros x y ->. reflexivity.
    - assert (Etp : trait_from_path F p = Some t).
      { apply trait_from_path_intro; [|exact HF]. rewrite Hp, (trait_of_name_inv a t Ht). reflexivity. }
      assert (Ea : a = trait_name t) by exact (trait_of_name_inv a t Ht).
      unfold scan_metas. rewrite !foldM_app. cbn [foldM].
      destruct (own t) eqn:Eo.
      + assert (Hno' : forall m b, In m (ms1 ++ ms2) -> get_ident (meta_path m) = Some b ->
                                   ~ In b (group (trait_name t))).
        { rewrite <- Ea. exact Hno. }
        eapply osimR_bind.
        * apply (scan_metas_nonown t ms1 Eo).
          intros m b Hin. apply Hno'. apply in_or_app. left. exact Hin.
        * intros o o' [-> ->]. unfold scan_meta at 1. cbn [meta_path]. rewrite Etp, HT, Eo.
          cbn [negb]. rewrite (build_true p t Etp); [|rewrite <- Ea; exact Ha|exact Eo].
          cbn [bind].
          eapply osimR_mono; [|apply (scan_metas_nonown t ms2 Eo)].
          -- intros x y [-> ->]. reflexivity.
          -- intros m b Hin. apply Hno'. apply in_or_app. right. exact Hin.
      + apply (osimR_bind eq); [apply osim_refl|]. intros o o' ->.
        unfold scan_meta at 1. cbn [meta_path]. rewrite Etp, HT, Eo. cbn [negb bind].
        eapply osimR_mono; [|apply osim_refl]. intros x y ->. reflexivity.
    - eapply osimR_sym; [|exact IH]. intros x y E. symmetry. exact E.
    - eapply osimR_trans; [|exact IH1|exact IH2]. intros x y z E1 E2. unfold opt_rel in *. congruence.
  Qed.
End ScanDefault.

(** a scanner followed by "or the default attribute" *)
Definition scan_default {A} F own (build : meta -> outcome A) traits (dflt : A) (attrs : list attr)
  : outcome A :=
  let* o := scan_attrs F own build traits attrs in Ok (unwrap dflt o).

Theorem scan_default_fequiv {A} F own (build : meta -> outcome A) traits dflt attrs attrs' :
  (forall t1 t2, own t1 = true -> own t2 = true -> In (trait_name t2) (group (trait_name t1))) ->
  (forall p t, trait_from_path F p = Some t -> In (trait_name t) bool_shorthand_traits -> own t = true ->
               build (MNameValue p (XLit (tok_bool true))) = Ok dflt) ->
  build_respects F own build PField ->
  field_attrs_equiv F traits attrs attrs' ->
  osim (scan_default F own build traits dflt attrs) (scan_default F own build traits dflt attrs').
Proof.
  intros Hg Ht Hb [ms [ms' [E [E' H]]]]. unfold scan_default.
  rewrite (scan_attrs_flat F own build traits attrs ms E),
          (scan_attrs_flat F own build traits attrs' ms' E').
  eapply osimR_bind; [exact (scan_metas_fequiv F own build traits dflt Hg Ht ms ms' Hb H)|].
  intros o o' Hoo. exact Hoo.
Qed.

(** without the `= true` rule (variants, union fields): the scan results are equal *)
Theorem scan_attrs_equiv {A} F own (build : meta -> outcome A) traits pos attrs attrs' :
  build_respects F own build pos ->
  attrs_equiv (metas_equiv pos) false attrs attrs' ->
  osim (scan_attrs F own build traits attrs) (scan_attrs F own build traits attrs').
Proof.
  intros Hb [ms [ms' [E [E' H]]]].
  rewrite (scan_attrs_flat F own build traits attrs ms E),
          (scan_attrs_flat F own build traits attrs' ms' E').
  apply scan_metas_equiv with (pos := pos); assumption.
Qed.
