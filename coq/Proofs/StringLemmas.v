(** String facts used by the binder / hygiene arguments. *)
From Educe.Model Require Export Tok.
From Educe.Sem Require Export Value.

Lemma append_eqb_prefix (pre a b : string) :
  String.eqb (pre ^^ a) (pre ^^ b) = String.eqb a b.
Proof.
  induction pre as [|c pre IH]; cbn; [reflexivity|].
  rewrite Ascii.eqb_refl. exact IH.
Qed.

Lemma lookup_app {A} k (a b : list (string * A)) :
  lookup k (a ++ b) = match lookup k a with Some v => Some v | None => lookup k b end.
Proof.
  induction a as [|[k' v] a IH]; cbn; [reflexivity|].
  destruct (String.eqb k k'); [reflexivity|exact IH].
Qed.

Definition is_digit_char (c : ascii) : bool :=
  match c with
  | "0" | "1" | "2" | "3" | "4" | "5" | "6" | "7" | "8" | "9" => true
  | _ => false
  end%char.
Definition starts_digit (s : string) : bool :=
  match s with String c _ => is_digit_char c | EmptyString => false end.

Lemma digit_of_starts n acc : starts_digit (digit_of n ^^ acc) = true.
Proof. do 10 (destruct n as [|n]; [reflexivity|]). reflexivity. Qed.

Lemma dec_aux_starts fuel : forall n acc,
  (fuel <> 0 \/ starts_digit acc = true) -> starts_digit (dec_aux fuel n acc) = true.
Proof.
  induction fuel as [|f IH]; intros n acc H.
  - cbn. destruct H as [H|H]; [congruence|exact H].
  - cbn [dec_aux]. destruct (Nat.eqb (n / 10) 0).
    + apply digit_of_starts.
    + apply IH. right. apply digit_of_starts.
Qed.

Lemma dec_starts_digit n : starts_digit (dec n) = true.
Proof. unfold dec. apply dec_aux_starts. left. discriminate. Qed.

(** `_<i>` never equals `__<j>` *)
Lemma underscore_dec_neq i j : String.eqb ("_" ^^ dec i) ("__" ^^ dec j) = false.
Proof.
  change ("__" ^^ dec j) with ("_" ^^ ("_" ^^ dec j)).
  rewrite append_eqb_prefix.
  pose proof (dec_starts_digit i) as H.
  destruct (dec i) as [|c r]; [discriminate H|].
  cbn in H |- *. destruct (Ascii.eqb c "_") eqn:E; [|reflexivity].
  apply Ascii.eqb_eq in E. subst c. discriminate H.
Qed.
