(** C15 reverse direction, group a: Hash, PartialEq *)
From Educe.Proofs Require Export P_C15d.

Section HandlersE_a.
  Variables (F : features) (keep : trait -> bool) (tr tr' : list trait).
  Hypothesis Htr : forall t, keep t = true -> has_trait t tr' = has_trait t tr.
  Notation rho := (restrict_attrs keep).
  Notation rf := (map_field (restrict_attrs keep)).
  Notation rv := (map_variant (restrict_attrs keep)).
  Notation rd := (map_dinput (restrict_attrs keep)).

  (** ** Hash *)
  Section HashE.
    Hypothesis Hk : keep THash = true.

    Lemma hash_type_attr_e attrs : vattrs F tr attrs ->
      hash_type_attr F tr' (rho attrs) = hash_type_attr F tr attrs.
    Proof.
      intros Hv. unfold hash_type_attr. rewrite (scan_e F keep tr tr' Htr) by assumption. reflexivity.
    Qed.

    Lemma hash_field_attr_e ei em attrs : vattrs F tr attrs ->
      hash_field_attr F tr' ei em (rho attrs) = hash_field_attr F tr ei em attrs.
    Proof.
      intros Hv. unfold hash_field_attr. rewrite (scan_e F keep tr tr' Htr) by assumption. reflexivity.
    Qed.

    Lemma hash_field_attrs_e fs : Forall (vfield F tr) fs ->
      hash_field_attrs F tr' (map rf fs) = omap (map (on_fst rf)) (hash_field_attrs F tr fs).
    Proof.
      unfold hash_field_attrs. apply mapM_e. intros f Hv. cbn [map_field f_attrs].
      rewrite (hash_field_attr_e _ _ _ Hv).
      destruct (hash_field_attr F tr true true (f_attrs f)); reflexivity.
    Qed.

    Lemma hash_variant_e iv : vvariant F tr (snd iv) ->
      hash_variant F tr' (on_snd rv iv) = hash_variant F tr iv.
    Proof.
      destruct iv as [vi v]. intros [Hv Hfs]. unfold hash_variant, on_snd. cbn [fst snd] in *.
      cbn [map_variant v_attrs v_fields v_name].
      rewrite (hash_type_attr_e _ Hv).
      destruct (hash_type_attr F tr (v_attrs v)); cbn [bind]; try reflexivity.
      rewrite fields_list_map, (hash_field_attrs_e _ Hfs).
      destruct (hash_field_attrs F tr (fields_list (v_fields v))); cbn [omap bind]; try reflexivity.
      rewrite hash_arm_r, hash_types_r. reflexivity.
    Qed.

    Theorem expand_hash_e d m : vinput F tr d ->
      expand_hash F tr' (rd d) m = expand_hash F tr d m.
    Proof.
      intros [Hva Hvd]. unfold expand_hash. cbn [map_dinput d_data].
      destruct (d_data d) as [fs|vs|fs]; cbn [map_data vdata] in *.
      - destruct (build_tattr true false true m); cbn [bind]; try reflexivity.
        rewrite fields_list_map, (hash_field_attrs_e _ Hvd).
        destruct (hash_field_attrs F tr (fields_list fs)); cbn [omap bind]; try reflexivity.
        rewrite hash_types_r, hash_struct_body_r. reflexivity.
      - destruct (build_tattr true false true m); cbn [bind]; try reflexivity.
        rewrite indexed_map.
        rewrite (mapM_e0 (fun x => vvariant F tr (snd x)) (hash_variant F tr) (hash_variant F tr')
                   (on_snd rv) (indexed vs) hash_variant_e (Forall_indexed _ _ Hvd)).
        reflexivity.
      - destruct (build_tattr true true false m) as [ta|e|s|w]; cbn [bind]; try reflexivity.
        destruct (negb (ta_unsafe ta)); [reflexivity|].
        rewrite (mapM_e0 (vfield F tr) (fun f => hash_field_attr F tr false false (f_attrs f))
                   (fun f => hash_field_attr F tr' false false (f_attrs f)) rf fs
                   (fun f Hv => hash_field_attr_e false false (f_attrs f) Hv) Hvd).
        reflexivity.
    Qed.
  End HashE.

  (** ** PartialEq (and the Eq companion it emits) *)
  Section PartialEqE.
    Hypothesis Hk : keep TPartialEq = true.
    Hypothesis Hk2 : keep TEq = true.

    Lemma scan_peq_e {A} (build : meta -> outcome A) attrs : vattrs F tr attrs ->
      scan_attrs F (own_partial_eq tr') build tr' (rho attrs)
      = scan_attrs F (own_partial_eq tr) build tr attrs.
    Proof.
      apply (scan_rev F keep tr tr' Htr).
      - intros t H. unfold own_partial_eq in H. apply orb_true_iff in H as [H|H].
        + apply trait_eqb_eq in H. subst. exact Hk.
        + apply andb_true_iff in H as [_ H]. apply trait_eqb_eq in H. subst. exact Hk2.
      - intros t _. unfold own_partial_eq. rewrite (Htr TEq Hk2). reflexivity.
    Qed.

    Lemma peq_type_attr_e attrs : vattrs F tr attrs ->
      peq_type_attr F tr' (rho attrs) = peq_type_attr F tr attrs.
    Proof. intros Hv. unfold peq_type_attr. rewrite (scan_peq_e _ _ Hv). reflexivity. Qed.

    Lemma peq_field_attr_e ei em attrs : vattrs F tr attrs ->
      peq_field_attr F tr' ei em (rho attrs) = peq_field_attr F tr ei em attrs.
    Proof. intros Hv. unfold peq_field_attr. rewrite (scan_peq_e _ _ Hv). reflexivity. Qed.

    Lemma field_attrs_e fs : Forall (vfield F tr) fs ->
      field_attrs F tr' (map rf fs) = omap (map (on_fst rf)) (field_attrs F tr fs).
    Proof.
      unfold field_attrs. apply mapM_e. intros f Hv. cbn [map_field f_attrs].
      rewrite (peq_field_attr_e _ _ _ Hv).
      destruct (peq_field_attr F tr true true (f_attrs f)); reflexivity.
    Qed.

    Lemma peq_variant_e v : vvariant F tr v -> peq_variant F tr' (rv v) = peq_variant F tr v.
    Proof.
      intros [Hv Hfs]. unfold peq_variant. cbn [map_variant v_attrs v_fields v_name].
      rewrite (peq_type_attr_e _ Hv).
      destruct (peq_type_attr F tr (v_attrs v)); cbn [bind]; try reflexivity.
      destruct (v_fields v) as [fs|fs|]; cbn [map_fields fields_list] in *; [| |reflexivity].
      - rewrite (field_attrs_e _ Hfs).
        destruct (field_attrs F tr fs); cbn [omap bind]; try reflexivity.
        rewrite peq_arm_named_r, peq_types_r. reflexivity.
      - rewrite (field_attrs_e _ Hfs).
        destruct (field_attrs F tr fs); cbn [omap bind]; try reflexivity.
        rewrite peq_arm_unnamed_r, peq_types_r. reflexivity.
    Qed.

    Theorem expand_partial_eq_e d m : vinput F tr d ->
      expand_partial_eq F tr' (rd d) m = expand_partial_eq F tr d m.
    Proof.
      intros [Hva Hvd]. unfold expand_partial_eq. cbn [map_dinput d_data].
      destruct (d_data d) as [fs|vs|fs]; cbn [map_data vdata] in *.
      - destruct (build_tattr true false true m); cbn [bind]; try reflexivity.
        rewrite fields_list_map, (field_attrs_e _ Hvd).
        destruct (field_attrs F tr (fields_list fs)); cbn [omap bind]; try reflexivity.
        rewrite peq_types_r, peq_struct_body_r.
        change (d_generics (rd d)) with (d_generics d).
        rewrite (peq_items_r F keep tr tr' Htr Hk2). reflexivity.
      - destruct (build_tattr true false true m); cbn [bind]; try reflexivity.
        rewrite (mapM_e0 (vvariant F tr) (peq_variant F tr) (peq_variant F tr') rv vs
                   peq_variant_e Hvd).
        destruct (mapM (peq_variant F tr) vs); cbn [bind]; try reflexivity.
        change (d_generics (rd d)) with (d_generics d).
        rewrite (peq_items_r F keep tr tr' Htr Hk2). reflexivity.
      - destruct (build_tattr true true false m) as [ta|e|s|w]; cbn [bind]; try reflexivity.
        destruct (negb (ta_unsafe ta)); [reflexivity|].
        rewrite (mapM_e0 (vfield F tr) (fun f => peq_field_attr F tr false false (f_attrs f))
                   (fun f => peq_field_attr F tr' false false (f_attrs f)) rf fs
                   (fun f Hv => peq_field_attr_e false false (f_attrs f) Hv) Hvd).
        rewrite (coupling_e F keep tr tr' Htr TEq Hk2). reflexivity.
    Qed.
  End PartialEqE.
End HandlersE_a.
