(** C03 — both traits educed: partial_cmp(a, b) = Some(cmp(a, b)), with
    `<Self as Ord>::cmp` resolved to the emitted `cmp` itself. *)
From Educe.Proofs Require Export P_C03f.

(** The interpretation [I] gives meaning to the FIELD types' comparisons.  The
    companion PartialOrd impl calls `::core::cmp::Ord::cmp(self, other)` on
    the educed type itself; [tie I ito] resolves that call — a comparison of
    two struct / enum values — to the emitted `cmp` of the Ord impl [ito], and
    leaves everything else to [I]. *)
Definition tie (I : interp) (ito : item) : interp :=
  {| i_ne := i_ne I; i_eq := i_eq I;
     i_cmp := fun x y =>
                match x, y with
                | VData _ _, VData _ _ =>
                    match run_cmp I ito x y with Some r => r | None => Eq end
                | _, _ => i_cmp I x y
                end;
     i_partial_cmp := i_partial_cmp I;
     i_user := i_user I;
       i_size_of_self := i_size_of_self I;
       i_clone := i_clone I;
       i_clone_from := i_clone_from I;
       i_into := i_into I;
       i_default := i_default I |}.

(** the fields of the operands are values of other types (opaque to this impl) *)
Definition opaque (v : value) : bool := match v with VData _ _ => false | _ => true end.
Definition fields_opaque (v : value) : bool :=
  match v with VData _ xs => forallb (fun kv => opaque (snd kv)) xs | _ => false end.

Lemma lookup_opaque k xs x :
  forallb (fun kv : string * value => opaque (snd kv)) xs = true -> lookup k xs = Some x ->
  opaque x = true.
Proof.
  induction xs as [|[k' v] r IH]; cbn [forallb lookup snd]; intros H Hl; [discriminate Hl|].
  apply andb_true_iff in H as [Hv Hr]. destruct (String.eqb k k').
  - inversion Hl; subst. exact Hv.
  - apply IH; assumption.
Qed.

Lemma lex_cmp_tie I ito o xs ys :
  forallb (fun kv : string * value => opaque (snd kv)) xs = true ->
  lex_cmp (tie I ito) o xs ys = lex_cmp I o xs ys.
Proof.
  intros Hx. induction o as [|[k fa] r IH]; [reflexivity|]. cbn [lex_cmp].
  destruct (lookup k xs) as [x|] eqn:Ex; [|exact IH].
  destruct (lookup k ys) as [y|]; [|exact IH].
  assert (Hf : field_cmp (tie I ito) fa x y = field_cmp I fa x y).
  { unfold field_cmp. destruct (oa_method fa); [reflexivity|].
    pose proof (lookup_opaque k xs x Hx Ex) as Ho. destruct x; try reflexivity. discriminate Ho. }
  rewrite Hf, IH. reflexivity.
Qed.

Lemma spec_cmp_tie I ito c a b :
  fields_opaque a = true -> spec_cmp (tie I ito) c a b = spec_cmp I c a b.
Proof.
  intros Ha. destruct a as [| | | | | |va xs| | | | |]; try discriminate Ha.
  destruct b as [| | | | | |vb ys| | | | |]; try reflexivity.
  cbn [spec_cmp]. cbn [fields_opaque] in Ha.
  destruct (oc_get va c) as [[da la]|]; [|reflexivity].
  destruct (oc_get vb c) as [[db lb]|]; [|reflexivity].
  rewrite (lex_cmp_tie I ito _ xs ys Ha). reflexivity.
Qed.

Theorem partial_is_some_cmp_tied (I : interp) F traits d m items c a b :
  has_trait TPartialOrd F = true -> has_trait TPartialOrd traits = true ->
  data_wf (d_data d) ->
  expand_ord F traits d m = Ok items ->
  ord_cfg F (own_ord F traits) traits d = Ok c ->
  omethods_typed false I c ->
  ovalue_ok c a = true -> ovalue_ok c b = true ->
  fields_opaque a = true ->
  exists ito itp,
    items = [ito; itp] /\
    run_cmp (tie I ito) ito a b = spec_cmp I c a b /\
    run_partial_cmp (tie I ito) itp a b = option_map Some (run_cmp (tie I ito) ito a b).
Proof.
  intros HF HT Hwf He Hc Hm Ha Hb Hop.
  destruct (partial_is_some_cmp F traits d m items HF HT He)
    as [ito [itp [-> [_ [_ [_ [_ [Hsome _]]]]]]]].
  exists ito, itp. split; [reflexivity|].
  destruct (ord_cmp_spec I F traits d m [ito; itp] c a b Hwf He Hc Hm Ha Hb)
    as [it [rest [Heq Hrun]]]. inversion Heq; subst it rest; clear Heq.
  assert (Hm' : omethods_typed false (tie I ito) c) by exact Hm.
  destruct (ord_cmp_spec (tie I ito) F traits d m [ito; itp] c a b Hwf He Hc Hm' Ha Hb)
    as [it [rest [Heq Hrun']]]. inversion Heq; subst it rest; clear Heq.
  rewrite (spec_cmp_tie I ito c a b Hop) in Hrun'.
  split; [exact Hrun'|]. rewrite Hsome, Hrun'.
  destruct a as [| | | | | |va xs| | | | |]; try discriminate Ha.
  destruct b as [| | | | | |vb ys| | | | |]; try discriminate Hb.
  cbn [tie i_cmp]. rewrite Hrun.
  destruct (spec_cmp I c (VData va xs) (VData vb ys)) as [r|] eqn:Es; [reflexivity|].
  exfalso. cbn [ovalue_ok] in Ha, Hb. cbn [spec_cmp] in Es.
  destruct (oc_get va c) as [[da la]|]; [|discriminate Ha].
  destruct (oc_get vb c) as [[db lb]|]; [|discriminate Hb]. discriminate Es.
Qed.
