(** C13 — infrastructure: the monadic folds, the educe items of an element, what a
    successful attribute scan guarantees, and the decomposition of a successful [expand]. *)
From Educe.Spec Require Export Invalid.
From Educe.Model Require Export Driver.
From Educe.Proofs Require Export EvalLemmas.

(** * the outcome monad *)
Lemma foldM_app {A S} (f : S -> A -> outcome S) l1 l2 s :
  foldM f s (l1 ++ l2) = let* s' := foldM f s l1 in foldM f s' l2.
Proof.
  revert s. induction l1 as [|x r IH]; intros s; [reflexivity|].
  cbn [app foldM]. destruct (f s x); cbn [bind]; [apply IH|reflexivity..].
Qed.

(** a fold that succeeds preserves an invariant relating the state to the items consumed *)
Lemma foldM_hist {A S} (f : S -> A -> outcome S) (Q : S -> list A -> Prop) :
  (forall s l x s', Q s l -> f s x = Ok s' -> Q s' (l ++ [x])) ->
  forall l2 l1 s s', Q s l1 -> foldM f s l2 = Ok s' -> Q s' (l1 ++ l2).
Proof.
  intros Hstep. induction l2 as [|x r IH]; intros l1 s s' Hq H.
  - inversion H; subst. rewrite app_nil_r. exact Hq.
  - cbn [foldM] in H. inv_bind H.
    replace (l1 ++ x :: r) with ((l1 ++ [x]) ++ r) by (rewrite <- app_assoc; reflexivity).
    apply (IH (l1 ++ [x]) a s'); [|exact H]. exact (Hstep s l1 x a Hq Hb).
Qed.

Lemma foldM_flat {A B S} (f : S -> A -> outcome S) (g : S -> B -> outcome S) (sub : A -> list B) :
  (forall s x s', f s x = Ok s' -> foldM g s (sub x) = Ok s') ->
  forall l s s', foldM f s l = Ok s' -> foldM g s (flat_map sub l) = Ok s'.
Proof.
  intros H. induction l as [|x r IH]; intros s s' Hf; [exact Hf|].
  cbn [foldM] in Hf. inv_bind Hf. cbn [flat_map]. rewrite foldM_app, (H _ _ _ Hb). cbn [bind].
  exact (IH _ _ Hf).
Qed.

Lemma mapM_In {A B} (f : A -> outcome B) l r x :
  mapM f l = Ok r -> In x l -> exists y, f x = Ok y /\ In y r.
Proof.
  revert r. induction l as [|a l IH]; intros r H Hin; [destruct Hin|].
  cbn [mapM] in H. inv_bind H. inv_bind H. inversion H; subst.
  destruct Hin as [<-|Hin]; [exists a0; split; [exact Hb|left; reflexivity]|].
  destruct (IH _ Hb0 Hin) as [y [Hy Hi]]. exists y. split; [exact Hy|right; exact Hi].
Qed.

Lemma trait_eqb_eq a b : trait_eqb a b = true <-> a = b.
Proof. split; [destruct a, b; cbn; intros H; try discriminate H; reflexivity|intros <-; destruct a; reflexivity]. Qed.
Lemma trait_eqb_refl a : trait_eqb a a = true.
Proof. destruct a; reflexivity. Qed.
Lemma trait_eqb_sym a b : trait_eqb a b = trait_eqb b a.
Proof. destruct a, b; reflexivity. Qed.
Lemma has_trait_app t l1 l2 : has_trait t (l1 ++ l2) = has_trait t l1 || has_trait t l2.
Proof. unfold has_trait. apply existsb_app. Qed.
Lemma has_trait_In t l : has_trait t l = true <-> In t l.
Proof.
  unfold has_trait. rewrite existsb_exists. split.
  - intros [x [Hi He]]. apply trait_eqb_eq in He. subst. exact Hi.
  - intros Hi. exists t. split; [exact Hi|apply trait_eqb_refl].
Qed.

(** * the items of an element are what every scanner folds over *)
Lemma collect_attrs_metas F attrs acc tm :
  foldM (collect_attr F) acc attrs = Ok tm ->
  foldM (collect_meta F) acc (educe_metas attrs) = Ok tm.
Proof.
  unfold educe_metas. apply foldM_flat. intros s a s' H.
  unfold collect_attr in H. unfold attr_metas. destruct (is_educe a).
  - destruct (a_meta a) as [| |dl ts]; try discriminate H.
    destruct (parse_metas ts) as [ms| | |]; cbn [bind] in H; try discriminate H. exact H.
  - exact H.
Qed.

Lemma scan_attrs_metas {A} F own (build : meta -> outcome A) traits attrs o :
  scan_attrs F own build traits attrs = Ok o ->
  foldM (scan_meta F own build traits) None (educe_metas attrs) = Ok o.
Proof.
  unfold scan_attrs, educe_metas. apply foldM_flat. intros s a s' H.
  unfold scan_attr in H. unfold attr_metas. destruct (is_educe a).
  - destruct (a_meta a) as [| |dl ts]; try exact H.
    destruct (parse_metas ts) as [ms| | |]; cbn [bind] in H; try discriminate H. exact H.
  - exact H.
Qed.

Lemma into_collect_metas F traits attrs ms :
  into_collect F traits attrs = Ok ms ->
  foldM (into_collect_meta F traits) [] (educe_metas attrs) = Ok ms.
Proof.
  unfold into_collect, educe_metas. apply foldM_flat. intros s a s' H.
  unfold into_collect_attr in H. unfold attr_metas. destruct (is_educe a).
  - destruct (a_meta a) as [| |dl ts]; try exact H.
    destruct (parse_metas ts) as [ms'| | |]; cbn [bind] in H; try discriminate H. exact H.
  - exact H.
Qed.

(** * what a successful scan of one element guarantees *)

(** every item names an enabled trait that is educed on the type; at most one item is
    the scanner's own, and it was built *)
Definition scanned {A} F (own : trait -> bool) (build : meta -> outcome A) traits
           (ms : list meta) (o : option A) : Prop :=
  Forall (fun m => exists t, meta_trait F m = Some t /\ has_trait t traits = true) ms /\
  match filter (own_meta F own) ms with
  | [] => o = None
  | [m] => exists v, build m = Ok v /\ o = Some v
  | _ => False
  end.

Lemma scan_metas_scanned {A} F own (build : meta -> outcome A) traits ms o :
  foldM (scan_meta F own build traits) None ms = Ok o -> scanned F own build traits ms o.
Proof.
  intros H.
  apply (foldM_hist (scan_meta F own build traits)
                    (fun o l => scanned F own build traits l o)) with (l1 := []) (s := None) in H.
  - exact H.
  - clear. intros s l m s' [Hall Hown] H. unfold scan_meta in H. fold (meta_trait F m) in H.
    destruct (meta_trait F m) as [t|] eqn:Ht; [|discriminate H].
    destruct (has_trait t traits) eqn:Htr; cbn [negb] in H; [|discriminate H].
    split.
    + apply Forall_app. split; [exact Hall|]. constructor; [|constructor]. exists t. split; assumption.
    + rewrite filter_app. cbn [filter]. unfold own_meta at 2. rewrite Ht.
      destruct (own t) eqn:Ho.
      * destruct s as [x|]; [discriminate H|]. inv_bind H. inversion H; subst.
        destruct (filter (own_meta F own) l) as [|m1 [|m2 r]]; cbn [app].
        -- exists a. split; [exact Hb|reflexivity].
        -- destruct Hown as [v [_ Hv]]. discriminate Hv.
        -- destruct Hown.
      * inversion H; subst. rewrite app_nil_r. exact Hown.
  - split; [constructor|reflexivity].
Qed.

Lemma scan_attrs_scanned {A} F own (build : meta -> outcome A) traits attrs o :
  scan_attrs F own build traits attrs = Ok o -> scanned F own build traits (educe_metas attrs) o.
Proof. intros H. apply scan_metas_scanned, scan_attrs_metas, H. Qed.

(** the Into scanner validates the same way and returns the Into items *)
Lemma into_collect_scanned F traits attrs ms :
  into_collect F traits attrs = Ok ms ->
  Forall (fun m => exists t, meta_trait F m = Some t /\ has_trait t traits = true) (educe_metas attrs) /\
  ms = metas_of F TInto (educe_metas attrs).
Proof.
  intros H. apply into_collect_metas in H.
  apply (foldM_hist (into_collect_meta F traits)
           (fun s l => Forall (fun m => exists t, meta_trait F m = Some t /\ has_trait t traits = true) l /\
                       s = metas_of F TInto l)) with (l1 := []) (s := []) in H.
  - exact H.
  - clear. intros s l m s' [Hall Hs] H. unfold into_collect_meta in H. fold (meta_trait F m) in H.
    destruct (meta_trait F m) as [t|] eqn:Ht; [|discriminate H].
    destruct (has_trait t traits) eqn:Htr; cbn [negb] in H; [|discriminate H].
    split.
    + apply Forall_app. split; [exact Hall|]. constructor; [|constructor]. exists t. split; assumption.
    + unfold metas_of. rewrite filter_app. cbn [filter]. unfold names at 2. rewrite Ht.
      destruct (trait_eqb t TInto); inversion H; subst; [reflexivity|rewrite app_nil_r; reflexivity].
  - split; [constructor|reflexivity].
Qed.

(** * the type level: what a successful [collect] guarantees *)

Definition traits_of F (ms : list meta) : list trait :=
  flat_map (fun m => match meta_trait F m with Some t => [t] | None => [] end) ms.

Lemma traits_of_app F l1 l2 : traits_of F (l1 ++ l2) = traits_of F l1 ++ traits_of F l2.
Proof. unfold traits_of. apply flat_map_app. Qed.

Lemma has_trait_traits_of F t ms :
  has_trait t (traits_of F ms) = negb (is_nil (metas_of F t ms)).
Proof.
  induction ms as [|m r IH]; [reflexivity|].
  cbn [traits_of flat_map metas_of filter]. fold (traits_of F r). fold (metas_of F t r).
  unfold names. destruct (meta_trait F m) as [t'|]; cbn [app]; [|exact IH].
  unfold has_trait in *. cbn [existsb]. rewrite (trait_eqb_sym t t').
  destruct (trait_eqb t' t); cbn [orb is_nil negb]; [reflexivity|exact IH].
Qed.

Lemma dup_trait_snoc l t :
  dup_trait (l ++ [t]) = dup_trait l || (negb (trait_eqb t TInto) && has_trait t l).
Proof.
  induction l as [|x r IH]; cbn [app dup_trait].
  - cbn. rewrite andb_false_r. reflexivity.
  - rewrite IH, has_trait_app.
    assert (E1 : has_trait x [t] = trait_eqb x t) by (unfold has_trait; cbn; apply orb_false_r).
    assert (E2 : has_trait t (x :: r) = trait_eqb t x || has_trait t r) by reflexivity.
    rewrite E1, E2, (trait_eqb_sym t x).
    destruct (trait_eqb x t) eqn:E.
    + apply trait_eqb_eq in E. subst x.
      destruct (trait_eqb t TInto), (has_trait t r), (dup_trait r); reflexivity.
    + destruct (trait_eqb x TInto), (has_trait x r), (dup_trait r), (trait_eqb t TInto), (has_trait t r);
        reflexivity.
Qed.

Lemma tmap_get_none t tm : tmap_get t tm = None <-> has_trait t (map fst tm) = false.
Proof.
  induction tm as [|[k v] r IH]; cbn [tmap_get map fst]; [split; reflexivity|].
  unfold has_trait in *. cbn [existsb]. rewrite (trait_eqb_sym t k).
  destruct (trait_eqb k t); cbn [orb]; [split; discriminate|exact IH].
Qed.

Lemma tmap_get_app t tm k v :
  tmap_get t (tm ++ [(k, v)]) =
  match tmap_get t tm with Some x => Some x | None => if trait_eqb k t then Some v else None end.
Proof.
  induction tm as [|[k' v'] r IH]; cbn [app tmap_get]; [reflexivity|].
  destruct (trait_eqb k' t); [reflexivity|exact IH].
Qed.

Lemma tmap_get_push t k x tm :
  tmap_get t (tmap_push k x tm) =
  if trait_eqb k t then option_map (fun v => v ++ [x]) (tmap_get t tm) else tmap_get t tm.
Proof.
  induction tm as [|[k' v'] r IH]; cbn [tmap_push tmap_get].
  - destruct (trait_eqb k t); reflexivity.
  - destruct (trait_eqb k' k) eqn:E1; cbn [tmap_get].
    + apply trait_eqb_eq in E1. subst k'. destruct (trait_eqb k t); reflexivity.
    + destruct (trait_eqb k' t) eqn:E2.
      * apply trait_eqb_eq in E2. subst k'. rewrite trait_eqb_sym, E1. reflexivity.
      * exact IH.
Qed.

Lemma map_fst_push k x tm : map fst (tmap_push k x tm) = map fst tm.
Proof.
  induction tm as [|[k' v'] r IH]; [reflexivity|]. cbn [tmap_push].
  destruct (trait_eqb k' k); cbn [map fst]; [reflexivity|f_equal; exact IH].
Qed.

Definition get_spec F (t : trait) (ms : list meta) : option (list meta) :=
  match metas_of F t ms with [] => None | l => Some l end.

(** the invariant of the type-level collection *)
Definition collected F (tm : tmap) (ms : list meta) : Prop :=
  (forall m, In m ms -> unknown_trait F m = false) /\
  dup_trait (traits_of F ms) = false /\
  (forall t, tmap_get t tm = get_spec F t ms).

Lemma metas_of_snoc F t l m :
  metas_of F t (l ++ [m]) = metas_of F t l ++ (if names F t m then [m] else []).
Proof. unfold metas_of. rewrite filter_app. cbn [filter]. destruct (names F t m); reflexivity. Qed.

Lemma collect_metas_collected F ms tm :
  foldM (collect_meta F) [] ms = Ok tm -> collected F tm ms.
Proof.
  intros H.
  apply (foldM_hist (collect_meta F) (collected F)) with (l1 := []) (s := []) in H.
  - exact H.
  - clear. intros s l m s' [Hk [Hd Hg]] H. unfold collect_meta in H. fold (meta_trait F m) in H.
    destruct (meta_trait F m) as [t0|] eqn:Ht; [|discriminate H].
    assert (Hm : forall t, metas_of F t (l ++ [m]) =
                           metas_of F t l ++ (if trait_eqb t0 t then [m] else [])).
    { intros t. rewrite metas_of_snoc. unfold names. rewrite Ht. reflexivity. }
    split; [|split].
    + intros x Hx. apply in_app_or in Hx. destruct Hx as [Hx|[<-|[]]]; [exact (Hk x Hx)|].
      unfold unknown_trait. rewrite Ht. reflexivity.
    + rewrite traits_of_app. cbn [traits_of flat_map]. rewrite Ht. cbn [app].
      rewrite dup_trait_snoc, Hd. cbn [orb].
      rewrite has_trait_traits_of. specialize (Hg t0). unfold get_spec in Hg.
      destruct (tmap_get t0 s) as [v|] eqn:Hget.
      * destruct (trait_eqb t0 TInto); [reflexivity|discriminate H].
      * destruct (metas_of F t0 l); [cbn; apply andb_false_r|discriminate Hg].
    + intros t. unfold get_spec. rewrite Hm.
      destruct (tmap_get t0 s) as [v|] eqn:Hget.
      * destruct (trait_eqb t0 TInto) eqn:Ei; [|discriminate H]. inversion H; subst s'.
        rewrite tmap_get_push.
        destruct (trait_eqb t0 t) eqn:E.
        -- apply trait_eqb_eq in E. subst t. rewrite Hget. pose proof (Hg t0) as Hg0.
           rewrite Hget in Hg0. unfold get_spec in Hg0.
           destruct (metas_of F t0 l) as [|y r] eqn:Hmo; [discriminate Hg0|].
           inversion Hg0; subst v. cbn [option_map app]. reflexivity.
        -- rewrite app_nil_r. apply Hg.
      * inversion H; subst s'. rewrite tmap_get_app.
        destruct (trait_eqb t0 t) eqn:E.
        -- apply trait_eqb_eq in E. subst t. rewrite Hget.
           pose proof (Hg t0) as Hg0. rewrite Hget in Hg0. unfold get_spec in Hg0.
           destruct (metas_of F t0 l); [reflexivity|discriminate Hg0].
        -- rewrite app_nil_r. rewrite Hg. unfold get_spec. destruct (metas_of F t l); reflexivity.
  - split; [intros m []|]. split; [reflexivity|]. intros t. reflexivity.
Qed.

Lemma meta_trait_feature F m t : meta_trait F m = Some t -> has_trait t F = true.
Proof.
  unfold meta_trait, trait_from_path. destruct (get_ident (meta_path m)); [|discriminate].
  destruct (trait_of_name s) as [t'|]; [|discriminate].
  destruct (has_trait t' F) eqn:E; [|discriminate]. intros H; inversion H; subst. exact E.
Qed.

Lemma metas_of_In F t ms m : In m (metas_of F t ms) -> In m ms /\ meta_trait F m = Some t.
Proof.
  unfold metas_of. rewrite filter_In. intros [Hi Hn]. split; [exact Hi|].
  unfold names in Hn. destruct (meta_trait F m) as [t'|]; [|discriminate Hn].
  apply trait_eqb_eq in Hn. subst. reflexivity.
Qed.

(** * decomposition of a successful expansion *)

(** the trait list the handlers receive: same members as the traits written on the type *)
Definition traits_agree F (traits : list trait) (d : dinput) : Prop :=
  forall t, has_trait t traits = educed F t d.

Lemma run_handlers_ok F traits d tm hs acc its :
  foldM (run_handler F traits d tm) acc hs = Ok its ->
  forall t h, In (t, h) hs -> has_trait t F = true ->
  forall m r, tmap_get t tm = Some (m :: r) -> exists l, h F traits d m = Ok l.
Proof.
  revert acc. induction hs as [|[t0 h0] hs IH]; intros acc H t h Hin Hf m r Hg; [destruct Hin|].
  cbn [foldM] in H. inv_bind H. destruct Hin as [E|Hin].
  - inversion E; subst t0 h0. cbn [run_handler] in Hb. rewrite Hf, Hg in Hb.
    inv_bind Hb. exists a0. exact Hb0.
  - exact (IH _ H t h Hin Hf m r Hg).
Qed.

Lemma run_handlers_nil F traits d hs acc :
  foldM (run_handler F traits d []) acc hs = Ok acc.
Proof.
  induction hs as [|[t h] hs IH]; [reflexivity|]. cbn [foldM run_handler tmap_get].
  destruct (has_trait t F); cbn [bind]; exact IH.
Qed.

Theorem expand_ok_inv F d its :
  expand F d = Ok its ->
  exists traits,
    traits_agree F traits d /\
    (forall m, In m (type_metas d) -> unknown_trait F m = false) /\
    invalid_trait_twice F d = false /\
    (forall t h m, In (t, h) handlers -> type_meta F t d = Some m ->
                   exists l, h F traits d m = Ok l) /\
    (metas_of F TInto (type_metas d) <> [] ->
     exists l, expand_into F traits d (metas_of F TInto (type_metas d)) = Ok l) /\
    type_traits F d <> [].
Proof.
  intros H. unfold expand in H. inv_bind H. rename a into tm. inv_bind H. rename a into its1.
  inv_bind H. rename a into its2.
  apply collect_attrs_metas, collect_metas_collected in Hb. fold (type_metas d) in Hb.
  destruct Hb as [Hk [Hd Hg]].
  assert (Hagree : traits_agree F (map fst tm) d).
  { intros t. unfold educed, type_traits. fold (traits_of F (type_metas d)).
    rewrite has_trait_traits_of. specialize (Hg t). unfold get_spec in Hg.
    destruct (has_trait t (map fst tm)) eqn:E.
    - destruct (metas_of F t (type_metas d)); [|reflexivity].
      apply tmap_get_none in Hg. congruence.
    - apply tmap_get_none in E. rewrite E in Hg.
      destruct (metas_of F t (type_metas d)); [reflexivity|discriminate Hg]. }
  exists (map fst tm). split; [exact Hagree|]. split; [exact Hk|]. split; [exact Hd|].
  split; [|split].
  - intros t h m Hin Hm. unfold type_meta in Hm.
    destruct (metas_of F t (type_metas d)) as [|m' r] eqn:Hmo; [discriminate Hm|].
    inversion Hm; subst m'.
    assert (Hf : has_trait t F = true).
    { apply (meta_trait_feature F m). apply (metas_of_In F t (type_metas d)). rewrite Hmo. left. reflexivity. }
    apply (run_handlers_ok _ _ _ _ _ _ _ Hb0 t h Hin Hf m r).
    rewrite Hg. unfold get_spec. rewrite Hmo. reflexivity.
  - intros Hne. rewrite Hg in Hb1. unfold get_spec in Hb1.
    destruct (metas_of F TInto (type_metas d)) as [|m r] eqn:Hmo; [congruence|].
    assert (Hf : has_trait TInto F = true).
    { apply (meta_trait_feature F m). apply (metas_of_In F TInto (type_metas d)). rewrite Hmo. left. reflexivity. }
    rewrite Hf in Hb1. inv_bind Hb1. exists a. assumption.
  - intros Hnil. assert (Htm : tm = []).
    { destruct tm as [|[k v] r]; [reflexivity|]. exfalso.
      pose proof (Hagree k) as Ha. unfold educed in Ha. rewrite Hnil in Ha.
      cbn in Ha. rewrite trait_eqb_refl in Ha. discriminate Ha. }
    subst tm. rewrite run_handlers_nil in Hb0. inversion Hb0; subst. cbn in Hb1. inversion Hb1; subst.
    cbn in H. discriminate H.
Qed.
