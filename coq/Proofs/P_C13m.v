(** C13 — R11: a parameter the trait does not know. *)
From Educe.Proofs Require Export P_C13l.

Definition keys_ok (allowed : list string) (ms : list meta) : Prop :=
  forall p, In p ms -> exists k, param_key p = Some k /\ In k allowed.

Lemma run_params_keys {S} (h : S -> meta -> outcome (option S)) allowed ms s s' :
  (forall s m s', h s m = Ok (Some s') -> exists k, param_key m = Some k /\ In k allowed) ->
  run_params h s ms = Ok s' -> keys_ok allowed ms.
Proof.
  intros Hstep H p Hin. destruct (run_params_each _ _ _ _ _ H Hin) as [s1 [s2 Hs]]. exact (Hstep _ _ _ Hs).
Qed.

Lemma keys_ok_known t allowed ms :
  keys_ok allowed ms -> (forall k, In k allowed -> mem_str k (known_params t) = true) ->
  unknown_param_in t ms = false.
Proof.
  intros Hk Hincl. apply existsb_false. intros p Hin. destruct (Hk p Hin) as [k [Hp Ha]].
  rewrite Hp, (Hincl k Ha). reflexivity.
Qed.

Lemma keys_ok_nil allowed : keys_ok allowed [].
Proof. intros p []. Qed.

Ltac key_step Hp k :=
  exists k; split; [apply (param_is_key _ _ _ Hp); canon_names|cbn; tauto].

Lemma bound_param_key eb s m s' :
  bound_param eb s m = Ok (Some s') -> exists k, param_key m = Some k /\ In k ["bound"].
Proof.
  unfold bound_param. destruct (param_is m ["bound"]) eqn:Hp; [|discriminate]. intros _. key_step Hp "bound".
Qed.

Definition allowed_im (ei em : bool) : list string :=
  (if ei then ["ignore"] else []) ++ (if em then ["method"] else []).

Lemma im_param_key ei em s m s' :
  im_param ei em s m = Ok (Some s') -> exists k, param_key m = Some k /\ In k (allowed_im ei em).
Proof.
  unfold im_param, allowed_im. destruct (param_is m ["ignore"]) eqn:Hp.
  - destruct ei; [|discriminate]. intros _. key_step Hp "ignore".
  - destruct (param_is m ["method"]) eqn:Hq; [|discriminate]. destruct em; [|discriminate]. intros _.
    exists "method". split; [apply (param_is_key _ _ _ Hq); canon_names|]. apply in_or_app. right. left. reflexivity.
Qed.

Lemma ord_param_key ei em er s m s' :
  ord_param ei em er s m = Ok (Some s') ->
  exists k, param_key m = Some k /\ In k ["ignore"; "method"; "rank"].
Proof.
  unfold ord_param. destruct (param_is m ["ignore"]) eqn:Hp; [intros _; key_step Hp "ignore"|].
  destruct (param_is m ["method"]) eqn:Hq; [intros _; key_step Hq "method"|].
  destruct (param_is m ["rank"]) eqn:Hr; [intros _; key_step Hr "rank"|discriminate].
Qed.

Lemma debug_dt_param_key b s m s' :
  Expand_Debug.dt_param b s m = Ok (Some s') ->
  exists k, param_key m = Some k /\ In k ["name"; "named_field"; "bound"].
Proof.
  unfold Expand_Debug.dt_param. destruct (param_is m ["name"; "rename"]) eqn:Hp; [intros _; key_step Hp "name"|].
  destruct (param_is m ["named_field"]) eqn:Hq; [intros _; key_step Hq "named_field"|].
  destruct (param_is m ["bound"]) eqn:Hr; [intros _; key_step Hr "bound"|discriminate].
Qed.

Lemma debug_df_param_key a b c s m s' :
  Expand_Debug.df_param a b c s m = Ok (Some s') ->
  exists k, param_key m = Some k /\ In k ["name"; "ignore"; "method"].
Proof.
  unfold Expand_Debug.df_param. destruct (param_is m ["name"; "rename"]) eqn:Hp; [intros _; key_step Hp "name"|].
  destruct (param_is m ["ignore"]) eqn:Hq; [intros _; key_step Hq "ignore"|].
  destruct (param_is m ["method"]) eqn:Hr; [intros _; key_step Hr "method"|discriminate].
Qed.

Lemma default_dt_param_key a b c s m s' :
  Expand_Default.dt_param a b c s m = Ok (Some s') ->
  exists k, param_key m = Some k /\ In k ["new"; "expression"; "bound"].
Proof.
  unfold Expand_Default.dt_param. destruct (param_is m ["new"]) eqn:Hp; [intros _; key_step Hp "new"|].
  destruct (param_is m ["expression"; "expr"]) eqn:Hq; [intros _; key_step Hq "expression"|].
  destruct (param_is m ["bound"]) eqn:Hr; [intros _; key_step Hr "bound"|discriminate].
Qed.

Lemma default_df_param_key ee ty s m s' :
  Expand_Default.df_param ee ty s m = Ok (Some s') ->
  exists k, param_key m = Some k /\ In k ["expression"].
Proof.
  unfold Expand_Default.df_param. destruct (param_is m ["expression"; "expr"]) eqn:Hp; [|discriminate].
  intros _. key_step Hp "expression".
Qed.

(** * the builders *)
Lemma build_tattr_keys ef eu eb m x :
  build_tattr ef eu eb m = Ok x -> keys_ok ["bound"] (params (if eu then LUnsafe else LPlain) m).
Proof.
  unfold build_tattr. destruct m as [p|p v|p dl ts]; [intros _; apply keys_ok_nil| |].
  - intros _. destruct eu; apply keys_ok_nil.
  - intros H. inv_bind H. destruct a as [u ms]. inv_bind H.
    apply (run_params_keys _ ["bound"]) in Hb0; [|exact (bound_param_key eb)].
    destruct eu; cbn [params].
    + rewrite Hb. exact Hb0.
    + apply bind_ok in Hb. destruct Hb as [ms' [Hp Hq]]. inversion Hq; subst. rewrite Hp. exact Hb0.
Qed.

Lemma build_fattr_keys ei em m x : build_fattr ei em m = Ok x -> keys_ok (allowed_im ei em) (params LPlain m).
Proof.
  unfold build_fattr. destruct m as [p|p v|p dl ts]; [intros _; apply keys_ok_nil|intros _; apply keys_ok_nil|].
  intros H. inv_bind H. inv_bind H.
  apply (run_params_keys _ (allowed_im ei em)) in Hb0; [|exact (im_param_key ei em)].
  cbn [params]. rewrite Hb. exact Hb0.
Qed.

Lemma build_ofattr_keys ei em er r m x :
  build_ofattr ei em er r m = Ok x -> keys_ok ["ignore"; "method"; "rank"] (params LPlain m).
Proof.
  unfold build_ofattr. destruct m as [p|p v|p dl ts]; [intros _; apply keys_ok_nil|intros _; apply keys_ok_nil|].
  intros H. inv_bind H. inv_bind H.
  apply (run_params_keys _ ["ignore"; "method"; "rank"]) in Hb0; [|exact (ord_param_key ei em er)].
  cbn [params]. rewrite Hb. exact Hb0.
Qed.

Lemma debug_build_dtattr_keys b m x :
  Expand_Debug.build_dtattr b m = Ok x ->
  keys_ok ["name"; "named_field"; "bound"]
          (params (if Expand_Debug.tb_unsafe b then LUnsafe else LPlain) m).
Proof.
  unfold Expand_Debug.build_dtattr. destruct m as [p|p v|p dl ts]; [intros _; apply keys_ok_nil| |].
  - intros _. destruct (Expand_Debug.tb_unsafe b); apply keys_ok_nil.
  - intros H. inv_bind H. destruct a as [u ms]. inv_bind H.
    apply (run_params_keys _ ["name"; "named_field"; "bound"]) in Hb0; [|exact (debug_dt_param_key b)].
    destruct (Expand_Debug.tb_unsafe b); cbn [params].
    + rewrite Hb. exact Hb0.
    + apply bind_ok in Hb. destruct Hb as [ms' [Hp Hq]]. inversion Hq; subst. rewrite Hp. exact Hb0.
Qed.

Lemma debug_build_dfattr_keys a b c m x :
  Expand_Debug.build_dfattr a b c m = Ok x -> keys_ok ["name"; "ignore"; "method"] (params LPlain m).
Proof.
  unfold Expand_Debug.build_dfattr. destruct m as [p|p v|p dl ts]; [intros _; apply keys_ok_nil|intros _; apply keys_ok_nil|].
  intros H. inv_bind H. inv_bind H.
  apply (run_params_keys _ ["name"; "ignore"; "method"]) in Hb0; [|exact (debug_df_param_key a b c)].
  cbn [params]. rewrite Hb. exact Hb0.
Qed.

Lemma default_build_dtattr_keys a b c e m x :
  Expand_Default.build_dtattr a b c e m = Ok x -> keys_ok ["new"; "expression"; "bound"] (params LPlain m).
Proof.
  unfold Expand_Default.build_dtattr. destruct m as [p|p v|p dl ts]; [intros _; apply keys_ok_nil|intros _; apply keys_ok_nil|].
  intros H. inv_bind H. inv_bind H.
  apply (run_params_keys _ ["new"; "expression"; "bound"]) in Hb0; [|exact (default_dt_param_key b c e)].
  cbn [params]. rewrite Hb. exact Hb0.
Qed.

Lemma default_build_dfattr_keys a b ty m x :
  Expand_Default.build_dfattr a b ty m = Ok x -> keys_ok ["expression"] (params LPlain m).
Proof.
  unfold Expand_Default.build_dfattr. destruct m as [p|p v|p dl ts]; [intros _; apply keys_ok_nil|intros _; apply keys_ok_nil|].
  intros H. inv_bind H. inv_bind H.
  apply (run_params_keys _ ["expression"]) in Hb0; [|exact (default_df_param_key b ty)].
  cbn [params]. rewrite Hb. exact Hb0.
Qed.

Lemma into_type_meta_keys et acc m acc' : into_type_meta et acc m = Ok acc' -> keys_ok ["bound"] (params LType m).
Proof.
  unfold into_type_meta. destruct m as [p|p v|p dl ts]; [discriminate|discriminate|].
  destruct (negb et); [discriminate|]. intros H. inv_bind H. destruct a as [ty ms]. inv_bind H.
  apply (run_params_keys _ ["bound"]) in Hb0; [|exact (bound_param_key true)].
  cbn [params]. rewrite Hb. exact Hb0.
Qed.

Lemma into_field_meta_keys acc m acc' : into_field_meta acc m = Ok acc' -> keys_ok ["method"] (params LType m).
Proof.
  unfold into_field_meta. destruct m as [p|p v|p dl ts]; [discriminate|discriminate|].
  intros H. inv_bind H. destruct a as [ty ms]. inv_bind H.
  apply (run_params_keys _ (allowed_im false true)) in Hb0; [|exact (im_param_key false true)].
  cbn [params]. rewrite Hb. exact Hb0.
Qed.

Ltac known_incl :=
  let k := fresh "k" in let Hk := fresh "Hk" in
  intros k Hk; cbn in Hk; repeat (destruct Hk as [<-|Hk]; [reflexivity|]); destruct Hk.

Lemma path_params l m : is_path m = true -> params l m = [].
Proof. destruct m; [reflexivity|discriminate..]. Qed.

(** * below the type level *)
Lemma acc_of_known t pl m : acc_of t pl m -> unknown_param_in t (params (item_layout t) m) = false.
Proof.
  destruct t; cbn [acc_of item_layout]; intros H.
  - destruct pl; cbn in H.
    + destruct H as [named [x Hx]]. apply debug_build_dtattr_keys in Hx.
      eapply keys_ok_known; [exact Hx|known_incl].
    + destruct H as [en [x Hx]]. apply debug_build_dfattr_keys in Hx. eapply keys_ok_known; [exact Hx|known_incl].
    + destruct H as [x Hx]. apply debug_build_dfattr_keys in Hx. eapply keys_ok_known; [exact Hx|known_incl].
  - destruct pl; cbn in H.
    + destruct H as [x Hx]. apply build_tattr_keys in Hx. eapply keys_ok_known; [exact Hx|known_incl].
    + destruct H as [em [x Hx]]. apply build_fattr_keys in Hx. eapply keys_ok_known; [exact Hx|].
      destruct em; known_incl.
    + destruct H as [x Hx]. apply build_fattr_keys in Hx. eapply keys_ok_known; [exact Hx|known_incl].
  - destruct pl; cbn in H; [|destruct H|destruct H].
    destruct H as [x Hx]. apply build_tattr_keys in Hx. eapply keys_ok_known; [exact Hx|known_incl].
  - destruct pl; cbn in H; destruct H as [x Hx].
    + apply build_tattr_keys in Hx. eapply keys_ok_known; [exact Hx|known_incl].
    + apply build_fattr_keys in Hx. eapply keys_ok_known; [exact Hx|known_incl].
    + apply build_fattr_keys in Hx. eapply keys_ok_known; [exact Hx|known_incl].
  - destruct H as [H|H]; destruct pl; cbn in H; try destruct H as [x Hx]; try destruct H.
    + apply build_tattr_keys in Hx. eapply keys_ok_known; [exact Hx|known_incl].
    + apply build_fattr_keys in Hx. eapply keys_ok_known; [exact Hx|known_incl].
    + apply build_fattr_keys in Hx. eapply keys_ok_known; [exact Hx|known_incl].
    + apply build_tattr_keys in Hx. eapply keys_ok_known; [exact Hx|known_incl].
  - destruct pl; cbn in H; [| |destruct H].
    + destruct H as [x Hx]. apply build_tattr_keys in Hx. eapply keys_ok_known; [exact Hx|known_incl].
    + destruct H as [r [x Hx]]. apply build_ofattr_keys in Hx. eapply keys_ok_known; [exact Hx|known_incl].
  - destruct pl; cbn in H; [| |destruct H].
    + destruct H as [x Hx]. apply build_tattr_keys in Hx. eapply keys_ok_known; [exact Hx|known_incl].
    + destruct H as [r [x Hx]]. apply build_ofattr_keys in Hx. eapply keys_ok_known; [exact Hx|known_incl].
  - destruct pl; cbn in H; destruct H as [x Hx].
    + apply build_tattr_keys in Hx. eapply keys_ok_known; [exact Hx|known_incl].
    + apply build_fattr_keys in Hx. eapply keys_ok_known; [exact Hx|known_incl].
    + apply build_fattr_keys in Hx. eapply keys_ok_known; [exact Hx|known_incl].
  - destruct pl; cbn in H.
    + destruct H as [ef [x Hx]]. apply default_build_dtattr_keys in Hx. eapply keys_ok_known; [exact Hx|known_incl].
    + destruct H as [ef [ee [ty [x Hx]]]]. apply default_build_dfattr_keys in Hx. eapply keys_ok_known; [exact Hx|known_incl].
    + destruct H as [ef [ee [ty [x Hx]]]]. apply default_build_dfattr_keys in Hx. eapply keys_ok_known; [exact Hx|known_incl].
  - assert (Hp : is_path m = true) by (destruct pl; cbn in H; destruct H as [x Hx]; exact (deref_build_path _ _ _ Hx)).
    rewrite (path_params _ _ Hp). reflexivity.
  - assert (Hp : is_path m = true) by (destruct pl; cbn in H; destruct H as [x Hx]; exact (deref_build_path _ _ _ Hx)).
    rewrite (path_params _ _ Hp). reflexivity.
  - destruct pl; cbn in H; [destruct H| |]; destruct H as [a [a' Ha]]; apply into_field_meta_keys in Ha;
      (eapply keys_ok_known; [exact Ha|known_incl]).
Qed.

Theorem R11_item_unknown_param F d its :
  expand F d = Ok its -> known_gap F d = false -> invalid_item_unknown_param F d = false.
Proof.
  intros H Hgap. apply existsb_false. intros x Hin.
  destruct (items_accepted _ _ _ H Hgap x Hin) as [t [Ht [_ Ha]]]. rewrite Ht.
  exact (acc_of_known _ _ _ Ha).
Qed.

(** * the type level *)
Lemma handler_builds_known F traits d t h m l :
  In (t, h) handlers -> h F traits d m = Ok l ->
  unknown_param_in t (params (type_layout d t) m) = false.
Proof.
  intros Hin H. cbn in Hin.
  repeat (destruct Hin as [E|Hin]; [inversion E; subst t h; clear E|]); [..|destruct Hin];
    unfold type_layout, is_union; cbn [unsafe_trait andb].
  - unfold Expand_Debug.expand_debug in H. destruct (d_data d); inv_bind H;
      apply debug_build_dtattr_keys in Hb; (eapply keys_ok_known; [exact Hb|known_incl]).
  - unfold expand_clone in H. inv_bind H. apply build_tattr_keys in Hb.
    rewrite andb_false_r. eapply keys_ok_known; [exact Hb|known_incl].
  - unfold expand_copy in H. inv_bind H. apply build_tattr_keys in Hb.
    rewrite andb_false_r. eapply keys_ok_known; [exact Hb|known_incl].
  - unfold expand_partial_eq in H. destruct (d_data d); inv_bind H;
      apply build_tattr_keys in Hb; (eapply keys_ok_known; [exact Hb|known_incl]).
  - unfold expand_eq in H. inv_bind H. apply build_tattr_keys in Hb.
    rewrite andb_false_r. eapply keys_ok_known; [exact Hb|known_incl].
  - unfold expand_partial_ord in H. rewrite andb_false_r.
    destruct (has_trait TOrd F && has_trait TOrd traits).
    + inv_bind H. apply build_tattr_keys in Hb. eapply keys_ok_known; [exact Hb|known_incl].
    + destruct (d_data d); [| |discriminate H]; inv_bind H; apply build_tattr_keys in Hb;
        (eapply keys_ok_known; [exact Hb|known_incl]).
  - unfold expand_ord in H. rewrite andb_false_r.
    destruct (d_data d); [| |discriminate H]; inv_bind H; apply build_tattr_keys in Hb;
      (eapply keys_ok_known; [exact Hb|known_incl]).
  - unfold expand_hash in H. destruct (d_data d); inv_bind H;
      apply build_tattr_keys in Hb; (eapply keys_ok_known; [exact Hb|known_incl]).
  - unfold Expand_Default.expand_default in H. inv_bind H. unfold Expand_Default.default_plan in Hb.
    inv_bind Hb. apply default_build_dtattr_keys in Hb0. rewrite andb_false_r.
    eapply keys_ok_known; [exact Hb0|known_incl].
  - unfold expand_deref in H. inv_bind H. unfold deref_analyse in Hb. rewrite andb_false_r.
    destruct (d_data d); [| |discriminate Hb]; inv_bind Hb; apply deref_build_path in Hb0;
      rewrite (path_params _ _ Hb0); reflexivity.
  - unfold expand_deref_mut in H. inv_bind H. unfold deref_analyse in Hb. rewrite andb_false_r.
    destruct (d_data d); [| |discriminate Hb]; inv_bind Hb; apply deref_build_path in Hb0;
      rewrite (path_params _ _ Hb0); reflexivity.
Qed.

Theorem R11_type_unknown_param F d its :
  expand F d = Ok its -> invalid_type_unknown_param F d = false.
Proof.
  intros H. apply existsb_false. intros m Hin.
  destruct (meta_trait F m) as [t|] eqn:Ht; [|reflexivity].
  destruct (trait_eqb t TInto) eqn:Ei.
  - apply trait_eqb_eq in Ei. subst t.
    destruct (expand_ok_inv _ _ _ H) as [traits [_ [_ [_ [_ [Hi _]]]]]].
    assert (Hmo : In m (metas_of F TInto (type_metas d))).
    { unfold metas_of. apply filter_In. split; [exact Hin|]. unfold names. rewrite Ht. reflexivity. }
    assert (Hne : metas_of F TInto (type_metas d) <> []) by (intros E; rewrite E in Hmo; destruct Hmo).
    destruct (Hi Hne) as [l Hl]. destruct (expand_into_build _ _ _ _ _ Hl) as [targets Ht'].
    unfold into_build_type in Ht'. destruct (foldM_In_step _ _ _ _ _ Ht' Hmo) as [s1 [s2 Hs]].
    apply into_type_meta_keys in Hs. cbn [type_layout]. eapply keys_ok_known; [exact Hs|known_incl].
  - assert (Hni : t <> TInto) by (intros ->; discriminate Ei).
    destruct (type_meta_built _ _ _ _ _ H Hin Ht Hni) as [traits [h [l [Hh Hl]]]].
    exact (handler_builds_known _ _ _ _ _ _ _ Hh Hl).
Qed.

Theorem R11_unknown_param F d its :
  expand F d = Ok its -> known_gap F d = false -> invalid_unknown_param F d = false.
Proof.
  intros H Hg. unfold invalid_unknown_param.
  rewrite (R11_type_unknown_param _ _ _ H), (R11_item_unknown_param _ _ _ H Hg). reflexivity.
Qed.
