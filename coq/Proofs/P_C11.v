(** C11 — consequences of the handler theorems of P_C12b-e: the automatic
    where-clause, "applies exactly when", unconstrained parameters, the
    companion impls, and the one known deviation (Copy next to a Clone with
    custom methods). *)
From Educe.Proofs Require Export P_C12f.

(** ** "applies exactly when": a direct reading of the automatic predicates *)
Theorem auto_applies_iff (env : tenv) (r : breq) :
  preds_hold env (auto_preds r) = true <->
  (forall ty, In ty (rq_types r) -> env ty (rq_trait r) = true) /\
  (forall s, In s (rq_supers r) -> env [I "Self"] s = true).
Proof.
  unfold preds_hold, auto_preds. rewrite forallb_app, andb_true_iff, !forallb_forall. split.
  - intros [H1 H2]. split.
    + intros ty Hin. apply (H1 (ty, rq_trait r)). apply in_map_iff. exists ty. split; [reflexivity|exact Hin].
    + intros s Hin. apply (H2 ([I "Self"], s)). apply in_map_iff. exists s. split; [reflexivity|exact Hin].
  - intros [H1 H2]. split.
    + intros p Hin. apply in_map_iff in Hin as [ty [<- Hin]]. cbn [fst snd]. apply H1. exact Hin.
    + intros p Hin. apply in_map_iff in Hin as [s [<- Hin]]. cbn [fst snd]. apply H2. exact Hin.
Qed.

Lemma spec_added_auto g bt tys sup :
  spec_added g {| rq_mode := BAuto; rq_trait := bt; rq_types := tys; rq_supers := sup |}
  = map pred_toks (auto_preds {| rq_mode := BAuto; rq_trait := bt; rq_types := tys; rq_supers := sup |}).
Proof. reflexivity. Qed.

(** ** parameters that occur in no delegated type are not constrained *)
Lemma mentions_app n a b : mentions n (a ++ b) = mentions n a || mentions n b.
Proof. unfold mentions. apply existsb_app. Qed.

(** no automatic predicate bounds a type that mentions the parameter *)
Theorem auto_lhs_free (n : string) (r : breq) :
  n <> "Self" ->
  (forall ty, In ty (rq_types r) -> mentions n ty = false) ->
  forall p, In p (auto_preds r) -> mentions n (fst p) = false.
Proof.
  intros Hself Hty p Hin. unfold auto_preds in Hin. apply in_app_or in Hin as [Hin|Hin].
  - apply in_map_iff in Hin as [ty [<- Hin]]. cbn [fst]. apply Hty. exact Hin.
  - apply in_map_iff in Hin as [s [<- Hin]]. cbn [fst mentions existsb tt_mentions I].
    rewrite orb_false_r. apply String.eqb_neq. congruence.
Qed.

(** and it occurs nowhere in the added predicates when the trait paths do not mention it either *)
Theorem auto_tokens_free (n : string) (r : breq) :
  n <> "Self" ->
  (forall ty, In ty (rq_types r) -> mentions n ty = false) ->
  mentions n (rq_trait r) = false ->
  (forall s, In s (rq_supers r) -> mentions n s = false) ->
  forall p, In p (map pred_toks (auto_preds r)) -> mentions n p = false.
Proof.
  intros Hself Hty Htr Hsup p Hin. apply in_map_iff in Hin as [[lhs rhs] [<- Hin]].
  pose proof (auto_lhs_free n r Hself Hty _ Hin) as Hl. cbn [fst] in Hl.
  unfold pred_toks. cbn [fst snd]. rewrite !mentions_app, Hl. cbn [mentions existsb tt_mentions P orb].
  unfold auto_preds in Hin. apply in_app_or in Hin as [Hin|Hin].
  - apply in_map_iff in Hin as [ty [Heq _]]. inversion Heq; subst. exact Htr.
  - apply in_map_iff in Hin as [s [Heq Hin]]. inversion Heq; subst. apply Hsup. exact Hin.
Qed.

(** on the emitted items: what follows the user's predicates never mentions such a parameter *)
Theorem handlers_unused_free t h :
  In (t, h) handlers ->
  forall F traits d m items tys n,
    h F traits d m = Ok items ->
    type_mode t F traits d m = Ok BAuto ->
    delegated_of t F traits d m = Ok tys ->
    n <> "Self" ->
    (forall ty, In ty tys -> mentions n ty = false) ->
    mentions n (required_trait t F traits d) = false ->
    (forall s, In s (supers_of t F traits) -> mentions n s = false) ->
    forall it p, In it items ->
                 In p (skipn (List.length (g_where (d_generics d))) (g_where (i_generics it))) ->
                 mentions n p = false.
Proof.
  intros Hin F traits d m items tys n Hrun Hmode Hty Hself Hfree Htr Hsup it p Hit Hp.
  destruct (handlers_header t h Hin F traits d m items Hrun) as [b [tys' [Hb [Hty' Hall]]]].
  rewrite Hmode in Hb. inversion Hb; subst b. rewrite Hty in Hty'. inversion Hty'; subst tys'.
  rewrite Forall_forall in Hall. destruct (Hall it Hit) as [_ _ _ Hw _].
  rewrite Hw, skipn_app, Nat.sub_diag, skipn_all in Hp. cbn [skipn app] in Hp.
  unfold spec_added, req_of in Hp. cbn [rq_mode] in Hp.
  eapply auto_tokens_free; [exact Hself| | | |exact Hp]; cbn [rq_types rq_trait rq_supers]; assumption.
Qed.

(** ** companions: the very same generics record as the primary *)
Definition companion_of (primary comp : item) (tr : toks) : Prop :=
  i_generics comp = i_generics primary /\ i_self comp = i_self primary /\
  i_trait comp = Some tr /\ i_members comp = [] /\ i_attrs comp = [].

Lemma peq_items_shape traits F d g body :
  exists it, i_trait it = Some (core_path ["cmp"; "PartialEq"]) /\ i_generics it = g /\
    if educed TEq F traits
    then exists it', peq_items traits F d g body = [it; it'] /\
                     companion_of it it' (core_path ["cmp"; "Eq"])
    else peq_items traits F d g body = [it].
Proof.
  unfold peq_items, educed. destruct (has_trait TEq F && has_trait TEq traits).
  - eexists. split; [|split]. 3: { eexists. split; [reflexivity|]. repeat split. } all: reflexivity.
  - eexists. split; [|split]. 3: reflexivity. all: reflexivity.
Qed.

Theorem eq_companion F traits d m items :
  expand_partial_eq F traits d m = Ok items ->
  exists it, i_trait it = Some (core_path ["cmp"; "PartialEq"]) /\
    if educed TEq F traits
    then exists it', items = [it; it'] /\ companion_of it it' (core_path ["cmp"; "Eq"])
    else items = [it].
Proof.
  unfold expand_partial_eq. intros H.
  destruct (d_data d) as [fs|vs|ufs].
  - apply bind_ok in H as [ta [_ H]]. apply bind_ok in H as [l [_ H]]. inversion H; subst items.
    match goal with |- context [peq_items ?a ?b ?c ?g ?bd] =>
      destruct (peq_items_shape a b c g bd) as [it [H1 [_ H2]]] end.
    exists it. split; assumption.
  - apply bind_ok in H as [ta [_ H]]. apply bind_ok in H as [l [_ H]]. inversion H; subst items.
    match goal with |- context [peq_items ?a ?b ?c ?g ?bd] =>
      destruct (peq_items_shape a b c g bd) as [it [H1 [_ H2]]] end.
    exists it. split; assumption.
  - apply bind_ok in H as [ta [_ H]]. destruct (negb (ta_unsafe ta)); [discriminate H|].
    apply bind_ok in H as [u [_ H]]. inversion H; subst items. unfold educed.
    destruct (has_trait TEq F && has_trait TEq traits).
    + eexists. split. 2: { eexists. split; [reflexivity|]. repeat split. } reflexivity.
    + eexists. split. 2: reflexivity. reflexivity.
Qed.

Lemma clone_items_shape (ce : bool) d g body fb :
  exists it, i_trait it = Some (core_path ["clone"; "Clone"]) /\ i_generics it = g /\
    if ce then exists it', clone_items ce d g body fb = [it; it'] /\
                           companion_of it it' (core_path ["marker"; "Copy"])
    else clone_items ce d g body fb = [it].
Proof.
  unfold clone_items. destruct ce.
  - eexists. split; [|split]. 3: { eexists. split; [reflexivity|]. repeat split. } all: reflexivity.
  - eexists. split; [|split]. 3: reflexivity. all: reflexivity.
Qed.

Theorem copy_companion F traits d m items :
  expand_clone F traits d m = Ok items ->
  exists it, i_trait it = Some (core_path ["clone"; "Clone"]) /\
    if educed TCopy F traits
    then exists it', items = [it; it'] /\ companion_of it it' (core_path ["marker"; "Copy"])
    else items = [it].
Proof.
  unfold expand_clone, educed. intros H. apply bind_ok in H as [ta [_ H]].
  set (ce := has_trait TCopy F && has_trait TCopy traits) in *.
  destruct (d_data d) as [fs|vs|ufs].
  - apply bind_ok in H as [l [_ H]]. inversion H; subst items. destruct ce.
    + destruct (clone_items_shape true d (clone_generics ta true d (clone_types l)) deref_self [])
        as [it [H1 [_ H2]]]. exists it. split; assumption.
    + destruct (clone_items_shape false d (clone_generics ta false d (clone_types l))
                  (clone_struct_body fs l) (clone_from_struct_body fs l)) as [it [H1 [_ H2]]].
      exists it. split; assumption.
  - apply bind_ok in H as [cvs [_ H]]. inversion H; subst items.
    destruct (negb (has_custom_method cvs) && ce).
    + destruct (clone_items_shape ce d (clone_generics ta true d (flat_map (fun v => clone_types (cv_plan v)) cvs))
                  deref_self []) as [it [H1 [_ H2]]]. exists it. split; assumption.
    + destruct (clone_items_shape ce d (clone_generics ta false d (flat_map (fun v => clone_types (cv_plan v)) cvs))
                  (clone_enum_body cvs) (clone_from_enum_body cvs)) as [it [H1 [_ H2]]].
      exists it. split; assumption.
  - apply bind_ok in H as [l [_ H]]. inversion H; subst items.
    destruct (clone_items_shape ce d (clone_generics ta true d (map (fun f => f_ty f) ufs)) deref_self [])
      as [it [H1 [_ H2]]]. exists it. split; assumption.
Qed.

Theorem partial_ord_companion F traits d m items :
  expand_ord F traits d m = Ok items ->
  exists it, i_trait it = Some (core_path ["cmp"; "Ord"]) /\
    if educed TPartialOrd F traits
    then exists it', items = [it; it'] /\
                     i_generics it' = i_generics it /\ i_self it' = i_self it /\
                     i_trait it' = Some (core_path ["cmp"; "PartialOrd"]) /\
                     i_members it' = [MFn inline_attr "partial_cmp" partial_cmp_sig ["self"; "other"]
                                          partial_ord_via_ord_body]
    else items = [it].
Proof.
  unfold expand_ord, educed. intros H.
  assert (Hshape : forall g body, exists it, i_trait it = Some (core_path ["cmp"; "Ord"]) /\
            if has_trait TPartialOrd F && has_trait TPartialOrd traits
            then exists it', ord_items F traits d g body = [it; it'] /\
                     i_generics it' = i_generics it /\ i_self it' = i_self it /\
                     i_trait it' = Some (core_path ["cmp"; "PartialOrd"]) /\
                     i_members it' = [MFn inline_attr "partial_cmp" partial_cmp_sig ["self"; "other"]
                                          partial_ord_via_ord_body]
            else ord_items F traits d g body = [it]).
  { intros g body. unfold ord_items.
    destruct (has_trait TPartialOrd F && has_trait TPartialOrd traits).
    - eexists. split. 2: { eexists. split; [reflexivity|]. repeat split. } reflexivity.
    - eexists. split. 2: reflexivity. reflexivity. }
  destruct (d_data d) as [fs|vs|ufs]; [| |discriminate H].
  - apply bind_ok in H as [ta [_ H]]. apply bind_ok in H as [p [_ H]]. inversion H; subst items.
    apply Hshape.
  - apply bind_ok in H as [ta [_ H]]. apply bind_ok in H as [ty [_ H]].
    apply bind_ok in H as [vps [_ H]]. inversion H; subst items. apply Hshape.
Qed.

(** ** the Copy companion and the property text ("for Copy every field") *)
Lemma clone_view_false_no_method F traits fs : forall l,
  mapM (clone_view F traits false) fs = Ok l -> forallb (fun b => negb (bf_method b)) l = true.
Proof.
  induction fs as [|f fs IH]; intros l H; cbn [mapM] in H.
  - inversion H; reflexivity.
  - apply bind_ok in H as [y [Hy H]]. apply bind_ok in H as [ys [Hys H]]. inversion H; subst l.
    cbn [forallb]. rewrite (IH ys Hys), andb_true_r.
    unfold clone_view in Hy. apply bind_ok in Hy as [mm [Hm Hy]]. inversion Hy; subst y.
    rewrite (clone_field_attr_no_method _ _ _ _ Hm). reflexivity.
Qed.

Lemma clone_view_types F traits em fs : forall l,
  mapM (clone_view F traits em) fs = Ok l ->
  map bf_ty l = map f_ty fs /\ Forall (fun b => bf_ignored b = false) l.
Proof.
  induction fs as [|f fs IH]; intros l H; cbn [mapM] in H.
  - inversion H; split; [reflexivity|constructor].
  - apply bind_ok in H as [y [Hy H]]. apply bind_ok in H as [ys [Hys H]]. inversion H; subst l.
    destruct (IH ys Hys) as [H1 H2].
    unfold clone_view in Hy. apply bind_ok in Hy as [mm [Hm Hy]]. inversion Hy; subst y.
    cbn [map]. rewrite H1. split; [reflexivity|]. constructor; [reflexivity|exact H2].
Qed.

Lemma delegated_all l :
  Forall (fun b => bf_ignored b = false) l -> forallb (fun b => negb (bf_method b)) l = true ->
  delegated l = map bf_ty l.
Proof.
  unfold delegated. induction 1 as [|b l Hb _ IH]; intros Hm; [reflexivity|].
  cbn [forallb] in Hm. apply andb_true_iff in Hm as [Hm1 Hm2]. cbn [filter].
  unfold delegates at 1. rewrite Hb, Hm1. cbn [negb andb map]. f_equal. apply IH. exact Hm2.
Qed.

(** whenever clone is the bitwise copy, the bound is `Copy` on EVERY field type *)
Lemma clone_by_copy_every F traits d l :
  clone_fields F traits d = Ok l -> clone_by_copy F traits d l = true ->
  clone_delegated d l = every_field_type (d_data d).
Proof.
  unfold clone_fields, clone_by_copy, clone_delegated, every_field_type. intros Hl Hc.
  destruct (clone_view_types _ _ _ _ _ Hl) as [Hty Hig]. rewrite <- Hty.
  destruct (is_union (d_data d)); [reflexivity|]. cbn [orb] in Hc.
  apply andb_true_iff in Hc as [_ Hc]. apply delegated_all; assumption.
Qed.

(** the deviation arises only for an enum with a custom method *)
Lemma not_by_copy_known F traits d l :
  clone_fields F traits d = Ok l -> educed TCopy F traits = true ->
  clone_by_copy F traits d l = false -> known_copy_bound F traits d.
Proof.
  intros Hl Hce Hc. split; [exact Hce|]. unfold clone_by_copy in Hc. rewrite Hce in Hc.
  apply orb_false_iff in Hc as [Hu Hc]. cbn [andb] in Hc.
  pose proof Hl as Hl0. unfold clone_fields in Hl. rewrite Hce in Hl. cbn [negb] in Hl.
  destruct (d_data d) as [fs|vs|ufs] eqn:Ed; [|exists vs, l|discriminate Hu].
  - rewrite (clone_view_false_no_method _ _ _ _ Hl) in Hc. discriminate Hc.
  - split; [reflexivity|]. split; [exact Hl0|].
    rewrite forallb_negb_existsb in Hc. apply negb_false_iff in Hc. exact Hc.
Qed.

Theorem copy_companion_bound F traits d m items :
  expand_clone F traits d m = Ok items -> educed TCopy F traits = true ->
  exists ta l it it',
    items = [it; it'] /\ companion_of it it' (core_path ["marker"; "Copy"]) /\
    build_tattr true false true m = Ok ta /\ clone_fields F traits d = Ok l /\
    ((** as the property says: `Copy` required of every field type *)
     (clone_by_copy F traits d l = true /\
      i_generics it' = push_preds (d_generics d)
                         (bound_preds (ta_bound ta) (d_generics d) (core_path ["marker"; "Copy"])
                            (every_field_type (d_data d)) []))
     \/
     (** the deviation: the Clone impl's clause — `Clone`, and only of the fields without a method *)
     (known_copy_bound F traits d /\
      i_generics it' = push_preds (d_generics d)
                         (bound_preds (ta_bound ta) (d_generics d) (core_path ["clone"; "Clone"])
                            (delegated l) []))).
Proof.
  intros H Hce.
  destruct (clone_analysis F traits d m items H) as [ta [l [Hta [Hl [Hall _]]]]].
  destruct (copy_companion F traits d m items H) as [it [_ Hshape]]. rewrite Hce in Hshape.
  destruct Hshape as [it' [-> Hcomp]]. exists ta, l, it, it'.
  split; [reflexivity|]. split; [exact Hcomp|]. split; [exact Hta|]. split; [exact Hl|].
  inversion Hall as [|? ? _ Hall']; subst. inversion Hall' as [|? ? [Hg _] _]; subst.
  destruct (clone_by_copy F traits d l) eqn:Ec.
  - left. split; [reflexivity|]. rewrite Hg. rewrite (clone_by_copy_every F traits d l Hl Ec). reflexivity.
  - right. pose proof (not_by_copy_known F traits d l Hl Hce Ec) as Hk. split; [exact Hk|].
    rewrite Hg. unfold clone_delegated.
    destruct Hk as [_ [vs [l' [Ed _]]]]. rewrite Ed. reflexivity.
Qed.
