(** C01 / acceptance -- the bare flag `#[educe(Trait)]` on a type whose variants and fields carry
    no attribute is accepted (handler by handler, with the exact side conditions). *)
From Educe.Proofs Require Export P_C01e.

Definition plain_fields (l : list field) : Prop := forall f, In f l -> f_attrs f = [].
Definition plain_variants (vs : list variant) : Prop :=
  forall v, In v vs -> v_attrs v = [] /\ plain_fields (fields_list (v_fields v)).
Definition plain_data (d : data) : Prop :=
  match d with
  | DStruct fs => plain_fields (fields_list fs)
  | DEnum vs => plain_variants vs
  | DUnion fs => plain_fields fs
  end.

Lemma mapM_all {A B} (f : A -> outcome B) (g : A -> B) l :
  (forall x, In x l -> f x = Ok (g x)) -> mapM f l = Ok (map g l).
Proof.
  induction l as [|x l IH]; intros H; cbn [mapM map]; [reflexivity|].
  rewrite (H x (or_introl eq_refl)). cbn [bind]. rewrite IH; [reflexivity|].
  intros y Hy. apply H. right. exact Hy.
Qed.

Lemma mapM_all_ex {A B} (f : A -> outcome B) l :
  (forall x, In x l -> exists y, f x = Ok y) -> exists r, mapM f l = Ok r.
Proof.
  induction l as [|x l IH]; intros H; cbn [mapM]; [eexists; reflexivity|].
  destruct (H x (or_introl eq_refl)) as [y Hy]. rewrite Hy. cbn [bind].
  destruct IH as [r Hr]; [intros z Hz; apply H; right; exact Hz|]. rewrite Hr. eexists; reflexivity.
Qed.

Ltac ok := eexists; reflexivity.

(** * PartialEq, Hash, Clone, Eq, Copy *)
Lemma accept_partial_eq F traits d p :
  plain_data (d_data d) -> (forall fs, d_data d <> DUnion fs) ->
  exists items, expand_partial_eq F traits d (MPath p) = Ok items.
Proof.
  intros Hp Hu. unfold expand_partial_eq. destruct (d_data d) as [fs|vs|fs].
  - cbn [build_tattr bind]. unfold field_attrs.
    rewrite (mapM_all _ (fun f => (f, fattr_default))); [ok|].
    intros f Hf. rewrite (Hp f Hf). reflexivity.
  - cbn [build_tattr bind].
    destruct (mapM_all_ex (peq_variant F traits) vs) as [r Hr]; [|rewrite Hr; ok].
    intros v Hv. destruct (Hp v Hv) as [Ha Hfs]. unfold peq_variant. rewrite Ha.
    cbn [peq_type_attr scan_attrs foldM bind]. unfold field_attrs.
    destruct (v_fields v) as [l|l|]; cbn [fields_list] in Hfs; [| |ok];
      (rewrite (mapM_all _ (fun f => (f, fattr_default))); [ok|]);
      intros f Hf; rewrite (Hfs f Hf); reflexivity.
  - exfalso. apply (Hu fs). reflexivity.
Qed.

Lemma accept_hash F traits d p :
  plain_data (d_data d) -> (forall fs, d_data d <> DUnion fs) ->
  exists items, expand_hash F traits d (MPath p) = Ok items.
Proof.
  intros Hp Hu. unfold expand_hash. destruct (d_data d) as [fs|vs|fs].
  - cbn [build_tattr bind]. unfold hash_field_attrs.
    rewrite (mapM_all _ (fun f => (f, fattr_default))); [ok|].
    intros f Hf. rewrite (Hp f Hf). reflexivity.
  - cbn [build_tattr bind].
    destruct (mapM_all_ex (hash_variant F traits) (indexed vs)) as [r Hr]; [|rewrite Hr; ok].
    intros [vi v] Hv. apply in_indexed in Hv. destruct (Hp v Hv) as [Ha Hfs]. unfold hash_variant.
    rewrite Ha. cbn [hash_type_attr scan_attrs foldM bind]. unfold hash_field_attrs.
    rewrite (mapM_all _ (fun f => (f, fattr_default))); [ok|].
    intros f Hf. rewrite (Hfs f Hf). reflexivity.
  - exfalso. apply (Hu fs). reflexivity.
Qed.

Lemma accept_clone F traits d p :
  plain_data (d_data d) -> exists items, expand_clone F traits d (MPath p) = Ok items.
Proof.
  intros Hp. unfold expand_clone. cbn [build_tattr bind]. destruct (d_data d) as [fs|vs|fs].
  - unfold clone_field_attrs. rewrite (mapM_all _ (fun f => (f, None))); [ok|].
    intros f Hf. rewrite (Hp f Hf). reflexivity.
  - destruct (mapM_all_ex (clone_variant F traits) vs) as [r Hr]; [|rewrite Hr; ok].
    intros v Hv. destruct (Hp v Hv) as [Ha Hfs]. unfold clone_variant. rewrite Ha.
    cbn [clone_variant_attr scan_attrs foldM bind]. unfold clone_field_attrs.
    rewrite (mapM_all _ (fun f => (f, None))); [ok|].
    intros f Hf. rewrite (Hfs f Hf). reflexivity.
  - unfold clone_field_attrs. rewrite (mapM_all _ (fun f => (f, None))); [ok|].
    intros f Hf. rewrite (Hp f Hf). reflexivity.
Qed.

Lemma all_field_types_plain F own traits d :
  plain_data d -> exists tys, all_field_types F own traits d = Ok tys.
Proof.
  intros Hp. unfold all_field_types. destruct d as [fs|vs|fs].
  - rewrite (mapM_all _ (fun f => f_ty f)); [ok|]. intros f Hf. rewrite (Hp f Hf). reflexivity.
  - match goal with |- context [mapM ?g vs] => destruct (mapM_all_ex g vs) as [r Hr] end;
      [|rewrite Hr; ok].
    intros v Hv. destruct (Hp v Hv) as [Ha Hfs]. rewrite Ha.
    cbn [marker_variant_attr scan_attrs foldM bind].
    rewrite (mapM_all _ (fun f => f_ty f)); [ok|]. intros f Hf. rewrite (Hfs f Hf). reflexivity.
  - rewrite (mapM_all _ (fun f => f_ty f)); [ok|]. intros f Hf. rewrite (Hp f Hf). reflexivity.
Qed.

Lemma accept_eq F traits d p :
  plain_data (d_data d) -> exists items, expand_eq F traits d (MPath p) = Ok items.
Proof.
  intros Hp. unfold expand_eq. cbn [build_tattr bind].
  destruct (has_trait TPartialEq F && has_trait TPartialEq traits); [ok|].
  destruct (all_field_types_plain F TEq traits (d_data d) Hp) as [tys Ht]. rewrite Ht. ok.
Qed.

Lemma accept_copy F traits d p :
  plain_data (d_data d) -> exists items, expand_copy F traits d (MPath p) = Ok items.
Proof.
  intros Hp. unfold expand_copy. cbn [build_tattr bind].
  destruct (has_trait TClone F && has_trait TClone traits); [ok|].
  destruct (all_field_types_plain F TCopy traits (d_data d) Hp) as [tys Ht]. rewrite Ht. ok.
Qed.

(** * PartialOrd / Ord : the default ranks `isize::MIN + index` are pairwise different *)
Lemma rank_mem_false {A} k (m : list (Z * A)) :
  Forall (fun kt => fst kt <> k) m -> rank_mem k m = false.
Proof.
  induction 1 as [|[k' x] m Hk _ IH]; [reflexivity|]. cbn [rank_mem fst] in *.
  rewrite IH, orb_false_r. apply Z.eqb_neq. intros E. apply Hk. symmetry. exact E.
Qed.

Lemma rank_insert_Forall {A} (P : Z * A -> Prop) k x (m : list (Z * A)) :
  P (k, x) -> Forall P m -> Forall P (rank_insert k x m).
Proof.
  intros Hk. induction 1 as [|[k' y] m Hy Hm IH]; cbn [rank_insert]; [repeat constructor; exact Hk|].
  destruct (Z.ltb k k'); constructor; try assumption. constructor; assumption.
Qed.

Definition ranks_below (k : nat) (p : fplan) : Prop :=
  Forall (fun kt : Z * ofield => exists j, j < k /\ fst kt = default_rank j) (fp_sorted p).

Lemma plan_fields_from_plain F own traits : forall l k p,
  plain_fields l -> ranks_below k p ->
  exists p', foldM (plan_field F own traits) p (index_from k l) = Ok p'.
Proof.
  induction l as [|f l IH]; intros k p Hp Hr; cbn [index_from foldM]; [ok|].
  unfold plan_field at 1. unfold ord_field_attr. rewrite (Hp f (or_introl eq_refl)).
  cbn [scan_attrs foldM bind oa_ignore oa_rank].
  rewrite rank_mem_false.
  - cbn [bind]. apply IH; [intros g Hg; apply Hp; right; exact Hg|].
    unfold ranks_below. cbn [fp_sorted]. apply rank_insert_Forall.
    + exists k. split; [lia|reflexivity].
    + eapply Forall_impl; [|exact Hr]. intros kt [j [Hj Hk]]. exists j. split; [lia|exact Hk].
  - eapply Forall_impl; [|exact Hr]. intros kt [j [Hj Hk]]. rewrite Hk. unfold default_rank. lia.
Qed.

Lemma plan_fields_plain F own traits fs :
  plain_fields fs -> exists p, plan_fields F own traits fs = Ok p.
Proof.
  intros Hp. unfold plan_fields, indexed. apply plan_fields_from_plain; [exact Hp|constructor].
Qed.

Lemma plan_variants_plain F own traits vs :
  plain_variants vs -> exists vps, mapM (plan_variant F own traits) vs = Ok vps.
Proof.
  intros Hp. apply mapM_all_ex. intros v Hv. destruct (Hp v Hv) as [Ha Hfs]. unfold plan_variant.
  rewrite Ha. cbn [ord_variant_attr scan_attrs foldM bind].
  destruct (v_fields v) as [l|l|]; cbn [fields_list] in Hfs; [| |ok];
    destruct (plan_fields_plain F own traits l Hfs) as [p Hpl]; rewrite Hpl; ok.
Qed.

Lemma accept_partial_ord F traits d p :
  plain_data (d_data d) ->
  match d_data d with
  | DStruct _ => True
  | DEnum vs => exists ds, discriminant_values vs = Ok ds
  | DUnion _ => False
  end ->
  exists items, expand_partial_ord F traits d (MPath p) = Ok items.
Proof.
  intros Hp Hs. unfold expand_partial_ord.
  destruct (has_trait TOrd F && has_trait TOrd traits); [ok|].
  destruct (d_data d) as [fs|vs|fs]; [| |destruct Hs]; cbn [build_tattr bind].
  - destruct (plan_fields_plain F (trait_eqb TPartialOrd) traits _ Hp) as [pl Hpl]. rewrite Hpl. ok.
  - destruct Hs as [ds Hds]. rewrite Hds. cbn [bind].
    destruct (plan_variants_plain F (trait_eqb TPartialOrd) traits vs Hp) as [vps Hv]. rewrite Hv. ok.
Qed.

Lemma accept_ord F traits d p :
  plain_data (d_data d) ->
  match d_data d with
  | DStruct _ => True
  | DEnum vs => exists ds, discriminant_values vs = Ok ds
  | DUnion _ => False
  end ->
  exists items, expand_ord F traits d (MPath p) = Ok items.
Proof.
  intros Hp Hs. unfold expand_ord.
  destruct (d_data d) as [fs|vs|fs]; [| |destruct Hs]; cbn [build_tattr bind].
  - destruct (plan_fields_plain F (own_ord F traits) traits _ Hp) as [pl Hpl]. rewrite Hpl. ok.
  - destruct Hs as [ds Hds]. rewrite Hds. cbn [bind].
    destruct (plan_variants_plain F (own_ord F traits) traits vs Hp) as [vps Hv]. rewrite Hv. ok.
Qed.

(** an enum without explicit discriminants has discriminant values *)
Lemma discr_values_implicit : forall vs c,
  (forall v, In v vs -> v_discr v = None) -> exists ds, discr_values_from c vs = Ok ds.
Proof.
  induction vs as [|v vs IH]; intros c H; cbn [discr_values_from]; [ok|].
  rewrite (H v (or_introl eq_refl)). cbn [bind].
  destruct (IH (if (c =? i128_max)%Z then i128_max else (c + 1)%Z)) as [ds Hds];
    [intros w Hw; apply H; right; exact Hw|]. rewrite Hds. ok.
Qed.

(** * Debug *)
Lemma debug_field_attrs_plain F traits b fs :
  plain_fields fs ->
  debug_field_attrs F traits b fs = Ok (indexed (map (fun f => (f, Expand_Debug.dfattr_default)) fs)).
Proof.
  intros Hp. unfold debug_field_attrs.
  rewrite (mapM_all _ (fun f => (f, Expand_Debug.dfattr_default))); [reflexivity|].
  intros f Hf. rewrite (Hp f Hf). reflexivity.
Qed.

Lemma accept_debug F traits d p :
  plain_data (d_data d) ->
  match d_data d with DStruct _ => True | DEnum vs => vs <> [] | DUnion _ => False end ->
  exists items, expand_debug F traits d (MPath p) = Ok items.
Proof.
  intros Hp Hs. unfold expand_debug. destruct (d_data d) as [fs|vs|fs]; [| |destruct Hs].
  - cbn [Expand_Debug.build_dtattr tb_flag bind Expand_Debug.dtattr_default Expand_Debug.dt_name
         tb_name0 tname_ident Expand_Debug.dt_named_field tb_named_field0].
    rewrite (debug_field_attrs_plain F traits _ _ Hp). cbn [bind is_some negb andb].
    rewrite andb_false_r. ok.
  - cbn [Expand_Debug.build_dtattr tb_flag bind Expand_Debug.dtattr_default Expand_Debug.dt_name
         tb_name0 tname_ident].
    destruct (mapM_all_ex (debug_variant F traits None) vs) as [r Hr].
    + intros v Hv. destruct (Hp v Hv) as [Ha Hfs]. unfold debug_variant. rewrite Ha.
      cbn [debug_variant_attr scan_attrs foldM bind Expand_Debug.dtattr_default Expand_Debug.dt_name
           tb_name0 tname_ident name_string is_some Expand_Debug.dt_named_field tb_named_field0].
      destruct (v_fields v) as [l|l|]; cbn [fields_list] in Hfs; [| |ok];
        rewrite (debug_field_attrs_plain F traits _ _ Hfs); cbn [bind]; rewrite andb_false_r; ok.
    + rewrite Hr. cbn [bind]. pose proof (mapM_ok_length _ _ _ Hr) as Hlen.
      destruct r as [|x r]; [destruct vs; [contradiction|discriminate Hlen]|]. ok.
Qed.

(** * Default *)
Lemma default_field_value_plain F traits f :
  f_attrs f = [] -> default_field_value F traits f = Ok (DVDefault (f_ty f)).
Proof. intros H. unfold default_field_value, default_field_attr. rewrite H. reflexivity. Qed.

Lemma default_fields_body_plain F traits p fs :
  plain_fields (fields_list fs) -> exists b, default_fields_body F traits p fs = Ok b.
Proof.
  intros Hp. unfold default_fields_body. destruct fs as [l|l|]; cbn [fields_list] in Hp; [| |ok].
  - rewrite (mapM_all _ (fun f => (field_name f, DVDefault (f_ty f)))); [ok|].
    intros f Hf. rewrite (default_field_value_plain F traits f (Hp f Hf)). reflexivity.
  - rewrite (mapM_all _ (fun f => DVDefault (f_ty f))); [ok|].
    intros f Hf. apply (default_field_value_plain F traits f (Hp f Hf)).
Qed.

Lemma accept_default F traits d p :
  plain_data (d_data d) ->
  match d_data d with
  | DStruct _ => True
  | DEnum vs => exists v, vs = [v]
  | DUnion fs => exists f, fs = [f]
  end ->
  exists items, expand_default F traits d (MPath p) = Ok items.
Proof.
  intros Hp Hs. unfold expand_default, default_plan.
  cbn [Expand_Default.build_dtattr bind dt_expr]. destruct (d_data d) as [fs|vs|fs].
  - destruct (default_fields_body_plain F traits RSelf fs Hp) as [b Hb]. rewrite Hb. ok.
  - destruct Hs as [v ->]. destruct (Hp v (or_introl eq_refl)) as [Ha Hfs].
    cbn [select_variant]. unfold default_variant_attr. rewrite Ha.
    cbn [scan_attrs foldM bind].
    destruct (default_fields_body_plain F traits (RSelfV (v_name v)) (v_fields v) Hfs) as [b Hb].
    rewrite Hb. ok.
  - destruct Hs as [f ->]. cbn [select_field]. unfold default_field_attr.
    rewrite (Hp f (or_introl eq_refl)). ok.
Qed.

(** * Deref / DerefMut *)
Lemma deref_select_single F own traits f :
  f_attrs f = [] -> deref_select F own traits [f] = Ok (0, f).
Proof. intros H. unfold deref_select, deref_field_flag. rewrite H. reflexivity. Qed.

Lemma accept_deref_analyse F own traits d p :
  plain_data (d_data d) ->
  match d_data d with
  | DStruct fs => exists f, fields_list fs = [f]
  | DEnum vs => vs <> [] /\ forall v, In v vs -> exists f, fields_list (v_fields v) = [f]
  | DUnion _ => False
  end ->
  exists pl, deref_analyse F own traits d (MPath p) = Ok pl.
Proof.
  intros Hp Hs. unfold deref_analyse. destruct (d_data d) as [fs|vs|fs]; [| |destruct Hs].
  - destruct Hs as [f Hf]. rewrite Hf. cbn [deref_build bind].
    rewrite (deref_select_single F own traits f); [ok|]. apply Hp. rewrite Hf. left. reflexivity.
  - destruct Hs as [Hne Hone]. cbn [deref_build bind].
    destruct (mapM_all_ex (deref_variant F own traits) vs) as [r Hr].
    + intros v Hv. destruct (Hp v Hv) as [Ha Hfs]. destruct (Hone v Hv) as [f Hf].
      unfold deref_variant, deref_variant_attr. rewrite Ha. cbn [scan_attrs foldM bind].
      assert (Hsel : deref_select F own traits (fields_list (v_fields v)) = Ok (0, f)).
      { rewrite Hf. apply deref_select_single. apply Hfs. rewrite Hf. left. reflexivity. }
      destruct (v_fields v) as [l|l|]; cbn [fields_list] in *; [| |discriminate Hf];
        rewrite Hsel; ok.
    + rewrite Hr. cbn [bind]. pose proof (mapM_ok_length _ _ _ Hr) as Hlen.
      destruct r as [|x r]; [destruct vs; [contradiction|discriminate Hlen]|]. ok.
Qed.

Lemma accept_deref F traits d p :
  plain_data (d_data d) ->
  match d_data d with
  | DStruct fs => exists f, fields_list fs = [f]
  | DEnum vs => vs <> [] /\ forall v, In v vs -> exists f, fields_list (v_fields v) = [f]
  | DUnion _ => False
  end ->
  exists items, expand_deref F traits d (MPath p) = Ok items.
Proof.
  intros Hp Hs. unfold expand_deref.
  destruct (accept_deref_analyse F TDeref traits d p Hp Hs) as [pl Hpl]. rewrite Hpl. ok.
Qed.

Lemma accept_deref_mut F traits d p :
  plain_data (d_data d) ->
  match d_data d with
  | DStruct fs => exists f, fields_list fs = [f]
  | DEnum vs => vs <> [] /\ forall v, In v vs -> exists f, fields_list (v_fields v) = [f]
  | DUnion _ => False
  end ->
  exists items, expand_deref_mut F traits d (MPath p) = Ok items.
Proof.
  intros Hp Hs. unfold expand_deref_mut.
  destruct (accept_deref_analyse F TDerefMut traits d p Hp Hs) as [pl Hpl]. rewrite Hpl. ok.
Qed.

(** * the whole macro: `#[educe(Trait)]` alone on a plain type *)
Definition educe_flag (name : string) : attr :=
  {| a_path := ["educe"]; a_meta := AMList Paren [I name] |}.

(** when the bare flag of a trait is accepted *)
Definition flag_accepted (t : trait) (d : data) : Prop :=
  match t with
  | TClone | TCopy | TEq => True
  | TPartialEq | THash => match d with DUnion _ => False | _ => True end    (* unions need `unsafe` *)
  | TDebug => match d with DStruct _ => True | DEnum vs => vs <> [] | DUnion _ => False end
  | TPartialOrd | TOrd =>
      match d with
      | DStruct _ => True
      | DEnum vs => exists ds, discriminant_values vs = Ok ds
      | DUnion _ => False
      end
  | TDefault =>
      match d with
      | DStruct _ => True
      | DEnum vs => exists v, vs = [v]            (* several variants: one must be marked *)
      | DUnion fs => exists f, fs = [f]
      end
  | TDeref | TDerefMut =>
      match d with
      | DStruct fs => exists f, fields_list fs = [f]
      | DEnum vs => vs <> [] /\ forall v, In v vs -> exists f, fields_list (v_fields v) = [f]
      | DUnion _ => False
      end
  | TInto => False                                 (* `Into` needs a target: `Into(Type)` *)
  end.

Lemma handler_accepts F traits d t h p :
  In (t, h) handlers -> plain_data (d_data d) -> flag_accepted t (d_data d) ->
  exists items, h F traits d (MPath p) = Ok items.
Proof.
  intros Hin Hp Hs. unfold handlers in Hin. cbn [In] in Hin.
  repeat (destruct Hin as [Hin|Hin]; [inversion Hin; subst t h; clear Hin|]); [..|destruct Hin];
    cbn [flag_accepted] in Hs.
  - apply accept_debug; assumption.
  - apply accept_clone; assumption.
  - apply accept_copy; assumption.
  - apply accept_partial_eq; [assumption|]. intros fs E. rewrite E in Hs. exact Hs.
  - apply accept_eq; assumption.
  - apply accept_partial_ord; assumption.
  - apply accept_ord; assumption.
  - apply accept_hash; [assumption|]. intros fs E. rewrite E in Hs. exact Hs.
  - apply accept_default; assumption.
  - apply accept_deref; assumption.
  - apply accept_deref_mut; assumption.
Qed.

(** a handler that runs alone emits at least one impl *)
Lemma handler_nonempty F d t h m items :
  In (t, h) handlers -> h F [t] d m = Ok items -> items <> [].
Proof.
  intros Hin H. unfold handlers in Hin. cbn [In] in Hin.
  repeat (destruct Hin as [Hin|Hin]; [inversion Hin; subst t h; clear Hin|]); [..|destruct Hin].
  - unfold expand_debug in H. destruct (d_data d).
    + inv_bind H. inv_bind H. destruct (_ && _); [discriminate H|]. inversion H. discriminate.
    + inv_bind H. inv_bind H. destruct (_ && _); [discriminate H|]. inversion H. discriminate.
    + inv_bind H. destruct (negb _); [discriminate H|]. inv_bind H. inversion H. discriminate.
  - unfold expand_clone in H. inv_bind H. destruct (d_data d); inv_bind H; inversion H;
      unfold clone_items; repeat match goal with |- context [if ?c then _ else _] => destruct c end;
      discriminate.
  - unfold expand_copy in H. inv_bind H. cbn [has_trait existsb trait_eqb orb andb] in H.
    rewrite andb_false_r in H. inv_bind H. inversion H. discriminate.
  - unfold expand_partial_eq in H. destruct (d_data d).
    + inv_bind H. inv_bind H. inversion H. discriminate.
    + inv_bind H. inv_bind H. inversion H. discriminate.
    + inv_bind H. destruct (negb _); [discriminate H|]. inv_bind H. inversion H. discriminate.
  - unfold expand_eq in H. inv_bind H. cbn [has_trait existsb trait_eqb orb andb] in H.
    rewrite andb_false_r in H. inv_bind H. inversion H. discriminate.
  - unfold expand_partial_ord in H. cbn [has_trait existsb trait_eqb orb andb] in H.
    rewrite andb_false_r in H. destruct (d_data d); [| |discriminate H].
    + inv_bind H. inv_bind H. inversion H. discriminate.
    + inv_bind H. inv_bind H. inv_bind H. inversion H. discriminate.
  - unfold expand_ord in H. destruct (d_data d); [| |discriminate H].
    + inv_bind H. inv_bind H. inversion H. discriminate.
    + inv_bind H. inv_bind H. inv_bind H. inversion H. discriminate.
  - unfold expand_hash in H. destruct (d_data d).
    + inv_bind H. inv_bind H. inversion H. discriminate.
    + inv_bind H. inv_bind H. inversion H. discriminate.
    + inv_bind H. destruct (negb _); [discriminate H|]. inv_bind H. inversion H. discriminate.
  - unfold expand_default in H. inv_bind H. inversion H. discriminate.
  - unfold expand_deref in H. inv_bind H. inversion H. destruct a; discriminate.
  - unfold expand_deref_mut in H. inv_bind H. inversion H. destruct a; discriminate.
Qed.

Lemma parse_flag t :
  parse_metas [I (trait_name t)] = Ok [MPath {| mp_lead := false; mp_segs := [trait_name t] |}].
Proof. destruct t; vm_compute; reflexivity. Qed.

Lemma trait_from_flag F t :
  has_trait t F = true ->
  trait_from_path F {| mp_lead := false; mp_segs := [trait_name t] |} = Some t.
Proof.
  intros H. unfold trait_from_path. cbn [get_ident mp_lead mp_segs].
  replace (trait_of_name (trait_name t)) with (Some t) by (destruct t; reflexivity).
  rewrite H. reflexivity.
Qed.

Lemma tmap_get_single t t' (ms : list meta) :
  tmap_get t' [(t, ms)] = if trait_eqb t t' then Some ms else None.
Proof. reflexivity. Qed.

Lemma trait_eqb_refl t : trait_eqb t t = true.
Proof. destruct t; reflexivity. Qed.

Lemma trait_eqb_eq a b : trait_eqb a b = true -> a = b.
Proof. destruct a, b; try discriminate; reflexivity. Qed.

(** the fold over the handlers, only one trait being requested *)
Lemma handlers_single F d t m : forall hs acc,
  NoDup (map fst hs) ->
  (forall h, In (t, h) hs -> exists its, h F [t] d m = Ok its) ->
  exists r, foldM (run_handler F [t] d [(t, [m])]) acc hs = Ok r /\
            (forall h its, In (t, h) hs -> has_trait t F = true -> h F [t] d m = Ok its -> r = acc ++ its).
Proof.
  induction hs as [|[t' h'] hs IH]; intros acc Hnd Hacc; cbn [foldM].
  - exists acc. split; [reflexivity|]. intros h its [].
  - cbn [map fst] in Hnd. inversion Hnd as [|? ? Hnotin Hnd']; subst.
    unfold run_handler at 1. rewrite tmap_get_single.
    destruct (trait_eqb t t') eqn:Et.
    + apply trait_eqb_eq in Et. subst t'.
      destruct (Hacc h' (or_introl eq_refl)) as [its Hits].
      destruct (has_trait t F) eqn:Ef.
      * rewrite Hits. cbn [bind].
        destruct (IH (acc ++ its) Hnd') as [r [Hr Hrest]];
          [intros h Hh; apply Hacc; right; exact Hh|].
        exists r. split; [exact Hr|]. intros h its' [E|Hin] _ Hh.
        -- inversion E; subst h. rewrite Hits in Hh. inversion Hh; subst its'.
           (* no later handler is for [t]: the rest of the fold leaves the accumulator alone *)
           clear - Hr Hnotin. revert Hr. generalize (acc ++ its). intros a Hr.
           revert a Hr. induction hs as [|[t2 h2] hs IHh]; intros a Hr; cbn [foldM] in Hr.
           ++ inversion Hr. reflexivity.
           ++ unfold run_handler at 1 in Hr. rewrite tmap_get_single in Hr.
              destruct (trait_eqb t t2) eqn:E2.
              ** apply trait_eqb_eq in E2. subst t2. exfalso. apply Hnotin. left. reflexivity.
              ** assert (Hr' : foldM (run_handler F [t] d [(t, [m])]) a hs = Ok r)
                   by (destruct (has_trait t2 F); exact Hr).
                 apply IHh; [intros Hc; apply Hnotin; right; exact Hc|exact Hr'].
        -- exfalso. apply Hnotin. apply in_map_iff. exists (t, h). split; [reflexivity|exact Hin].
      * cbn [bind]. destruct (IH acc Hnd') as [r [Hr Hrest]];
          [intros h Hh; apply Hacc; right; exact Hh|].
        exists r. split; [exact Hr|]. intros h its' _ Hf. discriminate Hf.
    + assert (Hstep : (if has_trait t' F then Ok acc else Ok acc) = @Ok (list item) acc)
        by (destruct (has_trait t' F); reflexivity).
      rewrite Hstep. cbn [bind].
      destruct (IH acc Hnd') as [r [Hr Hrest]].
      * intros h Hh. apply Hacc. right. exact Hh.
      * exists r. split; [exact Hr|]. intros h its [E|Hin] Hf Hh.
        -- inversion E; subst t'. rewrite trait_eqb_refl in Et. discriminate Et.
        -- apply (Hrest h its Hin Hf Hh).
Qed.

Theorem expand_accepts_flag F d t :
  has_trait t F = true ->
  d_attrs d = [educe_flag (trait_name t)] ->
  plain_data (d_data d) -> flag_accepted t (d_data d) ->
  exists items, expand F d = Ok items.
Proof.
  intros Hf Ha Hp Hs.
  assert (Hni : t <> TInto) by (intros ->; exact Hs).
  set (m := MPath {| mp_lead := false; mp_segs := [trait_name t] |}).
  assert (Htm : foldM (collect_attr F) [] (d_attrs d) = Ok [(t, [m])]).
  { rewrite Ha. cbn [foldM]. unfold collect_attr at 1. cbn [is_educe educe_flag a_path a_meta String.eqb Ascii.eqb Bool.eqb].
    rewrite parse_flag. cbn [bind foldM]. unfold collect_meta. cbn [meta_path].
    rewrite (trait_from_flag F t Hf). reflexivity. }
  assert (Hin : exists h, In (t, h) handlers).
  { clear - Hs. destruct t; try (exfalso; exact Hs);
      (eexists; unfold handlers; cbn [In]; eauto 12). }
  destruct Hin as [h Hin].
  assert (Hnd : NoDup (map fst handlers)).
  { unfold handlers. cbn [map fst]. repeat constructor; cbn [In]; intuition discriminate. }
  destruct (handlers_single F d t m handlers [] Hnd) as [r [Hr Hrest]].
  { intros h' Hh'.
    apply (handler_accepts F [t] d t h' {| mp_lead := false; mp_segs := [trait_name t] |} Hh' Hp Hs). }
  destruct (handler_accepts F [t] d t h {| mp_lead := false; mp_segs := [trait_name t] |} Hin Hp Hs)
    as [its Hits]. fold m in Hits.
  pose proof (Hrest h its Hin Hf Hits) as Er. cbn [app] in Er. subst r.
  unfold expand. rewrite Htm. cbn [bind map fst]. rewrite Hr. cbn [bind].
  rewrite tmap_get_single.
  replace (trait_eqb t TInto) with false by (destruct t; try reflexivity; contradiction).
  cbn [bind]. pose proof (handler_nonempty F d t h m its Hin Hits) as Hne.
  destruct its as [|it its]; [contradiction|]. ok.
Qed.
