(** C07 — top-level theorems: the emitted `clone` computes [spec_clone], the
    emitted (or provided) `clone_from` leaves `self = source.clone()`, the
    Copy shortcut and the Copy impl. *)
From Educe.Proofs Require Export P_C07b.

(** ** decimal rendering is injective (keys of tuple fields are distinct) *)
Definition digit_val (c : ascii) : nat :=
  match c with
  | "0" => 0 | "1" => 1 | "2" => 2 | "3" => 3 | "4" => 4
  | "5" => 5 | "6" => 6 | "7" => 7 | "8" => 8 | "9" => 9 | _ => 0
  end%char.
Fixpoint num (s : string) (a : nat) : nat :=
  match s with
  | EmptyString => a
  | String c r => num r (a * 10 + digit_val c)
  end.

Lemma append_assoc_str (a b c : string) : (a ^^ b) ^^ c = a ^^ (b ^^ c).
Proof. induction a as [|x a IH]; cbn; [reflexivity|]. rewrite IH. reflexivity. Qed.

Lemma num_app s1 s2 a : num (s1 ^^ s2) a = num s2 (num s1 a).
Proof. revert a. induction s1 as [|c r IH]; intros a; cbn; [reflexivity|]. apply IH. Qed.

Lemma num_digit d a : d < 10 -> num (digit_of d) a = a * 10 + d.
Proof. intros H. do 10 (destruct d as [|d]; [reflexivity|]). lia. Qed.

Lemma dec_aux_acc fuel : forall n acc, dec_aux fuel n acc = dec_aux fuel n "" ^^ acc.
Proof.
  induction fuel as [|f IH]; intros n acc; [reflexivity|].
  cbn [dec_aux]. destruct (Nat.eqb (n / 10) 0).
  - rewrite append_assoc_str. reflexivity.
  - rewrite (IH (n / 10) (digit_of (n mod 10) ^^ acc)), (IH (n / 10) (digit_of (n mod 10) ^^ "")).
    rewrite !append_assoc_str. reflexivity.
Qed.

Lemma num_dec_aux fuel : forall n, n < fuel -> num (dec_aux fuel n "") 0 = n.
Proof.
  induction fuel as [|f IH]; intros n H; [lia|].
  assert (Hmod : n mod 10 < 10) by (apply Nat.mod_upper_bound; lia).
  pose proof (Nat.div_mod n 10 ltac:(lia)) as Hdm.
  cbn [dec_aux]. destruct (Nat.eqb (n / 10) 0) eqn:E.
  - apply Nat.eqb_eq in E. rewrite num_app, (num_digit _ _ Hmod). cbn [num]. lia.
  - apply Nat.eqb_neq in E. rewrite dec_aux_acc, num_app.
    assert (Hlt : n / 10 < n).
    { apply Nat.div_lt; [|lia]. destruct n; [cbn in E; congruence|lia]. }
    rewrite IH by lia. rewrite num_app, (num_digit _ _ Hmod). cbn [num]. lia.
Qed.

Lemma dec_inj a b : dec a = dec b -> a = b.
Proof.
  intros H. apply (f_equal (fun s => num s 0)) in H. unfold dec in H.
  rewrite !num_dec_aux in H by lia. exact H.
Qed.

Lemma NoDup_map_of_inj {A B} (f : A -> B) l :
  (forall a b, f a = f b -> a = b) -> NoDup l -> NoDup (map f l).
Proof.
  intros Hinj Hnd. induction Hnd as [|x l Hnotin Hnd IH]; cbn [map]; constructor; [|exact IH].
  intros Hin. apply in_map_iff in Hin as [y [Hy Hin]]. apply Hinj in Hy. subst. contradiction.
Qed.

Lemma ckeyed_nodup fs l :
  fields_wf fs -> map fst l = fields_list fs -> NoDup (map fst (ckeyed l)).
Proof.
  intros Hwf Hfst. destruct fs as [fl|fl|]; cbn [fields_wf fields_list] in Hwf, Hfst.
  - destruct Hwf as [Hn Hnd].
    assert (Hpn : plan_named l).
    { intros f m Hin. apply Hn. rewrite <- Hfst. apply (in_map fst _ (f, m)). exact Hin. }
    rewrite (ckeyed_named _ Hpn). rewrite <- Hfst in Hnd. rewrite map_map in Hnd. rewrite map_map.
    apply (NoDup_map_inv unraw). rewrite map_map.
    erewrite map_ext; [exact Hnd|]. intros [f m]. reflexivity.
  - assert (Hpu : plan_unnamed l).
    { intros f m Hin. apply Hwf. rewrite <- Hfst. apply (in_map fst _ (f, m)). exact Hin. }
    rewrite (ckeyed_unnamed_keys _ Hpu). apply NoDup_map_of_inj; [exact dec_inj|apply seq_NoDup].
  - destruct l; [constructor|discriminate Hfst].
Qed.

(** ** the analysis stage *)
Lemma foldM_inv {A S} (f : S -> A -> outcome S) (Q : S -> Prop) :
  (forall s x s', Q s -> f s x = Ok s' -> Q s') ->
  forall l s s', Q s -> foldM f s l = Ok s' -> Q s'.
Proof.
  intros Hstep. induction l as [|x r IH]; intros s s' Hq H.
  - inversion H; subst. exact Hq.
  - cbn [foldM] in H. inv_bind H. apply (IH a s'); [|exact H]. apply (Hstep s x a Hq Hb).
Qed.

(** whatever a scanner returns was built from some meta *)
Lemma scan_attrs_built {A} F own (build : meta -> outcome A) traits attrs a (P : A -> Prop) :
  (forall m x, build m = Ok x -> P x) ->
  scan_attrs F own build traits attrs = Ok (Some a) -> P a.
Proof.
  intros Hb H. unfold scan_attrs in H.
  set (Q := fun o : option A => forall x, o = Some x -> P x).
  assert (Hmeta : forall s m s', Q s -> scan_meta F own build traits s m = Ok s' -> Q s').
  { intros s m s' Hs Hstep. unfold scan_meta in Hstep.
    destruct (trait_from_path F (meta_path m)); [|discriminate Hstep].
    destruct (negb (has_trait t traits)); [discriminate Hstep|].
    destruct (own t); [|inversion Hstep; subst; exact Hs].
    destruct s; [discriminate Hstep|]. inv_bind Hstep. inversion Hstep; subst.
    intros x Hx. inversion Hx; subst. eapply Hb. exact Hb0. }
  assert (Hattr : forall s at0 s', Q s -> scan_attr F own build traits s at0 = Ok s' -> Q s').
  { intros s at0 s' Hs Hstep. unfold scan_attr in Hstep.
    destruct (is_educe at0); [|inversion Hstep; subst; exact Hs].
    destruct (a_meta at0); try (inversion Hstep; subst; exact Hs). inv_bind Hstep.
    apply (foldM_inv (scan_meta F own build traits) Q Hmeta a0 s s' Hs Hstep). }
  apply (foldM_inv (scan_attr F own build traits) Q Hattr attrs None (Some a)); [|exact H|reflexivity].
  intros x Hx. discriminate Hx.
Qed.

Lemma build_fattr_no_method m a : build_fattr false false m = Ok a -> fa_method a = None.
Proof.
  destruct m as [p|p v|p dl ts]; cbn [build_fattr]; intros H; try discriminate H.
  inv_bind H. inv_bind H. inversion H; subst; clear H. cbn [fa_method].
  unfold run_params in Hb0. revert Hb0.
  apply (foldM_inv _ (fun s => fs_method s = None)); [|reflexivity].
  intros s x s' _ Hstep. exfalso. unfold run_param, im_param in Hstep. cbn [negb] in Hstep.
  destruct (param_is x ["ignore"]); [discriminate Hstep|].
  destruct (param_is x ["method"]); discriminate Hstep.
Qed.

Lemma clone_field_attrs_fst F traits em fs l :
  clone_field_attrs F traits em fs = Ok l -> map fst l = fs.
Proof.
  unfold clone_field_attrs. revert l. induction fs as [|f r IH]; cbn [mapM]; intros l H.
  - inversion H. reflexivity.
  - inv_bind H. inv_bind Hb. inversion Hb; subst a. inv_bind H. inversion H; subst l.
    cbn. f_equal. apply IH. assumption.
Qed.

Lemma clone_field_attr_no_method F traits attrs m :
  clone_field_attr F traits false attrs = Ok m -> m = None.
Proof.
  unfold clone_field_attr. intros H. apply bind_ok in H as [o [Ho H]]. inversion H; subst m; clear H.
  destruct o as [fa|]; [|reflexivity].
  apply (scan_attrs_built F (trait_eqb TClone) (build_fattr false false) traits attrs fa
           (fun x => fa_method x = None) build_fattr_no_method Ho).
Qed.

Lemma clone_field_attrs_no_method F traits fs l :
  clone_field_attrs F traits false fs = Ok l -> forall f m, In (f, m) l -> m = None.
Proof.
  unfold clone_field_attrs. revert l. induction fs as [|f0 r IH]; cbn [mapM]; intros l H f m Hin.
  - inversion H; subst. destruct Hin.
  - apply bind_ok in H as [y [Hy H]]. apply bind_ok in H as [ys [Hys H]]. inversion H; subst l; clear H.
    apply bind_ok in Hy as [m0 [Hm0 Hy]]. inversion Hy; subst y; clear Hy.
    destruct Hin as [Hin|Hin]; [|apply (IH ys Hys f m Hin)].
    inversion Hin; subst. eapply clone_field_attr_no_method. exact Hm0.
Qed.

Lemma clone_variant_ok F traits v cv :
  clone_variant F traits v = Ok cv ->
  cv_name cv = v_name v /\ cv_fields cv = v_fields v /\
  map fst (cv_plan cv) = fields_list (v_fields v).
Proof.
  unfold clone_variant. intros H. inv_bind H. inv_bind H. inversion H; subst cv; clear H.
  cbn. repeat split. eapply clone_field_attrs_fst. exact Hb0.
Qed.

Lemma clone_variants_wf F traits vs cvs :
  (forall v, In v vs -> fields_wf (v_fields v)) ->
  mapM (clone_variant F traits) vs = Ok cvs -> Forall cv_wf cvs.
Proof.
  revert cvs. induction vs as [|v r IH]; cbn [mapM]; intros cvs Hwf H.
  - inversion H. constructor.
  - inv_bind H. inv_bind H. inversion H; subst cvs; clear H.
    destruct (clone_variant_ok F traits v a Hb) as [_ [Hf Hp]].
    constructor.
    + split; [rewrite Hf; apply Hwf; left; reflexivity|rewrite Hf; exact Hp].
    + apply IH; [|exact Hb0]. intros w Hw. apply Hwf. right. exact Hw.
Qed.

Lemma has_custom_method_entries cvs :
  has_custom_method cvs = existsb (fun e => has_method (snd e)) (map cv_entry cvs).
Proof.
  unfold has_custom_method. induction cvs as [|cv r IH]; [reflexivity|].
  cbn [map existsb cv_entry snd]. rewrite IH. f_equal. unfold cv_req. rewrite has_method_ckeyed.
  reflexivity.
Qed.

Lemma no_method_has_method (l : list cfield) :
  (forall f m, In (f, m) l -> m = None) -> has_method (ckeyed l) = false.
Proof.
  intros H. rewrite has_method_ckeyed. induction l as [|[f m] r IH]; [reflexivity|].
  cbn [existsb]. rewrite (H f m (or_introl eq_refl)). cbn [orb].
  apply IH. intros g n Hin. apply (H g n). right. exact Hin.
Qed.

Lemma cshape_ok_keys l xs : cshape_ok l xs = true -> map fst l = map fst xs.
Proof.
  unfold cshape_ok. intros H. apply andb_true_iff in H as [H _].
  destruct (list_eq_dec string_dec (map fst l) (map fst xs)); [assumption|discriminate].
Qed.

Lemma lookup_in_snd {A} k (xs : list (string * A)) x : lookup k xs = Some x -> In (k, x) xs \/ exists k', In (k', x) xs.
Proof.
  induction xs as [|[k' v] r IH]; cbn [lookup]; intros H; [discriminate H|].
  destruct (String.eqb k k') eqn:E.
  - inversion H; subst. right. exists k'. left. reflexivity.
  - destruct (IH H) as [Hin|[k2 Hin]]; [left; right; exact Hin|right; exists k2; right; exact Hin].
Qed.

Lemma cshape_ok_atoms l xs k x : cshape_ok l xs = true -> lookup k xs = Some x -> is_atom x = true.
Proof.
  unfold cshape_ok. intros H Hl. apply andb_true_iff in H as [_ H].
  rewrite forallb_forall in H.
  destruct (lookup_in_snd k xs x Hl) as [Hin|[k' Hin]]; apply H in Hin; exact Hin.
Qed.

(** ** running the emitted items *)

(** `a.clone_from(&b)`: the final contents of `self` and `source`, and the calls.
    When the impl does not define `clone_from`, the method is the one the
    trait provides: `*self = source.clone()`. *)
Definition run_clone_from (I : interp) (it : item) (a b : value)
  : option (value * value * list event) :=
  match find_fn "clone_from" it with
  | Some body =>
      match run_body I from_env body (from_state a b) with
      | (RVal _, s) =>
          match lookup "self" (st_store s), lookup "source" (st_store s) with
          | Some a', Some b' => Some (a', b', st_trace s)
          | _, _ => None
          end
      | _ => None
      end
  | None =>
      match run_clone I it b with
      | Some (v, tr) => Some (v, b, tr)
      | None => None
      end
  end.

(** `Clone::clone` on a value of type Self is the impl being defined (the
    fallback `*self = ::core::clone::Clone::clone(source)` of an enum's
    clone_from calls the emitted `clone`) *)
Definition self_dispatch (I : interp) (it : item) (c : ccfg) : Prop :=
  forall b, cvalue_ok c b = true -> exists tr, run_clone I it b = Some (i_clone I b, tr).

Definition copy_impl (d : dinput) (g : generics) : item :=
  {| i_attrs := []; i_generics := g; i_trait := Some (core_path ["marker"; "Copy"]);
     i_self := d_name d; i_members := [] |}.

Section Top.
  Variable I : interp.
  Variables (F : features) (traits : list trait).

  Lemma run_deref_self it x :
    find_fn "clone" it = Some deref_self -> run_clone I it x = Some (x, []).
  Proof. intros H. unfold run_clone. rewrite H. reflexivity. Qed.

  Lemma find_clone copy d g body from_body :
    find_fn "clone" (hd (copy_impl d g) (clone_items copy d g body from_body)) = Some body.
  Proof. reflexivity. Qed.

  Lemma find_clone_from copy d g body from_body :
    find_fn "clone_from" (hd (copy_impl d g) (clone_items copy d g body from_body))
    = if is_nil from_body then None else Some from_body.
  Proof. unfold clone_items. cbn [hd]. unfold find_fn. cbn [i_members find String.eqb Ascii.eqb Bool.eqb].
         destruct from_body; reflexivity. Qed.

  Lemma clone_items_shape copy d g body from_body :
    exists it, clone_items copy d g body from_body
               = it :: (if copy then [copy_impl d (i_generics it)] else []) /\
               i_self it = d_name d /\ i_trait it = Some (core_path ["clone"; "Clone"]) /\
               find_fn "clone" it = Some body /\
               find_fn "clone_from" it = if is_nil from_body then None else Some from_body.
  Proof.
    exists (hd (copy_impl d g) (clone_items copy d g body from_body)).
    split; [unfold clone_items, copy_impl; cbn [hd i_generics]; reflexivity|]. repeat split.
    apply (find_clone_from copy d g body from_body).
  Qed.

  (** what the handler emits, in terms of the request *)
  Lemma expand_clone_shape d m items c :
    expand_clone F traits d m = Ok items -> clone_cfg F traits d = Ok c ->
    exists it body from_body,
      items = it :: (if cc_copy c then [copy_impl d (i_generics it)] else []) /\
      i_self it = d_name d /\ i_trait it = Some (core_path ["clone"; "Clone"]) /\
      find_fn "clone" it = Some body /\
      find_fn "clone_from" it = (if is_nil from_body then None else Some from_body) /\
      (bitwise c = true -> body = deref_self /\ from_body = []) /\
      (bitwise c = false ->
       match d_data d with
       | DStruct fs => exists l, map fst l = fields_list fs /\
                                 cc_variants c = [(None, ckeyed l)] /\
                                 body = clone_struct_body fs l /\
                                 from_body = clone_from_struct_body fs l
       | DEnum vs => exists cvs, mapM (clone_variant F traits) vs = Ok cvs /\
                                 cc_variants c = map cv_entry cvs /\
                                 body = clone_enum_body cvs /\
                                 from_body = clone_from_enum_body cvs
       | DUnion _ => False
       end).
  Proof.
    intros He Hc. unfold expand_clone in He. unfold clone_cfg in Hc. fold (copy_educed F traits) in He.
    inv_bind He. rename a into ta.
    destruct (d_data d) as [fs|vs|ufs]; [| |discriminate Hc].
    - inv_bind He. rename a into l. rewrite Hb0 in Hc. cbn [bind] in Hc. inversion Hc; subst c; clear Hc.
      inversion He; subst items; clear He. cbn [cc_copy cc_variants].
      pose proof (clone_field_attrs_fst _ _ _ _ _ Hb0) as Hfst.
      unfold bitwise. cbn [cc_copy cc_variants existsb snd]. rewrite orb_false_r.
      destruct (copy_educed F traits) eqn:Ece.
      + destruct (clone_items_shape true d (clone_generics ta true d (clone_types l)) deref_self [])
          as [it [Hit [Hs [Ht [Hf Hff]]]]].
        exists it, deref_self, []. rewrite Hit.
        refine (conj eq_refl (conj Hs (conj Ht (conj Hf (conj Hff (conj (fun _ => conj eq_refl eq_refl) _)))))).
        cbn [negb] in Hb0. rewrite (no_method_has_method l (clone_field_attrs_no_method _ _ _ _ Hb0)).
        intros Hx. discriminate Hx.
      + destruct (clone_items_shape false d (clone_generics ta false d (clone_types l))
                    (clone_struct_body fs l) (clone_from_struct_body fs l))
          as [it [Hit [Hs [Ht [Hf Hff]]]]].
        exists it, (clone_struct_body fs l), (clone_from_struct_body fs l). rewrite Hit.
        refine (conj eq_refl (conj Hs (conj Ht (conj Hf (conj Hff (conj _ _)))))).
        { intros Hx. discriminate Hx. }
        intros _. exists l. refine (conj Hfst (conj eq_refl (conj eq_refl eq_refl))).
    - inv_bind He. rename a into cvs. rewrite Hb0 in Hc. cbn [bind] in Hc. inversion Hc; subst c; clear Hc.
      inversion He; subst items; clear He. cbn [cc_copy cc_variants].
      unfold bitwise. cbn [cc_copy cc_variants].
      change (map (fun cv => (Some (cv_name cv), ckeyed (cv_plan cv))) cvs) with (map cv_entry cvs).
      rewrite <- has_custom_method_entries. rewrite (andb_comm (copy_educed F traits)).
      destruct (negb (has_custom_method cvs) && copy_educed F traits) eqn:Ecc.
      + match goal with |- context [clone_items ?cp d ?g deref_self []] =>
          destruct (clone_items_shape cp d g deref_self []) as [it [Hit [Hs [Ht [Hf Hff]]]]] end.
        exists it, deref_self, []. rewrite Hit.
        refine (conj eq_refl (conj Hs (conj Ht (conj Hf (conj Hff (conj (fun _ => conj eq_refl eq_refl) _)))))).
        intros Hx. discriminate Hx.
      + match goal with |- context [clone_items ?cp d ?g (clone_enum_body cvs) ?fb] =>
          destruct (clone_items_shape cp d g (clone_enum_body cvs) fb) as [it [Hit [Hs [Ht [Hf Hff]]]]] end.
        exists it, (clone_enum_body cvs), (clone_from_enum_body cvs). rewrite Hit.
        refine (conj eq_refl (conj Hs (conj Ht (conj Hf (conj Hff (conj _ _)))))).
        { intros Hx. discriminate Hx. }
        intros _. exists cvs. refine (conj Hb0 (conj eq_refl (conj eq_refl eq_refl))).
  Qed.

  (** *** C07_clone *)
  Theorem clone_correct d m items c x :
    data_wf (d_data d) ->
    expand_clone F traits d m = Ok items ->
    clone_cfg F traits d = Ok c ->
    cvalue_ok c x = true ->
    exists it rest, items = it :: rest /\ run_clone I it x = spec_clone I c x.
  Proof.
    intros Hwf He Hc Hx.
    destruct (expand_clone_shape d m items c He Hc)
      as [it [body [fb [Hitems [_ [_ [Hfind [_ [Hbw Hnbw]]]]]]]]].
    exists it. eexists. split; [exact Hitems|].
    destruct x as [| | | | | |vn xs| | | | |]; try discriminate Hx.
    cbn [cvalue_ok] in Hx. cbn [spec_clone].
    destruct (creq_get vn (cc_variants c)) as [l|] eqn:Hget; [|discriminate Hx].
    apply cshape_ok_keys in Hx.
    destruct (bitwise c) eqn:Ebw.
    - destruct (Hbw eq_refl) as [-> _]. apply run_deref_self. exact Hfind.
    - specialize (Hnbw eq_refl).
      destruct (spec_clone_fields_total I l xs) as [vs [evs Hspec]].
      { intros k Hk. rewrite <- Hx. exact Hk. }
      rewrite Hspec. unfold run_clone. rewrite Hfind.
      destruct (d_data d) as [fs|vs0|ufs]; [| |destruct Hnbw].
      + destruct Hnbw as [pl [Hfst [Hcv [-> _]]]]. rewrite Hcv in Hget.
        destruct vn as [vn|]; [discriminate Hget|]. cbn [creq_get] in Hget. inversion Hget; subst l.
        unfold run_body.
        rewrite (struct_clone_body I fs pl xs vs evs (clone_state (VData None xs)) Hwf Hfst eq_refl Hspec).
        reflexivity.
      + destruct Hnbw as [cvs [Hm [Hcv [-> _]]]]. rewrite Hcv in Hget.
        destruct vn as [vn|].
        2:{ exfalso. clear - Hget. induction cvs as [|cv r IH]; [discriminate Hget|]. apply IH. exact Hget. }
        pose proof (clone_variants_wf F traits vs0 cvs Hwf Hm) as Hcwf.
        unfold clone_enum_body. destruct cvs as [|cv0 cvs']; [discriminate Hget|]. cbn [is_nil].
        unfold run_body. cbn [eval_block eval clone_env lookup String.eqb Ascii.eqb Bool.eqb is_nil].
        rewrite (clone_arms_eval I (cv0 :: cvs') vn xs l vs evs (clone_state (VData (Some vn) xs))
                   Hcwf eq_refl Hget Hx Hspec).
        reflexivity.
  Qed.

  (** *** C07_copy *)
  Theorem copy_correct d m items c :
    expand_clone F traits d m = Ok items ->
    clone_cfg F traits d = Ok c ->
    exists it,
      items = it :: (if cc_copy c then [copy_impl d (i_generics it)] else []) /\
      i_self it = d_name d /\ i_trait it = Some (core_path ["clone"; "Clone"]) /\
      (bitwise c = true ->
       find_fn "clone" it = Some [EDeref (EVar "self")] /\
       find_fn "clone_from" it = None /\
       forall x, run_clone I it x = Some (x, [])).
  Proof.
    intros He Hc.
    destruct (expand_clone_shape d m items c He Hc)
      as [it [body [fb [Hitems [Hs [Ht [Hfind [Hff [Hbw _]]]]]]]]].
    exists it. repeat split; try assumption.
    - destruct (Hbw H) as [-> _]. exact Hfind.
    - destruct (Hbw H) as [_ ->]. exact Hff.
    - intros x. destruct (Hbw H) as [-> _]. apply run_deref_self. exact Hfind.
  Qed.

  (** *** C07_clone_from *)
  Lemma creq_get_entries_some cvs l : creq_get None (map cv_entry cvs) = Some l -> False.
  Proof. induction cvs as [|cv r IH]; [discriminate|]. exact IH. Qed.

  Theorem clone_from_correct d m it rest c a b :
    data_wf (d_data d) ->
    expand_clone F traits d m = Ok (it :: rest) ->
    clone_cfg F traits d = Ok c ->
    lawful_clone_from I ->
    self_dispatch I it c ->
    cvalue_ok c a = true -> cvalue_ok c b = true ->
    exists v tr, spec_clone I c b = Some (v, tr) /\
                 run_clone_from I it a b = Some (v, b, spec_clone_from_trace c a b).
  Proof.
    intros Hwf He Hc Hlaw Hdisp Ha Hb.
    destruct (clone_correct d m _ c b Hwf He Hc Hb) as [it' [rest' [Hit Hrun]]].
    inversion Hit; subst it' rest'; clear Hit.
    destruct (Hdisp b Hb) as [trb Hdb].
    destruct (expand_clone_shape d m _ c He Hc)
      as [it' [body [fb [Hitems [_ [_ [Hfind [Hff [Hbw Hnbw]]]]]]]]].
    inversion Hitems as [[Hit Hrest]]. subst it'. clear Hitems Hrest.
    destruct a as [| | | | | |va xs| | | | |]; try discriminate Ha.
    destruct b as [| | | | | |vb ys| | | | |]; try discriminate Hb.
    cbn [cvalue_ok] in Ha, Hb.
    destruct (creq_get va (cc_variants c)) as [la|] eqn:Hga; [|discriminate Ha].
    destruct (creq_get vb (cc_variants c)) as [lb|] eqn:Hgb; [|discriminate Hb].
    assert (Hat : forall k y, lookup k ys = Some y -> is_atom y = true).
    { intros k y Hy. apply (cshape_ok_atoms lb ys k y Hb Hy). }
    apply cshape_ok_keys in Ha. apply cshape_ok_keys in Hb.
    cbn [spec_clone spec_clone_from_trace] in *. rewrite Hgb in *.
    destruct (bitwise c) eqn:Ebw.
    - (* no clone_from in the impl: the provided method *)
      destruct (Hbw eq_refl) as [_ ->]. cbn [is_nil] in Hff.
      exists (VData vb ys), []. split; [reflexivity|].
      unfold run_clone_from. rewrite Hff, Hrun. reflexivity.
    - specialize (Hnbw eq_refl).
      destruct (spec_clone_fields_total I lb ys) as [vs [evs Hspec]].
      { intros k Hk. rewrite <- Hb. exact Hk. }
      rewrite Hspec in *. exists (VData vb vs), evs. split; [reflexivity|].
      unfold run_clone_from.
      destruct (d_data d) as [fs|vs0|ufs]; [| |destruct Hnbw].
      + destruct Hnbw as [pl [Hfst [Hcv [_ ->]]]]. rewrite Hcv in Hga, Hgb.
        destruct va as [va|]; [discriminate Hga|]. destruct vb as [vb|]; [discriminate Hgb|].
        cbn [creq_get] in Hga, Hgb. inversion Hga; subst la. inversion Hgb; subst lb.
        assert (Hnn : is_nil (clone_from_struct_body fs pl) = false).
        { unfold clone_from_struct_body, let_source. destruct fs; destruct pl; reflexivity. }
        rewrite Hnn in Hff. rewrite Hff. unfold run_body.
        rewrite (struct_clone_from_body I fs pl xs ys vs (spec_clone_from_events (ckeyed pl) xs ys)
                   (from_state (VData None xs) (VData None ys)) Hwf Hfst eq_refl).
        * cbn [same_variant]. rewrite Hcv. reflexivity.
        * apply (from_fields_clone I (ckeyed pl) xs ys vs evs Hlaw); try assumption.
          apply (ckeyed_nodup fs pl Hwf Hfst).
      + destruct Hnbw as [cvs [Hm [Hcv [_ ->]]]]. rewrite Hcv in Hga, Hgb.
        destruct va as [va|]; [|exfalso; eapply creq_get_entries_some; exact Hga].
        destruct vb as [vb|]; [|exfalso; eapply creq_get_entries_some; exact Hgb].
        pose proof (clone_variants_wf F traits vs0 cvs Hwf Hm) as Hcwf.
        unfold clone_from_enum_body in *. destruct cvs as [|cv0 cvs']; [discriminate Hga|].
        cbn [is_nil] in Hff |- *. rewrite Hff. unfold run_body.
        cbn [eval_block eval from_env lookup String.eqb Ascii.eqb Bool.eqb is_nil].
        destruct (clone_from_arms_eval I (cv0 :: cvs') va xs vb ys la
                    (from_state (VData (Some va) xs) (VData (Some vb) ys)) Hcwf eq_refl Hga Ha)
          as [Hne Heq].
        { intros E. apply String.eqb_eq in E. subst vb. rewrite Hga in Hgb. inversion Hgb; subst lb. exact Hb. }
        cbn [same_variant]. rewrite (String.eqb_sym va vb).
        destruct (String.eqb vb va) eqn:E.
        * apply String.eqb_eq in E. subst vb. rewrite Hga in Hgb. inversion Hgb; subst lb.
          rewrite (Heq eq_refl vs (spec_clone_from_events la xs ys)).
          -- rewrite Hcv, Hga. reflexivity.
          -- apply (from_fields_clone I la xs ys vs evs Hlaw); try assumption.
             (* keys of a variant's request are distinct *)
             clear - Hcwf Hga. revert Hga. generalize (cv0 :: cvs') Hcwf. clear.
             induction l as [|cv r IH]; intros Hw Hg; [discriminate Hg|].
             inversion Hw as [|? ? [Hf Hp] Hr]; subst. cbn [map cv_entry creq_get] in Hg.
             destruct (String.eqb va (cv_name cv)); [|apply IH; assumption].
             inversion Hg; subst. apply (ckeyed_nodup (cv_fields cv) (cv_plan cv) Hf Hp).
        * rewrite (Hne eq_refl). unfold from_fallback.
          cbn [st_store st_trace lookup String.eqb Ascii.eqb Bool.eqb from_state app].
          rewrite Hrun in Hdb. inversion Hdb. reflexivity.
  Qed.
End Top.

(** ** the dispatch hypothesis is satisfiable over any behaviour of the field types:
    tie `Clone::clone` on Self-shaped values to the emitted `clone` *)
Definition tie_clone (I : interp) (it : item) : interp :=
  {| i_ne := i_ne I; i_eq := i_eq I; i_cmp := i_cmp I; i_partial_cmp := i_partial_cmp I;
     i_user := i_user I;
     i_clone := fun v => match v with
                         | VData _ _ => match run_clone I it v with Some (r, _) => r | None => v end
                         | _ => i_clone I v
                         end;
     i_clone_from := i_clone_from I; i_into := i_into I; i_default := i_default I;
       i_size_of_self := i_size_of_self I |}.

Lemma spec_clone_fields_ext I I' l xs :
  (forall p args, i_user I' p args = i_user I p args) ->
  (forall k x, lookup k xs = Some x -> i_clone I' x = i_clone I x) ->
  spec_clone_fields I' l xs = spec_clone_fields I l xs.
Proof.
  intros Hu Hc. induction l as [|[k m] r IH]; [reflexivity|].
  cbn [spec_clone_fields]. rewrite IH. destruct (lookup k xs) as [x|] eqn:Hx; [|reflexivity].
  assert (Hf : clone_field I' m x = clone_field I m x).
  { unfold clone_field. destruct m; [apply Hu|apply (Hc k x Hx)]. }
  rewrite Hf. reflexivity.
Qed.

Theorem self_dispatch_tie I F traits d m it rest c :
  data_wf (d_data d) ->
  expand_clone F traits d m = Ok (it :: rest) ->
  clone_cfg F traits d = Ok c ->
  self_dispatch (tie_clone I it) it c /\
  (forall x, is_atom x = true -> i_clone (tie_clone I it) x = i_clone I x) /\
  (forall dst src, i_clone_from (tie_clone I it) dst src = i_clone_from I dst src) /\
  (forall p args, i_user (tie_clone I it) p args = i_user I p args).
Proof.
  intros Hwf He Hc. split; [|split; [|split]]; try reflexivity.
  2:{ intros x Hx. destruct x; try discriminate Hx. reflexivity. }
  intros b Hb.
  destruct (clone_correct (tie_clone I it) F traits d m _ c b Hwf He Hc Hb) as [it1 [r1 [E1 H1]]].
  destruct (clone_correct I F traits d m _ c b Hwf He Hc Hb) as [it2 [r2 [E2 H2]]].
  inversion E1; subst it1 r1. inversion E2; subst it2 r2. clear E1 E2.
  destruct b as [| | | | | |vn xs| | | | |]; try discriminate Hb.
  assert (Hsame : spec_clone (tie_clone I it) c (VData vn xs) = spec_clone I c (VData vn xs)).
  { cbn [spec_clone cvalue_ok] in *. destruct (creq_get vn (cc_variants c)) as [l|]; [|reflexivity].
    destruct (bitwise c); [reflexivity|].
    rewrite (spec_clone_fields_ext I (tie_clone I it) l xs); [reflexivity|reflexivity|].
    intros k x Hx. pose proof (cshape_ok_atoms l xs k x Hb Hx) as Hat.
    destruct x; try discriminate Hat. reflexivity. }
  rewrite H1, Hsame, <- H2. cbn [i_clone tie_clone].
  destruct (run_clone I it (VData vn xs)) as [[r tr]|] eqn:Er.
  - exists tr. reflexivity.
  - exfalso. clear Er. symmetry in H2. rename H2 into Er. cbn [spec_clone cvalue_ok] in Er, Hb.
    destruct (creq_get vn (cc_variants c)) as [l|]; [|discriminate Hb].
    destruct (bitwise c); [discriminate Er|].
    destruct (spec_clone_fields_total I l xs) as [vs [evs Hs]].
    { intros k Hk. rewrite <- (cshape_ok_keys l xs Hb). exact Hk. }
    rewrite Hs in Er. discriminate Er.
Qed.

(** ** shape of the result: same variant, same keys, one call per field *)
Lemma spec_clone_fields_events_length I l xs vs evs :
  spec_clone_fields I l xs = Some (vs, evs) -> List.length evs = List.length l.
Proof.
  revert vs evs. induction l as [|[k m] r IH]; intros vs evs H.
  - inversion H. reflexivity.
  - cbn [spec_clone_fields] in H. destruct (lookup k xs); [|discriminate H].
    destruct (spec_clone_fields I r xs) as [[vs' evs']|]; [|discriminate H].
    inversion H; subst. cbn. f_equal. eapply IH. reflexivity.
Qed.

Theorem spec_clone_shape I c vn xs v tr l :
  spec_clone I c (VData vn xs) = Some (v, tr) ->
  creq_get vn (cc_variants c) = Some l ->
  if bitwise c then v = VData vn xs /\ tr = []
  else exists vs, v = VData vn vs /\ map fst vs = map fst l /\ List.length tr = List.length l.
Proof.
  intros H Hl. cbn [spec_clone] in H. rewrite Hl in H. destruct (bitwise c).
  - inversion H. split; reflexivity.
  - destruct (spec_clone_fields I l xs) as [[vs evs]|] eqn:E; [|discriminate H].
    inversion H; subst. exists vs. repeat split.
    + eapply spec_clone_fields_keys. exact E.
    + eapply spec_clone_fields_events_length. exact E.
Qed.

(** ** whenever the handler succeeds on a struct or an enum, the request is readable *)
Theorem clone_cfg_total F traits d m items :
  expand_clone F traits d m = Ok items ->
  (forall fs, d_data d <> DUnion fs) ->
  exists c, clone_cfg F traits d = Ok c.
Proof.
  intros He Hnu. unfold expand_clone in He. fold (copy_educed F traits) in He. unfold clone_cfg.
  apply bind_ok in He as [ta [_ He]].
  destruct (d_data d) as [fs|vs|ufs].
  - apply bind_ok in He as [l [Hl _]]. rewrite Hl. eexists; reflexivity.
  - apply bind_ok in He as [cvs [Hl _]]. rewrite Hl. eexists; reflexivity.
  - exfalso. apply (Hnu ufs). reflexivity.
Qed.
