(** C13 — R12 (continued): `name` (the parameter, or the shorthand `Debug = name`) on a field that
    Debug shows positionally. *)
From Educe.Proofs Require Export P_C13j.
Import Expand_Debug.

Lemma key_nf_name m : key_is "named_field" m = true -> param_name m = Some "named_field".
Proof.
  unfold key_is, param_key. destruct (param_name m) as [s|]; [|discriminate]. cbn [option_map].
  unfold canon. destruct (String.eqb s "rename"); [discriminate|].
  destruct (String.eqb s "expr"); [discriminate|]. intros H. apply String.eqb_eq in H. congruence.
Qed.

Lemma key_nf_of_param_is m : param_is m ["named_field"] = true -> key_is "named_field" m = true.
Proof. intros H. apply (key_is_of_param_is _ _ "named_field" H). canon_names. Qed.

Lemma dt_nf_frozen b ms : forall s s',
  run_params (dt_param b) s ms = Ok s' -> ts_nf_set s = true -> ts_named_field s' = ts_named_field s.
Proof.
  induction ms as [|m r IH]; intros s s' H Hset.
  - inversion H; subst. reflexivity.
  - unfold run_params in H. cbn [foldM] in H. inv_bind H. fold (run_params (dt_param b) a r) in H.
    unfold run_param in Hb. inv_bind Hb. destruct a0 as [s1|]; [|discriminate Hb]. inversion Hb; subst a.
    assert (Hs1 : ts_named_field s1 = ts_named_field s /\ ts_nf_set s1 = true).
    { unfold dt_param in Hb0. destruct (param_is m ["name"; "rename"]).
      { destruct (negb (tb_name b)); [discriminate Hb0|]. inv_bind Hb0.
        destruct (ts_name_set s); [discriminate Hb0|]. inversion Hb0; subst s1. auto. }
      destruct (param_is m ["named_field"]).
      { destruct (negb (tb_named_field b)); [discriminate Hb0|]. inv_bind Hb0. rewrite Hset in Hb0.
        discriminate Hb0. }
      destruct (param_is m ["bound"]); [|discriminate Hb0].
      destruct (negb (tb_bound b)); [discriminate Hb0|]. inv_bind Hb0.
      destruct (ts_bound_set s); [discriminate Hb0|]. inversion Hb0; subst s1. auto. }
    destruct Hs1 as [Hn Hs]. rewrite (IH _ _ H Hs). exact Hn.
Qed.

Lemma param_false_value k m v : param_false k m = true -> meta_2_bool m = Ok v -> v = false.
Proof.
  unfold param_false. intros H. apply andb_true_iff in H. destruct H as [_ H].
  destruct m as [p|p w|p dl ts]; [discriminate H| |].
  - destruct w as [t| | | |]; try discriminate H. cbn [meta_2_bool meta_name_value_2_bool].
    destruct (is_bool_tok t) as [[|]|]; try discriminate H. intros Hv. inversion Hv; reflexivity.
  - destruct ts as [|t [|t2 r]]; try discriminate H. cbn [meta_2_bool args_lit_bool].
    destruct (is_bool_tok t) as [[|]|]; try discriminate H. intros Hv. inversion Hv; reflexivity.
Qed.

Lemma dt_nf_off b ms : forall s s',
  run_params (dt_param b) s ms = Ok s' -> existsb (param_false "named_field") ms = true ->
  ts_named_field s' = false.
Proof.
  induction ms as [|m r IH]; intros s s' H Hex; [discriminate Hex|].
  unfold run_params in H. cbn [foldM] in H. inv_bind H. fold (run_params (dt_param b) a r) in H.
  unfold run_param in Hb. inv_bind Hb. destruct a0 as [s1|]; [|discriminate Hb]. inversion Hb; subst a.
  cbn [existsb] in Hex. destruct (param_false "named_field" m) eqn:Hm.
  - assert (Hk : key_is "named_field" m = true).
    { unfold param_false in Hm. apply andb_true_iff in Hm. tauto. }
    pose proof (key_nf_name _ Hk) as Hn. unfold dt_param, param_is in Hb0. rewrite Hn in Hb0.
    cbn [mem_str existsb String.eqb Ascii.eqb Bool.eqb orb] in Hb0.
    destruct (negb (tb_named_field b)); [discriminate Hb0|]. inv_bind Hb0.
    destruct (ts_nf_set s); [discriminate Hb0|]. inversion Hb0; subst s1.
    rewrite (dt_nf_frozen _ _ _ _ H eq_refl). cbn [ts_named_field].
    exact (param_false_value _ _ _ Hm Hb1).
  - cbn [orb] in Hex. exact (IH _ _ H Hex).
Qed.

Lemma dt_nf_unset b ms s s' :
  run_params (dt_param b) s ms = Ok s' -> existsb (key_is "named_field") ms = false ->
  ts_named_field s' = ts_named_field s.
Proof.
  intros H Hex. apply forallb_negb_existsb in Hex.
  refine (run_params_inv _ (fun x => ts_named_field x = ts_named_field s)
            (fun x => negb (key_is "named_field" x)) _ _ _ _ H Hex eq_refl).
  clear. intros s0 m s' Hs Hok Hi. unfold dt_param in Hs.
  destruct (param_is m ["name"; "rename"]).
  { destruct (negb (tb_name b)); [discriminate Hs|]. inv_bind Hs.
    destruct (ts_name_set s0); [discriminate Hs|]. inversion Hs; subst s'. exact Hi. }
  destruct (param_is m ["named_field"]) eqn:Hq.
  { rewrite (key_nf_of_param_is _ Hq) in Hok. discriminate Hok. }
  destruct (param_is m ["bound"]); [|discriminate Hs].
  destruct (negb (tb_bound b)); [discriminate Hs|]. inv_bind Hs.
  destruct (ts_bound_set s0); [discriminate Hs|]. inversion Hs; subst s'. exact Hi.
Qed.

(** the flag the field builder receives *)
Lemma debug_positional b m ta is_tuple :
  tb_unsafe b = false -> tb_named_field0 b = negb is_tuple ->
  build_dtattr b m = Ok ta -> positional is_tuple (Some m) = true -> dt_named_field ta = false.
Proof.
  intros Hu Hn0 H Hpos. unfold positional in Hpos. unfold build_dtattr in H.
  destruct m as [p|p v|p dl ts].
  - cbn in Hpos. rewrite andb_true_r in Hpos. subst is_tuple.
    destruct (tb_flag b); [|discriminate H]. inversion H; subst ta. exact Hn0.
  - cbn in Hpos. rewrite andb_true_r in Hpos. subst is_tuple.
    destruct (negb (tb_name b)); [discriminate H|]. inv_bind H. inversion H; subst ta. exact Hn0.
  - rewrite Hu in H. inv_bind H. destruct a as [u ms]. inv_bind H.
    apply bind_ok in Hb. destruct Hb as [ms' [Hp Hq]]. inversion Hq; subst.
    inversion H; subst ta. cbn [dt_named_field]. cbn [params] in Hpos. rewrite Hp in Hpos.
    apply orb_true_iff in Hpos. destruct Hpos as [Hoff|Hun].
    + exact (dt_nf_off _ _ _ _ Hb0 Hoff).
    + apply andb_true_iff in Hun. destruct Hun as [Ht Hun]. apply negb_true_iff in Hun.
      rewrite (dt_nf_unset _ _ _ _ Hb0 Hun). cbn [ts_named_field]. rewrite Hn0, Ht. reflexivity.
Qed.

(** with the name switch off, a `Debug(..)` item on a field cannot carry `name` *)
Lemma debug_field_no_name b c m x :
  build_dfattr false b c m = Ok x -> existsb (key_is "name") (params LPlain m) = false.
Proof.
  intros H. unfold build_dfattr in H. destruct m as [p|p v|p dl ts]; [reflexivity|reflexivity|].
  inv_bind H. inv_bind H. cbn [params]. rewrite Hb. apply existsb_false. intros m Hin.
  destruct (run_params_each _ _ _ _ _ Hb0 Hin) as [s1 [s2 Hs]]. unfold df_param in Hs.
  destruct (param_is m ["name"; "rename"]); [discriminate Hs|]. unfold key_is.
  destruct (param_is m ["ignore"]) eqn:H2.
  { rewrite (param_is_key _ _ "ignore" H2); [reflexivity|canon_names]. }
  destruct (param_is m ["method"]) eqn:H3; [|discriminate Hs].
  rewrite (param_is_key _ _ "method" H3); [reflexivity|canon_names].
Qed.

(** ... and the shorthand `Debug = v` is read as a boolean only: an identifier or a string (a
    name) is refused *)
Lemma debug_field_no_shorthand b c m x :
  build_dfattr false b c m = Ok x -> name_shorthand m = false.
Proof.
  intros H. unfold build_dfattr in H. destruct m as [p|p v|p dl ts]; [reflexivity| |reflexivity].
  cbn [name_shorthand]. destruct b; [|discriminate H]. inv_bind H.
  unfold meta_name_value_2_bool in Hb. unfold bool_value.
  destruct v as [t| | | |]; try discriminate Hb.
  destruct (is_bool_tok t); [reflexivity|discriminate Hb].
Qed.

Lemma debug_fields_no_name F traits fs l :
  debug_field_attrs F traits false fs = Ok l -> existsb (has_name_param F) fs = false.
Proof.
  intros H. unfold debug_field_attrs in H. inv_bind H. apply existsb_false. intros f Hf.
  destruct (mapM_In_ok _ _ _ _ Hb Hf) as [y Hy]. inv_bind Hy. unfold debug_field_attr in Hb0. inv_bind Hb0.
  apply scanned_single in Hb1. unfold has_name_param.
  rewrite (existsb_filter (names F TDebug)).
  fold (metas_of F TDebug (educe_metas (f_attrs f))).
  destruct (metas_of F TDebug (educe_metas (f_attrs f))) as [|m [|m2 r]]; [reflexivity| |destruct Hb1].
  destruct Hb1 as [x [Hx _]]. cbn [existsb].
  rewrite (debug_field_no_name _ _ _ _ Hx), (debug_field_no_shorthand _ _ _ _ Hx). reflexivity.
Qed.

Lemma name_on_positional_handler F traits d m l :
  expand_debug F traits d m = Ok l ->
  match d_data d with
  | DStruct fs => positional (is_tuple_fields fs) (Some m) && existsb (has_name_param F) (fields_list fs)
  | DEnum vs =>
      existsb (fun v => positional (is_tuple_fields (v_fields v))
                                   (hd_error (metas_of F TDebug (educe_metas (v_attrs v))))
                        && existsb (has_name_param F) (fields_list (v_fields v))) vs
  | DUnion _ => false
  end = false.
Proof.
  intros H. unfold expand_debug in H. destruct (d_data d) as [fs|vs|fs]; [| |reflexivity].
  - destruct (positional (is_tuple_fields fs) (Some m)) eqn:Hpos; [|reflexivity]. cbn [andb].
    inv_bind H. inv_bind H.
    apply (debug_positional _ _ _ (is_tuple_fields fs)) in Hb; [| reflexivity | | exact Hpos].
    + rewrite Hb in Hb0. exact (debug_fields_no_name _ _ _ _ Hb0).
    + cbn [tb_named_field0]. destruct fs; reflexivity.
  - inv_bind H. inv_bind H. apply existsb_false. intros v Hv.
    destruct (mapM_In_ok _ _ _ _ Hb0 Hv) as [dv Hdv].
    destruct (positional (is_tuple_fields (v_fields v))
                (hd_error (metas_of F TDebug (educe_metas (v_attrs v))))) eqn:Hpos; [|reflexivity].
    cbn [andb]. unfold debug_variant in Hdv. inv_bind Hdv. unfold debug_variant_attr in Hb1. inv_bind Hb1.
    apply scanned_single in Hb2.
    destruct (v_fields v) as [fl|fl|] eqn:Ef; [| |reflexivity]; cbn [fields_list].
    + (* named fields *)
      assert (Hnf : dt_named_field a1 = false).
      { destruct (metas_of F TDebug (educe_metas (v_attrs v))) as [|mv [|m2 r]]; [| |destruct Hb2].
        - cbn in Hpos. discriminate Hpos.
        - destruct Hb2 as [x [Hx ->]]. inversion Hb1; subst a1. cbn [hd_error] in Hpos.
          apply (debug_positional _ _ _ false) in Hx; [exact Hx|reflexivity|reflexivity|exact Hpos]. }
      rewrite Hnf in Hdv. inv_bind Hdv. exact (debug_fields_no_name _ _ _ _ Hb3).
    + (* tuple fields *)
      assert (Hnf : dt_named_field a1 = false).
      { destruct (metas_of F TDebug (educe_metas (v_attrs v))) as [|mv [|m2 r]]; [| |destruct Hb2].
        - subst a2. inversion Hb1; subst a1. reflexivity.
        - destruct Hb2 as [x [Hx ->]]. inversion Hb1; subst a1. cbn [hd_error] in Hpos.
          apply (debug_positional _ _ _ true) in Hx; [exact Hx|reflexivity|reflexivity|exact Hpos]. }
      rewrite Hnf in Hdv. inv_bind Hdv. exact (debug_fields_no_name _ _ _ _ Hb3).
Qed.

Theorem R12_name_on_positional F d its :
  expand F d = Ok its -> invalid_name_on_positional F d = false.
Proof.
  intros H. unfold invalid_name_on_positional. destruct (type_meta F TDebug d) as [m|] eqn:Hm; [|reflexivity].
  destruct (expand_run_facts _ _ _ H) as [traits [_ [Hh _]]].
  destruct (Hh TDebug expand_debug m ltac:(in_handlers) Hm) as [l Hl].
  exact (name_on_positional_handler _ _ _ _ _ Hl).
Qed.
