(** C02 — consequences stated on the specification: ignored fields are
    irrelevant; with well-behaved field comparisons the relation is an
    equivalence; the impl defines `eq` only (so `!=` is the trait's default
    `!(a == b)`). *)
From Educe.Proofs Require Export P_C02b.

Section Spec.
  Variable I : interp.

  Definition agree_on (l : list (string * fattr)) (xs xs' : list (string * value)) : Prop :=
    forall k fa, In (k, fa) l -> fa_ignore fa = false -> lookup k xs = lookup k xs'.

  Lemma spec_fields_ignored l : forall xs xs' ys ys',
    agree_on l xs xs' -> agree_on l ys ys' ->
    spec_fields_eq I l xs ys = spec_fields_eq I l xs' ys'.
  Proof.
    induction l as [|[k fa] r IH]; intros xs xs' ys ys' Hx Hy; [reflexivity|].
    cbn [spec_fields_eq forallb]. unfold spec_fields_eq in IH.
    rewrite (IH xs xs' ys ys').
    - destruct (fa_ignore fa) eqn:E; [reflexivity|].
      rewrite (Hx k fa (or_introl eq_refl) E), (Hy k fa (or_introl eq_refl) E). reflexivity.
    - intros k' fa' Hin. apply Hx. right. exact Hin.
    - intros k' fa' Hin. apply Hy. right. exact Hin.
  Qed.

  (** changing ignored fields of either operand (same variants) never changes `==` *)
  Theorem ignored_irrelevant c va xs xs' vb ys ys' l :
    vcfg_get va c = Some l ->
    agree_on l xs xs' -> agree_on l ys ys' ->
    spec_eq I c (VData va xs) (VData vb ys) = spec_eq I c (VData va xs') (VData vb ys').
  Proof.
    intros Hl Hx Hy. cbn [spec_eq]. rewrite Hl.
    rewrite (spec_fields_ignored l xs xs' ys ys' Hx Hy). reflexivity.
  Qed.

  (** ** laws *)
  Definition field_refl := forall fa x, field_eq I fa x x = true.
  Definition field_sym := forall fa x y, field_eq I fa x y = field_eq I fa y x.
  Definition field_trans := forall fa x y z, field_eq I fa x y = true -> field_eq I fa y z = true ->
                                             field_eq I fa x z = true.

  Lemma fields_refl l xs : field_refl -> map fst l = map fst xs -> spec_fields_eq I l xs xs = true.
  Proof.
    intros Hr Hk. unfold spec_fields_eq. apply forallb_forall. intros [k fa] Hin.
    destruct (fa_ignore fa); [reflexivity|]. cbn [orb].
    destruct (lookup_some_of_keys k xs) as [x Hx].
    { rewrite <- Hk. apply (in_map fst l (k, fa)). exact Hin. }
    rewrite Hx. apply Hr.
  Qed.


  Lemma fields_sym l xs ys : field_sym -> spec_fields_eq I l xs ys = spec_fields_eq I l ys xs.
  Proof.
    intros Hs. induction l as [|[k fa] r IH]; [reflexivity|].
    cbn [spec_fields_eq forallb]. unfold spec_fields_eq in IH. rewrite IH. f_equal. f_equal.
    destruct (lookup k xs), (lookup k ys); try reflexivity. apply Hs.
  Qed.

  Lemma fields_trans l xs ys zs : field_trans ->
    spec_fields_eq I l xs ys = true -> spec_fields_eq I l ys zs = true -> spec_fields_eq I l xs zs = true.
  Proof.
    intros Ht. induction l as [|[k fa] r IH]; [reflexivity|].
    cbn [spec_fields_eq forallb]. unfold spec_fields_eq in IH.
    intros H1 H2. apply andb_true_iff in H1 as [H1 H1r]. apply andb_true_iff in H2 as [H2 H2r].
    apply andb_true_iff. split; [|apply IH; assumption].
    destruct (fa_ignore fa); [reflexivity|]. cbn [orb] in *.
    destruct (lookup k xs) as [x|]; [|discriminate H1].
    destruct (lookup k ys) as [y|]; [|discriminate H1].
    destruct (lookup k zs) as [z|]; [|discriminate H2].
    eapply Ht; eassumption.
  Qed.

  Theorem eq_reflexive c a : field_refl -> value_ok c a = true -> spec_eq I c a a = Some true.
  Proof.
    intros Hr Ha. destruct a as [| | | | | |va xs| | | | |]; try discriminate Ha.
    cbn [value_ok] in Ha. cbn [spec_eq]. destruct (vcfg_get va c) as [l|]; [|discriminate Ha].
    apply shape_ok_keys in Ha. rewrite (fields_refl l xs Hr Ha).
    destruct va as [n|]; [rewrite String.eqb_refl|]; reflexivity.
  Qed.

  Theorem eq_symmetric c a b : field_sym -> value_ok c a = true -> value_ok c b = true ->
    spec_eq I c a b = spec_eq I c b a.
  Proof.
    intros Hs Ha Hb.
    destruct a as [| | | | | |va xs| | | | |]; try discriminate Ha.
    destruct b as [| | | | | |vb ys| | | | |]; try discriminate Hb.
    cbn [value_ok] in Ha, Hb. cbn [spec_eq].
    destruct (vcfg_get va c) as [la|] eqn:Ea; [|discriminate Ha].
    destruct (vcfg_get vb c) as [lb|] eqn:Eb; [|discriminate Hb].
    destruct va as [na|], vb as [nb|]; try reflexivity.
    - rewrite (String.eqb_sym nb na). destruct (String.eqb na nb) eqn:E; [|reflexivity].
      apply String.eqb_eq in E. subst nb. rewrite Ea in Eb. inversion Eb; subst lb.
      cbn [andb]. rewrite (fields_sym la xs ys Hs). reflexivity.
    - rewrite Ea in Eb. inversion Eb; subst lb. rewrite (fields_sym la xs ys Hs). reflexivity.
  Qed.

  Theorem eq_transitive c a b z : field_trans ->
    spec_eq I c a b = Some true -> spec_eq I c b z = Some true -> spec_eq I c a z = Some true.
  Proof.
    intros Ht H1 H2.
    destruct a as [| | | | | |va xs| | | | |]; try discriminate H1.
    destruct b as [| | | | | |vb ys| | | | |]; try discriminate H1.
    destruct z as [| | | | | |vz zs| | | | |]; try discriminate H2.
    cbn [spec_eq] in *.
    destruct (vcfg_get va c) as [la|] eqn:Ea; [|discriminate H1].
    destruct (vcfg_get vb c) as [lb|] eqn:Eb; [|discriminate H2].
    destruct va as [na|], vb as [nb|]; try discriminate H1.
    - destruct vz as [nz|]; [|discriminate H2].
      injection H1 as H1'. injection H2 as H2'.
      apply andb_true_iff in H1' as [E1 F1]. apply andb_true_iff in H2' as [E2 F2].
      apply String.eqb_eq in E1. apply String.eqb_eq in E2. subst nb nz.
      rewrite Ea in Eb. inversion Eb; subst lb.
      rewrite String.eqb_refl. cbn [andb]. f_equal. exact (fields_trans la xs ys zs Ht F1 F2).
    - destruct vz as [nz|]; [discriminate H2|].
      injection H1 as H1'. injection H2 as H2'.
      rewrite Ea in Eb. inversion Eb; subst lb.
      f_equal. exact (fields_trans la xs ys zs Ht H1' H2').
  Qed.
End Spec.

(** the PartialEq impl defines `eq` and nothing else: `a != b` is the
    trait's provided method `!(a == b)` *)
Theorem only_eq_defined F traits d m items it rest :
  expand_partial_eq F traits d m = Ok items -> items = it :: rest ->
  map (fun mb => match mb with MFn _ n _ _ _ => n | MType n _ => n end) (i_members it) = ["eq"].
Proof.
  intros He ->. unfold expand_partial_eq in He.
  destruct (d_data d).
  - apply bind_ok in He as [ta [_ He]]. apply bind_ok in He as [l [_ He]].
    inversion He. reflexivity.
  - apply bind_ok in He as [ta [_ He]]. apply bind_ok in He as [l [_ He]].
    inversion He. reflexivity.
  - apply bind_ok in He as [ta [_ He]]. destruct (negb (ta_unsafe ta)).
    + discriminate He.
    + apply bind_ok in He as [l [_ He]]. inversion He. reflexivity.
Qed.
