(** C15 reverse direction, group f: Debug *)
From Educe.Proofs Require Export P_C15d.
Section HandlersE_f.
  Variables (F : features) (keep : trait -> bool) (tr tr' : list trait).
  Hypothesis Htr : forall t, keep t = true -> has_trait t tr' = has_trait t tr.
  Notation rho := (restrict_attrs keep).
  Notation rf := (map_field (restrict_attrs keep)).
  Notation rv := (map_variant (restrict_attrs keep)).
  Notation rd := (map_dinput (restrict_attrs keep)).

  (** ** Debug *)
  Section DebugE.
    Hypothesis Hk : keep TDebug = true.

    Notation rl := (on_snd (A := nat) (on_fst (B := Expand_Debug.dfattr) rf)).

    Lemma debug_variant_attr_e b attrs : vattrs F tr attrs ->
      debug_variant_attr F tr' b (rho attrs) = debug_variant_attr F tr b attrs.
    Proof.
      intros Hv. unfold debug_variant_attr.
      rewrite (scan_e F keep tr tr' Htr TDebug _ attrs Hk Hv). reflexivity.
    Qed.

    Lemma debug_field_attr_e a b c attrs : vattrs F tr attrs ->
      debug_field_attr F tr' a b c (rho attrs) = debug_field_attr F tr a b c attrs.
    Proof.
      intros Hv. unfold debug_field_attr.
      rewrite (scan_e F keep tr tr' Htr TDebug _ attrs Hk Hv). reflexivity.
    Qed.

    Lemma debug_field_attrs_e en fs : Forall (vfield F tr) fs ->
      debug_field_attrs F tr' en (map rf fs) = omap (map rl) (debug_field_attrs F tr en fs).
    Proof.
      intros Hfs. unfold debug_field_attrs.
      rewrite (mapM_e (vfield F tr)
                 (fun f => let* fa := debug_field_attr F tr en true true (f_attrs f) in Ok (f, fa))
                 (fun f => let* fa := debug_field_attr F tr' en true true (f_attrs f) in Ok (f, fa))
                 rf (on_fst rf) fs); [| |exact Hfs].
      - destruct (mapM (fun f => let* fa := debug_field_attr F tr en true true (f_attrs f) in Ok (f, fa)) fs);
          cbn [omap bind]; try reflexivity.
        rewrite indexed_map. reflexivity.
      - intros f Hf. cbn [map_field f_attrs]. rewrite (debug_field_attr_e _ _ _ _ Hf).
        destruct (debug_field_attr F tr en true true (f_attrs f)); reflexivity.
    Qed.

    Lemma debug_variant_e name v : vvariant F tr v ->
      debug_variant F tr' name (rv v) = omap (rdv keep) (debug_variant F tr name v).
    Proof.
      intros [Hva Hvf]. unfold debug_variant. cbn [map_variant v_attrs v_fields v_name].
      assert (Hnamed : match map_fields rho (v_fields v) with FNamed _ => true | _ => false end
                       = match v_fields v with FNamed _ => true | _ => false end)
        by (destruct (v_fields v); reflexivity).
      rewrite Hnamed. rewrite (debug_variant_attr_e _ _ Hva).
      destruct (debug_variant_attr F tr _ (v_attrs v)) as [ta| | |]; cbn [omap bind]; try reflexivity.
      destruct (v_fields v) as [fs|fs|]; cbn [map_fields fields_list] in *.
      - rewrite (debug_field_attrs_e _ _ Hvf).
        destruct (debug_field_attrs F tr (dt_named_field ta) fs) as [l| | |]; cbn [omap bind]; try reflexivity.
        rewrite has_shown_r.
        destruct (negb (has_shown l) && negb (is_some (name_string name (tname_ident (dt_name ta) (v_name v)))));
          reflexivity.
      - rewrite (debug_field_attrs_e _ _ Hvf).
        destruct (debug_field_attrs F tr (dt_named_field ta) fs) as [l| | |]; cbn [omap bind]; try reflexivity.
        rewrite has_shown_r.
        destruct (negb (has_shown l) && negb (is_some (name_string name (tname_ident (dt_name ta) (v_name v)))));
          reflexivity.
      - destruct (is_some (name_string name (tname_ident (dt_name ta) (v_name v)))); reflexivity.
    Qed.

    Theorem expand_debug_e d m : vinput F tr d ->
      expand_debug F tr' (rd d) m = expand_debug F tr d m.
    Proof.
      intros [_ Hvd]. unfold expand_debug. cbn [map_dinput d_data d_name d_generics].
      destruct (d_data d) as [fs|vs|fs]; cbn [map_data vdata] in *.
      - assert (Htup : match map_fields rho fs with FUnnamed _ => true | _ => false end
                       = match fs with FUnnamed _ => true | _ => false end) by (destruct fs; reflexivity).
        rewrite Htup.
        destruct (Expand_Debug.build_dtattr _ m) as [ta| | |]; cbn [bind]; try reflexivity.
        rewrite fields_list_map, (debug_field_attrs_e _ _ Hvd).
        destruct (debug_field_attrs F tr (dt_named_field ta) (fields_list fs)) as [l| | |];
          cbn [omap bind]; try reflexivity.
        rewrite has_shown_r, dbg_types_r.
        destruct (negb (has_shown l) && negb (is_some (tname_ident (dt_name ta) (d_name d))));
          [reflexivity|].
        rewrite <- (dbg_struct_body_r keep d). reflexivity.
      - destruct (Expand_Debug.build_dtattr _ m) as [ta| | |]; cbn [bind]; try reflexivity.
        rewrite (mapM_e (vvariant F tr)
                   (debug_variant F tr (tname_ident (dt_name ta) (d_name d)))
                   (debug_variant F tr' (tname_ident (dt_name ta) (d_name d)))
                   rv (rdv keep) vs (debug_variant_e _) Hvd).
        destruct (mapM (debug_variant F tr (tname_ident (dt_name ta) (d_name d))) vs) as [dvs| | |];
          cbn [omap bind]; try reflexivity.
        rewrite is_nil_map, dbg_variant_types_r.
        destruct (is_nil dvs && negb (is_some (tname_ident (dt_name ta) (d_name d)))); [reflexivity|].
        rewrite <- (dbg_enum_body_r keep d). reflexivity.
      - destruct (Expand_Debug.build_dtattr _ m) as [ta| | |]; cbn [bind]; try reflexivity.
        destruct (negb (dt_unsafe ta)); [reflexivity|].
        rewrite (mapM_e0 (vfield F tr)
                   (fun f => debug_field_attr F tr false false false (f_attrs f))
                   (fun f => debug_field_attr F tr' false false false (f_attrs f))
                   rf fs); [reflexivity| |exact Hvd].
        intros f Hf. cbn [map_field f_attrs]. apply debug_field_attr_e. exact Hf.
    Qed.
  End DebugE.
End HandlersE_f.
