(** C19 / H3 -- the hasher parameter of `fn hash<H: Hasher>` differs from every
    type and const parameter of the type. *)
From Educe.Spec Require Export Hygiene.

(** the number of type / const parameters whose name is at least [n] characters long *)
Definition long_name (n : nat) (g : gparam) : bool :=
  match gparam_tc_name g with Some x => Nat.leb n (String.length x) | None => false end.
Definition count_long (n : nat) (ps : list gparam) : nat := List.length (filter (long_name n) ps).

Lemma append_length a b : String.length (a ^^ b) = String.length a + String.length b.
Proof. induction a as [|c a IH]; cbn; [reflexivity|]. rewrite IH. reflexivity. Qed.

Lemma count_long_le n ps : count_long n ps <= List.length ps.
Proof.
  unfold count_long. induction ps as [|g ps IH]; cbn [filter List.length]; [lia|].
  destruct (long_name n g); cbn [List.length]; lia.
Qed.

Lemma filter_le {A} (p q : A -> bool) l :
  (forall x, p x = true -> q x = true) ->
  List.length (filter p l) <= List.length (filter q l).
Proof.
  intros H. induction l as [|x l IH]; cbn [filter]; [lia|].
  destruct (p x) eqn:Ep.
  - rewrite (H x Ep). cbn [List.length]. lia.
  - destruct (q x); cbn [List.length]; lia.
Qed.

Lemma filter_lt {A} (p q : A -> bool) l x :
  (forall x, p x = true -> q x = true) -> In x l -> q x = true -> p x = false ->
  List.length (filter p l) < List.length (filter q l).
Proof.
  intros H Hin Hq Hp. induction l as [|y l IH]; [destruct Hin|].
  cbn [filter]. destruct Hin as [->|Hin].
  - rewrite Hp, Hq. cbn [List.length]. pose proof (filter_le p q l H). lia.
  - specialize (IH Hin). destruct (p y) eqn:Ep.
    + rewrite (H y Ep). cbn [List.length]. lia.
    + destruct (q y); cbn [List.length]; lia.
Qed.

(** a used candidate occupies one of the parameters counted at its length, and is
    not counted one character further *)
Lemma used_count_drop ps n :
  name_used ps n = true -> count_long (S (String.length n)) ps < count_long (String.length n) ps.
Proof.
  unfold name_used, count_long. intros H. apply existsb_exists in H. destruct H as [g [Hin Hg]].
  apply (filter_lt _ _ ps g).
  - intros x. unfold long_name. destruct (gparam_tc_name x) as [y|]; [|discriminate].
    intros E. apply Nat.leb_le in E. apply Nat.leb_le. lia.
  - exact Hin.
  - unfold long_name. destruct (gparam_tc_name g) as [y|]; [|discriminate Hg].
    apply String.eqb_eq in Hg. subst y. apply Nat.leb_refl.
  - unfold long_name. destruct (gparam_tc_name g) as [y|]; [|reflexivity].
    apply String.eqb_eq in Hg. subst y. apply Nat.leb_gt. lia.
Qed.

Lemma fresh_from_fresh : forall fuel ps n,
  count_long (String.length n) ps < fuel -> name_used ps (fresh_from fuel ps n) = false.
Proof.
  induction fuel as [|fuel IH]; intros ps n H; [lia|].
  cbn [fresh_from]. destruct (name_used ps n) eqn:Eu; [|exact Eu].
  apply IH. rewrite append_length. cbn [String.length].
  pose proof (used_count_drop ps n Eu) as Hd.
  replace (String.length n + 1) with (S (String.length n)) by lia. lia.
Qed.

Theorem hasher_ident_unused g : name_used (g_params g) (hasher_ident g) = false.
Proof.
  unfold hasher_ident. apply fresh_from_fresh.
  pose proof (count_long_le (String.length "__H") (g_params g)). lia.
Qed.

(** ... spelled out: no type or const parameter has the hasher's name *)
Theorem hasher_ident_fresh g p n :
  In p (g_params g) -> gparam_tc_name p = Some n -> n <> hasher_ident g.
Proof.
  intros Hin Hn E. pose proof (hasher_ident_unused g) as H. unfold name_used in H.
  assert (Ht : existsb (fun g0 => match gparam_tc_name g0 with
                                  | Some x => String.eqb x (hasher_ident g)
                                  | None => false
                                  end) (g_params g) = true).
  { apply existsb_exists. exists p. split; [exact Hin|]. rewrite Hn, E. apply String.eqb_refl. }
  rewrite Ht in H. discriminate H.
Qed.

(** the candidates are `__H`, `__H_`, `__H__`, ..: the name starts with `__H`, so it is
    none of the identifiers the templates use (all lower-case or `Self` / `Educe__..`) *)
Lemma fresh_from_prefix : forall fuel ps n, exists k, fresh_from fuel ps n = n ^^ k.
Proof.
  induction fuel as [|fuel IH]; intros ps n; cbn [fresh_from].
  - exists "". induction n as [|c n IHn]; cbn; [reflexivity|]. f_equal. exact IHn.
  - destruct (name_used ps n).
    + destruct (IH ps (n ^^ "_")) as [k Hk]. exists ("_" ^^ k). rewrite Hk.
      clear. induction n as [|c n IHn]; cbn; [reflexivity|]. f_equal. exact IHn.
    + exists "". clear. induction n as [|c n IHn]; cbn; [reflexivity|]. f_equal. exact IHn.
Qed.

Theorem hasher_ident_prefix g : exists k, hasher_ident g = "__H" ^^ k.
Proof. apply fresh_from_prefix. Qed.

Theorem hasher_ident_not_template g : mem_str (hasher_ident g) template_idents = false.
Proof. destruct (hasher_ident_prefix g) as [k ->]. reflexivity. Qed.
