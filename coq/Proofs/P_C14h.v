(** C14, part h: PartialOrd and Ord. *)
From Educe.Proofs Require Export P_C14g.

(** ** attributes *)
Lemma own_ord_ext F traits traits' :
  (forall t, has_trait t traits = has_trait t traits') ->
  forall t, own_ord F traits t = own_ord F traits' t.
Proof. intros H t. unfold own_ord. rewrite H. reflexivity. Qed.

Lemma own_ord_names F traits t : own_ord F traits t = true -> t = TOrd \/ t = TPartialOrd.
Proof. unfold own_ord. destruct t; cbn; rewrite ?andb_false_r; intros H; try discriminate; auto. Qed.

(** what the lemmas below need of the scanner's [own] *)
Definition ord_own (own : trait -> bool) : Prop :=
  forall t, own t = true -> t = TOrd \/ t = TPartialOrd.

Lemma ord_own_partial : ord_own (trait_eqb TPartialOrd).
Proof. intros t H. apply trait_eqb_eq in H. auto. Qed.

Lemma ord_ofattr_respects F own pos ei em er rank :
  ord_own own -> build_respects F own (build_ofattr ei em er rank) pos.
Proof.
  intros Ho m m' H t Et Eo. apply (build_ofattr_equiv pos ei em er rank m m' H (trait_name t)).
  - exact (trait_from_path_name F _ t Et).
  - destruct (Ho t Eo) as [-> | ->]; cbn; auto.
Qed.

Lemma ord_tattr_respects F own pos ef eu eb :
  ord_own own -> pos <> PField -> build_respects F own (build_tattr ef eu eb) pos.
Proof.
  intros Ho Hpos m m' H t Et Eo. apply (build_tattr_equiv pos ef eu eb m m' Hpos H (trait_name t)).
  - exact (trait_from_path_name F _ t Et).
  - destruct (Ho t Eo) as [-> | ->]; cbn; auto 10.
Qed.

Lemma ord_field_attr_spelling F own own' traits traits' index attrs attrs' :
  ord_own own -> (forall t, own t = own' t) ->
  (forall t, has_trait t traits = has_trait t traits') ->
  field_attrs_equiv F traits attrs attrs' ->
  osim (ord_field_attr F own traits index attrs) (ord_field_attr F own' traits' index attrs').
Proof.
  intros Ho Hoo Ht H.
  apply (scan_default_spelling F own own' (build_ofattr true true true (default_rank index))
           traits traits'
           {| oa_ignore := false; oa_method := None; oa_rank := default_rank index |});
    [exact Ht|exact Hoo| |intros p t _ _ _; reflexivity|apply ord_ofattr_respects; exact Ho|exact H].
  intros t1 t2 H1 H2. destruct (Ho t1 H1) as [-> | ->]; destruct (Ho t2 H2) as [-> | ->]; cbn; auto.
Qed.

Lemma ord_variant_attr_spelling F own own' traits traits' attrs attrs' :
  ord_own own -> (forall t, own t = own' t) ->
  (forall t, has_trait t traits = has_trait t traits') ->
  variant_attrs_equiv attrs attrs' ->
  osim (ord_variant_attr F own traits attrs) (ord_variant_attr F own' traits' attrs').
Proof.
  intros Ho Hoo Ht H. unfold ord_variant_attr. apply osim_bind; [|intros o; apply osim_refl].
  apply (scan_attrs_spelling F _ _ _ traits traits' PVariant); auto.
  apply ord_tattr_respects; [exact Ho|discriminate].
Qed.

(** ** the rank-sorted plan *)
Definition OFR (x y : ofield) : Prop :=
  fst (fst x) = fst (fst y) /\ fsame (snd (fst x)) (snd (fst y)) /\ snd x = snd y.
Definition KOFR (x y : Z * ofield) : Prop := fst x = fst y /\ OFR (snd x) (snd y).
Definition PLR (p p' : fplan) : Prop :=
  Forall2 OFR (fp_declared p) (fp_declared p') /\ Forall2 KOFR (fp_sorted p) (fp_sorted p').

Lemma rank_mem_same k (m m' : list (Z * ofield)) : Forall2 KOFR m m' -> rank_mem k m = rank_mem k m'.
Proof.
  induction 1 as [|[k1 x] [k2 y] m m' [Hk _] _ IH]; cbn [rank_mem]; [reflexivity|].
  cbn [fst] in Hk. subst k2. rewrite IH. reflexivity.
Qed.

Lemma rank_insert_same k x y (m m' : list (Z * ofield)) :
  OFR x y -> Forall2 KOFR m m' -> Forall2 KOFR (rank_insert k x m) (rank_insert k y m').
Proof.
  intros Hxy. induction 1 as [|[k1 a] [k2 b] m m' Hab Hm IH]; cbn [rank_insert].
  - constructor; [split; [reflexivity|exact Hxy]|constructor].
  - pose proof Hab as [Hk Hab']. cbn [fst snd] in Hk, Hab'. subst k2.
    destruct (k <? k1)%Z.
    + constructor; [split; [reflexivity|exact Hxy]|]. constructor; [exact Hab|exact Hm].
    + constructor; [exact Hab|exact IH].
Qed.

Lemma Forall2_app_one {A B} (R : A -> B -> Prop) l l' x y :
  Forall2 R l l' -> R x y -> Forall2 R (l ++ [x]) (l' ++ [y]).
Proof. intros H Hxy. apply Forall2_app; [exact H|constructor; [exact Hxy|constructor]]. Qed.

Lemma plan_fields_spelling F own own' traits traits' fs fs' :
  ord_own own -> (forall t, own t = own' t) ->
  (forall t, has_trait t traits = has_trait t traits') ->
  Forall2 (field_equiv (field_attrs_equiv F traits)) fs fs' ->
  osimR PLR (plan_fields F own traits fs) (plan_fields F own' traits' fs').
Proof.
  intros Ho Hoo Ht H. unfold plan_fields, indexed.
  apply (foldM_osimR PLR
           (fun x y => fst x = fst y /\ field_equiv (field_attrs_equiv F traits) (snd x) (snd y)));
    [|apply Forall2_index_from; exact H|split; constructor].
  intros p p' [i f] [i' f'] [Hd Hs] [Hi Hf]. cbn [fst snd] in Hi, Hf. subst i'. unfold plan_field.
  eapply (osimR_bind eq);
    [exact (ord_field_attr_spelling F own own' traits traits' i _ _ Ho Hoo Ht (fe_attrs _ _ _ Hf))|].
  intros fa fa' <-.
  assert (Hx : OFR (i, f, fa) (i, f', fa)).
  { split; [reflexivity|]. split; [exact (field_equiv_fsame _ _ _ Hf)|reflexivity]. }
  destruct (oa_ignore fa).
  - cbn [osimR]. split; cbn [fp_declared fp_sorted]; [apply Forall2_app_one; assumption|exact Hs].
  - rewrite (rank_mem_same (oa_rank fa) _ _ Hs). destruct (rank_mem (oa_rank fa) (fp_sorted p'));
      [exact Logic.I|].
    cbn [osimR]. split; cbn [fp_declared fp_sorted]; [apply Forall2_app_one; assumption|].
    apply rank_insert_same; assumption.
Qed.

(** ** emission *)
Ltac osame :=
  unfold ofield in *;
  repeat match goal with
  | x : (_ * _)%type |- _ => destruct x
  | f : field |- _ => destruct f
  end;
  unfold KOFR, OFR, fsame in *; cbn [fst snd f_name f_ty] in *;
  repeat match goal with H : _ /\ _ |- _ => destruct H end; subst; reflexivity.

Lemma sorted_fields_same p p' : PLR p p' -> Forall2 OFR (sorted_fields p) (sorted_fields p').
Proof.
  intros [_ H]. unfold sorted_fields. induction H as [|x y l l' [_ Hxy] _ IH]; cbn [map]; constructor; auto.
Qed.

Lemma ord_types_same p p' : PLR p p' -> ord_types p = ord_types p'.
Proof.
  intros H. unfold ord_types. apply (flat_map_Forall2 OFR); [exact (sorted_fields_same p p' H)|].
  intros; osame.
Qed.

Lemma cmp_struct_body_same partial p p' : PLR p p' -> cmp_struct_body partial p = cmp_struct_body partial p'.
Proof.
  intros H. unfold cmp_struct_body. f_equal.
  apply (map_Forall2 OFR); [exact (sorted_fields_same p p' H)|]. intros; osame.
Qed.

Definition VPR (v v' : vplan) : Prop :=
  match v, v' with
  | VPUnit n, VPUnit n' => n = n'
  | VPNamed n p, VPNamed n' p' => n = n' /\ PLR p p'
  | VPUnnamed n p, VPUnnamed n' p' => n = n' /\ PLR p p'
  | _, _ => False
  end.

Lemma cmp_arm_same partial v v' : VPR v v' -> cmp_arm partial v = cmp_arm partial v'.
Proof.
  destruct v as [n|n p|n p], v' as [n'|n' p'|n' p']; try contradiction; cbn [VPR cmp_arm].
  - intros ->. reflexivity.
  - intros [-> H]. pose proof (sorted_fields_same p p' H) as Hs. destruct H as [Hd _].
    unfold cmp_arm_named.
    assert (E1 : forall pre,
       map (fun '(_, f, fa) => (named_of f, Some (if oa_ignore fa then PWild
                                                  else PBind (pre ^^ unraw (named_of f))))) (fp_declared p)
       = map (fun '(_, f, fa) => (named_of f, Some (if oa_ignore fa then PWild
                                                  else PBind (pre ^^ unraw (named_of f))))) (fp_declared p')).
    { intros pre. apply (map_Forall2 OFR); [exact Hd|]. intros; osame. }
    rewrite !E1. f_equal. f_equal. f_equal. f_equal.
    apply (map_Forall2 OFR); [exact Hs|]. intros; osame.
  - intros [-> H]. pose proof (sorted_fields_same p p' H) as Hs. destruct H as [Hd _].
    unfold cmp_arm_unnamed.
    assert (E1 : forall pre,
       map (fun '(i, _, fa) => if oa_ignore fa then PWild else PBind (pre ^^ dec i)) (fp_declared p)
       = map (fun '(i, _, fa) => if oa_ignore fa then PWild else PBind (pre ^^ dec i)) (fp_declared p')).
    { intros pre. apply (map_Forall2 OFR); [exact Hd|]. intros; osame. }
    rewrite !E1. f_equal. f_equal. f_equal. f_equal.
    apply (map_Forall2 OFR); [exact Hs|]. intros; osame.
Qed.

Lemma forallb_Forall2 {A B} (R : A -> B -> Prop) (f : A -> bool) (g : B -> bool) l l' :
  Forall2 R l l' -> (forall a b, R a b -> f a = g b) -> forallb f l = forallb g l'.
Proof. intros H Hf. induction H; cbn [forallb]; [reflexivity|]. rewrite (Hf _ _ H), IHForall2. reflexivity. Qed.

Lemma cmp_enum_body_same partial ds vs vs' :
  Forall2 VPR vs vs' -> cmp_enum_body partial ds vs = cmp_enum_body partial ds vs'.
Proof.
  intros H. unfold cmp_enum_body. rewrite (Forall2_is_nil _ _ _ H).
  rewrite (forallb_Forall2 VPR vplan_is_unit vplan_is_unit vs vs' H).
  - rewrite (map_Forall2 VPR (cmp_arm partial) (cmp_arm partial) vs vs' H (cmp_arm_same partial)).
    reflexivity.
  - intros v v'. destruct v, v'; cbn; try contradiction; reflexivity.
Qed.

Lemma vplan_types_same vs vs' : Forall2 VPR vs vs' -> flat_map vplan_types vs = flat_map vplan_types vs'.
Proof.
  intros H. apply (flat_map_Forall2 VPR); [exact H|].
  intros v v'. destruct v, v'; cbn [VPR vplan_types]; try contradiction; try reflexivity;
    intros [_ Hp]; exact (ord_types_same _ _ Hp).
Qed.

Lemma plan_variant_spelling F own own' traits traits' v v' :
  ord_own own -> (forall t, own t = own' t) ->
  (forall t, has_trait t traits = has_trait t traits') ->
  variant_equiv F traits v v' ->
  osimR VPR (plan_variant F own traits v) (plan_variant F own' traits' v').
Proof.
  intros Ho Hoo Ht [Hn _ Ha Hf]. unfold plan_variant. rewrite <- Hn.
  eapply (osimR_bind eq); [exact (ord_variant_attr_spelling F own own' traits traits' _ _ Ho Hoo Ht Ha)|].
  intros _ _ _. destruct Hf as [l l' Hl|l l' Hl|].
  - eapply osimR_bind; [exact (plan_fields_spelling F own own' traits traits' l l' Ho Hoo Ht Hl)|].
    intros p p' Hp. split; [reflexivity|exact Hp].
  - eapply osimR_bind; [exact (plan_fields_spelling F own own' traits traits' l l' Ho Hoo Ht Hl)|].
    intros p p' Hp. split; [reflexivity|exact Hp].
  - reflexivity.
Qed.

Lemma discr_values_from_same F traits vs vs' :
  Forall2 (variant_equiv F traits) vs vs' ->
  forall c, discr_values_from c vs = discr_values_from c vs'.
Proof.
  induction 1 as [|v v' l l' [Hn Hd _ _] _ IH]; intros c; cbn [discr_values_from]; [reflexivity|].
  rewrite <- Hn, <- Hd.
  destruct (match v_discr v with Some ts => discr_value ts | None => Ok c end); cbn [bind]; try reflexivity.
  rewrite IH. reflexivity.
Qed.

Lemma partial_ord_item_same d d' g body :
  d_name d = d_name d' -> partial_ord_item d g body = partial_ord_item d' g body.
Proof. intros Hn. unfold partial_ord_item. rewrite Hn. reflexivity. Qed.

Theorem expand_partial_ord_spelling F traits traits' d d' m m' :
  (forall t, has_trait t traits = has_trait t traits') ->
  d_name d = d_name d' -> d_generics d = d_generics d' ->
  data_equiv F traits (d_data d) (d_data d') ->
  tmeta_equiv PType m m' -> get_ident (meta_path m) = Some "PartialOrd"%string ->
  osim (expand_partial_ord F traits d m) (expand_partial_ord F traits' d' m').
Proof.
  intros Ht Hn Hg Hd Hm Hp. unfold expand_partial_ord. rewrite <- Ht, <- Hg.
  assert (Hta : forall ef eu eb, osim (build_tattr ef eu eb m) (build_tattr ef eu eb m')).
  { intros. apply (tmeta_type_tattr ef eu eb m m' _ Hm Hp). cbn. auto 10. }
  destruct (has_trait TOrd F && has_trait TOrd traits).
  { apply osim_bind; [apply Hta|]. intros _. apply osim_refl. }
  destruct Hd as [fs fs' Hfs|vs vs' Hvs|fs fs' Hfs]; [| |exact Logic.I].
  - apply osim_bind; [apply Hta|]. intros ta.
    eapply osimR_bind.
    + apply (plan_fields_spelling F _ _ traits traits' _ _ ord_own_partial (fun _ => eq_refl) Ht).
      exact (fields_equiv_list _ _ _ Hfs).
    + intros p p' Hpl. cbn [osimR].
      rewrite (ord_types_same p p' Hpl), (cmp_struct_body_same true p p' Hpl),
              (partial_ord_item_same d d' _ _ Hn). reflexivity.
  - apply osim_bind; [apply Hta|]. intros ta.
    unfold discriminant_values. rewrite (discr_values_from_same F traits vs vs' Hvs).
    apply osim_bind; [apply osim_refl|]. intros ty.
    eapply osimR_bind.
    + apply (mapM_osimR (variant_equiv F traits) VPR); [|exact Hvs].
      intros v v' Hv.
      exact (plan_variant_spelling F _ _ traits traits' v v' ord_own_partial (fun _ => eq_refl) Ht Hv).
    + intros vps vps' Hv. cbn [osimR].
      rewrite (vplan_types_same vps vps' Hv), (cmp_enum_body_same true ty vps vps' Hv),
              (partial_ord_item_same d d' _ _ Hn). reflexivity.
Qed.

Lemma ord_items_same F traits traits' d d' g body :
  (forall t, has_trait t traits = has_trait t traits') -> d_name d = d_name d' ->
  ord_items F traits d g body = ord_items F traits' d' g body.
Proof.
  intros Ht Hn. unfold ord_items, ord_item. rewrite Ht, Hn, (partial_ord_item_same d d' _ _ Hn).
  reflexivity.
Qed.

Theorem expand_ord_spelling F traits traits' d d' m m' :
  (forall t, has_trait t traits = has_trait t traits') ->
  d_name d = d_name d' -> d_generics d = d_generics d' ->
  data_equiv F traits (d_data d) (d_data d') ->
  tmeta_equiv PType m m' -> get_ident (meta_path m) = Some "Ord"%string ->
  osim (expand_ord F traits d m) (expand_ord F traits' d' m').
Proof.
  intros Ht Hn Hg Hd Hm Hp. unfold expand_ord. rewrite <- Hg.
  assert (Hta : forall ef eu eb, osim (build_tattr ef eu eb m) (build_tattr ef eu eb m')).
  { intros. apply (tmeta_type_tattr ef eu eb m m' _ Hm Hp). cbn. auto 10. }
  assert (Hsup : ord_supertraits F traits = ord_supertraits F traits').
  { unfold ord_supertraits. rewrite Ht. reflexivity. }
  rewrite <- Hsup.
  destruct Hd as [fs fs' Hfs|vs vs' Hvs|fs fs' Hfs]; [| |exact Logic.I].
  - apply osim_bind; [apply Hta|]. intros ta.
    eapply osimR_bind.
    + apply (plan_fields_spelling F _ _ traits traits' _ _ (own_ord_names F traits)
               (own_ord_ext F traits traits' Ht) Ht).
      exact (fields_equiv_list _ _ _ Hfs).
    + intros p p' Hpl. cbn [osimR].
      rewrite (ord_types_same p p' Hpl), (cmp_struct_body_same false p p' Hpl),
              (ord_items_same F traits traits' d d' _ _ Ht Hn). reflexivity.
  - apply osim_bind; [apply Hta|]. intros ta.
    unfold discriminant_values. rewrite (discr_values_from_same F traits vs vs' Hvs).
    apply osim_bind; [apply osim_refl|]. intros ty.
    eapply osimR_bind.
    + apply (mapM_osimR (variant_equiv F traits) VPR); [|exact Hvs].
      intros v v' Hv.
      exact (plan_variant_spelling F _ _ traits traits' v v' (own_ord_names F traits)
               (own_ord_ext F traits traits' Ht) Ht Hv).
    + intros vps vps' Hv. cbn [osimR].
      rewrite (vplan_types_same vps vps' Hv), (cmp_enum_body_same false ty vps vps' Hv),
              (ord_items_same F traits traits' d d' _ _ Ht Hn). reflexivity.
Qed.
