(** C15 reverse direction, group d : Default *)
From Educe.Proofs Require Export P_C15d.
Section HandlersE_d.
  Variables (F : features) (keep : trait -> bool) (tr tr' : list trait).
  Hypothesis Htr : forall t, keep t = true -> has_trait t tr' = has_trait t tr.
  Notation rho := (restrict_attrs keep).
  Notation rf := (map_field (restrict_attrs keep)).
  Notation rv := (map_variant (restrict_attrs keep)).
  Notation rd := (map_dinput (restrict_attrs keep)).

  Section Default.
    Hypothesis Hk : keep TDefault = true.

    Lemma default_variant_attr_e fl attrs : vattrs F tr attrs ->
      default_variant_attr F tr' fl (rho attrs) = default_variant_attr F tr fl attrs.
    Proof.
      intros Hv. unfold default_variant_attr.
      rewrite (scan_e F keep tr tr' Htr TDefault _ attrs Hk Hv). reflexivity.
    Qed.

    Lemma default_field_attr_e a b f : vfield F tr f ->
      default_field_attr F tr' a b (rf f) = default_field_attr F tr a b f.
    Proof.
      intros Hv. unfold default_field_attr. cbn [map_field f_attrs f_ty].
      rewrite (scan_e F keep tr tr' Htr TDefault _ (f_attrs f) Hk Hv). reflexivity.
    Qed.

    Lemma ensure_no_attribute_e fs : Forall (vfield F tr) fs ->
      ensure_no_attribute F tr' (map rf fs) = ensure_no_attribute F tr fs.
    Proof.
      intros Hv. unfold ensure_no_attribute.
      rewrite (mapM_e0 (vfield F tr) (default_field_attr F tr false false)
                 (default_field_attr F tr' false false) rf fs
                 (fun x Hx => default_field_attr_e false false x Hx) Hv).
      reflexivity.
    Qed.

    Lemma default_field_value_e f : vfield F tr f ->
      default_field_value F tr' (rf f) = default_field_value F tr f.
    Proof.
      intros Hv. unfold default_field_value. rewrite (default_field_attr_e _ _ _ Hv).
      destruct (default_field_attr F tr false true f); reflexivity.
    Qed.

    Lemma default_fields_body_e p fs : Forall (vfield F tr) (fields_list fs) ->
      default_fields_body F tr' p (map_fields rho fs) = default_fields_body F tr p fs.
    Proof.
      intros Hv. unfold default_fields_body. destruct fs as [l|l|]; cbn [map_fields fields_list] in *;
        [| |reflexivity].
      - rewrite (mapM_e0 (vfield F tr)
                   (fun f => let* v := default_field_value F tr f in Ok (field_name f, v))
                   (fun f => let* v := default_field_value F tr' f in Ok (field_name f, v)) rf l);
          [reflexivity| |exact Hv].
        intros x Hx. rewrite (default_field_value_e _ Hx). reflexivity.
      - rewrite (mapM_e0 (vfield F tr) (default_field_value F tr) (default_field_value F tr') rf l
                   default_field_value_e Hv).
        reflexivity.
    Qed.

    Lemma select_variant_step_e s v : vvariant F tr v ->
      select_variant_step F tr' (option_map rv s) (rv v)
      = omap (option_map rv) (select_variant_step F tr s v).
    Proof.
      intros [Hva Hvf]. unfold select_variant_step. cbn [map_variant v_attrs v_fields].
      rewrite (default_variant_attr_e _ _ Hva).
      destruct (default_variant_attr F tr true (v_attrs v)) as [ta| | |]; cbn [bind omap]; try reflexivity.
      destruct (dt_flag ta).
      - destruct s; reflexivity.
      - rewrite fields_list_map, (ensure_no_attribute_e _ Hvf).
        destruct (ensure_no_attribute F tr (fields_list (v_fields v))); reflexivity.
    Qed.

    Lemma select_variant_e vs : Forall (vvariant F tr) vs ->
      select_variant F tr' (map rv vs) = omap rv (select_variant F tr vs).
    Proof.
      intros Hv. unfold select_variant.
      pose proof (foldM_e (vvariant F tr) (select_variant_step F tr) (select_variant_step F tr')
                    rv (option_map rv) vs (fun s x Hx => select_variant_step_e s x Hx) Hv None) as Hgen.
      cbn [option_map] in Hgen.
      destruct vs as [|v1 [|v2 l]].
      - reflexivity.
      - cbn [map map_variant v_attrs]. inversion Hv as [|? ? [Hva _] _]; subst.
        rewrite (default_variant_attr_e _ _ Hva).
        destruct (default_variant_attr F tr true (v_attrs v1)); reflexivity.
      - change (map rv (v1 :: v2 :: l)) with (rv v1 :: rv v2 :: map rv l) in *. rewrite Hgen.
        destruct (foldM (select_variant_step F tr) None (v1 :: v2 :: l)) as [o| | |];
          cbn [bind omap]; try reflexivity.
        destruct o; reflexivity.
    Qed.

    (** the selected variant is one of the list *)
    Lemma select_variant_fold_P (P : variant -> Prop) vs : Forall P vs -> forall s o,
      (forall v, s = Some v -> P v) ->
      foldM (select_variant_step F tr) s vs = Ok o -> forall v, o = Some v -> P v.
    Proof.
      intros Hv. induction Hv as [|x l Hx Hl IH]; intros s o Hs H; cbn [foldM] in H.
      - injection H as <-. exact Hs.
      - bo H. apply (IH a o); [|exact H].
        unfold select_variant_step in Hb. bo Hb. destruct (dt_flag a0).
        + destruct s; [discriminate|]. injection Hb as <-. intros v E. injection E as <-. exact Hx.
        + bo Hb. injection Hb as <-. exact Hs.
    Qed.

    Lemma select_variant_P (P : variant -> Prop) vs v : Forall P vs ->
      select_variant F tr vs = Ok v -> P v.
    Proof.
      intros Hv H. unfold select_variant in H.
      assert (Hgen : forall o, foldM (select_variant_step F tr) None vs = Ok o ->
                               forall w, o = Some w -> P w).
      { intros o Ho. apply (select_variant_fold_P P vs Hv None o); [discriminate|exact Ho]. }
      destruct vs as [|v1 [|v2 l]].
      - bo H. destruct a; [|discriminate]. injection H as <-. apply (Hgen _ Hb). reflexivity.
      - bo H. injection H as <-. inversion Hv; subst. assumption.
      - bo H. destruct a; [|discriminate]. injection H as <-. apply (Hgen _ Hb). reflexivity.
    Qed.

    Lemma select_field_step_e s f : vfield F tr f ->
      select_field_step F tr' (option_map (on_fst rf) s) (rf f)
      = omap (option_map (on_fst rf)) (select_field_step F tr s f).
    Proof.
      intros Hv. unfold select_field_step. rewrite (default_field_attr_e _ _ _ Hv).
      destruct (default_field_attr F tr true true f) as [fa| | |]; cbn [bind omap]; try reflexivity.
      destruct (df_flag fa || match df_expr fa with Some _ => true | None => false end).
      - destruct s; reflexivity.
      - reflexivity.
    Qed.

    Lemma select_field_e fs : Forall (vfield F tr) fs ->
      select_field F tr' (map rf fs) = omap (on_fst rf) (select_field F tr fs).
    Proof.
      intros Hv. unfold select_field.
      pose proof (foldM_e (vfield F tr) (select_field_step F tr) (select_field_step F tr')
                    rf (option_map (on_fst rf)) fs (fun s x Hx => select_field_step_e s x Hx) Hv None)
        as Hgen.
      cbn [option_map] in Hgen.
      destruct fs as [|f1 [|f2 l]].
      - reflexivity.
      - cbn [map]. inversion Hv as [|? ? Hv1 _]; subst.
        rewrite (default_field_attr_e _ _ _ Hv1).
        destruct (default_field_attr F tr true true f1); reflexivity.
      - change (map rf (f1 :: f2 :: l)) with (rf f1 :: rf f2 :: map rf l) in *. rewrite Hgen.
        destruct (foldM (select_field_step F tr) None (f1 :: f2 :: l)) as [o| | |];
          cbn [bind omap]; try reflexivity.
        destruct o; reflexivity.
    Qed.

    Lemma default_plan_e d m : vinput F tr d ->
      default_plan F tr' (rd d) m = default_plan F tr d m.
    Proof.
      intros [_ Hvd]. unfold default_plan.
      destruct (build_dtattr true true true true m) as [ta| | |]; cbn [bind]; try reflexivity.
      cbn [map_dinput d_data].
      destruct (d_data d) as [fs|vs|fs]; cbn [map_data vdata] in *; destruct (dt_expr ta).
      - rewrite fields_list_map, (ensure_no_attribute_e _ Hvd). reflexivity.
      - rewrite (default_fields_body_e _ _ Hvd). reflexivity.
      - rewrite (mapM_e0 (vvariant F tr)
                   (fun v => let* _ := default_variant_attr F tr false (v_attrs v) in
                             ensure_no_attribute F tr (fields_list (v_fields v)))
                   (fun v => let* _ := default_variant_attr F tr' false (v_attrs v) in
                             ensure_no_attribute F tr' (fields_list (v_fields v))) rv vs);
          [reflexivity| |exact Hvd].
        intros v [Hva Hvf]. cbn [map_variant v_attrs v_fields].
        rewrite (default_variant_attr_e _ _ Hva), fields_list_map, (ensure_no_attribute_e _ Hvf).
        reflexivity.
      - rewrite (select_variant_e _ Hvd).
        destruct (select_variant F tr vs) as [v| | |] eqn:Es; cbn [bind omap]; try reflexivity.
        cbn [map_variant v_name v_fields].
        pose proof (select_variant_P (vvariant F tr) vs v Hvd Es) as [_ Hvf].
        rewrite (default_fields_body_e _ _ Hvf). reflexivity.
      - rewrite (ensure_no_attribute_e _ Hvd). reflexivity.
      - rewrite (select_field_e _ Hvd).
        destruct (select_field F tr fs) as [[f fa]| | |]; cbn [bind omap]; reflexivity.
    Qed.

    Theorem expand_default_e d m : vinput F tr d ->
      expand_default F tr' (rd d) m = expand_default F tr d m.
    Proof.
      intros Hv. unfold expand_default. rewrite (default_plan_e _ _ Hv).
      destruct (default_plan F tr d m); reflexivity.
    Qed.
  End Default.
End HandlersE_d.
