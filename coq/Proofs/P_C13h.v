(** C13 — R12: a parameter the trait does not accept at that position. *)
From Educe.Proofs Require Export P_C13g.

Lemma run_params_nil {S} (h : S -> meta -> outcome (option S)) ms s s' :
  (forall s m s', h s m <> Ok (Some s')) -> run_params h s ms = Ok s' -> ms = [].
Proof.
  intros Hh H. destruct ms as [|m r]; [reflexivity|]. exfalso.
  unfold run_params in H. cbn [foldM] in H. inv_bind H. unfold run_param in Hb. inv_bind Hb.
  destruct a0 as [s1|]; [exact (Hh _ _ _ Hb0)|discriminate Hb].
Qed.

Lemma run_params_each {S} (h : S -> meta -> outcome (option S)) ms s s' m :
  run_params h s ms = Ok s' -> In m ms -> exists s1 s2, h s1 m = Ok (Some s2).
Proof.
  intros H Hin. unfold run_params in H. destruct (foldM_In_step _ _ _ _ _ H Hin) as [s1 [s2 Hs]].
  unfold run_param in Hs. inv_bind Hs. destruct a as [x|]; [eauto|discriminate Hs].
Qed.

(** the variant-level builder of the plain traits accepts `Trait()` only *)
Lemma variant_tattr_empty m : variant_tattr m -> empty_list m = true.
Proof.
  intros [x H]. unfold build_tattr in H. destruct m as [p|p v|p dl ts]; try discriminate H.
  inv_bind H. destruct a as [u ms]. inv_bind H. apply bind_ok in Hb. destruct Hb as [ms' [Hp Hq]].
  inversion Hq; subst. apply run_params_nil in Hb0.
  - subst ms. cbn [empty_list]. rewrite Hp. reflexivity.
  - intros s m s' Hs. unfold bound_param in Hs. destruct (param_is m ["bound"]); discriminate Hs.
Qed.

(** a union field accepts `Trait()` only *)
Lemma build_fattr_off_empty m x : build_fattr false false m = Ok x -> empty_list m = true.
Proof.
  intros H. unfold build_fattr in H. destruct m as [p|p v|p dl ts]; try discriminate H.
  inv_bind H. inv_bind H. apply run_params_nil in Hb0.
  - subst a. cbn [empty_list]. rewrite Hb. reflexivity.
  - intros s m s' Hs. unfold im_param in Hs. destruct (param_is m ["ignore"]); [discriminate Hs|].
    destruct (param_is m ["method"]); discriminate Hs.
Qed.

Lemma debug_build_dfattr_off_empty m x :
  Expand_Debug.build_dfattr false false false m = Ok x -> empty_list m = true.
Proof.
  intros H. unfold Expand_Debug.build_dfattr in H. destruct m as [p|p v|p dl ts]; try discriminate H.
  inv_bind H. inv_bind H. apply run_params_nil in Hb0.
  - subst a. cbn [empty_list]. rewrite Hb. reflexivity.
  - intros s m s' Hs. unfold Expand_Debug.df_param in Hs.
    destruct (param_is m ["name"; "rename"]); [discriminate Hs|].
    destruct (param_is m ["ignore"]); [discriminate Hs|].
    destruct (param_is m ["method"]); discriminate Hs.
Qed.

(** Debug on a variant: neither the bare flag nor `bound` *)
Lemma debug_variant_accepts named m x :
  Expand_Debug.build_dtattr (debug_variant_builder named) m = Ok x ->
  is_path m = false /\ existsb (key_is "bound") (params LPlain m) = false.
Proof.
  intros H. unfold Expand_Debug.build_dtattr in H. destruct m as [p|p v|p dl ts].
  - discriminate H.
  - split; reflexivity.
  - split; [reflexivity|]. cbn [debug_variant_builder Expand_Debug.tb_unsafe] in H.
    inv_bind H. destruct a as [u ms]. inv_bind H. apply bind_ok in Hb. destruct Hb as [ms' [Hp Hq]].
    inversion Hq; subst. cbn [params]. rewrite Hp. apply existsb_false. intros m Hin.
    destruct (run_params_each _ _ _ _ _ Hb0 Hin) as [s1 [s2 Hs]].
    unfold Expand_Debug.dt_param in Hs. unfold key_is.
    destruct (param_is m ["name"; "rename"]) eqn:H1.
    { rewrite (param_is_key _ _ "name" H1); [reflexivity|canon_names]. }
    destruct (param_is m ["named_field"]) eqn:H2.
    { rewrite (param_is_key _ _ "named_field" H2); [reflexivity|canon_names]. }
    destruct (param_is m ["bound"]); discriminate Hs.
Qed.

Lemma acc_of_placed t pl m : acc_of t pl m -> misplaced t pl m = false.
Proof.
  intros H. unfold misplaced.
  destruct t; cbn [deref_like plain_trait]; cbn [acc_of] in H.
  - (* Debug *) destruct pl; cbn in H.
    + destruct H as [named [x Hx]]. destruct (debug_variant_accepts _ _ _ Hx) as [H1 H2]. rewrite H1, H2. reflexivity.
    + reflexivity.
    + destruct H as [x Hx]. rewrite (debug_build_dfattr_off_empty _ _ Hx). reflexivity.
  - (* Clone *) destruct pl; cbn in H.
    + rewrite (variant_tattr_empty _ H). reflexivity.
    + reflexivity.
    + destruct H as [x Hx]. rewrite (build_fattr_off_empty _ _ Hx). reflexivity.
  - (* Copy *) destruct pl; cbn in H; [rewrite (variant_tattr_empty _ H); reflexivity|destruct H..].
  - (* PartialEq *) destruct pl; cbn in H.
    + rewrite (variant_tattr_empty _ H). reflexivity.
    + reflexivity.
    + destruct H as [x Hx]. rewrite (build_fattr_off_empty _ _ Hx). reflexivity.
  - (* Eq *) destruct pl; [|reflexivity..]. destruct H as [H|H]; cbn in H; rewrite (variant_tattr_empty _ H); reflexivity.
  - (* PartialOrd *) destruct pl; cbn in H; [rewrite (variant_tattr_empty _ H)|..]; reflexivity.
  - (* Ord *) destruct pl; cbn in H; [rewrite (variant_tattr_empty _ H)|..]; reflexivity.
  - (* Hash *) destruct pl; cbn in H.
    + rewrite (variant_tattr_empty _ H). reflexivity.
    + reflexivity.
    + destruct H as [x Hx]. rewrite (build_fattr_off_empty _ _ Hx). reflexivity.
  - (* Default *) destruct pl; reflexivity.
  - (* Deref *) destruct pl; cbn in H; destruct H as [x Hx].
    + destruct m; discriminate Hx.
    + rewrite (deref_build_path _ _ _ Hx). reflexivity.
    + rewrite (deref_build_path _ _ _ Hx). reflexivity.
  - (* DerefMut *) destruct pl; cbn in H; destruct H as [x Hx].
    + destruct m; discriminate Hx.
    + rewrite (deref_build_path _ _ _ Hx). reflexivity.
    + rewrite (deref_build_path _ _ _ Hx). reflexivity.
  - (* Into *) destruct pl; cbn in H; [destruct H|reflexivity..].
Qed.

Theorem R12_item_param_misplaced F d its :
  expand F d = Ok its -> known_gap F d = false -> invalid_item_param_misplaced F d = false.
Proof.
  intros H Hgap. apply existsb_false. intros x Hin.
  destruct (items_accepted _ _ _ H Hgap x Hin) as [t [Ht [_ Ha]]]. rewrite Ht.
  exact (acc_of_placed _ _ _ Ha).
Qed.

(** the type level: the handler of [t] built the (only) type-level item naming [t] *)
Lemma type_meta_built F d its m t :
  expand F d = Ok its -> In m (type_metas d) -> meta_trait F m = Some t -> t <> TInto ->
  exists traits h l, In (t, h) handlers /\ h F traits d m = Ok l.
Proof.
  intros H Hin Ht Hni.
  destruct (expand_ok_inv _ _ _ H) as [traits [Hag [Hk [Hd [Hh [Hi _]]]]]].
  assert (Hmo : In m (metas_of F t (type_metas d))).
  { unfold metas_of. apply filter_In. split; [exact Hin|]. unfold names. rewrite Ht. apply trait_eqb_refl. }
  pose proof (dup_trait_false_count _ t Hd Hni) as Hc. unfold type_traits in Hc.
  fold (traits_of F (type_metas d)) in Hc. rewrite count_traits_of in Hc.
  assert (Htm : type_meta F t d = Some m).
  { unfold type_meta. destruct (metas_of F t (type_metas d)) as [|m1 [|m2 r]]; [destruct Hmo| |cbn in Hc; lia].
    destruct Hmo as [<-|[]]. reflexivity. }
  assert (Hex : exists h, In (t, h) handlers).
  { destruct t; try congruence; eexists; cbn; tauto. }
  destruct Hex as [h Hh']. destruct (Hh t h m Hh' Htm) as [l Hl]. eauto.
Qed.

Lemma debug_dt_no_bound b s p s' :
  Expand_Debug.tb_bound b = false -> Expand_Debug.dt_param b s p = Ok (Some s') -> key_is "bound" p = false.
Proof.
  intros Hb Hs. unfold Expand_Debug.dt_param in Hs. unfold key_is.
  destruct (param_is p ["name"; "rename"]) eqn:H1.
  { rewrite (param_is_key _ _ "name" H1); [reflexivity|canon_names]. }
  destruct (param_is p ["named_field"]) eqn:H2.
  { rewrite (param_is_key _ _ "named_field" H2); [reflexivity|canon_names]. }
  destruct (param_is p ["bound"]); [|discriminate Hs]. rewrite Hb in Hs. discriminate Hs.
Qed.

Lemma union_tattr_no_bound m x :
  build_tattr true true false m = Ok x -> existsb (key_is "bound") (params LUnsafe m) = false.
Proof.
  intros H. unfold build_tattr in H. destruct m as [p|p v|p dl ts]; [reflexivity|reflexivity|].
  inv_bind H. destruct a as [u ms]. inv_bind H. apply run_params_nil in Hb0.
  - subst ms. cbn [params]. rewrite Hb. reflexivity.
  - intros s m s' Hs. unfold bound_param in Hs. destruct (param_is m ["bound"]); discriminate Hs.
Qed.

Lemma union_bound_handler F traits d t h m l fs :
  d_data d = DUnion fs -> In (t, h) handlers -> unsafe_trait t = true ->
  h F traits d m = Ok l -> existsb (key_is "bound") (params LUnsafe m) = false.
Proof.
  intros Hd Hin Hu H. cbn in Hin.
  repeat (destruct Hin as [E|Hin]; [inversion E; subst t h; clear E; try discriminate Hu|]); [..|destruct Hin].
  - unfold Expand_Debug.expand_debug in H. rewrite Hd in H. inv_bind H.
    unfold Expand_Debug.build_dtattr in Hb. destruct m as [p|p v|p dl ts]; [reflexivity|reflexivity|].
    cbn [Expand_Debug.tb_unsafe] in Hb. inv_bind Hb. destruct a0 as [u ms]. inv_bind Hb.
    cbn [params]. rewrite Hb0. apply existsb_false. intros p0 Hp0.
    destruct (run_params_each _ _ _ _ _ Hb1 Hp0) as [s1 [s2 Hs]].
    eapply debug_dt_no_bound; [|exact Hs]. reflexivity.
  - unfold expand_partial_eq in H. rewrite Hd in H. inv_bind H. exact (union_tattr_no_bound _ _ Hb).
  - unfold expand_hash in H. rewrite Hd in H. inv_bind H. exact (union_tattr_no_bound _ _ Hb).
Qed.

Theorem R12_type_param_misplaced F d its :
  expand F d = Ok its -> invalid_type_param_misplaced F d = false.
Proof.
  intros H. apply existsb_false. intros m Hin.
  destruct (meta_trait F m) as [t|] eqn:Ht; [|reflexivity].
  apply orb_false_iff. split.
  - destruct (deref_like t) eqn:Hdl; [|reflexivity]. cbn [andb].
    assert (Hni : t <> TInto) by (intros ->; discriminate Hdl).
    destruct (type_meta_built _ _ _ _ _ H Hin Ht Hni) as [traits [h [l [Hh Hl]]]].
    assert (Hp : is_path m = true); [|rewrite Hp; reflexivity].
    cbn in Hh.
    repeat (destruct Hh as [E|Hh]; [inversion E; subst t h; clear E; try discriminate Hdl|]); [..|destruct Hh].
    + unfold expand_deref in Hl. inv_bind Hl. unfold deref_analyse in Hb.
      destruct (d_data d); [| |discriminate Hb]; inv_bind Hb; exact (deref_build_path _ _ _ Hb0).
    + unfold expand_deref_mut in Hl. inv_bind Hl. unfold deref_analyse in Hb.
      destruct (d_data d); [| |discriminate Hb]; inv_bind Hb; exact (deref_build_path _ _ _ Hb0).
  - unfold is_union. destruct (d_data d) as [fs|vs|fs] eqn:Hd; [reflexivity|reflexivity|]. cbn [andb].
    destruct (unsafe_trait t) eqn:Hu; [|reflexivity]. cbn [andb].
    assert (Hni : t <> TInto) by (intros ->; discriminate Hu).
    destruct (type_meta_built _ _ _ _ _ H Hin Ht Hni) as [traits [h [l [Hh Hl]]]].
    exact (union_bound_handler _ _ _ _ _ _ _ _ Hd Hh Hu Hl).
Qed.

Theorem R12_param_misplaced F d its :
  expand F d = Ok its -> known_gap F d = false -> invalid_param_misplaced F d = false.
Proof.
  intros H Hg. unfold invalid_param_misplaced.
  rewrite (R12_type_param_misplaced _ _ _ H), (R12_item_param_misplaced _ _ _ H Hg). reflexivity.
Qed.
