(** C06 — Debug performs exactly the builder calls of the effective shape.
    Part 1: the statements of the templates, the loop over the fields, structs. *)
From Educe.Spec Require Export SpecDebug.
From Educe.Proofs Require Export StringLemmas EvalLemmas P_C02b.
From Educe.Model Require Export Expand_Debug.

(** running `fmt(&self, f)` of the emitted impl on a value: the builder calls it makes *)
Definition fmt_env : env := [("self", VRef self_place); ("f", formatter_val)].
Definition fmt_state (v : value) : state := {| st_store := [("self", v)]; st_trace := [] |}.
Definition run_fmt (I : interp) (it : item) (v : value) : option (list event) :=
  match find_fn "fmt" it with
  | Some body =>
      match run_body I fmt_env body (fmt_state v) with
      | (RVal _, s) => Some (st_trace s)
      | _ => None
      end
  | None => None
  end.

(** appending events *)
Definition logs (evs : list event) (s : state) : state :=
  {| st_store := st_store s; st_trace := st_trace s ++ evs |}.
Lemma logs_nil s : logs [] s = s.
Proof. destruct s; unfold logs; cbn. rewrite app_nil_r. reflexivity. Qed.
Lemma log_logs ev s : log ev s = logs [ev] s.
Proof. reflexivity. Qed.
Lemma logs_logs a b s : logs b (logs a s) = logs (a ++ b) s.
Proof. unfold logs; cbn. rewrite app_assoc. reflexivity. Qed.
Lemma logs_store evs s : st_store (logs evs s) = st_store s.
Proof. reflexivity. Qed.

(** the three kinds of "add one shown field" statement, and their events *)
Definition entry_stmt (k : builder_kind) (key : string) (value : expr) : expr :=
  match k with
  | BStruct => builder_stmt "field" [stringify [I key]; value]
  | BTuple => builder_stmt "field" [value]
  | BMap => builder_stmt "entry"
              [ERef (ECall (EPath (RLocal ["Educe__RawString"])) [stringify [I key]]); value]
  end.
Definition entry_event (k : builder_kind) (key : string) (a : fmt_arg) : event :=
  match k with
  | BStruct => EvBuilderField (Some key) a
  | BTuple => EvBuilderField None a
  | BMap => EvBuilderEntry key a
  end.
Definition field_stmts (d : dinput) (k : builder_kind) (key : string) (ty : toks) (fa : dfattr)
           (op : expr) : list expr :=
  match df_method fa with
  | Some m => [dbg_arg d ty m op; entry_stmt k key (ERef (EVar "arg"))]
  | None => [entry_stmt k key op]
  end.

Lemma dbg_named_field_eq d hn key ty fa op :
  dbg_named_field d hn key ty fa op = field_stmts d (if hn then BStruct else BMap) key ty fa op.
Proof. unfold dbg_named_field, field_stmts, dbg_entry. destruct hn, (df_method fa); reflexivity. Qed.
Lemma dbg_tuple_field_eq d key ty fa op :
  dbg_tuple_field d ty fa op = field_stmts d BTuple key ty fa op.
Proof. unfold dbg_tuple_field, field_stmts. destruct (df_method fa); reflexivity. Qed.

(** the spec's view of one (index, field, request) triple *)
Definition mk_fc (i : nat) (f : field) (fa : dfattr) : dfield_cfg :=
  {| fc_store := field_member f i; fc_ident := f_name f; fc_index := i; fc_attr := fa |}.
Definition fkey (f : field) (i : nat) (fa : dfattr) : string := effective_key (mk_fc i f fa).
Lemma struct_key_eq f i fa : struct_key f i fa = fkey f i fa.
Proof. reflexivity. Qed.
Lemma variant_key_eq f i fa : variant_key f i fa = fkey f i fa.
Proof. reflexivity. Qed.
Lemma field_cfgs_cons i f fa r : field_cfgs ((i, (f, fa)) :: r) = mk_fc i f fa :: field_cfgs r.
Proof. reflexivity. Qed.

Lemma atom_not_wrapper x : is_atom x = true -> as_debug_field x = None.
Proof. destruct x; cbn; intros H; try discriminate H; reflexivity. Qed.

Lemma load_self1 vn xs n st :
  st = [("self", VData vn xs)] -> load st (sub self_place n) = lookup n xs.
Proof. intros ->. cbn. destruct (lookup n xs); reflexivity. Qed.

Definition atoms (xs : list (string * value)) : Prop :=
  forall k x, lookup k xs = Some x -> is_atom x = true.
Lemma atoms_of_forallb xs : forallb (fun kv => is_atom (snd kv)) xs = true -> atoms xs.
Proof.
  induction xs as [|[k' v] r IH]; cbn [forallb snd]; intros H k x Hl; [discriminate Hl|].
  apply andb_true_iff in H as [Hv Hr]. cbn [lookup] in Hl.
  destruct (String.eqb k k'); [inversion Hl; subst; exact Hv|eapply IH; eassumption].
Qed.

Section Stmts.
  Variable I : interp.

  Lemma eval_entry_stmt k key value en s v a :
    lookup "builder" en = Some (builder_val k) ->
    eval I en value s = (RVal v, s) ->
    fmt_arg_of (st_store s) v = Some a ->
    eval I en (entry_stmt k key value) s = (RVal VUnit, log (entry_event k key a) s).
  Proof.
    intros Hb Hv Ha. destruct k; unfold entry_stmt, builder_stmt, stringify.
    - cbn [eval eval_args]. rewrite Hb. cbn [String.eqb Ascii.eqb Bool.eqb Tok.I]. rewrite Hv.
      unfold call_method. cbn [String.eqb Ascii.eqb Bool.eqb builder_val builder_name builder_kind_of].
      rewrite Ha. reflexivity.
    - cbn [eval eval_args]. rewrite Hb. rewrite Hv.
      unfold call_method. cbn [String.eqb Ascii.eqb Bool.eqb builder_val builder_name builder_kind_of].
      rewrite Ha. reflexivity.
    - cbn [eval eval_args place_of apply_path]. rewrite Hb. cbn [String.eqb Ascii.eqb Bool.eqb Tok.I].
      rewrite Hv.
      unfold call_method. cbn [String.eqb Ascii.eqb Bool.eqb builder_val builder_name builder_kind_of].
      cbn [strip raw_string_val as_raw_string String.eqb Ascii.eqb Bool.eqb]. rewrite Ha. reflexivity.
  Qed.

  Lemma entry_stmt_no_let k key value : no_let (entry_stmt k key value) = true.
  Proof. destruct k; reflexivity. Qed.

  Lemma eval_finish k en s :
    lookup "builder" en = Some (builder_val k) ->
    eval I en builder_finish s = (RVal VUnit, log EvBuilderFinish s).
  Proof.
    intros Hb. unfold builder_finish. cbn [eval eval_args]. rewrite Hb.
    destruct k; reflexivity.
  Qed.

  (** `let mut builder = f.debug_struct(name);` / `f.debug_tuple(name)` *)
  Lemma eval_let_builder (k : builder_kind) ctor e nm en r s :
    (k = BStruct /\ ctor = "debug_struct" \/ k = BTuple /\ ctor = "debug_tuple") ->
    lookup "f" en = Some formatter_val ->
    eval I en e s = (RVal (VStr nm), s) ->
    eval_block (eval I) en (let_builder ctor [e] :: r) s =
    eval_block (eval I) (("builder", builder_val k) :: en) r (log (EvBuilderNew k nm) s).
  Proof.
    intros Hk Hf He. unfold let_builder. cbn [eval_block eval eval_args]. rewrite Hf, He.
    destruct Hk as [[-> ->]|[-> ->]]; reflexivity.
  Qed.

  Lemma eval_map_builder en r s :
    lookup "f" en = Some formatter_val ->
    eval_block (eval I) en (EDebugMapBuilder :: r) s =
    eval_block (eval I) (("builder", builder_val BMap) :: en) r (log (EvBuilderNew BMap "") s).
  Proof. intros Hf. cbn [eval_block]. rewrite Hf. reflexivity. Qed.

  (** `let arg = { .. Educe__DebugField(fe, PhantomData::<Self>) };` *)
  Lemma eval_block_field_arg ig ty sty wc m fe en r s v s1 :
    eval I en fe s = (RVal v, s1) ->
    eval_block (eval I) en (EDebugFieldArg ig ty sty wc m fe :: r) s =
    eval_block (eval I) (("arg", debug_field_val m v) :: en) r s1.
  Proof. intros H. cbn [eval_block]. rewrite H. reflexivity. Qed.

  (** the loop over the fields, for any environment satisfying an invariant
      that gives the builder and the operands and survives `let arg = ..` *)
  Section Loop.
    Variable d : dinput.
    Variable k : builder_kind.
    Variable op : field -> nat -> expr.
    Variable Inv : env -> Prop.
    Variable l0 : list (nat * (field * dfattr)).
    Hypothesis Inv_builder : forall en, Inv en -> lookup "builder" en = Some (builder_val k).
    Hypothesis Inv_op : forall en i f fa s0, Inv en -> In (i, (f, fa)) l0 -> df_ignore fa = false ->
      eval I en (op f i) s0 = (RVal (VRef (sub self_place (field_member f i))), s0).
    Hypothesis Inv_push : forall en w, Inv en -> Inv (("arg", w) :: en).

    Definition loop_stmts (l : list (nat * (field * dfattr))) : list expr :=
      flat_map (fun '(i, (f, fa)) =>
                  if df_ignore fa then []
                  else field_stmts d k (fkey f i fa) (f_ty f) fa (op f i)) l.

    Lemma loop_tail_not_nil l : is_nil (loop_stmts l ++ [builder_finish]) = false.
    Proof. destruct (loop_stmts l); reflexivity. Qed.

    Lemma loop_eval vn xs : atoms xs ->
      forall r, incl r l0 -> forall fs en s,
      Inv en -> st_store s = [("self", VData vn xs)] ->
      shown_fields (field_cfgs r) xs = Some fs ->
      eval_block (eval I) en (loop_stmts r ++ [builder_finish]) s =
      (RVal VUnit, logs (map (fun '(kk, a) => entry_event k kk a) fs ++ [EvBuilderFinish]) s).
    Proof.
      intros Hat. induction r as [|[i [f fa]] r IH]; intros Hincl fs en s Hinv Hs Hfs.
      - cbn in Hfs. inversion Hfs; subst fs. cbn [loop_stmts flat_map app map eval_block is_nil].
        rewrite (eval_finish k en s (Inv_builder en Hinv)). reflexivity.
      - assert (Hin : In (i, (f, fa)) l0) by (apply Hincl; left; reflexivity).
        assert (Hincl' : incl r l0) by (intros t Ht; apply Hincl; right; exact Ht).
        rewrite field_cfgs_cons in Hfs. cbn [shown_fields] in Hfs.
        cbn [loop_stmts flat_map]. fold (loop_stmts r).
        change (fc_attr (mk_fc i f fa)) with fa in Hfs.
        change (fc_store (mk_fc i f fa)) with (field_member f i) in Hfs.
        destruct (df_ignore fa) eqn:Eig.
        + cbn [app]. apply IH; assumption.
        + destruct (lookup (field_member f i) xs) as [x|] eqn:Ex; [|discriminate Hfs].
          destruct (shown_fields (field_cfgs r) xs) as [rest|] eqn:Erest; [|discriminate Hfs].
          inversion Hfs; subst fs; clear Hfs.
          assert (Hload : load (st_store s) (sub self_place (field_member f i)) = Some x).
          { rewrite (load_self1 vn xs _ _ Hs). exact Ex. }
          assert (Hnw : as_debug_field x = None) by (apply atom_not_wrapper; eapply Hat; exact Ex).
          cbn [map]. fold (fkey f i fa).
          unfold field_stmts, field_arg. change (fc_attr (mk_fc i f fa)) with fa.
          destruct (df_method fa) as [m|] eqn:Em.
          * (* through the wrapper *)
            cbn [app]. unfold dbg_arg.
            rewrite (eval_block_field_arg _ _ _ _ _ _ _ _ _ _ _ (Inv_op en i f fa s Hinv Hin Eig)).
            set (w := debug_field_val m (VRef (sub self_place (field_member f i)))).
            assert (Hinv' : Inv (("arg", w) :: en)) by (apply Inv_push; exact Hinv).
            rewrite eval_block_cons by apply entry_stmt_no_let.
            rewrite (eval_entry_stmt k (fkey f i fa) (ERef (EVar "arg")) _ s (VRefTmp w) (FAVia m x)).
            -- rewrite loop_tail_not_nil.
               rewrite log_logs.
               rewrite (IH Hincl' rest _ _ Hinv' (eq_trans (logs_store _ _) Hs) eq_refl).
               rewrite logs_logs. reflexivity.
            -- apply Inv_builder. exact Hinv'.
            -- reflexivity.
            -- unfold fmt_arg_of. cbn [strip w debug_field_val as_debug_field String.eqb Ascii.eqb Bool.eqb].
               rewrite Hload. reflexivity.
          * cbn [app].
            rewrite eval_block_cons by apply entry_stmt_no_let.
            rewrite (eval_entry_stmt k (fkey f i fa) (op f i) en s
                       (VRef (sub self_place (field_member f i))) (FADebug x)).
            -- rewrite loop_tail_not_nil.
               rewrite log_logs.
               rewrite (IH Hincl' rest _ _ Hinv (eq_trans (logs_store _ _) Hs) eq_refl).
               rewrite logs_logs. reflexivity.
            -- apply Inv_builder. exact Hinv.
            -- apply (Inv_op en i f fa s Hinv Hin Eig).
            -- unfold fmt_arg_of. cbn [strip]. rewrite Hload, Hnw. reflexivity.
    Qed.
  End Loop.
End Stmts.

(** * the whole body: start statement, loop, finish *)
Definition kind_of (has_name named_field : bool) : builder_kind :=
  if named_field then (if has_name then BStruct else BMap) else BTuple.
Definition shown_name (name : option string) : string :=
  match name with Some n => n | None => "" end.

Lemma builder_program_fields name (nf : bool) fs :
  builder_program (ShFields name (if nf then SStruct else STuple) fs) =
  EvBuilderNew (kind_of (is_some name) nf) (shown_name name)
    :: map (fun '(kk, a) => entry_event (kind_of (is_some name) nf) kk a) fs ++ [EvBuilderFinish].
Proof.
  destruct nf, name as [n|]; cbn [builder_program kind_of is_some shown_name];
    f_equal; f_equal; apply map_ext; intros [kk a]; reflexivity.
Qed.

Lemma shown_fields_some fs xs :
  (forall fc, In fc fs -> lookup (fc_store fc) xs <> None) ->
  exists r, shown_fields fs xs = Some r.
Proof.
  induction fs as [|fc fs IH]; intros H; [exists (@nil (string * fmt_arg)); reflexivity|].
  destruct IH as [r Hr]; [intros g Hg; apply H; right; exact Hg|].
  cbn [shown_fields]. destruct (df_ignore (fc_attr fc)); [eauto|].
  destruct (lookup (fc_store fc) xs) as [x|] eqn:E; [|exfalso; apply (H fc); [left; reflexivity|exact E]].
  rewrite Hr. eauto.
Qed.

Lemma dbg_fields_ok_inv fs xs :
  dbg_fields_ok fs xs = true -> map fc_store fs = map fst xs /\ atoms xs.
Proof.
  unfold dbg_fields_ok. intros H. apply andb_true_iff in H as [H1 H2]. split.
  - destruct (list_eq_dec string_dec (map fc_store fs) (map fst xs)); [assumption|discriminate].
  - apply atoms_of_forallb. exact H2.
Qed.

Lemma shown_fields_of_keys fs xs :
  map fc_store fs = map fst xs -> exists r, shown_fields fs xs = Some r.
Proof.
  intros Hk. apply shown_fields_some. intros fc Hin. apply in_fst_lookup. rewrite <- Hk.
  apply in_map. exact Hin.
Qed.

Section Struct.
  Variable I : interp.

  Definition struct_start (name : option string) (nf : bool) : expr :=
    if nf then named_builder (option_map (fun n => stringify [Tok.I n]) name)
    else let_builder "debug_tuple" [stringify (opt_ident_toks name)].

  Lemma struct_body_eq d name nf l :
    dbg_struct_body d name nf l =
    struct_start name nf :: loop_stmts d (kind_of (is_some name) nf) self_field l ++ [builder_finish].
  Proof.
    unfold dbg_struct_body, struct_start, loop_stmts, kind_of. destruct nf; cbn [app]; f_equal; f_equal;
      apply flat_map_ext; intros [i [f fa]]; destruct (df_ignore fa); try reflexivity.
    rewrite dbg_named_field_eq, struct_key_eq. reflexivity.
  Qed.

  Lemma struct_start_eval name nf en r s :
    lookup "f" en = Some formatter_val ->
    eval_block (eval I) en (struct_start name nf :: r) s =
    eval_block (eval I) (("builder", builder_val (kind_of (is_some name) nf)) :: en) r
               (log (EvBuilderNew (kind_of (is_some name) nf) (shown_name name)) s).
  Proof.
    intros Hf. unfold struct_start, kind_of. destruct nf.
    - destruct name as [n|]; cbn [option_map named_builder is_some shown_name].
      + apply eval_let_builder; [left; split; reflexivity|exact Hf|reflexivity].
      + apply eval_map_builder. exact Hf.
    - apply eval_let_builder; [right; split; reflexivity|exact Hf|].
      destruct name as [n|]; reflexivity.
  Qed.

  Definition struct_inv (k : builder_kind) (en : env) : Prop :=
    lookup "builder" en = Some (builder_val k) /\ lookup "self" en = Some (VRef self_place).

  Lemma self_field_eval en f i s0 :
    lookup "self" en = Some (VRef self_place) ->
    eval I en (self_field f i) s0 = (RVal (VRef (sub self_place (field_member f i))), s0).
  Proof. intros H. unfold self_field. cbn [eval place_of]. rewrite H. reflexivity. Qed.

  Lemma expand_debug_struct F traits d m fs :
    d_data d = DStruct fs ->
    expand_debug F traits d m =
    (let* ta := build_dtattr (struct_tb (is_tuple_fields fs)) m in
     let name := tname_ident (dt_name ta) (d_name d) in
     let* l := debug_field_attrs F traits (dt_named_field ta) (fields_list fs) in
     if negb (has_shown l) && negb (is_some name) then Err E_debug_unit_struct_name
     else
       let g := push_preds (d_generics d)
                  (bound_preds (dt_bound ta) (d_generics d) debug_trait (dbg_types l) []) in
       Ok [dbg_item d g false (dbg_struct_body d name (dt_named_field ta) l)]).
  Proof. intros H. unfold expand_debug. rewrite H. reflexivity. Qed.

  Theorem struct_builder_program F traits d m fs items c v :
    d_data d = DStruct fs ->
    expand_debug F traits d m = Ok items ->
    debug_cfg_of F traits d m = Ok c ->
    dbg_value_ok c v = true ->
    exists it rest sh, items = it :: rest /\ debug_shape c v = Some sh /\
                       run_fmt I it v = Some (builder_program sh).
  Proof.
    intros Hd He Hc Hv.
    rewrite (expand_debug_struct F traits d m fs Hd) in He.
    inv_bind_as He as ta Hta. cbv zeta in He. inv_bind_as He as l Hl.
    destruct (negb (has_shown l) && negb (is_some (tname_ident (dt_name ta) (d_name d))));
      [discriminate He|]. inversion He; subst items; clear He.
    unfold debug_cfg_of in Hc. rewrite Hd, Hta in Hc. cbn [bind] in Hc. rewrite Hl in Hc.
    cbn [bind] in Hc. inversion Hc; subst c; clear Hc.
    destruct v as [| | | | | |vn xs| | | | |]; try discriminate Hv.
    cbn [dbg_value_ok dc_variants find variant_is vc_variant] in Hv.
    destruct vn as [vn|]; [discriminate Hv|]. cbn [vc_fields] in Hv.
    apply dbg_fields_ok_inv in Hv as [Hk Hat].
    destruct (shown_fields_of_keys _ _ Hk) as [sf Hsf]. cbn [vc_fields] in Hsf.
    set (name := tname_ident (dt_name ta) (d_name d)).
    set (k := kind_of (is_some name) (dt_named_field ta)).
    eexists; eexists; eexists. split; [reflexivity|]. split.
    - cbn [debug_shape dc_variants find variant_is vc_variant vc_unit vc_fields vc_named_field].
      rewrite Hsf. reflexivity.
    - unfold run_fmt, find_fn, dbg_item.
      cbn [i_members find String.eqb Ascii.eqb Bool.eqb]. unfold run_body.
      rewrite struct_body_eq. rewrite struct_start_eval by reflexivity. fold name. fold k.
      rewrite (loop_eval I d k self_field (struct_inv k) l) with (vn := None) (xs := xs) (fs := sf).
      + cbn [effective_name dc_enum_name vc_name vc_ident].
        change (level_name (dt_name ta) (d_name d)) with name.
        rewrite builder_program_fields. reflexivity.
      + intros en [H _]. exact H.
      + intros en i f fa s0 [_ H] _ _. apply self_field_eval. exact H.
      + intros en w [H1 H2]. split; [exact H1|exact H2].
      + exact Hat.
      + apply incl_refl.
      + split; reflexivity.
      + reflexivity.
      + exact Hsf.
  Qed.
End Struct.
