(** Shared lemmas for C09 (Deref / DerefMut) and C10 (Into): association
    lists, indexed lists, the store frame property, and the single-binding
    arms `Self::V(_, .., _i, ..) => body` / `Self::V { n, .. } => body`. *)
From Educe.Spec Require Export SpecDeref.
From Educe.Proofs Require Export StringLemmas EvalLemmas.

(** ** association lists *)
Lemma lookup_in {A} k (l : list (string * A)) :
  In k (map fst l) -> exists v, lookup k l = Some v.
Proof.
  induction l as [|[k' v] l IH]; cbn; intros H; [destruct H|].
  destruct (String.eqb k k') eqn:E; [eauto|].
  destruct H as [H|H]; [subst; rewrite String.eqb_refl in E; discriminate|auto].
Qed.

Lemma lookup_some_in {A} k (l : list (string * A)) v :
  lookup k l = Some v -> In k (map fst l).
Proof.
  induction l as [|[k' w] l IH]; cbn; intros H; [discriminate|].
  destruct (String.eqb k k') eqn:E; [left; symmetry; apply String.eqb_eq; exact E|right; auto].
Qed.

Lemma lookup_set_assoc_same k v l w :
  lookup k l = Some w -> lookup k (set_assoc k v l) = Some v.
Proof.
  induction l as [|[k' u] l IH]; cbn; intros H; [discriminate|].
  destruct (String.eqb k k') eqn:E; cbn; rewrite E; [reflexivity|auto].
Qed.

Lemma lookup_set_assoc_other k k' v l :
  k' <> k -> lookup k' (set_assoc k v l) = lookup k' l.
Proof.
  intros Hne. induction l as [|[k0 u] l IH]; cbn; [reflexivity|].
  destruct (String.eqb k k0) eqn:E; cbn.
  - apply String.eqb_eq in E. subst k0.
    destruct (String.eqb k' k) eqn:E'; [apply String.eqb_eq in E'; congruence|reflexivity].
  - destruct (String.eqb k' k0); [reflexivity|exact IH].
Qed.

Lemma set_assoc_keys k v l : map fst (set_assoc k v l) = map fst l.
Proof.
  induction l as [|[k0 u] l IH]; cbn; [reflexivity|].
  destruct (String.eqb k k0); cbn; [reflexivity|f_equal; exact IH].
Qed.

(** ** indexed lists *)
Lemma in_index_from {A} (l : list A) : forall k i x,
  In (i, x) (index_from k l) -> k <= i /\ nth_error l (i - k) = Some x.
Proof.
  induction l as [|y l IH]; intros k i x H; cbn in H; [destruct H|].
  destruct H as [H|H].
  - inversion H; subst. split; [lia|]. replace (i - i) with 0 by lia. reflexivity.
  - apply IH in H. destruct H as [Hle Hn]. split; [lia|].
    replace (i - k) with (S (i - S k)) by lia. exact Hn.
Qed.

Lemma index_from_length {A} (l : list A) k : List.length (index_from k l) = List.length l.
Proof. revert k; induction l as [|y l IH]; intros k; cbn; [reflexivity|f_equal; apply IH]. Qed.

Lemma index_from_nth {A} (l : list A) : forall k j x,
  nth_error l j = Some x -> nth_error (index_from k l) j = Some (k + j, x).
Proof.
  induction l as [|y l IH]; intros k j x H; [destruct j; discriminate|].
  destruct j as [|j]; cbn in H |- *.
  - inversion H; subst. f_equal. f_equal. lia.
  - rewrite (IH (S k) j x H). f_equal. f_equal. lia.
Qed.

Lemma mapM_map_ok {A B C} (f : A -> outcome B) (g : B -> C) (h : A -> C) l r :
  (forall a b, f a = Ok b -> g b = h a) ->
  mapM f l = Ok r -> map g r = map h l.
Proof.
  intros Hfg. revert r. induction l as [|x l IH]; cbn; intros r H.
  - inversion H; reflexivity.
  - inv_bind H. inv_bind H. inversion H; subst. cbn. f_equal; eauto.
Qed.

(** ** the store: read-after-write and frame *)
Lemma update_path_read : forall p old v new,
  update_path old p v = Some new -> project_path new p = Some v.
Proof.
  induction p as [|k r IH]; intros old v new H; cbn in H |- *.
  - inversion H; reflexivity.
  - destruct old; try discriminate H.
    destruct (lookup k fields) as [w|] eqn:E; [|discriminate H].
    destruct (update_path w r v) as [w'|] eqn:E'; [|discriminate H].
    inversion H; subst. cbn [project]. rewrite (lookup_set_assoc_same _ _ _ _ E).
    eapply IH; exact E'.
Qed.

Lemma update_path_frame : forall l k1 k2 r1 r2 old v new,
  k1 <> k2 ->
  update_path old (l ++ k1 :: r1) v = Some new ->
  project_path new (l ++ k2 :: r2) = project_path old (l ++ k2 :: r2).
Proof.
  induction l as [|a l IH]; intros k1 k2 r1 r2 old v new Hne H; cbn [app] in H |- *.
  - cbn in H. destruct old; try discriminate H.
    destruct (lookup k1 fields) as [w|] eqn:E; [|discriminate H].
    destruct (update_path w r1 v) as [w'|]; [|discriminate H].
    inversion H; subst. cbn [project_path project].
    rewrite lookup_set_assoc_other by congruence. reflexivity.
  - cbn in H. destruct old; try discriminate H.
    destruct (lookup a fields) as [w|] eqn:E; [|discriminate H].
    destruct (update_path w (l ++ k1 :: r1) v) as [w'|] eqn:E'; [|discriminate H].
    inversion H; subst. cbn [project_path project].
    rewrite (lookup_set_assoc_same _ _ _ _ E). rewrite E.
    eapply IH; eassumption.
Qed.

Theorem store_set_read st p v st' :
  store_set st p v = Some st' -> load st' p = Some v.
Proof.
  unfold store_set, load. intros H.
  destruct (lookup (pl_root p) st) as [old|] eqn:E; [|discriminate H].
  destruct (update_path old (pl_path p) v) as [new|] eqn:E'; [|discriminate H].
  inversion H; subst. rewrite (lookup_set_assoc_same _ _ _ _ E).
  eapply update_path_read; exact E'.
Qed.

Theorem store_set_frame st p v st' q :
  store_set st p v = Some st' -> disjoint p q -> load st' q = load st q.
Proof.
  unfold store_set, load. intros H Hd.
  destruct (lookup (pl_root p) st) as [old|] eqn:E; [|discriminate H].
  destruct (update_path old (pl_path p) v) as [new|] eqn:E'; [|discriminate H].
  inversion H; subst.
  destruct (string_dec (pl_root q) (pl_root p)) as [Heq|Hne].
  - rewrite Heq. rewrite (lookup_set_assoc_same _ _ _ _ E). rewrite E.
    destruct Hd as [Hd|Hd]; [congruence|].
    destruct Hd as [l [k1 [k2 [r1 [r2 [Hk [Hp Hq]]]]]]].
    rewrite Hp in E'. rewrite Hq. eapply update_path_frame; eassumption.
  - rewrite lookup_set_assoc_other by exact Hne. reflexivity.
Qed.

(** the root itself keeps its other roots *)
Lemma store_set_roots st p v st' : store_set st p v = Some st' -> map fst st' = map fst st.
Proof.
  unfold store_set. intros H.
  destruct (lookup (pl_root p) st) as [old|]; [|discriminate H].
  destruct (update_path old (pl_path p) v) as [new|]; [|discriminate H].
  inversion H; subst. apply set_assoc_keys.
Qed.

(** ** reference depth and [strip_refs] *)
Lemma is_ref_after ty : is_ref_type ty = true -> exists r, after_punct "&" ty = Some r.
Proof.
  unfold is_ref_type, starts_with_punct, after_punct, is_punct.
  destruct ty as [|[] ty]; try discriminate. intros H. rewrite H. eauto.
Qed.
Lemma not_ref_after ty : is_ref_type ty = false -> after_punct "&" ty = None.
Proof.
  unfold is_ref_type, starts_with_punct, after_punct, is_punct.
  destruct ty as [|[] ty]; try reflexivity. intros H. rewrite H. reflexivity.
Qed.

Lemma ref_depth_not_ref ty : is_ref_type ty = false -> ref_depth ty = 0.
Proof.
  intros H. unfold ref_depth. destruct (List.length ty); [reflexivity|].
  cbn [ref_depth_fuel]. rewrite (not_ref_after _ H). reflexivity.
Qed.
Lemma ref_depth_ref ty : is_ref_type ty = true -> exists k, ref_depth ty = S k.
Proof.
  intros H. destruct (is_ref_after _ H) as [r Hr]. unfold ref_depth.
  destruct ty as [|t ty]; [discriminate H|]. cbn [List.length ref_depth_fuel].
  rewrite Hr. eauto.
Qed.

Lemma after_punct_length s ty r : after_punct s ty = Some r -> List.length ty = S (List.length r).
Proof.
  unfold after_punct. destruct ty as [|[q|q|q|k q|q u w|dl q] ty]; try discriminate.
  destruct (String.eqb q s); [|discriminate]. intros H; inversion H; reflexivity.
Qed.
Lemma skip_life_length ts : List.length (skip_life ts) <= List.length ts.
Proof. destruct ts as [|[] ts]; cbn; lia. Qed.
Lemma skip_ident_length s ts : List.length (skip_ident s ts) <= List.length ts.
Proof.
  unfold skip_ident, after_ident. destruct ts as [|[q|q|q|k q|q u w|dl q] ts]; cbn; try lia.
  destruct (String.eqb q s); cbn; lia.
Qed.

(** every leading reference is stripped: `Target` is never a reference type *)
Lemma strip_refs_fuel_not_ref : forall n ty,
  List.length ty <= n -> is_ref_type (strip_refs_fuel n ty) = false.
Proof.
  induction n as [|n IH]; intros ty Hlen; cbn [strip_refs_fuel].
  - destruct ty; [reflexivity|cbn in Hlen; lia].
  - destruct (after_punct "&" ty) as [r|] eqn:E.
    + apply IH. apply after_punct_length in E.
      pose proof (skip_life_length r). pose proof (skip_ident_length "mut" (skip_life r)). lia.
    + destruct (is_ref_type ty) eqn:Er; [|reflexivity].
      destruct (is_ref_after _ Er) as [r Hr]. congruence.
Qed.
Lemma strip_refs_not_ref ty : is_ref_type (strip_refs ty) = false.
Proof. apply strip_refs_fuel_not_ref. lia. Qed.

(** a type that is not a reference is its own target *)
Lemma strip_refs_id ty : is_ref_type ty = false -> strip_refs ty = ty.
Proof.
  intros H. unfold strip_refs. destruct (List.length ty); [reflexivity|].
  cbn [strip_refs_fuel]. rewrite (not_ref_after _ H). reflexivity.
Qed.

(** ** keys: in a tuple struct / variant the keys are the indices *)
Definition keys_of (fs : list field) : list string :=
  map (fun x => field_key (fst x) (snd x)) (indexed fs).

Lemma unnamed_keys (fs : list field) :
  (forall f, In f fs -> f_name f = None) ->
  forall k j, j < List.length fs ->
  In (dec (k + j)) (map (fun x => field_key (fst x) (snd x)) (index_from k fs)).
Proof.
  induction fs as [|f fs IH]; intros Hun k j Hj; cbn in Hj; [lia|].
  cbn [index_from map fst snd]. destruct j as [|j].
  - left. unfold field_key. rewrite (Hun f (or_introl eq_refl)). f_equal. lia.
  - right. replace (k + S j) with (S k + j) by lia. apply IH; [|lia].
    intros g Hg. apply Hun. right; exact Hg.
Qed.

(** what the arm of the chosen field needs of a value with the declared keys *)
Definition arm_keys_ok_k (i : nat) (f : field) (keys : list string) : Prop :=
  In (field_member f i) keys /\
  (f_name f = None -> i < List.length keys /\ forall j, j <= i -> In (dec j) keys).

Lemma arm_keys_gen (fls : fields) i f :
  fields_wf fls ->
  nth_error (fields_list fls) i = Some f ->
  arm_keys_ok_k i f (keys_of (fields_list fls)).
Proof.
  intros Hwf Hn. unfold keys_of.
  assert (Hi : i < List.length (fields_list fls)) by (apply nth_error_Some; congruence).
  split.
  - apply (index_from_nth _ 0) in Hn. cbn [Nat.add] in Hn.
    apply nth_error_In in Hn.
    apply (in_map (fun x => field_key (fst x) (snd x))) in Hn. exact Hn.
  - intros Hnone. split; [unfold indexed; rewrite map_length, index_from_length; lia|]. intros j Hj.
    destruct fls as [fl|fl|]; cbn [fields_list] in *.
    + destruct Hwf as [Hnamed _]. exfalso. apply (Hnamed f); [eapply nth_error_In; exact Hn|exact Hnone].
    + apply (unnamed_keys fl Hwf 0 j). lia.
    + destruct i; discriminate Hn.
Qed.

Lemma arm_keys_value_gen i f keys (xs : list (string * value)) :
  arm_keys_ok_k i f keys -> keys = map fst xs ->
  (exists w, lookup (field_member f i) xs = Some w) /\
  (f_name f = None -> i < List.length xs /\ forall j, j <= i -> lookup (dec j) xs <> None).
Proof.
  intros [Hin Hun] Hk. rewrite Hk in Hin. split; [apply lookup_in; exact Hin|].
  intros Hnone. destruct (Hun Hnone) as [Hlen Hall]. split.
  - rewrite <- (map_length fst xs), <- Hk. exact Hlen.
  - intros j Hj E. specialize (Hall j Hj). rewrite Hk in Hall.
    apply lookup_in in Hall. destruct Hall as [w Hw]. congruence.
Qed.

(** ** single-binding arms *)

(** the pattern of [deref_arm] / [into_arm] and the variable it binds *)
Definition arm_var (i : nat) (f : field) : string :=
  match f_name f with Some n => n | None => "_" ^^ dec i end.
Definition arm_pat (v : string) (i : nat) (f : field) : pat :=
  match f_name f with
  | Some n => PStruct (RSelfV v) [(n, None)] false true
  | None => PTuple (RSelfV v) (repeat PWild i ++ [PBind ("_" ^^ dec i)]) false true
  end.

Lemma deref_arm_eq v i f : deref_arm (v, (i, f)) = (arm_pat v i f, EVar (arm_var i f)).
Proof. unfold deref_arm, arm_pat, arm_var. destruct (f_name f); reflexivity. Qed.

Lemma match_tuple_wild st scrut (g : nat -> value) b : forall n k,
  (forall j, k <= j <= k + n -> sub_scrut st scrut (dec j) = Some (g j)) ->
  match_tuple_pats (match_pat st) st scrut k (repeat PWild n ++ [PBind b]) = Some [(b, g (k + n))].
Proof.
  induction n as [|n IH]; intros k H.
  - cbn [repeat app match_tuple_pats]. rewrite (H k) by lia. cbn [match_pat app].
    replace (k + 0) with k by lia. reflexivity.
  - cbn [repeat app match_tuple_pats]. rewrite (H k) by lia. cbn [match_pat].
    rewrite (IH (S k)) by (intros j Hj; apply H; lia).
    replace (S k + n) with (k + S n) by lia. reflexivity.
Qed.

Section Arm.
  Variable st : store.
  Variable scrut : value.
  Variable vn : string.
  Variable xs : list (string * value).
  Hypothesis Hstrip : strip st scrut = Some (VData (Some vn) xs).
  (** what a binding to the field with key [k] holding [w] is: a reference to
      the sub-place (matching through `&self`) or the value (matching `self`) *)
  Variable bv : string -> value -> value.
  Hypothesis Hsub : forall k w, lookup k xs = Some w -> sub_scrut st scrut k = Some (bv k w).

  Lemma arm_pat_miss v i f : String.eqb vn v = false -> match_pat st (arm_pat v i f) scrut = None.
  Proof.
    intros Hne. unfold arm_pat. destruct (f_name f) as [n|].
    - cbn [match_pat]. rewrite Hstrip. rewrite Hne. reflexivity.
    - cbn [match_pat is_some_path]. rewrite Hstrip. rewrite Hne. reflexivity.
  Qed.

  Lemma arm_pat_hit i f w :
    lookup (field_member f i) xs = Some w ->
    (f_name f = None -> i < List.length xs /\ forall j, j <= i -> lookup (dec j) xs <> None) ->
    match_pat st (arm_pat vn i f) scrut = Some [(arm_var i f, bv (field_member f i) w)].
  Proof.
    intros Hw Hk. unfold arm_pat, arm_var, field_member in *. destruct (f_name f) as [n|].
    - cbn [match_pat]. rewrite Hstrip. rewrite String.eqb_refl. cbn [andb orb match_field_pats].
      rewrite (Hsub _ _ Hw). reflexivity.
    - destruct (Hk eq_refl) as [Hlen Hall].
      cbn [match_pat is_some_path]. rewrite Hstrip. rewrite String.eqb_refl. cbn [andb].
      rewrite app_length, repeat_length. cbn [List.length].
      assert (Hle : Nat.leb (i + 1) (List.length xs) = true) by (apply Nat.leb_le; lia).
      rewrite Hle.
      rewrite (match_tuple_wild st scrut
                 (fun j => match lookup (dec j) xs with Some u => bv (dec j) u | None => VUnit end)).
      + cbn [Nat.add]. rewrite Hw. reflexivity.
      + intros j Hj. destruct (lookup (dec j) xs) as [u|] eqn:E.
        * apply Hsub. exact E.
        * exfalso. apply (Hall j); [lia|exact E].
  Qed.
End Arm.

Section ArmEval.
  Variable I : interp.

  Lemma eval_arms_skip en scrut vn xs v i f body rest s :
    strip (st_store s) scrut = Some (VData (Some vn) xs) ->
    String.eqb vn v = false ->
    eval_arms (eval I) en scrut ((arm_pat v i f, body) :: rest) s =
    eval_arms (eval I) en scrut rest s.
  Proof.
    intros Hs Hne. cbn [eval_arms]. rewrite (arm_pat_miss _ _ _ _ Hs v i f Hne). reflexivity.
  Qed.

  Lemma eval_arms_hit en scrut vn xs bv i f w body rest s :
    strip (st_store s) scrut = Some (VData (Some vn) xs) ->
    (forall k u, lookup k xs = Some u -> sub_scrut (st_store s) scrut k = Some (bv k u)) ->
    lookup (field_member f i) xs = Some w ->
    (f_name f = None -> i < List.length xs /\ forall j, j <= i -> lookup (dec j) xs <> None) ->
    eval_arms (eval I) en scrut ((arm_pat vn i f, body) :: rest) s =
    eval I ([(arm_var i f, bv (field_member f i) w)] ++ en) body s.
  Proof.
    intros Hs Hsub Hw Hk. cbn [eval_arms].
    rewrite (arm_pat_hit _ _ _ _ Hs bv Hsub i f w Hw Hk). reflexivity.
  Qed.
End ArmEval.

(** the two scrutinees: `self` a reference to the root `self` (Deref), `self` the value (Into) *)
Lemma strip_self_ref x h : strip (("self", x) :: h) (VRef self_pl) = Some x.
Proof. reflexivity. Qed.

Lemma load_self_field vn xs h k :
  load (("self", VData vn xs) :: h) (sub self_pl k) = lookup k xs.
Proof. cbn. destruct (lookup k xs); reflexivity. Qed.

Lemma sub_scrut_self_ref vn xs h k w :
  lookup k xs = Some w ->
  sub_scrut (("self", VData vn xs) :: h) (VRef self_pl) k = Some (VRef (sub self_pl k)).
Proof. intros H. unfold sub_scrut. rewrite load_self_field, H. reflexivity. Qed.
