(** C15, the other direction — the driver: when the request restricted to each educed trait (and
    its coupled partner) is accepted, the whole request is accepted.  Generic in the per-handler
    fact ("accepted on the restricted input => accepted on the whole input"), which is supplied
    in P_C15f.v from the handler-by-handler equalities P_C15d_*.v. *)
From Educe.Proofs Require Export P_C15d.

(** handler [h] of trait [t]: accepted on the input restricted to [t] and its partner => accepted
    (with the same items) on the whole input *)
Definition reflects (F : features) (d : dinput) (tm : tmap) (t : trait) (h : handler) : Prop :=
  forall m its, h F (map fst (fk (keep_for t) tm)) (restrict (keep_for t) d) m = Ok its ->
                h F (map fst tm) d m = Ok its.
Definition reflects_into (F : features) (d : dinput) (tm : tmap) : Prop :=
  forall ms its, expand_into F (map fst (fk (keep_for TInto) tm)) (restrict (keep_for TInto) d) ms = Ok its ->
                 expand_into F (map fst tm) d ms = Ok its.

Lemma mapM_ok_in {A B} (f : A -> outcome B) l : forall r x,
  mapM f l = Ok r -> In x l -> exists y, f x = Ok y.
Proof.
  induction l as [|a l IH]; intros r x H Hin; [destruct Hin|]. cbn [mapM] in H. bo H. bo H.
  destruct Hin as [<-|Hin]; [eauto|eapply IH; eassumption].
Qed.

Lemma mapM_all_ok {A B} (f : A -> outcome B) l :
  (forall x, In x l -> exists y, f x = Ok y) -> exists r, mapM f l = Ok r.
Proof.
  induction l as [|a l IH]; intros H; [exists []; reflexivity|].
  destruct (H a (or_introl eq_refl)) as [y Hy].
  destruct IH as [r Hr]; [intros x Hx; apply H; right; exact Hx|].
  exists (y :: r). cbn [mapM]. rewrite Hy, Hr. reflexivity.
Qed.

Lemma tmap_get_in t tm v : tmap_get t tm = Some v -> In t (map fst tm).
Proof.
  induction tm as [|[k w] r IH]; cbn [tmap_get map fst]; [discriminate|].
  destruct (trait_eqb k t) eqn:E; [apply trait_eqb_eq in E; subst; intros _; left; reflexivity|].
  intros H. right. apply IH. exact H.
Qed.

Lemma parts_items_keep_nil keep ps :
  parts_items ps = [] -> parts_items (map (keep_part keep) ps) = [].
Proof.
  induction ps as [|[t its] ps IH]; intros H; [reflexivity|].
  rewrite parts_items_cons in H. apply app_eq_nil in H as [-> H2].
  cbn [map]. change (keep_part keep (t, [])) with (t, if keep t then @nil item else []).
  rewrite parts_items_cons, (IH H2).
  destruct (keep t); reflexivity.
Qed.

(** what an accepted restricted request says about the handlers *)
Lemma restricted_accepted F d tm keep its :
  foldM (collect_attr F) [] (d_attrs d) = Ok tm ->
  expand F (restrict keep d) = Ok its ->
  exists hp il,
    mapM (handler_part F (map fst (fk keep tm)) (restrict keep d) (fk keep tm)) handlers = Ok hp
    /\ (match tmap_get TInto (fk keep tm) with
        | Some ms => if has_trait TInto F
                     then expand_into F (map fst (fk keep tm)) (restrict keep d) ms else Ok []
        | None => Ok []
        end) = Ok il.
Proof.
  intros Hc H. rewrite expand_parts_spec in H. bo H. clear H. unfold expand_parts in Hb.
  change (d_attrs (restrict keep d)) with (restrict_attrs keep (d_attrs d)) in Hb.
  rewrite (collect_restrict F keep _ _ Hc) in Hb. cbn [bind] in Hb.
  bo Hb. bo Hb. exists a0, a1. split; assumption.
Qed.

Section Joint.
  Variables (F : features) (d : dinput) (tm : tmap).
  Hypothesis Hcollect : foldM (collect_attr F) [] (d_attrs d) = Ok tm.
  Hypothesis Hne : tm <> [].
  Hypothesis Hrefl : forall t h, In (t, h) handlers -> In t (map fst tm) -> reflects F d tm t h.
  Hypothesis Hrefl_into : In TInto (map fst tm) -> reflects_into F d tm.
  Hypothesis Heach : forall t, In t (map fst tm) -> exists its, expand F (restrict (keep_for t) d) = Ok its.

  Lemma joint_handlers : exists hp, mapM (handler_part F (map fst tm) d tm) handlers = Ok hp.
  Proof.
    apply mapM_all_ok. intros [t h] Hin. unfold handler_part.
    destruct (has_trait t F) eqn:Ef; [|eexists; reflexivity].
    destruct (tmap_get t tm) as [[|m r]|] eqn:Eg; [eexists; reflexivity| |eexists; reflexivity].
    pose proof (tmap_get_in _ _ _ Eg) as Ht.
    destruct (Heach t Ht) as [its Hits].
    destruct (restricted_accepted F d tm (keep_for t) its Hcollect Hits) as [hp [il [Hm _]]].
    destruct (mapM_ok_in _ _ _ _ Hm Hin) as [y Hy].
    unfold handler_part in Hy. rewrite Ef, fk_get, keep_for_self, Eg in Hy. bo Hy.
    rewrite (Hrefl t h Hin Ht _ _ Hb). cbn [bind]. eexists; reflexivity.
  Qed.

  Lemma joint_into : exists il,
    (match tmap_get TInto tm with
     | Some ms => if has_trait TInto F then expand_into F (map fst tm) d ms else Ok []
     | None => Ok []
     end) = Ok il.
  Proof.
    destruct (tmap_get TInto tm) as [ms|] eqn:Eg; [|eexists; reflexivity].
    destruct (has_trait TInto F) eqn:Ef; [|eexists; reflexivity].
    pose proof (tmap_get_in _ _ _ Eg) as Ht.
    destruct (Heach TInto Ht) as [its Hits].
    destruct (restricted_accepted F d tm (keep_for TInto) its Hcollect Hits) as [hp [il [_ Hi]]].
    rewrite fk_get, keep_for_self, Eg, Ef in Hi.
    rewrite (Hrefl_into Ht _ _ Hi). eexists; reflexivity.
  Qed.

  Theorem joint_parts : exists ps, expand_parts F d = Ok ps.
  Proof.
    destruct joint_handlers as [hp Hhp]. destruct joint_into as [il Hil].
    unfold expand_parts. rewrite Hcollect. cbn [bind]. rewrite Hhp. cbn [bind]. rewrite Hil.
    eexists; reflexivity.
  Qed.

  Theorem joint_acceptance_gen : exists items, expand F d = Ok items.
  Proof.
    destruct joint_parts as [ps Hps]. rewrite expand_parts_spec, Hps. cbn [bind].
    destruct (is_nil (parts_items ps)) eqn:En; [|eexists; reflexivity]. exfalso.
    destruct tm as [|[t0 v0] tm0] eqn:Etm; [apply Hne; reflexivity|].
    destruct (Heach t0 (or_introl eq_refl)) as [its Hits].
    rewrite expand_parts_spec, (expand_parts_restrict F (keep_for t0) d ps (keep_for_closed t0) Hps) in Hits.
    cbn [bind] in Hits.
    assert (E : parts_items ps = []) by (destruct (parts_items ps); [reflexivity|discriminate]).
    rewrite (parts_items_keep_nil (keep_for t0) ps E) in Hits. discriminate.
  Qed.
End Joint.

(** * the items: every tagged part of the whole expansion is the part with that tag of the
      expansion restricted to that trait and its partner; the tags are the handlers in order *)
Lemma handler_part_fst F tr d tm t h p : handler_part F tr d tm (t, h) = Ok p -> fst p = t.
Proof.
  unfold handler_part. destruct (has_trait t F); [|intros H; injection H as <-; reflexivity].
  destruct (tmap_get t tm) as [[|m r]|]; try (intros H; injection H as <-; reflexivity).
  intros H. bo H. injection H as <-. reflexivity.
Qed.

Lemma handler_parts_tags F tr d tm : forall l hp,
  mapM (handler_part F tr d tm) l = Ok hp -> map fst hp = map fst l.
Proof.
  induction l as [|[t h] l IH]; intros hp H; cbn [mapM] in H.
  - injection H as <-. reflexivity.
  - bo H. bo H. injection H as <-. cbn [map fst]. rewrite (handler_part_fst _ _ _ _ _ _ _ Hb), (IH _ Hb0).
    reflexivity.
Qed.

Theorem joint_items F d items :
  expand F d = Ok items ->
  exists ps, expand_parts F d = Ok ps /\ items = parts_items ps
    /\ map fst ps = map fst handlers ++ [TInto]
    /\ forall t its, In (t, its) ps ->
         exists psr, expand_parts F (restrict (keep_for t) d) = Ok psr
                     /\ map fst psr = map fst ps /\ In (t, its) psr.
Proof.
  intros H. rewrite expand_parts_spec in H. bo H. rename a into ps. exists ps.
  split; [exact Hb|]. split.
  { destruct (is_nil (parts_items ps)); [discriminate|]. injection H as <-. reflexivity. }
  split.
  { unfold expand_parts in Hb. bo Hb. bo Hb. bo Hb. injection Hb as <-.
    rewrite map_app, (handler_parts_tags _ _ _ _ _ _ Hb1). reflexivity. }
  intros t its Hin. exists (map (keep_part (keep_for t)) ps).
  split; [apply expand_parts_restrict; [apply keep_for_closed|exact Hb]|]. split.
  { rewrite map_map. apply map_ext. intros p. reflexivity. }
  apply in_map_iff. exists (t, its). split; [|exact Hin].
  unfold keep_part. cbn [fst snd]. rewrite keep_for_self. reflexivity.
Qed.
