(** C01 / J2 J3 J4 J8 -- Default, Deref, DerefMut, Into; the whole [expand]; the four
    judgments separated. *)
From Educe.Proofs Require Export P_C01d.

(** * Default *)
Lemma dvalue_expr_wf d v : expr_wf d (dvalue_expr v) = true.
Proof. destruct v; cbn [dvalue_expr]; wsimpl; reflexivity. Qed.

Lemma select_variant_in F traits vs v : select_variant F traits vs = Ok v -> In v vs.
Proof.
  unfold select_variant. intros H.
  assert (Hfold : forall l acc o, (forall x, acc = Some x -> In x vs) -> incl l vs ->
             foldM (select_variant_step F traits) acc l = Ok o -> forall x, o = Some x -> In x vs).
  { induction l as [|y l IH]; intros acc o Hacc Hi Hf x Hx; cbn [foldM] in Hf.
    - inversion Hf; subst. apply Hacc. reflexivity.
    - inv_bind Hf. apply (IH a o); [|intros z Hz; apply Hi; right; exact Hz|exact Hf|exact Hx].
      intros z Hz. unfold select_variant_step in Hb. inv_bind Hb. destruct (dt_flag a0).
      + destruct acc; [discriminate Hb|]. inversion Hb as [Ha]. rewrite <- Ha in Hz.
        inversion Hz as [Hyz]. apply Hi. left. exact Hyz.
      + inv_bind Hb. inversion Hb as [Ha]. rewrite <- Ha in Hz. apply Hacc. exact Hz. }
  destruct vs as [|v0 [|v1 r]].
  - inv_bind H. destruct a; [|discriminate H]. inversion H; subst.
    apply (Hfold [] None (Some v)); [discriminate|apply incl_refl|exact Hb|reflexivity].
  - inv_bind H. inversion H. left. reflexivity.
  - inv_bind H. destruct a as [x|]; [|discriminate H]. inversion H; subst x.
    apply (Hfold (v0 :: v1 :: r) None (Some v)); [discriminate|apply incl_refl|exact Hb|reflexivity].
Qed.

Lemma select_field_in F traits fs x : select_field F traits fs = Ok x -> In (fst x) fs.
Proof.
  unfold select_field. intros H.
  assert (Hfold : forall l acc o, (forall y, acc = Some y -> In (fst y) fs) -> incl l fs ->
             foldM (select_field_step F traits) acc l = Ok o -> forall y, o = Some y -> In (fst y) fs).
  { induction l as [|f l IH]; intros acc o Hacc Hi Hf y Hy; cbn [foldM] in Hf.
    - inversion Hf; subst. apply Hacc. reflexivity.
    - inv_bind Hf. apply (IH a o); [|intros z Hz; apply Hi; right; exact Hz|exact Hf|exact Hy].
      intros z Hz. unfold select_field_step in Hb. inv_bind Hb. destruct (_ || _).
      + destruct acc; [discriminate Hb|]. inversion Hb as [Ha]. rewrite <- Ha in Hz.
        inversion Hz as [Hyz]. apply Hi. left. reflexivity.
      + inversion Hb as [Ha]. rewrite <- Ha in Hz. apply Hacc. exact Hz. }
  destruct fs as [|f0 [|f1 r]].
  - inv_bind H. destruct a; [|discriminate H]. inversion H; subst.
    apply (Hfold [] None (Some x)); [discriminate|apply incl_refl|exact Hb|reflexivity].
  - inv_bind H. inversion H. left. reflexivity.
  - inv_bind H. destruct a as [y|]; [|discriminate H]. inversion H; subst y.
    apply (Hfold (f0 :: f1 :: r) None (Some x)); [discriminate|apply incl_refl|exact Hb|reflexivity].
Qed.

(** the constructor of a plan fits the field list it was built from *)
Definition dbody_fits (p : rpath) (fs : fields) (b : dbody) : Prop :=
  match b with
  | DBExpr _ => False
  | DBUnit q => q = p /\ fs = FUnit
  | DBNamed q l => q = p /\ exists nl, fs = FNamed nl /\ map fst l = map fname_of nl
  | DBUnnamed q l => q = p /\ exists ul, fs = FUnnamed ul /\ List.length l = List.length ul
  end.

Lemma default_fields_body_fits F traits p fs b :
  default_fields_body F traits p fs = Ok b -> dbody_fits p fs b.
Proof.
  unfold default_fields_body. intros H. destruct fs as [l|l|].
  - inv_bind H. inversion H. cbn. split; [reflexivity|]. exists l. split; [reflexivity|].
    clear - Hb. revert a Hb. induction l as [|f l IH]; intros a H; cbn [mapM] in H.
    + inversion H. reflexivity.
    + inv_bind H. inv_bind Hb. inversion Hb; subst a0. inv_bind H. inversion H; subst a.
      cbn [map fst]. f_equal. apply IH. exact Hb1.
  - inv_bind H. inversion H. cbn. split; [reflexivity|]. exists l. split; [reflexivity|].
    apply (mapM_ok_length _ _ _ Hb).
  - inversion H. cbn. auto.
Qed.

Lemma dbody_expr_wf_struct fs b :
  dbody_fits RSelf fs b -> expr_wf (DStruct fs) (dbody_expr b) = true.
Proof.
  destruct b as [v|q|q l|q l]; cbn [dbody_fits dbody_expr]; intros H.
  - destruct H.
  - destruct H as [-> ->]. wsimpl. reflexivity.
  - destruct H as [-> [nl [-> Hn]]]. wsimpl. rewrite map_map.
    replace (map (fun x : string * dvalue => fst (let '(n, v) := x in (n, dvalue_expr v))) l)
      with (map fst l) by (apply map_ext; intros [n v]; reflexivity).
    unfold struct_ctor_fits. rewrite Hn, strs_eqb_refl. cbn [andb]. rewrite forallb_map, ?andb_true_r.
    apply forallb_true. intros [n v]. apply dvalue_expr_wf.
  - destruct H as [-> [ul [-> Hn]]]. wsimpl. unfold tuple_ctor_fits.
    rewrite map_length, Hn, Nat.eqb_refl. cbn [andb].
    rewrite forallb_map, ?andb_true_r. apply forallb_true. intros v. apply dvalue_expr_wf.
Qed.

Lemma dbody_expr_wf_enum vs v b :
  In v vs -> dbody_fits (RSelfV (v_name v)) (v_fields v) b ->
  expr_wf (DEnum vs) (dbody_expr b) = true.
Proof.
  intros Hin. destruct b as [w|q|q l|q l]; cbn [dbody_fits dbody_expr]; intros H.
  - destruct H.
  - destruct H as [-> _]. wsimpl. reflexivity.
  - destruct H as [-> [nl [Hf Hn]]]. wsimpl. apply andb_true_iff. split.
    + apply (ctor_variant_witness vs v); [exact Hin|reflexivity|]. rewrite Hf.
      unfold struct_ctor_fits. rewrite map_map.
      replace (map (fun x : string * dvalue => fst (let '(n, v) := x in (n, dvalue_expr v))) l)
        with (map fst l) by (apply map_ext; intros [n w]; reflexivity).
      rewrite Hn. apply strs_eqb_refl.
    + rewrite forallb_map, ?andb_true_r. apply forallb_true. intros [n w]. apply dvalue_expr_wf.
  - destruct H as [-> [ul [Hf Hn]]]. wsimpl. apply andb_true_iff. split.
    + apply (ctor_variant_witness vs v); [exact Hin|reflexivity|]. rewrite Hf.
      unfold tuple_ctor_fits. rewrite map_length, Hn. apply Nat.eqb_refl.
    + rewrite forallb_map, ?andb_true_r. apply forallb_true. intros w. apply dvalue_expr_wf.
Qed.

Theorem default_wf F traits d m items :
  expand_default F traits d m = Ok items -> forallb (item_wf (d_data d)) items = true.
Proof.
  intros H. unfold expand_default in H. inv_bind H. inversion H; subst items. clear H.
  assert (Hbody : expr_wf (d_data d) (dbody_expr (dp_body a)) = true).
  { unfold default_plan in Hb. inv_bind Hb. inv_bind Hb. inversion Hb; subst a. cbn [dp_body].
    clear Hb. destruct (d_data d) as [fs|vs|fs] eqn:Ed; destruct (dt_expr a0) as [e|].
    - inv_bind Hb1. inversion Hb1. apply dvalue_expr_wf.
    - apply dbody_expr_wf_struct. apply (default_fields_body_fits _ _ _ _ _ Hb1).
    - inv_bind Hb1. inversion Hb1. apply dvalue_expr_wf.
    - inv_bind Hb1. apply (dbody_expr_wf_enum vs a); [apply (select_variant_in _ _ _ _ Hb)|].
      apply (default_fields_body_fits _ _ _ _ _ Hb1).
    - inv_bind Hb1. inversion Hb1. apply dvalue_expr_wf.
    - inv_bind Hb1. destruct a as [f fa]. inversion Hb1; subst a1. cbn [dbody_expr map].
      pose proof (select_field_in _ _ _ _ Hb) as Hin. cbn [fst] in Hin.
      wsimpl. rewrite dvalue_expr_wf, andb_true_r.
      apply mem_str_In. apply in_map_iff. exists f. split; [reflexivity|exact Hin]. }
  unfold default_items. cbn [forallb]. rewrite andb_true_iff. split.
  - unfold default_item. apply one_fn_item_wf. cbn [forallb]. rewrite Hbody. reflexivity.
  - destruct (dp_new a); [|reflexivity]. cbn [forallb]. unfold new_item.
    rewrite one_fn_item_wf; [reflexivity|]. wsimpl. reflexivity.
Qed.

(** * Deref / DerefMut / Into : the arm that picks one field *)
Definition pick_pat (v : string) (i : nat) (f : field) : pat :=
  match f_name f with
  | Some n => PStruct (RSelfV v) [(n, None)] false true
  | None => PTuple (RSelfV v) (repeat PWild i ++ [PBind ("_" ^^ dec i)]) false true
  end.

Lemma pick_pat_wf d v i f :
  In v (variants_of d) -> fields_named_ok (v_fields v) ->
  nth_error (fields_list (v_fields v)) i = Some f ->
  pat_variant (pick_pat (v_name v) i f) = Some (v_name v) /\
  wf_pnode d Datatypes.tt (pick_pat (v_name v) i f) = true.
Proof.
  intros Hin Hok Hn. pose proof (nth_error_In _ _ Hn) as Hf. unfold pick_pat.
  destruct (f_name f) as [n|] eqn:En.
  - split; [reflexivity|]. unfold wf_pnode. cbn [pat_all j2_pat forallb snd andb].
    rewrite andb_true_r. apply (j2_variant_witness _ v); [exact Hin|reflexivity|].
    destruct (v_fields v) as [l|l|]; cbn [fields_list] in Hf.
    + cbn [pat_fits map fst nodupb mem_str existsb negb andb forallb orb].
      rewrite andb_true_r. rewrite mem_str_In; [reflexivity|].
      apply in_map_iff. exists f. split; [unfold fname_of; rewrite En; reflexivity|exact Hf].
    + rewrite (Hok f Hf) in En. discriminate En.
    + destruct Hf.
  - split; [reflexivity|]. unfold wf_pnode. cbn [pat_all j2_pat].
    apply andb_true_iff. split.
    + apply (j2_variant_witness _ v); [exact Hin|reflexivity|].
      destruct (v_fields v) as [l|l|]; cbn [fields_list] in Hf, Hn.
      * destruct Hok as [Hnn _]. exfalso. apply (Hnn f Hf En).
      * cbn [pat_fits]. apply Nat.leb_le. rewrite app_length, repeat_length. cbn [List.length].
        assert (i < List.length l) by (apply nth_error_Some; congruence). lia.
      * destruct Hf.
    + rewrite forallb_app. cbn [forallb]. rewrite forallb_repeat; reflexivity.
Qed.

Lemma deref_arm_pick v i f : fst (deref_arm (v, (i, f))) = pick_pat v i f.
Proof. unfold deref_arm, pick_pat. destruct (f_name f); reflexivity. Qed.

Lemma deref_arm_body_wf d x : expr_wf d (snd (deref_arm x)) = true.
Proof. destruct x as [v [i f]]. unfold deref_arm. destruct (f_name f); apply wf_var. Qed.

Lemma deref_variant_wf F own traits d v x :
  In v (variants_of d) -> fields_named_ok (v_fields v) ->
  deref_variant F own traits v = Ok x ->
  pat_variant (fst (deref_arm x)) = Some (v_name v) /\
  wf_pnode d Datatypes.tt (fst (deref_arm x)) = true /\ expr_wf d (snd (deref_arm x)) = true.
Proof.
  intros Hin Hok H. unfold deref_variant in H. inv_bind H.
  assert (Hsel : exists i f, x = (v_name v, (i, f)) /\
                             nth_error (fields_list (v_fields v)) i = Some f).
  { destruct (v_fields v) as [l|l|]; [| |discriminate H]; inv_bind H; inversion H; subst x;
      destruct a0 as [i f]; exists i, f; (split; [reflexivity|]);
      destruct (deref_select_designated F own traits _ i f Hb0) as [_ [_ [_ [_ Hn]]]]; exact Hn. }
  destruct Hsel as [i [f [-> Hn]]]. rewrite deref_arm_pick.
  destruct (pick_pat_wf d v i f Hin Hok Hn) as [Hv Hp].
  split; [exact Hv|]. split; [exact Hp|apply deref_arm_body_wf].
Qed.

Lemma deref_match_wf F own traits vs l :
  (forall v, In v vs -> fields_named_ok (v_fields v)) ->
  mapM (deref_variant F own traits) vs = Ok l ->
  forallb (expr_wf (DEnum vs)) (deref_match l) = true.
Proof.
  intros Hok Hl.
  assert (HF : Forall2 (fun v x =>
             pat_variant (fst (deref_arm x)) = Some (v_name v) /\
             wf_pnode (DEnum vs) Datatypes.tt (fst (deref_arm x)) = true /\
             expr_wf (DEnum vs) (snd (deref_arm x)) = true) vs l).
  { apply (Forall2_mapM_In _ _ _ _ Hl). intros v x Hin Hv.
    apply (deref_variant_wf F own traits (DEnum vs) v x Hin (Hok v Hin) Hv). }
  destruct (arms_wf_Forall2 (DEnum vs) deref_arm vs l HF) as [Hc Ha].
  unfold deref_match. wsimpl. rewrite Hc, Ha. reflexivity.
Qed.

Lemma deref_analyse_enum F own traits d m vs p :
  d_data d = DEnum vs -> deref_analyse F own traits d m = Ok p ->
  exists x r, p = DPEnum x r /\ mapM (deref_variant F own traits) vs = Ok (x :: r).
Proof.
  intros Ed H. unfold deref_analyse in H. rewrite Ed in H. inv_bind H. inv_bind H.
  destruct a0 as [|x r]; [discriminate H|]. inversion H. eauto.
Qed.

Theorem deref_wf F traits d m items :
  data_named_ok (d_data d) ->
  expand_deref F traits d m = Ok items -> forallb (item_wf (d_data d)) items = true.
Proof.
  intros Hok H. unfold expand_deref in H. inv_bind H. inversion H; subst items. clear H.
  destruct (d_data d) as [fs|vs|fs] eqn:Ed.
  - unfold deref_analyse in Hb. rewrite Ed in Hb. inv_bind Hb. inv_bind Hb. inversion Hb; subst a.
    cbn [deref_emit forallb]. unfold deref_item. wsimpl. unfold deref_struct_body.
    destruct (is_ref_type _); wsimpl; reflexivity.
  - destruct (deref_analyse_enum _ _ _ _ _ _ _ Ed Hb) as [x [r [-> Hl]]].
    cbn [deref_emit forallb]. unfold deref_item. wsimpl.
    rewrite (deref_match_wf F TDeref traits vs (x :: r) Hok Hl). reflexivity.
  - unfold deref_analyse in Hb. rewrite Ed in Hb. discriminate Hb.
Qed.

Theorem deref_mut_wf F traits d m items :
  data_named_ok (d_data d) ->
  expand_deref_mut F traits d m = Ok items -> forallb (item_wf (d_data d)) items = true.
Proof.
  intros Hok H. unfold expand_deref_mut in H. inv_bind H. inversion H; subst items. clear H.
  destruct (d_data d) as [fs|vs|fs] eqn:Ed.
  - unfold deref_analyse in Hb. rewrite Ed in Hb. inv_bind Hb. inv_bind Hb. inversion Hb; subst a.
    cbn [deref_mut_emit forallb]. unfold deref_mut_item. wsimpl. unfold deref_mut_struct_body.
    destruct (is_ref_type _); wsimpl; reflexivity.
  - destruct (deref_analyse_enum _ _ _ _ _ _ _ Ed Hb) as [x [r [-> Hl]]].
    cbn [deref_mut_emit forallb]. unfold deref_mut_item. wsimpl.
    rewrite (deref_match_wf F TDerefMut traits vs (x :: r) Hok Hl). reflexivity.
  - unfold deref_analyse in Hb. rewrite Ed in Hb. discriminate Hb.
Qed.

(** * Into *)
Lemma into_conv_wf d target c operand :
  expr_wf d operand = true -> expr_wf d (into_conv target c operand) = true.
Proof.
  intros Ho. destruct c as [[i f] m]. unfold into_conv. destruct m as [p|].
  - wsimpl. rewrite Ho. reflexivity.
  - destruct (flat_eqb target (hash_type (f_ty f))); [exact Ho|]. wsimpl. rewrite Ho. reflexivity.
Qed.

Lemma into_arm_pick target v i f m : fst (into_arm target (v, (i, f, m))) = pick_pat v i f.
Proof. unfold into_arm, pick_pat. destruct (f_name f); reflexivity. Qed.

Lemma into_arm_body_wf d target x : expr_wf d (snd (into_arm target x)) = true.
Proof.
  destruct x as [v [[i f] m]]. unfold into_arm.
  destruct (f_name f); cbn [snd]; apply into_conv_wf; apply wf_var.
Qed.

Lemma into_field_attrs_fst F traits targets fs fl :
  mapM (into_field_attr F traits targets) fs = Ok fl -> map fst fl = fs.
Proof.
  revert fl. induction fs as [|f fs IH]; intros fl H; cbn [mapM] in H.
  - inversion H. reflexivity.
  - inv_bind H. inv_bind H. inversion H; subst fl. cbn [map].
    destruct (into_field_attr_inv _ _ _ _ _ Hb) as [Hf _]. rewrite Hf. f_equal. apply IH. exact Hb0.
Qed.

Lemma into_variant_choice_wf d target v fl x :
  In v (variants_of d) -> fields_named_ok (v_fields v) ->
  map fst fl = fields_list (v_fields v) ->
  into_variant_choice target (v, fl) = Ok x ->
  pat_variant (fst (into_arm target x)) = Some (v_name v) /\
  wf_pnode d Datatypes.tt (fst (into_arm target x)) = true /\
  expr_wf d (snd (into_arm target x)) = true.
Proof.
  intros Hin Hok Hfl H. unfold into_variant_choice in H. cbn [fst snd] in H.
  assert (Hsel : exists i f m, x = (v_name v, (i, f, m)) /\
                               nth_error (fields_list (v_fields v)) i = Some f).
  { destruct (v_fields v) as [l|l|]; [| |discriminate H]; inv_bind H; inversion H; subst x;
      destruct a as [[i f] m]; exists i, f, m; (split; [reflexivity|]);
      pose proof (into_select_spec target fl) as Hs; rewrite Hb in Hs;
      destruct Hs as [fa [Hn _]]; rewrite <- Hfl;
      rewrite (map_nth_error fst _ _ Hn); reflexivity. }
  destruct Hsel as [i [f [m [-> Hn]]]]. rewrite into_arm_pick.
  destruct (pick_pat_wf d v i f Hin Hok Hn) as [Hv Hp].
  split; [exact Hv|]. split; [exact Hp|apply into_arm_body_wf].
Qed.

Lemma Forall2_trans {A B C} (P : A -> B -> Prop) (Q : B -> C -> Prop) (R : A -> C -> Prop) l1 l2 l3 :
  (forall a b c, P a b -> Q b c -> R a c) -> Forall2 P l1 l2 -> Forall2 Q l2 l3 -> Forall2 R l1 l3.
Proof.
  intros H H1. revert l3. induction H1 as [|a b l1 l2 Hab _ IH]; intros l3 H2; inversion H2; subst;
    constructor; eauto.
Qed.

Theorem into_wf F traits d ms items :
  data_named_ok (d_data d) ->
  expand_into F traits d ms = Ok items -> forallb (item_wf (d_data d)) items = true.
Proof.
  intros Hok H. unfold expand_into in H. inv_bind H. inversion H; subst items. clear H.
  unfold into_analyse, into_results in Hb. inv_bind Hb.
  destruct (d_data d) as [fs|vs|fs] eqn:Ed; [| |discriminate Hb0].
  - inv_bind Hb0. inv_bind Hb0. inversion Hb0; subst a0. apply mapM_id_map in Hb.
    unfold into_emit. rewrite forallb_map. apply forallb_In. intros x Hx.
    destruct (Forall2_in_r _ _ _ Hb x Hx) as [t [_ Ht]]. cbn beta in Ht.
    unfold into_struct_target in Ht. inv_bind Ht. inversion Ht; subst x.
    destruct t as [target b]. cbn [into_emit1]. destruct a0 as [[i f] m].
    unfold into_struct_item, into_item. apply one_fn_item_wf. cbn [forallb].
    rewrite into_conv_wf; [reflexivity|]. wsimpl. reflexivity.
  - inv_bind Hb0. inv_bind Hb0. inversion Hb0; subst a0. apply mapM_id_map in Hb.
    assert (HF1 : Forall2 (fun v (x : variant * list (field * into_fattr)) =>
                     In v vs /\ fst x = v /\ map fst (snd x) = fields_list (v_fields v)) vs a2).
    { apply (Forall2_mapM_In _ _ _ _ Hb2). intros v x Hin Hv. inv_bind Hv. inv_bind Hv.
      inversion Hv; subst x. split; [exact Hin|]. split; [reflexivity|].
      apply (into_field_attrs_fst _ _ _ _ _ Hb4). }
    unfold into_emit. rewrite forallb_map. apply forallb_In. intros x Hx.
    destruct (Forall2_in_r _ _ _ Hb x Hx) as [t [_ Ht]]. cbn beta in Ht.
    unfold into_enum_target in Ht. inv_bind Ht. destruct (is_nil a0); [discriminate Ht|].
    inversion Ht; subst x. destruct t as [target b]. cbn [into_emit1 fst] in *.
    unfold into_enum_item, into_item. apply one_fn_item_wf.
    assert (HF : Forall2 (fun v x =>
               pat_variant (fst (into_arm target x)) = Some (v_name v) /\
               wf_pnode (DEnum vs) Datatypes.tt (fst (into_arm target x)) = true /\
               expr_wf (DEnum vs) (snd (into_arm target x)) = true) vs a0).
    { refine (Forall2_trans _ _ _ _ _ _ _ HF1 (mapM_ok_Forall2 _ _ _ Hb3)).
      intros v [v' fl] x [Hin [Hv Hfl]] Hc. cbn [fst snd] in Hv, Hfl. subst v'.
      apply (into_variant_choice_wf (DEnum vs) target v fl x Hin (Hok v Hin) Hfl Hc). }
    destruct (arms_wf_Forall2 (DEnum vs) (into_arm target) vs a0 HF) as [Hc Ha].
    wsimpl. rewrite Hc, Ha. reflexivity.
Qed.

(** * the whole macro *)
Lemma handler_wf F traits d t h m items :
  data_named_ok (d_data d) ->
  In (t, h) handlers -> h F traits d m = Ok items -> forallb (item_wf (d_data d)) items = true.
Proof.
  intros Hok Hin Hh. unfold handlers in Hin. cbn [In] in Hin.
  repeat (destruct Hin as [Hin|Hin]; [inversion Hin; subst t h; clear Hin|]); [..|destruct Hin].
  - apply (debug_wf _ _ _ _ _ Hok Hh).
  - apply (clone_wf _ _ _ _ _ Hok Hh).
  - apply (copy_wf _ _ _ _ _ Hh).
  - apply (partial_eq_wf _ _ _ _ _ Hok Hh).
  - apply (eq_wf _ _ _ _ _ Hh).
  - apply (partial_ord_wf _ _ _ _ _ Hok Hh).
  - apply (ord_wf _ _ _ _ _ Hok Hh).
  - apply (hash_wf _ _ _ _ _ Hok Hh).
  - apply (default_wf _ _ _ _ _ Hh).
  - apply (deref_wf _ _ _ _ _ Hok Hh).
  - apply (deref_mut_wf _ _ _ _ _ Hok Hh).
Qed.

Theorem expand_wf F d items :
  data_named_ok (d_data d) -> expand F d = Ok items -> forallb (item_wf (d_data d)) items = true.
Proof.
  intros Hok. apply expand_generic.
  - intros traits t h m its. apply handler_wf. exact Hok.
  - intros traits ms its. apply into_wf. exact Hok.
Qed.

(** * the four judgments, separately *)
Lemma forallb_impl {A} (p q : A -> bool) l :
  (forall x, p x = true -> q x = true) -> forallb p l = true -> forallb q l = true.
Proof.
  intros H Hp. apply forallb_forall. intros x Hx. apply H. rewrite forallb_forall in Hp.
  apply (Hp x Hx).
Qed.

Lemma item_wf_matches d it : item_wf d it = true -> item_matches (variants_of d) it = true.
Proof.
  unfold item_wf, item_matches. apply forallb_impl. intros [a n s ps body|n ty]; [|reflexivity].
  cbn [member_wf member_matches]. apply forallb_impl. intros e. unfold expr_wf, expr_matches.
  apply walk_mono; [|reflexivity]. intros c e' H. unfold wf_node in H.
  apply andb_true_iff in H. destruct H as [H _]. apply andb_true_iff in H. destruct H as [_ H].
  exact H.
Qed.

Lemma item_wf_ctors d it : item_wf d it = true -> item_ctors d it = true.
Proof.
  unfold item_wf, item_ctors. apply forallb_impl. intros [a n s ps body|n ty]; [|reflexivity].
  cbn [member_wf member_ctors]. apply forallb_impl. intros e. unfold expr_wf, expr_ctors.
  apply walk_mono; [|reflexivity]. intros c e' H. unfold wf_node in H.
  apply andb_true_iff in H. destruct H as [_ H]. exact H.
Qed.

Lemma item_wf_pats d it : item_wf d it = true -> item_pats (variants_of d) it = true.
Proof.
  unfold item_wf, item_pats. apply forallb_impl. intros [a n s ps body|n ty]; [|reflexivity].
  cbn [member_wf member_pats]. apply forallb_impl. intros e. unfold expr_wf, expr_pats.
  apply walk_mono; [reflexivity|]. intros c p H. exact H.
Qed.

Lemma item_wf_safe d it : is_union d = false -> item_wf d it = true -> item_safe it = true.
Proof.
  intros Hu. unfold item_wf, item_safe. apply forallb_impl.
  intros [a n s ps body|n ty]; [|reflexivity].
  cbn [member_wf member_safe]. apply forallb_impl. intros e. unfold expr_wf, expr_safe.
  apply walk_mono; [|reflexivity]. intros c e' H. unfold wf_node in H. rewrite Hu in H.
  apply andb_true_iff in H. destruct H as [H _]. apply andb_true_iff in H. destruct H as [H _].
  exact H.
Qed.
