(** C18 — naming a disabled trait is rejected at EVERY level.

    A successful expansion has resolved every meta of every `#[educe(...)]` list attribute of the
    input — type, variants, fields — to an enabled trait: each handler, when it succeeds, has run
    its scanner over every variant- and field-level attribute list ([*_sc] lemmas below), and the
    scanner fails with "unsupported trait" on a path that [trait_from_path F] does not resolve.
    The three delegating handlers (Eq with PartialEq educed, Copy with Clone educed, PartialOrd
    with Ord educed) scan nothing themselves; their partner, being educed, does. *)
From Educe.Proofs Require Export P_C18.

Ltac bo H :=
  let a := fresh "a" in let Hb := fresh "Hb" in apply cg_bind_ok in H as [a [Hb H]].

Lemma mapM_ok_P {A B} (f : A -> outcome B) (Q : A -> Prop) :
  (forall x y, f x = Ok y -> Q x) -> forall l r, mapM f l = Ok r -> Forall Q l.
Proof.
  intros Hf. induction l as [|x l IH]; intros r H; [constructor|].
  cbn [mapM] in H. bo H. bo H. constructor; [eapply Hf; eassumption|eapply IH; eassumption].
Qed.

Lemma foldM_ok_P {A S} (f : S -> A -> outcome S) (Q : A -> Prop) :
  (forall s x s', f s x = Ok s' -> Q x) -> forall l s s', foldM f s l = Ok s' -> Forall Q l.
Proof.
  intros Hf. induction l as [|x l IH]; intros s s' H; [constructor|].
  cbn [foldM] in H. bo H. constructor; [eapply Hf; eassumption|eapply IH; eassumption].
Qed.

Lemma Forall_index_from_inv {A} (Q : A -> Prop) l : forall i,
  Forall (fun x => Q (snd x)) (index_from i l) -> Forall Q l.
Proof.
  induction l as [|x r IH]; intros i H; [constructor|]. cbn [index_from] in H.
  inversion H; subst. constructor; [assumption|eapply IH; eassumption].
Qed.
Lemma Forall_indexed_inv {A} (Q : A -> Prop) l :
  Forall (fun x => Q (snd x)) (indexed l) -> Forall Q l.
Proof. apply Forall_index_from_inv. Qed.

(** a successful fold of the scanner shape has run its step on every meta *)
Lemma attr_fold_ok {S} (step : S -> meta -> outcome S) (other : S -> outcome S) (Q : meta -> Prop) :
  (forall s m s', step s m = Ok s' -> Q m) ->
  forall attrs s s',
    foldM (fun s a => if is_educe a then
                        match a_meta a with
                        | AMList _ ts => let* ms := parse_metas ts in foldM step s ms
                        | _ => other s
                        end
                      else Ok s) s attrs = Ok s' ->
    attrs_ok Q attrs.
Proof.
  intros Hstep. induction attrs as [|a r IH]; intros s s' H; [constructor|].
  cbn [foldM] in H. bo H. unfold attrs_ok. cbn [attrs_metas flat_map]. apply Forall_app. split.
  - unfold attr_metas. destruct (is_educe a); [|constructor].
    destruct (a_meta a) as [| |dl ts]; try constructor.
    destruct (parse_metas ts) as [ms| | |]; cbn [bind] in Hb; try discriminate.
    eapply foldM_ok_P; [exact Hstep|exact Hb].
  - eapply IH. exact H.
Qed.

Section Scanned.
  Variables (F : features) (tr : list trait).

  (** the meta's path resolves, under F, to a trait educed on the type *)
  Definition scanned (m : meta) : Prop :=
    exists t, trait_from_path F (meta_path m) = Some t /\ has_trait t tr = true.
  Notation Sc := scanned.

  Lemma scan_sc {A} own (build : meta -> outcome A) attrs r :
    scan_attrs F own build tr attrs = Ok r -> attrs_ok Sc attrs.
  Proof.
    unfold scan_attrs, scan_attr. apply attr_fold_ok.
    intros s m s' H. unfold scan_meta in H.
    destruct (trait_from_path F (meta_path m)) as [t|] eqn:E; [|discriminate].
    exists t. split; [exact E|]. destruct (has_trait t tr); [reflexivity|discriminate].
  Qed.

  Lemma into_collect_sc attrs r : into_collect F tr attrs = Ok r -> attrs_ok Sc attrs.
  Proof.
    unfold into_collect, into_collect_attr. apply attr_fold_ok.
    intros s m s' H. unfold into_collect_meta in H.
    destruct (trait_from_path F (meta_path m)) as [t|] eqn:E; [|discriminate].
    exists t. split; [exact E|]. destruct (has_trait t tr); [reflexivity|discriminate].
  Qed.

  Ltac by_scan H := bo H; eapply scan_sc; eassumption.

  (** ** PartialEq *)
  Lemma peq_type_attr_sc attrs r : peq_type_attr F tr attrs = Ok r -> attrs_ok Sc attrs.
  Proof. intros H. unfold peq_type_attr in H. by_scan H. Qed.
  Lemma peq_field_attr_sc ei em attrs r : peq_field_attr F tr ei em attrs = Ok r -> attrs_ok Sc attrs.
  Proof. intros H. unfold peq_field_attr in H. by_scan H. Qed.
  Lemma field_attrs_sc fs l : field_attrs F tr fs = Ok l -> Forall (field_ok Sc) fs.
  Proof.
    unfold field_attrs. apply mapM_ok_P. intros f y H. bo H. eapply peq_field_attr_sc; eassumption.
  Qed.
  Lemma peq_variant_sc v r : peq_variant F tr v = Ok r -> variant_ok Sc v.
  Proof.
    intros H. unfold peq_variant in H. bo H. split; [eapply peq_type_attr_sc; eassumption|].
    destruct (v_fields v); cbn [fields_list]; [bo H; eapply field_attrs_sc; eassumption..|constructor].
  Qed.
  Lemma expand_partial_eq_sc d m its :
    expand_partial_eq F tr d m = Ok its -> data_ok Sc (d_data d).
  Proof.
    intros H. unfold expand_partial_eq in H. destruct (d_data d) as [fs|vs|fs]; cbn [data_ok].
    - bo H. bo H. eapply field_attrs_sc; eassumption.
    - bo H. bo H. eapply mapM_ok_P; [|eassumption]. intros v y. apply peq_variant_sc.
    - bo H. destruct (negb (ta_unsafe a)); [discriminate|]. bo H.
      eapply mapM_ok_P; [|eassumption]. intros f y. apply peq_field_attr_sc.
  Qed.

  (** ** Eq, Copy *)
  Lemma marker_field_attr_sc own attrs r : marker_field_attr F own tr attrs = Ok r -> attrs_ok Sc attrs.
  Proof. intros H. unfold marker_field_attr in H. by_scan H. Qed.
  Lemma marker_variant_attr_sc own attrs r : marker_variant_attr F own tr attrs = Ok r -> attrs_ok Sc attrs.
  Proof. intros H. unfold marker_variant_attr in H. by_scan H. Qed.
  Lemma marker_fields_sc own fs r :
    mapM (fun f => let* _ := marker_field_attr F own tr (f_attrs f) in Ok (f_ty f)) fs = Ok r ->
    Forall (field_ok Sc) fs.
  Proof. apply mapM_ok_P. intros f y H. bo H. eapply marker_field_attr_sc; eassumption. Qed.
  Lemma all_field_types_sc own dd r : all_field_types F own tr dd = Ok r -> data_ok Sc dd.
  Proof.
    intros H. unfold all_field_types in H. destruct dd as [fs|vs|fs]; cbn [data_ok].
    - eapply marker_fields_sc; eassumption.
    - bo H. eapply mapM_ok_P; [|eassumption]. intros v y Hv. bo Hv.
      split; [eapply marker_variant_attr_sc; eassumption|eapply marker_fields_sc; eassumption].
    - eapply marker_fields_sc; eassumption.
  Qed.
  Lemma expand_eq_sc d m its : expand_eq F tr d m = Ok its ->
    has_trait TPartialEq F && has_trait TPartialEq tr = true \/ data_ok Sc (d_data d).
  Proof.
    intros H. unfold expand_eq in H. bo H.
    destruct (has_trait TPartialEq F && has_trait TPartialEq tr); [left; reflexivity|right].
    bo H. eapply all_field_types_sc; eassumption.
  Qed.
  Lemma expand_copy_sc d m its : expand_copy F tr d m = Ok its ->
    has_trait TClone F && has_trait TClone tr = true \/ data_ok Sc (d_data d).
  Proof.
    intros H. unfold expand_copy in H. bo H.
    destruct (has_trait TClone F && has_trait TClone tr); [left; reflexivity|right].
    bo H. eapply all_field_types_sc; eassumption.
  Qed.

  (** ** Hash *)
  Lemma hash_type_attr_sc attrs r : hash_type_attr F tr attrs = Ok r -> attrs_ok Sc attrs.
  Proof. intros H. unfold hash_type_attr in H. by_scan H. Qed.
  Lemma hash_field_attr_sc ei em attrs r : hash_field_attr F tr ei em attrs = Ok r -> attrs_ok Sc attrs.
  Proof. intros H. unfold hash_field_attr in H. by_scan H. Qed.
  Lemma hash_field_attrs_sc fs l : hash_field_attrs F tr fs = Ok l -> Forall (field_ok Sc) fs.
  Proof.
    unfold hash_field_attrs. apply mapM_ok_P. intros f y H. bo H. eapply hash_field_attr_sc; eassumption.
  Qed.
  Lemma hash_variant_sc iv r : hash_variant F tr iv = Ok r -> variant_ok Sc (snd iv).
  Proof.
    destruct iv as [vi v]. cbn [snd]. intros H. unfold hash_variant in H. bo H. bo H.
    split; [eapply hash_type_attr_sc; eassumption|eapply hash_field_attrs_sc; eassumption].
  Qed.
  Lemma expand_hash_sc d m its : expand_hash F tr d m = Ok its -> data_ok Sc (d_data d).
  Proof.
    intros H. unfold expand_hash in H. destruct (d_data d) as [fs|vs|fs]; cbn [data_ok].
    - bo H. bo H. eapply hash_field_attrs_sc; eassumption.
    - bo H. bo H. apply Forall_indexed_inv. eapply mapM_ok_P; [|eassumption].
      intros iv y. apply hash_variant_sc.
    - bo H. destruct (negb (ta_unsafe a)); [discriminate|]. bo H.
      eapply mapM_ok_P; [|eassumption]. intros f y. apply hash_field_attr_sc.
  Qed.

  (** ** Clone *)
  Lemma clone_field_attr_sc em attrs r : clone_field_attr F tr em attrs = Ok r -> attrs_ok Sc attrs.
  Proof. intros H. unfold clone_field_attr in H. by_scan H. Qed.
  Lemma clone_variant_attr_sc attrs r : clone_variant_attr F tr attrs = Ok r -> attrs_ok Sc attrs.
  Proof. intros H. unfold clone_variant_attr in H. by_scan H. Qed.
  Lemma clone_field_attrs_sc em fs l : clone_field_attrs F tr em fs = Ok l -> Forall (field_ok Sc) fs.
  Proof.
    unfold clone_field_attrs. apply mapM_ok_P. intros f y H. bo H. eapply clone_field_attr_sc; eassumption.
  Qed.
  Lemma clone_variant_sc v r : clone_variant F tr v = Ok r -> variant_ok Sc v.
  Proof.
    intros H. unfold clone_variant in H. bo H. bo H.
    split; [eapply clone_variant_attr_sc; eassumption|eapply clone_field_attrs_sc; eassumption].
  Qed.
  Lemma expand_clone_sc d m its : expand_clone F tr d m = Ok its -> data_ok Sc (d_data d).
  Proof.
    intros H. unfold expand_clone in H. bo H. destruct (d_data d) as [fs|vs|fs]; cbn [data_ok].
    - bo H. eapply clone_field_attrs_sc; eassumption.
    - bo H. eapply mapM_ok_P; [|eassumption]. intros v y. apply clone_variant_sc.
    - bo H. eapply clone_field_attrs_sc; eassumption.
  Qed.

  (** ** Debug *)
  Lemma debug_variant_attr_sc b attrs r : debug_variant_attr F tr b attrs = Ok r -> attrs_ok Sc attrs.
  Proof. intros H. unfold debug_variant_attr in H. by_scan H. Qed.
  Lemma debug_field_attr_sc a b c attrs r : debug_field_attr F tr a b c attrs = Ok r -> attrs_ok Sc attrs.
  Proof. intros H. unfold debug_field_attr in H. by_scan H. Qed.
  Lemma debug_field_attrs_sc en fs l : debug_field_attrs F tr en fs = Ok l -> Forall (field_ok Sc) fs.
  Proof.
    intros H. unfold debug_field_attrs in H. bo H. eapply mapM_ok_P; [|eassumption].
    intros f y Hf. bo Hf. eapply debug_field_attr_sc; eassumption.
  Qed.
  Lemma debug_variant_sc n v r : debug_variant F tr n v = Ok r -> variant_ok Sc v.
  Proof.
    intros H. unfold debug_variant in H. bo H. split; [eapply debug_variant_attr_sc; eassumption|].
    destruct (v_fields v); cbn [fields_list] in *; [bo H; eapply debug_field_attrs_sc; eassumption..|constructor].
  Qed.
  Lemma expand_debug_sc d m its : expand_debug F tr d m = Ok its -> data_ok Sc (d_data d).
  Proof.
    intros H. unfold expand_debug in H. destruct (d_data d) as [fs|vs|fs]; cbn [data_ok].
    - bo H. bo H. eapply debug_field_attrs_sc; eassumption.
    - bo H. bo H. eapply mapM_ok_P; [|eassumption]. intros v y. apply debug_variant_sc.
    - bo H. destruct (negb (dt_unsafe a)); [discriminate|]. bo H.
      eapply mapM_ok_P; [|eassumption]. intros f y. apply debug_field_attr_sc.
  Qed.

  (** ** PartialOrd, Ord *)
  Lemma ord_field_attr_sc own i attrs r : ord_field_attr F own tr i attrs = Ok r -> attrs_ok Sc attrs.
  Proof. intros H. unfold ord_field_attr in H. by_scan H. Qed.
  Lemma ord_variant_attr_sc own attrs r : ord_variant_attr F own tr attrs = Ok r -> attrs_ok Sc attrs.
  Proof. intros H. unfold ord_variant_attr in H. by_scan H. Qed.
  Lemma plan_fields_sc own fs p : plan_fields F own tr fs = Ok p -> Forall (field_ok Sc) fs.
  Proof.
    intros H. unfold plan_fields in H. apply Forall_indexed_inv.
    eapply foldM_ok_P; [|exact H]. intros s [i f] s' Hs. cbn [snd]. unfold plan_field in Hs.
    bo Hs. eapply ord_field_attr_sc; eassumption.
  Qed.
  Lemma plan_variant_sc own v r : plan_variant F own tr v = Ok r -> variant_ok Sc v.
  Proof.
    intros H. unfold plan_variant in H. bo H. split; [eapply ord_variant_attr_sc; eassumption|].
    destruct (v_fields v); cbn [fields_list]; [bo H; eapply plan_fields_sc; eassumption..|constructor].
  Qed.
  Lemma expand_partial_ord_sc d m its : expand_partial_ord F tr d m = Ok its ->
    has_trait TOrd F && has_trait TOrd tr = true \/ data_ok Sc (d_data d).
  Proof.
    intros H. unfold expand_partial_ord in H.
    destruct (has_trait TOrd F && has_trait TOrd tr); [left; reflexivity|right].
    destruct (d_data d) as [fs|vs|fs]; cbn [data_ok]; [| |discriminate].
    - bo H. bo H. eapply plan_fields_sc; eassumption.
    - bo H. bo H. bo H. eapply mapM_ok_P; [|eassumption]. intros v y. apply plan_variant_sc.
  Qed.
  Lemma expand_ord_sc d m its : expand_ord F tr d m = Ok its -> data_ok Sc (d_data d).
  Proof.
    intros H. unfold expand_ord in H.
    destruct (d_data d) as [fs|vs|fs]; cbn [data_ok]; [| |discriminate].
    - bo H. bo H. eapply plan_fields_sc; eassumption.
    - bo H. bo H. bo H. eapply mapM_ok_P; [|eassumption]. intros v y. apply plan_variant_sc.
  Qed.

  (** ** Default *)
  Lemma default_variant_attr_sc fl attrs r : default_variant_attr F tr fl attrs = Ok r -> attrs_ok Sc attrs.
  Proof. intros H. unfold default_variant_attr in H. by_scan H. Qed.
  Lemma default_field_attr_sc a b f r : default_field_attr F tr a b f = Ok r -> field_ok Sc f.
  Proof. intros H. unfold default_field_attr in H. unfold field_ok. by_scan H. Qed.
  Lemma ensure_no_attribute_sc fs r : ensure_no_attribute F tr fs = Ok r -> Forall (field_ok Sc) fs.
  Proof.
    intros H. unfold ensure_no_attribute in H. bo H. eapply mapM_ok_P; [|eassumption].
    intros f y. apply default_field_attr_sc.
  Qed.
  Lemma default_field_value_sc f r : default_field_value F tr f = Ok r -> field_ok Sc f.
  Proof. intros H. unfold default_field_value in H. bo H. eapply default_field_attr_sc; eassumption. Qed.
  Lemma default_fields_body_sc p fs r :
    default_fields_body F tr p fs = Ok r -> Forall (field_ok Sc) (fields_list fs).
  Proof.
    intros H. unfold default_fields_body in H. destruct fs as [l|l|]; cbn [fields_list]; [| |constructor].
    - bo H. eapply mapM_ok_P; [|eassumption]. intros f y Hf. bo Hf. eapply default_field_value_sc; eassumption.
    - bo H. eapply mapM_ok_P; [|eassumption]. intros f y. apply default_field_value_sc.
  Qed.

  (** the selected variant's fields are looked at later (by [default_fields_body]); all the
      others' by [ensure_no_attribute] *)
  Lemma select_variant_sc vs v : select_variant F tr vs = Ok v ->
    Forall (fun v' => attrs_ok Sc (v_attrs v') /\
                      (v' = v \/ Forall (field_ok Sc) (fields_list (v_fields v')))) vs.
  Proof.
    assert (Hfold : forall l acc o, foldM (select_variant_step F tr) acc l = Ok o ->
              (forall x, acc = Some x -> o = Some x) /\
              Forall (fun v' => attrs_ok Sc (v_attrs v') /\
                                (o = Some v' \/ Forall (field_ok Sc) (fields_list (v_fields v')))) l).
    { induction l as [|y r IH]; intros acc o H; cbn [foldM] in H.
      - injection H as <-. split; [auto|constructor].
      - bo H. destruct (IH _ _ H) as [Hacc Hr]. unfold select_variant_step in Hb. bo Hb.
        assert (Ha : attrs_ok Sc (v_attrs y)) by (eapply default_variant_attr_sc; eassumption).
        destruct (dt_flag a0).
        + destruct acc; [discriminate|]. injection Hb as <-. split; [discriminate|].
          constructor; [|exact Hr]. split; [exact Ha|left; apply Hacc; reflexivity].
        + bo Hb. injection Hb as <-. split; [exact Hacc|].
          constructor; [|exact Hr]. split; [exact Ha|right; eapply ensure_no_attribute_sc; eassumption]. }
    intros H. unfold select_variant in H.
    assert (Hgen : forall o, foldM (select_variant_step F tr) None vs = Ok o ->
                             match o with Some x => Ok x | None => Err E_default_no_variant end = Ok v ->
                             Forall (fun v' => attrs_ok Sc (v_attrs v') /\
                               (v' = v \/ Forall (field_ok Sc) (fields_list (v_fields v')))) vs).
    { intros o Hf Ho. destruct o as [x|]; [|discriminate]. injection Ho as ->.
      destruct (Hfold _ _ _ Hf) as [_ Hr]. eapply Forall_impl; [|exact Hr]. cbv beta.
      intros v' [Ha [Hs|Hs]]; split; auto. left. injection Hs as ->. reflexivity. }
    destruct vs as [|v1 [|v2 r]]; try (bo H; eapply Hgen; eassumption).
    bo H. injection H as ->. constructor; [|constructor].
    split; [eapply default_variant_attr_sc; eassumption|left; reflexivity].
  Qed.

  Lemma select_field_sc fs r : select_field F tr fs = Ok r -> Forall (field_ok Sc) fs.
  Proof.
    intros H. unfold select_field in H.
    assert (Hgen : forall o, foldM (select_field_step F tr) None fs = Ok o -> Forall (field_ok Sc) fs).
    { intros o. apply foldM_ok_P. intros s f s' Hs. unfold select_field_step in Hs. bo Hs.
      eapply default_field_attr_sc; eassumption. }
    destruct fs as [|f1 [|f2 l]]; try (bo H; eapply Hgen; eassumption).
    bo H. constructor; [eapply default_field_attr_sc; eassumption|constructor].
  Qed.

  Lemma default_plan_sc d m p : default_plan F tr d m = Ok p -> data_ok Sc (d_data d).
  Proof.
    intros H. unfold default_plan in H. bo H. bo H. clear H.
    destruct (d_data d) as [fs|vs|fs]; cbn [data_ok]; destruct (dt_expr a).
    - bo Hb0. eapply ensure_no_attribute_sc; eassumption.
    - eapply default_fields_body_sc; eassumption.
    - bo Hb0. eapply mapM_ok_P; [|eassumption]. intros v y Hv. bo Hv.
      split; [eapply default_variant_attr_sc; eassumption|eapply ensure_no_attribute_sc; eassumption].
    - bo Hb0. apply default_fields_body_sc in Hb0. apply select_variant_sc in Hb1.
      eapply Forall_impl; [|exact Hb1]. cbv beta. intros v' [Ha [->|Hf]]; split; assumption.
    - bo Hb0. eapply ensure_no_attribute_sc; eassumption.
    - bo Hb0. eapply select_field_sc; eassumption.
  Qed.
  Lemma expand_default_sc d m its : expand_default F tr d m = Ok its -> data_ok Sc (d_data d).
  Proof. intros H. unfold expand_default in H. bo H. eapply default_plan_sc; eassumption. Qed.

  (** ** Deref, DerefMut *)
  Lemma deref_field_flag_sc own attrs r : deref_field_flag F own tr attrs = Ok r -> attrs_ok Sc attrs.
  Proof. intros H. unfold deref_field_flag in H. by_scan H. Qed.
  Lemma deref_variant_attr_sc own attrs r : deref_variant_attr F own tr attrs = Ok r -> attrs_ok Sc attrs.
  Proof. intros H. unfold deref_variant_attr in H. by_scan H. Qed.
  Lemma deref_select_sc own fs r : deref_select F own tr fs = Ok r -> Forall (field_ok Sc) fs.
  Proof.
    intros H. unfold deref_select in H.
    assert (Hgen : forall o, foldM (deref_pick F own tr) None (indexed fs) = Ok o -> Forall (field_ok Sc) fs).
    { intros o Hf. apply Forall_indexed_inv. eapply foldM_ok_P; [|exact Hf].
      intros s x s' Hs. unfold deref_pick in Hs. bo Hs. eapply deref_field_flag_sc; eassumption. }
    destruct fs as [|f1 [|f2 l]]; try (bo H; eapply Hgen; eassumption).
    bo H. constructor; [eapply deref_field_flag_sc; eassumption|constructor].
  Qed.
  Lemma deref_variant_sc own v r : deref_variant F own tr v = Ok r -> variant_ok Sc v.
  Proof.
    intros H. unfold deref_variant in H. bo H. split; [eapply deref_variant_attr_sc; eassumption|].
    destruct (v_fields v); cbn [fields_list] in *; [bo H; eapply deref_select_sc; eassumption..|discriminate].
  Qed.
  Lemma deref_analyse_sc own d m p : deref_analyse F own tr d m = Ok p -> data_ok Sc (d_data d).
  Proof.
    intros H. unfold deref_analyse in H. destruct (d_data d) as [fs|vs|fs]; cbn [data_ok]; [| |discriminate].
    - bo H. bo H. eapply deref_select_sc; eassumption.
    - bo H. bo H. eapply mapM_ok_P; [|eassumption]. intros v y. apply deref_variant_sc.
  Qed.
  Lemma expand_deref_sc d m its : expand_deref F tr d m = Ok its -> data_ok Sc (d_data d).
  Proof. intros H. unfold expand_deref in H. bo H. eapply deref_analyse_sc; eassumption. Qed.
  Lemma expand_deref_mut_sc d m its : expand_deref_mut F tr d m = Ok its -> data_ok Sc (d_data d).
  Proof. intros H. unfold expand_deref_mut in H. bo H. eapply deref_analyse_sc; eassumption. Qed.

  (** ** Into *)
  Lemma into_variant_attr_sc attrs r : into_variant_attr F tr attrs = Ok r -> attrs_ok Sc attrs.
  Proof. intros H. unfold into_variant_attr in H. bo H. eapply into_collect_sc; eassumption. Qed.
  Lemma into_field_attr_sc tg f r : into_field_attr F tr tg f = Ok r -> field_ok Sc f.
  Proof. intros H. unfold into_field_attr in H. bo H. eapply into_collect_sc; eassumption. Qed.
  Lemma into_results_sc d ms r : into_results F tr d ms = Ok r -> data_ok Sc (d_data d).
  Proof.
    intros H. unfold into_results in H. destruct (d_data d) as [fs|vs|fs]; cbn [data_ok]; [| |discriminate].
    - bo H. bo H. eapply mapM_ok_P; [|eassumption]. intros f y. apply into_field_attr_sc.
    - bo H. bo H. eapply mapM_ok_P; [|eassumption]. intros v y Hv. bo Hv. bo Hv.
      split; [eapply into_variant_attr_sc; eassumption|].
      eapply mapM_ok_P; [|eassumption]. intros f z. apply into_field_attr_sc.
  Qed.
  Lemma expand_into_sc d ms its : expand_into F tr d ms = Ok its -> data_ok Sc (d_data d).
  Proof.
    intros H. unfold expand_into in H. bo H. unfold into_analyse in Hb. bo Hb.
    eapply into_results_sc; eassumption.
  Qed.
End Scanned.

(** * the driver *)
Lemma data_ok_lists (Q : meta -> Prop) dd :
  data_ok Q dd -> forall m, In m (flat_map attrs_metas (data_attr_lists dd)) -> Q m.
Proof.
  intros H m Hm. apply in_flat_map in Hm as [attrs [Hin Hm]].
  assert (Hf : forall fs, Forall (field_ok Q) fs -> In attrs (map f_attrs fs) -> Q m).
  { intros fs Hfs Hi. apply in_map_iff in Hi as [f [<- Hf]].
    rewrite Forall_forall in Hfs. specialize (Hfs f Hf). unfold field_ok, attrs_ok in Hfs.
    rewrite Forall_forall in Hfs. apply Hfs. exact Hm. }
  destruct dd as [fs|vs|fs]; cbn [data_ok data_attr_lists] in *.
  - eapply Hf; eassumption.
  - apply in_flat_map in Hin as [v [Hv Hin]]. rewrite Forall_forall in H.
    destruct (H v Hv) as [Ha Hfs]. destruct Hin as [<-|Hin].
    + unfold attrs_ok in Ha. rewrite Forall_forall in Ha. apply Ha. exact Hm.
    + eapply Hf; eassumption.
  - eapply Hf; eassumption.
Qed.

(** every key of the collected map has at least one meta *)
Lemma tmap_get_push_some t t0 x tm m r :
  tmap_get t tm = Some (m :: r) -> exists m' r', tmap_get t (tmap_push t0 x tm) = Some (m' :: r').
Proof.
  induction tm as [|[k v] l IH]; [discriminate|]. cbn [tmap_get tmap_push].
  destruct (trait_eqb k t0); cbn [tmap_get]; destruct (trait_eqb k t); auto.
  - intros H. injection H as ->. cbn [app]. eauto.
  - intros H. eauto.
  - intros H. eauto.
Qed.

Lemma tmap_get_app t tm t0 v :
  tmap_get t (tm ++ [(t0, v)])
  = match tmap_get t tm with
    | Some w => Some w
    | None => if trait_eqb t0 t then Some v else None
    end.
Proof.
  induction tm as [|[k w] l IH]; cbn [app tmap_get]; [reflexivity|].
  destruct (trait_eqb k t); [reflexivity|exact IH].
Qed.

Lemma tmap_get_none t tm : tmap_get t tm = None -> ~ In t (map fst tm).
Proof.
  induction tm as [|[k w] l IH]; cbn [tmap_get map fst]; [tauto|].
  destruct (trait_eqb k t) eqn:E; [discriminate|]. intros H [Hk|Hin]; [|exact (IH H Hin)].
  subst. rewrite (proj2 (trait_eqb_eq t t) eq_refl) in E. discriminate.
Qed.

Lemma collect_nonempty F attrs tm :
  foldM (collect_attr F) [] attrs = Ok tm ->
  forall t, In t (map fst tm) -> exists m r, tmap_get t tm = Some (m :: r).
Proof.
  set (Q := fun tm : tmap => forall t, In t (map fst tm) -> exists m r, tmap_get t tm = Some (m :: r)).
  apply (foldM_inv_in (collect_attr F) Q attrs) with (s := []); [|intros t []].
  intros s a s' _ Hq Hs. unfold collect_attr in Hs.
  destruct (is_educe a); [|injection Hs as <-; exact Hq].
  destruct (a_meta a) as [| |dl ts]; try discriminate.
  destruct (parse_metas ts) as [ms| | |]; cbn [bind] in Hs; try discriminate.
  apply (foldM_inv_in (collect_meta F) Q ms) with (s := s); [|exact Hq|exact Hs].
  intros s0 m s1 _ Hq0 Hstep. unfold collect_meta in Hstep.
  destruct (trait_from_path F (meta_path m)) as [t0|]; [|discriminate].
  destruct (tmap_get t0 s0) eqn:Eg.
  - destruct (trait_eqb t0 TInto); [|discriminate]. injection Hstep as <-.
    intros t Ht. rewrite tmap_push_keys in Ht. destruct (Hq0 t Ht) as [m' [r' Hg]].
    eapply tmap_get_push_some. exact Hg.
  - injection Hstep as <-. intros t Ht. rewrite tmap_get_app.
    rewrite map_app, in_app_iff in Ht. destruct Ht as [Ht|[<-|[]]].
    + destruct (Hq0 t Ht) as [m' [r' ->]]. eauto.
    + cbn [fst]. rewrite Eg, (proj2 (trait_eqb_eq t0 t0) eq_refl). eauto.
Qed.

Lemma run_handlers_nil F tr d : forall l acc, foldM (run_handler F tr d []) acc l = Ok acc.
Proof.
  induction l as [|[t h] l IH]; intros acc; [reflexivity|]. cbn [foldM run_handler tmap_get].
  destruct (has_trait t F); cbn [bind]; apply IH.
Qed.

(** every type-level meta resolves *)
Definition resolved (F : features) (m : meta) : Prop :=
  exists t, trait_from_path F (meta_path m) = Some t.

Lemma collect_resolved F attrs tm :
  foldM (collect_attr F) [] attrs = Ok tm -> attrs_ok (resolved F) attrs.
Proof.
  unfold collect_attr. apply (attr_fold_ok (collect_meta F) (fun _ => Err E_educe_format)).
  intros s m s' H. unfold collect_meta in H.
  destruct (trait_from_path F (meta_path m)) as [t|] eqn:E; [exists t; exact E|discriminate].
Qed.

Ltac in_handlers := unfold handlers; repeat (first [left; reflexivity | right]).

(** a successful expansion has scanned every variant- and field-level attribute list *)
Theorem expand_scanned F d its tm :
  expand F d = Ok its -> foldM (collect_attr F) [] (d_attrs d) = Ok tm ->
  data_ok (scanned F (map fst tm)) (d_data d).
Proof.
  intros H Hc. unfold expand in H. rewrite Hc in H. cbn [bind] in H.
  pose proof (collect_keys F _ _ Hc) as Hkeys.
  pose proof (collect_nonempty F _ _ Hc) as Hne.
  set (tr := map fst tm) in *.
  bo H. rename a into its1, Hb into Hh. bo H. rename a into its2, Hb into Hi.
  (* every educed single-meta handler ran, successfully *)
  assert (Hran : forall t h, In (t, h) handlers -> In t tr ->
                             exists m its', h F tr d m = Ok its').
  { intros t h Hin Ht.
    assert (Hall : Forall (fun th => has_trait (fst th) F = true ->
                            forall m r, tmap_get (fst th) tm = Some (m :: r) ->
                                        exists its', snd th F tr d m = Ok its') handlers).
    { eapply foldM_ok_P; [|exact Hh]. intros s [t1 h1] s' Hs Hf m r Hg. cbn [fst snd] in *.
      unfold run_handler in Hs. rewrite Hf, Hg in Hs. bo Hs. eauto. }
    rewrite Forall_forall in Hall. specialize (Hall (t, h) Hin). cbn [fst snd] in Hall.
    destruct (Hne t Ht) as [m [r Hg]]. destruct (Hall (proj1 (Hkeys t Ht)) m r Hg) as [its' Hr].
    eauto. }
  assert (Hcoupled : forall t, has_trait t F && has_trait t tr = true -> In t tr).
  { intros t Ht. apply andb_true_iff in Ht as [_ Ht]. apply has_trait_In. exact Ht. }
  assert (Hclone : In TClone tr -> data_ok (scanned F tr) (d_data d)).
  { intros Ht. destruct (Hran TClone expand_clone ltac:(in_handlers) Ht) as [m [r Hr]].
    eapply expand_clone_sc; eassumption. }
  assert (Hpeq : In TPartialEq tr -> data_ok (scanned F tr) (d_data d)).
  { intros Ht. destruct (Hran TPartialEq expand_partial_eq ltac:(in_handlers) Ht) as [m [r Hr]].
    eapply expand_partial_eq_sc; eassumption. }
  assert (Hord : In TOrd tr -> data_ok (scanned F tr) (d_data d)).
  { intros Ht. destruct (Hran TOrd expand_ord ltac:(in_handlers) Ht) as [m [r Hr]].
    eapply expand_ord_sc; eassumption. }
  (* at least one trait is educed *)
  destruct tm as [|[t0 v0] rest] eqn:Etm.
  { exfalso. subst tr. rewrite run_handlers_nil in Hh. injection Hh as <-.
    cbn [tmap_get] in Hi. injection Hi as <-. discriminate H. }
  assert (Ht0 : In t0 tr) by (left; reflexivity).
  destruct t0.
  - destruct (Hran TDebug expand_debug ltac:(in_handlers) Ht0) as [m [r Hr]].
    eapply expand_debug_sc; eassumption.
  - auto.
  - destruct (Hran TCopy expand_copy ltac:(in_handlers) Ht0) as [m [r Hr]].
    destruct (expand_copy_sc _ _ _ _ _ Hr) as [Hcp|Hok]; auto.
  - auto.
  - destruct (Hran TEq expand_eq ltac:(in_handlers) Ht0) as [m [r Hr]].
    destruct (expand_eq_sc _ _ _ _ _ Hr) as [Hcp|Hok]; auto.
  - destruct (Hran TPartialOrd expand_partial_ord ltac:(in_handlers) Ht0) as [m [r Hr]].
    destruct (expand_partial_ord_sc _ _ _ _ _ Hr) as [Hcp|Hok]; auto.
  - auto.
  - destruct (Hran THash expand_hash ltac:(in_handlers) Ht0) as [m [r Hr]].
    eapply expand_hash_sc; eassumption.
  - destruct (Hran TDefault expand_default ltac:(in_handlers) Ht0) as [m [r Hr]].
    eapply expand_default_sc; eassumption.
  - destruct (Hran TDeref expand_deref ltac:(in_handlers) Ht0) as [m [r Hr]].
    eapply expand_deref_sc; eassumption.
  - destruct (Hran TDerefMut expand_deref_mut ltac:(in_handlers) Ht0) as [m [r Hr]].
    eapply expand_deref_mut_sc; eassumption.
  - destruct (Hne TInto Ht0) as [m [r Hg]]. rewrite Hg in Hi.
    rewrite (proj1 (Hkeys TInto Ht0)) in Hi. bo Hi. eapply expand_into_sc; eassumption.
Qed.

(** every meta of the input, at every level, resolves to an enabled trait; below the type level
    that trait is moreover educed on the type *)
Theorem expand_all_resolved F d its :
  expand F d = Ok its ->
  exists tm, foldM (collect_attr F) [] (d_attrs d) = Ok tm /\
    (forall m, In m (attrs_metas (d_attrs d)) -> resolved F m) /\
    (forall m, In m (flat_map attrs_metas (data_attr_lists (d_data d))) -> scanned F (map fst tm) m).
Proof.
  intros H. pose proof H as H0. unfold expand in H0. bo H0. exists a. split; [exact Hb|]. split.
  - apply Forall_forall. apply (collect_resolved F _ _ Hb).
  - apply data_ok_lists. eapply expand_scanned; eassumption.
Qed.

Lemma resolved_names F m t : resolved F m -> meta_names t m = true -> has_trait t F = true.
Proof.
  intros [t' Hr] Hn. apply tfp_some in Hr as [Hf Hg]. unfold meta_names in Hn. rewrite Hg in Hn.
  apply String.eqb_eq in Hn.
  assert (E : Some t' = Some t) by (rewrite <- (trait_of_name_name t'), Hn; apply trait_of_name_name).
  injection E as ->. exact Hf.
Qed.

Theorem rejected_everywhere F d its :
  expand F d = Ok its -> forall t, named_in d t = true -> has_trait t F = true.
Proof.
  intros H t Hn. destruct (expand_all_resolved F d its H) as [tm [_ [Hty Hda]]].
  unfold named_in in Hn. apply existsb_exists in Hn as [m [Hin Hm]].
  unfold all_metas in Hin. apply in_app_iff in Hin as [Hin|Hin].
  - eapply resolved_names; [apply Hty; exact Hin|exact Hm].
  - destruct (Hda m Hin) as [t' [Hr _]]. eapply resolved_names; [exists t'; exact Hr|exact Hm].
Qed.

(** the error form, for the type level (first failing meta decides) is [C18.C18_disabled_rejected];
    for a scanner: the meta itself is refused wherever the scan reaches it *)
Lemma scan_meta_disabled {A} F own (build : meta -> outcome A) tr acc m t :
  meta_names t m = true -> has_trait t F = false ->
  scan_meta F own build tr acc m = Err E_unsupported_trait.
Proof. intros Hn Hf. unfold scan_meta. rewrite (tfp_disabled F m t Hn Hf). reflexivity. Qed.

Lemma into_collect_meta_disabled F tr acc m t :
  meta_names t m = true -> has_trait t F = false ->
  into_collect_meta F tr acc m = Err E_unsupported_trait.
Proof. intros Hn Hf. unfold into_collect_meta. rewrite (tfp_disabled F m t Hn Hf). reflexivity. Qed.
