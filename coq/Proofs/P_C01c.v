(** C01 / J2 J3 J4 J8 -- shared lemmas; PartialEq, Eq, Copy, Hash, Clone. *)
From Educe.Proofs Require Export P_C01b P_Walk.

(** ** small facts *)
Lemma strs_eqb_refl l : strs_eqb l l = true.
Proof. induction l as [|x l IH]; cbn; [reflexivity|]. rewrite String.eqb_refl. exact IH. Qed.

Lemma mem_str_In s l : In s l -> mem_str s l = true.
Proof.
  intros H. unfold mem_str. apply existsb_exists. exists s. split; [exact H|apply String.eqb_refl].
Qed.

Lemma mem_str_not_In s l : ~ In s l -> mem_str s l = false.
Proof.
  intros H. unfold mem_str. destruct (existsb (String.eqb s) l) eqn:E; [|reflexivity].
  apply existsb_exists in E. destruct E as [x [Hin Hx]]. apply String.eqb_eq in Hx. subst x.
  contradiction.
Qed.

Lemma nodupb_NoDup l : NoDup l -> nodupb l = true.
Proof.
  induction 1 as [|x l Hx _ IH]; [reflexivity|]. cbn [nodupb].
  rewrite (mem_str_not_In x l Hx), IH. reflexivity.
Qed.

Lemma mapM_fst {A B} (g : A -> outcome B) fs l :
  mapM (fun f => let* a := g f in Ok (f, a)) fs = Ok l -> map fst l = fs.
Proof.
  revert l. induction fs as [|f fs IH]; intros l H; cbn [mapM] in H.
  - inversion H. reflexivity.
  - apply bind_ok in H. destruct H as [y [Hy H]]. apply bind_ok in Hy. destruct Hy as [a [_ Hy]].
    inversion Hy; subst y. apply bind_ok in H. destruct H as [ys [Hys H]]. inversion H; subst l.
    cbn [map fst]. f_equal. apply IH. exact Hys.
Qed.

Lemma indexed_length {A} (l : list A) : List.length (indexed l) = List.length l.
Proof. apply index_from_length. Qed.

Lemma map_fname_named (l : list field) :
  map (fun f => match f_name f with Some n => n | None => "" end) l = map fname_of l.
Proof. reflexivity. Qed.

(** ** patterns for `Self::V` *)
Lemma pat_fits_named fs r pfs t :
  NoDup (map fname_of fs) -> map fst pfs = map fname_of fs ->
  pat_fits (FNamed fs) (PStruct r pfs t false) = true.
Proof.
  intros Hnd Hm. cbn [pat_fits orb]. rewrite Hm. rewrite (nodupb_NoDup _ Hnd). cbn [andb].
  rewrite forallb_In by (intros n Hn; apply mem_str_In; exact Hn). cbn [andb].
  apply Nat.eqb_eq. rewrite <- (map_length fst pfs), Hm. apply map_length.
Qed.

Lemma pat_fits_unnamed fs r ps t :
  List.length ps = List.length fs -> pat_fits (FUnnamed fs) (PTuple r ps t false) = true.
Proof. intros H. cbn [pat_fits]. apply Nat.eqb_eq. exact H. Qed.

Lemma j2_variant_witness vs v n p :
  In v vs -> v_name v = n -> pat_fits (v_fields v) p = true ->
  existsb (fun x => String.eqb (v_name x) n && pat_fits (v_fields x) p) vs = true.
Proof.
  intros Hin Hn Hf. apply existsb_exists. exists v. split; [exact Hin|].
  rewrite Hn, String.eqb_refl, Hf. reflexivity.
Qed.

(** sub-patterns that bind or ignore *)
Definition leaf_pat (p : pat) : bool := match p with PWild | PBind _ => true | _ => false end.
Lemma leaf_pat_all vs p : leaf_pat p = true -> pat_all (j2_pat vs) p = true.
Proof. destruct p; try discriminate; reflexivity. Qed.

Lemma wf_pnode_named d v fs r pfs t :
  In v (variants_of d) -> v_fields v = FNamed fs -> NoDup (map fname_of fs) ->
  map fst pfs = map fname_of fs ->
  forallb (fun nf => match snd nf with Some q => leaf_pat q | None => true end) pfs = true ->
  r = RSelfV (v_name v) ->
  wf_pnode d Datatypes.tt (PStruct r pfs t false) = true.
Proof.
  intros Hin Hf Hnd Hm Hl ->. unfold wf_pnode. cbn [pat_all j2_pat].
  rewrite (j2_variant_witness _ v (v_name v) _ Hin eq_refl)
    by (rewrite Hf; apply pat_fits_named; assumption).
  cbn [andb]. apply forallb_forall. intros [n [q|]] Hq; [|reflexivity].
  cbn [snd]. apply leaf_pat_all. rewrite forallb_forall in Hl. apply (Hl _ Hq).
Qed.

Lemma wf_pnode_unnamed d v fs r ps t :
  In v (variants_of d) -> v_fields v = FUnnamed fs -> List.length ps = List.length fs ->
  forallb leaf_pat ps = true -> r = RSelfV (v_name v) ->
  wf_pnode d Datatypes.tt (PTuple r ps t false) = true.
Proof.
  intros Hin Hf Hlen Hl ->. unfold wf_pnode. cbn [pat_all j2_pat].
  rewrite (j2_variant_witness _ v (v_name v) _ Hin eq_refl)
    by (rewrite Hf; apply pat_fits_unnamed; assumption).
  cbn [andb]. apply forallb_forall. intros q Hq. apply leaf_pat_all.
  rewrite forallb_forall in Hl. apply (Hl _ Hq).
Qed.

Lemma wf_pnode_unit d v r :
  In v (variants_of d) -> v_fields v = FUnit -> r = RSelfV (v_name v) ->
  wf_pnode d Datatypes.tt (PPath r) = true.
Proof.
  intros Hin Hf ->. unfold wf_pnode. cbn [pat_all j2_pat].
  rewrite (j2_variant_witness _ v (v_name v) _ Hin eq_refl) by (rewrite Hf; reflexivity).
  reflexivity.
Qed.

(** ** `match self` over the arms of a mapM over the variants *)
Lemma arms_cover_Forall2 {A} (f : A -> pat * expr) vs (rs : list A) :
  Forall2 (fun v r => pat_variant (fst (f r)) = Some (v_name v)) vs rs ->
  arms_cover (map f rs) vs = true.
Proof.
  induction 1 as [|v r vs rs Hv _ IH]; [reflexivity|]. cbn [map arms_cover].
  rewrite Hv, String.eqb_refl. exact IH.
Qed.

Lemma wf_node_eq d c e :
  wf_node d c e = (is_union d || j8_node c e) && j4_node (variants_of d) c e && j3_node d c e.
Proof. reflexivity. Qed.

Ltac wsimpl :=
  cbv beta delta [member_wf item_wf];
  cbn [expr_wf walk forallb andb fst snd map app i_members];
  rewrite ?wf_node_eq;
  cbn [j8_node j4_node j3_node is_union variants_of andb orb String.eqb Ascii.eqb Bool.eqb];
  rewrite ?orb_true_r; cbn [andb];
  repeat match goal with
         | |- context [walk (wf_node ?d) (wf_pnode ?d) _ _ Datatypes.tt] => progress fold (expr_wf d)
         end.

Lemma one_fn_item_wf d attrs g tr self_ fattrs name sig params body :
  forallb (expr_wf d) body = true ->
  item_wf d {| i_attrs := attrs; i_generics := g; i_trait := tr; i_self := self_;
               i_members := [MFn fattrs name sig params body] |} = true.
Proof. intros H. wsimpl. rewrite H. reflexivity. Qed.

(** statements that construct nothing, match nothing on `self` and are safe: every handler's
    per-field statements *)
Lemma wf_var d x : expr_wf d (EVar x) = true.
Proof. wsimpl. reflexivity. Qed.

(** * PartialEq *)
Lemma peq_check_wf d fa a b :
  expr_wf d a = true -> expr_wf d b = true -> expr_wf d (peq_check fa a b) = true.
Proof.
  intros Ha Hb. unfold peq_check, ne_path. destruct (fa_method fa); wsimpl; rewrite Ha, Hb; reflexivity.
Qed.

Lemma field_attrs_fst' F traits fs l : field_attrs F traits fs = Ok l -> map fst l = fs.
Proof. apply mapM_fst. Qed.

Lemma self_field_wf d x n : expr_wf d (ERef (EField (EVar x) n)) = true.
Proof. wsimpl. reflexivity. Qed.

Lemma peq_variant_wf F traits d v r :
  In v (variants_of d) -> fields_named_ok (v_fields v) ->
  peq_variant F traits v = Ok r ->
  pat_variant (fst (fst r)) = Some (v_name v) /\
  wf_pnode d Datatypes.tt (fst (fst r)) = true /\ expr_wf d (snd (fst r)) = true.
Proof.
  intros Hin Hok H. unfold peq_variant in H. inv_bind H.
  destruct (v_fields v) as [fs|fs|] eqn:Ef.
  - inv_bind H. inversion H; subst r. cbn [fst snd]. pose proof (field_attrs_fst' _ _ _ _ Hb0) as Hl.
    destruct Hok as [_ Hnd].
    assert (Hp : forall pre, wf_pnode d Datatypes.tt
              (PStruct (RSelfV (v_name v))
                 (map (fun '(f, fa) => (match f_name f with Some n => n | None => "" end,
                                        Some (if fa_ignore fa then PWild
                                              else PBind (pre ^^ unraw match f_name f with Some n => n | None => "" end))))
                      a0) true false) = true).
    { intros pre. apply (wf_pnode_named d v fs); try assumption; try reflexivity.
      - rewrite map_map. rewrite <- Hl, map_map. apply map_ext. intros [f fa]. reflexivity.
      - rewrite forallb_map. apply forallb_true. intros [f fa]. cbn [snd].
        destruct (fa_ignore fa); reflexivity. }
    unfold peq_arm_named, else_false. cbn [fst snd]. split; [reflexivity|]. split; [apply Hp|].
    wsimpl. rewrite Hp. cbn [andb]. rewrite forallb_flat_map, ?andb_true_r. apply forallb_true.
    intros [f fa]. destruct (fa_ignore fa); [reflexivity|]. cbn [forallb].
    rewrite peq_check_wf; [reflexivity|apply wf_var|apply wf_var].
  - inv_bind H. inversion H; subst r. cbn [fst snd]. pose proof (field_attrs_fst' _ _ _ _ Hb0) as Hl.
    assert (Hp : forall pre, wf_pnode d Datatypes.tt
              (PTuple (RSelfV (v_name v))
                 (map (fun '(i, (f, fa)) => if fa_ignore fa then PWild else PBind (pre ^^ dec i))
                      (indexed a0)) true false) = true).
    { intros pre. apply (wf_pnode_unnamed d v fs); try assumption; try reflexivity.
      - rewrite map_length, indexed_length, <- Hl, map_length. reflexivity.
      - rewrite forallb_map. apply forallb_true. intros [i [f fa]].
        destruct (fa_ignore fa); reflexivity. }
    unfold peq_arm_unnamed, else_false. cbn [fst snd]. split; [reflexivity|]. split; [apply Hp|].
    wsimpl. rewrite Hp. cbn [andb]. rewrite forallb_flat_map, ?andb_true_r. apply forallb_true.
    intros [i [f fa]]. destruct (fa_ignore fa); [reflexivity|]. cbn [forallb].
    rewrite peq_check_wf; [reflexivity|apply wf_var|apply wf_var].
  - inversion H; subst r. cbn [fst snd]. unfold peq_arm_unit, else_false. cbn [fst snd].
    assert (Hp : wf_pnode d Datatypes.tt (PPath (RSelfV (v_name v))) = true)
      by (apply (wf_pnode_unit d v); auto).
    split; [reflexivity|]. split; [exact Hp|]. wsimpl. rewrite Hp. reflexivity.
Qed.

(** lifting a per-variant statement over the variants *)
Lemma arms_wf_Forall2 {A} d (f : A -> pat * expr) vs (rs : list A) :
  Forall2 (fun (v : variant) r => pat_variant (fst (f r)) = Some (v_name v) /\
                     wf_pnode d Datatypes.tt (fst (f r)) = true /\ expr_wf d (snd (f r)) = true) vs rs ->
  arms_cover (map f rs) vs = true /\
  forallb (fun pe => wf_pnode d Datatypes.tt (fst pe) && expr_wf d (snd pe)) (map f rs) = true.
Proof.
  induction 1 as [|v r vs rs [Hv [Hp He]] _ [IH1 IH2]]; [split; reflexivity|].
  cbn [map arms_cover forallb]. rewrite Hv, String.eqb_refl, Hp, He, IH1, IH2. split; reflexivity.
Qed.

Lemma Forall2_mapM_In {A B} (f : A -> outcome B) l r (P : A -> B -> Prop) :
  mapM f l = Ok r -> (forall x y, In x l -> f x = Ok y -> P x y) -> Forall2 P l r.
Proof.
  intros H HP. apply mapM_ok_Forall2 in H. induction H as [|x y l r Hxy _ IH]; constructor.
  - apply HP; [left; reflexivity|exact Hxy].
  - apply IH. intros x' y' Hin. apply HP. right. exact Hin.
Qed.

Theorem partial_eq_wf F traits d m items :
  data_named_ok (d_data d) ->
  expand_partial_eq F traits d m = Ok items -> forallb (item_wf (d_data d)) items = true.
Proof.
  intros Hok. unfold expand_partial_eq. intros H.
  assert (Hitems : forall g body, forallb (expr_wf (d_data d)) body = true ->
                     forallb (item_wf (d_data d)) (peq_items traits F d g body) = true).
  { intros g body Hb. unfold peq_items. cbn [forallb]. rewrite one_fn_item_wf.
    - destruct (has_trait TEq F && has_trait TEq traits); reflexivity.
    - rewrite forallb_app, Hb. destruct (d_data d); reflexivity. }
  destruct (d_data d) as [fs|vs|fs] eqn:Ed.
  - inv_bind H. inv_bind H. inversion H; subst items. apply Hitems.
    unfold peq_struct_body. rewrite forallb_flat_map. apply forallb_true. intros [[i f] fa].
    destruct (fa_ignore fa); [reflexivity|]. cbn [forallb].
    rewrite peq_check_wf; [reflexivity|apply self_field_wf|apply self_field_wf].
  - inv_bind H. inv_bind H. inversion H; subst items. apply Hitems.
    destruct (is_nil a0); [reflexivity|]. cbn [forallb]. rewrite andb_true_r.
    assert (HF : Forall2 (fun v r => pat_variant (fst (fst r)) = Some (v_name v) /\
                   wf_pnode (DEnum vs) Datatypes.tt (fst (fst r)) = true /\
                   expr_wf (DEnum vs) (snd (fst r)) = true) vs a0).
    { apply (Forall2_mapM_In _ _ _ _ Hb0). intros v r Hin Hv.
      apply (peq_variant_wf F traits (DEnum vs) v r Hin (Hok v Hin) Hv). }
    destruct (arms_wf_Forall2 (DEnum vs) fst vs a0 HF) as [Hc Ha].
    wsimpl. rewrite Hc, Ha. reflexivity.
  - inv_bind H. destruct (negb (ta_unsafe a)); [discriminate H|]. inv_bind H.
    inversion H; subst items. cbn [forallb]. rewrite one_fn_item_wf.
    + destruct (has_trait TEq F && has_trait TEq traits); reflexivity.
    + reflexivity.
Qed.

(** * Eq, Copy *)
Theorem eq_wf F traits d m items :
  expand_eq F traits d m = Ok items -> forallb (item_wf (d_data d)) items = true.
Proof.
  unfold expand_eq. intros H. inv_bind H.
  destruct (has_trait TPartialEq F && has_trait TPartialEq traits).
  - inversion H. reflexivity.
  - inv_bind H. inversion H. reflexivity.
Qed.

Theorem copy_wf F traits d m items :
  expand_copy F traits d m = Ok items -> forallb (item_wf (d_data d)) items = true.
Proof.
  unfold expand_copy. intros H. inv_bind H.
  destruct (has_trait TClone F && has_trait TClone traits).
  - inversion H. reflexivity.
  - inv_bind H. inversion H. reflexivity.
Qed.

(** * Hash *)
Lemma hash_stmt_wf d fa op : expr_wf d op = true -> expr_wf d (hash_stmt fa op) = true.
Proof.
  intros Ho. unfold hash_stmt, hash_callee. destruct (fa_method fa); wsimpl; rewrite Ho; reflexivity.
Qed.

Lemma hash_variant_wf F traits d vi v r :
  In v (variants_of d) -> fields_named_ok (v_fields v) ->
  hash_variant F traits (vi, v) = Ok r ->
  pat_variant (fst (fst r)) = Some (v_name v) /\
  wf_pnode d Datatypes.tt (fst (fst r)) = true /\ expr_wf d (snd (fst r)) = true.
Proof.
  intros Hin Hok H. unfold hash_variant in H. inv_bind H. inv_bind H. inversion H; subst r.
  cbn [fst snd]. pose proof (mapM_fst _ _ _ Hb0) as Hl. unfold hash_arm, hash_index_stmt.
  destruct (v_fields v) as [fs|fs|] eqn:Ef; cbn [fields_list] in Hl; cbn [fst snd].
  - destruct Hok as [_ Hnd]. split; [reflexivity|]. split.
    + apply (wf_pnode_named d v fs); try assumption; try reflexivity.
      * rewrite map_map. rewrite <- Hl, map_map. apply map_ext. intros [f fa]. reflexivity.
      * rewrite forallb_map. apply forallb_true. intros [f fa]. cbn [snd].
        destruct (fa_ignore fa); reflexivity.
    + wsimpl. rewrite forallb_flat_map. apply forallb_true. intros [f fa].
      destruct (fa_ignore fa); [reflexivity|]. cbn [forallb].
      rewrite hash_stmt_wf; [reflexivity|apply wf_var].
  - split; [reflexivity|]. split.
    + apply (wf_pnode_unnamed d v fs); try assumption; try reflexivity.
      * rewrite map_length, indexed_length, <- Hl, map_length. reflexivity.
      * rewrite forallb_map. apply forallb_true. intros [i [f fa]].
        destruct (fa_ignore fa); reflexivity.
    + wsimpl. rewrite forallb_flat_map. apply forallb_true. intros [i [f fa]].
      destruct (fa_ignore fa); [reflexivity|]. cbn [forallb].
      rewrite hash_stmt_wf; [reflexivity|apply wf_var].
  - split; [reflexivity|]. split; [apply (wf_pnode_unit d v); auto|]. wsimpl. reflexivity.
Qed.

Lemma in_indexed {A} (l : list A) i x : In (i, x) (indexed l) -> In x l.
Proof.
  intros H. apply in_index_from in H. destruct H as [_ H]. apply (nth_error_In _ _ H).
Qed.

Lemma Forall2_indexed {A B} (P : A -> B -> Prop) (l : list A) r :
  Forall2 (fun (ix : nat * A) y => P (snd ix) y) (indexed l) r -> Forall2 P l r.
Proof.
  unfold indexed. generalize 0. revert r. induction l as [|x l IH]; intros r k H;
    cbn [index_from] in H; inversion H; subst; constructor; [assumption|].
  apply (IH _ (S k)). assumption.
Qed.

Lemma map_indexed_snd {A B} (g : A -> B) (l : list A) :
  map (fun x : nat * A => g (snd x)) (indexed l) = map g l.
Proof.
  unfold indexed. generalize 0. induction l as [|x l IH]; intros k; cbn; [reflexivity|].
  rewrite IH. reflexivity.
Qed.

Theorem hash_wf F traits d m items :
  data_named_ok (d_data d) ->
  expand_hash F traits d m = Ok items -> forallb (item_wf (d_data d)) items = true.
Proof.
  intros Hok. unfold expand_hash. intros H. destruct (d_data d) as [fs|vs|fs] eqn:Ed.
  - inv_bind H. inv_bind H. inversion H; subst items. cbn [forallb]. unfold hash_item.
    rewrite one_fn_item_wf; [reflexivity|]. unfold hash_struct_body.
    rewrite forallb_flat_map. apply forallb_true. intros [i [f fa]].
    destruct (fa_ignore fa); [reflexivity|]. cbn [forallb].
    rewrite hash_stmt_wf; [reflexivity|apply self_field_wf].
  - inv_bind H. inv_bind H. inversion H; subst items. cbn [forallb]. unfold hash_item.
    rewrite one_fn_item_wf; [reflexivity|].
    destruct (is_nil a0); [reflexivity|]. cbn [forallb]. rewrite andb_true_r.
    assert (HF : Forall2 (fun (iv : nat * variant) r =>
                   pat_variant (fst (fst r)) = Some (v_name (snd iv)) /\
                   wf_pnode (DEnum vs) Datatypes.tt (fst (fst r)) = true /\
                   expr_wf (DEnum vs) (snd (fst r)) = true) (indexed vs) a0).
    { apply (Forall2_mapM_In _ _ _ _ Hb0). intros [vi v] r Hin Hv.
      apply in_indexed in Hin.
      apply (hash_variant_wf F traits (DEnum vs) vi v r Hin (Hok v Hin) Hv). }
    assert (HF' : Forall2 (fun v r => pat_variant (fst (fst r)) = Some (v_name v) /\
                   wf_pnode (DEnum vs) Datatypes.tt (fst (fst r)) = true /\
                   expr_wf (DEnum vs) (snd (fst r)) = true) vs a0).
    { apply Forall2_indexed. exact HF. }
    destruct (arms_wf_Forall2 (DEnum vs) fst vs a0 HF') as [Hc Ha].
    wsimpl. rewrite Hc, Ha. reflexivity.
  - inv_bind H. destruct (negb (ta_unsafe a)); [discriminate H|]. inv_bind H.
    inversion H; subst items. reflexivity.
Qed.

(** * Clone *)
Lemma clone_call_wf d m src : expr_wf d src = true -> expr_wf d (clone_call m src) = true.
Proof. intros Hs. unfold clone_call, clone_fn. destruct m; wsimpl; rewrite Hs; reflexivity. Qed.

Lemma clone_from_stmt_wf d m dp dr src :
  expr_wf d dp = true -> expr_wf d dr = true -> expr_wf d src = true ->
  expr_wf d (clone_from_stmt m dp dr src) = true.
Proof.
  intros H1 H2 H3. unfold clone_from_stmt, clone_from_fn. destruct m; wsimpl;
    rewrite ?H1, ?H2, ?H3; reflexivity.
Qed.

Lemma clone_field_attrs_fst F traits b fs l :
  clone_field_attrs F traits b fs = Ok l -> map fst l = fs.
Proof. apply mapM_fst. Qed.

Lemma clone_struct_body_wf fs l :
  fields_named_ok fs -> map fst l = fields_list fs ->
  forallb (expr_wf (DStruct fs)) (clone_struct_body fs l) = true.
Proof.
  intros Hok Hl. unfold clone_struct_body. destruct fs as [nl|ul|]; cbn [fields_list] in Hl.
  - wsimpl. rewrite andb_true_r. apply andb_true_iff. split.
    + match goal with |- struct_ctor_fits _ ?names = true =>
        assert (Hn : names = map fname_of nl) end.
      { rewrite map_map, <- Hl, map_map, <- (map_indexed_snd (fun x : field * option toks => fname_of (fst x)) l).
        apply map_ext_in. intros [i [f m]] Hin. cbn [fst snd]. unfold field_member, fname_of.
        destruct (f_name f) eqn:En; [reflexivity|]. exfalso. destruct Hok as [Hn _].
        apply (Hn f); [|exact En]. rewrite <- Hl. apply in_map_iff. exists (f, m).
        split; [reflexivity|]. apply (in_indexed _ _ _ Hin). }
      rewrite Hn. apply strs_eqb_refl.
    + rewrite forallb_map. apply forallb_true. intros [i [f m]]. cbn [snd].
      unfold cs_clone_field. apply clone_call_wf. apply self_field_wf.
  - wsimpl. rewrite andb_true_r. apply andb_true_iff. split.
    + unfold tuple_ctor_fits. apply Nat.eqb_eq.
      rewrite map_length, indexed_length, <- Hl, map_length. reflexivity.
    + rewrite forallb_map. apply forallb_true. intros [i [f m]].
      unfold cs_clone_field. apply clone_call_wf. apply self_field_wf.
  - reflexivity.
Qed.

Lemma clone_from_struct_body_wf d fs l : forallb (expr_wf d) (clone_from_struct_body fs l) = true.
Proof.
  unfold clone_from_struct_body, let_source.
  destruct fs as [nl|ul|]; [| |wsimpl; reflexivity];
    (destruct (is_nil l); [wsimpl; reflexivity|]); rewrite forallb_map; apply forallb_true;
    intros [i [f m]]; unfold cs_clone_from_field; apply clone_from_stmt_wf; wsimpl; reflexivity.
Qed.

Lemma ctor_variant_witness vs v n (P : variant -> bool) :
  In v vs -> v_name v = n -> P v = true ->
  existsb (fun x => String.eqb (v_name x) n && P x) vs = true.
Proof.
  intros Hin Hn HP. apply existsb_exists. exists v. split; [exact Hin|].
  rewrite Hn, String.eqb_refl, HP. reflexivity.
Qed.

Lemma clone_variant_wf F traits vs v cv :
  In v vs -> fields_named_ok (v_fields v) ->
  clone_variant F traits v = Ok cv ->
  (pat_variant (fst (clone_arm cv)) = Some (v_name v) /\
   wf_pnode (DEnum vs) Datatypes.tt (fst (clone_arm cv)) = true /\
   expr_wf (DEnum vs) (snd (clone_arm cv)) = true) /\
  (pat_variant (fst (clone_from_arm cv)) = Some (v_name v) /\
   wf_pnode (DEnum vs) Datatypes.tt (fst (clone_from_arm cv)) = true /\
   expr_wf (DEnum vs) (snd (clone_from_arm cv)) = true).
Proof.
  intros Hin Hok H. unfold clone_variant in H. inv_bind H. inv_bind H. inversion H; subst cv.
  pose proof (clone_field_attrs_fst _ _ _ _ _ Hb0) as Hl.
  unfold clone_arm, clone_from_arm, else_clone_source, clone_fn. cbn [cv_name cv_fields cv_plan].
  destruct (v_fields v) as [fs|fs|] eqn:Ef; cbn [fields_list] in Hl; cbn [fst snd].
  - destruct Hok as [_ Hnd].
    assert (Hp : forall pre, wf_pnode (DEnum vs) Datatypes.tt
              (PStruct (RSelfV (v_name v))
                 (map (fun '(f, m) => (cfield_name f, Some (PBind (pre ^^ unraw (cfield_name f))))) a0)
                 true false) = true).
    { intros pre. apply (wf_pnode_named (DEnum vs) v fs); try assumption; try reflexivity.
      - rewrite map_map. rewrite <- Hl, map_map. apply map_ext. intros [f m]. reflexivity.
      - rewrite forallb_map. apply forallb_true. intros [f m]. reflexivity. }
    split; (split; [reflexivity|]); (split; [apply Hp|]).
    + wsimpl. apply andb_true_iff. split.
      * apply (ctor_variant_witness vs v); [exact Hin|reflexivity|]. rewrite Ef.
        unfold struct_ctor_fits. rewrite map_map.
        replace (map (fun x : field * option toks => fst (let '(f, m) := x in
                   (cfield_name f, clone_call m (EVar ("_s_" ^^ unraw (cfield_name f)))))) a0)
          with (map fname_of fs); [apply strs_eqb_refl|].
        rewrite <- Hl, map_map. apply map_ext. intros [f m]. reflexivity.
      * rewrite forallb_map. apply forallb_true. intros [f m]. cbn [snd].
        apply clone_call_wf. apply wf_var.
    + wsimpl. rewrite Hp. cbn [andb]. rewrite forallb_map, ?andb_true_r. apply forallb_true.
      intros [f m]. apply clone_from_stmt_wf; wsimpl; reflexivity.
  - assert (Hp : forall pre, wf_pnode (DEnum vs) Datatypes.tt
              (PTuple (RSelfV (v_name v))
                 (map (fun '(i, (f, m)) => PBind (pre ^^ dec i)) (indexed a0)) true false) = true).
    { intros pre. apply (wf_pnode_unnamed (DEnum vs) v fs); try assumption; try reflexivity.
      - rewrite map_length, indexed_length, <- Hl, map_length. reflexivity.
      - rewrite forallb_map. apply forallb_true. intros [i [f m]]. reflexivity. }
    split; (split; [reflexivity|]); (split; [apply Hp|]).
    + wsimpl. apply andb_true_iff. split.
      * apply (ctor_variant_witness vs v); [exact Hin|reflexivity|]. rewrite Ef.
        unfold tuple_ctor_fits. apply Nat.eqb_eq.
        rewrite map_length, indexed_length, <- Hl, map_length. reflexivity.
      * rewrite forallb_map. apply forallb_true. intros [i [f m]].
        apply clone_call_wf. apply wf_var.
    + wsimpl. rewrite Hp. cbn [andb]. rewrite forallb_map, ?andb_true_r. apply forallb_true.
      intros [i [f m]]. apply clone_from_stmt_wf; wsimpl; reflexivity.
  - assert (Hp : wf_pnode (DEnum vs) Datatypes.tt (PPath (RSelfV (v_name v))) = true)
      by (apply (wf_pnode_unit (DEnum vs) v); auto).
    split; (split; [reflexivity|]); (split; [exact Hp|]).
    + wsimpl. reflexivity.
    + wsimpl. rewrite Hp. reflexivity.
Qed.

Lemma clone_items_wf d ce di g body from_body :
  forallb (expr_wf d) body = true -> forallb (expr_wf d) from_body = true ->
  forallb (item_wf d) (clone_items ce di g body from_body) = true.
Proof.
  intros Hb Hf. unfold clone_items. cbn [forallb]. rewrite andb_true_iff. split.
  - wsimpl. rewrite Hb. cbn [andb]. destruct (is_nil from_body); [reflexivity|]. wsimpl.
    rewrite Hf. reflexivity.
  - destruct ce; reflexivity.
Qed.

Lemma deref_self_wf d : forallb (expr_wf d) deref_self = true.
Proof. unfold deref_self. wsimpl. reflexivity. Qed.

Theorem clone_wf F traits d m items :
  data_named_ok (d_data d) ->
  expand_clone F traits d m = Ok items -> forallb (item_wf (d_data d)) items = true.
Proof.
  intros Hok. unfold expand_clone. intros H. inv_bind H. destruct (d_data d) as [fs|vs|fs] eqn:Ed.
  - inv_bind H. inversion H; subst items.
    destruct (has_trait TCopy F && has_trait TCopy traits).
    + apply clone_items_wf; [apply deref_self_wf|reflexivity].
    + apply clone_items_wf;
        [apply (clone_struct_body_wf fs a0 Hok (clone_field_attrs_fst _ _ _ _ _ Hb0))
        |apply clone_from_struct_body_wf].
  - inv_bind H. inversion H; subst items.
    destruct (negb (has_custom_method a0) && (has_trait TCopy F && has_trait TCopy traits)).
    + apply clone_items_wf; [apply deref_self_wf|reflexivity].
    + assert (HF : Forall2 (fun v cv =>
                (pat_variant (fst (clone_arm cv)) = Some (v_name v) /\
                 wf_pnode (DEnum vs) Datatypes.tt (fst (clone_arm cv)) = true /\
                 expr_wf (DEnum vs) (snd (clone_arm cv)) = true) /\
                (pat_variant (fst (clone_from_arm cv)) = Some (v_name v) /\
                 wf_pnode (DEnum vs) Datatypes.tt (fst (clone_from_arm cv)) = true /\
                 expr_wf (DEnum vs) (snd (clone_from_arm cv)) = true)) vs a0).
      { apply (Forall2_mapM_In _ _ _ _ Hb0). intros v cv Hin Hv.
        apply (clone_variant_wf F traits vs v cv Hin (Hok v Hin) Hv). }
      assert (HF1 : Forall2 (fun v cv => pat_variant (fst (clone_arm cv)) = Some (v_name v) /\
                 wf_pnode (DEnum vs) Datatypes.tt (fst (clone_arm cv)) = true /\
                 expr_wf (DEnum vs) (snd (clone_arm cv)) = true) vs a0)
        by (eapply Forall2_impl; [|exact HF]; intros v cv [H1 _]; exact H1).
      assert (HF2 : Forall2 (fun v cv => pat_variant (fst (clone_from_arm cv)) = Some (v_name v) /\
                 wf_pnode (DEnum vs) Datatypes.tt (fst (clone_from_arm cv)) = true /\
                 expr_wf (DEnum vs) (snd (clone_from_arm cv)) = true) vs a0)
        by (eapply Forall2_impl; [|exact HF]; intros v cv [_ H2]; exact H2).
      destruct (arms_wf_Forall2 (DEnum vs) clone_arm vs a0 HF1) as [Hc1 Ha1].
      destruct (arms_wf_Forall2 (DEnum vs) clone_from_arm vs a0 HF2) as [Hc2 Ha2].
      apply clone_items_wf.
      * unfold clone_enum_body. destruct (is_nil a0); [wsimpl; reflexivity|].
        wsimpl. rewrite Hc1, Ha1. reflexivity.
      * unfold clone_from_enum_body, let_source. destruct (is_nil a0); [wsimpl; reflexivity|].
        wsimpl. rewrite Hc2, Ha2. reflexivity.
  - inv_bind H. inversion H; subst items. apply clone_items_wf; [apply deref_self_wf|reflexivity].
Qed.
