(** C15 reverse direction, group g : Into *)
From Educe.Proofs Require Export P_C15d.

Section HandlersE_g.
  Variables (F : features) (keep : trait -> bool) (tr tr' : list trait).
  Hypothesis Htr : forall t, keep t = true -> has_trait t tr' = has_trait t tr.
  Notation rho := (restrict_attrs keep).
  Notation rf := (map_field (restrict_attrs keep)).
  Notation rv := (map_variant (restrict_attrs keep)).
  Notation rd := (map_dinput (restrict_attrs keep)).

  (** ** Into *)
  Lemma into_variant_attr_e attrs :
    keep TInto = true -> vattrs F tr attrs ->
    into_variant_attr F tr' (rho attrs) = into_variant_attr F tr attrs.
  Proof.
    intros Hk Hv. unfold into_variant_attr.
    rewrite (into_collect_rev F keep tr tr' Htr _ Hk Hv). reflexivity.
  Qed.

  Lemma into_field_attr_e tg f :
    keep TInto = true -> vfield F tr f ->
    into_field_attr F tr' tg (rf f) = omap (on_fst rf) (into_field_attr F tr tg f).
  Proof.
    intros Hk Hv. unfold into_field_attr. cbn [map_field f_attrs].
    rewrite (into_collect_rev F keep tr tr' Htr _ Hk Hv).
    destruct (into_collect F tr (f_attrs f)) as [ms| | |]; cbn [bind omap]; try reflexivity.
    destruct (foldM into_field_meta [] ms) as [fa| | |]; cbn [bind omap]; try reflexivity.
    destruct (forallb (fun '(k, _) => ty_mem k tg) fa); reflexivity.
  Qed.

  Lemma into_fields_e tg fs :
    keep TInto = true -> Forall (vfield F tr) fs ->
    mapM (into_field_attr F tr' tg) (map rf fs)
    = omap (map (on_fst rf)) (mapM (into_field_attr F tr tg) fs).
  Proof.
    intros Hk Hv.
    apply (mapM_e (vfield F tr) (into_field_attr F tr tg) (into_field_attr F tr' tg) rf (on_fst rf));
      [|exact Hv].
    intros f Hf. apply into_field_attr_e; assumption.
  Qed.

  Lemma into_results_e d ms :
    keep TInto = true -> vdata F tr (d_data d) ->
    into_results F tr' (rd d) ms = omap (map (omap (rpt keep))) (into_results F tr d ms).
  Proof.
    intros Hk Hv. unfold into_results. cbn [map_dinput d_data].
    destruct (d_data d) as [fs|vs|fs]; cbn [map_data vdata] in *; [| |reflexivity].
    - destruct (into_build_type true ms) as [tg| | |]; cbn [bind omap]; try reflexivity.
      rewrite fields_list_map. rewrite (into_fields_e tg _ Hk Hv).
      destruct (mapM (into_field_attr F tr tg) (fields_list fs)) as [l| | |]; cbn [omap bind];
        try reflexivity.
      rewrite map_map. f_equal. apply map_ext. intros t. apply into_struct_target_r.
    - destruct (into_build_type true ms) as [tg| | |]; cbn [bind omap]; try reflexivity.
      rewrite (mapM_e (vvariant F tr)
                 (fun v => let* _ := into_variant_attr F tr (v_attrs v) in
                           let* fl := mapM (into_field_attr F tr tg) (fields_list (v_fields v)) in
                           Ok (v, fl))
                 (fun v => let* _ := into_variant_attr F tr' (v_attrs v) in
                           let* fl := mapM (into_field_attr F tr' tg) (fields_list (v_fields v)) in
                           Ok (v, fl))
                 rv (rvl keep) vs); [| |exact Hv].
      + match goal with |- context [omap (map (rvl keep)) ?m] => destruct m as [l| | |] end;
          cbn [omap bind]; try reflexivity.
        rewrite map_map. f_equal. apply map_ext. intros t. apply into_enum_target_r.
      + intros v [Hva Hvf]. cbn [map_variant v_attrs v_fields].
        rewrite (into_variant_attr_e _ Hk Hva).
        destruct (into_variant_attr F tr (v_attrs v)) as [u| | |]; cbn [bind omap]; try reflexivity.
        rewrite fields_list_map. rewrite (into_fields_e tg _ Hk Hvf).
        destruct (mapM (into_field_attr F tr tg) (fields_list (v_fields v))) as [l| | |];
          cbn [omap bind]; reflexivity.
  Qed.

  Theorem expand_into_e d ms :
    keep TInto = true -> vinput F tr d ->
    expand_into F tr' (rd d) ms = expand_into F tr d ms.
  Proof.
    intros Hk [_ Hv]. unfold expand_into, into_analyse.
    rewrite (into_results_e d ms Hk Hv).
    destruct (into_results F tr d ms) as [rs| | |]; cbn [omap bind]; try reflexivity.
    rewrite (mapM_omap (fun r : outcome (toks * bound * into_plan1) => r) (fun r => r)
               (omap (rpt keep)) (rpt keep) rs) by (intros x; reflexivity).
    destruct (mapM (fun r => r) rs) as [p| | |]; cbn [omap bind]; try reflexivity.
    f_equal. unfold into_emit. rewrite map_map. apply map_ext. apply into_emit1_r.
  Qed.

  (** the implication form, for convenience *)
  Corollary expand_into_rev d ms its :
    keep TInto = true -> vinput F tr d ->
    expand_into F tr' (rd d) ms = Ok its -> expand_into F tr d ms = Ok its.
  Proof. intros Hk Hv H. rewrite <- (expand_into_e d ms Hk Hv). exact H. Qed.
End HandlersE_g.
