(** C18 — the enabled features enter the expansion only through the resolution of the trait
    names written in the attributes (and the couplings, which look at educed traits only):
    when every trait named anywhere in the input is enabled, the expansion under [F] is the
    expansion of the all-features build.  One exception, found by this proof: the Ord handler
    consults the FEATURE PartialOrd when PartialOrd is not educed (see [ord_feature_agree]). *)
From Educe.Proofs Require Export P_C16.

(** * traits and their names *)
Lemma trait_eqb_eq a b : trait_eqb a b = true <-> a = b.
Proof. split; [destruct a, b; cbn; intros H; try discriminate; reflexivity|intros <-; destruct a; reflexivity]. Qed.

Lemma has_trait_In t l : has_trait t l = true <-> In t l.
Proof.
  unfold has_trait. rewrite existsb_exists. split.
  - intros [x [Hin He]]. apply trait_eqb_eq in He. subst. exact Hin.
  - intros Hin. exists t. split; [exact Hin|apply trait_eqb_eq; reflexivity].
Qed.

Lemma has_all t : has_trait t all_traits = true.
Proof. destruct t; reflexivity. Qed.

Lemma trait_of_name_inv s t : trait_of_name s = Some t -> s = trait_name t.
Proof.
  unfold trait_of_name. intros H. apply find_some in H as [_ H].
  apply String.eqb_eq in H. symmetry. exact H.
Qed.

Lemma trait_of_name_name t : trait_of_name (trait_name t) = Some t.
Proof. destruct t; reflexivity. Qed.

(** * the trait names written in the input *)

(** the meta's path is the single identifier naming [t] *)
Definition meta_names (t : trait) (m : meta) : bool :=
  match get_ident (meta_path m) with
  | Some s => String.eqb s (trait_name t)
  | None => false
  end.

(** the variant- and field-level attribute lists *)
Definition data_attr_lists (dd : data) : list (list attr) :=
  match dd with
  | DStruct fs => map f_attrs (fields_list fs)
  | DEnum vs => flat_map (fun v => v_attrs v :: map f_attrs (fields_list (v_fields v))) vs
  | DUnion fs => map f_attrs fs
  end.

(** every meta of every `#[educe(...)]` list attribute of the input: type, variants, fields *)
Definition all_metas (d : dinput) : list meta :=
  attrs_metas (d_attrs d) ++ flat_map attrs_metas (data_attr_lists (d_data d)).

Definition named_in (d : dinput) (t : trait) : bool := existsb (meta_names t) (all_metas d).
Definition named_at_type (d : dinput) (t : trait) : bool :=
  existsb (meta_names t) (attrs_metas (d_attrs d)).

Lemma named_at_type_in d t : named_at_type d t = true -> named_in d t = true.
Proof. unfold named_in, named_at_type, all_metas. rewrite existsb_app. intros ->. reflexivity. Qed.

Lemma data_ok_of_lists (Q : meta -> Prop) dd :
  (forall m, In m (flat_map attrs_metas (data_attr_lists dd)) -> Q m) -> data_ok Q dd.
Proof.
  intros H.
  assert (Hf : forall fs, (forall f, In f fs -> In (f_attrs f) (data_attr_lists dd)) ->
                          Forall (field_ok Q) fs).
  { intros fs Hin. apply Forall_forall. intros f Hfin. unfold field_ok, attrs_ok.
    apply Forall_forall. intros m Hm. apply H. apply in_flat_map. exists (f_attrs f).
    split; [apply Hin; exact Hfin|exact Hm]. }
  destruct dd as [fs|vs|fs]; cbn [data_ok data_attr_lists] in *.
  - apply Hf. intros f Hin. apply in_map. exact Hin.
  - apply Forall_forall. intros v Hv. split.
    + unfold attrs_ok. apply Forall_forall. intros m Hm. apply H. apply in_flat_map.
      exists (v_attrs v). split; [|exact Hm]. apply in_flat_map. exists v. split; [exact Hv|left; reflexivity].
    + apply Hf. intros f Hin. apply in_flat_map. exists v. split; [exact Hv|].
      right. apply in_map. exact Hin.
  - apply Hf. intros f Hin. apply in_map. exact Hin.
Qed.

(** * resolution of a path under F *)
Lemma tfp_some F p t :
  trait_from_path F p = Some t -> has_trait t F = true /\ get_ident p = Some (trait_name t).
Proof.
  unfold trait_from_path. destruct (get_ident p) as [s|]; [|discriminate].
  destruct (trait_of_name s) as [t'|] eqn:E; [|discriminate].
  destruct (has_trait t' F) eqn:Ef; [|discriminate]. intros H. injection H as <-.
  rewrite (trait_of_name_inv _ _ E). auto.
Qed.

Lemma tfp_names F m t : trait_from_path F (meta_path m) = Some t -> meta_names t m = true.
Proof.
  intros H. apply tfp_some in H as [_ H]. unfold meta_names. rewrite H. apply String.eqb_refl.
Qed.

Lemma tfp_agree F m :
  (forall t, meta_names t m = true -> has_trait t F = true) -> path_agree F all_traits m.
Proof.
  intros H. unfold path_agree, trait_from_path.
  destruct (get_ident (meta_path m)) as [s|] eqn:Eg; [|reflexivity].
  destruct (trait_of_name s) as [t|] eqn:E; [|reflexivity].
  rewrite has_all, (H t); [reflexivity|].
  unfold meta_names. rewrite Eg, (trait_of_name_inv _ _ E). apply String.eqb_refl.
Qed.

(** naming a disabled trait: unresolved *)
Lemma tfp_disabled F m t :
  meta_names t m = true -> has_trait t F = false -> trait_from_path F (meta_path m) = None.
Proof.
  unfold meta_names, trait_from_path. destruct (get_ident (meta_path m)) as [s|]; [|discriminate].
  intros H Hf. apply String.eqb_eq in H. subst s. rewrite trait_of_name_name, Hf. reflexivity.
Qed.

(** * the type-level collection *)
Lemma foldM_inv_in {A S} (f : S -> A -> outcome S) (Q : S -> Prop) l :
  (forall s x s', In x l -> Q s -> f s x = Ok s' -> Q s') ->
  forall s s', Q s -> foldM f s l = Ok s' -> Q s'.
Proof.
  induction l as [|x r IH]; intros Hstep s s' Hq H; cbn [foldM] in H.
  - injection H as <-. exact Hq.
  - apply cg_bind_ok in H as [s1 [H1 H]].
    apply (IH (fun s x s' Hin => Hstep s x s' (or_intror Hin)) s1 s'); [|exact H].
    apply (Hstep s x s1 (or_introl eq_refl) Hq H1).
Qed.

Lemma tmap_push_keys t x tm : map fst (tmap_push t x tm) = map fst tm.
Proof.
  induction tm as [|[k v] r IH]; [reflexivity|]. cbn [tmap_push].
  destruct (trait_eqb k t); cbn [map fst]; [reflexivity|rewrite IH; reflexivity].
Qed.

Lemma tmap_get_key t tm v : tmap_get t tm = Some v -> In t (map fst tm).
Proof.
  induction tm as [|[k w] r IH]; [discriminate|]. cbn [tmap_get map fst].
  destruct (trait_eqb k t) eqn:E; [apply trait_eqb_eq in E; left; exact E|right; auto].
Qed.

(** every key of the collected map is enabled, and is named by a type-level meta *)
Lemma collect_keys F attrs tm :
  foldM (collect_attr F) [] attrs = Ok tm ->
  forall t, In t (map fst tm) ->
    has_trait t F = true /\ existsb (meta_names t) (attrs_metas attrs) = true.
Proof.
  set (Q := fun tm : tmap => forall t, In t (map fst tm) ->
              has_trait t F = true /\ existsb (meta_names t) (attrs_metas attrs) = true).
  intros H. apply (foldM_inv_in (collect_attr F) Q attrs) with (s := []); [|intros t []|exact H].
  intros s a s' Hin Hq Hs. unfold collect_attr in Hs.
  destruct (is_educe a) eqn:Ee; [|injection Hs as <-; exact Hq].
  destruct (a_meta a) as [| |dl ts] eqn:Em; try discriminate.
  destruct (parse_metas ts) as [ms| | |] eqn:Ep; cbn [bind] in Hs; try discriminate.
  assert (Hms : forall m, In m ms -> In m (attrs_metas attrs)).
  { intros m Hm. apply in_flat_map. exists a. split; [exact Hin|].
    unfold attr_metas. rewrite Ee, Em, Ep. exact Hm. }
  apply (foldM_inv_in (collect_meta F) Q ms) with (s := s); [|exact Hq|exact Hs].
  intros s0 m s1 Hm Hq0 Hstep. unfold collect_meta in Hstep.
  destruct (trait_from_path F (meta_path m)) as [t0|] eqn:Et; [|discriminate].
  assert (Hnew : has_trait t0 F = true /\ existsb (meta_names t0) (attrs_metas attrs) = true).
  { split; [apply (tfp_some _ _ _ Et)|]. apply existsb_exists. exists m.
    split; [apply Hms; exact Hm|apply (tfp_names _ _ _ Et)]. }
  destruct (tmap_get t0 s0).
  - destruct (trait_eqb t0 TInto); [|discriminate]. injection Hstep as <-.
    intros t Ht. rewrite tmap_push_keys in Ht. apply Hq0. exact Ht.
  - injection Hstep as <-. intros t Ht. rewrite map_app, in_app_iff in Ht.
    destruct Ht as [Ht|[<-|[]]]; [apply Hq0; exact Ht|exact Hnew].
Qed.

Lemma cg_collect F F' attrs :
  attrs_ok (path_agree F F') attrs ->
  foldM (collect_attr F) [] attrs = foldM (collect_attr F') [] attrs.
Proof.
  intros Hok. unfold collect_attr.
  apply (cg_attr_fold (collect_meta F) (collect_meta F') (fun _ => Err E_educe_format)
                      (path_agree F F')); [|exact Hok].
  intros m Hm s. unfold collect_meta. rewrite Hm. reflexivity.
Qed.

(** * same code as the all-features build *)
Theorem same_code F d :
  (forall t, named_in d t = true -> has_trait t F = true) ->
  (named_at_type d TOrd = true -> named_at_type d TPartialOrd = false ->
   has_trait TPartialOrd F = true) ->
  expand F d = expand all_traits d.
Proof.
  intros Hn Hord.
  assert (Hall : forall m, In m (all_metas d) -> path_agree F all_traits m).
  { intros m Hm. apply tfp_agree. intros t Ht. apply Hn. unfold named_in.
    apply existsb_exists. exists m. auto. }
  assert (Hty : attrs_ok (path_agree F all_traits) (d_attrs d)).
  { unfold attrs_ok. apply Forall_forall. intros m Hm. apply Hall. unfold all_metas.
    apply in_app_iff. left. exact Hm. }
  assert (Hd : data_ok (path_agree F all_traits) (d_data d)).
  { apply data_ok_of_lists. intros m Hm. apply Hall. unfold all_metas. apply in_app_iff. right. exact Hm. }
  unfold expand. rewrite <- (cg_collect F all_traits _ Hty).
  destruct (foldM (collect_attr F) [] (d_attrs d)) as [tm| | |] eqn:Ec; cbn [bind]; try reflexivity.
  pose proof (collect_keys F _ _ Ec) as Hkeys.
  set (tr := map fst tm) in *.
  assert (HF : forall t, has_trait t tr = true -> has_trait t F = has_trait t all_traits).
  { intros t Ht. rewrite has_all. apply has_trait_In in Ht. apply (Hkeys t Ht). }
  assert (Hget : forall t v, tmap_get t tm = Some v -> has_trait t F = true /\ named_at_type d t = true).
  { intros t v Hg. apply (Hkeys t). apply (tmap_get_key _ _ _ Hg). }
  apply cg_bind.
  - apply cg_foldM.
    eapply Forall_impl; [|apply (cg_handlers_gen F all_traits tr tr (fun _ => eq_refl) HF d Hd)].
    cbv beta. intros [t h] Hh acc. cbn [fst snd] in Hh. unfold run_handler. rewrite has_all.
    destruct (tmap_get t tm) as [[|m r]|] eqn:Eg; try (destruct (has_trait t F); reflexivity).
    destruct (Hget _ _ Eg) as [Hf Hnt]. rewrite Hf. rewrite Hh; [reflexivity|].
    intros ->. unfold ord_feature_agree. intros _. rewrite has_all.
    destruct (named_at_type d TPartialOrd) eqn:Ep.
    + apply Hn. apply named_at_type_in. exact Ep.
    + apply Hord; [exact Hnt|reflexivity].
  - intros its. apply cg_bind; [|reflexivity].
    destruct (tmap_get TInto tm) as [ms|] eqn:Eg; [|reflexivity].
    destruct (Hget _ _ Eg) as [Hf _]. rewrite Hf, has_all.
    rewrite (cg_expand_into F all_traits tr tr (fun _ => eq_refl) d ms Hd). reflexivity.
Qed.
