(** C01 / acceptance, continued -- `#[educe(Into(T))]` on a struct with exactly one field (without
    attribute): accepted for every target [T] that [syn::Type::parse] reads entirely
    ([parse_type_with_metas T = Ok (T, [])]). *)
From Educe.Proofs Require Export P_C01j.

Lemma fold_handlers_absent F traits d (tm : tmap) : forall hs acc,
  (forall t h, In (t, h) hs -> tmap_get t tm = None) ->
  foldM (run_handler F traits d tm) acc hs = Ok acc.
Proof.
  induction hs as [|[t h] hs IH]; intros acc H; cbn [foldM]; [reflexivity|].
  unfold run_handler at 1. rewrite (H t h (or_introl eq_refl)).
  replace (if has_trait t F then Ok acc else Ok acc) with (@Ok (list item) acc)
    by (destruct (has_trait t F); reflexivity).
  cbn [bind]. apply IH. intros t' h' Hin. apply (H t' h'). right. exact Hin.
Qed.

Lemma into_single_field F d fs f ty pth :
  d_data d = DStruct fs -> fields_list fs = [f] -> f_attrs f = [] ->
  parse_type_with_metas ty = Ok (ty, []) ->
  exists it, expand_into F [TInto] d [MList pth Paren ty] = Ok [it].
Proof.
  intros Hd Hfs Hf Hty. unfold expand_into, into_analyse, into_results. rewrite Hd, Hfs.
  unfold into_build_type. cbn [foldM into_type_meta negb]. rewrite Hty.
  cbn [bind run_params foldM ty_mem ty_lookup app mapM].
  unfold into_field_attr at 1. rewrite Hf. unfold into_collect. cbn [foldM bind forallb].
  cbn [map into_struct_target fst into_select bind ty_lookup mapM into_emit].
  eexists. reflexivity.
Qed.

Theorem expand_accepts_into F d fs f ty :
  has_trait TInto F = true ->
  d_attrs d = [educe_list TInto ty] ->
  d_data d = DStruct fs -> fields_list fs = [f] -> f_attrs f = [] ->
  parse_type_with_metas ty = Ok (ty, []) ->
  exists items, expand F d = Ok items.
Proof.
  intros HF Ha Hd Hfs Hf Hty.
  assert (Htm : foldM (collect_attr F) [] (d_attrs d) = Ok [(TInto, [list_meta TInto ty])]).
  { rewrite Ha. cbn [foldM]. unfold collect_attr at 1.
    cbn [is_educe educe_list a_path a_meta String.eqb Ascii.eqb Bool.eqb].
    rewrite parse_list_meta. cbn [bind foldM]. unfold collect_meta. cbn [meta_path]. unfold flag_path.
    rewrite (trait_from_flag F TInto HF). reflexivity. }
  unfold expand. rewrite Htm. cbn [bind map fst].
  rewrite fold_handlers_absent.
  - cbn [bind tmap_get trait_eqb]. rewrite HF.
    destruct (into_single_field F d fs f ty (flag_path TInto) Hd Hfs Hf Hty) as [it Hit].
    unfold list_meta. rewrite Hit. cbn [bind app is_nil]. ok.
  - intros t h Hin. unfold handlers in Hin. cbn [In] in Hin.
    repeat (destruct Hin as [Hin|Hin]; [inversion Hin; reflexivity|]). destruct Hin.
Qed.

(** * `Debug(name ..)` read case by case *)
Theorem expand_accepts_debug_name_false F d n fs :
  has_trait TDebug F = true ->
  n = NEqFalse \/ n = NParenFalse ->
  d_attrs d = [educe_list TDebug (nform_toks n)] ->
  d_data d = DStruct fs -> plain_fields (fields_list fs) -> fields_list fs <> [] ->
  exists items, expand F d = Ok items.
Proof.
  intros HF Hn Ha Hd Hp Hne.
  apply (expand_accepts_debug_name F d n HF Ha).
  - rewrite Hd. exact Hp.
  - destruct Hn as [-> | ->]; exact Logic.I.
  - rewrite Hd. intros _. exact Hne.
Qed.

Theorem expand_accepts_debug_name_ident F d n :
  has_trait TDebug F = true ->
  (exists s, n = NEqIdent s /\ path_seg_ok s = true) \/
  (exists raw s, n = NEqStr raw s /\ ident_ok s = true) \/
  (exists s, n = NParenIdent s /\ ident_ok s = true) ->
  d_attrs d = [educe_list TDebug (nform_toks n)] ->
  plain_data (d_data d) -> (forall fs, d_data d <> DUnion fs) ->
  exists items, expand F d = Ok items.
Proof.
  intros HF Hn Ha Hp Hu.
  apply (expand_accepts_debug_name F d n HF Ha Hp).
  - destruct Hn as [[s [-> H]]|[[raw [s [-> H]]]|[s [-> H]]]]; exact H.
  - destruct (d_data d) as [fs|vs|fs]; cbn [name_accepted].
    + destruct Hn as [[s [-> H]]|[[raw [s [-> H]]]|[s [-> H]]]]; discriminate.
    + destruct Hn as [[s [-> H]]|[[raw [s [-> H]]]|[s [-> H]]]]; discriminate.
    + apply (Hu fs). reflexivity.
Qed.
