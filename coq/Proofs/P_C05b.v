(** C05 — the combined statement and the consequences the property names:
    the fed data is determined by, and distinguishes, the variant and the
    non-ignored fields; `a == b` implies equal feeds. *)
From Educe.Proofs Require Export P_C05 P_C02c.

(** ** struct and enum in one statement *)
Theorem hash_trace (I : interp) F traits d m items c v h :
  data_wf (d_data d) ->
  expand_hash F traits d m = Ok items ->
  hash_cfg F traits d = Ok c ->
  keys_ok c v = true ->
  exists it, items = [it] /\ run_hash I it v h = spec_hash_trace c h v.
Proof.
  intros Hwf He Hc Hv. destruct (d_data d) as [fs|vs|fs] eqn:Hd.
  - exact (struct_hash_trace I h F traits d m fs items c v Hd He Hc Hv).
  - exact (enum_hash_trace I h F traits d m vs items c v Hd Hwf He Hc Hv).
  - unfold hash_cfg in Hc. rewrite Hd in Hc. discriminate Hc.
Qed.

Section Spec.
  Variable h : value.

  (** ** determined *)
  Lemma fields_trace_agree l : forall xs xs',
    agree_on l xs xs' -> spec_fields_trace h l xs = spec_fields_trace h l xs'.
  Proof.
    induction l as [|[k fa] r IH]; intros xs xs' Hx; [reflexivity|].
    cbn [spec_fields_trace flat_map].
    change (flat_map _ r) with (spec_fields_trace h r xs) at 1.
    change (flat_map _ r) with (spec_fields_trace h r xs').
    rewrite (IH xs xs') by (intros k' fa' Hin; apply Hx; right; exact Hin).
    destruct (fa_ignore fa) eqn:E; [reflexivity|].
    rewrite (Hx k fa (or_introl eq_refl) E). reflexivity.
  Qed.

  (** values of the same variant agreeing on the non-ignored fields feed identical data *)
  Theorem hash_determined c va xs xs' l :
    vcfg_get va c = Some l -> agree_on l xs xs' ->
    spec_hash_trace c h (VData va xs) = spec_hash_trace c h (VData va xs').
  Proof.
    intros Hl Hx. cbn [spec_hash_trace]. rewrite Hl.
    rewrite (fields_trace_agree l xs xs' Hx). reflexivity.
  Qed.

  (** ** distinguishes *)
  Lemma vcfg_index_inj c : forall na nb la lb,
    vcfg_get (Some na) c = Some la -> vcfg_get (Some nb) c = Some lb ->
    vcfg_index na c = vcfg_index nb c -> na = nb.
  Proof.
    induction c as [|[[b|] l] r IH]; intros na nb la lb Ha Hb Hi; [discriminate Ha| |].
    - cbn [vcfg_get vcfg_index] in *.
      destruct (String.eqb na b) eqn:Ea, (String.eqb nb b) eqn:Eb.
      + apply String.eqb_eq in Ea, Eb. congruence.
      + discriminate Hi.
      + discriminate Hi.
      + injection Hi as Hi. eapply IH; eassumption.
    - cbn [vcfg_get vcfg_index] in *. injection Hi as Hi. eapply IH; eassumption.
  Qed.

  Section Obs.
    Context {X : Type} (obs : event -> X).

    (** equal observed field traces are equal field by field *)
    Lemma fields_trace_pointwise l : forall xs ys,
      (forall k fa, In (k, fa) l -> lookup k xs <> None /\ lookup k ys <> None) ->
      map obs (spec_fields_trace h l xs) = map obs (spec_fields_trace h l ys) ->
      forall k fa x y, In (k, fa) l -> fa_ignore fa = false ->
        lookup k xs = Some x -> lookup k ys = Some y ->
        obs (field_event h fa x) = obs (field_event h fa y).
    Proof.
      induction l as [|[k0 fa0] r IH]; intros xs ys Hk Heq k fa x y Hin Hig Hx Hy; [destruct Hin|].
      cbn [spec_fields_trace flat_map] in Heq.
      change (flat_map _ r) with (spec_fields_trace h r xs) in Heq at 1.
      change (flat_map _ r) with (spec_fields_trace h r ys) in Heq.
      assert (Hk' : forall k1 fa1, In (k1, fa1) r -> lookup k1 xs <> None /\ lookup k1 ys <> None)
        by (intros k1 fa1 H1; apply (Hk k1 fa1); right; exact H1).
      destruct (Hk k0 fa0 (or_introl eq_refl)) as [Hx0 Hy0].
      destruct (fa_ignore fa0) eqn:E0.
      - cbn [app] in Heq. destruct Hin as [Hin|Hin]; [inversion Hin; subst; congruence|].
        exact (IH xs ys Hk' Heq k fa x y Hin Hig Hx Hy).
      - destruct (lookup k0 xs) as [x0|] eqn:Ex0; [|congruence].
        destruct (lookup k0 ys) as [y0|] eqn:Ey0; [|congruence].
        cbn [app map] in Heq. injection Heq as Hhd Htl.
        destruct Hin as [Hin|Hin].
        + inversion Hin; subst k0 fa0. rewrite Hx in Ex0. rewrite Hy in Ey0.
          inversion Ex0; inversion Ey0; subst. exact Hhd.
        + exact (IH xs ys Hk' Htl k fa x y Hin Hig Hx Hy).
    Qed.

    Lemma keys_lookup (l : list (string * fattr)) (xs : list (string * value)) :
      map fst l = map fst xs -> forall k fa, In (k, fa) l -> lookup k xs <> None.
    Proof.
      intros Hk k fa Hin. apply in_fst_lookup. rewrite <- Hk.
      apply (in_map fst l (k, fa)). exact Hin.
    Qed.

    (** values in different variants feed different data (the index comes first) *)
    Theorem hash_distinguishes_variant c na xs nb ys ta tb :
      (forall i j, obs (EvHashUsize i) = obs (EvHashUsize j) -> i = j) ->
      spec_hash_trace c h (VData (Some na) xs) = Some ta ->
      spec_hash_trace c h (VData (Some nb) ys) = Some tb ->
      na <> nb -> map obs ta <> map obs tb.
    Proof.
      intros Hinj Ha Hb Hne Heq. cbn [spec_hash_trace] in Ha, Hb.
      destruct (vcfg_get (Some na) c) as [la|] eqn:Ea; [|discriminate Ha].
      destruct (vcfg_get (Some nb) c) as [lb|] eqn:Eb; [|discriminate Hb].
      inversion Ha; subst ta. inversion Hb; subst tb. cbn [app map] in Heq.
      injection Heq as Hhd _. apply Hinj in Hhd.
      apply Hne. exact (vcfg_index_inj c na nb la lb Ea Eb Hhd).
    Qed.

    (** values of the same variant differing in a non-ignored field whose own feed
        differs feed different data *)
    Theorem hash_distinguishes_field c va xs ys l k fa x y ta tb :
      vcfg_get va c = Some l ->
      map fst l = map fst xs -> map fst l = map fst ys ->
      spec_hash_trace c h (VData va xs) = Some ta ->
      spec_hash_trace c h (VData va ys) = Some tb ->
      In (k, fa) l -> fa_ignore fa = false ->
      lookup k xs = Some x -> lookup k ys = Some y ->
      obs (field_event h fa x) <> obs (field_event h fa y) ->
      map obs ta <> map obs tb.
    Proof.
      intros Hl Hkx Hky Ha Hb Hin Hig Hx Hy Hne Heq. cbn [spec_hash_trace] in Ha, Hb.
      rewrite Hl in Ha, Hb. inversion Ha; subst ta. inversion Hb; subst tb.
      rewrite !map_app in Heq. apply app_inv_head in Heq.
      apply Hne. refine (fields_trace_pointwise l xs ys _ Heq k fa x y Hin Hig Hx Hy).
      intros k1 fa1 H1. split; [exact (keys_lookup l xs Hkx k1 fa1 H1)|exact (keys_lookup l ys Hky k1 fa1 H1)].
    Qed.

    (** ** a == b implies equal feeds *)
    Variable I : interp.

    Lemma fields_eq_trace : forall le lh xs ys,
      Forall2 same_choice le lh ->
      Forall2 (fun a b => fa_ignore (snd b) = false -> field_coherent obs I h (snd a) (snd b)) le lh ->
      spec_fields_eq I le xs ys = true ->
      map obs (spec_fields_trace h lh xs) = map obs (spec_fields_trace h lh ys).
    Proof.
      induction le as [|[k fe] re IH]; intros lh xs ys Hsc Hco Heq.
      - inversion Hsc; subst. reflexivity.
      - inversion Hsc as [|? [k' fh] ? rh [Hk Hig] Hsc']; subst.
        inversion Hco as [|? ? ? ? Hc1 Hco']; subst.
        cbn [fst snd] in Hk, Hig, Hc1. subst k'.
        cbn [spec_fields_eq forallb] in Heq. apply andb_true_iff in Heq as [H1 Hr].
        cbn [spec_fields_trace flat_map].
        change (flat_map _ rh) with (spec_fields_trace h rh xs) at 1.
        change (flat_map _ rh) with (spec_fields_trace h rh ys).
        rewrite !map_app. rewrite (IH rh xs ys Hsc' Hco' Hr). f_equal.
        destruct (fa_ignore fh) eqn:Eh; [reflexivity|].
        rewrite Hig in H1. cbn [orb] in H1.
        destruct (lookup k xs) as [x|]; [|discriminate H1].
        destruct (lookup k ys) as [y|]; [|discriminate H1].
        cbn [map]. f_equal. exact (Hc1 eq_refl x y H1).
    Qed.

    Lemma same_choices_get ce ch : same_choices ce ch ->
      forall vn le, vcfg_get vn ce = Some le ->
      exists lh, vcfg_get vn ch = Some lh /\ Forall2 same_choice le lh.
    Proof.
      induction 1 as [|[ke le0] [kh lh0] re rh [Hk Hf] Hr IH]; intros vn le Hg; [discriminate Hg|].
      cbn [fst snd] in Hk, Hf. subst kh. cbn [vcfg_get] in Hg |- *.
      destruct vn as [a|], ke as [b|]; try (apply IH; exact Hg).
      - destruct (String.eqb a b); [|apply IH; exact Hg].
        inversion Hg; subst le0. exists lh0. split; [reflexivity|exact Hf].
      - inversion Hg; subst le0. exists lh0. split; [reflexivity|exact Hf].
    Qed.

    Lemma same_choices_index ce ch n : same_choices ce ch -> vcfg_index n ce = vcfg_index n ch.
    Proof.
      induction 1 as [|[ke le0] [kh lh0] re rh [Hk Hf] Hr IH]; [reflexivity|].
      cbn [fst] in Hk. subst kh. cbn [vcfg_index]. rewrite IH. reflexivity.
    Qed.

    Theorem eq_implies_hash ce ch a b :
      same_choices ce ch -> cfg_coherent obs I h ce ch ->
      spec_eq I ce a b = Some true ->
      exists ta tb, spec_hash_trace ch h a = Some ta /\ spec_hash_trace ch h b = Some tb /\
                    map obs ta = map obs tb.
    Proof.
      intros Hsc Hco Heq.
      destruct a as [| | | | | |va xs| | | | |]; try discriminate Heq.
      destruct b as [| | | | | |vb ys| | | | |]; try discriminate Heq.
      cbn [spec_eq] in Heq. destruct (vcfg_get va ce) as [le|] eqn:Ele; [|discriminate Heq].
      destruct (same_choices_get ce ch Hsc va le Ele) as [lh [Elh Hf]].
      assert (Hv : va = vb /\ spec_fields_eq I le xs ys = true).
      { destruct va as [x|], vb as [y|]; try discriminate Heq.
        - injection Heq as Heq. apply andb_true_iff in Heq as [E1 E2].
          apply String.eqb_eq in E1. subst y. split; [reflexivity|exact E2].
        - injection Heq as Heq. split; [reflexivity|exact Heq]. }
      destruct Hv as [<- Hfe]. cbn [spec_hash_trace]. rewrite Elh.
      eexists; eexists; split; [reflexivity|split; [reflexivity|]].
      rewrite !map_app. f_equal.
      exact (fields_eq_trace le lh xs ys Hf (Hco va le lh Ele Elh) Hfe).
    Qed.
  End Obs.
End Spec.

(** ** the same consequences, on runs of the emitted code *)
Lemma keys_ok_intro c vn xs l :
  vcfg_get vn c = Some l -> map fst l = map fst xs -> keys_ok c (VData vn xs) = true.
Proof.
  intros Hl Hk. cbn [keys_ok]. rewrite Hl.
  destruct (list_eq_dec string_dec (map fst l) (map fst xs)); [reflexivity|contradiction].
Qed.

Theorem run_hash_determined (I : interp) F traits d m items c h va xs xs' l :
  data_wf (d_data d) ->
  expand_hash F traits d m = Ok items ->
  hash_cfg F traits d = Ok c ->
  vcfg_get va c = Some l -> map fst l = map fst xs -> map fst l = map fst xs' ->
  agree_on l xs xs' ->
  exists it t, items = [it] /\ run_hash I it (VData va xs) h = Some t /\
               run_hash I it (VData va xs') h = Some t.
Proof.
  intros Hwf He Hc Hl Hk Hk' Hag.
  destruct (hash_trace I F traits d m items c (VData va xs) h Hwf He Hc (keys_ok_intro c va xs l Hl Hk))
    as [it [Hit Hr]].
  destruct (hash_trace I F traits d m items c (VData va xs') h Hwf He Hc (keys_ok_intro c va xs' l Hl Hk'))
    as [it' [Hit' Hr']].
  rewrite Hit in Hit'. inversion Hit'; subst it'.
  rewrite <- (hash_determined h c va xs xs' l Hl Hag) in Hr'.
  cbn [spec_hash_trace] in Hr, Hr'. rewrite Hl in Hr, Hr'.
  eexists; eexists; split; [exact Hit|split; [exact Hr|exact Hr']].
Qed.

Lemma same_choice_keys le lh : Forall2 same_choice le lh -> map fst le = map fst lh.
Proof. induction 1 as [|a b ra rb [Hk _] _ IH]; [reflexivity|]. cbn [map]. rewrite Hk, IH. reflexivity. Qed.

Lemma same_choices_keys_ok ce ch v :
  same_choices ce ch -> value_ok ce v = true -> keys_ok ch v = true.
Proof.
  intros Hsc Hv. apply value_ok_keys_ok in Hv.
  destruct (keys_ok_inv _ _ Hv) as [vn [xs [le [-> [Hle Hk]]]]].
  destruct (same_choices_get ce ch Hsc vn le Hle) as [lh [Hlh Hf]].
  apply (keys_ok_intro ch vn xs lh Hlh). rewrite <- (same_choice_keys le lh Hf). exact Hk.
Qed.

Theorem run_eq_implies_hash {X} (obs : event -> X) (I : interp) F traits d me mh
        items_e items_h ce ch a b h :
  data_wf (d_data d) ->
  expand_partial_eq F traits d me = Ok items_e ->
  expand_hash F traits d mh = Ok items_h ->
  peq_cfg F traits d = Ok ce -> hash_cfg F traits d = Ok ch ->
  methods_typed_cfg I ce ->
  value_ok ce a = true -> value_ok ce b = true ->
  same_choices ce ch -> cfg_coherent obs I h ce ch ->
  exists ie rest ih, items_e = ie :: rest /\ items_h = [ih] /\
    (run_eq I ie a b = Some true ->
     exists ta tb, run_hash I ih a h = Some ta /\ run_hash I ih b h = Some tb /\
                   map obs ta = map obs tb).
Proof.
  intros Hwf Hee Heh Hce Hch Hmt Ha Hb Hsc Hco.
  assert (Heq : exists ie rest, items_e = ie :: rest /\ run_eq I ie a b = spec_eq I ce a b).
  { destruct (d_data d) as [fs|vs|fs] eqn:Hd.
    - exact (struct_eq_fieldwise I F traits d me fs items_e ce a b Hd Hee Hce Hmt Ha Hb).
    - exact (enum_eq_fieldwise I F traits d me vs items_e ce a b Hd Hwf Hee Hce Hmt Ha Hb).
    - unfold peq_cfg in Hce. rewrite Hd in Hce. discriminate Hce. }
  destruct Heq as [ie [rest [Hie Hrun]]].
  destruct (hash_trace I F traits d mh items_h ch a h Hwf Heh Hch (same_choices_keys_ok ce ch a Hsc Ha))
    as [ih [Hih Hra]].
  destruct (hash_trace I F traits d mh items_h ch b h Hwf Heh Hch (same_choices_keys_ok ce ch b Hsc Hb))
    as [ih' [Hih' Hrb]].
  rewrite Hih in Hih'. inversion Hih'; subst ih'.
  exists ie, rest, ih. split; [exact Hie|split; [exact Hih|]].
  intros Htrue. rewrite Hrun in Htrue.
  destruct (eq_implies_hash h obs I ce ch a b Hsc Hco Htrue) as [ta [tb [Hta [Htb Hobs]]]].
  exists ta, tb. rewrite Hra, Hrb. repeat split; assumption.
Qed.

Theorem run_hash_distinguishes {X} (obs : event -> X) (I : interp) F traits d m items c h a b :
  data_wf (d_data d) ->
  expand_hash F traits d m = Ok items ->
  hash_cfg F traits d = Ok c ->
  keys_ok c a = true -> keys_ok c b = true ->
  exists it ta tb, items = [it] /\ run_hash I it a h = Some ta /\ run_hash I it b h = Some tb /\
    (* different variants *)
    (forall na xs nb ys, a = VData (Some na) xs -> b = VData (Some nb) ys -> na <> nb ->
       (forall i j, obs (EvHashUsize i) = obs (EvHashUsize j) -> i = j) ->
       map obs ta <> map obs tb) /\
    (* same variant, a non-ignored field whose own feed differs *)
    (forall va xs ys l k fa x y, a = VData va xs -> b = VData va ys ->
       vcfg_get va c = Some l -> In (k, fa) l -> fa_ignore fa = false ->
       lookup k xs = Some x -> lookup k ys = Some y ->
       obs (field_event h fa x) <> obs (field_event h fa y) ->
       map obs ta <> map obs tb).
Proof.
  intros Hwf He Hc Ha Hb.
  destruct (hash_trace I F traits d m items c a h Hwf He Hc Ha) as [it [Hit Hra]].
  destruct (hash_trace I F traits d m items c b h Hwf He Hc Hb) as [it' [Hit' Hrb]].
  rewrite Hit in Hit'. inversion Hit'; subst it'.
  destruct (keys_ok_inv _ _ Ha) as [va [xs [la [Ea [Hla Hka]]]]].
  destruct (keys_ok_inv _ _ Hb) as [vb [ys [lb [Eb [Hlb Hkb]]]]].
  assert (Hta : exists ta, spec_hash_trace c h a = Some ta)
    by (subst a; cbn [spec_hash_trace]; rewrite Hla; eauto).
  assert (Htb : exists tb, spec_hash_trace c h b = Some tb)
    by (subst b; cbn [spec_hash_trace]; rewrite Hlb; eauto).
  destruct Hta as [ta Hta]. destruct Htb as [tb Htb].
  exists it, ta, tb. rewrite Hra, Hrb. repeat split; try assumption.
  - intros na xs0 nb ys0 E1 E2 Hne Hinj. subst a b. inversion E1; inversion E2; subst.
    exact (hash_distinguishes_variant h obs c na xs0 nb ys0 ta tb Hinj Hta Htb Hne).
  - intros va0 xs0 ys0 l k fa x y E1 E2 Hl Hin Hig Hx Hy Hne. subst a b.
    inversion E1; inversion E2; subst. rewrite Hl in Hla, Hlb.
    injection Hla as <-. injection Hlb as <-.
    exact (hash_distinguishes_field h obs c va0 xs0 ys0 l k fa x y ta tb Hl Hka Hkb Hta Htb Hin Hig Hx Hy Hne).
Qed.
