(** C15 reverse direction, group e: PartialOrd, Ord *)
From Educe.Proofs Require Export P_C15d.
Section HandlersE_e.
  Variables (F : features) (keep : trait -> bool) (tr tr' : list trait).
  Hypothesis Htr : forall t, keep t = true -> has_trait t tr' = has_trait t tr.
  Notation rho := (restrict_attrs keep).
  Notation rf := (map_field (restrict_attrs keep)).
  Notation rv := (map_variant (restrict_attrs keep)).
  Notation rd := (map_dinput (restrict_attrs keep)).

  Section OrdE.
    Variables (own own' : trait -> bool).
    Hypothesis Hown : forall t, own t = true -> keep t = true.
    Hypothesis Hown' : forall t, keep t = true -> own' t = own t.

    Lemma scan_ord_e {A} (build : meta -> outcome A) attrs : vattrs F tr attrs ->
      scan_attrs F own' build tr' (rho attrs) = scan_attrs F own build tr attrs.
    Proof. intros Hv. apply (scan_rev F keep tr tr' Htr); assumption. Qed.

    Lemma ord_field_attr_e i attrs : vattrs F tr attrs ->
      ord_field_attr F own' tr' i (rho attrs) = ord_field_attr F own tr i attrs.
    Proof. intros Hv. unfold ord_field_attr. rewrite scan_ord_e by assumption. reflexivity. Qed.

    Lemma ord_variant_attr_e attrs : vattrs F tr attrs ->
      ord_variant_attr F own' tr' (rho attrs) = ord_variant_attr F own tr attrs.
    Proof. intros Hv. unfold ord_variant_attr. rewrite scan_ord_e by assumption. reflexivity. Qed.

    Lemma plan_field_e s (x : nat * field) : vfield F tr (snd x) ->
      plan_field F own' tr' (rfp keep s) (on_snd rf x) = omap (rfp keep) (plan_field F own tr s x).
    Proof.
      destruct x as [i f]. cbn [snd]. intros Hv. unfold plan_field.
      cbn [on_snd fst snd map_field f_attrs].
      rewrite ord_field_attr_e by exact Hv.
      destruct (ord_field_attr F own tr i (f_attrs f)) as [a| | |]; cbn [omap bind]; try reflexivity.
      destruct (oa_ignore a).
      - cbn [omap]. unfold rfp. cbn [fp_declared fp_sorted]. rewrite map_app. reflexivity.
      - unfold rfp at 1. cbn [fp_sorted]. rewrite rank_mem_r.
        destruct (rank_mem (oa_rank a) (fp_sorted s)); [reflexivity|]. cbn [omap].
        unfold rfp. cbn [fp_declared fp_sorted]. rewrite map_app.
        change (i, rf f, a) with (rof keep (i, f, a)). rewrite rank_insert_r. reflexivity.
    Qed.

    Lemma plan_fields_e fs : Forall (vfield F tr) fs ->
      plan_fields F own' tr' (map rf fs) = omap (rfp keep) (plan_fields F own tr fs).
    Proof.
      intros Hv. unfold plan_fields. rewrite indexed_map.
      change fplan_empty with (rfp keep fplan_empty) at 1.
      apply (foldM_e (fun x : nat * field => vfield F tr (snd x))).
      - intros s x Hx. apply plan_field_e. exact Hx.
      - apply Forall_indexed. exact Hv.
    Qed.

    Lemma plan_variant_e v : vvariant F tr v ->
      plan_variant F own' tr' (rv v) = omap (rvp keep) (plan_variant F own tr v).
    Proof.
      intros [Hva Hvf]. unfold plan_variant. cbn [map_variant v_attrs v_fields v_name].
      rewrite ord_variant_attr_e by exact Hva.
      destruct (ord_variant_attr F own tr (v_attrs v)); cbn [omap bind]; try reflexivity.
      destruct (v_fields v) as [fs|fs|]; cbn [map_fields fields_list] in *.
      - rewrite plan_fields_e by exact Hvf.
        destruct (plan_fields F own tr fs); cbn [omap bind rvp]; reflexivity.
      - rewrite plan_fields_e by exact Hvf.
        destruct (plan_fields F own tr fs); cbn [omap bind rvp]; reflexivity.
      - reflexivity.
    Qed.

    Lemma plan_variants_e vs : Forall (vvariant F tr) vs ->
      mapM (plan_variant F own' tr') (map rv vs) = omap (map (rvp keep)) (mapM (plan_variant F own tr) vs).
    Proof. apply mapM_e. intros v Hv. apply plan_variant_e. exact Hv. Qed.
  End OrdE.

  Theorem expand_partial_ord_e d m : keep TPartialOrd = true -> keep TOrd = true ->
    vinput F tr d ->
    expand_partial_ord F tr' (rd d) m = expand_partial_ord F tr d m.
  Proof.
    intros Hk Hk2 [Hva Hvd]. unfold expand_partial_ord. rewrite (coupling_e F keep tr tr' Htr TOrd Hk2).
    destruct (has_trait TOrd F && has_trait TOrd tr); [reflexivity|].
    cbn [map_dinput d_data d_generics].
    pose proof (own_single keep TPartialOrd Hk) as Hown.
    assert (Hown' : forall t, keep t = true -> trait_eqb TPartialOrd t = trait_eqb TPartialOrd t) by reflexivity.
    destruct (d_data d) as [fs|vs|fs]; cbn [map_data vdata] in *; [| |reflexivity].
    - destruct (build_tattr true false true m) as [ta| | |]; cbn [bind]; try reflexivity.
      rewrite fields_list_map.
      rewrite (plan_fields_e _ _ Hown Hown') by exact Hvd.
      destruct (plan_fields F (trait_eqb TPartialOrd) tr (fields_list fs)) as [p| | |]; cbn [omap bind]; try reflexivity.
      rewrite ord_types_r, cmp_struct_body_r. reflexivity.
    - destruct (build_tattr true false true m) as [ta| | |]; cbn [bind]; try reflexivity.
      unfold discriminant_values. rewrite discr_values_from_r.
      destruct (discr_values_from 0 vs) as [ty| | |]; cbn [bind]; try reflexivity.
      rewrite (plan_variants_e _ _ Hown Hown') by exact Hvd.
      destruct (mapM (plan_variant F (trait_eqb TPartialOrd) tr) vs) as [vps| | |]; cbn [omap bind]; try reflexivity.
      rewrite vplan_types_r, cmp_enum_body_r. reflexivity.
  Qed.

  Theorem expand_ord_e d m : keep TOrd = true -> keep TPartialOrd = true ->
    vinput F tr d ->
    expand_ord F tr' (rd d) m = expand_ord F tr d m.
  Proof.
    intros Hk Hk2 [Hva Hvd]. unfold expand_ord. cbn [map_dinput d_data d_generics].
    assert (Hown : forall t, own_ord F tr t = true -> keep t = true).
    { intros t Ht. unfold own_ord in Ht. apply orb_true_iff in Ht as [Ht|Ht].
      - apply trait_eqb_eq in Ht. subst. exact Hk.
      - apply andb_true_iff in Ht as [_ Ht]. apply trait_eqb_eq in Ht. subst. exact Hk2. }
    assert (Hown' : forall t, keep t = true -> own_ord F tr' t = own_ord F tr t).
    { intros t _. unfold own_ord. rewrite (coupling_e F keep tr tr' Htr TPartialOrd Hk2). reflexivity. }
    assert (Hsup : ord_supertraits F tr' = ord_supertraits F tr).
    { unfold ord_supertraits. rewrite (Htr TPartialOrd Hk2). reflexivity. }
    assert (Hitems : forall g body, ord_items F tr' (rd d) g body = ord_items F tr d g body).
    { intros g body. unfold ord_items. rewrite (coupling_e F keep tr tr' Htr TPartialOrd Hk2). reflexivity. }
    rewrite Hsup.
    destruct (d_data d) as [fs|vs|fs]; cbn [map_data vdata] in *; [| |reflexivity].
    - destruct (build_tattr true false true m) as [ta| | |]; cbn [bind]; try reflexivity.
      rewrite fields_list_map.
      rewrite (plan_fields_e _ _ Hown Hown') by exact Hvd.
      destruct (plan_fields F (own_ord F tr) tr (fields_list fs)) as [p| | |]; cbn [omap bind]; try reflexivity.
      rewrite ord_types_r, cmp_struct_body_r.
      change (ord_items F tr' {| d_attrs := rho (d_attrs d); d_name := d_name d; d_generics := d_generics d;
                                  d_data := map_data rho (d_data d) |}) with (ord_items F tr' (rd d)).
      rewrite Hitems. reflexivity.
    - destruct (build_tattr true false true m) as [ta| | |]; cbn [bind]; try reflexivity.
      unfold discriminant_values. rewrite discr_values_from_r.
      destruct (discr_values_from 0 vs) as [ty| | |]; cbn [bind]; try reflexivity.
      rewrite (plan_variants_e _ _ Hown Hown') by exact Hvd.
      destruct (mapM (plan_variant F (own_ord F tr) tr) vs) as [vps| | |]; cbn [omap bind]; try reflexivity.
      rewrite vplan_types_r, cmp_enum_body_r. rewrite Hitems. reflexivity.
  Qed.
End HandlersE_e.
