(** C01 / acceptance, continued -- SEVERAL bare flags in one attribute,
    `#[educe(T1, T2, .., Tn)]`, on a type that carries no other attribute: accepted whenever every
    flag is accepted alone ([flag_accepted], P_C01f) -- the handlers do not get in each other's way. *)
From Educe.Proofs Require Export P_C01f P_C15.

Definition flag_meta (t : trait) : meta := MPath {| mp_lead := false; mp_segs := [trait_name t] |}.

(** the attribute `#[educe(T1, T2, .., Tn)]` *)
Definition educe_flags (ts : list trait) : attr :=
  {| a_path := ["educe"];
     a_meta := AMList Paren (join_commas (map (fun t => [I (trait_name t)]) ts)) |}.

Lemma educe_flags_single t : educe_flags [t] = educe_flag (trait_name t).
Proof. reflexivity. Qed.

(** * the tokens parse to the flags *)
Lemma parse_flag_chunk b t : parse_meta_chunk b [I (trait_name t)] = Ok (flag_meta t).
Proof. destruct b, t; vm_compute; reflexivity. Qed.

Lemma flag_chunk_no_comma t : no_comma [I (trait_name t)].
Proof. repeat constructor. Qed.

Lemma parse_cs_flags ts :
  ts <> [] -> parse_cs (map (fun t => [I (trait_name t)]) ts) = Ok (map flag_meta ts).
Proof.
  induction ts as [|t [|t2 r] IH]; intros Hne; [congruence| |].
  - cbn [map parse_cs is_nil]. rewrite parse_flag_chunk. reflexivity.
  - change (map (fun t => [I (trait_name t)]) (t :: t2 :: r))
      with ([I (trait_name t)] :: map (fun t => [I (trait_name t)]) (t2 :: r)).
    set (rest := map (fun t => [I (trait_name t)]) (t2 :: r)) in *.
    assert (Hr : exists c cs, rest = c :: cs) by (unfold rest; cbn [map]; eauto).
    destruct Hr as [c [cs Hr]]. rewrite Hr.
    change (parse_cs ([I (trait_name t)] :: c :: cs))
      with (let* m := parse_meta_chunk false [I (trait_name t)] in
            let* ms := parse_cs (c :: cs) in Ok (m :: ms)).
    rewrite parse_flag_chunk. cbn [bind]. rewrite <- Hr. rewrite IH by discriminate. reflexivity.
Qed.

Lemma parse_metas_flags ts :
  ts <> [] ->
  parse_metas (join_commas (map (fun t => [I (trait_name t)]) ts)) = Ok (map flag_meta ts).
Proof.
  intros Hne. rewrite parse_metas_cs, split_join.
  - apply parse_cs_flags. exact Hne.
  - destruct ts; [congruence|discriminate].
  - apply Forall_forall. intros c Hc. apply in_map_iff in Hc as [t [<- _]]. apply flag_chunk_no_comma.
Qed.

(** * the trait map built from the flags *)
Definition flag_tmap (ts : list trait) : tmap := map (fun t => (t, [flag_meta t])) ts.

Lemma trait_eqb_sym a b : trait_eqb a b = trait_eqb b a.
Proof. destruct a, b; reflexivity. Qed.

Lemma trait_eqb_neq a b : a <> b -> trait_eqb a b = false.
Proof. intros H. destruct (trait_eqb a b) eqn:E; [|reflexivity]. apply trait_eqb_eq in E. contradiction. Qed.

Lemma tmap_get_none t (m : tmap) : ~ In t (map fst m) -> tmap_get t m = None.
Proof.
  induction m as [|[k v] m IH]; intros H; [reflexivity|]. cbn [tmap_get].
  rewrite trait_eqb_neq; [apply IH; intros Hc; apply H; right; exact Hc|].
  intros E. apply H. left. exact E.
Qed.

Lemma tmap_get_app_none t (a b : tmap) :
  tmap_get t a = None -> tmap_get t (a ++ b) = tmap_get t b.
Proof.
  induction a as [|[k v] a IH]; intros H; [reflexivity|]. cbn [tmap_get app] in *.
  destruct (trait_eqb k t); [discriminate H|]. apply IH. exact H.
Qed.

Lemma tmap_get_flags t ts :
  tmap_get t (flag_tmap ts) = if has_trait t ts then Some [flag_meta t] else None.
Proof.
  induction ts as [|k r IH]; [reflexivity|]. cbn [flag_tmap map tmap_get has_trait existsb].
  rewrite (trait_eqb_sym t k). destruct (trait_eqb k t) eqn:E.
  - apply trait_eqb_eq in E. subst k. reflexivity.
  - exact IH.
Qed.

Lemma has_trait_in t l : has_trait t l = true <-> In t l.
Proof.
  unfold has_trait. rewrite existsb_exists. split.
  - intros [x [Hx E]]. apply trait_eqb_eq in E. subst x. exact Hx.
  - intros H. exists t. split; [exact H|apply trait_eqb_refl].
Qed.

Lemma collect_flags F : forall ts acc,
  NoDup ts -> (forall t, In t ts -> has_trait t F = true) ->
  (forall t, In t ts -> ~ In t (map fst acc)) ->
  foldM (collect_meta F) acc (map flag_meta ts) = Ok (acc ++ flag_tmap ts).
Proof.
  induction ts as [|t r IH]; intros acc Hnd HF Hacc; cbn [map foldM flag_tmap].
  - rewrite app_nil_r. reflexivity.
  - inversion Hnd as [|? ? Hnotin Hnd']; subst.
    unfold collect_meta at 1. cbn [flag_meta meta_path].
    rewrite (trait_from_flag F t (HF t (or_introl eq_refl))).
    rewrite (tmap_get_none t acc (Hacc t (or_introl eq_refl))). cbn [bind].
    rewrite IH.
    + rewrite <- app_assoc. reflexivity.
    + exact Hnd'.
    + intros x Hx. apply HF. right. exact Hx.
    + intros x Hx. rewrite map_app. cbn [map fst]. intros Hin. apply in_app_or in Hin as [Hin|[E|[]]].
      * apply (Hacc x (or_intror Hx)). exact Hin.
      * subst x. contradiction.
Qed.

(** * the fold over the handlers *)
Section Fold.
  Variables (F : features) (ts : list trait) (d : dinput).

  Definition items_of (th : trait * handler) : list item :=
    if has_trait (fst th) F && has_trait (fst th) ts then
      match snd th F ts d (flag_meta (fst th)) with Ok its => its | _ => [] end
    else [].

  Lemma fold_handlers_flags : forall hs acc,
    (forall t h, In (t, h) hs -> has_trait t ts = true ->
                 exists its, h F ts d (flag_meta t) = Ok its) ->
    foldM (run_handler F ts d (flag_tmap ts)) acc hs = Ok (acc ++ List.concat (map items_of hs)).
  Proof.
    induction hs as [|[t h] hs IH]; intros acc Hok; cbn [foldM map List.concat].
    - rewrite app_nil_r. reflexivity.
    - unfold run_handler at 1. rewrite tmap_get_flags. unfold items_of at 1. cbn [fst snd].
      destruct (has_trait t F); cbn [andb].
      + destruct (has_trait t ts) eqn:Et.
        * destruct (Hok t h (or_introl eq_refl) Et) as [its Hits]. rewrite Hits. cbn [bind].
          rewrite IH; [rewrite <- app_assoc; reflexivity|].
          intros t' h' Hin. apply Hok. right. exact Hin.
        * cbn [bind]. rewrite IH; [reflexivity|]. intros t' h' Hin. apply Hok. right. exact Hin.
      + cbn [bind]. rewrite IH; [reflexivity|]. intros t' h' Hin. apply Hok. right. exact Hin.
  Qed.
End Fold.

(** * what a handler returns is not empty -- except the two companions, whose impl is written by
    the primary's handler when the primary is educed as well *)
Lemma handler_nonempty_any F traits d t h m items :
  In (t, h) handlers -> h F traits d m = Ok items ->
  items <> [] \/
  (t = TCopy /\ has_trait TClone F && has_trait TClone traits = true) \/
  (t = TEq /\ has_trait TPartialEq F && has_trait TPartialEq traits = true) \/
  (t = TPartialOrd /\ has_trait TOrd F && has_trait TOrd traits = true).
Proof.
  intros Hin H. unfold handlers in Hin. cbn [In] in Hin.
  repeat (destruct Hin as [Hin|Hin]; [inversion Hin; subst t h; clear Hin|]); [..|destruct Hin].
  - left. unfold expand_debug in H. destruct (d_data d).
    + inv_bind H. inv_bind H. destruct (_ && _); [discriminate H|]. inversion H. discriminate.
    + inv_bind H. inv_bind H. destruct (_ && _); [discriminate H|]. inversion H. discriminate.
    + inv_bind H. destruct (negb _); [discriminate H|]. inv_bind H. inversion H. discriminate.
  - left. unfold expand_clone in H. inv_bind H. destruct (d_data d); inv_bind H; inversion H;
      unfold clone_items; repeat match goal with |- context [if ?c then _ else _] => destruct c end;
      discriminate.
  - unfold expand_copy in H. inv_bind H.
    destruct (has_trait TClone F && has_trait TClone traits); [right; left; split; reflexivity|].
    left. inv_bind H. inversion H. discriminate.
  - left. unfold expand_partial_eq in H. destruct (d_data d).
    + inv_bind H. inv_bind H. inversion H. discriminate.
    + inv_bind H. inv_bind H. inversion H. discriminate.
    + inv_bind H. destruct (negb _); [discriminate H|]. inv_bind H. inversion H. discriminate.
  - unfold expand_eq in H. inv_bind H.
    destruct (has_trait TPartialEq F && has_trait TPartialEq traits); [right; right; left; split; reflexivity|].
    left. inv_bind H. inversion H. discriminate.
  - unfold expand_partial_ord in H.
    destruct (has_trait TOrd F && has_trait TOrd traits); [right; right; right; split; reflexivity|].
    left. destruct (d_data d); [| |discriminate H].
    + inv_bind H. inv_bind H. inversion H. discriminate.
    + inv_bind H. inv_bind H. inv_bind H. inversion H. discriminate.
  - left. unfold expand_ord in H. destruct (d_data d); [| |discriminate H].
    + inv_bind H. inv_bind H. inversion H. discriminate.
    + inv_bind H. inv_bind H. inv_bind H. inversion H. discriminate.
  - left. unfold expand_hash in H. destruct (d_data d).
    + inv_bind H. inv_bind H. inversion H. discriminate.
    + inv_bind H. inv_bind H. inversion H. discriminate.
    + inv_bind H. destruct (negb _); [discriminate H|]. inv_bind H. inversion H. discriminate.
  - left. unfold expand_default in H. inv_bind H. inversion H. discriminate.
  - left. unfold expand_deref in H. inv_bind H. inversion H. destruct a; discriminate.
  - left. unfold expand_deref_mut in H. inv_bind H. inversion H. destruct a; discriminate.
Qed.

Lemma handler_of t : t <> TInto -> exists h, In (t, h) handlers.
Proof.
  intros Hn. destruct t; try (exfalso; apply Hn; reflexivity);
    (eexists; unfold handlers; cbn [In]; eauto 12).
Qed.

Lemma concat_in_nonempty {A} (l : list (list A)) x : In x l -> x <> [] -> List.concat l <> [].
Proof.
  induction l as [|y l IH]; intros Hin Hx; [destruct Hin|]. cbn [List.concat].
  destruct Hin as [E|Hin].
  - subst y. destruct x; [congruence|discriminate].
  - destruct y; [apply IH; assumption|discriminate].
Qed.

Theorem expand_accepts_flags F d ts :
  ts <> [] -> NoDup ts ->
  (forall t, In t ts -> has_trait t F = true) ->
  d_attrs d = [educe_flags ts] ->
  plain_data (d_data d) ->
  (forall t, In t ts -> flag_accepted t (d_data d)) ->
  exists items, expand F d = Ok items.
Proof.
  intros Hne Hnd HF Ha Hp Hs.
  assert (Hni : ~ In TInto ts) by (intros Hc; exact (Hs TInto Hc)).
  assert (Htm : foldM (collect_attr F) [] (d_attrs d) = Ok (flag_tmap ts)).
  { rewrite Ha. cbn [foldM]. unfold collect_attr at 1.
    cbn [is_educe educe_flags a_path a_meta String.eqb Ascii.eqb Bool.eqb].
    rewrite (parse_metas_flags ts Hne). cbn [bind].
    rewrite (collect_flags F ts [] Hnd HF); [reflexivity|]. intros t _ []. }
  assert (Hfst : map fst (flag_tmap ts) = ts).
  { unfold flag_tmap. rewrite map_map. cbn [fst]. apply map_id. }
  assert (Hcalls : forall t h, In (t, h) handlers -> has_trait t ts = true ->
                               exists its, h F ts d (flag_meta t) = Ok its).
  { intros t h Hin Ht. apply has_trait_in in Ht.
    apply (handler_accepts F ts d t h _ Hin Hp (Hs t Ht)). }
  unfold expand. rewrite Htm. cbn [bind]. rewrite Hfst.
  rewrite (fold_handlers_flags F ts d handlers [] Hcalls). cbn [bind app].
  rewrite tmap_get_flags.
  replace (has_trait TInto ts) with false
    by (destruct (has_trait TInto ts) eqn:E; [apply has_trait_in in E; contradiction|reflexivity]).
  cbn [bind].
  (* the result is not empty *)
  assert (Hnonempty : List.concat (map (items_of F ts d) handlers) <> []).
  { assert (Hone : forall t h its, In t ts -> In (t, h) handlers ->
              h F ts d (flag_meta t) = Ok its -> its <> [] ->
              List.concat (map (items_of F ts d) handlers) <> []).
    { intros t h its Ht Hin Hits Hn. apply (concat_in_nonempty _ its); [|exact Hn].
      apply in_map_iff. exists (t, h). split; [|exact Hin]. unfold items_of. cbn [fst snd].
      rewrite (HF t Ht), (proj2 (has_trait_in t ts) Ht), Hits. reflexivity. }
    assert (Hprim : forall t, In t ts -> t <> TCopy -> t <> TEq -> t <> TPartialOrd ->
              List.concat (map (items_of F ts d) handlers) <> []).
    { intros t Ht Hc He Hpo. destruct (handler_of t) as [h Hin]; [intros ->; contradiction|].
      destruct (Hcalls t h Hin (proj2 (has_trait_in t ts) Ht)) as [its Hits].
      destruct (handler_nonempty_any F _ d t h _ its Hin Hits) as [Hn|[[E _]|[[E _]|[E _]]]];
        [|contradiction|contradiction|contradiction].
      apply (Hone t h its Ht Hin Hits Hn). }
    destruct ts as [|t0 r]; [congruence|].
    assert (Ht0 : In t0 (t0 :: r)) by (left; reflexivity).
    destruct (handler_of t0) as [h0 Hin0]; [intros ->; contradiction|].
    destruct (Hcalls t0 h0 Hin0 (proj2 (has_trait_in _ _) Ht0)) as [its0 Hits0].
    destruct (handler_nonempty_any F _ d t0 h0 _ its0 Hin0 Hits0) as [Hn|[[-> Hc]|[[-> Hc]|[-> Hc]]]].
    - apply (Hone t0 h0 its0 Ht0 Hin0 Hits0 Hn).
    - (* Copy beside an educed Clone: Clone's handler writes both impls *)
      apply andb_prop in Hc as [_ Hc]. apply has_trait_in in Hc.
      apply (Hprim TClone Hc); discriminate.
    - apply andb_prop in Hc as [_ Hc]. apply has_trait_in in Hc.
      apply (Hprim TPartialEq Hc); discriminate.
    - apply andb_prop in Hc as [_ Hc]. apply has_trait_in in Hc.
      apply (Hprim TOrd Hc); discriminate. }
  destruct (List.concat (map (items_of F ts d) handlers)) as [|it its]; [contradiction|].
  eexists. reflexivity.
Qed.
