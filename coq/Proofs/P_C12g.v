(** C12 — Debug's local helper impls (`Educe__DebugField`): generic over the
    type's parameters, for the type itself, under the type's ORIGINAL
    where-clause — whatever `bound` says. *)
From Educe.Proofs Require Export P_C12f.

Lemma Forall_flat_map_intro {A B} (Q : B -> Prop) (f : A -> list B) l :
  (forall x, In x l -> Forall Q (f x)) -> Forall Q (flat_map f l).
Proof.
  induction l as [|x r IH]; intros H; [constructor|]. cbn [flat_map]. apply Forall_app. split.
  - apply H. left; reflexivity.
  - apply IH. intros y Hy. apply H. right; exact Hy.
Qed.

Lemma flat_map_flat_map {A B C} (f : B -> list C) (g : A -> list B) l :
  flat_map f (flat_map g l) = flat_map (fun x => flat_map f (g x)) l.
Proof. induction l as [|x r IH]; [reflexivity|]. cbn [flat_map]. rewrite flat_map_app, IH. reflexivity. Qed.

Section Helpers.
  Variable d : dinput.
  Let Q := helper_ok d.

  Lemma dbg_arg_helpers ty m op :
    helper_impls op = [] -> Forall Q (helper_impls (dbg_arg d ty m op)).
  Proof.
    intros Hop. unfold dbg_arg. cbn [helper_impls]. rewrite Hop.
    constructor; [|constructor]. repeat split.
  Qed.

  Lemma dbg_entry_helpers hn key v : helper_impls v = [] -> helper_impls (dbg_entry hn key v) = [].
  Proof. intros Hv. unfold dbg_entry, builder_stmt, stringify. destruct hn; cbn; rewrite Hv; reflexivity. Qed.

  Lemma named_field_helpers hn key ty fa op :
    helper_impls op = [] -> Forall Q (flat_map helper_impls (dbg_named_field d hn key ty fa op)).
  Proof.
    intros Hop. unfold dbg_named_field. destruct (Expand_Debug.df_method fa) as [m|]; cbn [flat_map].
    - rewrite (dbg_entry_helpers hn key (ERef (EVar "arg")) eq_refl), !app_nil_r.
      apply dbg_arg_helpers. exact Hop.
    - rewrite (dbg_entry_helpers hn key op Hop). constructor.
  Qed.

  Lemma tuple_field_helpers ty fa op :
    helper_impls op = [] -> Forall Q (flat_map helper_impls (dbg_tuple_field d ty fa op)).
  Proof.
    intros Hop. unfold dbg_tuple_field. destruct (Expand_Debug.df_method fa) as [m|]; cbn [flat_map].
    - unfold builder_stmt. cbn [helper_impls flat_map app]. rewrite !app_nil_r.
      apply dbg_arg_helpers. exact Hop.
    - unfold builder_stmt. cbn [helper_impls flat_map app]. rewrite Hop. constructor.
  Qed.

  Lemma named_builder_helpers a :
    (forall x, a = Some x -> helper_impls x = []) -> helper_impls (named_builder a) = [].
  Proof.
    intros Ha. unfold named_builder, let_builder. destruct a as [x|]; [|reflexivity].
    cbn [helper_impls flat_map app]. rewrite (Ha x eq_refl). reflexivity.
  Qed.

  Lemma struct_body_helpers name nf l :
    Forall Q (flat_map helper_impls (dbg_struct_body d name nf l)).
  Proof.
    unfold dbg_struct_body. rewrite flat_map_app. apply Forall_app. split; [|repeat constructor].
    destruct nf; cbn [flat_map].
    - rewrite named_builder_helpers by (intros x Hx; destruct name; inversion Hx; reflexivity).
      cbn [app]. rewrite flat_map_flat_map.
      apply Forall_flat_map_intro. intros [i [f fa]] _.
      destruct (Expand_Debug.df_ignore fa); [constructor|]. apply named_field_helpers. reflexivity.
    - unfold let_builder, stringify. cbn [helper_impls flat_map app].
      rewrite flat_map_flat_map.
      apply Forall_flat_map_intro. intros [i [f fa]] _.
      destruct (Expand_Debug.df_ignore fa); [constructor|]. apply tuple_field_helpers. reflexivity.
  Qed.

  Lemma arm_block_helpers v : Forall Q (helper_impls (dbg_arm_block d v)).
  Proof.
    unfold dbg_arm_block. cbn [helper_impls]. rewrite flat_map_app. apply Forall_app.
    split; [|repeat constructor].
    destruct (dv_named_field v); cbn [flat_map].
    - rewrite named_builder_helpers
        by (intros x Hx; destruct (dv_name_string v); inversion Hx; reflexivity).
      cbn [app]. rewrite flat_map_flat_map.
      apply Forall_flat_map_intro. intros [i [f fa]] _.
      destruct (Expand_Debug.df_ignore fa); [constructor|]. apply named_field_helpers. reflexivity.
    - unfold let_builder. cbn [helper_impls flat_map app].
      rewrite flat_map_flat_map.
      apply Forall_flat_map_intro. intros [i [f fa]] _.
      destruct (Expand_Debug.df_ignore fa); [constructor|]. apply tuple_field_helpers. reflexivity.
  Qed.

  Lemma arm_helpers v : Forall Q (helper_impls (snd (dbg_arm d v))).
  Proof.
    unfold dbg_arm. destruct (dv_fields v); cbn [snd]; try apply arm_block_helpers.
    unfold opt_str_args. destruct (dv_name_string v); repeat constructor.
  Qed.

  Lemma enum_body_helpers name vs : Forall Q (flat_map helper_impls (dbg_enum_body d name vs)).
  Proof.
    unfold dbg_enum_body. destruct (is_nil vs).
    - unfold stringify. cbn. constructor.
    - cbn [flat_map helper_impls app]. rewrite app_nil_r.
      rewrite flat_map_concat, map_map, <- flat_map_concat.
      apply Forall_flat_map_intro. intros v _.
      pose proof (arm_helpers v) as H. destruct (dbg_arm d v) as [p b]. exact H.
  Qed.

  Lemma union_body_helpers name : flat_map helper_impls (dbg_union_body name) = [].
  Proof. unfold dbg_union_body. destruct name; reflexivity. Qed.
End Helpers.

Theorem debug_helpers F traits d m items :
  expand_debug F traits d m = Ok items ->
  Forall (fun it => Forall (helper_ok d) (item_helpers it)) items.
Proof.
  unfold expand_debug. intros H. destruct (d_data d) as [fs|vs|ufs].
  - apply bind_ok in H as [ta [_ H]]. apply bind_ok in H as [l [_ H]].
    destruct (negb (has_shown l) && _); [discriminate H|]. inversion H; subst items.
    constructor; [|constructor]. unfold item_helpers, dbg_item. cbn [i_members flat_map member_helpers].
    rewrite app_nil_r. apply struct_body_helpers.
  - apply bind_ok in H as [ta [_ H]]. apply bind_ok in H as [dvs [_ H]].
    destruct (is_nil dvs && _); [discriminate H|]. inversion H; subst items.
    constructor; [|constructor]. unfold item_helpers, dbg_item. cbn [i_members flat_map member_helpers].
    rewrite app_nil_r. apply enum_body_helpers.
  - apply bind_ok in H as [ta [_ H]]. destruct (negb (Expand_Debug.dt_unsafe ta)); [discriminate H|].
    apply bind_ok in H as [u [_ H]]. inversion H; subst items.
    constructor; [|constructor]. unfold item_helpers, dbg_item. cbn [i_members flat_map member_helpers].
    rewrite app_nil_r, union_body_helpers. constructor.
Qed.

(** no other handler emits such a helper *)
Lemma no_helpers_in (its : list item) :
  Forall (fun it => item_helpers it = []) its -> forall d, Forall (fun it => Forall (helper_ok d) (item_helpers it)) its.
Proof. intros H d. eapply Forall_impl; [|exact H]. intros it ->. constructor. Qed.
