(** C19 / H1 -- the handlers Default, Deref, DerefMut, Into, and the whole [expand]. *)
From Educe.Proofs Require Export P_C19b P_C09 P_C10b.

(** * Default *)
Lemma dvalue_expr_hyg cfg sc v :
  incl (dvalue_exprs v) (u_exprs cfg) -> expr_hyg cfg sc (dvalue_expr v) = true.
Proof.
  intros Hi. destruct v as [ts|ts|ty]; cbn [dvalue_expr dvalue_exprs] in *.
  - hsimpl. rewrite (in_frags_In ts (u_exprs cfg)) by (apply Hi; left; reflexivity).
    rewrite orb_true_r. reflexivity.
  - hsimpl. rewrite (in_frags_In ts (u_exprs cfg)) by (apply Hi; left; reflexivity).
    rewrite orb_true_r. reflexivity.
  - reflexivity.
Qed.

(** the constructor path of a plan is `Self` or `Self::V` *)
Definition self_path (p : rpath) : Prop := p = RSelf \/ exists v, p = RSelfV v.
Definition dbody_path_ok (b : dbody) : Prop :=
  match b with
  | DBExpr _ => True
  | DBUnit p | DBNamed p _ | DBUnnamed p _ => self_path p
  end.

Lemma default_fields_body_path F traits p fs b :
  self_path p -> default_fields_body F traits p fs = Ok b -> dbody_path_ok b.
Proof.
  intros Hp H. unfold default_fields_body in H. destruct fs.
  - inv_bind H. inversion H. exact Hp.
  - inv_bind H. inversion H. exact Hp.
  - inversion H. exact Hp.
Qed.

Lemma default_plan_path F traits d m p : default_plan F traits d m = Ok p -> dbody_path_ok (dp_body p).
Proof.
  unfold default_plan. intros H. inv_bind H. inv_bind H. inversion H; subst p. cbn [dp_body].
  clear H. destruct (d_data d) as [fs|vs|fs]; destruct (dt_expr a) as [e|].
  - inv_bind Hb0. inversion Hb0. exact Logic.I.
  - apply (default_fields_body_path _ _ _ _ _ (or_introl eq_refl) Hb0).
  - inv_bind Hb0. inversion Hb0. exact Logic.I.
  - inv_bind Hb0. apply (default_fields_body_path _ _ _ _ _ (or_intror (ex_intro _ _ eq_refl)) Hb0).
  - inv_bind Hb0. inversion Hb0. exact Logic.I.
  - inv_bind Hb0. destruct a1 as [f fa]. inversion Hb0. left. reflexivity.
Qed.

Lemma self_path_hyg sc p : self_path p -> rpath_hyg sc p = true.
Proof. intros [->|[v ->]]; reflexivity. Qed.

Lemma dbody_expr_hyg cfg sc b :
  dbody_path_ok b -> incl (dbody_exprs b) (u_exprs cfg) -> expr_hyg cfg sc (dbody_expr b) = true.
Proof.
  intros Hp Hi. destruct b as [v|p|p fs|p fs]; cbn [dbody_expr dbody_exprs dbody_path_ok] in *.
  - apply dvalue_expr_hyg. exact Hi.
  - hsimpl. rewrite (self_path_hyg sc p Hp). reflexivity.
  - hsimpl. rewrite (self_path_hyg sc p Hp). cbn [andb]. rewrite forallb_map.
    apply forallb_In. intros [n v] Hin. cbn [snd]. apply dvalue_expr_hyg.
    intros ts Hts. apply Hi. apply in_flat_map. exists (n, v). split; [exact Hin|exact Hts].
  - hsimpl. rewrite (self_path_hyg sc p Hp). cbn [andb]. rewrite forallb_map.
    apply forallb_In. intros v Hin. apply dvalue_expr_hyg.
    intros ts Hts. apply Hi. apply in_flat_map. exists v. split; [exact Hin|exact Hts].
Qed.

Theorem default_hyg cfg F traits d m items :
  (forall p, default_plan F traits d m = Ok p -> incl (dbody_exprs (dp_body p)) (u_exprs cfg)) ->
  expand_default F traits d m = Ok items -> forallb (item_hyg cfg) items = true.
Proof.
  intros Hu H. unfold expand_default in H. inv_bind H. inversion H; subst items.
  unfold default_items. cbn [forallb]. rewrite andb_true_iff. split.
  - unfold default_item. hsimpl.
    change (rpath_toks default_trait) with (core_path ["default"; "Default"]).
    rewrite trait_hyg_core by reflexivity. cbn [andb].
    rewrite body_hyg_any; [reflexivity|]. intros sc. cbn [forallb].
    rewrite dbody_expr_hyg; [reflexivity|apply (default_plan_path _ _ _ _ _ Hb)|apply (Hu _ Hb)].
  - destruct (dp_new a); [|reflexivity]. cbn [forallb]. rewrite andb_true_r.
    unfold new_item. hsimpl. reflexivity.
Qed.

(** * Deref / DerefMut *)
Lemma deref_arm_hyg cfg sc x :
  pat_hyg sc (fst (deref_arm x)) = true /\ expr_hyg cfg sc (snd (deref_arm x)) = true.
Proof.
  destruct x as [v [i f]]. unfold deref_arm. destruct (f_name f) as [n|]; cbn [fst snd].
  - split; reflexivity.
  - split; [|reflexivity]. hsimpl. rewrite forallb_app. cbn [forallb].
    rewrite forallb_repeat; reflexivity.
Qed.

Lemma deref_match_hyg cfg sc arms : forallb (expr_hyg cfg sc) (deref_match arms) = true.
Proof.
  unfold deref_match. hsimpl. rewrite forallb_map, andb_true_r. apply forallb_true. intros x.
  destruct (deref_arm_hyg cfg sc x) as [Hp He]. rewrite Hp, He. reflexivity.
Qed.

Lemma deref_select_in F own traits fs x :
  deref_select F own traits fs = Ok x -> In (snd x) fs.
Proof.
  destruct x as [i f]. intros H.
  destruct (deref_select_designated F own traits fs i f H) as [l [b [_ [_ Hn]]]].
  apply (nth_error_In _ _ Hn).
Qed.

(** the field whose type becomes `Target` is a field of the input *)
Lemma deref_plan_field F own traits d m p :
  deref_analyse F own traits d m = Ok p ->
  In (match p with DPStruct _ f => f | DPEnum x _ => snd (snd x) end) (data_fields (d_data d)).
Proof.
  unfold deref_analyse, data_fields. intros H. destruct (d_data d) as [fs|vs|fs]; [| |discriminate H].
  - inv_bind H. inv_bind H. inversion H; subst p. apply (deref_select_in _ _ _ _ _ Hb0).
  - inv_bind H. inv_bind H. destruct a0 as [|x r]; [discriminate H|]. inversion H; subst p.
    destruct vs as [|v vs]; [discriminate Hb0|]. cbn [mapM] in Hb0. inv_bind Hb0.
    inv_bind Hb0. inversion Hb0; subst a0 r. clear Hb0.
    unfold deref_variant in Hb1. inv_bind Hb1.
    cbn [flat_map]. apply in_or_app. left.
    destruct (v_fields v) as [l|l|]; [| |discriminate Hb1]; inv_bind Hb1; inversion Hb1; subst x;
      cbn [snd fields_list]; eapply deref_select_in; eassumption.
Qed.

Lemma deref_item_hyg cfg d target body :
  In target (u_types cfg) -> (forall sc, forallb (expr_hyg cfg sc) body = true) ->
  item_hyg cfg (deref_item d target body) = true.
Proof.
  intros Ht Hb. unfold deref_item. hsimpl. rewrite trait_hyg_core by reflexivity.
  rewrite (in_frags_In _ _ Ht), (body_hyg_any cfg body Hb). reflexivity.
Qed.

Theorem deref_hyg cfg F traits d m items :
  (forall f, In f (data_fields (d_data d)) -> In (strip_refs (f_ty f)) (u_types cfg)) ->
  expand_deref F traits d m = Ok items -> forallb (item_hyg cfg) items = true.
Proof.
  intros Hu H. unfold expand_deref in H. inv_bind H. inversion H; subst items.
  pose proof (deref_plan_field _ _ _ _ _ _ Hb) as Hin. apply Hu in Hin.
  destruct a as [i f|x r]; cbn [deref_emit forallb]; rewrite andb_true_r.
  - apply deref_item_hyg; [exact Hin|]. intros sc. unfold deref_struct_body.
    destruct (is_ref_type (f_ty f)); reflexivity.
  - apply deref_item_hyg; [exact Hin|]. intros sc. apply deref_match_hyg.
Qed.

Theorem deref_mut_hyg cfg F traits d m items :
  expand_deref_mut F traits d m = Ok items -> forallb (item_hyg cfg) items = true.
Proof.
  intros H. unfold expand_deref_mut in H. inv_bind H. inversion H; subst items.
  destruct a as [i f|x r]; cbn [deref_mut_emit forallb]; rewrite andb_true_r;
    unfold deref_mut_item; hsimpl; rewrite trait_hyg_core by reflexivity; cbn [andb];
    (rewrite body_hyg_any; [reflexivity|]); intros sc.
  - unfold deref_mut_struct_body. destruct (is_ref_type (f_ty f)); reflexivity.
  - apply deref_match_hyg.
Qed.

(** * Into *)
Lemma into_conv_hyg cfg sc target c operand :
  expr_hyg cfg sc operand = true -> expr_hyg cfg sc (into_conv target c operand) = true.
Proof.
  intros Ho. destruct c as [[i f] m]. unfold into_conv. destruct m as [p|].
  - hsimpl. rewrite Ho. reflexivity.
  - destruct (flat_eqb target (hash_type (f_ty f))); [exact Ho|]. hsimpl. rewrite Ho. reflexivity.
Qed.

Lemma into_arm_hyg cfg sc target x :
  pat_hyg sc (fst (into_arm target x)) = true /\ expr_hyg cfg sc (snd (into_arm target x)) = true.
Proof.
  destruct x as [v [[i f] m]]. unfold into_arm. destruct (f_name f) as [n|]; cbn [fst snd].
  - split; [reflexivity|]. apply into_conv_hyg. reflexivity.
  - split; [|apply into_conv_hyg; reflexivity]. hsimpl. rewrite forallb_app. cbn [forallb].
    rewrite forallb_repeat; reflexivity.
Qed.

Lemma split_punct_app_here p a b :
  forallb (fun t => negb (is_punct p t)) a = true ->
  split_punct p (a ++ P p :: b) = Some (a, b).
Proof.
  induction a as [|t a IH]; intros H.
  - cbn. rewrite String.eqb_refl. reflexivity.
  - cbn [forallb] in H. apply andb_true_iff in H as [Ht Ha]. cbn [app split_punct].
    destruct (is_punct p t); [discriminate Ht|]. rewrite (IH Ha). reflexivity.
Qed.

Lemma into_item_hyg cfg d target b types body :
  In target (u_types cfg) -> (forall sc, forallb (expr_hyg cfg sc) body = true) ->
  item_hyg cfg (into_item d target b types body) = true.
Proof.
  intros Ht Hb. unfold into_item. hsimpl.
  assert (Htr : trait_hyg cfg (into_trait target) = true).
  { unfold trait_hyg, into_trait.
    change (core_path ["convert"; "Into"] ++ [P "<"] ++ target ++ [P ">"])
      with (core_path ["convert"; "Into"] ++ P "<" :: (target ++ [P ">"])).
    rewrite (split_punct_app_here "<" (core_path ["convert"; "Into"]) (target ++ [P ">"]))
      by reflexivity.
    replace (toks_hyg no_ident (core_path ["convert"; "Into"])) with true by reflexivity.
    cbn [andb]. apply orb_true_iff. right. apply existsb_exists. exists target.
    split; [exact Ht|apply flat_eqb_refl]. }
  rewrite Htr. cbn [andb].
  assert (Hs : match split_punct "->" (into_sig target) with
               | Some (a, ret) => toks_hyg (tallow (u_fresh cfg)) a && in_frags ret (u_types cfg)
               | None => false
               end = true).
  { unfold into_sig.
    change ([G Paren [I "self"]; P "->"] ++ target) with ([G Paren [I "self"]] ++ P "->" :: target).
    rewrite (split_punct_app_here "->" [G Paren [I "self"]] target) by reflexivity.
    rewrite (in_frags_In _ _ Ht). reflexivity. }
  rewrite Hs, orb_true_r. cbn [andb]. rewrite (body_hyg_any cfg body Hb). reflexivity.
Qed.

Lemma into_emit1_hyg cfg d x :
  In (fst (fst x)) (u_types cfg) -> item_hyg cfg (into_emit1 d x) = true.
Proof.
  destruct x as [[target b] p]. cbn [fst]. intros Ht. unfold into_emit1. destruct p as [c|l].
  - destruct c as [[i f] m]. unfold into_struct_item. apply into_item_hyg; [exact Ht|].
    intros sc. cbn [forallb]. rewrite andb_true_r. apply into_conv_hyg. reflexivity.
  - unfold into_enum_item. apply into_item_hyg; [exact Ht|]. intros sc.
    hsimpl. rewrite forallb_map, andb_true_r. apply forallb_true. intros x.
    destruct (into_arm_hyg cfg sc target x) as [Hp He]. rewrite Hp, He. reflexivity.
Qed.

Lemma Forall2_in_r {A B} (R : A -> B -> Prop) l1 l2 :
  Forall2 R l1 l2 -> forall y, In y l2 -> exists x, In x l1 /\ R x y.
Proof.
  induction 1 as [|x y l1 l2 Hxy _ IH]; intros z Hz; [destruct Hz|].
  destruct Hz as [<-|Hz].
  - exists x. split; [left; reflexivity|exact Hxy].
  - destruct (IH z Hz) as [x' [Hin Hr]]. exists x'. split; [right; exact Hin|exact Hr].
Qed.

(** every emitted impl is for a target of the request *)
Lemma into_plan_targets F traits d ms plan :
  into_analyse F traits d ms = Ok plan ->
  exists tg, into_build_type true ms = Ok tg /\
             forall x, In x plan -> In (fst (fst x)) (map fst tg).
Proof.
  unfold into_analyse, into_results. intros H. inv_bind H.
  destruct (d_data d) as [fs|vs|fs]; [| |discriminate Hb]; inv_bind Hb; inv_bind Hb;
    inversion Hb; subst a; exists a0; (split; [exact Hb0|]); apply mapM_id_map in H;
    intros x Hx; destruct (Forall2_in_r _ _ _ H x Hx) as [t [Ht Hp]]; cbn beta in Hp;
    apply in_map_iff; exists t; (split; [|exact Ht]).
  - unfold into_struct_target in Hp. inv_bind Hp. inversion Hp. reflexivity.
  - unfold into_enum_target in Hp. inv_bind Hp. destruct (is_nil a); [discriminate Hp|].
    inversion Hp. reflexivity.
Qed.

Theorem into_hyg cfg F traits d ms items :
  (forall tg, into_build_type true ms = Ok tg -> incl (map fst tg) (u_types cfg)) ->
  expand_into F traits d ms = Ok items -> forallb (item_hyg cfg) items = true.
Proof.
  intros Hu H. unfold expand_into in H. inv_bind H. inversion H; subst items.
  destruct (into_plan_targets _ _ _ _ _ Hb) as [tg [Htg Hin]].
  unfold into_emit. rewrite forallb_map. apply forallb_In. intros x Hx.
  apply into_emit1_hyg. apply (Hu tg Htg). apply Hin. exact Hx.
Qed.

(** * the whole macro *)
Lemma run_handler_inv F traits d tm acc t h acc' :
  run_handler F traits d tm acc (t, h) = Ok acc' ->
  acc' = acc \/ exists m rest its, tmap_get t tm = Some (m :: rest) /\ h F traits d m = Ok its /\
                                  acc' = acc ++ its.
Proof.
  unfold run_handler. intros H. destruct (has_trait t F); [|inversion H; left; reflexivity].
  destruct (tmap_get t tm) as [[|m rest]|]; try (inversion H; left; reflexivity).
  inv_bind H. inversion H. right. exists m, rest, a. auto.
Qed.

Section Whole.
  Variable F : features.
  Variable d : dinput.
  Variable tm : tmap.
  Hypothesis Htm : foldM (collect_attr F) [] (d_attrs d) = Ok tm.
  Let cfg := request_cfg F d.
  Let traits := map fst tm.

  Lemma cfg_fresh : u_fresh cfg = hasher_ident (d_generics d).
  Proof. reflexivity. Qed.

  Lemma cfg_exprs m rest p :
    tmap_get TDefault tm = Some (m :: rest) -> default_plan F traits d m = Ok p ->
    incl (dbody_exprs (dp_body p)) (u_exprs cfg).
  Proof.
    intros Hg Hp. unfold cfg, request_cfg. rewrite Htm. cbn [u_exprs]. rewrite Hg.
    fold traits. rewrite Hp. apply incl_refl.
  Qed.

  Lemma cfg_deref f : In f (data_fields (d_data d)) -> In (strip_refs (f_ty f)) (u_types cfg).
  Proof.
    intros H. unfold cfg, request_cfg. cbn [u_types]. apply in_or_app. left.
    unfold deref_targets. apply in_map_iff. exists f. split; [reflexivity|exact H].
  Qed.

  Lemma cfg_into ms tg :
    tmap_get TInto tm = Some ms -> into_build_type true ms = Ok tg ->
    incl (map fst tg) (u_types cfg).
  Proof.
    intros Hg Hb. unfold cfg, request_cfg. rewrite Htm. cbn [u_types]. rewrite Hg, Hb.
    apply incl_appr. apply incl_refl.
  Qed.

  Lemma handler_hyg t h m rest its :
    In (t, h) handlers -> tmap_get t tm = Some (m :: rest) -> h F traits d m = Ok its ->
    forallb (item_hyg cfg) its = true.
  Proof.
    intros Hin Hg Hh. unfold handlers in Hin. cbn [In] in Hin.
    repeat (destruct Hin as [Hin|Hin]; [inversion Hin; subst t h; clear Hin|]); [..|destruct Hin].
    - apply (debug_hyg _ _ _ _ _ _ Hh).
    - apply (clone_hyg _ _ _ _ _ _ Hh).
    - apply (copy_hyg _ _ _ _ _ _ Hh).
    - apply (partial_eq_hyg _ _ _ _ _ _ Hh).
    - apply (eq_hyg _ _ _ _ _ _ Hh).
    - apply (partial_ord_hyg _ _ _ _ _ _ Hh).
    - apply (ord_hyg _ _ _ _ _ _ Hh).
    - apply (hash_hyg _ _ _ _ _ _ cfg_fresh Hh).
    - apply (default_hyg _ _ _ _ _ _ (fun p Hp => cfg_exprs _ _ _ Hg Hp) Hh).
    - apply (deref_hyg _ _ _ _ _ _ cfg_deref Hh).
    - apply (deref_mut_hyg _ _ _ _ _ _ Hh).
  Qed.

  Lemma handlers_fold_hyg : forall hs acc acc',
    incl hs handlers -> forallb (item_hyg cfg) acc = true ->
    foldM (run_handler F traits d tm) acc hs = Ok acc' -> forallb (item_hyg cfg) acc' = true.
  Proof.
    induction hs as [|[t h] hs IH]; intros acc acc' Hi Ha H; cbn [foldM] in H.
    - inversion H; subst. exact Ha.
    - inv_bind H. apply (IH a acc'); [intros x Hx; apply Hi; right; exact Hx| |exact H].
      destruct (run_handler_inv _ _ _ _ _ _ _ _ Hb) as [->|[m [rest [its [Hg [Hh ->]]]]]];
        [exact Ha|].
      rewrite forallb_app, Ha. cbn [andb].
      apply (handler_hyg t h m rest its); [apply Hi; left; reflexivity|exact Hg|exact Hh].
  Qed.
End Whole.

Theorem expand_hyg F d items :
  expand F d = Ok items -> forallb (item_hyg (request_cfg F d)) items = true.
Proof.
  unfold expand. intros H. inv_bind H. rename a into tm. inv_bind H. rename a into its0.
  inv_bind H. destruct (is_nil a); [discriminate H|]. inversion H; subst a. clear H.
  pose proof (handlers_fold_hyg F d tm Hb handlers [] its0 (incl_refl _) eq_refl Hb0) as H0.
  destruct (tmap_get TInto tm) as [ms|] eqn:Eg.
  - destruct (has_trait TInto F).
    + inv_bind Hb1. inversion Hb1; subst items. rewrite forallb_app, H0. cbn [andb].
      apply (into_hyg _ _ _ _ _ _ (fun tg Ht => cfg_into F d tm Hb ms tg Eg Ht) Hb2).
    + inversion Hb1; subst. exact H0.
  - inversion Hb1; subst. exact H0.
Qed.
