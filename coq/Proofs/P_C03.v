(** C03 — evaluation of the comparison templates: one step, a chain of steps,
    the struct body.  Everything is stated for both flavours at once
    ([partial] = true: PartialOrd, results are options; false: Ord). *)
From Educe.Spec Require Export SpecOrd.
From Educe.Proofs Require Export StringLemmas EvalLemmas P_C02.

(** the value a method of flavour [partial] returns for the abstract result [o] *)
Definition enc (partial : bool) (o : option comparison) : value :=
  if partial then VOpt (option_map VOrd o)
  else match o with Some c => VOrd c | None => VUnit end.

(** both flavours of the field comparison, as an option *)
Definition field_ocmp (partial : bool) (I : interp) (fa : ofattr) (x y : value) : option comparison :=
  if partial then field_partial_cmp I fa x y else Some (field_cmp I fa x y).

Definition lex_o (partial : bool) (I : interp) (order : list request)
           (xs ys : list (string * value)) : option comparison :=
  if partial then lex_partial_cmp I order xs ys else Some (lex_cmp I order xs ys).

(** "the user-written parts are well-typed": a custom method returns an
    Ordering (Ord) / an Option<Ordering> (PartialOrd) *)
Definition user_typed (partial : bool) (I : interp) (fa : ofattr) (x y : value) : Prop :=
  forall m, oa_method fa = Some m ->
            exists o, i_user I m [x; y] = enc partial o /\ (partial = false -> o <> None).

(** what a step, or a chain of steps, does with the comparison result [o]:
    Equal falls through, anything else returns it *)
Definition block_res (partial : bool) (o : option comparison) : res :=
  match o with Some Eq => RVal VUnit | _ => RRet (enc partial o) end.

Lemma lex_o_nil partial I xs ys : lex_o partial I [] xs ys = Some Eq.
Proof. destruct partial; reflexivity. Qed.

Lemma lex_o_cons partial I k fa r xs ys x y :
  lookup k xs = Some x -> lookup k ys = Some y ->
  lex_o partial I ((k, fa) :: r) xs ys =
  match field_ocmp partial I fa x y with
  | Some Eq => lex_o partial I r xs ys
  | o => o
  end.
Proof.
  intros Hx Hy. unfold lex_o, field_ocmp. destruct partial.
  - cbn [lex_partial_cmp]. rewrite Hx, Hy. reflexivity.
  - cbn [lex_cmp]. rewrite Hx, Hy. destruct (field_cmp I fa x y); reflexivity.
Qed.

Section Steps.
  Variable I : interp.

  Lemma eval_ord_result partial en c s :
    eval I en (ord_result partial (comparison_name c)) s = (RVal (enc partial (Some c)), s).
  Proof. destruct partial, c; reflexivity. Qed.

  Lemma eval_ord_equal partial en s :
    eval I en (ord_result partial "Equal") s = (RVal (enc partial (Some Eq)), s).
  Proof. exact (eval_ord_result partial en Eq s). Qed.

  (** one comparison statement on two references *)
  Lemma eval_cmp_step partial fa en ea eb pa pb x y s :
    (forall s0, eval I en ea s0 = (RVal (VRef pa), s0)) ->
    (forall s0, eval I en eb s0 = (RVal (VRef pb), s0)) ->
    load (st_store s) pa = Some x -> load (st_store s) pb = Some y ->
    user_typed partial I fa x y ->
    exists s', same_store s s' /\
      eval I en (cmp_step partial fa ea eb) s =
      (block_res partial (field_ocmp partial I fa x y), s').
  Proof.
    intros Ha Hb Hx Hy Hm. unfold cmp_step, cmp_callee, field_ocmp, field_partial_cmp, field_cmp.
    destruct (oa_method fa) as [m|] eqn:Em.
    - destruct (Hm m Em) as [o [Ho Hn]].
      destruct partial.
      + cbn [eval eval_args app]. rewrite Ha, Hb. cbn [apply_path]. unfold call_user.
        cbn [strip_all strip]. rewrite Hx, Hy. rewrite Ho.
        eexists; split; [|destruct o as [[| |]|]; reflexivity]. reflexivity.
      + cbn [eval eval_args app]. rewrite Ha, Hb. cbn [apply_path]. unfold call_user.
        cbn [strip_all strip]. rewrite Hx, Hy. rewrite Ho.
        destruct o as [c|]; [|exfalso; apply (Hn eq_refl); reflexivity].
        eexists; split; [|destruct c; reflexivity]. reflexivity.
    - destruct partial.
      + cbn [eval eval_args app builtin_cmp]. rewrite Ha, Hb.
        cbn [apply_path]. unfold call_core, strip2. cbn [strip]. rewrite Hx, Hy.
        exists s; split; [reflexivity|].
        destruct (i_partial_cmp I x y) as [[| |]|]; reflexivity.
      + cbn [eval eval_args app builtin_cmp]. rewrite Ha, Hb.
        cbn [apply_path]. unfold call_core, strip2. cbn [strip]. rewrite Hx, Hy.
        exists s; split; [reflexivity|].
        destruct (i_cmp I x y); reflexivity.
  Qed.

  Lemma cmp_step_no_let partial fa a b : no_let (cmp_step partial fa a b) = true.
  Proof. reflexivity. Qed.

  (** ** a chain of steps.  A step is described by the key of the field it
      compares, the field's request and the two operand expressions; the
      chain lemma holds in ANY environment in which the operand expressions
      denote references to that field of `self` / `other`. *)
  Definition quad := (string * ofattr * expr * expr)%type.
  Definition quad_req (q : quad) : request := let '(k, fa, _, _) := q in (k, fa).
  Definition quad_step (partial : bool) (q : quad) : expr :=
    let '(_, fa, ea, eb) := q in cmp_step partial fa ea eb.
  Definition quad_ok (partial : bool) (en : env) (xs ys : list (string * value)) (q : quad) : Prop :=
    let '(k, fa, ea, eb) := q in
    (forall s0, eval I en ea s0 = (RVal (VRef (sub self_place k)), s0)) /\
    (forall s0, eval I en eb s0 = (RVal (VRef (sub other_place k)), s0)) /\
    exists x y, lookup k xs = Some x /\ lookup k ys = Some y /\ user_typed partial I fa x y.

  Lemma steps_no_let partial l : forallb no_let (map (quad_step partial) l) = true.
  Proof.
    induction l as [|[[[k fa] ea] eb] r IH]; [reflexivity|].
    cbn [map forallb quad_step]. rewrite IH. reflexivity.
  Qed.

  Lemma steps_eval partial en va vb xs ys (l : list quad) : forall s,
    st_store s = [("self", VData va xs); ("other", VData vb ys)] ->
    Forall (quad_ok partial en xs ys) l ->
    exists s', same_store s s' /\
      eval_block (eval I) en (map (quad_step partial) l) s =
      (block_res partial (lex_o partial I (map quad_req l) xs ys), s').
  Proof.
    induction l as [|[[[k fa] ea] eb] r IH]; intros s Hs Hok.
    - exists s. split; [reflexivity|]. rewrite lex_o_nil. reflexivity.
    - inversion Hok as [|? ? Hq Hr]; subst.
      destruct Hq as [Hea [Heb [x [y [Hx [Hy Hm]]]]]].
      cbn [map quad_step quad_req]. rewrite (lex_o_cons partial I k fa _ xs ys x y Hx Hy).
      destruct (eval_cmp_step partial fa en ea eb _ _ x y s Hea Heb) as [s1 [Hs1 Hev]].
      + rewrite (load_self _ _ _ _ _ _ Hs). exact Hx.
      + rewrite (load_other _ _ _ _ _ _ Hs). exact Hy.
      + exact Hm.
      + destruct (field_ocmp partial I fa x y) as [[| |]|] eqn:Ef.
        * (* Equal: go on *)
          rewrite (eval_block_cons_unit I _ _ _ _ s1) by (try apply cmp_step_no_let; exact Hev).
          destruct (IH s1) as [s2 [Hs2 Hev2]]; [rewrite Hs1; exact Hs|exact Hr|].
          exists s2. split; [unfold same_store in *; congruence|exact Hev2].
        * rewrite eval_block_cons by apply cmp_step_no_let. rewrite Hev.
          exists s1. split; [exact Hs1|reflexivity].
        * rewrite eval_block_cons by apply cmp_step_no_let. rewrite Hev.
          exists s1. split; [exact Hs1|reflexivity].
        * rewrite eval_block_cons by apply cmp_step_no_let. rewrite Hev.
          exists s1. split; [exact Hs1|reflexivity].
  Qed.

  (** ** the struct body: the chain, then `Equal` *)
  Definition struct_quads (l : list ofield) : list quad :=
    map (fun '(i, f, fa) => (field_member f i, fa,
                             ERef (EField (EVar "self") (field_member f i)),
                             ERef (EField (EVar "other") (field_member f i)))) l.

  Lemma cmp_struct_body_eq partial p :
    cmp_struct_body partial p =
    map (quad_step partial) (struct_quads (sorted_fields p)) ++ [ord_result partial "Equal"].
  Proof.
    unfold cmp_struct_body, struct_quads. rewrite map_map. f_equal.
    apply map_ext. intros [[i f] fa]. reflexivity.
  Qed.

  (** a chain followed by `Equal`, run as a method body *)
  Lemma chain_then_equal partial en va vb xs ys (l : list quad) s :
    st_store s = [("self", VData va xs); ("other", VData vb ys)] ->
    Forall (quad_ok partial en xs ys) l ->
    exists s', same_store s s' /\
      run_body I en (map (quad_step partial) l ++ [ord_result partial "Equal"]) s =
      (RVal (enc partial (lex_o partial I (map quad_req l) xs ys)), s').
  Proof.
    intros Hs Hok.
    destruct (steps_eval partial en va vb xs ys l s Hs Hok) as [s1 [Hs1 Hev]].
    exists s1. split; [exact Hs1|]. unfold run_body.
    destruct (lex_o partial I (map quad_req l) xs ys) as [[| |]|] eqn:El; cbn [block_res] in Hev.
    - rewrite (eval_block_app_val I en _ [ord_result partial "Equal"] s VUnit s1
                 (steps_no_let partial l)) by (try discriminate; exact Hev).
      assert (Hn : no_let (ord_result partial "Equal") = true) by (destruct partial; reflexivity).
      rewrite eval_block_cons by exact Hn. rewrite eval_ord_equal. reflexivity.
    - rewrite (eval_block_app_stop I en _ [ord_result partial "Equal"] s _ s1
                 (steps_no_let partial l) Hev) by (intros v; discriminate). reflexivity.
    - rewrite (eval_block_app_stop I en _ [ord_result partial "Equal"] s _ s1
                 (steps_no_let partial l) Hev) by (intros v; discriminate). reflexivity.
    - rewrite (eval_block_app_stop I en _ [ord_result partial "Equal"] s _ s1
                 (steps_no_let partial l) Hev) by (intros v; discriminate). reflexivity.
  Qed.

  Lemma struct_quads_ok partial xs ys (l : list ofield) :
    Forall (fun '(i, f, fa) =>
              exists x y, lookup (field_member f i) xs = Some x /\
                          lookup (field_member f i) ys = Some y /\ user_typed partial I fa x y) l ->
    Forall (quad_ok partial eq_env xs ys) (struct_quads l).
  Proof.
    induction l as [|[[i f] fa] r IH]; intros H; [constructor|].
    inversion H as [|? ? Ht Hr]; subst. cbn [struct_quads map]. constructor; [|apply IH; exact Hr].
    cbn [quad_ok]. split; [intros s0; apply eval_self_field|].
    split; [intros s0; apply eval_other_field|]. exact Ht.
  Qed.

  Lemma struct_quads_req (l : list ofield) :
    map quad_req (struct_quads l) = map (fun '(i, f, fa) => (field_member f i, fa)) l.
  Proof.
    unfold struct_quads. rewrite map_map. apply map_ext. intros [[i f] fa]. reflexivity.
  Qed.
End Steps.
