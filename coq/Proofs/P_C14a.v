(** C14, part a: the value readers ([meta_2_*], [bound_from_meta], [meta_2_expr]) give the same
    answer on every documented spelling of a value — rules (1), (2), (5) as closed lemmas — and
    the documented NON-spellings, with witnesses. *)
From Educe.Spec Require Export Spelling.

(** * [osimR] / [osim] *)
Lemma osim_refl {A} (x : outcome A) : osim x x.
Proof. destruct x; cbn; auto. Qed.
Lemma osim_of_eq {A} (x y : outcome A) : x = y -> osim x y.
Proof. intros ->. apply osim_refl. Qed.
Lemma osimR_sym {A B} (R : A -> B -> Prop) (R' : B -> A -> Prop) x y :
  (forall a b, R a b -> R' b a) -> osimR R x y -> osimR R' y x.
Proof. intros H. destruct x, y; cbn; auto. Qed.
Lemma osim_sym {A} (x y : outcome A) : osim x y -> osim y x.
Proof. apply osimR_sym. intros a b. exact (@eq_sym _ a b). Qed.
Lemma osimR_trans {A B C} (R : A -> B -> Prop) (Q : B -> C -> Prop) (T : A -> C -> Prop) x y z :
  (forall a b c, R a b -> Q b c -> T a c) -> osimR R x y -> osimR Q y z -> osimR T x z.
Proof. intros H. destruct x, y, z; cbn; try tauto; eauto. Qed.
Lemma osim_trans {A} (x y z : outcome A) : osim x y -> osim y z -> osim x z.
Proof. apply osimR_trans. intros a b c. exact (@eq_trans _ a b c). Qed.
Lemma osimR_mono {A B} (R R' : A -> B -> Prop) x y :
  (forall a b, R a b -> R' a b) -> osimR R x y -> osimR R' x y.
Proof. intros H. destruct x, y; cbn; auto. Qed.

Lemma osimR_bind {A A' B B'} (R : A -> A' -> Prop) (Q : B -> B' -> Prop) x y f g :
  osimR R x y -> (forall a b, R a b -> osimR Q (f a) (g b)) -> osimR Q (bind x f) (bind y g).
Proof.
  intros H Hf. destruct x, y; cbn in *; try tauto; auto;
    try (destruct (g _)); try (destruct (f _)); cbn; auto.
Qed.
Lemma osim_bind {A B} (x y : outcome A) (f g : A -> outcome B) :
  osim x y -> (forall a, osim (f a) (g a)) -> osim (bind x f) (bind y g).
Proof. intros H Hf. apply (osimR_bind eq eq); [exact H|]. intros a b ->. apply Hf. Qed.

(** failing on the left only needs failing on the right *)
Definition fails {A} (x : outcome A) : Prop := match x with Ok _ => False | _ => True end.
Lemma osimR_fails {A B} (R : A -> B -> Prop) x y : fails x -> fails y -> osimR R x y.
Proof. destruct x, y; cbn; tauto. Qed.
Lemma fails_bind {A B} (x : outcome A) (f : A -> outcome B) :
  (fails x \/ forall a, fails (f a)) -> fails (bind x f).
Proof. destruct x; cbn; intros [H|H]; auto; try tauto. Qed.
Lemma osim_ok {A} (x y : outcome A) a : osim x y -> x = Ok a -> y = Ok a.
Proof. intros H ->. destruct y; cbn in H; try tauto. congruence. Qed.
Lemma osimR_ok {A B} (R : A -> B -> Prop) x y a : osimR R x y -> x = Ok a -> exists b, y = Ok b /\ R a b.
Proof. intros H ->. destruct y; cbn in H; try tauto. eauto. Qed.

Lemma bind_ok' {A B} (m : outcome A) (f : A -> outcome B) (b : B) :
  bind m f = Ok b -> exists a, m = Ok a /\ f a = Ok b.
Proof. destruct m; cbn; try discriminate. eauto. Qed.

(** * booleans *)
Lemma is_bool_tok_bool b : is_bool_tok (tok_bool b) = Some b.
Proof. destruct b; reflexivity. Qed.

(** rule (5): `ignore`, `ignore = true`, `ignore(true)`;  rule (1): `p = b`, `p(b)` *)
Lemma sp_bool_allow_path w b m : sp_bool w b m -> meta_2_bool_allow_path m = Ok b.
Proof.
  intros [p|p d|p Hw Hb]; cbn [meta_2_bool_allow_path meta_name_value_2_bool args_lit_bool];
    rewrite ?is_bool_tok_bool; try reflexivity. subst b. reflexivity.
Qed.
Lemma sp_bool_strict b m : sp_bool false b m -> meta_2_bool m = Ok b.
Proof.
  intros [p|p d|p Hw Hb]; cbn [meta_2_bool meta_name_value_2_bool args_lit_bool];
    rewrite ?is_bool_tok_bool; try reflexivity. discriminate Hw.
Qed.
(** the `name` parameter of Debug also takes a boolean *)
Lemma sp_bool_iob b m : sp_bool false b m -> meta_2_ident_and_bool m = Ok (IOBBool b).
Proof.
  intros [p|p d|p Hw Hb]; [| |discriminate Hw]; destruct b; reflexivity.
Qed.
(** ... except on fields, where both forms are refused *)
Lemma sp_bool_ident b m : sp_bool false b m -> meta_2_ident m = Err E_syn.
Proof.
  intros [p|p d|p Hw Hb]; [| |discriminate Hw]; destruct b; reflexivity.
Qed.
Lemma sp_bool_bound b m : sp_bool false b m -> bound_from_meta m = Ok (bound_of_bool b).
Proof.
  intros [p|p d|p Hw Hb]; [| |discriminate Hw]; destruct b; reflexivity.
Qed.

(** * identifiers *)
Lemma ident_ok_not_bool s : ident_ok s = true -> is_bool_tok (TIdent s) = None.
Proof.
  intros H. cbn [is_bool_tok].
  destruct (String.eqb s "true") eqn:E1; [apply String.eqb_eq in E1; subst s; discriminate H|].
  destruct (String.eqb s "false") eqn:E2; [apply String.eqb_eq in E2; subst s; discriminate H|].
  reflexivity.
Qed.

(** rules (1), (2): `name = X`, `name(X)`, `name = "X"`, `name("X")` *)
Lemma sp_ident_ident s m : ident_ok s = true -> sp_ident s m -> meta_2_ident m = Ok s.
Proof.
  intros Hs [p|p d|p t Ht|p d t Ht]; try destruct Ht as [text value Hv];
    cbn [meta_2_ident meta_name_value_2_ident str_parse_ident relex_of bind args_ident];
    rewrite ?Hs; reflexivity.
Qed.
Lemma sp_ident_iob s m : ident_ok s = true -> sp_ident s m -> meta_2_ident_and_bool m = Ok (IOBIdent s).
Proof.
  intros Hs [p|p d|p t Ht|p d t Ht]; try destruct Ht as [text value Hv];
    cbn [meta_2_ident_and_bool meta_name_value_2_ident_and_bool args_ident_or_bool
         str_ident_or_bool str_parse_ident relex_of bind args_ident is_nil];
    rewrite ?Hs; try reflexivity.
  - rewrite (ident_ok_not_bool s Hs). cbn [bind]. reflexivity.
  - unfold str_ident_or_bool, str_parse_ident. cbn [relex_of bind args_ident]. rewrite Hs. reflexivity.
  - unfold str_ident_or_bool, str_parse_ident. cbn [relex_of bind args_ident]. rewrite Hs. reflexivity.
Qed.

(** * paths *)
Lemma path_not_single_str ts text value relex :
  parse_path_all ts = Ok ts -> ts <> [TStr text value relex].
Proof. intros H ->. discriminate H. Qed.

(** a path without generic arguments is read by [parse_path_all] in the list and string forms
    ([parse_path_ty] only adds the paths that carry `<` `>`) *)
Lemma parse_path_ty_plain ts p : parse_path_all ts = Ok p -> parse_path_ty ts = Ok p.
Proof.
  unfold parse_path_ty, parse_path_all. destruct (has_angle ts); [discriminate|]. intros H. exact H.
Qed.

(** rules (1), (2): `method = a::b`, `method(a::b)`, `method = "a::b"`, `method("a::b")` *)
Lemma sp_path_path ts m : parse_path_all ts = Ok ts -> sp_path ts m -> meta_2_path m = Ok ts.
Proof.
  intros Hp. pose proof (parse_path_ty_plain ts ts Hp) as Hq.
  intros [p|p d|p t Ht|p d t Ht]; try destruct Ht as [text value Hv];
    cbn [meta_2_path meta_name_value_2_path str_parse_path relex_of bind]; try exact Hq; try reflexivity.
  destruct ts as [|t [|t2 r]]; try exact Hq.
  - destruct t; try exact Hq. discriminate Hp.
  - destruct t; exact Hq.
Qed.

(** * integers *)
(** rules (1), (2): `rank = 3`, `rank(3)`, `rank = -3`, `rank(-3)`, `rank = "3"`, `rank("3")` *)
Lemma sp_int_isize z m : in_isize z = true -> sp_int z m -> meta_2_isize m = Ok z.
Proof.
  intros Hz [p v sfx txt E|p v sfx txt E|p v sfx txt E|p d v sfx txt E|p d v sfx txt E
            |p text value relex E|p d text value relex E];
    cbn [meta_2_isize meta_name_value_2_isize int_lit_value lit_2_isize is_lit_tok is_num_lit];
    unfold lit_int_isize; try subst z; rewrite ?Hz; try reflexivity; exact E.
Qed.

(** * bounds *)
Lemma str_of_empty ts (text value : string) :
  (value = ""%string -> ts = []) -> str_empty value = true -> parse_where_predicates ts = Ok [].
Proof.
  intros H E. unfold str_empty in E. apply String.eqb_eq in E. rewrite (H E). reflexivity.
Qed.

Lemma bound_from_lit_str ts t :
  str_of ts t -> bound_from_lit t = (let* ps := parse_where_predicates ts in Ok (BCustom ps)).
Proof.
  intros [text value Hv]. cbn [bound_from_lit].
  destruct (parse_where_predicates ts) eqn:E; cbn [bind]; try reflexivity.
  destruct (str_empty value) eqn:Ee; [|reflexivity].
  rewrite (str_of_empty ts text value Hv Ee) in E. discriminate E.
Qed.

(** rules (1), (2), (5): `bound = b` / `bound(b)`;  `bound(T: A)` / `bound = "T: A"` / `bound("T: A")` *)
Lemma sp_bound_meta r m : sp_bound r m -> bound_from_meta m = bound_of_req r.
Proof.
  intros [p b|p d b|p d|p d ts Hh|p t ts Ht|p d t ts Ht]; cbn [bound_of_req].
  - destruct b; reflexivity.
  - destruct b; reflexivity.
  - reflexivity.
  - destruct ts as [|t rest]; [reflexivity|]. cbn [preds_head_ok] in Hh.
    apply andb_prop in Hh. destruct Hh as [Hh H3]. apply andb_prop in Hh. destruct Hh as [H1 H2].
    apply negb_true_iff in H1, H2, H3. cbn [bound_from_meta]. rewrite H1, H2, H3. reflexivity.
  - cbn [bound_from_meta]. apply bound_from_lit_str. exact Ht.
  - pose proof (bound_from_lit_str ts t Ht) as E. destruct Ht as [text value Hv].
    cbn [bound_from_meta is_lit_tok is_nil]. exact E.
Qed.

(** `bound = ""` is `bound()`: an empty list of predicates, which adds nothing to the where
    clause — exactly like `bound = false` ([bound_preds] below) although the analysis result
    differs ([BCustom []] vs [BDisabled]) *)
Lemma bound_empty_string p text :
  bound_from_meta (MNameValue p (XLit (TStr text "" (Some [])))) = Ok (BCustom []).
Proof. reflexivity. Qed.
Lemma bound_preds_empty_custom g tr tys sup :
  bound_preds (BCustom []) g tr tys sup = bound_preds BDisabled g tr tys sup.
Proof. reflexivity. Qed.

(** * expressions *)
Lemma nv_of_toks e v : nv_of e v -> nvexpr_toks v = e.
Proof. intros []; reflexivity. Qed.

Lemma path_not_lit t : parse_path_all [t] = Ok [t] -> is_lit_tok t = false.
Proof.
  destruct t as [s|s|s|k s|a b c|d l]; try reflexivity; try discriminate.
  unfold parse_path_all. cbn [has_angle existsb is_punct orb path_segs].
  destruct (path_seg_ok s) eqn:E; [|discriminate]. intros _.
  cbn [is_lit_tok is_bool_tok].
  destruct (String.eqb s "true") eqn:E1; [apply String.eqb_eq in E1; subst s; discriminate E|].
  destruct (String.eqb s "false") eqn:E2; [apply String.eqb_eq in E2; subst s; discriminate E|].
  reflexivity.
Qed.

Lemma path_not_neg t p : parse_path_all (TPunct "-" :: t) <> Ok p.
Proof. unfold parse_path_all. destruct (has_angle (TPunct "-" :: t)); discriminate. Qed.

Lemma needs_into_other_path p ty : parse_path_all p = Ok p -> needs_into (XOther p) ty = false.
Proof.
  intros Hp. cbn [needs_into]. destruct p as [|t1 [|t2 [|t3 r]]]; try reflexivity;
    destruct t1 as [s|s|s|k s|a b c|d l]; try reflexivity.
  - destruct s as [|[[] [] [] [] [] [] [] []] [|c s]]; reflexivity.
  - destruct (string_dec s "-") as [->|Hn]; [exfalso; exact (path_not_neg _ _ Hp)|].
    destruct s as [|[[] [] [] [] [] [] [] []] [|c s]]; try reflexivity. congruence.
  - destruct s as [|[[] [] [] [] [] [] [] []] [|c s]]; reflexivity.
Qed.

(** whichever way the expression is classified, the emitted default value is the same *)
Lemma nv_of_needs_into e v v' ty : nv_of e v -> nv_of e v' -> needs_into v ty = needs_into v' ty.
Proof.
  intros H H'. destruct H as [t Ht|t Ht|t Ht|p Hp|ts Hts].
  - inversion H' as [t' Ht' E1 E2|t' Ht' E1 E2|t' Ht' E1 E2|p' Hp' E1 E2|ts' Hts' E1 E2]; subst.
    + reflexivity.
    + rewrite (path_not_lit t Hp') in Ht. discriminate Ht.
    + rewrite (Hts' t eq_refl) in Ht. discriminate Ht.
  - inversion H' as [t' Ht' E1 E2|t' Ht' E1 E2|t' Ht' E1 E2|p' Hp' E1 E2|ts' Hts' E1 E2]; subst;
      try reflexivity.
    + exfalso. exact (path_not_neg _ _ Hp').
    + cbn [needs_into]. rewrite Ht. reflexivity.
  - inversion H' as [t' Ht' E1 E2|t' Ht' E1 E2|t' Ht' E1 E2|p' Hp' E1 E2|ts' Hts' E1 E2]; subst;
      try reflexivity.
    + exfalso. exact (path_not_neg _ _ Hp').
    + cbn [needs_into]. rewrite Ht. reflexivity.
  - inversion H' as [t' Ht' E1 E2|t' Ht' E1 E2|t' Ht' E1 E2|p' Hp' E1 E2|ts' Hts' E1 E2]; subst.
    + rewrite (path_not_lit t' Hp) in Ht'. discriminate Ht'.
    + exfalso. exact (path_not_neg _ _ Hp).
    + exfalso. exact (path_not_neg _ _ Hp).
    + reflexivity.
    + rewrite (needs_into_other_path p ty Hp). reflexivity.
  - inversion H' as [t' Ht' E1 E2|t' Ht' E1 E2|t' Ht' E1 E2|p' Hp' E1 E2|ts' Hts' E1 E2]; subst.
    + rewrite (Hts t' eq_refl) in Ht'. discriminate Ht'.
    + cbn [needs_into]. rewrite Ht'. reflexivity.
    + cbn [needs_into]. rewrite Ht'. reflexivity.
    + rewrite (needs_into_other_path ts ty Hp'). reflexivity.
    + reflexivity.
Qed.

Lemma nv_of_adjust e v v' ty : nv_of e v -> nv_of e v' -> auto_adjust_expr v ty = auto_adjust_expr v' ty.
Proof.
  intros H H'. unfold auto_adjust_expr.
  rewrite (nv_of_needs_into e v v' ty H H'), (nv_of_toks e v H), (nv_of_toks e v' H'). reflexivity.
Qed.

(** a value with `<` `>` that is accepted is one path expression, kept as written; the list
    form accepts it too ([cut] = false there) *)
Lemma angle_expr_ok cut v x : angle_expr cut v = Ok x -> x = XOther v /\ angle_expr false v = Ok x.
Proof.
  unfold angle_expr, ood_nv, ood_cut. destruct (path_start_ok v); [|discriminate].
  destruct (qpath_expr v) as [y| | |]; try discriminate; [|destruct cut; discriminate].
  destruct (snd y) as [|lt [|a [|c r]]]; try discriminate.
  - intros H. inversion H. split; reflexivity.
  - repeat match goal with |- context [if ?b then _ else _] => destruct b end; discriminate.
Qed.

Lemma args_expr_nv_of e v : args_expr e = Ok v -> nv_of e v.
Proof.
  unfold args_expr. destruct e as [|t [|t2 r]].
  - cbn [has_angle existsb]. intros H. apply bind_ok' in H. destruct H as [u [_ H]]. inversion H. apply NV_other. discriminate.
  - destruct (is_lit_tok t) eqn:E.
    + intros H. inversion H. apply NV_lit. exact E.
    + intros H. apply bind_ok' in H. destruct H as [u [_ H]]. inversion H. apply NV_other.
      intros t' Ht'. inversion Ht'. subst. exact E.
  - destruct (has_angle (t :: t2 :: r)).
    { intros H. apply angle_expr_ok in H. destruct H as [-> _]. apply NV_other. discriminate. }
    intros H. apply bind_ok' in H. destruct H as [u [_ H]]. inversion H. apply NV_other. discriminate.
Qed.

(** rule (1): `expression = e`, `expression(e)` *)
Lemma sp_expr_expr e m : sp_expr e m -> exists v, meta_2_expr m = Ok v /\ nv_of e v.
Proof.
  intros [p v H|p d v H]; cbn [meta_2_expr]; eauto using args_expr_nv_of.
Qed.

(** * the documented NON-spellings *)

(** `bound( * )` asks for a bound on every type parameter; the string "*" is not a list of
    where-predicates and is refused *)
Lemma bound_star_no_string_form p d text :
  bound_from_meta (MList p d [TPunct "*"]) = Ok BAll /\
  bound_from_meta (MNameValue p (XLit (TStr text "*" (Some [TPunct "*"])))) = Err E_syn.
Proof. split; reflexivity. Qed.

(** a default expression has no string form: `Default = "x"` is the string literal itself
    (wrapped in `Into::into` unless the field is a `&str`), not the expression `x` *)
Lemma default_expr_no_string_form p text :
  let lit := TStr text "x" (Some [TIdent "x"]) in
  Expand_Default.build_dfattr false true [TIdent "u8"] (MNameValue p (XLit lit))
    = Ok {| Expand_Default.df_flag := false; Expand_Default.df_expr := Some (DVInto [lit]) |} /\
  Expand_Default.build_dfattr false true [TIdent "u8"] (MNameValue p (XPath [TIdent "x"]))
    = Ok {| Expand_Default.df_flag := false; Expand_Default.df_expr := Some (DVExpr [TIdent "x"]) |}.
Proof. split; reflexivity. Qed.

(** identifiers only: a path keyword is taken as a name after `=`, but refused in the list and
    string forms (the name-value reader takes any single-segment path) *)
Lemma name_keyword_differs p d :
  meta_2_ident (MNameValue p (XPath [TIdent "self"])) = Ok "self"%string /\
  meta_2_ident (MList p d [TIdent "self"]) = Err E_syn.
Proof. split; reflexivity. Qed.

(** an integer with a suffix or in another base has no string form *)
Lemma rank_suffix_no_string_form p text :
  meta_2_isize (MNameValue p (XLit (TLit (LKInt 16 "isize") "0x10isize"))) = Ok 16%Z /\
  meta_2_isize (MNameValue p (XLit (TStr text "0x10isize" None))) = Err E_int_parse.
Proof. split; reflexivity. Qed.

(** the kind of error reported for an INVALID value depends on the spelling *)
Lemma rank_error_kind_differs p d :
  meta_2_isize (MNameValue p (XLit (TLit (LKFloat "") "1.5"))) = Err E_syn /\
  meta_2_isize (MList p d [TLit (LKFloat "") "1.5"]) = Err E_not_integer.
Proof. split; reflexivity. Qed.

(** the shorthands depend on the position: `Default = e` is refused on the type (where
    `Default(expression = e)` is accepted); `Trait = true` / `Trait = false` are refused on a
    variant and on the fields of a union *)
Lemma default_shorthand_not_on_type p v ef en ee eb :
  Expand_Default.build_dtattr ef en ee eb (MNameValue p v) = Err E_attr_format.
Proof. reflexivity. Qed.

Lemma bool_shorthand_positions p b :
  build_tattr false false false (MNameValue p (XLit (tok_bool b))) = Err E_attr_format /\
  build_fattr false false (MNameValue p (XLit (tok_bool b))) = Err E_attr_format /\
  Expand_Debug.build_dfattr false false false (MNameValue p (XLit (tok_bool b))) = Err E_attr_format.
Proof. repeat split; reflexivity. Qed.
