(** C13 — R13 (union without `unsafe`), R14 (union, unsupported trait), R15 (unit variant
    under Deref / DerefMut / Into). *)
From Educe.Proofs Require Export P_C13d.
From Educe.Proofs Require P_C20.

Lemma unsafe_first_marker m : unsafe_first m = SpecUnion.has_unsafe_marker m.
Proof. reflexivity. Qed.

(** R13, per handler (from C20) *)
Lemma union_handlers_need_unsafe F traits d m fs :
  d_data d = DUnion fs -> unsafe_first m = false ->
  (forall l, Expand_Debug.expand_debug F traits d m <> Ok l) /\
  (forall l, expand_partial_eq F traits d m <> Ok l) /\
  (forall l, expand_hash F traits d m <> Ok l).
Proof.
  intros Hd Hm. rewrite unsafe_first_marker in Hm.
  destruct (P_C20.union_needs_unsafe F traits d m fs Hd Hm) as [H1 [H2 [H3 _]]]. auto.
Qed.

Theorem R13_union_without_unsafe F d its :
  expand F d = Ok its -> invalid_union_without_unsafe F d = false.
Proof.
  intros H. unfold invalid_union_without_unsafe, is_union.
  destruct (d_data d) as [fs|vs|fs] eqn:Hd; [reflexivity|reflexivity|]. cbn [andb].
  destruct (expand_run_facts _ _ _ H) as [traits [_ [Hh _]]].
  apply existsb_false. intros t Hin.
  destruct (type_meta F t d) as [m|] eqn:Hm; [|reflexivity].
  destruct (unsafe_first m) eqn:Hu; [reflexivity|]. exfalso.
  destruct (union_handlers_need_unsafe F traits d m fs Hd Hu) as [H1 [H2 H3]].
  cbn in Hin. destruct Hin as [<-|[<-|[<-|[]]]].
  - destruct (Hh TDebug Expand_Debug.expand_debug m ltac:(in_handlers) Hm) as [l Hl]. exact (H1 l Hl).
  - destruct (Hh TPartialEq expand_partial_eq m ltac:(in_handlers) Hm) as [l Hl]. exact (H2 l Hl).
  - destruct (Hh THash expand_hash m ltac:(in_handlers) Hm) as [l Hl]. exact (H3 l Hl).
Qed.

(** R14, per handler *)
Lemma union_unsupported_handlers F traits d fs :
  d_data d = DUnion fs ->
  (forall m, expand_ord F traits d m = Err E_no_union) /\
  (forall m, (has_trait TOrd F && has_trait TOrd traits) = false ->
             forall l, expand_partial_ord F traits d m <> Ok l) /\
  (forall m, expand_deref F traits d m = Err E_no_union) /\
  (forall m, expand_deref_mut F traits d m = Err E_no_union) /\
  (forall ms, expand_into F traits d ms = Err E_no_union).
Proof.
  intros Hd. repeat split.
  - intros m. unfold expand_ord. rewrite Hd. reflexivity.
  - intros m Hc l H. unfold expand_partial_ord in H. rewrite Hc, Hd in H. discriminate H.
  - intros m. unfold expand_deref, deref_analyse. rewrite Hd. reflexivity.
  - intros m. unfold expand_deref_mut, deref_analyse. rewrite Hd. reflexivity.
  - intros ms. unfold expand_into, into_analyse, into_results. rewrite Hd. reflexivity.
Qed.

Lemma educed_into_nonempty F d : educed F TInto d = true -> metas_of F TInto (type_metas d) <> [].
Proof.
  intros He. destruct (educed_type_meta _ _ _ He) as [m Hm]. unfold type_meta in Hm.
  destruct (metas_of F TInto (type_metas d)); [discriminate Hm|discriminate].
Qed.

Theorem R14_union_unsupported F d its :
  expand F d = Ok its -> invalid_union_unsupported F d = false.
Proof.
  intros H. unfold invalid_union_unsupported, is_union.
  destruct (d_data d) as [fs|vs|fs] eqn:Hd; [reflexivity|reflexivity|]. cbn [andb].
  destruct (expand_run_facts _ _ _ H) as [traits [Hag [Hh Hi]]].
  destruct (union_unsupported_handlers F traits d fs Hd) as [H1 [H2 [H3 [H4 H5]]]].
  apply existsb_false. intros t Hin. destruct (educed F t d) eqn:He; [|reflexivity]. exfalso.
  assert (Hord : educed F TOrd d = true -> False).
  { intros Eo. destruct (educed_type_meta _ _ _ Eo) as [m Hm].
    destruct (Hh TOrd expand_ord m ltac:(in_handlers) Hm) as [l Hl]. rewrite H1 in Hl. discriminate Hl. }
  cbn in Hin. destruct Hin as [<-|[<-|[<-|[<-|[<-|[]]]]]].
  - destruct (educed F TOrd d) eqn:Eo; [exact (Hord eq_refl)|].
    destruct (educed_type_meta _ _ _ He) as [m Hm].
    destruct (Hh TPartialOrd expand_partial_ord m ltac:(in_handlers) Hm) as [l Hl].
    apply (H2 m) in Hl; [exact Hl|]. rewrite (contains_educed _ _ _ _ Hag). exact Eo.
  - exact (Hord He).
  - destruct (educed_type_meta _ _ _ He) as [m Hm].
    destruct (Hh TDeref expand_deref m ltac:(in_handlers) Hm) as [l Hl]. rewrite H3 in Hl. discriminate Hl.
  - destruct (educed_type_meta _ _ _ He) as [m Hm].
    destruct (Hh TDerefMut expand_deref_mut m ltac:(in_handlers) Hm) as [l Hl]. rewrite H4 in Hl. discriminate Hl.
  - destruct (Hi (educed_into_nonempty _ _ He)) as [l Hl]. rewrite H5 in Hl. discriminate Hl.
Qed.

(** R15, per handler *)
Lemma mapM_In_ok {A B} (f : A -> outcome B) l r x :
  mapM f l = Ok r -> In x l -> exists y, f x = Ok y.
Proof. intros H Hin. destruct (mapM_In _ _ _ _ H Hin) as [y [Hy _]]. eauto. Qed.

Lemma deref_unit_variant F own traits d m v :
  In v (d_variants d) -> is_unit_variant v = true ->
  forall p, deref_analyse F own traits d m <> Ok p.
Proof.
  intros Hin Hu p H. unfold deref_analyse in H. unfold d_variants in Hin.
  destruct (d_data d) as [fs|vs|fs]; [destruct Hin| |destruct Hin].
  inv_bind H. inv_bind H. destruct (mapM_In_ok _ _ _ _ Hb0 Hin) as [y Hy].
  unfold deref_variant in Hy. inv_bind Hy. unfold is_unit_variant in Hu.
  destruct (v_fields v); try discriminate Hu. discriminate Hy.
Qed.

Lemma into_type_meta_length et acc m acc' :
  into_type_meta et acc m = Ok acc' -> List.length acc' = S (List.length acc).
Proof.
  unfold into_type_meta. destruct m; try discriminate. destruct (negb et); [discriminate|].
  intros H. inv_bind H. destruct a as [ty ms']. inv_bind H. destruct a as [u b].
  destruct (ty_mem (hash_type ty) acc); [discriminate H|]. inversion H; subst.
  rewrite app_length. cbn. lia.
Qed.

Lemma into_build_type_length et ms : forall acc targets,
  foldM (into_type_meta et) acc ms = Ok targets ->
  List.length targets = List.length acc + List.length ms.
Proof.
  induction ms as [|m r IH]; intros acc targets H.
  - inversion H; subst. cbn. lia.
  - cbn [foldM] in H. inv_bind H. rewrite (IH _ _ H), (into_type_meta_length _ _ _ _ Hb). cbn. lia.
Qed.

Lemma into_build_type_nonempty ms targets :
  into_build_type true ms = Ok targets -> ms <> [] -> targets <> [].
Proof.
  intros H Hne. apply into_build_type_length in H. destruct ms; [congruence|].
  destruct targets; [discriminate H|discriminate].
Qed.

Lemma into_unit_variant F traits d ms v :
  In v (d_variants d) -> is_unit_variant v = true -> ms <> [] ->
  forall l, expand_into F traits d ms <> Ok l.
Proof.
  intros Hin Hu Hne l H. unfold expand_into in H. inv_bind H. clear H.
  unfold into_analyse in Hb. inv_bind Hb. unfold into_results in Hb0. unfold d_variants in Hin.
  destruct (d_data d) as [fs|vs|fs]; [destruct Hin| |destruct Hin].
  inv_bind Hb0. inv_bind Hb0. inversion Hb0; subst a0. clear Hb0.
  pose proof (into_build_type_nonempty _ _ Hb1 Hne) as Hnt.
  destruct a1 as [|t ts]; [congruence|]. cbn [map mapM] in Hb. inv_bind Hb. clear Hb.
  unfold into_enum_target in Hb0. inv_bind Hb0. clear Hb0.
  (* the analysed variants keep the variants *)
  assert (Hx : exists fl, In (v, fl) a2).
  { destruct (mapM_In _ _ _ _ Hb2 Hin) as [y [Hy Hiy]]. inv_bind Hy. inv_bind Hy.
    inversion Hy; subst y. eauto. }
  destruct Hx as [fl Hfl]. destruct (mapM_In_ok _ _ _ _ Hb Hfl) as [y Hy].
  unfold into_variant_choice in Hy. cbn [fst] in Hy. unfold is_unit_variant in Hu.
  destruct (v_fields v); try discriminate Hu. discriminate Hy.
Qed.

Theorem R15_unit_variant F d its :
  expand F d = Ok its -> invalid_unit_variant F d = false.
Proof.
  intros H. unfold invalid_unit_variant.
  destruct (existsb is_unit_variant (d_variants d)) eqn:Hex; [|reflexivity]. cbn [andb].
  apply existsb_exists in Hex. destruct Hex as [v [Hin Hu]].
  destruct (expand_run_facts _ _ _ H) as [traits [Hag [Hh Hi]]].
  apply existsb_false. intros t Ht. destruct (educed F t d) eqn:He; [|reflexivity]. exfalso.
  cbn in Ht. destruct Ht as [<-|[<-|[<-|[]]]].
  - destruct (educed_type_meta _ _ _ He) as [m Hm].
    destruct (Hh TDeref expand_deref m ltac:(in_handlers) Hm) as [l Hl]. unfold expand_deref in Hl.
    inv_bind Hl. exact (deref_unit_variant _ _ _ _ _ _ Hin Hu _ Hb).
  - destruct (educed_type_meta _ _ _ He) as [m Hm].
    destruct (Hh TDerefMut expand_deref_mut m ltac:(in_handlers) Hm) as [l Hl]. unfold expand_deref_mut in Hl.
    inv_bind Hl. exact (deref_unit_variant _ _ _ _ _ _ Hin Hu _ Hb).
  - pose proof (educed_into_nonempty _ _ He) as Hne. destruct (Hi Hne) as [l Hl].
    exact (into_unit_variant _ _ _ _ _ Hin Hu Hne _ Hl).
Qed.
