(** C13 — which handler scans which element, and with which builder.

    For every handler: when it succeeds it has visited EVERY variant and EVERY field of the
    type, validated every educe item found there (known trait, educed on the type), found at
    most one item of its own trait(s) there, and built that item with the builder of that
    spot.  [acc_<handler> spot m] names the builder. *)
From Educe.Proofs Require Export P_C13.

Definition validated F traits (ms : list meta) : Prop :=
  Forall (fun m => exists t, meta_trait F m = Some t /\ has_trait t traits = true) ms.

(** one element: every item validated, every own item satisfies [P] *)
Definition item_ok F traits (own : trait -> bool) (P : meta -> Prop) (attrs : list attr) : Prop :=
  validated F traits (educe_metas attrs) /\
  (forall m, In m (educe_metas attrs) -> own_meta F own m = true -> P m).

(** at most one own item on the element *)
Definition item_uniq F (own : trait -> bool) (attrs : list attr) : Prop :=
  List.length (filter (own_meta F own) (educe_metas attrs)) <= 1.

Definition VQ F traits own (acc : spot -> meta -> Prop) (x : spot * list attr) : Prop :=
  item_ok F traits own (acc (fst x)) (snd x) /\ item_uniq F own (snd x).

Definition all_visited F traits own acc (d : dinput) : Prop :=
  Forall (VQ F traits own acc) (visited d).

Lemma scan_ok_item {A} F own (build : meta -> outcome A) traits attrs o (P : meta -> Prop) :
  scan_attrs F own build traits attrs = Ok o ->
  (forall m v, build m = Ok v -> P m) ->
  item_ok F traits own P attrs /\ item_uniq F own attrs.
Proof.
  intros H HP. apply scan_attrs_scanned in H. destruct H as [Hv Hown].
  unfold item_ok, item_uniq. split; [split; [exact Hv|]|].
  - intros m Hin Ho.
    assert (Hf : In m (filter (own_meta F own) (educe_metas attrs))) by (apply filter_In; split; assumption).
    destruct (filter (own_meta F own) (educe_metas attrs)) as [|m1 [|m2 r]]; [destruct Hf| |destruct Hown].
    destruct Hf as [<-|[]]. destruct Hown as [v [Hb _]]. exact (HP _ _ Hb).
  - destruct (filter (own_meta F own) (educe_metas attrs)) as [|m1 [|m2 r]]; cbn; [lia|lia|destruct Hown].
Qed.

(** the shape every attribute function of the handlers has *)
Lemma scan_bind_item {A B} F own (build : meta -> outcome A) traits attrs (k : option A -> outcome B) r
      (P : meta -> Prop) :
  (let* o := scan_attrs F own build traits attrs in k o) = Ok r ->
  (forall m v, build m = Ok v -> P m) ->
  item_ok F traits own P attrs /\ item_uniq F own attrs.
Proof. intros H HP. inv_bind H. exact (scan_ok_item _ _ _ _ _ _ _ Hb HP). Qed.

Lemma mapM_Forall {A B} (f : A -> outcome B) l r :
  mapM f l = Ok r -> Forall (fun x => exists y, f x = Ok y) l.
Proof.
  intros H. apply Forall_forall. intros x Hin. destruct (mapM_In _ _ _ _ H Hin) as [y [Hy _]]. eauto.
Qed.

Lemma foldM_Forall {A S} (f : S -> A -> outcome S) l s s' :
  foldM f s l = Ok s' -> Forall (fun x => exists s1 s2, f s1 x = Ok s2) l.
Proof.
  revert s. induction l as [|x r IH]; intros s H; [constructor|].
  cbn [foldM] in H. inv_bind H. constructor; [eauto|exact (IH _ H)].
Qed.

Lemma map_snd_index_from {A} i (l : list A) : map snd (index_from i l) = l.
Proof. revert i. induction l as [|x r IH]; intros i; [reflexivity|]. cbn. f_equal. apply IH. Qed.

Lemma Forall_indexed {A} (Q : A -> Prop) (l : list A) :
  Forall (fun x => Q (snd x)) (indexed l) -> Forall Q l.
Proof.
  intros H. rewrite <- (map_snd_index_from 0 l). apply Forall_map. exact H.
Qed.

Lemma fields_visited (Q : spot * list attr -> Prop) pl (fs : list field) :
  Forall (fun f => Q (pl, f_attrs f)) fs -> Forall Q (map (fun f => (pl, f_attrs f)) fs).
Proof. intros H. apply Forall_map. exact H. Qed.

Lemma variants_visited (Q : spot * list attr -> Prop) (vs : list variant) :
  Forall (fun v => Q (PlVariant, v_attrs v) /\
                   Forall (fun f => Q (PlField, f_attrs f)) (fields_list (v_fields v))) vs ->
  Forall Q (flat_map (fun v => (PlVariant, v_attrs v)
                               :: map (fun f => (PlField, f_attrs f)) (fields_list (v_fields v))) vs).
Proof.
  intros H. induction H as [|v vs [Hv Hf] _ IH]; [constructor|].
  cbn [flat_map]. apply Forall_app. split; [|exact IH].
  constructor; [exact Hv|]. apply fields_visited. exact Hf.
Qed.

Lemma Forall_impl2 {A} (P Q : A -> Prop) l : Forall P l -> (forall x, P x -> Q x) -> Forall Q l.
Proof. intros H HI. eapply Forall_impl; [exact HI|exact H]. Qed.

(** the builder every "plain" trait uses on a variant *)
Definition variant_tattr (m : meta) : Prop := exists x, build_tattr false false false m = Ok x.

(** * PartialEq (and Eq next to it) *)
Definition acc_peq (pl : spot) (m : meta) : Prop :=
  match pl with
  | PlVariant => variant_tattr m
  | PlField => exists x, build_fattr true true m = Ok x
  | PlUnionField => exists x, build_fattr false false m = Ok x
  end.

Lemma peq_field_item F traits ei em attrs fa :
  peq_field_attr F traits ei em attrs = Ok fa ->
  VQ F traits (own_partial_eq traits) (fun _ m => exists x, build_fattr ei em m = Ok x) (PlField, attrs).
Proof. intros H. unfold peq_field_attr in H. eapply scan_bind_item; [exact H|]. intros; eauto. Qed.

Lemma peq_fields_items F traits fs l :
  field_attrs F traits fs = Ok l ->
  Forall (fun f => VQ F traits (own_partial_eq traits) acc_peq (PlField, f_attrs f)) fs.
Proof.
  intros H. apply mapM_Forall in H. eapply Forall_impl2; [exact H|].
  intros f [y Hy]. inv_bind Hy. exact (peq_field_item _ _ _ _ _ _ Hb).
Qed.

Theorem peq_visits F traits d m its :
  expand_partial_eq F traits d m = Ok its -> all_visited F traits (own_partial_eq traits) acc_peq d.
Proof.
  intros H. unfold expand_partial_eq in H. unfold all_visited, visited.
  destruct (d_data d) as [fs|vs|fs].
  - inv_bind H. inv_bind H. apply fields_visited. exact (peq_fields_items _ _ _ _ Hb0).
  - inv_bind H. inv_bind H. apply variants_visited. apply mapM_Forall in Hb0.
    eapply Forall_impl2; [exact Hb0|]. intros v [y Hy]. unfold peq_variant in Hy. inv_bind Hy.
    split.
    + unfold peq_type_attr in Hb1. eapply scan_bind_item; [exact Hb1|]. intros; cbn; unfold variant_tattr; eauto.
    + destruct (v_fields v) as [l|l|]; cbn [fields_list].
      * inv_bind Hy. exact (peq_fields_items _ _ _ _ Hb2).
      * inv_bind Hy. exact (peq_fields_items _ _ _ _ Hb2).
      * constructor.
  - inv_bind H. destruct (negb (ta_unsafe a)); [discriminate H|]. inv_bind H.
    apply fields_visited. apply mapM_Forall in Hb0. eapply Forall_impl2; [exact Hb0|].
    intros f [y Hy]. exact (peq_field_item _ _ _ _ _ _ Hy).
Qed.

(** * Hash *)
Lemma hash_field_item F traits ei em attrs fa :
  hash_field_attr F traits ei em attrs = Ok fa ->
  VQ F traits (trait_eqb THash) (fun _ m => exists x, build_fattr ei em m = Ok x) (PlField, attrs).
Proof. intros H. unfold hash_field_attr in H. eapply scan_bind_item; [exact H|]. intros; eauto. Qed.

Lemma hash_fields_items F traits fs l :
  hash_field_attrs F traits fs = Ok l ->
  Forall (fun f => VQ F traits (trait_eqb THash) acc_peq (PlField, f_attrs f)) fs.
Proof.
  intros H. apply mapM_Forall in H. eapply Forall_impl2; [exact H|].
  intros f [y Hy]. inv_bind Hy. exact (hash_field_item _ _ _ _ _ _ Hb).
Qed.

Theorem hash_visits F traits d m its :
  expand_hash F traits d m = Ok its -> all_visited F traits (trait_eqb THash) acc_peq d.
Proof.
  intros H. unfold expand_hash in H. unfold all_visited, visited.
  destruct (d_data d) as [fs|vs|fs].
  - inv_bind H. inv_bind H. apply fields_visited. exact (hash_fields_items _ _ _ _ Hb0).
  - inv_bind H. inv_bind H. apply variants_visited. apply mapM_Forall in Hb0.
    apply (Forall_indexed (fun v => VQ F traits (trait_eqb THash) acc_peq (PlVariant, v_attrs v) /\
             Forall (fun f => VQ F traits (trait_eqb THash) acc_peq (PlField, f_attrs f))
                    (fields_list (v_fields v)))).
    eapply Forall_impl2; [exact Hb0|]. intros [i v] [y Hy]. cbn [snd]. unfold hash_variant in Hy.
    inv_bind Hy. inv_bind Hy. split.
    + unfold hash_type_attr in Hb1. eapply scan_bind_item; [exact Hb1|]. intros; cbn; unfold variant_tattr; eauto.
    + exact (hash_fields_items _ _ _ _ Hb2).
  - inv_bind H. destruct (negb (ta_unsafe a)); [discriminate H|]. inv_bind H.
    apply fields_visited. apply mapM_Forall in Hb0. eapply Forall_impl2; [exact Hb0|].
    intros f [y Hy]. exact (hash_field_item _ _ _ _ _ _ Hy).
Qed.

(** * Clone *)
Definition acc_clone (pl : spot) (m : meta) : Prop :=
  match pl with
  | PlVariant => variant_tattr m
  | PlField => exists em x, build_fattr false em m = Ok x
  | PlUnionField => exists x, build_fattr false false m = Ok x
  end.

Lemma clone_field_item F traits em attrs r :
  clone_field_attr F traits em attrs = Ok r ->
  VQ F traits (trait_eqb TClone) (fun _ m => exists x, build_fattr false em m = Ok x) (PlField, attrs).
Proof. intros H. unfold clone_field_attr in H. eapply scan_bind_item; [exact H|]. intros; eauto. Qed.

Lemma clone_fields_items F traits em pl fs l :
  clone_field_attrs F traits em fs = Ok l ->
  Forall (fun f => VQ F traits (trait_eqb TClone)
                      (fun _ m => exists x, build_fattr false em m = Ok x) (pl, f_attrs f)) fs.
Proof.
  intros H. apply mapM_Forall in H. eapply Forall_impl2; [exact H|].
  intros f [y Hy]. inv_bind Hy. exact (clone_field_item _ _ _ _ _ Hb).
Qed.

Theorem clone_visits F traits d m its :
  expand_clone F traits d m = Ok its -> all_visited F traits (trait_eqb TClone) acc_clone d.
Proof.
  intros H. unfold expand_clone in H. unfold all_visited, visited. inv_bind H.
  destruct (d_data d) as [fs|vs|fs].
  - inv_bind H. apply fields_visited.
    eapply Forall_impl2; [exact (clone_fields_items _ _ _ PlField _ _ Hb0)|].
    intros f [[Hv Ho] Hu]. split; [split; [exact Hv|]|exact Hu].
    intros m' Hi Hm. destruct (Ho m' Hi Hm) as [x Hx]. cbn. eauto.
  - inv_bind H. apply variants_visited. apply mapM_Forall in Hb0.
    eapply Forall_impl2; [exact Hb0|]. intros v [y Hy]. unfold clone_variant in Hy. inv_bind Hy. inv_bind Hy.
    split.
    + unfold clone_variant_attr in Hb1. eapply scan_bind_item; [exact Hb1|]. intros; cbn; unfold variant_tattr; eauto.
    + eapply Forall_impl2; [exact (clone_fields_items _ _ _ PlField _ _ Hb2)|].
      intros f [[Hv Ho] Hu]. split; [split; [exact Hv|]|exact Hu].
      intros m' Hi Hm. destruct (Ho m' Hi Hm) as [x Hx]. cbn. eauto.
  - inv_bind H. apply fields_visited. exact (clone_fields_items _ _ _ PlUnionField _ _ Hb0).
Qed.

(** * stand-alone Copy / Eq (no Clone / PartialEq educed) *)
Definition acc_marker (pl : spot) (m : meta) : Prop :=
  match pl with PlVariant => variant_tattr m | _ => False end.

Lemma marker_fields_items F own traits pl fs (l : list toks) :
  mapM (fun f => let* _ := marker_field_attr F own traits (f_attrs f) in Ok (f_ty f)) fs = Ok l ->
  Forall (fun f => VQ F traits (trait_eqb own) (fun _ _ => False) (pl, f_attrs f)) fs.
Proof.
  intros H. apply mapM_Forall in H. eapply Forall_impl2; [exact H|].
  intros f [y Hy]. inv_bind Hy. unfold marker_field_attr in Hb.
  eapply scan_bind_item; [exact Hb|]. intros m0 v Hv. discriminate Hv.
Qed.

Lemma marker_visits F own traits d tys :
  all_field_types F own traits (d_data d) = Ok tys -> all_visited F traits (trait_eqb own) acc_marker d.
Proof.
  intros H. unfold all_field_types in H. unfold all_visited, visited.
  destruct (d_data d) as [fs|vs|fs].
  - apply fields_visited. exact (marker_fields_items _ _ _ PlField _ _ H).
  - inv_bind H. apply variants_visited. apply mapM_Forall in Hb.
    eapply Forall_impl2; [exact Hb|]. intros v [y Hy]. inv_bind Hy. split.
    + unfold marker_variant_attr in Hb0. eapply scan_bind_item; [exact Hb0|]. intros; cbn; unfold variant_tattr; eauto.
    + exact (marker_fields_items _ _ _ PlField _ _ Hy).
  - apply fields_visited. exact (marker_fields_items _ _ _ PlUnionField _ _ H).
Qed.

Theorem copy_visits F traits d m its :
  (has_trait TClone F && has_trait TClone traits) = false ->
  expand_copy F traits d m = Ok its -> all_visited F traits (trait_eqb TCopy) acc_marker d.
Proof.
  intros Hc H. unfold expand_copy in H. rewrite Hc in H. inv_bind H. inv_bind H.
  exact (marker_visits _ _ _ _ _ Hb0).
Qed.

Theorem eq_visits F traits d m its :
  (has_trait TPartialEq F && has_trait TPartialEq traits) = false ->
  expand_eq F traits d m = Ok its -> all_visited F traits (trait_eqb TEq) acc_marker d.
Proof.
  intros Hc H. unfold expand_eq in H. rewrite Hc in H. inv_bind H. inv_bind H.
  exact (marker_visits _ _ _ _ _ Hb0).
Qed.

(** * Ord and PartialOrd *)
Definition acc_ord (pl : spot) (m : meta) : Prop :=
  match pl with
  | PlVariant => variant_tattr m
  | PlField => exists r x, build_ofattr true true true r m = Ok x
  | PlUnionField => False
  end.

Lemma plan_fields_items F own traits fs p :
  plan_fields F own traits fs = Ok p ->
  Forall (fun f => VQ F traits own acc_ord (PlField, f_attrs f)) fs.
Proof.
  intros H. unfold plan_fields in H. apply foldM_Forall in H.
  apply (Forall_indexed (fun f => VQ F traits own acc_ord (PlField, f_attrs f))).
  eapply Forall_impl2; [exact H|]. intros [i f] [s1 [s2 Hs]]. cbn [snd]. unfold plan_field in Hs.
  inv_bind Hs. unfold ord_field_attr in Hb. eapply scan_bind_item; [exact Hb|]. intros; cbn; eauto.
Qed.

Lemma plan_variants_items F own traits vs vps :
  mapM (plan_variant F own traits) vs = Ok vps ->
  Forall (fun v => VQ F traits own acc_ord (PlVariant, v_attrs v) /\
                   Forall (fun f => VQ F traits own acc_ord (PlField, f_attrs f))
                          (fields_list (v_fields v))) vs.
Proof.
  intros H. apply mapM_Forall in H. eapply Forall_impl2; [exact H|].
  intros v [y Hy]. unfold plan_variant in Hy. inv_bind Hy. split.
  - unfold ord_variant_attr in Hb. eapply scan_bind_item; [exact Hb|]. intros; cbn; unfold variant_tattr; eauto.
  - destruct (v_fields v) as [l|l|]; cbn [fields_list].
    + inv_bind Hy. exact (plan_fields_items _ _ _ _ _ Hb0).
    + inv_bind Hy. exact (plan_fields_items _ _ _ _ _ Hb0).
    + constructor.
Qed.

Theorem ord_visits F traits d m its :
  expand_ord F traits d m = Ok its -> all_visited F traits (own_ord F traits) acc_ord d.
Proof.
  intros H. unfold expand_ord in H. unfold all_visited, visited.
  destruct (d_data d) as [fs|vs|fs]; [| |discriminate H].
  - inv_bind H. inv_bind H. apply fields_visited. exact (plan_fields_items _ _ _ _ _ Hb0).
  - inv_bind H. inv_bind H. inv_bind H. apply variants_visited. exact (plan_variants_items _ _ _ _ _ Hb1).
Qed.

Theorem partial_ord_visits F traits d m its :
  (has_trait TOrd F && has_trait TOrd traits) = false ->
  expand_partial_ord F traits d m = Ok its -> all_visited F traits (trait_eqb TPartialOrd) acc_ord d.
Proof.
  intros Hc H. unfold expand_partial_ord in H. rewrite Hc in H. unfold all_visited, visited.
  destruct (d_data d) as [fs|vs|fs]; [| |discriminate H].
  - inv_bind H. inv_bind H. apply fields_visited. exact (plan_fields_items _ _ _ _ _ Hb0).
  - inv_bind H. inv_bind H. inv_bind H. apply variants_visited. exact (plan_variants_items _ _ _ _ _ Hb1).
Qed.

(** * Debug *)
Definition debug_variant_builder (named : bool) : Expand_Debug.dtbuilder :=
  {| Expand_Debug.tb_flag := false; Expand_Debug.tb_unsafe := false; Expand_Debug.tb_name := true;
     Expand_Debug.tb_named_field := true; Expand_Debug.tb_bound := false;
     Expand_Debug.tb_name0 := Expand_Debug.TNDefault; Expand_Debug.tb_named_field0 := named |}.

Definition acc_debug (pl : spot) (m : meta) : Prop :=
  match pl with
  | PlVariant => exists named x, Expand_Debug.build_dtattr (debug_variant_builder named) m = Ok x
  | PlField => exists en x, Expand_Debug.build_dfattr en true true m = Ok x
  | PlUnionField => exists x, Expand_Debug.build_dfattr false false false m = Ok x
  end.

Lemma debug_field_item F traits a b c attrs fa :
  Expand_Debug.debug_field_attr F traits a b c attrs = Ok fa ->
  VQ F traits (trait_eqb TDebug) (fun _ m => exists x, Expand_Debug.build_dfattr a b c m = Ok x) (PlField, attrs).
Proof.
  intros H. unfold Expand_Debug.debug_field_attr in H. eapply scan_bind_item; [exact H|]. intros; eauto.
Qed.

Lemma debug_fields_items F traits en fs l :
  Expand_Debug.debug_field_attrs F traits en fs = Ok l ->
  Forall (fun f => VQ F traits (trait_eqb TDebug) acc_debug (PlField, f_attrs f)) fs.
Proof.
  intros H. unfold Expand_Debug.debug_field_attrs in H. inv_bind H. apply mapM_Forall in Hb.
  eapply Forall_impl2; [exact Hb|]. intros f [y Hy]. inv_bind Hy.
  destruct (debug_field_item _ _ _ _ _ _ _ Hb0) as [[Hv Ho] Hu].
  split; [split; [exact Hv|]|exact Hu]. intros m' Hi Hm. destruct (Ho m' Hi Hm) as [x Hx]. cbn. eauto.
Qed.

Theorem debug_visits F traits d m its :
  Expand_Debug.expand_debug F traits d m = Ok its -> all_visited F traits (trait_eqb TDebug) acc_debug d.
Proof.
  intros H. unfold Expand_Debug.expand_debug in H. unfold all_visited, visited.
  destruct (d_data d) as [fs|vs|fs].
  - inv_bind H. inv_bind H. apply fields_visited. exact (debug_fields_items _ _ _ _ _ Hb0).
  - inv_bind H. inv_bind H. apply variants_visited. apply mapM_Forall in Hb0.
    eapply Forall_impl2; [exact Hb0|]. intros v [y Hy]. unfold Expand_Debug.debug_variant in Hy.
    inv_bind Hy. split.
    + unfold Expand_Debug.debug_variant_attr in Hb1. eapply scan_bind_item; [exact Hb1|].
      intros m0 x Hx. cbn. eexists; eexists. exact Hx.
    + destruct (v_fields v) as [l|l|]; cbn [fields_list].
      * inv_bind Hy. exact (debug_fields_items _ _ _ _ _ Hb2).
      * inv_bind Hy. exact (debug_fields_items _ _ _ _ _ Hb2).
      * constructor.
  - inv_bind H. destruct (negb (Expand_Debug.dt_unsafe a)); [discriminate H|]. inv_bind H.
    apply fields_visited. apply mapM_Forall in Hb0. eapply Forall_impl2; [exact Hb0|].
    intros f [y Hy]. exact (debug_field_item _ _ _ _ _ _ _ Hy).
Qed.

(** * Deref / DerefMut *)
Definition acc_deref (pl : spot) (m : meta) : Prop :=
  match pl with
  | PlVariant => exists x, deref_build false m = Ok x
  | _ => exists x, deref_build true m = Ok x
  end.

Lemma deref_flag_item F own traits pl attrs b :
  deref_field_flag F own traits attrs = Ok b ->
  VQ F traits (trait_eqb own) (fun _ m => exists x, deref_build true m = Ok x) (pl, attrs).
Proof. intros H. unfold deref_field_flag in H. eapply scan_bind_item; [exact H|]. intros; eauto. Qed.

Lemma deref_select_items F own traits fs x :
  deref_select F own traits fs = Ok x ->
  Forall (fun f => VQ F traits (trait_eqb own) acc_deref (PlField, f_attrs f)) fs.
Proof.
  intros H. unfold deref_select in H.
  assert (Hgen : forall o, foldM (deref_pick F own traits) None (indexed fs) = Ok o ->
                 Forall (fun f => VQ F traits (trait_eqb own) acc_deref (PlField, f_attrs f)) fs).
  { intros o Ho. apply foldM_Forall in Ho.
    apply (Forall_indexed (fun f => VQ F traits (trait_eqb own) acc_deref (PlField, f_attrs f))).
    eapply Forall_impl2; [exact Ho|]. intros [i f] [s1 [s2 Hs]]. cbn [snd]. unfold deref_pick in Hs.
    inv_bind Hs. exact (deref_flag_item _ _ _ PlField _ _ Hb). }
  destruct fs as [|f [|f2 r]].
  - constructor.
  - inv_bind H. constructor; [|constructor]. exact (deref_flag_item _ _ _ PlField _ _ Hb).
  - inv_bind H. exact (Hgen _ Hb).
Qed.

Theorem deref_analyse_visits F own traits d m p :
  deref_analyse F own traits d m = Ok p -> all_visited F traits (trait_eqb own) acc_deref d.
Proof.
  intros H. unfold deref_analyse in H. unfold all_visited, visited.
  destruct (d_data d) as [fs|vs|fs]; [| |discriminate H].
  - inv_bind H. inv_bind H. apply fields_visited. exact (deref_select_items _ _ _ _ _ Hb0).
  - inv_bind H. inv_bind H. apply variants_visited. apply mapM_Forall in Hb0.
    eapply Forall_impl2; [exact Hb0|]. intros v [y Hy]. unfold deref_variant in Hy. inv_bind Hy. split.
    + unfold deref_variant_attr in Hb1. eapply scan_bind_item; [exact Hb1|]. intros; cbn; eauto.
    + destruct (v_fields v) as [l|l|]; cbn [fields_list]; [| |constructor].
      * inv_bind Hy. exact (deref_select_items _ _ _ _ _ Hb2).
      * inv_bind Hy. exact (deref_select_items _ _ _ _ _ Hb2).
Qed.

Theorem deref_visits F traits d m its :
  expand_deref F traits d m = Ok its -> all_visited F traits (trait_eqb TDeref) acc_deref d.
Proof. intros H. unfold expand_deref in H. inv_bind H. exact (deref_analyse_visits _ _ _ _ _ _ Hb). Qed.

Theorem deref_mut_visits F traits d m its :
  expand_deref_mut F traits d m = Ok its -> all_visited F traits (trait_eqb TDerefMut) acc_deref d.
Proof. intros H. unfold expand_deref_mut in H. inv_bind H. exact (deref_analyse_visits _ _ _ _ _ _ Hb). Qed.

(** * Default *)
Definition acc_default (pl : spot) (m : meta) : Prop :=
  match pl with
  | PlVariant => exists ef x, Expand_Default.build_dtattr ef false false false m = Ok x
  | _ => exists ef ee ty x, Expand_Default.build_dfattr ef ee ty m = Ok x
  end.

Lemma default_field_item F traits ef ee pl f fa :
  Expand_Default.default_field_attr F traits ef ee f = Ok fa ->
  VQ F traits (trait_eqb TDefault)
     (fun _ m => exists x, Expand_Default.build_dfattr ef ee (f_ty f) m = Ok x) (pl, f_attrs f).
Proof.
  intros H. unfold Expand_Default.default_field_attr in H. eapply scan_bind_item; [exact H|]. intros; eauto.
Qed.

Lemma default_field_item' F traits ef ee pl f fa :
  match pl with PlVariant => False | _ => True end ->
  Expand_Default.default_field_attr F traits ef ee f = Ok fa ->
  VQ F traits (trait_eqb TDefault) acc_default (pl, f_attrs f).
Proof.
  intros Hpl H. destruct (default_field_item _ _ _ _ pl _ _ H) as [[Hv Ho] Hu].
  split; [split; [exact Hv|]|exact Hu]. intros m' Hi Hm. destruct (Ho m' Hi Hm) as [x Hx].
  destruct pl; [destruct Hpl| |]; cbn; eauto.
Qed.

Lemma default_variant_item F traits ef attrs ta :
  Expand_Default.default_variant_attr F traits ef attrs = Ok ta ->
  VQ F traits (trait_eqb TDefault) acc_default (PlVariant, attrs).
Proof.
  intros H. unfold Expand_Default.default_variant_attr in H. eapply scan_bind_item; [exact H|].
  intros; cbn; eauto.
Qed.

Lemma ensure_no_attribute_items F traits pl fs u :
  match pl with PlVariant => False | _ => True end ->
  Expand_Default.ensure_no_attribute F traits fs = Ok u ->
  Forall (fun f => VQ F traits (trait_eqb TDefault) acc_default (pl, f_attrs f)) fs.
Proof.
  intros Hpl H. unfold Expand_Default.ensure_no_attribute in H. inv_bind H. apply mapM_Forall in Hb.
  eapply Forall_impl2; [exact Hb|]. intros f [y Hy]. exact (default_field_item' _ _ _ _ _ _ _ Hpl Hy).
Qed.

Lemma default_fields_body_items F traits p fs b :
  Expand_Default.default_fields_body F traits p fs = Ok b ->
  Forall (fun f => VQ F traits (trait_eqb TDefault) acc_default (PlField, f_attrs f)) (fields_list fs).
Proof.
  intros H. unfold Expand_Default.default_fields_body in H.
  destruct fs as [l|l|]; cbn [fields_list]; [| |constructor].
  - inv_bind H. apply mapM_Forall in Hb. eapply Forall_impl2; [exact Hb|]. intros f [y Hy].
    inv_bind Hy. unfold Expand_Default.default_field_value in Hb0. inv_bind Hb0.
    exact (default_field_item' _ _ _ _ PlField _ _ Logic.I Hb1).
  - inv_bind H. apply mapM_Forall in Hb. eapply Forall_impl2; [exact Hb|]. intros f [y Hy].
    unfold Expand_Default.default_field_value in Hy. inv_bind Hy.
    exact (default_field_item' _ _ _ _ PlField _ _ Logic.I Hb0).
Qed.

Definition variant_visited F traits (v : variant) : Prop :=
  VQ F traits (trait_eqb TDefault) acc_default (PlVariant, v_attrs v) /\
  Forall (fun f => VQ F traits (trait_eqb TDefault) acc_default (PlField, f_attrs f))
         (fields_list (v_fields v)).

Lemma select_variant_items F traits vs v b :
  Expand_Default.select_variant F traits vs = Ok v ->
  Expand_Default.default_fields_body F traits (RSelfV (v_name v)) (v_fields v) = Ok b ->
  Forall (variant_visited F traits) vs.
Proof.
  intros H Hbody. unfold Expand_Default.select_variant in H.
  assert (Hgen : forall o, foldM (Expand_Default.select_variant_step F traits) None vs = Ok o ->
            Forall (fun w => VQ F traits (trait_eqb TDefault) acc_default (PlVariant, v_attrs w) /\
                             (o = Some w \/
                              Forall (fun f => VQ F traits (trait_eqb TDefault) acc_default (PlField, f_attrs f))
                                     (fields_list (v_fields w)))) vs).
  { intros o Ho.
    apply (foldM_hist (Expand_Default.select_variant_step F traits)
             (fun o l => Forall (fun w => VQ F traits (trait_eqb TDefault) acc_default (PlVariant, v_attrs w) /\
                             (o = Some w \/
                              Forall (fun f => VQ F traits (trait_eqb TDefault) acc_default (PlField, f_attrs f))
                                     (fields_list (v_fields w)))) l)) with (l1 := []) (s := None) in Ho.
    - exact Ho.
    - clear. intros s l x s' Hq Hs. unfold Expand_Default.select_variant_step in Hs. inv_bind Hs.
      apply default_variant_item in Hb. apply Forall_app.
      destruct (Expand_Default.dt_flag a).
      + destruct s as [w|]; [discriminate Hs|]. inversion Hs; subst s'. split.
        * eapply Forall_impl2; [exact Hq|]. intros w [H1 [H2|H2]]; [discriminate H2|]. split; [exact H1|right; exact H2].
        * constructor; [|constructor]. split; [exact Hb|left; reflexivity].
      + inv_bind Hs. inversion Hs; subst s'. split; [exact Hq|].
        constructor; [|constructor]. split; [exact Hb|right].
        exact (ensure_no_attribute_items _ _ PlField _ _ Logic.I Hb0).
    - constructor. }
  assert (Hfin : forall o, foldM (Expand_Default.select_variant_step F traits) None vs = Ok o -> o = Some v ->
                           Forall (variant_visited F traits) vs).
  { intros o Ho Hov. eapply Forall_impl2; [exact (Hgen o Ho)|]. intros w [H1 [H2|H2]].
    - rewrite Hov in H2. inversion H2; subst w. split; [exact H1|].
      exact (default_fields_body_items _ _ _ _ _ Hbody).
    - split; assumption. }
  destruct vs as [|w [|w2 r]].
  - constructor.
  - inv_bind H. inversion H; subst w. constructor; [|constructor]. split.
    + exact (default_variant_item _ _ _ _ _ Hb).
    + exact (default_fields_body_items _ _ _ _ _ Hbody).
  - inv_bind H. destruct a as [v'|]; [|discriminate H]. inversion H; subst v'. exact (Hfin _ Hb eq_refl).
Qed.

Lemma select_field_items F traits fs x :
  Expand_Default.select_field F traits fs = Ok x ->
  Forall (fun f => VQ F traits (trait_eqb TDefault) acc_default (PlUnionField, f_attrs f)) fs.
Proof.
  intros H. unfold Expand_Default.select_field in H.
  assert (Hgen : forall o, foldM (Expand_Default.select_field_step F traits) None fs = Ok o ->
            Forall (fun f => VQ F traits (trait_eqb TDefault) acc_default (PlUnionField, f_attrs f)) fs).
  { intros o Ho. apply foldM_Forall in Ho. eapply Forall_impl2; [exact Ho|].
    intros f [s1 [s2 Hs]]. unfold Expand_Default.select_field_step in Hs. inv_bind Hs.
    exact (default_field_item' _ _ _ _ PlUnionField _ _ Logic.I Hb). }
  destruct fs as [|f [|f2 r]].
  - constructor.
  - inv_bind H. constructor; [|constructor]. exact (default_field_item' _ _ _ _ PlUnionField _ _ Logic.I Hb).
  - inv_bind H. exact (Hgen _ Hb).
Qed.

Theorem default_visits F traits d m its :
  Expand_Default.expand_default F traits d m = Ok its ->
  all_visited F traits (trait_eqb TDefault) acc_default d.
Proof.
  intros H. unfold Expand_Default.expand_default in H. inv_bind H. clear H.
  unfold Expand_Default.default_plan in Hb. inv_bind Hb. inv_bind Hb. clear Hb.
  unfold all_visited, visited. destruct (d_data d) as [fs|vs|fs].
  - apply fields_visited. destruct (Expand_Default.dt_expr a0).
    + inv_bind Hb1. exact (ensure_no_attribute_items _ _ PlField _ _ Logic.I Hb).
    + exact (default_fields_body_items _ _ _ _ _ Hb1).
  - apply variants_visited. destruct (Expand_Default.dt_expr a0).
    + inv_bind Hb1. apply mapM_Forall in Hb. eapply Forall_impl2; [exact Hb|]. intros v [y Hy].
      inv_bind Hy. split; [exact (default_variant_item _ _ _ _ _ Hb2)|].
      exact (ensure_no_attribute_items _ _ PlField _ _ Logic.I Hy).
    + inv_bind Hb1. exact (select_variant_items _ _ _ _ _ Hb Hb1).
  - apply fields_visited. destruct (Expand_Default.dt_expr a0).
    + inv_bind Hb1. exact (ensure_no_attribute_items _ _ PlUnionField _ _ Logic.I Hb).
    + inv_bind Hb1. destruct a2 as [f fa]. exact (select_field_items _ _ _ _ Hb).
Qed.

(** * Into: every element is scanned by [into_collect]; every `Into` item of a field is built,
      any `Into` item on a variant is refused *)
Definition acc_into (pl : spot) (m : meta) : Prop :=
  match pl with
  | PlVariant => False
  | _ => exists a a', into_field_meta a m = Ok a'
  end.

Lemma foldM_In_step {A S} (f : S -> A -> outcome S) l s s' x :
  foldM f s l = Ok s' -> In x l -> exists s1 s2, f s1 x = Ok s2.
Proof.
  intros H Hin. apply foldM_Forall in H. rewrite Forall_forall in H. exact (H x Hin).
Qed.

Lemma own_meta_into F m : own_meta F (trait_eqb TInto) m = names F TInto m.
Proof. unfold own_meta, names. destruct (meta_trait F m); [apply trait_eqb_sym|reflexivity]. Qed.

Lemma into_field_item F traits targets pl f x :
  match pl with PlVariant => False | _ => True end ->
  into_field_attr F traits targets f = Ok x ->
  item_ok F traits (trait_eqb TInto) (acc_into pl) (f_attrs f).
Proof.
  intros Hpl H. unfold into_field_attr in H. inv_bind H. inv_bind H.
  apply into_collect_scanned in Hb. destruct Hb as [Hv Hms]. split; [exact Hv|].
  intros m Hi Hm. rewrite own_meta_into in Hm.
  assert (Hin : In m a).
  { rewrite Hms. unfold metas_of. apply filter_In. split; assumption. }
  destruct (foldM_In_step _ _ _ _ _ Hb0 Hin) as [s1 [s2 Hs]].
  destruct pl; [destruct Hpl| |]; cbn; eauto.
Qed.

Lemma into_variant_item F traits attrs u :
  into_variant_attr F traits attrs = Ok u ->
  item_ok F traits (trait_eqb TInto) (acc_into PlVariant) attrs.
Proof.
  intros H. unfold into_variant_attr in H. inv_bind H.
  apply into_collect_scanned in Hb. destruct Hb as [Hv Hms]. split; [exact Hv|].
  intros m Hi Hm. rewrite own_meta_into in Hm.
  assert (Hin : In m a).
  { rewrite Hms. unfold metas_of. apply filter_In. split; assumption. }
  destruct a as [|m0 r]; [destruct Hin|]. cbn [is_nil] in H. inv_bind H.
  unfold into_build_type in Hb. cbn [foldM] in Hb. inv_bind Hb.
  unfold into_type_meta in Hb0. destruct m0; discriminate Hb0.
Qed.

Definition all_visited_into F traits (d : dinput) : Prop :=
  Forall (fun x => item_ok F traits (trait_eqb TInto) (acc_into (fst x)) (snd x)) (visited d).

Theorem into_visits F traits d ms its :
  expand_into F traits d ms = Ok its -> all_visited_into F traits d.
Proof.
  intros H. unfold expand_into in H. inv_bind H. clear H. unfold into_analyse in Hb. inv_bind Hb. clear Hb.
  unfold into_results in Hb0. unfold all_visited_into, visited.
  destruct (d_data d) as [fs|vs|fs]; [| |discriminate Hb0].
  - inv_bind Hb0. inv_bind Hb0. apply (fields_visited (fun x => item_ok F traits (trait_eqb TInto) (acc_into (fst x)) (snd x))).
    apply mapM_Forall in Hb1. eapply Forall_impl2; [exact Hb1|]. intros f [y Hy].
    exact (into_field_item _ _ _ PlField _ _ Logic.I Hy).
  - inv_bind Hb0. inv_bind Hb0.
    apply (variants_visited (fun x => item_ok F traits (trait_eqb TInto) (acc_into (fst x)) (snd x))).
    apply mapM_Forall in Hb1. eapply Forall_impl2; [exact Hb1|]. intros v [y Hy].
    inv_bind Hy. inv_bind Hy. split; [exact (into_variant_item _ _ _ _ Hb2)|].
    apply mapM_Forall in Hb3. eapply Forall_impl2; [exact Hb3|]. intros f [z Hz].
    exact (into_field_item _ _ _ PlField _ _ Logic.I Hz).
Qed.
