(** C14, part j: Into. *)
From Educe.Proofs Require Export P_C14i.

(** the `Into(..)` metas collected from an item, up to spelling *)
Inductive into_metas_rel (pos : position) : meta -> meta -> Prop :=
| IMR_one m m' : tmeta_equiv pos m m' -> get_ident (meta_path m) = Some "Into"%string ->
                 into_metas_rel pos m m'
| IMR_sym m m' : into_metas_rel pos m m' -> into_metas_rel pos m' m
| IMR_trans m m' m'' : into_metas_rel pos m m' -> into_metas_rel pos m' m'' -> into_metas_rel pos m m''.

Lemma Forall2_sym {A B} (R : A -> B -> Prop) (R' : B -> A -> Prop) l l' :
  (forall a b, R a b -> R' b a) -> Forall2 R l l' -> Forall2 R' l' l.
Proof. intros H. induction 1; constructor; auto. Qed.

Lemma Forall2_trans {A B C} (R : A -> B -> Prop) (Q : B -> C -> Prop) (T : A -> C -> Prop) l l' l'' :
  (forall a b c, R a b -> Q b c -> T a c) -> Forall2 R l l' -> Forall2 Q l' l'' -> Forall2 T l l''.
Proof.
  intros H H1. revert l''. induction H1; intros l'' H2; inversion H2; subst; constructor; eauto.
Qed.

Lemma Forall2_refl_In {A} (R : A -> A -> Prop) l : (forall a, In a l -> R a a) -> Forall2 R l l.
Proof. induction l; intros H; constructor; [apply H; left; reflexivity|apply IHl; intros; apply H; right; assumption]. Qed.

Lemma into_type_meta_rel pos et acc m m' :
  into_metas_rel pos m m' -> osim (into_type_meta et acc m) (into_type_meta et acc m').
Proof.
  induction 1.
  - apply (into_type_meta_equiv pos); assumption.
  - apply osim_sym. assumption.
  - eapply osim_trans; eassumption.
Qed.

Lemma into_field_meta_rel pos acc m m' :
  into_metas_rel pos m m' -> osim (into_field_meta acc m) (into_field_meta acc m').
Proof.
  induction 1.
  - apply (into_field_meta_equiv pos); assumption.
  - apply osim_sym. assumption.
  - eapply osim_trans; eassumption.
Qed.

(** ** the collector *)
Lemma is_into_of_trait F m : trait_from_path F (meta_path m) = Some TInto -> is_into m = true.
Proof.
  intros H. apply trait_from_path_name in H. unfold is_into, path_is_ident. rewrite H. reflexivity.
Qed.

Lemma into_collect_meta_comm F traits acc m1 m2 :
  swap_ok m1 m2 = true ->
  osim (let* a := into_collect_meta F traits acc m2 in into_collect_meta F traits a m1)
       (let* a := into_collect_meta F traits acc m1 in into_collect_meta F traits a m2).
Proof.
  intros Hok. unfold into_collect_meta.
  destruct (trait_from_path F (meta_path m1)) as [t1|] eqn:E1;
    destruct (trait_from_path F (meta_path m2)) as [t2|] eqn:E2; cbn [bind];
    try (destruct (negb (has_trait t1 traits))); try (destruct (negb (has_trait t2 traits)));
    cbn [bind]; try exact Logic.I;
    try (destruct (trait_eqb t1 TInto) eqn:I1); try (destruct (trait_eqb t2 TInto) eqn:I2);
    cbn [bind]; rewrite ?E1, ?E2; cbn [bind osim osimR]; try exact Logic.I; try reflexivity.
  exfalso. assert (t1 = TInto) by (destruct t1; try discriminate; reflexivity).
  assert (t2 = TInto) by (destruct t2; try discriminate; reflexivity). subst.
  unfold swap_ok in Hok. rewrite (is_into_of_trait F m1 E1), (is_into_of_trait F m2 E2) in Hok.
  discriminate Hok.
Qed.

Lemma into_collect_metas_equiv F traits pos ms ms' acc acc' :
  metas_equiv pos ms ms' -> Forall2 (into_metas_rel pos) acc acc' ->
  osimR (Forall2 (into_metas_rel pos))
        (foldM (into_collect_meta F traits) acc ms) (foldM (into_collect_meta F traits) acc' ms').
Proof.
  intros [qs [Hp Hq]] Hacc.
  eapply (osimR_trans eq); [|apply (foldM_rperm swap_ok); [|exact Hp]|].
  - intros a b c -> H. exact H.
  - intros s x y Hok. apply into_collect_meta_comm. exact Hok.
  - apply (foldM_osimR (Forall2 (into_metas_rel pos)) (tmeta_equiv pos)); [|exact Hq|exact Hacc].
    intros s s' m m' Hs Hm. unfold into_collect_meta. rewrite <- (tmeta_equiv_path pos m m' Hm).
    destruct (trait_from_path F (meta_path m)) as [t|] eqn:Et; [|exact Logic.I].
    destruct (negb (has_trait t traits)); [exact Logic.I|].
    destruct (trait_eqb t TInto) eqn:Ei; [|exact Hs].
    cbn [osimR]. apply Forall2_app_one; [exact Hs|]. apply IMR_one; [exact Hm|].
    assert (t = TInto) by (destruct t; try discriminate; reflexivity). subst.
    exact (trait_from_path_name F _ TInto Et).
Qed.

Lemma into_collect_metas_fequiv F traits ms ms' :
  fmetas_equiv F traits ms ms' ->
  osimR (Forall2 (into_metas_rel PField))
        (foldM (into_collect_meta F traits) [] ms) (foldM (into_collect_meta F traits) [] ms').
Proof.
  induction 1 as [ms ms' H|ms1 ms2 p a t Hp Ha Ht HF HT Hno|ms ms' H IH|ms ms' ms'' H1 IH1 H2 IH2].
  - apply into_collect_metas_equiv; [exact H|constructor].
  - rewrite !foldM_app. cbn [foldM].
    assert (Etp : trait_from_path F p = Some t).
    { apply trait_from_path_intro; [|exact HF]. rewrite Hp, (trait_of_name_inv a t Ht). reflexivity. }
    assert (Hni : trait_eqb t TInto = false).
    { rewrite (trait_of_name_inv a t Ht) in Ha. destruct t; try reflexivity.
      cbn in Ha. intuition discriminate. }
    assert (Hrefl : forall l acc, osimR (Forall2 (into_metas_rel PField))
                      (foldM (into_collect_meta F traits) acc l) (foldM (into_collect_meta F traits) acc l)
                    -> True) by auto.
    destruct (foldM (into_collect_meta F traits) [] ms1) as [acc1| | |] eqn:E1; cbn [bind];
      try exact Logic.I.
    unfold into_collect_meta at 1. cbn [meta_path]. rewrite Etp, HT, Hni. cbn [negb bind].
    (* both sides are now the same computation; the collected metas are related to themselves *)
    assert (Hself : forall l acc r, foldM (into_collect_meta F traits) acc l = Ok r ->
                      Forall (fun m => get_ident (meta_path m) = Some "Into"%string) acc ->
                      Forall (fun m => get_ident (meta_path m) = Some "Into"%string) r).
    { induction l as [|m l IHl]; intros acc r Hr Hacc; cbn [foldM] in Hr.
      - inversion Hr. subst. exact Hacc.
      - apply bind_ok' in Hr. destruct Hr as [a1 [Ha1 Hr]]. apply (IHl a1 r Hr).
        unfold into_collect_meta in Ha1.
        destruct (trait_from_path F (meta_path m)) as [t0|] eqn:Et0; [|discriminate].
        destruct (negb (has_trait t0 traits)); [discriminate|].
        destruct (trait_eqb t0 TInto) eqn:Ei; inversion Ha1; subst; [|exact Hacc].
        apply Forall_app. split; [exact Hacc|]. constructor; [|constructor].
        assert (t0 = TInto) by (destruct t0; try discriminate; reflexivity). subst.
        exact (trait_from_path_name F _ TInto Et0). }
    destruct (foldM (into_collect_meta F traits) acc1 ms2) as [r| | |] eqn:E2; try exact Logic.I.
    cbn [osimR]. apply Forall2_refl_In. intros m Hin.
    apply IMR_one; [apply TE_refl|].
    assert (Hall : Forall (fun m => get_ident (meta_path m) = Some "Into"%string) r).
    { apply (Hself ms2 acc1 r E2). apply (Hself ms1 [] acc1 E1). constructor. }
    rewrite Forall_forall in Hall. exact (Hall m Hin).
  - eapply osimR_sym; [|exact IH]. intros a b Hab.
    eapply Forall2_sym; [|exact Hab]. intros x y. apply IMR_sym.
  - eapply osimR_trans; [|exact IH1|exact IH2]. intros a b c Hab Hbc.
    eapply Forall2_trans; [|exact Hab|exact Hbc]. intros x y z. apply IMR_trans.
Qed.

Lemma into_collect_ext F traits traits' attrs :
  (forall t, has_trait t traits = has_trait t traits') ->
  into_collect F traits attrs = into_collect F traits' attrs.
Proof.
  intros Ht. unfold into_collect. generalize (@nil meta).
  assert (Hm : forall ms acc, foldM (into_collect_meta F traits) acc ms
                              = foldM (into_collect_meta F traits') acc ms).
  { induction ms as [|m r IH]; intros acc; cbn [foldM]; [reflexivity|].
    assert (E : into_collect_meta F traits acc m = into_collect_meta F traits' acc m).
    { unfold into_collect_meta. destruct (trait_from_path F (meta_path m)); [|reflexivity].
      rewrite Ht. reflexivity. }
    rewrite E. destruct (into_collect_meta F traits' acc m); cbn [bind]; auto. }
  induction attrs as [|a r IH]; intros acc; cbn [foldM]; [reflexivity|].
  assert (E : into_collect_attr F traits acc a = into_collect_attr F traits' acc a).
  { unfold into_collect_attr. destruct (is_educe a); [|reflexivity]. destruct (a_meta a); try reflexivity.
    destruct (parse_metas ts); cbn [bind]; try reflexivity. apply Hm. }
  rewrite E. destruct (into_collect_attr F traits' acc a); cbn [bind]; auto.
Qed.

Lemma into_collect_spelling F traits traits' pos attrs attrs' :
  (forall t, has_trait t traits = has_trait t traits') ->
  attrs_equiv (metas_equiv pos) false attrs attrs' ->
  osimR (Forall2 (into_metas_rel pos)) (into_collect F traits attrs) (into_collect F traits' attrs').
Proof.
  intros Ht [ms [ms' [E [E' H]]]]. rewrite <- (into_collect_ext F traits traits' attrs' Ht).
  unfold into_collect. rewrite (into_collect_flat F traits attrs ms [] E),
                               (into_collect_flat F traits attrs' ms' [] E').
  apply into_collect_metas_equiv; [exact H|constructor].
Qed.

Lemma into_collect_fspelling F traits traits' attrs attrs' :
  (forall t, has_trait t traits = has_trait t traits') ->
  field_attrs_equiv F traits attrs attrs' ->
  osimR (Forall2 (into_metas_rel PField)) (into_collect F traits attrs) (into_collect F traits' attrs').
Proof.
  intros Ht [ms [ms' [E [E' H]]]]. rewrite <- (into_collect_ext F traits traits' attrs' Ht).
  unfold into_collect. rewrite (into_collect_flat F traits attrs ms [] E),
                               (into_collect_flat F traits attrs' ms' [] E').
  apply into_collect_metas_fequiv. exact H.
Qed.

(** ** attributes *)
Lemma into_build_type_rel pos et ms ms' :
  Forall2 (into_metas_rel pos) ms ms' -> osim (into_build_type et ms) (into_build_type et ms').
Proof.
  intros H. unfold into_build_type.
  apply (foldM_osimR eq (into_metas_rel pos)); [|exact H|reflexivity].
  intros s s' m m' -> Hm. exact (into_type_meta_rel pos et s' m m' Hm).
Qed.

Lemma into_variant_attr_spelling F traits traits' attrs attrs' :
  (forall t, has_trait t traits = has_trait t traits') ->
  variant_attrs_equiv attrs attrs' ->
  osim (into_variant_attr F traits attrs) (into_variant_attr F traits' attrs').
Proof.
  intros Ht H. unfold into_variant_attr.
  eapply osimR_bind; [exact (into_collect_spelling F traits traits' PVariant attrs attrs' Ht H)|].
  intros ms ms' Hms. rewrite (Forall2_is_nil _ _ _ Hms). destruct (is_nil ms'); [apply osim_refl|].
  apply osim_bind; [exact (into_build_type_rel PVariant false ms ms' Hms)|]. intros x. apply osim_refl.
Qed.

Lemma into_field_attr_spelling F traits traits' targets f f' :
  (forall t, has_trait t traits = has_trait t traits') ->
  field_equiv (field_attrs_equiv F traits) f f' ->
  osimR FR (into_field_attr F traits targets f) (into_field_attr F traits' targets f').
Proof.
  intros Ht Hf. unfold into_field_attr.
  eapply osimR_bind; [exact (into_collect_fspelling F traits traits' _ _ Ht (fe_attrs _ _ _ Hf))|].
  intros ms ms' Hms. eapply (osimR_bind eq).
  - apply (foldM_osimR eq (into_metas_rel PField)); [|exact Hms|reflexivity].
    intros s s' m m' -> Hm. exact (into_field_meta_rel PField s' m m' Hm).
  - intros fa fa' <-. destruct (forallb _ fa); [|exact Logic.I].
    split; [exact (field_equiv_fsame _ _ _ Hf)|reflexivity].
Qed.

(** ** selection *)
Definition CR (c c' : into_choice) : Prop :=
  fst (fst c) = fst (fst c') /\ fsame (snd (fst c)) (snd (fst c')) /\ snd c = snd c'.

Ltac csame :=
  unfold into_choice in *;
  repeat match goal with
  | x : (_ * _)%type |- _ => destruct x
  | f : field |- _ => destruct f
  end;
  unfold CR, IFR, FR, fsame in *; cbn [fst snd f_name f_ty] in *;
  repeat match goal with H : _ /\ _ |- _ => destruct H end; subst.

Lemma flat_map_Forall2_rel {A B C D} (R : A -> B -> Prop) (Q : C -> D -> Prop)
      (f : A -> list C) (g : B -> list D) l l' :
  Forall2 R l l' -> (forall a b, R a b -> Forall2 Q (f a) (g b)) -> Forall2 Q (flat_map f l) (flat_map g l').
Proof.
  intros H Hf. induction H; cbn [flat_map]; [constructor|]. apply Forall2_app; auto.
Qed.

Lemma into_flagged_same target (fs fs' : list (field * into_fattr)) :
  Forall2 FR fs fs' -> Forall2 CR (into_flagged target fs) (into_flagged target fs').
Proof.
  intros H. unfold into_flagged. apply (flat_map_Forall2_rel IFR CR); [exact (Forall2_indexed_IFR _ _ H)|].
  intros [i [f fa]] [i' [f' fa']] [Hi [Hs E]]. cbn [fst snd] in *. subst i' fa'.
  destruct (ty_lookup target fa); constructor; [|constructor].
  split; [reflexivity|]. split; [exact Hs|reflexivity].
Qed.

Lemma into_same_typed_same target (fs fs' : list (field * into_fattr)) :
  Forall2 FR fs fs' -> Forall2 CR (into_same_typed target fs) (into_same_typed target fs').
Proof.
  intros H. unfold into_same_typed.
  apply (flat_map_Forall2_rel IFR CR); [exact (Forall2_indexed_IFR _ _ H)|].
  intros [i [f fa]] [i' [f' fa']] [Hi [Hs E]]. cbn [fst snd] in *. subst i' fa'.
  destruct Hs as [Hn Hty]. rewrite Hty.
  destruct (flat_eqb target (hash_type (f_ty f'))); constructor; [|constructor].
  split; [reflexivity|]. split; [split; assumption|reflexivity].
Qed.

Lemma Forall2_map_same {A B C} (R : B -> C -> Prop) (f : A -> B) (g : A -> C) (l : list A) :
  (forall t, In t l -> R (f t) (g t)) -> Forall2 R (map f l) (map g l).
Proof.
  induction l as [|a l IH]; intros H; cbn [map]; constructor.
  - apply H. left. reflexivity.
  - apply IH. intros t Ht. apply H. right. exact Ht.
Qed.

Lemma into_select_same target (fs fs' : list (field * into_fattr)) :
  Forall2 FR fs fs' -> osimR CR (into_select target fs) (into_select target fs').
Proof.
  intros H.
  assert (Hgen : osimR CR
            match into_flagged target fs with
            | _ :: _ :: _ => Err E_into_multi
            | [c] => Ok c
            | [] => match into_same_typed target fs with [c] => Ok c | _ => Err E_into_no_field end
            end
            match into_flagged target fs' with
            | _ :: _ :: _ => Err E_into_multi
            | [c] => Ok c
            | [] => match into_same_typed target fs' with [c] => Ok c | _ => Err E_into_no_field end
            end).
  { pose proof (into_flagged_same target fs fs' H) as Hf.
    destruct Hf as [|c c' l l' Hc Hl].
    - pose proof (into_same_typed_same target fs fs' H) as Hs.
      destruct Hs as [|c c' l l' Hc Hl]; [exact Logic.I|]. destruct Hl; [exact Hc|exact Logic.I].
    - destruct Hl; [exact Hc|exact Logic.I]. }
  destruct H as [|x y l l' Hxy Hl]; [exact Hgen|].
  destruct Hl as [|x2 y2 l l' Hxy2 Hl].
  - unfold into_select. destruct x as [f fa], y as [f' fa']. destruct Hxy as [Hs E]. cbn [fst snd] in *.
    subst fa'. cbn [osimR]. repeat split; try reflexivity; apply Hs.
  - unfold into_select. destruct x as [f fa], y as [f' fa']. exact Hgen.
Qed.

(** ** emission *)
Lemma into_conv_same target c c' op : CR c c' -> into_conv target c op = into_conv target c' op.
Proof. intros H. csame. reflexivity. Qed.
Lemma into_types_same target c c' : CR c c' -> into_types target c = into_types target c'.
Proof. intros H. csame. reflexivity. Qed.

Lemma into_item_same d d' target b types body :
  d_name d = d_name d' -> d_generics d = d_generics d' ->
  into_item d target b types body = into_item d' target b types body.
Proof. intros Hn Hg. unfold into_item. rewrite Hn, Hg. reflexivity. Qed.

Lemma into_struct_item_same d d' target b c c' :
  d_name d = d_name d' -> d_generics d = d_generics d' -> CR c c' ->
  into_struct_item d target b c = into_struct_item d' target b c'.
Proof.
  intros Hn Hg H. unfold into_struct_item.
  rewrite (into_types_same target c c' H).
  destruct c as [[i f] mm], c' as [[i' f'] mm']. pose proof H as [Hi [Hs E]]. cbn [fst snd] in *. subst.
  rewrite (field_member_same f f' i' Hs), (into_conv_same target _ _ _ H),
          (into_item_same d d' _ _ _ _ Hn Hg). reflexivity.
Qed.

Definition SCR (x y : string * into_choice) : Prop := fst x = fst y /\ CR (snd x) (snd y).

Lemma into_arm_same target x y : SCR x y -> into_arm target x = into_arm target y.
Proof.
  destruct x as [v c], y as [v' c']. intros [Hv H]. cbn [fst snd] in *. subst v'.
  unfold into_arm. pose proof (fun op => into_conv_same target c c' op H) as Hc.
  destruct c as [[i f] mm], c' as [[i' f'] mm']. destruct H as [Hi [[Hfn Hty] E]]. cbn [fst snd] in *.
  subst. rewrite Hfn. destruct (f_name f'); rewrite Hc; reflexivity.
Qed.

Lemma into_enum_item_same d d' target b l l' :
  d_name d = d_name d' -> d_generics d = d_generics d' -> Forall2 SCR l l' ->
  into_enum_item d target b l = into_enum_item d' target b l'.
Proof.
  intros Hn Hg H. unfold into_enum_item.
  rewrite (map_Forall2 SCR (into_arm target) (into_arm target) l l' H (into_arm_same target)).
  assert (E : flat_map (fun x => into_types target (snd x)) l = flat_map (fun x => into_types target (snd x)) l').
  { apply (flat_map_Forall2 SCR); [exact H|]. intros x y [_ Hc]. exact (into_types_same target _ _ Hc). }
  rewrite E, (into_item_same d d' _ _ _ _ Hn Hg). reflexivity.
Qed.

Definition P1R (p p' : into_plan1) : Prop :=
  match p, p' with
  | IPStruct c, IPStruct c' => CR c c'
  | IPEnum l, IPEnum l' => Forall2 SCR l l'
  | _, _ => False
  end.
Definition TPR (x y : toks * bound * into_plan1) : Prop := fst x = fst y /\ P1R (snd x) (snd y).

Lemma into_emit_same d d' p p' :
  d_name d = d_name d' -> d_generics d = d_generics d' -> Forall2 TPR p p' -> into_emit d p = into_emit d' p'.
Proof.
  intros Hn Hg H. unfold into_emit. apply (map_Forall2 TPR); [exact H|].
  intros [[t b] p1] [[t' b'] p1'] [E Hp]. cbn [fst snd] in *. inversion E. subst. unfold into_emit1.
  destruct p1, p1'; try contradiction.
  - exact (into_struct_item_same d d' _ _ _ _ Hn Hg Hp).
  - exact (into_enum_item_same d d' _ _ _ _ Hn Hg Hp).
Qed.

(** ** the handler *)
Definition VFR (x y : variant * list (field * into_fattr)) : Prop :=
  v_name (fst x) = v_name (fst y) /\ kind_same (v_fields (fst x)) (v_fields (fst y)) /\
  Forall2 FR (snd x) (snd y).

Lemma into_results_spelling F traits traits' d d' ms ms' :
  (forall t, has_trait t traits = has_trait t traits') ->
  data_equiv F traits (d_data d) (d_data d') ->
  Forall2 (into_metas_rel PType) ms ms' ->
  osimR (Forall2 (osimR TPR)) (into_results F traits d ms) (into_results F traits' d' ms').
Proof.
  intros Ht Hd Hms. unfold into_results.
  destruct Hd as [fs fs' Hfs|vs vs' Hvs|fs fs' Hfs]; [| |exact Logic.I].
  - eapply (osimR_bind eq); [exact (into_build_type_rel PType true ms ms' Hms)|].
    intros targets targets' <-. eapply osimR_bind.
    + apply (mapM_osimR (field_equiv (field_attrs_equiv F traits)) FR);
        [|exact (fields_equiv_list _ _ _ Hfs)].
      intros f f' Hf. exact (into_field_attr_spelling F traits traits' targets f f' Ht Hf).
    + intros l l' Hl. cbn [osimR]. apply Forall2_map_same. intros t _.
      unfold into_struct_target. eapply osimR_bind; [exact (into_select_same (fst t) l l' Hl)|].
      intros c c' Hc. split; [reflexivity|exact Hc].
  - eapply (osimR_bind eq); [exact (into_build_type_rel PType true ms ms' Hms)|].
    intros targets targets' <-. eapply osimR_bind.
    + apply (mapM_osimR (variant_equiv F traits) VFR); [|exact Hvs].
      intros v v' Hv. eapply (osimR_bind eq);
        [exact (into_variant_attr_spelling F traits traits' _ _ Ht (ve_attrs _ _ _ _ Hv))|].
      intros _ _ _. eapply osimR_bind.
      * apply (mapM_osimR (field_equiv (field_attrs_equiv F traits)) FR);
          [|exact (fields_equiv_list _ _ _ (ve_fields _ _ _ _ Hv))].
        intros f f' Hf. exact (into_field_attr_spelling F traits traits' targets f f' Ht Hf).
      * intros fl fl' Hfl. cbn [osimR]. split; [exact (ve_name _ _ _ _ Hv)|]. split; [|exact Hfl].
        exact (fields_equiv_kind_same _ _ _ (ve_fields _ _ _ _ Hv)).
    + intros l l' Hl. cbn [osimR]. apply Forall2_map_same. intros t _.
      unfold into_enum_target. eapply osimR_bind.
      * apply (mapM_osimR VFR SCR); [|exact Hl].
        intros [v fl] [v' fl'] [Hn [Hk Hfl]]. cbn [fst snd] in *. unfold into_variant_choice. cbn [fst snd].
        destruct (v_fields v), (v_fields v'); try contradiction; try exact Logic.I;
          (eapply osimR_bind; [exact (into_select_same (fst t) fl fl' Hfl)|]);
          intros c c' Hc; (split; [exact Hn|exact Hc]).
      * intros cl cl' Hcl. rewrite (Forall2_is_nil _ _ _ Hcl). destruct (is_nil cl'); [exact Logic.I|].
        split; [reflexivity|exact Hcl].
Qed.
