(** The traversal [walk] is monotone in its node and pattern judgments. *)
From Educe.Spec Require Export Hygiene.

Lemma pat_all_mono (P Q : pat -> bool) :
  (forall p, P p = true -> Q p = true) -> forall p, pat_all P p = true -> pat_all Q p = true.
Proof.
  intros HPQ. fix IH 1. intros p H. destruct p as [| x | r | r ps t rs | r fs t rs]; cbn [pat_all] in H |- *;
    apply andb_true_iff in H; destruct H as [H0 H]; rewrite (HPQ _ H0); cbn [andb]; clear H0;
    try reflexivity.
  - revert ps H. fix IHl 1. intros [|q ps] H; [reflexivity|]. cbn [forallb] in H |- *.
    apply andb_true_iff in H. destruct H as [Hq Hps]. rewrite (IH q Hq). cbn [andb].
    apply IHl. exact Hps.
  - revert fs H. fix IHl 1. intros [|[n [q|]] fs] H; [reflexivity| |]; cbn [forallb snd] in H |- *.
    + apply andb_true_iff in H. destruct H as [Hq Hfs]. rewrite (IH q Hq). cbn [andb].
      apply IHl. exact Hfs.
    + apply IHl. exact H.
Qed.

Section WalkMono.
  Context {C : Type}.
  Variables (node node' : C -> expr -> bool) (pnode pnode' : C -> pat -> bool).
  Variables (eb : C -> list expr -> C) (ea : C -> pat -> C).
  (** an invariant of the contexts the traversal builds *)
  Variable Inv : C -> Prop.
  Hypothesis Heb : forall c b, Inv c -> Inv (eb c b).
  Hypothesis Hea : forall c p, Inv c -> Inv (ea c p).
  Hypothesis Hnode : forall c e, Inv c -> node c e = true -> node' c e = true.
  Hypothesis Hpnode : forall c p, Inv c -> pnode c p = true -> pnode' c p = true.

  Local Notation W := (walk node pnode eb ea).
  Local Notation W' := (walk node' pnode' eb ea).

  (* the list cases: an inner structural recursion on the list, the outer
     hypothesis [IH] being used on its elements only *)
  Ltac on_list IH l H Hi :=
    let IHl := fresh "IHl" in let x := fresh "x" in let Hx := fresh "Hx" in let Hl := fresh "Hl" in
    revert l H; fix IHl 1; intros [|x l] H; [reflexivity|]; cbn [forallb] in H |- *;
    apply andb_true_iff in H; destruct H as [Hx Hl]; rewrite (IH x _ Hi Hx); cbn [andb];
    apply IHl; exact Hl.

  Ltac on_arms IH l H Hi :=
    let IHl := fresh "IHl" in let x := fresh "x" in let Hx := fresh "Hx" in let Hl := fresh "Hl" in
    let Hp := fresh "Hp" in
    revert l H; fix IHl 1; intros [|x l] H; [reflexivity|]; cbn [forallb] in H |- *;
    apply andb_true_iff in H; destruct H as [Hx Hl];
    apply andb_true_iff in Hx; destruct Hx as [Hp Hx];
    rewrite (Hpnode _ _ Hi Hp), (IH (snd x) _ (Hea _ (fst x) Hi) Hx); cbn [andb]; apply IHl; exact Hl.

  Ltac in_block IH c0 b H Hi :=
    let c' := fresh "c'" in let Hi' := fresh "Hi'" in
    assert (Hi' : Inv (eb c0 b)) by (apply Heb; exact Hi);
    revert H Hi'; generalize (eb c0 b); intros c' H Hi'; on_list IH b H Hi'.

  Lemma walk_mono_inv : forall e c, Inv c -> W c e = true -> W' c e = true.
  Proof.
    fix IH 1. intros e c Hi H.
    destruct e; cbn [walk] in H |- *; apply andb_true_iff in H; destruct H as [H0 H];
      rewrite (Hnode _ _ Hi H0); cbn [andb]; clear H0; try reflexivity; try (apply (IH _ _ Hi); exact H).
    - (* ECall *) apply andb_true_iff in H. destruct H as [Hf H]. rewrite (IH _ _ Hi Hf). cbn [andb].
      on_list IH args H Hi.
    - (* EMethod *) apply andb_true_iff in H. destruct H as [Hf H]. rewrite (IH _ _ Hi Hf). cbn [andb].
      on_list IH args H Hi.
    - (* EIf *) apply andb_true_iff in H. destruct H as [H He].
      apply andb_true_iff in H. destruct H as [Hc Ht]. rewrite (IH _ _ Hi Hc). cbn [andb].
      apply andb_true_iff. split.
      + in_block IH c th Ht Hi.
      + destruct el as [b|]; [|reflexivity]. in_block IH c b He Hi.
    - (* EIfLet *) apply andb_true_iff in H. destruct H as [H He].
      apply andb_true_iff in H. destruct H as [H Ht].
      apply andb_true_iff in H. destruct H as [Hp Hs].
      rewrite (Hpnode _ _ Hi Hp), (IH _ _ Hi Hs). cbn [andb]. apply andb_true_iff. split.
      + pose proof (Hea c p Hi) as Hia. in_block IH (ea c p) th Ht Hia.
      + destruct el as [b|]; [|reflexivity]. in_block IH c b He Hi.
    - (* EMatch *) apply andb_true_iff in H. destruct H as [Hs H]. rewrite (IH _ _ Hi Hs). cbn [andb].
      on_arms IH arms H Hi.
    - (* EBlock *) in_block IH c b H Hi.
    - (* EUnsafe *) in_block IH c b H Hi.
    - (* EAssign *) apply andb_true_iff in H. destruct H as [Hl Hr].
      rewrite (IH _ _ Hi Hl), (IH _ _ Hi Hr). reflexivity.
    - (* EStruct *) revert fs H. fix IHl 1. intros [|x l] H; [reflexivity|]. cbn [forallb] in H |- *.
      apply andb_true_iff in H. destruct H as [Hx Hl]. rewrite (IH (snd x) _ Hi Hx). cbn [andb].
      apply IHl. exact Hl.
    - (* ECallT *) apply andb_true_iff in H. destruct H as [Hf H]. rewrite (IH _ _ Hi Hf). cbn [andb].
      on_list IH args H Hi.
    - (* EMatchC *) apply andb_true_iff in H. destruct H as [Hs H]. rewrite (IH _ _ Hi Hs). cbn [andb].
      on_arms IH arms H Hi.
    - (* EDiscrMatch *) apply andb_true_iff in H. destruct H as [H Hl].
      apply andb_true_iff in H. destruct H as [He Hg].
      rewrite (IH _ _ Hi He), (IH _ _ Hi Hg), (IH _ _ Hi Hl). reflexivity.
  Qed.
End WalkMono.

(** without an invariant *)
Lemma walk_mono {C} (node node' : C -> expr -> bool) (pnode pnode' : C -> pat -> bool) eb ea :
  (forall c e, node c e = true -> node' c e = true) ->
  (forall c p, pnode c p = true -> pnode' c p = true) ->
  forall e c, walk node pnode eb ea c e = true -> walk node' pnode' eb ea c e = true.
Proof.
  intros Hn Hp e c. apply (walk_mono_inv node node' pnode pnode' eb ea (fun _ => True)); auto.
Qed.
