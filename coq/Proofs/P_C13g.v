(** C13 — R5 / R8: Into targets given twice, two fields marked for one target, no field
    determinable, a field naming an undeclared target. *)
From Educe.Proofs Require Export P_C13f.

Definition tgt (m : meta) : list toks := match into_target m with Some k => [k] | None => [] end.

Lemma targets_of_eq F ms : targets_of F ms = flat_map tgt (metas_of F TInto ms).
Proof. reflexivity. Qed.

Lemma dup_toks_snoc l k :
  dup_toks (l ++ [k]) = dup_toks l || existsb (fun x => flat_eqb x k) l.
Proof.
  induction l as [|x r IH]; [reflexivity|]. cbn [app dup_toks existsb]. rewrite IH, existsb_app.
  cbn [existsb]. rewrite orb_false_r.
  destruct (existsb (flat_eqb x) r), (flat_eqb x k), (dup_toks r), (existsb (fun x0 => flat_eqb x0 k) r);
    reflexivity.
Qed.

Lemma ty_mem_existsb {A} k (l : list (toks * A)) :
  ty_mem k l = existsb (fun x => flat_eqb x k) (map fst l).
Proof.
  unfold ty_mem. induction l as [|[k' v] r IH]; [reflexivity|]. cbn [ty_lookup map fst existsb].
  destruct (flat_eqb k' k); [reflexivity|exact IH].
Qed.

(** the type level: the targets built are the targets written, pairwise different *)
Lemma into_type_meta_step acc m acc' :
  into_type_meta true acc m = Ok acc' ->
  exists k b, tgt m = [k] /\ ty_mem k acc = false /\ acc' = acc ++ [(k, b)].
Proof.
  unfold into_type_meta, tgt, into_target. destruct m as [p|p v|p dl ts]; try discriminate. cbn [negb].
  intros H. inv_bind H. destruct a as [ty ms]. inv_bind H. destruct a as [u b].
  destruct (ty_mem (hash_type ty) acc) eqn:E; [discriminate H|]. inversion H; subst.
  exists (hash_type ty), b. rewrite Hb. auto.
Qed.

Lemma into_build_targets ms : forall acc targets,
  foldM (into_type_meta true) acc ms = Ok targets ->
  map fst targets = map fst acc ++ flat_map tgt ms /\
  (dup_toks (map fst acc) = false -> dup_toks (map fst targets) = false).
Proof.
  induction ms as [|m r IH]; intros acc targets H.
  - inversion H; subst. rewrite app_nil_r. auto.
  - cbn [foldM] in H. inv_bind H. destruct (into_type_meta_step _ _ _ Hb) as [k [b [Hk [Hm ->]]]].
    destruct (IH _ _ H) as [H1 H2]. cbn [flat_map]. rewrite Hk. split.
    + rewrite H1, map_app, <- app_assoc. reflexivity.
    + intros Hd. apply H2. rewrite map_app. cbn [map fst]. rewrite dup_toks_snoc, Hd.
      rewrite <- ty_mem_existsb. exact Hm.
Qed.

Lemma into_field_meta_step acc m acc' :
  into_field_meta acc m = Ok acc' -> exists k x, tgt m = [k] /\ acc' = acc ++ [(k, x)].
Proof.
  unfold into_field_meta, tgt, into_target. destruct m as [p|p v|p dl ts]; try discriminate.
  intros H. inv_bind H. destruct a as [ty ms]. inv_bind H.
  destruct (ty_mem (hash_type ty) acc); [discriminate H|]. inversion H; subst.
  exists (hash_type ty), (fs_method a). rewrite Hb. auto.
Qed.

Lemma into_field_targets ms : forall acc fa,
  foldM into_field_meta acc ms = Ok fa -> map fst fa = map fst acc ++ flat_map tgt ms.
Proof.
  induction ms as [|m r IH]; intros acc fa H.
  - inversion H; subst. rewrite app_nil_r. reflexivity.
  - cbn [foldM] in H. inv_bind H. destruct (into_field_meta_step _ _ _ Hb) as [k [x [Hk ->]]].
    rewrite (IH _ _ H). cbn [flat_map]. rewrite Hk, map_app, <- app_assoc. reflexivity.
Qed.

(** one analysed field: its marks are the targets written on it, all declared *)
Lemma into_field_attr_syn F traits targets f x :
  into_field_attr F traits targets f = Ok x ->
  fst x = f /\ map fst (snd x) = targets_of F (educe_metas (f_attrs f)) /\
  forallb (fun k => ty_mem k targets) (map fst (snd x)) = true.
Proof.
  intros H. unfold into_field_attr in H. inv_bind H. inv_bind H.
  apply into_collect_scanned in Hb. destruct Hb as [_ ->].
  destruct (forallb (fun '(k, _) => ty_mem k targets) a0) eqn:Hall; [|discriminate H].
  inversion H; subst x. cbn [fst snd]. split; [reflexivity|]. split.
  - rewrite (into_field_targets _ _ _ Hb0). reflexivity.
  - rewrite forallb_forall in *. intros k Hk. apply in_map_iff in Hk. destruct Hk as [[k' v] [<- Hin]].
    exact (Hall _ Hin).
Qed.

(** selection *)
Lemma count_Forall2 {A B} (R : A -> B -> Prop) (p : A -> bool) (q : B -> bool) l1 l2 :
  Forall2 R l1 l2 -> (forall a b, R a b -> p a = q b) -> count p l1 = count q l2.
Proof.
  intros H Hpq. unfold count. induction H as [|a b l1 l2 Hab _ IH]; [reflexivity|].
  cbn [filter]. rewrite (Hpq a b Hab). destruct (q b); cbn [List.length]; rewrite IH; reflexivity.
Qed.

Lemma flat_map_length_count {A B} (g : A -> list B) (p : A -> bool) l :
  (forall x, List.length (g x) = if p x then 1 else 0) ->
  List.length (flat_map g l) = count p l.
Proof.
  intros H. unfold count. induction l as [|x r IH]; [reflexivity|].
  cbn [flat_map filter]. rewrite app_length, H, IH. destruct (p x); reflexivity.
Qed.

Lemma into_flagged_count T (fs : list (field * into_fattr)) :
  List.length (into_flagged T fs) = count (fun x => ty_mem T (snd x)) fs.
Proof.
  unfold into_flagged. rewrite <- (count_indexed (fun x : field * into_fattr => ty_mem T (snd x))).
  apply flat_map_length_count. intros [i [f fa]]. cbn [snd]. unfold ty_mem.
  destruct (ty_lookup T fa); reflexivity.
Qed.

Lemma into_same_typed_count T (fs : list (field * into_fattr)) :
  List.length (into_same_typed T fs) = count (fun x => into_same_type T (fst x)) fs.
Proof.
  unfold into_same_typed.
  rewrite <- (count_indexed (fun x : field * into_fattr => into_same_type T (fst x))).
  apply flat_map_length_count. intros [i [f fa]]. cbn [snd fst]. unfold into_same_type.
  destruct (flat_eqb T (hash_type (f_ty f))); reflexivity.
Qed.

Lemma into_select_ok T fs c :
  into_select T fs = Ok c ->
  List.length fs = 1 \/
  count (fun x => ty_mem T (snd x)) fs = 1 \/
  (count (fun x => ty_mem T (snd x)) fs = 0 /\ count (fun x => into_same_type T (fst x)) fs = 1).
Proof.
  intros H. unfold into_select in H.
  assert (Hgen : match into_flagged T fs with
                 | _ :: _ :: _ => Err E_into_multi
                 | [c] => Ok c
                 | [] => match into_same_typed T fs with [c] => Ok c | _ => Err E_into_no_field end
                 end = Ok c ->
                 count (fun x => ty_mem T (snd x)) fs = 1 \/
                 (count (fun x => ty_mem T (snd x)) fs = 0 /\ count (fun x => into_same_type T (fst x)) fs = 1)).
  { rewrite <- into_flagged_count, <- into_same_typed_count.
    destruct (into_flagged T fs) as [|c1 [|c2 r]]; [|intros _; left; reflexivity|discriminate].
    destruct (into_same_typed T fs) as [|d1 [|d2 r]]; [discriminate|intros _; right; split; reflexivity|discriminate]. }
  destruct fs as [|[f fa] [|y r]]; [right; exact (Hgen H)|left; reflexivity|right; exact (Hgen H)].
Qed.

(** a group of fields analysed and selected from, against the syntactic tests *)
Lemma group_selected F traits targets T (g : list field) l c :
  mapM (into_field_attr F traits targets) g = Ok l ->
  into_select T l = Ok c ->
  group_into_multi F T g = false /\ group_into_none F T g = false.
Proof.
  intros Hm Hs. apply mapM_ok_Forall2 in Hm.
  assert (Hlen : List.length g = List.length l).
  { clear - Hm. induction Hm; [reflexivity|cbn; congruence]. }
  assert (Hmark : count (into_marked F T) g = count (fun x => ty_mem T (snd x)) l).
  { apply (count_Forall2 _ _ _ _ _ Hm). intros f x Hx. apply into_field_attr_syn in Hx.
    destruct Hx as [_ [Hx _]]. unfold into_marked. rewrite <- Hx. symmetry. apply ty_mem_existsb. }
  assert (Hsame : count (into_same_type T) g = count (fun x => into_same_type T (fst x)) l).
  { apply (count_Forall2 _ _ _ _ _ Hm). intros f x Hx. apply into_field_attr_syn in Hx.
    destruct Hx as [-> _]. reflexivity. }
  unfold group_into_multi, group_into_none. rewrite Hmark, Hsame, Hlen.
  destruct (into_select_ok _ _ _ Hs) as [H1|[H1|[H1 H2]]].
  - rewrite H1. split; reflexivity.
  - rewrite H1. cbn. destruct (negb (Nat.eqb (List.length l) 1)); split; reflexivity.
  - rewrite H1, H2. cbn. destruct (negb (Nat.eqb (List.length l) 1)); split; reflexivity.
Qed.

Lemma group_declared F traits targets (g : list field) l :
  mapM (into_field_attr F traits targets) g = Ok l ->
  forall f k, In f g -> In k (targets_of F (educe_metas (f_attrs f))) ->
              existsb (flat_eqb k) (map fst targets) = true.
Proof.
  intros Hm f k Hf Hk. destruct (mapM_In_ok _ _ _ _ Hm Hf) as [x Hx]. apply into_field_attr_syn in Hx.
  destruct Hx as [_ [H1 H2]]. rewrite H1 in H2. rewrite forallb_forall in H2. specialize (H2 k Hk).
  rewrite ty_mem_existsb in H2. apply existsb_exists in H2. destruct H2 as [y [Hy1 Hy2]].
  apply existsb_exists. exists y. split; [exact Hy1|].
  unfold flat_eqb in *. destruct (list_eq_dec string_dec (flat y) (flat k)) as [E|E]; [|discriminate Hy2].
  destruct (list_eq_dec string_dec (flat k) (flat y)); [reflexivity|congruence].
Qed.

Lemma mapM_id_map {A B} (f : A -> outcome B) l r x :
  mapM (fun o => o) (map f l) = Ok r -> In x l -> exists y, f x = Ok y.
Proof.
  intros H Hin. assert (Hi : In (f x) (map f l)) by (apply in_map; exact Hin).
  destruct (mapM_In_ok _ _ _ _ H Hi) as [y Hy]. eauto.
Qed.

Theorem into_facts F traits d l :
  expand_into F traits d (metas_of F TInto (type_metas d)) = Ok l ->
  dup_toks (type_targets F d) = false /\
  (forall T, In T (type_targets F d) ->
     (is_enum d && is_nil (d_variants d)) = false /\
     forall g, In g (field_groups d) -> group_into_multi F T g = false /\ group_into_none F T g = false) /\
  invalid_into_undeclared F d = false.
Proof.
  intros H. unfold expand_into in H. inv_bind H. clear H. unfold into_analyse in Hb. inv_bind Hb.
  unfold into_results in Hb0. unfold is_enum, d_variants, field_groups, invalid_into_undeclared.
  unfold type_targets. rewrite targets_of_eq. unfold field_groups.
  destruct (d_data d) as [fs|vs|fs]; [| |discriminate Hb0].
  - inv_bind Hb0. inv_bind Hb0. inversion Hb0; subst a0. clear Hb0.
    destruct (into_build_targets _ _ _ Hb1) as [Ht Hd]. cbn [map app] in Ht. rewrite <- Ht.
    split; [exact (Hd eq_refl)|]. split.
    + intros T HT. split; [reflexivity|]. intros g [<-|[]].
      apply in_map_iff in HT. destruct HT as [t [<- Ht']].
      destruct (mapM_id_map _ _ _ _ Hb Ht') as [y Hy]. unfold into_struct_target in Hy. inv_bind Hy.
      exact (group_selected _ _ _ _ _ _ _ Hb2 Hb0).
    + apply existsb_false. intros g [<-|[]]. apply existsb_false. intros f Hf. apply existsb_false.
      intros k Hk. rewrite (group_declared _ _ _ _ _ Hb2 f k Hf Hk). reflexivity.
  - inv_bind Hb0. inv_bind Hb0. inversion Hb0; subst a0. clear Hb0.
    destruct (into_build_targets _ _ _ Hb1) as [Ht Hd]. cbn [map app] in Ht. rewrite <- Ht.
    split; [exact (Hd eq_refl)|]. split.
    + intros T HT. apply in_map_iff in HT. destruct HT as [t [<- Ht']].
      destruct (mapM_id_map _ _ _ _ Hb Ht') as [y Hy]. unfold into_enum_target in Hy. inv_bind Hy.
      split.
      * destruct vs; [|reflexivity]. cbn in Hb2. inversion Hb2; subst a2. cbn in Hb0.
        inversion Hb0; subst a0. discriminate Hy.
      * intros g Hg. apply in_map_iff in Hg. destruct Hg as [v [<- Hv]].
        destruct (mapM_In _ _ _ _ Hb2 Hv) as [z [Hz Hzin]]. inv_bind Hz. inv_bind Hz. inversion Hz; subst z.
        destruct (mapM_In_ok _ _ _ _ Hb0 Hzin) as [c Hc]. unfold into_variant_choice in Hc. cbn [fst snd] in Hc.
        destruct (v_fields v) as [fl|fl|] eqn:Ef; [| |discriminate Hc]; inv_bind Hc; cbn [fields_list] in *;
          exact (group_selected _ _ _ _ _ _ _ Hb4 Hb5).
    + apply existsb_false. intros g Hg. apply in_map_iff in Hg. destruct Hg as [v [<- Hv]].
      destruct (mapM_In_ok _ _ _ _ Hb2 Hv) as [z Hz]. inv_bind Hz. inv_bind Hz.
      apply existsb_false. intros f Hf. apply existsb_false.
      intros k Hk. rewrite (group_declared _ _ _ _ _ Hb3 f k Hf Hk). reflexivity.
Qed.

Lemma into_run F d its :
  expand F d = Ok its -> type_targets F d <> [] ->
  exists traits l, expand_into F traits d (metas_of F TInto (type_metas d)) = Ok l.
Proof.
  intros H Hne. destruct (expand_run_facts _ _ _ H) as [traits [_ [_ Hi]]]. exists traits. apply Hi.
  intros E. apply Hne. unfold type_targets, targets_of. rewrite E. reflexivity.
Qed.

Theorem R8_into_target_twice F d its : expand F d = Ok its -> invalid_into_target_twice F d = false.
Proof.
  intros H. unfold invalid_into_target_twice. destruct (type_targets F d) as [|T r] eqn:E; [reflexivity|].
  destruct (into_run _ _ _ H) as [traits [l Hl]]; [rewrite E; discriminate|].
  apply into_facts in Hl. rewrite E in Hl. tauto.
Qed.

Theorem R5_into_multi F d its : expand F d = Ok its -> invalid_into_multi F d = false.
Proof.
  intros H. unfold invalid_into_multi. apply existsb_false. intros T HT.
  destruct (into_run _ _ _ H) as [traits [l Hl]]; [intros E; rewrite E in HT; destruct HT|].
  apply into_facts in Hl. destruct Hl as [_ [Hl _]]. destruct (Hl T HT) as [_ Hg].
  apply existsb_false. intros g Hin. apply (Hg g Hin).
Qed.

Theorem R5_into_none F d its : expand F d = Ok its -> invalid_into_none F d = false.
Proof.
  intros H. unfold invalid_into_none. apply existsb_false. intros T HT.
  destruct (into_run _ _ _ H) as [traits [l Hl]]; [intros E; rewrite E in HT; destruct HT|].
  apply into_facts in Hl. destruct Hl as [_ [Hl _]]. destruct (Hl T HT) as [He Hg]. rewrite He. cbn [orb].
  apply existsb_false. intros g Hin. apply (Hg g Hin).
Qed.

(** a field names a target the type does not declare (needs a declared target to be reached:
    without any type-level `Into` the attribute is "trait not educed", class R9) *)
Theorem R5_into_undeclared F d its :
  expand F d = Ok its -> invalid_into_undeclared F d = false.
Proof.
  intros H. destruct (type_targets F d) as [|T r] eqn:E.
  - (* no declared target: either Into is not educed (then no field can carry an Into item) ... *)
    unfold invalid_into_undeclared. apply existsb_false. intros g Hg. apply existsb_false. intros f Hf.
    apply existsb_false. intros k Hk. exfalso.
    (* the field carries an Into item, so Into is educed, so expand_into ran and built >= 1 target *)
    unfold targets_of in Hk. apply in_flat_map in Hk. destruct Hk as [m [Hm _]].
    apply metas_of_In in Hm. destruct Hm as [Hm Hmt].
    assert (Hv : exists pl, In (pl, f_attrs f) (visited d)).
    { unfold field_groups in Hg. unfold visited. destruct (d_data d) as [fs|vs|fs].
      - destruct Hg as [<-|[]]. exists PlField. apply in_map_iff. eauto.
      - apply in_map_iff in Hg. destruct Hg as [v [<- Hv]]. exists PlField. apply in_flat_map.
        exists v. split; [exact Hv|]. right. apply in_map_iff. eauto.
      - destruct Hg as [<-|[]]. exists PlUnionField. apply in_map_iff. eauto. }
    destruct Hv as [pl Hv].
    assert (Hin : In (pl, m) (item_metas d)) by (apply in_item_metas; eauto).
    destruct (items_validated _ _ _ H _ Hin) as [t [Ht He]]. cbn [snd] in Ht. rewrite Hmt in Ht.
    inversion Ht; subst t.
    destruct (expand_run_facts _ _ _ H) as [traits [_ [_ Hi]]].
    pose proof (educed_into_nonempty _ _ He) as Hne. destruct (Hi Hne) as [l Hl].
    destruct (expand_into_build _ _ _ _ _ Hl) as [targets Hbt].
    pose proof (into_build_type_nonempty _ _ Hbt Hne) as Hnt.
    destruct (into_build_targets _ _ _ Hbt) as [Hmap _]. cbn [map app] in Hmap.
    unfold type_targets in E. rewrite targets_of_eq, <- Hmap in E.
    destruct targets; [congruence|discriminate E].
  - destruct (into_run _ _ _ H) as [traits [l Hl]]; [rewrite E; discriminate|].
    apply into_facts in Hl. tauto.
Qed.
