(** C13 — R16: Debug asked to print nothing (no name, no field). *)
From Educe.Proofs Require Export P_C13h.
Import Expand_Debug.

Lemma key_name_param_is m : key_is "name" m = true -> param_is m ["name"; "rename"] = true.
Proof.
  unfold key_is, param_key, param_is. destruct (param_name m) as [s|]; [|discriminate].
  cbn [option_map mem_str existsb]. unfold canon.
  destruct (String.eqb s "rename") eqn:E1; [intros _; rewrite orb_true_r; reflexivity|].
  destruct (String.eqb s "expr") eqn:E2; [discriminate|].
  intros H. rewrite H. reflexivity.
Qed.

(** once the name is set it cannot change *)
Lemma dt_name_frozen b ms : forall s s',
  run_params (dt_param b) s ms = Ok s' -> ts_name_set s = true ->
  ts_name s' = ts_name s /\ ts_name_set s' = true.
Proof.
  induction ms as [|m r IH]; intros s s' H Hset.
  - inversion H; subst. auto.
  - unfold run_params in H. cbn [foldM] in H. inv_bind H. fold (run_params (dt_param b) a r) in H.
    unfold run_param in Hb. inv_bind Hb. destruct a0 as [s1|]; [|discriminate Hb]. inversion Hb; subst a.
    assert (Hs1 : ts_name s1 = ts_name s /\ ts_name_set s1 = true).
    { unfold dt_param in Hb0. destruct (param_is m ["name"; "rename"]).
      { destruct (negb (tb_name b)); [discriminate Hb0|]. inv_bind Hb0. rewrite Hset in Hb0. discriminate Hb0. }
      destruct (param_is m ["named_field"]).
      { destruct (negb (tb_named_field b)); [discriminate Hb0|]. inv_bind Hb0.
        destruct (ts_nf_set s); [discriminate Hb0|]. inversion Hb0; subst s1. auto. }
      destruct (param_is m ["bound"]); [|discriminate Hb0].
      destruct (negb (tb_bound b)); [discriminate Hb0|]. inv_bind Hb0.
      destruct (ts_bound_set s); [discriminate Hb0|]. inversion Hb0; subst s1. auto. }
    destruct Hs1 as [Hn Hs]. destruct (IH _ _ H Hs) as [H1 H2]. split; [congruence|exact H2].
Qed.

Lemma name_disabled_value m v :
  name_disabled_param m = true -> meta_2_ident_and_bool m = Ok v -> tname_of_iob v = TNDisable.
Proof.
  unfold name_disabled_param. intros H. apply andb_true_iff in H. destruct H as [_ H].
  destruct m as [p|p w|p dl ts]; [discriminate H| |].
  - destruct w as [t| | | |]; try discriminate H. cbn [meta_2_ident_and_bool meta_name_value_2_ident_and_bool].
    destruct t; try discriminate H. cbn in H |- *.
    destruct (String.eqb s "true"); [discriminate H|]. destruct (String.eqb s "false"); [|discriminate H].
    intros Hv. inversion Hv; reflexivity.
  - destruct ts as [|t [|t2 r]]; try discriminate H. cbn [meta_2_ident_and_bool].
    destruct t; try discriminate H. cbn in H |- *.
    destruct (String.eqb s "true"); [discriminate H|]. destruct (String.eqb s "false"); [|discriminate H].
    intros Hv. inversion Hv; reflexivity.
Qed.

Lemma dt_name_off b ms : forall s s',
  run_params (dt_param b) s ms = Ok s' -> existsb name_disabled_param ms = true ->
  ts_name s' = TNDisable.
Proof.
  induction ms as [|m r IH]; intros s s' H Hex; [discriminate Hex|].
  unfold run_params in H. cbn [foldM] in H. inv_bind H. fold (run_params (dt_param b) a r) in H.
  unfold run_param in Hb. inv_bind Hb. destruct a0 as [s1|]; [|discriminate Hb]. inversion Hb; subst a.
  cbn [existsb] in Hex. destruct (name_disabled_param m) eqn:Hm.
  - assert (Hk : key_is "name" m = true).
    { unfold name_disabled_param in Hm. apply andb_true_iff in Hm. tauto. }
    unfold dt_param in Hb0. rewrite (key_name_param_is _ Hk) in Hb0.
    destruct (negb (tb_name b)); [discriminate Hb0|]. inv_bind Hb0.
    destruct (ts_name_set s); [discriminate Hb0|]. inversion Hb0; subst s1.
    destruct (dt_name_frozen _ _ _ _ H eq_refl) as [H1 _]. rewrite H1. cbn [ts_name].
    exact (name_disabled_value _ _ Hm Hb1).
  - cbn [orb] in Hex. exact (IH _ _ H Hex).
Qed.

Lemma dt_name_unset b ms s s' :
  run_params (dt_param b) s ms = Ok s' -> existsb (key_is "name") ms = false ->
  ts_name s' = ts_name s.
Proof.
  intros H Hex. apply forallb_negb_existsb in Hex.
  refine (run_params_inv _ (fun x => ts_name x = ts_name s) (fun x => negb (key_is "name" x)) _ _ _ _ H Hex eq_refl).
  clear. intros s0 m s' Hs Hok Hi. unfold dt_param in Hs.
  destruct (param_is m ["name"; "rename"]) eqn:Hq.
  { rewrite (key_is_of_param_is _ _ "name" Hq) in Hok; [discriminate Hok|canon_names]. }
  destruct (param_is m ["named_field"]).
  { destruct (negb (tb_named_field b)); [discriminate Hs|]. inv_bind Hs.
    destruct (ts_nf_set s0); [discriminate Hs|]. inversion Hs; subst s'. exact Hi. }
  destruct (param_is m ["bound"]); [|discriminate Hs].
  destruct (negb (tb_bound b)); [discriminate Hs|]. inv_bind Hs.
  destruct (ts_bound_set s0); [discriminate Hs|]. inversion Hs; subst s'. exact Hi.
Qed.

Lemma debug_name_off_disable b m ta :
  tb_unsafe b = false -> build_dtattr b m = Ok ta -> debug_name_off m = true -> dt_name ta = TNDisable.
Proof.
  intros Hu H Hoff. unfold debug_name_off in Hoff. unfold build_dtattr in H.
  destruct m as [p|p v|p dl ts]; [discriminate Hoff|discriminate Hoff|].
  rewrite Hu in H. inv_bind H. destruct a as [u ms]. inv_bind H.
  apply bind_ok in Hb. destruct Hb as [ms' [Hp Hq]]. inversion Hq; subst.
  inversion H; subst ta. cbn [dt_name]. cbn [params] in Hoff. rewrite Hp in Hoff.
  exact (dt_name_off _ _ _ _ Hb0 Hoff).
Qed.

Lemma debug_name_unset_default b m ta :
  tb_unsafe b = false -> build_dtattr b m = Ok ta -> debug_name_unset m = true -> dt_name ta = tb_name0 b.
Proof.
  intros Hu H Hun. unfold debug_name_unset in Hun. unfold build_dtattr in H.
  destruct m as [p|p v|p dl ts]; [|discriminate Hun|].
  - destruct (tb_flag b); [|discriminate H]. inversion H; reflexivity.
  - rewrite Hu in H. inv_bind H. destruct a as [u ms]. inv_bind H.
    apply bind_ok in Hb. destruct Hb as [ms' [Hp Hq]]. inversion Hq; subst.
    inversion H; subst ta. cbn [dt_name]. cbn [params] in Hun. rewrite Hp in Hun.
    apply negb_true_iff in Hun. rewrite (dt_name_unset _ _ _ _ Hb0 Hun). reflexivity.
Qed.

Lemma debug_variant_nothing F traits v dv mv r :
  debug_variant F traits None v = Ok dv ->
  is_nil (fields_list (v_fields v)) = true ->
  metas_of F TDebug (educe_metas (v_attrs v)) = mv :: r ->
  debug_name_off mv = false.
Proof.
  intros H Hnil Hmv. destruct (debug_name_off mv) eqn:Hoff; [|reflexivity]. exfalso.
  unfold debug_variant in H. inv_bind H. unfold debug_variant_attr in Hb. inv_bind Hb.
  apply scanned_single in Hb0. rewrite Hmv in Hb0. destruct r; [|destruct Hb0].
  destruct Hb0 as [x [Hx ->]]. inversion Hb; subst a.
  apply debug_name_off_disable in Hx; [|reflexivity|exact Hoff]. rewrite Hx in H.
  cbn [tname_ident name_string] in H.
  destruct (v_fields v) as [l|l|]; cbn [fields_list] in Hnil.
  - destruct l; [|discriminate Hnil]. cbn in H. discriminate H.
  - destruct l; [|discriminate Hnil]. cbn in H. discriminate H.
  - cbn in H. discriminate H.
Qed.

Lemma debug_nothing_handler F traits d m l :
  expand_debug F traits d m = Ok l ->
  match d_data d with
  | DStruct fs => is_nil (fields_list fs) && debug_name_off m
  | DEnum vs =>
      (is_nil vs && debug_name_unset m)
      || (debug_name_unset m &&
          existsb (fun v => is_nil (fields_list (v_fields v)) &&
                            match metas_of F TDebug (educe_metas (v_attrs v)) with
                            | mv :: _ => debug_name_off mv
                            | [] => false
                            end) vs)
  | DUnion _ => false
  end = false.
Proof.
  intros H. unfold expand_debug in H. destruct (d_data d) as [fs|vs|fs]; [| |reflexivity].
  - destruct (is_nil (fields_list fs)) eqn:Hn; [|reflexivity]. cbn [andb].
    destruct (debug_name_off m) eqn:Hoff; [|reflexivity]. exfalso.
    inv_bind H. apply debug_name_off_disable in Hb; [|reflexivity|exact Hoff]. rewrite Hb in H.
    inv_bind H. destruct (fields_list fs); [|discriminate Hn]. cbn in Hb0. inversion Hb0; subst a0.
    cbn in H. discriminate H.
  - destruct (debug_name_unset m) eqn:Hun; [|rewrite andb_false_r; reflexivity].
    rewrite andb_true_r. cbn [andb].
    inv_bind H. apply debug_name_unset_default in Hb; [|reflexivity|exact Hun]. cbn [tb_name0] in Hb.
    rewrite Hb in H. cbn [tname_ident] in H. inv_bind H.
    apply orb_false_iff. split.
    + destruct vs; [|reflexivity]. cbn in Hb0. inversion Hb0; subst a0. cbn in H. discriminate H.
    + apply existsb_false. intros v Hv. destruct (mapM_In_ok _ _ _ _ Hb0 Hv) as [dv Hdv].
      destruct (is_nil (fields_list (v_fields v))) eqn:Hn; [|reflexivity]. cbn [andb].
      destruct (metas_of F TDebug (educe_metas (v_attrs v))) as [|mv r] eqn:Hmv; [reflexivity|].
      exact (debug_variant_nothing _ _ _ _ _ _ Hdv Hn Hmv).
Qed.

Theorem R16_debug_nothing F d its : expand F d = Ok its -> invalid_debug_nothing F d = false.
Proof.
  intros H. unfold invalid_debug_nothing. destruct (type_meta F TDebug d) as [m|] eqn:Hm; [|reflexivity].
  destruct (expand_run_facts _ _ _ H) as [traits [_ [Hh _]]].
  destruct (Hh TDebug expand_debug m ltac:(in_handlers) Hm) as [l Hl].
  exact (debug_nothing_handler _ _ _ _ _ Hl).
Qed.
