(** C20 — Debug of a union, semantically: the calls the emitted `fmt` makes on the
    formatter when `*self` holds the bytes [l], and the text they write.

    Runner and event vocabulary are C06's ([P_C06.run_fmt]: receiver `self` in the
    store, opaque formatter `f`, the trace of formatter / builder calls).  P_C06 is
    required, not imported: Spec/SpecDebug.v has its own [effective_name]. *)
From Educe.Proofs Require Export P_C20b.
From Educe.Proofs Require P_C06.
From Educe.Sem Require Import Fmt.

Section UnionDebugRun.
  Variable I : interp.

  (** the whole body, both shapes: returns, the store is untouched, and the trace is
      exactly [spec_union_debug_program] *)
  Lemma union_debug_body_run name l :
    List.length l = i_size_of_self I ->
    run_body I P_C06.fmt_env (spec_union_debug_body name) (P_C06.fmt_state (VBytes l)) =
    (RVal VUnit, {| st_store := [("self", VBytes l)]; st_trace := spec_union_debug_program name l |}).
  Proof.
    intros Hl. unfold run_body. destruct name as [n|].
    - (* let mut builder = f.debug_tuple(stringify!(n)); *)
      assert (E1 :
        eval_block (eval I) P_C06.fmt_env (spec_union_debug_body (Some n)) (P_C06.fmt_state (VBytes l)) =
        eval_block (eval I) (("builder", builder_val BTuple) :: P_C06.fmt_env)
          (let_size :: ELet false "data" (raw_bytes "self") ::
           [ESemi (EMethod (EVar "builder") "field" [ERef (EVar "data")]);
            EMethod (EVar "builder") "finish" []])
          (log (EvBuilderNew BTuple n) (P_C06.fmt_state (VBytes l)))) by reflexivity.
      rewrite E1.
      (* let size; let data: the bytes *)
      rewrite (union_data_binding I (("builder", builder_val BTuple) :: P_C06.fmt_env) self_place l _
                 (log (EvBuilderNew BTuple n) (P_C06.fmt_state (VBytes l))) eq_refl eq_refl Hl).
      (* builder.field(&data); builder.finish() *)
      reflexivity.
    - change (spec_union_debug_body None)
        with (let_size :: ELet false "data" (raw_bytes "self") ::
              [ECall (EPath (RCore ["fmt"; "Debug"; "fmt"])) [EVar "data"; EVar "f"]]).
      rewrite (union_data_binding I P_C06.fmt_env self_place l _ (P_C06.fmt_state (VBytes l))
                 eq_refl eq_refl Hl).
      (* ::core::fmt::Debug::fmt(data, f) *)
      reflexivity.
  Qed.

  Theorem union_debug_run F traits d m fs items l :
    d_data d = DUnion fs ->
    G.expand_debug F traits d m = Ok items ->
    List.length l = i_size_of_self I ->
    exists ta it, G.build_dtattr debug_union_builder m = Ok ta /\ items = [it] /\
      P_C06.run_fmt I it (VBytes l) =
      Some (spec_union_debug_program (effective_name (G.dt_name ta) (d_name d)) l).
  Proof.
    intros Hd He Hl.
    destruct (union_debug_shape F traits d m fs items Hd He) as [ta [it [Hta [Hit Hfn]]]].
    exists ta, it. split; [exact Hta|]. split; [exact Hit|].
    unfold P_C06.run_fmt. rewrite Hfn. rewrite (union_debug_body_run _ l Hl). reflexivity.
  Qed.
End UnionDebugRun.

(** ** the text *)
Lemma sapp_nil_r (a : string) : a ^^ "" = a.
Proof. induction a as [|ch a IH]; cbn [append]; [reflexivity|]. rewrite IH. reflexivity. Qed.

Lemma sapp_assoc (a b c : string) : (a ^^ b) ^^ c = a ^^ (b ^^ c).
Proof. induction a as [|ch a IH]; cbn [append]; [reflexivity|]. rewrite IH. reflexivity. Qed.

(** `Name([1, 2, 3])`; pretty: `Name(` newline, the pretty list indented and closed by `,` newline, `)`;
    with the name disabled the list alone.  (An empty custom name gives core's `(v,)` form.) *)
Definition spec_union_debug_text (alt : bool) (name : option string) (l : list nat) : string :=
  match name with
  | Some n => if alt then n ^^ "(" ^^ nl ^^ indent (bytes_text true l ^^ "," ^^ nl) ^^ ")"
              else n ^^ "(" ^^ bytes_text false l ^^ (if is_empty n then "," else "") ^^ ")"
  | None => bytes_text alt l
  end.

(** [render] formats a byte slice (`[u8]`, and `&[u8]` which forwards to it) as core does *)
Definition renders_bytes (alt : bool) (render : fmt_arg -> string) : Prop :=
  forall l, render (FADebug (VBytes l)) = bytes_text alt l /\
            render (FADebug (VRefTmp (VBytes l))) = bytes_text alt l.

Definition render_bytes (alt : bool) (a : fmt_arg) : string :=
  match a with
  | FADebug (VBytes l) => bytes_text alt l
  | FADebug (VRefTmp (VBytes l)) => bytes_text alt l
  | _ => "?"
  end.
Lemma render_bytes_ok alt : renders_bytes alt (render_bytes alt).
Proof. intros l. split; reflexivity. Qed.

Lemma union_program_text alt render name l :
  renders_bytes alt render ->
  run_events alt render None (spec_union_debug_program name l) = Some (spec_union_debug_text alt name l).
Proof.
  intros Hr. destruct (Hr l) as [Hv Hs].
  destruct name as [n|]; cbn [spec_union_debug_program spec_union_debug_text].
  - cbn [run_events option_map new_text field_text finish_text Nat.eqb]. rewrite Hs.
    destruct (is_empty n); destruct alt; reflexivity.
  - cbn [run_events option_map]. rewrite Hv, sapp_nil_r. reflexivity.
Qed.

Theorem union_debug_string (I : interp) F traits alt render d m fs items l :
  d_data d = DUnion fs ->
  G.expand_debug F traits d m = Ok items ->
  List.length l = i_size_of_self I ->
  renders_bytes alt render ->
  exists ta it tr, G.build_dtattr debug_union_builder m = Ok ta /\ items = [it] /\
    P_C06.run_fmt I it (VBytes l) = Some tr /\
    run_events alt render None tr =
    Some (spec_union_debug_text alt (effective_name (G.dt_name ta) (d_name d)) l).
Proof.
  intros Hd He Hl Hr.
  destruct (union_debug_run I F traits d m fs items l Hd He Hl) as [ta [it [Hta [Hit Hrun]]]].
  exists ta, it. eexists. split; [exact Hta|]. split; [exact Hit|]. split; [exact Hrun|].
  apply union_program_text. exact Hr.
Qed.

(** ** [bytes_text] in closed form: `[]`, `[a, b, c]`, and one indented `a,` line per byte *)
Lemma list_entries_compact_rest items :
  list_entries_text false false items = fold_right append "" (map (fun x => ", " ^^ x) items).
Proof.
  induction items as [|x r IH]; [reflexivity|].
  cbn [list_entries_text map fold_right]. rewrite IH. reflexivity.
Qed.
Lemma list_entries_pretty_rest items :
  list_entries_text true false items = fold_right append "" (map (fun x => indent (x ^^ "," ^^ nl)) items).
Proof.
  induction items as [|x r IH]; [reflexivity|].
  cbn [list_entries_text map fold_right]. rewrite IH. reflexivity.
Qed.

Theorem bytes_text_forms :
  (forall alt, bytes_text alt [] = "[]") /\
  (forall x r, bytes_text false (x :: r) =
               "[" ^^ dec x ^^ fold_right append "" (map (fun y => ", " ^^ dec y) r) ^^ "]") /\
  (forall x r, bytes_text true (x :: r) =
               "[" ^^ nl ^^ fold_right append "" (map (fun y => indent (dec y ^^ "," ^^ nl)) (x :: r)) ^^ "]").
Proof.
  split; [intros alt; reflexivity|]. split; intros x r; unfold bytes_text, debug_list_text.
  - cbn [map list_entries_text]. rewrite list_entries_compact_rest, map_map.
    cbn [append]. rewrite sapp_assoc. reflexivity.
  - cbn [map list_entries_text fold_right]. rewrite list_entries_pretty_rest, map_map. reflexivity.
Qed.
