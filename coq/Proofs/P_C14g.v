(** C14, part g: Debug. *)
From Educe.Proofs Require Export P_C14f.
Import Expand_Debug.

Definition IFR {X} (x y : nat * (field * X)) : Prop := fst x = fst y /\ FR (snd x) (snd y).

Lemma Forall2_indexed_IFR {X} (l l' : list (field * X)) :
  Forall2 FR l l' -> Forall2 IFR (indexed l) (indexed l').
Proof. intros H. unfold indexed. exact (Forall2_index_from FR l l' H 0). Qed.

(** the pointwise goals of the emission congruences *)
Ltac dsame :=
  repeat match goal with
  | x : (_ * _)%type |- _ => destruct x
  | f : field |- _ => destruct f
  end;
  unfold IFR, FR, fsame in *; cbn [fst snd f_name f_ty] in *;
  repeat match goal with H : _ /\ _ |- _ => destruct H end; subst;
  try reflexivity;
  unfold dbg_named_field, dbg_tuple_field, dbg_arg;
  repeat match goal with
  | H : d_name _ = d_name _ |- _ => try rewrite H; clear H
  | H : d_generics _ = d_generics _ |- _ => try rewrite H; clear H
  end; reflexivity.

Ltac demit_step H :=
  first
  [ reflexivity
  | eapply map_Forall2; [exact H|intros ? ? ?; dsame]
  | eapply flat_map_Forall2; [exact H|intros ? ? ?; dsame]
  | eapply existsb_Forall2; [exact H|intros ? ? ?; dsame]
  | exact (Forall2_is_nil _ _ _ H)
  | f_equal ].
Ltac dsame_emit H := repeat (demit_step H).

(** ** attributes *)
Lemma debug_dtattr_respects F pos b :
  pos <> PField -> build_respects F (trait_eqb TDebug) (build_dtattr b) pos.
Proof.
  intros Hpos m m' H t Et Eo. apply trait_eqb_eq in Eo. subst t.
  apply (debug_build_dtattr_equiv pos b m m' Hpos H). exact (trait_from_path_name F _ TDebug Et).
Qed.

Lemma debug_dfattr_respects F pos en ei em :
  build_respects F (trait_eqb TDebug) (build_dfattr en ei em) pos.
Proof.
  intros m m' H t Et Eo. apply trait_eqb_eq in Eo. subst t.
  apply (debug_build_dfattr_equiv pos en ei em m m' H). exact (trait_from_path_name F _ TDebug Et).
Qed.

Lemma debug_variant_attr_spelling F traits traits' b attrs attrs' :
  (forall t, has_trait t traits = has_trait t traits') ->
  variant_attrs_equiv attrs attrs' ->
  osim (debug_variant_attr F traits b attrs) (debug_variant_attr F traits' b attrs').
Proof.
  intros Ht H. unfold debug_variant_attr. apply osim_bind; [|intros o; apply osim_refl].
  apply (scan_attrs_spelling F _ _ _ traits traits' PVariant); auto.
  apply debug_dtattr_respects. discriminate.
Qed.

Lemma debug_field_attr_spelling F traits traits' en attrs attrs' :
  (forall t, has_trait t traits = has_trait t traits') ->
  field_attrs_equiv F traits attrs attrs' ->
  osim (debug_field_attr F traits en true true attrs) (debug_field_attr F traits' en true true attrs').
Proof.
  intros Ht H.
  apply (scan_default_spelling F (trait_eqb TDebug) (trait_eqb TDebug) (build_dfattr en true true)
           traits traits' dfattr_default);
    [exact Ht|intros; reflexivity|apply one_trait_group
    |intros p t _ _ _; destruct en; reflexivity
    |apply debug_dfattr_respects|exact H].
Qed.

Lemma debug_ufield_attr_spelling F traits traits' attrs attrs' :
  (forall t, has_trait t traits = has_trait t traits') ->
  ufield_attrs_equiv attrs attrs' ->
  osim (debug_field_attr F traits false false false attrs)
       (debug_field_attr F traits' false false false attrs').
Proof.
  intros Ht H. unfold debug_field_attr. apply osim_bind; [|intros o; apply osim_refl].
  apply (scan_attrs_spelling F _ _ _ traits traits' PField); auto. apply debug_dfattr_respects.
Qed.

Lemma debug_field_attrs_spelling F traits traits' en fs fs' :
  (forall t, has_trait t traits = has_trait t traits') ->
  Forall2 (field_equiv (field_attrs_equiv F traits)) fs fs' ->
  osimR (Forall2 IFR) (debug_field_attrs F traits en fs) (debug_field_attrs F traits' en fs').
Proof.
  intros Ht H. unfold debug_field_attrs. eapply osimR_bind.
  - eapply (mapM_osimR _ FR); [|exact H].
    intros f f' Hf. eapply osimR_bind.
    + exact (debug_field_attr_spelling F traits traits' en _ _ Ht (fe_attrs _ _ _ Hf)).
    + intros a b ->. split; [exact (field_equiv_fsame _ _ _ Hf)|reflexivity].
  - intros l l' Hl. cbn [osimR]. exact (Forall2_indexed_IFR l l' Hl).
Qed.

(** ** emission *)
Lemma dbg_types_same l l' : Forall2 IFR l l' -> dbg_types l = dbg_types l'.
Proof. intros H. unfold dbg_types. dsame_emit H. Qed.

Lemma has_shown_same l l' : Forall2 IFR l l' -> has_shown l = has_shown l'.
Proof. intros H. unfold has_shown. dsame_emit H. Qed.

Lemma dbg_struct_body_same d d' name nf l l' :
  d_name d = d_name d' -> d_generics d = d_generics d' -> Forall2 IFR l l' ->
  dbg_struct_body d name nf l = dbg_struct_body d' name nf l'.
Proof.
  intros Hn Hg H. unfold dbg_struct_body. destruct nf; dsame_emit H.
Qed.

Definition DVR (v v' : dvariant) : Prop :=
  dv_ident v = dv_ident v' /\ kind_same (dv_fields v) (dv_fields v') /\
  dv_name_string v = dv_name_string v' /\ dv_named_field v = dv_named_field v' /\
  Forall2 IFR (dv_list v) (dv_list v').

Lemma dbg_arm_same d d' v v' :
  d_name d = d_name d' -> d_generics d = d_generics d' -> DVR v v' -> dbg_arm d v = dbg_arm d' v'.
Proof.
  intros Hn Hg. destruct v as [id fs ns nf l], v' as [id' fs' ns' nf' l'].
  intros [H1 [H2 [H3 [H4 H]]]]. cbn [dv_ident dv_fields dv_name_string dv_named_field dv_list] in *.
  subst id' ns' nf'. unfold dbg_arm, dbg_arm_block.
  cbn [dv_ident dv_fields dv_name_string dv_named_field dv_list].
  destruct fs, fs'; try contradiction; destruct nf; dsame_emit H.
Qed.

Lemma dbg_enum_body_same d d' name vs vs' :
  d_name d = d_name d' -> d_generics d = d_generics d' -> Forall2 DVR vs vs' ->
  dbg_enum_body d name vs = dbg_enum_body d' name vs'.
Proof.
  intros Hn Hg H. unfold dbg_enum_body. rewrite (Forall2_is_nil _ _ _ H).
  destruct (is_nil vs'); [reflexivity|]. f_equal. f_equal.
  apply (map_Forall2 DVR); [exact H|]. intros v v' Hv. exact (dbg_arm_same d d' v v' Hn Hg Hv).
Qed.

Lemma dbg_item_same d d' g anon body :
  d_name d = d_name d' -> dbg_item d g anon body = dbg_item d' g anon body.
Proof. intros Hn. unfold dbg_item. rewrite Hn. reflexivity. Qed.

(** ** the handler *)
Lemma debug_variant_spelling F traits traits' name v v' :
  (forall t, has_trait t traits = has_trait t traits') ->
  variant_equiv F traits v v' ->
  osimR DVR (debug_variant F traits name v) (debug_variant F traits' name v').
Proof.
  intros Ht [Hn _ Ha Hf]. unfold debug_variant. rewrite <- Hn.
  rewrite <- (fields_equiv_kind _ (v_fields v) (v_fields v') bool true false false Hf).
  eapply (osimR_bind eq); [exact (debug_variant_attr_spelling F traits traits' _ _ _ Ht Ha)|].
  intros ta ta' <-.
  destruct Hf as [l l' Hl|l l' Hl|].
  - eapply osimR_bind; [exact (debug_field_attrs_spelling F traits traits' _ l l' Ht Hl)|].
    intros x y Hxy. rewrite (has_shown_same x y Hxy).
    destruct (negb (has_shown y) && _); [exact Logic.I|].
    cbn [osimR]. repeat split; try reflexivity; exact Hxy.
  - eapply osimR_bind; [exact (debug_field_attrs_spelling F traits traits' _ l l' Ht Hl)|].
    intros x y Hxy. rewrite (has_shown_same x y Hxy).
    destruct (negb (has_shown y) && _); [exact Logic.I|].
    cbn [osimR]. repeat split; try reflexivity; exact Hxy.
  - destruct (is_some _); [|exact Logic.I]. cbn [osimR]. repeat split; try reflexivity. constructor.
Qed.

Theorem expand_debug_spelling F traits traits' d d' m m' :
  (forall t, has_trait t traits = has_trait t traits') ->
  d_name d = d_name d' -> d_generics d = d_generics d' ->
  data_equiv F traits (d_data d) (d_data d') ->
  tmeta_equiv PType m m' -> get_ident (meta_path m) = Some "Debug"%string ->
  osim (expand_debug F traits d m) (expand_debug F traits' d' m').
Proof.
  intros Ht Hn Hg Hd Hm Hp. unfold expand_debug.
  assert (Hta : forall b, osim (build_dtattr b m) (build_dtattr b m')).
  { intros b. apply (debug_build_dtattr_equiv PType b m m'); [discriminate|exact Hm|exact Hp]. }
  destruct Hd as [fs fs' Hfs|vs vs' Hvs|fs fs' Hfs].
  - rewrite <- (fields_equiv_kind _ fs fs' bool false true false Hfs).
    apply osim_bind; [apply Hta|]. intros ta.
    eapply osimR_bind;
      [exact (debug_field_attrs_spelling F traits traits' _ _ _ Ht (fields_equiv_list _ _ _ Hfs))|].
    intros l l' Hl. rewrite (has_shown_same l l' Hl), <- Hn.
    destruct (negb (has_shown l') && _); [exact Logic.I|]. cbn [osimR].
    rewrite (dbg_types_same l l' Hl), <- Hg,
            (dbg_struct_body_same d d' _ _ l l' Hn Hg Hl), (dbg_item_same d d' _ _ _ Hn). reflexivity.
  - apply osim_bind; [apply Hta|]. intros ta. rewrite <- Hn.
    eapply osimR_bind.
    + apply (mapM_osimR (variant_equiv F traits) DVR); [|exact Hvs].
      intros v v' Hv. exact (debug_variant_spelling F traits traits' _ v v' Ht Hv).
    + intros dvs dvs' Hdv. rewrite (Forall2_is_nil _ _ _ Hdv).
      destruct (is_nil dvs' && _); [exact Logic.I|]. cbn [osimR].
      assert (E : flat_map (fun v => dbg_types (dv_list v)) dvs
                  = flat_map (fun v => dbg_types (dv_list v)) dvs').
      { apply (flat_map_Forall2 DVR); [exact Hdv|]. intros v v' [_ [_ [_ [_ Hl]]]].
        exact (dbg_types_same _ _ Hl). }
      rewrite E, <- Hg, (dbg_enum_body_same d d' _ dvs dvs' Hn Hg Hdv), (dbg_item_same d d' _ _ _ Hn).
      reflexivity.
  - apply osim_bind; [apply Hta|]. intros ta.
    destruct (negb (dt_unsafe ta)); [exact Logic.I|].
    apply osim_bind.
    + apply (mapM_osim (field_equiv ufield_attrs_equiv)); [|exact Hfs].
      intros f f' Hf. exact (debug_ufield_attr_spelling F traits traits' _ _ Ht (fe_attrs _ _ _ Hf)).
    + intros _. rewrite <- Hg, <- Hn, (dbg_item_same d d' _ _ _ Hn). apply osim_refl.
Qed.
