(** C19 / H2 -- PartialOrd, Ord, Debug, Default, Deref, DerefMut, Into, Eq, Copy; the whole [expand]. *)
From Educe.Proofs Require Export P_C19e.

(** * PartialOrd / Ord *)
Lemma ord_result_binds c partial r : expr_binds c (ord_result partial r) = true.
Proof. destruct partial; reflexivity. Qed.

Lemma ord_pattern_binds c partial r : h2_pnode c (ord_pattern partial r) = true.
Proof. apply h2_pnode_nobinders. destruct partial; reflexivity. Qed.

Lemma cmp_step_binds c partial fa a b :
  expr_binds c a = true -> expr_binds c b = true -> expr_binds c (cmp_step partial fa a b) = true.
Proof.
  intros Ha Hb. unfold cmp_step, cmp_callee, builtin_cmp.
  destruct partial, (oa_method fa); bsimpl; rewrite Ha, Hb; cbn [andb];
    rewrite ?ord_pattern_binds; cbn [andb];
    rewrite ?(h2_pnode_nobinders _ (PPath _)) by reflexivity; reflexivity.
Qed.

Definition o_key (t : ofield) : string := unraw (named_of (snd (fst t))).
Definition o_keep (t : ofield) : bool := negb (oa_ignore (snd t)).
Definition oi_key (t : ofield) : string := dec (fst (fst t)).

Lemma ord_named_binders r t rs pre (l : list ofield) :
  pat_binders (PStruct r (map (fun '(_, f, fa) =>
     (named_of f, Some (if oa_ignore fa then PWild else PBind (pre ^^ unraw (named_of f))))) l) t rs)
  = field_binders o_key o_keep pre l.
Proof.
  rewrite (binders_struct r t rs). unfold field_binders. apply flat_map_ext'. intros [[i f] fa].
  unfold o_keep, o_key. cbn [fst snd]. destruct (oa_ignore fa); reflexivity.
Qed.

Lemma ord_unnamed_binders r t rs pre (l : list ofield) :
  pat_binders (PTuple r (map (fun '(i, _, fa) =>
     if oa_ignore fa then PWild else PBind (pre ^^ dec i)) l) t rs)
  = field_binders oi_key o_keep pre l.
Proof.
  rewrite (binders_tuple r t rs). unfold field_binders. apply flat_map_ext'. intros [[i f] fa].
  unfold o_keep, oi_key. cbn [fst snd]. destruct (oa_ignore fa); reflexivity.
Qed.

Lemma oidx_binders_cls l b : In b (field_binders oi_key o_keep "_" l) -> cls_idx b.
Proof.
  intros H. destruct (field_binders_in oi_key o_keep "_" l b H) as [x [_ ->]].
  exists (fst (fst x)). reflexivity.
Qed.

Lemma plan_fields_indices F own traits fs p :
  plan_fields F own traits fs = Ok p ->
  map (fun t : ofield => fst (fst t)) (fp_declared p) = seq 0 (List.length fs).
Proof.
  intros H. destruct (plan_fields_inv F own traits fs p H) as [_ Hp].
  rewrite <- map_fst_indexed, <- Hp, map_map. reflexivity.
Qed.

Lemma plan_variant_binds F own traits partial v vp :
  fields_wf (v_fields v) -> plan_variant F own traits v = Ok vp ->
  h2_pnode (["self"; "other"], []) (fst (cmp_arm partial vp)) = true /\
  expr_binds (h2_enter_arm (["self"; "other"], []) (fst (cmp_arm partial vp)))
             (snd (cmp_arm partial vp)) = true.
Proof.
  intros Hwf H. unfold plan_variant in H. inv_bind H.
  destruct (v_fields v) as [fs|fs|] eqn:Ef.
  - inv_bind H. inversion H; subst vp. pose proof (plan_fields_declared _ _ _ _ _ Hb0) as Hl.
    assert (Hnd : NoDup (map o_key (fp_declared a0))).
    { destruct Hwf as [_ Hnd]. unfold o_key, named_of. rewrite <- Hl, map_map in Hnd. exact Hnd. }
    cbn [cmp_arm]. unfold cmp_arm_named. cbn [fst snd].
    apply (two_level_arm_binds (["self"; "other"], []) _ _ "other" _ None "_s_" "_o_" (cls "_s_"));
      try reflexivity.
    + rewrite ord_named_binders. apply field_binders_NoDup. exact Hnd.
    + rewrite ord_named_binders. apply field_binders_NoDup. exact Hnd.
    + intros b. rewrite ord_named_binders. apply field_binders_cls.
    + intros b. rewrite ord_named_binders. apply field_binders_cls.
    + exact cls_so.
    + intros c'. rewrite forallb_map. apply forallb_true. intros [[i f] fa].
      apply cmp_step_binds; reflexivity.
  - inv_bind H. inversion H; subst vp. pose proof (plan_fields_indices _ _ _ _ _ Hb0) as Hl.
    assert (Hnd : NoDup (map oi_key (fp_declared a0))).
    { unfold oi_key. apply (NoDup_dec_indices (fun t : ofield => fst (fst t))). rewrite Hl.
      apply seq_NoDup. }
    cbn [cmp_arm]. unfold cmp_arm_unnamed. cbn [fst snd].
    apply (two_level_arm_binds (["self"; "other"], []) _ _ "other" _ None "_" "__" cls_idx);
      try reflexivity.
    + rewrite ord_unnamed_binders. apply field_binders_NoDup. exact Hnd.
    + rewrite ord_unnamed_binders. apply field_binders_NoDup. exact Hnd.
    + intros b. rewrite ord_unnamed_binders. apply oidx_binders_cls.
    + intros b. rewrite ord_unnamed_binders. apply field_binders_cls.
    + exact cls_uu.
    + intros c'. rewrite forallb_map. apply forallb_true. intros [[i f] fa].
      apply cmp_step_binds; reflexivity.
  - inversion H; subst vp. cbn [cmp_arm]. unfold cmp_arm_unit. cbn [fst snd]. split; [reflexivity|].
    bsimpl. rewrite ord_result_binds. reflexivity.
Qed.

Lemma body_of_binds partial F own traits d body :
  data_wf (d_data d) -> body_of partial F own traits d body ->
  forallb (expr_binds (["self"; "other"], flat_map let_names body ++ [])) body = true.
Proof.
  intros Hwf. unfold body_of. destruct (d_data d) as [fs|vs|fs] eqn:Ed; intros H.
  - destruct H as [p [_ ->]]. unfold cmp_struct_body at 2. rewrite forallb_app, forallb_map.
    cbn [forallb]. rewrite ord_result_binds, andb_true_r. apply forallb_true.
    intros [[i f] fa]. apply cmp_step_binds; reflexivity.
  - destruct H as [ds [vps [_ [Hvps ->]]]]. unfold cmp_enum_body. destruct (is_nil vps).
    + cbn [forallb]. rewrite ord_result_binds. reflexivity.
    + bsimpl. rewrite !ord_result_binds, !andb_true_r.
      destruct (forallb vplan_is_unit vps); [apply ord_result_binds|].
      bsimpl. rewrite ord_result_binds, !andb_true_r.
      replace (let_names (ord_result partial "Equal")) with (@nil string)
        by (destruct partial; reflexivity).
      cbn [app].
      apply (arms_binds ["self"; "other"] [] (cmp_arm partial) vps).
      apply (mapM_Forall_r _ _ _ _ Hvps). intros v vp Hin Hv.
      apply (plan_variant_binds F own traits partial v vp (Hwf v Hin) Hv).
  - destruct H.
Qed.

Theorem partial_ord_binds F traits d m items :
  data_wf (d_data d) ->
  expand_partial_ord F traits d m = Ok items -> forallb item_binds items = true.
Proof.
  intros Hwf He. destruct (has_trait TOrd F && has_trait TOrd traits) eqn:Ec.
  - unfold expand_partial_ord in He. rewrite Ec in He. inv_bind He. inversion He. reflexivity.
  - destruct (expand_partial_ord_body F traits d m items Ec He) as [g [body [-> Hb]]].
    cbn [forallb]. unfold partial_ord_item.
    rewrite one_fn_item_binds; [reflexivity|reflexivity|apply (body_of_binds _ _ _ _ _ _ Hwf Hb)].
Qed.

Theorem ord_binds F traits d m items :
  data_wf (d_data d) ->
  expand_ord F traits d m = Ok items -> forallb item_binds items = true.
Proof.
  intros Hwf He. destruct (expand_ord_body F traits d m items He) as [g [body [-> Hb]]].
  unfold ord_items. cbn [forallb]. unfold ord_item at 1.
  rewrite one_fn_item_binds; [|reflexivity|apply (body_of_binds _ _ _ _ _ _ Hwf Hb)]. cbn [andb].
  destruct (has_trait TPartialOrd F && has_trait TPartialOrd traits); reflexivity.
Qed.


(** * Debug *)
(** the `let`s of the builder templates (`builder`, `arg`) are not bound by a parameter or an
    enclosing pattern *)
Definition dbg_ok (c : bctx) : Prop :=
  mem_str "builder" (fst c) = false /\ mem_str "arg" (fst c) = false.

Lemma dbg_entry_binds c has_name key value :
  expr_binds c value = true -> expr_binds c (dbg_entry has_name key value) = true.
Proof.
  intros Hv. unfold dbg_entry, builder_stmt, stringify. destruct has_name; bsimpl; rewrite Hv;
    reflexivity.
Qed.

Lemma dbg_arg_binds c d ty m fe :
  dbg_ok c -> expr_binds c fe = true -> expr_binds c (dbg_arg d ty m fe) = true.
Proof.
  intros [_ Ha] Hf. unfold dbg_arg. cbv beta delta [expr_binds]. cbn [walk h2_node let_names forallb].
  fold expr_binds. rewrite Ha, Hf. reflexivity.
Qed.

Lemma dbg_named_field_binds c d has_name key ty fa op :
  dbg_ok c -> expr_binds c op = true ->
  forallb (expr_binds c) (dbg_named_field d has_name key ty fa op) = true.
Proof.
  intros Hc Ho. unfold dbg_named_field. destruct (df_method fa); cbn [forallb].
  - rewrite dbg_arg_binds by assumption. rewrite dbg_entry_binds; reflexivity.
  - rewrite dbg_entry_binds; [reflexivity|exact Ho].
Qed.

Lemma dbg_tuple_field_binds c d ty fa op :
  dbg_ok c -> expr_binds c op = true ->
  forallb (expr_binds c) (dbg_tuple_field d ty fa op) = true.
Proof.
  intros Hc Ho. unfold dbg_tuple_field, builder_stmt. destruct (df_method fa); cbn [forallb].
  - rewrite dbg_arg_binds by assumption. reflexivity.
  - bsimpl. rewrite Ho. reflexivity.
Qed.

Lemma named_builder_binds c o :
  dbg_ok c -> (forall a, o = Some a -> expr_binds c a = true) ->
  expr_binds c (named_builder o) = true.
Proof.
  intros [Hb _] H. unfold named_builder, let_builder. destruct o as [a|].
  - cbv beta delta [expr_binds]. cbn [walk h2_node let_names forallb String.eqb Ascii.eqb Bool.eqb].
    fold expr_binds. rewrite Hb, (H a eq_refl). reflexivity.
  - cbv beta delta [expr_binds]. cbn [walk h2_node let_names forallb]. rewrite Hb. reflexivity.
Qed.

Lemma builder_blocks_binds c d (nf : bool) (name_arg : option expr) (tuple_arg : expr) has_name
      (l : list (nat * (field * Expand_Debug.dfattr)))
      (key : field -> nat -> Expand_Debug.dfattr -> string) (op : field -> nat -> expr) :
  dbg_ok c ->
  (forall a, name_arg = Some a -> expr_binds c a = true) -> expr_binds c tuple_arg = true ->
  (forall f i, expr_binds c (op f i) = true) ->
  forallb (expr_binds c)
    ((if nf then
        named_builder name_arg ::
        flat_map (fun '(i, (f, fa)) =>
                    if df_ignore fa then []
                    else dbg_named_field d has_name (key f i fa) (f_ty f) fa (op f i)) l
      else
        let_builder "debug_tuple" [tuple_arg] ::
        flat_map (fun '(i, (f, fa)) =>
                    if df_ignore fa then [] else dbg_tuple_field d (f_ty f) fa (op f i)) l)
     ++ [builder_finish]) = true.
Proof.
  intros Hc Ha Ht Ho. rewrite forallb_app. apply andb_true_iff. split; [|reflexivity].
  destruct nf; cbn [forallb].
  - rewrite named_builder_binds by assumption. cbn [andb]. rewrite forallb_flat_map.
    apply forallb_true. intros [i [f fa]]. destruct (df_ignore fa); [reflexivity|].
    apply dbg_named_field_binds; [exact Hc|apply Ho].
  - unfold let_builder at 1. destruct Hc as [Hb Hg].
    cbv beta delta [expr_binds]. cbn [walk h2_node let_names forallb String.eqb Ascii.eqb Bool.eqb].
    fold expr_binds. rewrite Hb, Ht. cbn [andb negb]. rewrite forallb_flat_map.
    apply forallb_true. intros [i [f fa]]. destruct (df_ignore fa); [reflexivity|].
    apply dbg_tuple_field_binds; [split; assumption|apply Ho].
Qed.

Lemma dbg_ok_block c b : dbg_ok c -> dbg_ok (h2_enter_block c b).
Proof. intros H. exact H. Qed.

Definition d_keep (x : nat * (field * Expand_Debug.dfattr)) : bool := negb (df_ignore (snd (snd x))).
Definition dn_key (x : nat * (field * Expand_Debug.dfattr)) : string := unraw (Expand_Debug.fname (fst (snd x))).

Lemma flat_map_ext_in {A B} (f g : A -> list B) l :
  (forall x, In x l -> f x = g x) -> flat_map f l = flat_map g l.
Proof.
  induction l as [|x l IH]; intros H; cbn; [reflexivity|].
  rewrite (H x (or_introl eq_refl)), IH; [reflexivity|]. intros y Hy. apply H. right. exact Hy.
Qed.

Lemma debug_variant_binds F traits name d v dv :
  fields_wf (v_fields v) -> debug_variant F traits name v = Ok dv ->
  h2_pnode (["self"; "f"], []) (fst (dbg_arm d dv)) = true /\
  expr_binds (h2_enter_arm (["self"; "f"], []) (fst (dbg_arm d dv))) (snd (dbg_arm d dv)) = true.
Proof.
  intros Hwf H. unfold debug_variant in H. inv_bind H.
  assert (Hblock : forall P v', (forall b, In b (pat_binders P) -> prefixb "_" b = true) ->
             expr_binds (h2_enter_arm (["self"; "f"], []) P) (dbg_arm_block d v') = true).
  { intros P v' Hcl. unfold dbg_arm_block. cbv beta delta [expr_binds]. cbn [walk h2_node let_names forallb andb].
    fold expr_binds. apply builder_blocks_binds.
    - unfold dbg_ok, h2_enter_block, h2_enter_arm. cbn [fst snd]. split.
      + apply mem_str_not_In. intros Hin. apply in_app_or in Hin. destruct Hin as [Hin|Hin].
        * specialize (Hcl _ Hin). discriminate Hcl.
        * cbn in Hin. destruct Hin as [E|[E|[]]]; discriminate E.
      + apply mem_str_not_In. intros Hin. apply in_app_or in Hin. destruct Hin as [Hin|Hin].
        * specialize (Hcl _ Hin). discriminate Hcl.
        * cbn in Hin. destruct Hin as [E|[E|[]]]; discriminate E.
    - intros a0 E. destruct (dv_name_string v'); [|discriminate E]. inversion E. reflexivity.
    - reflexivity.
    - intros f i. reflexivity. }
  destruct (v_fields v) as [fs|fs|] eqn:Ef.
  - inv_bind H. destruct (_ && _); [discriminate H|]. inversion H; subst dv. clear H.
    destruct (debug_field_attrs_fst _ _ _ _ _ Hb0) as [l0 [-> Hl]]. cbn [fields_list] in Hl.
    unfold dbg_arm. cbn [dv_fields dv_ident dv_list fst snd].
    destruct Hwf as [Hnamed Hnd].
    assert (Hbind : pat_binders
              (PStruct (RSelfV (v_name v))
                 (map (fun '(i, (f, fa)) =>
                         (Expand_Debug.fname f, Some (if df_ignore fa then PWild else PBind (Expand_Debug.arm_var f i))))
                      (indexed l0)) true false) = field_binders dn_key d_keep "_" (indexed l0)).
    { rewrite (binders_struct _ true false). unfold field_binders. apply flat_map_ext_in.
      intros [i [f fa]] Hin. unfold d_keep, dn_key. cbn [fst snd].
      destruct (df_ignore fa); [reflexivity|]. cbn [negb pat_binders]. unfold Expand_Debug.arm_var, Expand_Debug.fname.
      destruct (f_name f) eqn:En; [reflexivity|]. exfalso. apply (Hnamed f); [|exact En].
      rewrite <- Hl. apply in_map_iff. exists (f, fa). split; [reflexivity|].
      apply (in_indexed _ _ _ Hin). }
    assert (Hcl : forall b, In b (pat_binders
              (PStruct (RSelfV (v_name v))
                 (map (fun '(i, (f, fa)) =>
                         (Expand_Debug.fname f, Some (if df_ignore fa then PWild else PBind (Expand_Debug.arm_var f i))))
                      (indexed l0)) true false)) -> prefixb "_" b = true).
    { intros b. rewrite Hbind. apply field_binders_class. }
    split; [|apply Hblock; exact Hcl].
    apply (h2_pnode_class "_"); [|exact Hcl|reflexivity].
    rewrite Hbind. apply field_binders_NoDup. unfold dn_key.
    rewrite (map_indexed_snd (fun x : field * Expand_Debug.dfattr => unraw (Expand_Debug.fname (fst x))) l0).
    unfold Expand_Debug.fname. rewrite <- Hl, map_map in Hnd. exact Hnd.
  - inv_bind H. destruct (_ && _); [discriminate H|]. inversion H; subst dv. clear H.
    destruct (debug_field_attrs_fst _ _ _ _ _ Hb0) as [l0 [-> Hl]]. cbn [fields_list] in Hl.
    unfold dbg_arm. cbn [dv_fields dv_ident dv_list fst snd].
    assert (Hbind : pat_binders
              (PTuple (RSelfV (v_name v))
                 (map (fun '(i, (f, fa)) =>
                         if df_ignore fa then PWild else PBind (Expand_Debug.arm_var f i))
                      (indexed l0)) true false) = field_binders i_key d_keep "_" (indexed l0)).
    { rewrite (binders_tuple _ true false). unfold field_binders. apply flat_map_ext_in.
      intros [i [f fa]] Hin. unfold d_keep, i_key. cbn [fst snd].
      destruct (df_ignore fa); [reflexivity|]. cbn [negb pat_binders]. unfold Expand_Debug.arm_var.
      rewrite (Hwf f); [reflexivity|]. rewrite <- Hl. apply in_map_iff. exists (f, fa).
      split; [reflexivity|]. apply (in_indexed _ _ _ Hin). }
    assert (Hcl : forall b, In b (pat_binders
              (PTuple (RSelfV (v_name v))
                 (map (fun '(i, (f, fa)) =>
                         if df_ignore fa then PWild else PBind (Expand_Debug.arm_var f i))
                      (indexed l0)) true false)) -> prefixb "_" b = true).
    { intros b. rewrite Hbind. apply field_binders_class. }
    split; [|apply Hblock; exact Hcl].
    apply (h2_pnode_class "_"); [|exact Hcl|reflexivity].
    rewrite Hbind. apply field_binders_NoDup. apply indexed_keys_NoDup.
  - destruct (is_some _); [|discriminate H]. inversion H; subst dv. clear H.
    unfold dbg_arm. cbn [dv_fields dv_ident fst snd]. split; [reflexivity|].
    unfold opt_str_args. cbn [dv_name_string]. destruct (name_string name _); reflexivity.
Qed.

Theorem debug_binds F traits d m items :
  data_wf (d_data d) ->
  expand_debug F traits d m = Ok items -> forallb item_binds items = true.
Proof.
  intros Hwf. unfold expand_debug. intros H. destruct (d_data d) as [fs|vs|fs] eqn:Ed.
  - inv_bind H. inv_bind H. destruct (_ && _); [discriminate H|].
    inversion H; subst items. cbn [forallb]. unfold dbg_item.
    rewrite one_fn_item_binds; [reflexivity|reflexivity|].
    unfold dbg_struct_body at 2. apply builder_blocks_binds.
    + split; reflexivity.
    + intros a1 E. destruct (tname_ident _ _); [|discriminate E]. inversion E. reflexivity.
    + reflexivity.
    + intros f i. reflexivity.
  - inv_bind H. inv_bind H. destruct (_ && _); [discriminate H|].
    inversion H; subst items. cbn [forallb]. unfold dbg_item.
    rewrite one_fn_item_binds; [reflexivity|reflexivity|]. unfold dbg_enum_body.
    destruct (is_nil a0); [reflexivity|]. bsimpl. rewrite andb_true_r.
    apply (arms_binds ["self"; "f"] [] (dbg_arm d) a0).
    apply (mapM_Forall_r _ _ _ _ Hb0). intros v dv Hin Hv.
    apply (debug_variant_binds F traits _ d v dv (Hwf v Hin) Hv).
  - inv_bind H. destruct (negb (dt_unsafe a)); [discriminate H|]. inv_bind H.
    inversion H; subst items. cbn [forallb]. unfold dbg_item.
    rewrite one_fn_item_binds; [reflexivity|reflexivity|].
    destruct (tname_ident _ _); reflexivity.
Qed.

(** * Eq, Copy, Default : no pattern, no `let` *)
Theorem eq_binds F traits d m items :
  expand_eq F traits d m = Ok items -> forallb item_binds items = true.
Proof.
  unfold expand_eq. intros H. inv_bind H.
  destruct (has_trait TPartialEq F && has_trait TPartialEq traits).
  - inversion H. reflexivity.
  - inv_bind H. inversion H. reflexivity.
Qed.

Theorem copy_binds F traits d m items :
  expand_copy F traits d m = Ok items -> forallb item_binds items = true.
Proof.
  unfold expand_copy. intros H. inv_bind H.
  destruct (has_trait TClone F && has_trait TClone traits).
  - inversion H. reflexivity.
  - inv_bind H. inversion H. reflexivity.
Qed.

Lemma dvalue_expr_binds c v : expr_binds c (dvalue_expr v) = true.
Proof. destruct v; reflexivity. Qed.

Theorem default_binds F traits d m items :
  expand_default F traits d m = Ok items -> forallb item_binds items = true.
Proof.
  intros H. unfold expand_default in H. inv_bind H. inversion H; subst items.
  unfold default_items. cbn [forallb]. rewrite andb_true_iff. split.
  - unfold default_item. apply one_fn_item_binds; [reflexivity|]. cbn [forallb]. rewrite andb_true_r.
    destruct (dp_body a) as [v|p|p fs|p fs]; cbn [dbody_expr].
    + apply dvalue_expr_binds.
    + reflexivity.
    + bsimpl. rewrite forallb_map. apply forallb_true. intros [n v]. apply dvalue_expr_binds.
    + bsimpl. rewrite forallb_map. apply forallb_true. intros v. apply dvalue_expr_binds.
  - destruct (dp_new a); reflexivity.
Qed.

(** * Deref / DerefMut / Into : the arm that picks one field binds the field's own name
    (`Self::V { name, .. } => name`) or `_<index>`; the only name in scope is `self` *)
Lemma pick_pat_binds v i f :
  f_name f <> Some "self" -> h2_pnode (["self"], []) (pick_pat v i f) = true.
Proof.
  intros Hn. unfold pick_pat. destruct (f_name f) as [n|].
  - unfold h2_pnode. cbn [pat_binders flat_map snd fst app nodupb mem_str existsb negb andb forallb].
    destruct (String.eqb n "self") eqn:E; [|reflexivity].
    apply String.eqb_eq in E. subst n. exfalso. apply Hn. reflexivity.
  - unfold h2_pnode.
    assert (Hb : pat_binders (PTuple (RSelfV v) (repeat PWild i ++ [PBind ("_" ^^ dec i)]) false true)
                 = ["_" ^^ dec i]).
    { cbn [pat_binders]. rewrite flat_map_app. cbn [flat_map pat_binders app].
      replace (flat_map pat_binders (repeat PWild i)) with (@nil string); [reflexivity|].
      induction i; cbn; [reflexivity|assumption]. }
    rewrite Hb. reflexivity.
Qed.

Lemma deref_variant_field F own traits v x :
  deref_variant F own traits v = Ok x -> In (snd (snd x)) (fields_list (v_fields v)).
Proof.
  intros H. unfold deref_variant in H. inv_bind H.
  destruct (v_fields v) as [l|l|]; [| |discriminate H]; inv_bind H; inversion H; subst x;
    cbn [snd fields_list]; apply (deref_select_in _ _ _ _ _ Hb0).
Qed.

Lemma deref_match_binds F own traits vs l :
  (forall v f, In v vs -> In f (fields_list (v_fields v)) -> f_name f <> Some "self") ->
  mapM (deref_variant F own traits) vs = Ok l ->
  forallb (expr_binds (["self"], [])) (deref_match l) = true.
Proof.
  intros Hn Hl. unfold deref_match. bsimpl. rewrite andb_true_r.
  apply (arms_binds ["self"] [] deref_arm l).
  apply (mapM_Forall_r _ _ _ _ Hl). intros v x Hin Hv.
  pose proof (deref_variant_field _ _ _ _ _ Hv) as Hf. destruct x as [vn [i f]]. cbn [snd] in Hf.
  rewrite deref_arm_pick. split; [apply pick_pat_binds; apply (Hn v f Hin Hf)|].
  unfold deref_arm. destruct (f_name f); reflexivity.
Qed.

Lemma names_ok_enum d vs :
  d_data d = DEnum vs -> field_names_ok (d_data d) ->
  forall v f, In v vs -> In f (fields_list (v_fields v)) -> f_name f <> Some "self".
Proof.
  intros Ed Hn v f Hv Hf. apply Hn. rewrite Ed. apply in_flat_map. exists v. split; assumption.
Qed.

Theorem deref_binds F traits d m items :
  field_names_ok (d_data d) ->
  expand_deref F traits d m = Ok items -> forallb item_binds items = true.
Proof.
  intros Hn H. unfold expand_deref in H. inv_bind H. inversion H; subst items. clear H.
  destruct (d_data d) as [fs|vs|fs] eqn:Ed.
  - unfold deref_analyse in Hb. rewrite Ed in Hb. inv_bind Hb. inv_bind Hb. inversion Hb; subst a.
    cbn [deref_emit forallb]. unfold deref_item, deref_struct_body.
    destruct (is_ref_type _); reflexivity.
  - destruct (deref_analyse_enum _ _ _ _ _ _ _ Ed Hb) as [x [r [-> Hl]]].
    cbn [deref_emit forallb]. unfold deref_item, item_binds.
    cbn [i_members forallb member_binds nodupb mem_str existsb negb andb].
    unfold walk_body. fold expr_binds. unfold h2_enter_block. cbn [fst snd deref_match flat_map let_names app].
    rewrite (deref_match_binds F TDeref traits vs (x :: r) (names_ok_enum d vs Ed ltac:(rewrite Ed; exact Hn)) Hl).
    reflexivity.
  - unfold deref_analyse in Hb. rewrite Ed in Hb. discriminate Hb.
Qed.

Theorem deref_mut_binds F traits d m items :
  field_names_ok (d_data d) ->
  expand_deref_mut F traits d m = Ok items -> forallb item_binds items = true.
Proof.
  intros Hn H. unfold expand_deref_mut in H. inv_bind H. inversion H; subst items. clear H.
  destruct (d_data d) as [fs|vs|fs] eqn:Ed.
  - unfold deref_analyse in Hb. rewrite Ed in Hb. inv_bind Hb. inv_bind Hb. inversion Hb; subst a.
    cbn [deref_mut_emit forallb]. unfold deref_mut_item, deref_mut_struct_body.
    destruct (is_ref_type _); reflexivity.
  - destruct (deref_analyse_enum _ _ _ _ _ _ _ Ed Hb) as [x [r [-> Hl]]].
    cbn [deref_mut_emit forallb]. unfold deref_mut_item, item_binds.
    cbn [i_members forallb member_binds nodupb mem_str existsb negb andb].
    unfold walk_body. fold expr_binds. unfold h2_enter_block. cbn [fst snd deref_match flat_map let_names app].
    rewrite (deref_match_binds F TDerefMut traits vs (x :: r) (names_ok_enum d vs Ed ltac:(rewrite Ed; exact Hn)) Hl).
    reflexivity.
  - unfold deref_analyse in Hb. rewrite Ed in Hb. discriminate Hb.
Qed.

Lemma into_conv_binds c target ch operand :
  expr_binds c operand = true -> expr_binds c (into_conv target ch operand) = true.
Proof.
  intros Ho. destruct ch as [[i f] m]. unfold into_conv. destruct m as [p|].
  - bsimpl. rewrite Ho. reflexivity.
  - destruct (flat_eqb target (hash_type (f_ty f))); [exact Ho|]. bsimpl. rewrite Ho. reflexivity.
Qed.

Theorem into_binds F traits d ms items :
  field_names_ok (d_data d) ->
  expand_into F traits d ms = Ok items -> forallb item_binds items = true.
Proof.
  intros Hn H. unfold expand_into in H. inv_bind H. inversion H; subst items. clear H.
  unfold into_analyse, into_results in Hb. inv_bind Hb.
  destruct (d_data d) as [fs|vs|fs] eqn:Ed; [| |discriminate Hb0].
  - inv_bind Hb0. inv_bind Hb0. inversion Hb0; subst a0. apply mapM_id_map in Hb.
    unfold into_emit. rewrite forallb_map. apply forallb_In. intros x Hx.
    destruct (Forall2_in_r _ _ _ Hb x Hx) as [t [_ Ht]]. cbn beta in Ht.
    unfold into_struct_target in Ht. inv_bind Ht. inversion Ht; subst x.
    destruct t as [target b]. cbn [into_emit1]. destruct a0 as [[i f] m].
    unfold into_struct_item, into_item. apply one_fn_item_binds; [reflexivity|]. cbn [forallb].
    rewrite into_conv_binds; reflexivity.
  - inv_bind Hb0. inv_bind Hb0. inversion Hb0; subst a0. apply mapM_id_map in Hb.
    assert (HF1 : Forall2 (fun v (x : variant * list (field * into_fattr)) =>
                     In v vs /\ fst x = v /\ map fst (snd x) = fields_list (v_fields v)) vs a2).
    { apply (Forall2_mapM_In _ _ _ _ Hb2). intros v x Hin Hv. inv_bind Hv. inv_bind Hv.
      inversion Hv; subst x. split; [exact Hin|]. split; [reflexivity|].
      apply (into_field_attrs_fst _ _ _ _ _ Hb4). }
    unfold into_emit. rewrite forallb_map. apply forallb_In. intros x Hx.
    destruct (Forall2_in_r _ _ _ Hb x Hx) as [t [_ Ht]]. cbn beta in Ht.
    unfold into_enum_target in Ht. inv_bind Ht. destruct (is_nil a0); [discriminate Ht|].
    inversion Ht; subst x. destruct t as [target b]. cbn [into_emit1 fst] in *.
    unfold into_enum_item, into_item. apply one_fn_item_binds; [reflexivity|].
    bsimpl. rewrite andb_true_r. apply (arms_binds ["self"] [] (into_arm target) a0).
    assert (HF : Forall2 (fun (v : variant) x =>
               h2_pnode (["self"], []) (fst (into_arm target x)) = true /\
               expr_binds (h2_enter_arm (["self"], []) (fst (into_arm target x)))
                          (snd (into_arm target x)) = true) vs a0).
    { refine (Forall2_trans _ _ _ _ _ _ _ HF1 (mapM_ok_Forall2 _ _ _ Hb3)).
      intros v [v' fl] x [Hin [Hv Hfl]] Hc. cbn [fst snd] in Hv, Hfl. subst v'.
      unfold into_variant_choice in Hc. cbn [fst snd] in Hc.
      assert (Hsel : exists i f m, x = (v_name v, (i, f, m)) /\ In f (fields_list (v_fields v))).
      { destruct (v_fields v) as [l|l|]; [| |discriminate Hc]; inv_bind Hc; inversion Hc; subst x;
          match goal with Hsel : into_select target fl = Ok ?ch |- _ =>
            destruct ch as [[i f] m]; exists i, f, m; (split; [reflexivity|]);
            pose proof (into_select_spec target fl) as Hs; rewrite Hsel in Hs;
            destruct Hs as [fa [Hnth _]]; rewrite <- Hfl; apply in_map_iff; exists (f, fa);
            (split; [reflexivity|apply (nth_error_In _ _ Hnth)])
          end. }
      destruct Hsel as [i [f [m [-> Hf]]]]. rewrite into_arm_pick. split.
      - apply pick_pat_binds. apply (names_ok_enum d vs Ed ltac:(rewrite Ed; exact Hn) v f Hin Hf).
      - unfold into_arm. destruct (f_name f); cbn [snd]; apply into_conv_binds; reflexivity. }
    clear - HF. induction HF as [|v x vs a0 Hx _ IH]; constructor; assumption.
Qed.

(** * the whole macro *)
Lemma handler_binds F traits d t h m items :
  data_wf (d_data d) -> field_names_ok (d_data d) ->
  In (t, h) handlers -> h F traits d m = Ok items -> forallb item_binds items = true.
Proof.
  intros Hwf Hn Hin Hh. unfold handlers in Hin. cbn [In] in Hin.
  repeat (destruct Hin as [Hin|Hin]; [inversion Hin; subst t h; clear Hin|]); [..|destruct Hin].
  - apply (debug_binds _ _ _ _ _ Hwf Hh).
  - apply (clone_binds _ _ _ _ _ Hwf Hh).
  - apply (copy_binds _ _ _ _ _ Hh).
  - apply (partial_eq_binds _ _ _ _ _ Hwf Hh).
  - apply (eq_binds _ _ _ _ _ Hh).
  - apply (partial_ord_binds _ _ _ _ _ Hwf Hh).
  - apply (ord_binds _ _ _ _ _ Hwf Hh).
  - apply (hash_binds _ _ _ _ _ Hwf Hh).
  - apply (default_binds _ _ _ _ _ Hh).
  - apply (deref_binds _ _ _ _ _ Hn Hh).
  - apply (deref_mut_binds _ _ _ _ _ Hn Hh).
Qed.

Theorem expand_binds F d items :
  data_wf (d_data d) -> field_names_ok (d_data d) ->
  expand F d = Ok items -> forallb item_binds items = true.
Proof.
  intros Hwf Hn. apply expand_generic.
  - intros traits t h m its. apply handler_binds; assumption.
  - intros traits ms its. apply into_binds. exact Hn.
Qed.
