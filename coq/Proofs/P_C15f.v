(** C15, the other direction — joint acceptance: the per-handler equalities (P_C15d_*.v) plugged
    into the driver (P_C15e.v). *)
From Educe.Proofs Require Export P_C15e P_C15d_a P_C15d_b P_C15d_c P_C15d_d P_C15d_e P_C15d_f P_C15d_g.

Section AllReflect.
  Variables (F : features) (d : dinput) (tm : tmap).
  Hypothesis Hv : vinput F (map fst tm) d.

  Lemma Htr_for t : forall t', keep_for t t' = true ->
    has_trait t' (map fst (fk (keep_for t) tm)) = has_trait t' (map fst tm).
  Proof. intros t' Hk. rewrite fk_has, Hk. reflexivity. Qed.

  Ltac reflect_with X t :=
    let m := fresh "m" in let its := fresh "its" in let H := fresh "H" in
    intros m its H; rewrite <- H; symmetry; unfold restrict;
    apply X; first [exact (Htr_for t) | exact Hv | reflexivity].

  Theorem all_reflect : forall t h, In (t, h) handlers -> reflects F d tm t h.
  Proof.
    intros t h Hin. unfold handlers in Hin. cbn [In] in Hin. unfold reflects.
    repeat (destruct Hin as [Hin|Hin]; [injection Hin as <- <-|]); [..|destruct Hin].
    - reflect_with expand_debug_e TDebug.
    - reflect_with expand_clone_e TClone.
    - reflect_with expand_copy_e TCopy.
    - reflect_with expand_partial_eq_e TPartialEq.
    - reflect_with expand_eq_e TEq.
    - reflect_with expand_partial_ord_e TPartialOrd.
    - reflect_with expand_ord_e TOrd.
    - reflect_with expand_hash_e THash.
    - reflect_with expand_default_e TDefault.
    - reflect_with expand_deref_e TDeref.
    - reflect_with expand_deref_mut_e TDerefMut.
  Qed.

  Theorem into_reflect : reflects_into F d tm.
  Proof.
    unfold reflects_into. reflect_with expand_into_e TInto.
  Qed.
End AllReflect.

(** * joint acceptance *)
Theorem joint_acceptance F d tm :
  foldM (collect_attr F) [] (d_attrs d) = Ok tm ->
  tm <> [] ->
  metas_educed F d = true ->
  (forall t, In t (map fst tm) -> exists its, expand F (restrict (keep_for t) d) = Ok its) ->
  exists items, expand F d = Ok items.
Proof.
  intros Hc Hne Hm Heach. pose proof (metas_educed_v F d tm Hc Hm) as Hv.
  apply (joint_acceptance_gen F d tm Hc Hne).
  - intros t h Hin _. apply all_reflect; assumption.
  - intros _. apply into_reflect; assumption.
  - exact Heach.
Qed.

(** * the type-level conjunct of [metas_educed] holds whenever the collection succeeds: every
      type-level meta names an enabled trait, and that trait is — by construction — educed *)
Lemma teq_refl t : trait_eqb t t = true.
Proof. destruct t; reflexivity. Qed.

Lemma has_push t x (tm : tmap) t' :
  has_trait t' (map fst (tmap_push t x tm)) = has_trait t' (map fst tm).
Proof.
  induction tm as [|[k v] r IH]; [reflexivity|]. cbn [tmap_push].
  destruct (trait_eqb k t); [reflexivity|]. unfold has_trait in *. cbn [map fst existsb]. rewrite IH.
  reflexivity.
Qed.

Lemma has_app t (acc : tmap) t0 v :
  has_trait t (map fst (acc ++ [(t0, v)])) = has_trait t (map fst acc) || trait_eqb t t0.
Proof. unfold has_trait. rewrite map_app, existsb_app. cbn [map fst existsb]. rewrite orb_false_r. reflexivity. Qed.

Lemma tmap_get_has t (tm : tmap) v : tmap_get t tm = Some v -> has_trait t (map fst tm) = true.
Proof.
  induction tm as [|[k w] r IH]; cbn [tmap_get]; [discriminate|]. unfold has_trait in *. cbn [map fst existsb].
  destruct (trait_eqb k t) eqn:E.
  - apply trait_eqb_eq in E. subst. rewrite teq_refl. reflexivity.
  - intros H. rewrite (IH H). apply orb_true_r.
Qed.

Definition tm_mono (a b : tmap) : Prop :=
  forall t, has_trait t (map fst a) = true -> has_trait t (map fst b) = true.
Definition mvalid (F : features) (tm : tmap) (m : meta) : Prop :=
  exists t, trait_from_path F (meta_path m) = Some t /\ has_trait t (map fst tm) = true.

Lemma collect_meta_ok F acc m acc' :
  collect_meta F acc m = Ok acc' -> tm_mono acc acc' /\ mvalid F acc' m.
Proof.
  unfold collect_meta. destruct (trait_from_path F (meta_path m)) as [t|] eqn:Et; [|discriminate].
  destruct (tmap_get t acc) as [v|] eqn:Eg.
  - destruct (trait_eqb t TInto); [|discriminate]. intros H. injection H as <-. split.
    + intros t' H'. rewrite has_push. exact H'.
    + exists t. split; [exact Et|]. rewrite has_push. apply (tmap_get_has _ _ _ Eg).
  - intros H. injection H as <-. split.
    + intros t' H'. rewrite has_app, H'. reflexivity.
    + exists t. split; [exact Et|]. rewrite has_app, teq_refl. apply orb_true_r.
Qed.

Lemma mvalid_mono F a b m : tm_mono a b -> mvalid F a m -> mvalid F b m.
Proof. intros Hm [t [Et Eh]]. exists t. split; [exact Et|apply Hm; exact Eh]. Qed.

Lemma collect_metas_ok F ms : forall acc acc',
  foldM (collect_meta F) acc ms = Ok acc' -> tm_mono acc acc' /\ Forall (mvalid F acc') ms.
Proof.
  induction ms as [|m r IH]; intros acc acc' H; cbn [foldM] in H.
  - injection H as <-. split; [intros t Ht; exact Ht|constructor].
  - bo H. destruct (collect_meta_ok _ _ _ _ Hb) as [M1 V1]. destruct (IH _ _ H) as [M2 V2]. split.
    + intros t Ht. apply M2, M1, Ht.
    + constructor; [apply (mvalid_mono F a acc' m M2 V1)|exact V2].
Qed.

Definition avalid (F : features) (tm : tmap) (a : attr) : Prop :=
  is_educe a = true -> forall dl ts, a_meta a = AMList dl ts ->
  exists ms, parse_metas ts = Ok ms /\ Forall (mvalid F tm) ms.

Lemma collect_attrs_ok F attrs : forall acc tm,
  foldM (collect_attr F) acc attrs = Ok tm -> tm_mono acc tm /\ Forall (avalid F tm) attrs.
Proof.
  induction attrs as [|a r IH]; intros acc tm H; cbn [foldM] in H.
  - injection H as <-. split; [intros t Ht; exact Ht|constructor].
  - bo H. destruct (IH _ _ H) as [M2 V2]. unfold collect_attr in Hb.
    destruct (is_educe a) eqn:Ee.
    + destruct (a_meta a) as [| |dl ts] eqn:Em; try discriminate. bo Hb.
      destruct (collect_metas_ok _ _ _ _ Hb) as [M1 V1]. split.
      * intros t Ht. apply M2, M1, Ht.
      * constructor; [|exact V2]. intros _ dl' ts' E. rewrite Em in E. injection E as <- <-. exists a1.
        split; [exact Hb0|]. revert V1. apply Forall_impl. intros m. apply mvalid_mono. exact M2.
    + injection Hb as <-. split; [exact M2|]. constructor; [|exact V2].
      intros E. rewrite Ee in E. discriminate.
Qed.

Lemma valid_metas_scan F tm ms : Forall (mvalid F tm) ms -> forall u : option unit,
  foldM (scan_meta F (fun _ => false) (fun _ : meta => Ok Datatypes.tt) (map fst tm)) u ms = Ok u.
Proof.
  induction 1 as [|m r [t [Et Eh]] Hr IH]; intros u; [reflexivity|]. cbn [foldM].
  unfold scan_meta at 1. rewrite Et, Eh. cbn [negb bind]. apply IH.
Qed.

Lemma valid_attrs_scan F tm attrs : Forall (avalid F tm) attrs -> forall u : option unit,
  foldM (scan_attr F (fun _ => false) (fun _ : meta => Ok Datatypes.tt) (map fst tm)) u attrs = Ok u.
Proof.
  induction 1 as [|a r Ha Hr IH]; intros u; [reflexivity|]. cbn [foldM].
  assert (E : scan_attr F (fun _ => false) (fun _ : meta => Ok Datatypes.tt) (map fst tm) u a = Ok u).
  { unfold scan_attr. destruct (is_educe a) eqn:Ee; [|reflexivity].
    destruct (a_meta a) as [| |dl ts] eqn:Em; try reflexivity.
    destruct (Ha Ee dl ts Em) as [ms [Hp Hv]]. rewrite Hp. cbn [bind].
    apply valid_metas_scan. exact Hv. }
  rewrite E. cbn [bind]. apply IH.
Qed.

Theorem collect_valid F attrs tm :
  foldM (collect_attr F) [] attrs = Ok tm -> attrs_valid F (map fst tm) attrs = true.
Proof.
  intros H. destruct (collect_attrs_ok F attrs [] tm H) as [_ V].
  unfold attrs_valid, scan_attrs. rewrite (valid_attrs_scan F tm attrs V None). reflexivity.
Qed.

(** so [metas_educed] is a condition on the variants and fields only *)
Theorem metas_educed_data F d tm :
  foldM (collect_attr F) [] (d_attrs d) = Ok tm ->
  metas_educed F d = data_valid F (map fst tm) (d_data d).
Proof.
  intros H. unfold metas_educed. rewrite H, (collect_valid F _ _ H). reflexivity.
Qed.
