(** C15 — acceptance of the whole request IFF acceptance of every educed trait's own part.

    [joint_acceptance] (P_C15f.v) is "parts accepted => whole accepted"; [expand_restrict]
    (P_C15c.v) is the converse up to the [E_not_set_up] case: the restricted expansion is refused
    exactly when the kept items are empty.  Here: for a trait [t] named at type level, the items
    kept by [keep_for t] are NOT empty — [t]'s handler output is non-empty, or [t] is a companion
    (Copy / Eq / PartialOrd) beside its educed primary (Clone / PartialEq / Ord), the primary is in
    [keep_for t] and ITS output is non-empty ([handler_nonempty_any], P_C01g.v); an accepted
    `Into` request with at least one meta yields at least one item. *)
From Educe.Proofs Require Export P_C15f P_C01g.

(** * the trait map collected at type level: every key is an enabled trait, every value is
      a non-empty list of metas *)
Definition tm_good (F : features) (tm : tmap) : Prop :=
  Forall (fun kv => has_trait (fst kv) F = true /\ snd kv <> []) tm.

Lemma tmap_push_good F t x tm : tm_good F tm -> tm_good F (tmap_push t x tm).
Proof.
  induction 1 as [|[k v] r [Hk Hv] Hr IH]; [constructor|]. cbn [tmap_push].
  destruct (trait_eqb k t).
  - constructor; [|exact Hr]. cbn [fst snd] in *. split; [exact Hk|].
    destruct v; [congruence|discriminate].
  - constructor; [split; assumption|exact IH].
Qed.

Lemma trait_from_path_enabled F p t : trait_from_path F p = Some t -> has_trait t F = true.
Proof.
  unfold trait_from_path. destruct (get_ident p) as [s|]; [|discriminate].
  destruct (trait_of_name s) as [t'|]; [|discriminate].
  destruct (has_trait t' F) eqn:E; [|discriminate]. intros H. injection H as <-. exact E.
Qed.

Lemma collect_meta_good F acc m acc' :
  collect_meta F acc m = Ok acc' -> tm_good F acc -> tm_good F acc'.
Proof.
  unfold collect_meta. destruct (trait_from_path F (meta_path m)) as [t|] eqn:Et; [|discriminate].
  destruct (tmap_get t acc).
  - destruct (trait_eqb t TInto); [|discriminate]. intros H Hg. injection H as <-.
    apply tmap_push_good. exact Hg.
  - intros H Hg. injection H as <-. apply Forall_app. split; [exact Hg|].
    constructor; [|constructor]. cbn [fst snd]. split; [|discriminate].
    apply (trait_from_path_enabled F _ _ Et).
Qed.

Lemma collect_metas_good F ms : forall acc acc',
  foldM (collect_meta F) acc ms = Ok acc' -> tm_good F acc -> tm_good F acc'.
Proof.
  induction ms as [|m r IH]; intros acc acc' H Hg; cbn [foldM] in H.
  - injection H as <-. exact Hg.
  - bo H. apply (IH _ _ H). apply (collect_meta_good F _ _ _ Hb Hg).
Qed.

Lemma collect_attrs_good F attrs : forall acc tm,
  foldM (collect_attr F) acc attrs = Ok tm -> tm_good F acc -> tm_good F tm.
Proof.
  induction attrs as [|a r IH]; intros acc tm H Hg; cbn [foldM] in H.
  - injection H as <-. exact Hg.
  - bo H. apply (IH _ _ H). unfold collect_attr in Hb. destruct (is_educe a).
    + destruct (a_meta a) as [| |dl ts]; try discriminate. bo Hb.
      apply (collect_metas_good F _ _ _ Hb Hg).
    + injection Hb as <-. exact Hg.
Qed.

Theorem collect_good F attrs tm : foldM (collect_attr F) [] attrs = Ok tm -> tm_good F tm.
Proof. intros H. apply (collect_attrs_good F attrs [] tm H). constructor. Qed.

Lemma good_get F tm t :
  tm_good F tm -> In t (map fst tm) ->
  has_trait t F = true /\ exists m r, tmap_get t tm = Some (m :: r).
Proof.
  induction 1 as [|[k v] l [Hk Hv] Hl IH]; intros Hin; [destruct Hin|].
  cbn [fst snd map tmap_get] in *. destruct (trait_eqb k t) eqn:E.
  - apply trait_eqb_eq in E. subst k. split; [exact Hk|].
    destruct v as [|m r]; [congruence|]. exists m, r. reflexivity.
  - destruct Hin as [->|Hin]; [rewrite teq_refl in E; discriminate|]. apply IH. exact Hin.
Qed.

(** a named trait is an enabled trait: [has_trait t F = false] is impossible for a trait in the
    collected map *)
Theorem collected_enabled F attrs tm t :
  foldM (collect_attr F) [] attrs = Ok tm -> In t (map fst tm) -> has_trait t F = true.
Proof. intros H Hin. exact (proj1 (good_get F tm t (collect_good F attrs tm H) Hin)). Qed.

(** * an accepted `Into` request with at least one meta yields at least one item *)
Lemma into_type_meta_ne b acc m acc' : into_type_meta b acc m = Ok acc' -> acc' <> [].
Proof.
  unfold into_type_meta. destruct m as [p|p v|p dl ts]; try discriminate.
  destruct (negb b); [discriminate|]. intros H. bo H. destruct a as [ty ms]. bo H.
  destruct a as [u bd]. destruct (ty_mem (hash_type ty) acc); [discriminate|]. injection H as <-.
  destruct acc; discriminate.
Qed.

Lemma into_build_ne b ms : forall acc r,
  foldM (into_type_meta b) acc ms = Ok r -> acc <> [] \/ ms <> [] -> r <> [].
Proof.
  induction ms as [|m l IH]; intros acc r H Hne; cbn [foldM] in H.
  - injection H as <-. destruct Hne as [Hne|Hne]; [exact Hne|congruence].
  - bo H. apply (IH _ _ H). left. apply (into_type_meta_ne _ _ _ _ Hb).
Qed.

Theorem expand_into_nonempty F traits d ms items :
  ms <> [] -> expand_into F traits d ms = Ok items -> items <> [].
Proof.
  intros Hne H. unfold expand_into in H. bo H. injection H as <-. rename a into p.
  unfold into_analyse in Hb. bo Hb. rename a into rs.
  apply mapM_ok_length in Hb.
  assert (Hrs : rs <> []).
  { unfold into_results in Hb0. destruct (d_data d) as [fs|vs|fs]; [| |discriminate].
    - bo Hb0. bo Hb0. injection Hb0 as <-. unfold into_build_type in Hb1.
      pose proof (into_build_ne _ _ _ _ Hb1 (or_intror Hne)) as Ht.
      destruct a; [congruence|discriminate].
    - bo Hb0. bo Hb0. injection Hb0 as <-. unfold into_build_type in Hb1.
      pose proof (into_build_ne _ _ _ _ Hb1 (or_intror Hne)) as Ht.
      destruct a; [congruence|discriminate]. }
  unfold into_emit. destruct p; [|discriminate]. destruct rs; [congruence|discriminate].
Qed.

(** * the kept parts are not empty *)
Lemma mapM_ok_in2 {A B} (f : A -> outcome B) l : forall r x,
  mapM f l = Ok r -> In x l -> exists y, f x = Ok y /\ In y r.
Proof.
  induction l as [|a l IH]; intros r x H Hin; [destruct Hin|]. cbn [mapM] in H. bo H. bo H.
  injection H as <-. destruct Hin as [<-|Hin].
  - exists a0. split; [exact Hb|left; reflexivity].
  - destruct (IH _ _ Hb0 Hin) as [y [Hy Hiny]]. exists y. split; [exact Hy|right; exact Hiny].
Qed.

Lemma part_in_nonempty keep ps t its :
  In (t, its) ps -> keep t = true -> its <> [] -> parts_items (map (keep_part keep) ps) <> [].
Proof.
  intros Hin Hk Hne. unfold parts_items. apply (concat_in_nonempty _ its); [|exact Hne].
  apply in_map_iff. exists (keep_part keep (t, its)). split.
  - unfold keep_part. cbn [fst snd]. rewrite Hk. reflexivity.
  - apply in_map_iff. exists (t, its). split; [reflexivity|exact Hin].
Qed.

Lemma handler_part_in F tr d tm hp t h m r :
  mapM (handler_part F tr d tm) handlers = Ok hp ->
  In (t, h) handlers -> has_trait t F = true -> tmap_get t tm = Some (m :: r) ->
  exists its, h F tr d m = Ok its /\ In (t, its) hp.
Proof.
  intros Hm Hin Hf Hg. destruct (mapM_ok_in2 _ _ _ _ Hm Hin) as [y [Hy Hiny]].
  unfold handler_part in Hy. rewrite Hf, Hg in Hy. bo Hy. injection Hy as <-.
  exists a. split; assumption.
Qed.

Lemma keep_for_primary :
  keep_for TCopy TClone = true /\ keep_for TEq TPartialEq = true /\ keep_for TPartialOrd TOrd = true.
Proof. repeat split. Qed.

Theorem kept_nonempty F d tm ps t :
  foldM (collect_attr F) [] (d_attrs d) = Ok tm ->
  expand_parts F d = Ok ps ->
  In t (map fst tm) ->
  parts_items (map (keep_part (keep_for t)) ps) <> [].
Proof.
  intros Hc Hps Hin. pose proof (collect_good F _ _ Hc) as Hg.
  unfold expand_parts in Hps. rewrite Hc in Hps. cbn [bind] in Hps.
  bo Hps. rename a into hp. bo Hps. rename a into il. injection Hps as <-.
  destruct (good_get F tm t Hg Hin) as [Hf [m [r Hget]]].
  assert (Hprim : forall p hpr, In (p, hpr) handlers -> In p (map fst tm) ->
            p <> TCopy -> p <> TEq -> p <> TPartialOrd -> keep_for t p = true ->
            parts_items (map (keep_part (keep_for t)) (hp ++ [(TInto, il)])) <> []).
  { intros p hpr Hinp Hp N1 N2 N3 Hk.
    destruct (good_get F tm p Hg Hp) as [Hfp [mp [rp Hgp]]].
    destruct (handler_part_in F _ d tm hp p hpr mp rp Hb Hinp Hfp Hgp) as [its [Hits Hi]].
    destruct (handler_nonempty_any F _ d p hpr mp its Hinp Hits) as [Hn|[[E _]|[[E _]|[E _]]]];
      [|contradiction|contradiction|contradiction].
    apply (part_in_nonempty _ _ p its); [apply in_or_app; left; exact Hi|exact Hk|exact Hn]. }
  destruct (trait_eqb t TInto) eqn:Ei.
  - (* Into *)
    apply trait_eqb_eq in Ei. subst t. rewrite Hget, Hf in Hb0.
    apply (part_in_nonempty _ _ TInto il).
    + apply in_or_app. right. left. reflexivity.
    + apply keep_for_self.
    + apply (expand_into_nonempty F (map fst tm) d (m :: r) il); [discriminate|exact Hb0].
  - assert (Hni : t <> TInto) by (intros ->; discriminate Ei).
    destruct (handler_of t Hni) as [h Hh].
    destruct (handler_part_in F _ d tm hp t h m r Hb Hh Hf Hget) as [its [Hits Hi]].
    destruct (handler_nonempty_any F _ d t h m its Hh Hits) as [Hn|[[-> Hp]|[[-> Hp]|[-> Hp]]]].
    + apply (part_in_nonempty _ _ t its);
        [apply in_or_app; left; exact Hi|apply keep_for_self|exact Hn].
    + apply andb_prop in Hp as [_ Hp]. apply has_trait_in in Hp.
      apply (Hprim TClone expand_clone); [unfold handlers; cbn [In]; tauto|exact Hp| | | |reflexivity];
        discriminate.
    + apply andb_prop in Hp as [_ Hp]. apply has_trait_in in Hp.
      apply (Hprim TPartialEq expand_partial_eq);
        [unfold handlers; cbn [In]; tauto|exact Hp| | | |reflexivity]; discriminate.
    + apply andb_prop in Hp as [_ Hp]. apply has_trait_in in Hp.
      apply (Hprim TOrd expand_ord); [unfold handlers; cbn [In]; tauto|exact Hp| | | |reflexivity];
        discriminate.
Qed.

(** * whole accepted => every named trait's part accepted, with exactly the kept items
      (no hypothesis besides the collection: neither [tm <> []] nor [metas_educed] is used) *)
Theorem whole_to_parts F d tm items :
  foldM (collect_attr F) [] (d_attrs d) = Ok tm ->
  expand F d = Ok items ->
  exists ps, expand_parts F d = Ok ps /\ items = parts_items ps /\
    forall t, In t (map fst tm) ->
      parts_items (map (keep_part (keep_for t)) ps) <> [] /\
      expand F (restrict (keep_for t) d) = Ok (parts_items (map (keep_part (keep_for t)) ps)).
Proof.
  intros Hc H.
  destruct (expand_restrict F (keep_for TDebug) d items (keep_for_closed _) H) as [ps [Hps [Hi _]]].
  exists ps. split; [exact Hps|]. split; [exact Hi|]. intros t Hin.
  pose proof (kept_nonempty F d tm ps t Hc Hps Hin) as Hne. split; [exact Hne|].
  destruct (expand_restrict F (keep_for t) d items (keep_for_closed t) H) as [ps' [Hps' [_ Hr]]].
  rewrite Hps in Hps'. injection Hps' as <-. rewrite Hr.
  destruct (parts_items (map (keep_part (keep_for t)) ps)); [congruence|reflexivity].
Qed.

Theorem whole_to_each F d tm :
  foldM (collect_attr F) [] (d_attrs d) = Ok tm ->
  (exists items, expand F d = Ok items) ->
  forall t, In t (map fst tm) -> exists its, expand F (restrict (keep_for t) d) = Ok its.
Proof.
  intros Hc [items H] t Hin.
  destruct (whole_to_parts F d tm items Hc H) as [ps [_ [_ Hall]]].
  destruct (Hall t Hin) as [_ Hr]. eexists. exact Hr.
Qed.

Theorem acceptance_iff F d tm :
  foldM (collect_attr F) [] (d_attrs d) = Ok tm ->
  tm <> [] ->
  metas_educed F d = true ->
  ((exists items, expand F d = Ok items) <->
   (forall t, In t (map fst tm) -> exists its, expand F (restrict (keep_for t) d) = Ok its)).
Proof.
  intros Hc Hne Hm. split.
  - apply whole_to_each. exact Hc.
  - apply joint_acceptance; assumption.
Qed.
