(** C19 / H4 -- no emitted path starts with `std` or `alloc`: a corollary of H1. *)
From Educe.Proofs Require Export P_C19c P_C19d P_Walk.

(** ** the token judgment is monotone in the allowlist *)
Lemma tok_step_mono (A B : string -> bool) st t st' :
  (forall s, A s = true -> B s = true) -> tok_step A st t = Some st' -> tok_step B st t = Some st'.
Proof.
  intros HAB H. destruct t as [s|s|s|k x|x v r|d ts]; try exact H.
  cbn [tok_step] in H |- *. destruct st; try exact H;
    (destruct (mem_str s plain_keywords); [exact H|]);
    (destruct (A s) eqn:Ea; [rewrite (HAB s Ea); exact H|discriminate H]).
Qed.

Lemma seq_hyg_mono (A B : string -> bool) :
  (forall s, A s = true -> B s = true) ->
  forall ts st, seq_hyg A st ts = true -> seq_hyg B st ts = true.
Proof.
  intros HAB. induction ts as [|t ts IH]; intros st H; [exact H|].
  cbn [seq_hyg] in H |- *. destruct (tok_step A st t) as [st'|] eqn:E; [|discriminate H].
  rewrite (tok_step_mono A B st t st' HAB E). apply IH. exact H.
Qed.

Lemma deep_hyg_mono (A B : string -> bool) :
  (forall s, A s = true -> B s = true) -> forall t, deep_hyg A t = true -> deep_hyg B t = true.
Proof.
  intros HAB. fix IH 1. intros t H. destruct t as [s|s|s|k x|x v r|d ts]; try reflexivity.
  cbn [deep_hyg] in H |- *. apply andb_true_iff in H. destruct H as [Hs Hd].
  rewrite (seq_hyg_mono A B HAB ts _ Hs). cbn [andb].
  clear Hs. revert ts Hd. fix IHl 1. intros [|x l] Hd; [reflexivity|]. cbn [forallb] in Hd |- *.
  apply andb_true_iff in Hd. destruct Hd as [Hx Hl]. rewrite (IH x Hx). cbn [andb].
  apply IHl. exact Hl.
Qed.

Lemma toks_hyg_mono (A B : string -> bool) ts :
  (forall s, A s = true -> B s = true) -> toks_hyg A ts = true -> toks_hyg B ts = true.
Proof.
  intros HAB H. unfold toks_hyg in H |- *. apply andb_true_iff in H. destruct H as [Hs Hd].
  rewrite (seq_hyg_mono A B HAB ts _ Hs). cbn [andb].
  apply forallb_forall. intros t Ht. apply (deep_hyg_mono A B HAB).
  rewrite forallb_forall in Hd. apply (Hd t Ht).
Qed.

(** ** neither the allowlist nor the hasher parameter is `std` / `alloc` *)
Lemma tallow_not_std fresh s :
  not_std fresh = true -> tallow fresh s = true -> not_std s = true.
Proof.
  intros Hf H. unfold tallow in H. apply orb_true_iff in H. destruct H as [H|H].
  - unfold not_std. destruct (String.eqb s "std") eqn:E1.
    + apply String.eqb_eq in E1. subst s. discriminate H.
    + destruct (String.eqb s "alloc") eqn:E2; [|reflexivity].
      apply String.eqb_eq in E2. subst s. discriminate H.
  - apply String.eqb_eq in H. subst s. exact Hf.
Qed.

Lemma hasher_not_std g : not_std (hasher_ident g) = true.
Proof. destruct (hasher_ident_prefix g) as [k ->]. reflexivity. Qed.

Lemma rpath_hyg_nostd sc p :
  (forall s, mem_str s sc = true -> not_std s = true) -> rpath_hyg sc p = true -> nostd_path p = true.
Proof.
  intros Hsc. destruct p as [segs| v| |segs|ts]; try reflexivity.
  destruct segs as [|s [|s' r]]; try discriminate. cbn [rpath_hyg nostd_path]. apply Hsc.
Qed.

Lemma In_mem_str' s l : mem_str s l = true -> In s l.
Proof.
  unfold mem_str. intros H. apply existsb_exists in H. destruct H as [x [Hin Hx]].
  apply String.eqb_eq in Hx. subst x. exact Hin.
Qed.

(** ** H1 implies H4 *)
Definition scope_nostd (sc : list string) : Prop := forall s, mem_str s sc = true -> not_std s = true.

Lemma scope_nostd_block sc b : scope_nostd sc -> scope_nostd (h1_enter_block sc b).
Proof.
  intros H s Hs. unfold h1_enter_block in Hs. apply In_mem_str' in Hs.
  apply in_app_or in Hs. destruct Hs as [Hs|Hs].
  - apply in_flat_map in Hs. destruct Hs as [e [_ He]].
    destruct e; cbn [helper_decls] in He; try (destruct He; fail). destruct He as [<-|[]]. reflexivity.
  - apply H. unfold mem_str. apply existsb_exists. exists s. split; [exact Hs|apply String.eqb_refl].
Qed.

Section H4.
  Variable cfg : hcfg.
  Hypothesis Hfresh : not_std (u_fresh cfg) = true.

  Lemma allow_le s : tallow (u_fresh cfg) s = true -> not_std s = true.
  Proof. apply tallow_not_std. exact Hfresh. Qed.

  Lemma h1_h4_node sc e : scope_nostd sc -> h1_node cfg sc e = true -> h4_node cfg sc e = true.
  Proof.
    intros Hsc H. destruct e; cbn [h1_node h4_node] in H |- *; try reflexivity;
      try (apply (rpath_hyg_nostd sc _ Hsc H)).
    - apply orb_true_iff in H. apply orb_true_iff. destruct H as [H|H]; [left|right; exact H].
      apply (toks_hyg_mono _ _ _ allow_le H).
    - apply (toks_hyg_mono _ _ _ allow_le H).
    - unfold macro_hyg in H. apply orb_true_iff in H. apply orb_true_iff.
      destruct H as [H|H]; [left; exact H|right]. apply (toks_hyg_mono _ _ _ allow_le H).
  Qed.

  Lemma h1_h4_pnode sc p : scope_nostd sc -> pat_hyg sc p = true -> h4_pnode sc p = true.
  Proof.
    intros Hsc. unfold pat_hyg, h4_pnode. apply pat_all_mono. intros q.
    destruct q; try reflexivity; apply (rpath_hyg_nostd sc _ Hsc).
  Qed.

  Lemma body_hyg_nostd b : body_hyg cfg b = true -> body_nostd cfg b = true.
  Proof.
    unfold body_hyg, body_nostd, walk_body. intros H. apply forallb_forall. intros e He.
    rewrite forallb_forall in H. specialize (H e He). revert H.
    apply (walk_mono_inv _ _ _ _ _ _ scope_nostd).
    - intros c b'. apply scope_nostd_block.
    - intros c p Hc. exact Hc.
    - intros c e'. apply h1_h4_node.
    - intros c p. apply h1_h4_pnode.
    - apply scope_nostd_block. intros s Hs. discriminate Hs.
  Qed.

  Theorem item_hyg_nostd it : item_hyg cfg it = true -> item_nostd cfg it = true.
  Proof.
    unfold item_hyg, item_nostd. intros H.
    apply andb_true_iff in H. destruct H as [H Hm]. apply andb_true_iff in H. destruct H as [Ha Ht].
    rewrite (toks_hyg_mono _ _ _ allow_le Ha), Ht. cbn [andb].
    apply forallb_forall. intros mb Hmb. rewrite forallb_forall in Hm. specialize (Hm mb Hmb).
    destruct mb as [attrs name sig params body|name ty]; [|reflexivity].
    cbn [member_hyg member_nostd] in Hm |- *.
    apply andb_true_iff in Hm. destruct Hm as [Hm Hb]. apply andb_true_iff in Hm.
    destruct Hm as [Hat Hsig]. rewrite (toks_hyg_mono _ _ _ allow_le Hat), (body_hyg_nostd _ Hb).
    rewrite andb_true_r. cbn [andb]. unfold sig_hyg in Hsig. unfold sig_nostd.
    apply orb_true_iff in Hsig. apply orb_true_iff. destruct Hsig as [Hs|Hs].
    - left. apply (toks_hyg_mono _ _ _ allow_le Hs).
    - right. destruct (split_punct "->" sig) as [[a ret]|]; [|discriminate Hs].
      apply andb_true_iff in Hs. destruct Hs as [Hs1 Hs2].
      rewrite (toks_hyg_mono _ _ _ allow_le Hs1), Hs2. reflexivity.
  Qed.
End H4.

Theorem expand_nostd F d items :
  expand F d = Ok items -> forallb (item_nostd (request_cfg F d)) items = true.
Proof.
  intros H. pose proof (expand_hyg F d items H) as Hh.
  apply forallb_forall. intros it Hit. rewrite forallb_forall in Hh.
  apply item_hyg_nostd; [apply hasher_not_std|apply (Hh it Hit)].
Qed.

(** * the predicates added to the where-clause (every handler builds them with [bound_preds],
    from `::core` trait paths) *)
Lemma after_some_colon_app f ty tr : f tr = true -> after_some_colon f (ty ++ [P ":"] ++ tr) = true.
Proof.
  intros H. induction ty as [|t ty IH].
  - cbn. rewrite H. reflexivity.
  - change ((t :: ty) ++ [P ":"] ++ tr) with (t :: (ty ++ [P ":"] ++ tr)).
    cbn [after_some_colon]. rewrite IH. apply orb_true_r.
Qed.

Theorem bound_preds_hyg cfg b g tr tys sups :
  trait_hyg cfg tr = true -> forallb (trait_hyg cfg) sups = true ->
  forallb (pred_hyg cfg (bound_custom b)) (bound_preds b g tr tys sups) = true.
Proof.
  intros Ht Hs. unfold bound_preds, pred_hyg. destruct b as [| |ps|]; cbn [bound_custom].
  - reflexivity.
  - rewrite forallb_app, !forallb_map. apply andb_true_iff. split.
    + apply forallb_true. intros ty. rewrite (after_some_colon_app _ ty tr Ht). apply orb_true_r.
    + apply forallb_forall. intros s Hin. rewrite forallb_forall in Hs.
      change ([I "Self"; P ":"] ++ s) with ([I "Self"] ++ [P ":"] ++ s).
      rewrite (after_some_colon_app _ [I "Self"] s (Hs s Hin)). apply orb_true_r.
  - apply forallb_forall. intros p Hp. rewrite (in_frags_In p ps Hp). reflexivity.
  - rewrite forallb_map. apply forallb_true. intros n.
    change ([I n; P ":"] ++ tr) with ([I n] ++ [P ":"] ++ tr).
    rewrite (after_some_colon_app _ [I n] tr Ht). apply orb_true_r.
Qed.
