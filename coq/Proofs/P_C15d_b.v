(** C15 reverse direction, group b: Eq, Copy (markers), Deref, DerefMut *)
From Educe.Proofs Require Export P_C15d.

Section HandlersE_b.
  Variables (F : features) (keep : trait -> bool) (tr tr' : list trait).
  Hypothesis Htr : forall t, keep t = true -> has_trait t tr' = has_trait t tr.
  Notation rho := (restrict_attrs keep).
  Notation rf := (map_field (restrict_attrs keep)).
  Notation rv := (map_variant (restrict_attrs keep)).
  Notation rd := (map_dinput (restrict_attrs keep)).

  (** ** Eq, Copy *)
  Section MarkerE.
    Variable own : trait.
    Hypothesis Hk : keep own = true.

    Lemma marker_field_attr_e attrs : vattrs F tr attrs ->
      marker_field_attr F own tr' (rho attrs) = marker_field_attr F own tr attrs.
    Proof.
      intros Hv. unfold marker_field_attr. rewrite (scan_e F keep tr tr' Htr) by assumption.
      reflexivity.
    Qed.

    Lemma marker_variant_attr_e attrs : vattrs F tr attrs ->
      marker_variant_attr F own tr' (rho attrs) = marker_variant_attr F own tr attrs.
    Proof.
      intros Hv. unfold marker_variant_attr. rewrite (scan_e F keep tr tr' Htr) by assumption.
      reflexivity.
    Qed.

    Lemma marker_fields_e fs : Forall (vfield F tr) fs ->
      mapM (fun f => let* _ := marker_field_attr F own tr' (f_attrs f) in Ok (f_ty f)) (map rf fs)
      = mapM (fun f => let* _ := marker_field_attr F own tr (f_attrs f) in Ok (f_ty f)) fs.
    Proof.
      apply mapM_e0. intros f Hf. cbn [map_field f_attrs f_ty].
      rewrite (marker_field_attr_e _ Hf). reflexivity.
    Qed.

    Lemma all_field_types_e dd : vdata F tr dd ->
      all_field_types F own tr' (map_data rho dd) = all_field_types F own tr dd.
    Proof.
      intros Hv. unfold all_field_types. destruct dd as [fs|vs|fs]; cbn [map_data vdata] in *.
      - rewrite (fields_list_map keep). apply marker_fields_e. exact Hv.
      - assert (Hm : mapM (fun v => let* _ := marker_variant_attr F own tr' (v_attrs v) in
                                    mapM (fun f => let* _ := marker_field_attr F own tr' (f_attrs f) in
                                                   Ok (f_ty f)) (fields_list (v_fields v)))
                          (map rv vs)
                     = mapM (fun v => let* _ := marker_variant_attr F own tr (v_attrs v) in
                                    mapM (fun f => let* _ := marker_field_attr F own tr (f_attrs f) in
                                                   Ok (f_ty f)) (fields_list (v_fields v))) vs).
        { revert Hv. apply mapM_e0. intros v [Hv1 Hv2]. cbn [map_variant v_attrs v_fields].
          rewrite (marker_variant_attr_e _ Hv1). rewrite (fields_list_map keep).
          rewrite (marker_fields_e _ Hv2). reflexivity. }
        rewrite Hm. reflexivity.
      - apply marker_fields_e. exact Hv.
    Qed.
  End MarkerE.

  Theorem expand_eq_e d m : keep TEq = true -> keep TPartialEq = true ->
    vinput F tr d -> expand_eq F tr' (rd d) m = expand_eq F tr d m.
  Proof.
    intros Hk Hk2 [Hva Hvd]. unfold expand_eq. rewrite (coupling_e F keep tr tr' Htr TPartialEq Hk2).
    cbn [map_dinput d_data]. rewrite (all_field_types_e TEq Hk _ Hvd). reflexivity.
  Qed.

  Theorem expand_copy_e d m : keep TCopy = true -> keep TClone = true ->
    vinput F tr d -> expand_copy F tr' (rd d) m = expand_copy F tr d m.
  Proof.
    intros Hk Hk2 [Hva Hvd]. unfold expand_copy. rewrite (coupling_e F keep tr tr' Htr TClone Hk2).
    cbn [map_dinput d_data]. rewrite (all_field_types_e TCopy Hk _ Hvd). reflexivity.
  Qed.

  (** ** Deref, DerefMut *)
  Section DerefE.
    Variable own : trait.
    Hypothesis Hk : keep own = true.

    Lemma deref_field_flag_e attrs : vattrs F tr attrs ->
      deref_field_flag F own tr' (rho attrs) = deref_field_flag F own tr attrs.
    Proof.
      intros Hv. unfold deref_field_flag. rewrite (scan_e F keep tr tr' Htr) by assumption.
      reflexivity.
    Qed.

    Lemma deref_variant_attr_e attrs : vattrs F tr attrs ->
      deref_variant_attr F own tr' (rho attrs) = deref_variant_attr F own tr attrs.
    Proof.
      intros Hv. unfold deref_variant_attr. rewrite (scan_e F keep tr tr' Htr) by assumption.
      reflexivity.
    Qed.

    Lemma deref_fold_e fs : Forall (vfield F tr) fs ->
      foldM (deref_pick F own tr') None (indexed (map rf fs))
      = omap (option_map (on_snd rf)) (foldM (deref_pick F own tr) None (indexed fs)).
    Proof.
      intros Hv. rewrite indexed_map.
      change (@None (nat * field)) with (option_map (on_snd rf) (@None (nat * field))) at 1.
      apply (foldM_e (fun x : nat * field => vfield F tr (snd x))).
      - intros s x Hx. unfold deref_pick. cbn [on_snd snd map_field f_attrs].
        rewrite (deref_field_flag_e _ Hx).
        destruct (deref_field_flag F own tr (f_attrs (snd x))) as [b| | |]; cbn [bind omap];
          try reflexivity.
        destruct b; [|reflexivity]. destruct s; reflexivity.
      - apply Forall_indexed. exact Hv.
    Qed.

    Lemma deref_select_e fs : Forall (vfield F tr) fs ->
      deref_select F own tr' (map rf fs) = omap (on_snd rf) (deref_select F own tr fs).
    Proof.
      intros Hv. unfold deref_select. pose proof (deref_fold_e fs Hv) as Hgen.
      destruct fs as [|f1 [|f2 l]].
      - cbn [map] in *. rewrite Hgen.
        destruct (foldM (deref_pick F own tr) None (indexed [])) as [o| | |]; cbn [omap bind];
          try reflexivity.
        destruct o; reflexivity.
      - cbn [map map_field f_attrs]. inversion Hv as [|x l0 Hf _]; subst.
        rewrite (deref_field_flag_e _ Hf).
        destruct (deref_field_flag F own tr (f_attrs f1)); reflexivity.
      - change (map rf (f1 :: f2 :: l)) with (rf f1 :: rf f2 :: map rf l) in *.
        rewrite Hgen.
        destruct (foldM (deref_pick F own tr) None (indexed (f1 :: f2 :: l))) as [o| | |];
          cbn [omap bind]; try reflexivity.
        destruct o; reflexivity.
    Qed.

    Lemma deref_variant_e v : vvariant F tr v ->
      deref_variant F own tr' (rv v) = omap (rx keep) (deref_variant F own tr v).
    Proof.
      intros [Hv1 Hv2]. unfold deref_variant. cbn [map_variant v_attrs v_fields v_name].
      rewrite (deref_variant_attr_e _ Hv1).
      destruct (deref_variant_attr F own tr (v_attrs v)); cbn [bind omap]; try reflexivity.
      destruct (v_fields v) as [fs|fs|]; cbn [map_fields fields_list] in *; [| |reflexivity].
      - rewrite (deref_select_e _ Hv2).
        destruct (deref_select F own tr fs); reflexivity.
      - rewrite (deref_select_e _ Hv2).
        destruct (deref_select F own tr fs); reflexivity.
    Qed.

    Lemma deref_analyse_e d m : vinput F tr d ->
      deref_analyse F own tr' (rd d) m = omap (map_dplan keep) (deref_analyse F own tr d m).
    Proof.
      intros [Hva Hvd]. unfold deref_analyse. cbn [map_dinput d_data].
      destruct (d_data d) as [fs|vs|fs]; cbn [map_data vdata] in *; [| |reflexivity].
      - destruct (deref_build true m); cbn [bind omap]; try reflexivity.
        rewrite (fields_list_map keep), (deref_select_e _ Hvd).
        destruct (deref_select F own tr (fields_list fs)); reflexivity.
      - destruct (deref_build true m); cbn [bind omap]; try reflexivity.
        rewrite (mapM_e (vvariant F tr) (deref_variant F own tr) (deref_variant F own tr') rv (rx keep)
                        vs deref_variant_e Hvd).
        destruct (mapM (deref_variant F own tr) vs) as [l| | |]; cbn [bind omap]; try reflexivity.
        destruct l; reflexivity.
    Qed.
  End DerefE.

  Theorem expand_deref_e d m : keep TDeref = true ->
    vinput F tr d -> expand_deref F tr' (rd d) m = expand_deref F tr d m.
  Proof.
    intros Hk Hv. unfold expand_deref. rewrite (deref_analyse_e TDeref Hk _ _ Hv).
    destruct (deref_analyse F TDeref tr d m); cbn [omap bind]; try reflexivity.
    rewrite (deref_emit_r keep). reflexivity.
  Qed.

  Theorem expand_deref_mut_e d m : keep TDerefMut = true ->
    vinput F tr d -> expand_deref_mut F tr' (rd d) m = expand_deref_mut F tr d m.
  Proof.
    intros Hk Hv. unfold expand_deref_mut. rewrite (deref_analyse_e TDerefMut Hk _ _ Hv).
    destruct (deref_analyse F TDerefMut tr d m); cbn [omap bind]; try reflexivity.
    rewrite (deref_mut_emit_r keep). reflexivity.
  Qed.
End HandlersE_b.
