(** C01 / J2 J3 J4 J8 -- PartialOrd, Ord, Debug. *)
From Educe.Proofs Require Export P_C01c.

Lemma map_snd_indexed {A} (l : list A) : map snd (indexed l) = l.
Proof.
  rewrite <- (map_id l) at 2. rewrite <- (map_indexed_snd (fun x => x) l). reflexivity.
Qed.

(** * PartialOrd / Ord *)
Lemma ord_result_wf d partial c : expr_wf d (ord_result partial c) = true.
Proof. unfold ord_result, ordering. destruct partial; wsimpl; reflexivity. Qed.

Lemma ord_pattern_wf d partial c : wf_pnode d Datatypes.tt (ord_pattern partial c) = true.
Proof. destruct partial; reflexivity. Qed.

Lemma cmp_step_wf d partial fa a b :
  expr_wf d a = true -> expr_wf d b = true -> expr_wf d (cmp_step partial fa a b) = true.
Proof.
  intros Ha Hb. unfold cmp_step, cmp_callee, builtin_cmp.
  destruct partial, (oa_method fa); wsimpl; rewrite Ha, Hb; cbn [andb];
    rewrite ?ord_pattern_wf, ?ord_result_wf; reflexivity.
Qed.

Lemma plan_fields_declared F own traits fs p :
  plan_fields F own traits fs = Ok p -> map (fun t : ofield => snd (fst t)) (fp_declared p) = fs.
Proof.
  intros H. destruct (plan_fields_inv F own traits fs p H) as [_ Hp].
  rewrite <- (map_snd_indexed fs), <- Hp, map_map. reflexivity.
Qed.

Lemma plan_variant_wf F own traits partial d v vp :
  In v (variants_of d) -> fields_named_ok (v_fields v) ->
  plan_variant F own traits v = Ok vp ->
  pat_variant (fst (cmp_arm partial vp)) = Some (v_name v) /\
  wf_pnode d Datatypes.tt (fst (cmp_arm partial vp)) = true /\
  expr_wf d (snd (cmp_arm partial vp)) = true.
Proof.
  intros Hin Hok H. unfold plan_variant in H. inv_bind H.
  destruct (v_fields v) as [fs|fs|] eqn:Ef.
  - inv_bind H. inversion H; subst vp. pose proof (plan_fields_declared _ _ _ _ _ Hb0) as Hl.
    destruct Hok as [_ Hnd]. cbn [cmp_arm]. unfold cmp_arm_named. cbn [fst snd].
    assert (Hp : forall pre, wf_pnode d Datatypes.tt
              (PStruct (RSelfV (v_name v))
                 (map (fun '(_, f, fa) => (named_of f, Some (if oa_ignore fa then PWild
                                                              else PBind (pre ^^ unraw (named_of f)))))
                      (fp_declared a0)) true false) = true).
    { intros pre. apply (wf_pnode_named d v fs); try assumption; try reflexivity.
      - rewrite map_map. rewrite <- Hl, map_map. apply map_ext. intros [[i f] fa]. reflexivity.
      - rewrite forallb_map. apply forallb_true. intros [[i f] fa]. cbn [snd].
        destruct (oa_ignore fa); reflexivity. }
    split; [reflexivity|]. split; [apply Hp|].
    wsimpl. rewrite Hp. cbn [andb]. rewrite forallb_map, ?andb_true_r. apply forallb_true.
    intros [[i f] fa]. apply cmp_step_wf; apply wf_var.
  - inv_bind H. inversion H; subst vp. pose proof (plan_fields_declared _ _ _ _ _ Hb0) as Hl.
    cbn [cmp_arm]. unfold cmp_arm_unnamed. cbn [fst snd].
    assert (Hp : forall pre, wf_pnode d Datatypes.tt
              (PTuple (RSelfV (v_name v))
                 (map (fun '(i, _, fa) => if oa_ignore fa then PWild else PBind (pre ^^ dec i))
                      (fp_declared a0)) true false) = true).
    { intros pre. apply (wf_pnode_unnamed d v fs); try assumption; try reflexivity.
      - rewrite map_length, <- Hl, map_length. reflexivity.
      - rewrite forallb_map. apply forallb_true. intros [[i f] fa].
        destruct (oa_ignore fa); reflexivity. }
    split; [reflexivity|]. split; [apply Hp|].
    wsimpl. rewrite Hp. cbn [andb]. rewrite forallb_map, ?andb_true_r. apply forallb_true.
    intros [[i f] fa]. apply cmp_step_wf; apply wf_var.
  - inversion H; subst vp. cbn [cmp_arm]. unfold cmp_arm_unit. cbn [fst snd].
    split; [reflexivity|]. split; [apply (wf_pnode_unit d v); auto|].
    wsimpl. rewrite ord_result_wf. reflexivity.
Qed.

Lemma discr_values_cover : forall vs c ds,
  discr_values_from c vs = Ok ds -> discrs_cover ds vs = true.
Proof.
  induction vs as [|v vs IH]; intros c ds H; cbn [discr_values_from] in H.
  - inversion H. reflexivity.
  - inv_bind H. inv_bind H. inversion H; subst ds. cbn [discrs_cover fst].
    rewrite String.eqb_refl. apply (IH _ _ Hb0).
Qed.

Lemma body_of_wf partial F own traits d body :
  data_named_ok (d_data d) ->
  body_of partial F own traits d body -> forallb (expr_wf (d_data d)) body = true.
Proof.
  intros Hok. unfold body_of. destruct (d_data d) as [fs|vs|fs] eqn:Ed; intros H.
  - destruct H as [p [_ ->]]. unfold cmp_struct_body. rewrite forallb_app, forallb_map.
    cbn [forallb]. rewrite ord_result_wf, andb_true_r. apply forallb_true.
    intros [[i f] fa]. apply cmp_step_wf; apply self_field_wf.
  - destruct H as [ds [vps [Hds [Hvps ->]]]]. unfold cmp_enum_body. destruct (is_nil vps).
    + cbn [forallb]. rewrite ord_result_wf. reflexivity.
    + cbn [forallb]. rewrite andb_true_r.
      assert (HF : Forall2 (fun v vp =>
                 pat_variant (fst (cmp_arm partial vp)) = Some (v_name v) /\
                 wf_pnode (DEnum vs) Datatypes.tt (fst (cmp_arm partial vp)) = true /\
                 expr_wf (DEnum vs) (snd (cmp_arm partial vp)) = true) vs vps).
      { apply (Forall2_mapM_In _ _ _ _ Hvps). intros v vp Hin Hv.
        apply (plan_variant_wf F own traits partial (DEnum vs) v vp Hin (Hok v Hin) Hv). }
      destruct (arms_wf_Forall2 (DEnum vs) (cmp_arm partial) vs vps HF) as [Hc Ha].
      wsimpl. rewrite (discr_values_cover vs _ ds Hds). cbn [andb].
      rewrite !ord_result_wf, !andb_true_r.
      destruct (forallb vplan_is_unit vps); [apply ord_result_wf|].
      wsimpl. rewrite Hc, Ha, ord_result_wf. reflexivity.
  - destruct H.
Qed.

Theorem partial_ord_wf F traits d m items :
  data_named_ok (d_data d) ->
  expand_partial_ord F traits d m = Ok items -> forallb (item_wf (d_data d)) items = true.
Proof.
  intros Hok He. destruct (has_trait TOrd F && has_trait TOrd traits) eqn:Ec.
  - unfold expand_partial_ord in He. rewrite Ec in He. inv_bind He. inversion He. reflexivity.
  - destruct (expand_partial_ord_body F traits d m items Ec He) as [g [body [-> Hb]]].
    cbn [forallb]. unfold partial_ord_item.
    rewrite one_fn_item_wf; [reflexivity|apply (body_of_wf _ _ _ _ _ _ Hok Hb)].
Qed.

Theorem ord_wf F traits d m items :
  data_named_ok (d_data d) ->
  expand_ord F traits d m = Ok items -> forallb (item_wf (d_data d)) items = true.
Proof.
  intros Hok He. destruct (expand_ord_body F traits d m items He) as [g [body [-> Hb]]].
  unfold ord_items. cbn [forallb]. unfold ord_item at 1.
  rewrite one_fn_item_wf by apply (body_of_wf _ _ _ _ _ _ Hok Hb). cbn [andb].
  destruct (has_trait TPartialOrd F && has_trait TPartialOrd traits); [|reflexivity].
  cbn [forallb]. unfold partial_ord_item. rewrite one_fn_item_wf; [reflexivity|].
  unfold partial_ord_via_ord_body. wsimpl. reflexivity.
Qed.

(** * Debug *)
Lemma dbg_arg_wf d di ty m fe : expr_wf d fe = true -> expr_wf d (dbg_arg di ty m fe) = true.
Proof. intros H. unfold dbg_arg. wsimpl. exact H. Qed.

Lemma dbg_entry_wf d has_name key value :
  expr_wf d value = true -> expr_wf d (dbg_entry has_name key value) = true.
Proof.
  intros Hv. unfold dbg_entry, builder_stmt, stringify. destruct has_name; wsimpl; rewrite Hv;
    reflexivity.
Qed.

Lemma dbg_named_field_wf d di has_name key ty fa op :
  expr_wf d op = true -> forallb (expr_wf d) (dbg_named_field di has_name key ty fa op) = true.
Proof.
  intros Ho. unfold dbg_named_field. destruct (df_method fa); cbn [forallb].
  - rewrite dbg_arg_wf by exact Ho. rewrite dbg_entry_wf; [reflexivity|]. wsimpl. reflexivity.
  - rewrite dbg_entry_wf; [reflexivity|exact Ho].
Qed.

Lemma dbg_tuple_field_wf d di ty fa op :
  expr_wf d op = true -> forallb (expr_wf d) (dbg_tuple_field di ty fa op) = true.
Proof.
  intros Ho. unfold dbg_tuple_field, builder_stmt. destruct (df_method fa); cbn [forallb].
  - rewrite dbg_arg_wf by exact Ho. wsimpl. reflexivity.
  - wsimpl. rewrite Ho. reflexivity.
Qed.

Lemma named_builder_wf d o :
  (forall a, o = Some a -> expr_wf d a = true) -> expr_wf d (named_builder o) = true.
Proof.
  intros H. unfold named_builder, let_builder. destruct o as [a|]; wsimpl; [|reflexivity].
  rewrite (H a eq_refl). reflexivity.
Qed.

Lemma builder_blocks_wf d di (nf : bool) (name_arg : option expr) (tuple_arg : expr) has_name
      (l : list (nat * (field * Expand_Debug.dfattr)))
      (key : field -> nat -> Expand_Debug.dfattr -> string) (op : field -> nat -> expr) :
  (forall a, name_arg = Some a -> expr_wf d a = true) -> expr_wf d tuple_arg = true ->
  (forall f i, expr_wf d (op f i) = true) ->
  forallb (expr_wf d)
    ((if nf then
        named_builder name_arg ::
        flat_map (fun '(i, (f, fa)) =>
                    if df_ignore fa then []
                    else dbg_named_field di has_name (key f i fa) (f_ty f) fa (op f i)) l
      else
        let_builder "debug_tuple" [tuple_arg] ::
        flat_map (fun '(i, (f, fa)) =>
                    if df_ignore fa then [] else dbg_tuple_field di (f_ty f) fa (op f i)) l)
     ++ [builder_finish]) = true.
Proof.
  intros Ha Ht Ho. rewrite forallb_app. apply andb_true_iff.
  split; [|unfold builder_finish; wsimpl; reflexivity].
  destruct nf; cbn [forallb].
  - rewrite named_builder_wf by exact Ha. cbn [andb]. rewrite forallb_flat_map.
    apply forallb_true. intros [i [f fa]]. destruct (df_ignore fa); [reflexivity|].
    apply dbg_named_field_wf. apply Ho.
  - unfold let_builder at 1. wsimpl. rewrite Ht. cbn [andb]. rewrite forallb_flat_map.
    apply forallb_true. intros [i [f fa]]. destruct (df_ignore fa); [reflexivity|].
    apply dbg_tuple_field_wf. apply Ho.
Qed.

Lemma debug_field_attrs_fst F traits b fs l :
  debug_field_attrs F traits b fs = Ok l -> exists l0, l = indexed l0 /\ map fst l0 = fs.
Proof.
  unfold debug_field_attrs. intros H. inv_bind H. inversion H; subst l. exists a.
  split; [reflexivity|]. apply (mapM_fst _ _ _ Hb).
Qed.

Lemma debug_variant_wf F traits name di d v dv :
  In v (variants_of d) -> fields_named_ok (v_fields v) ->
  debug_variant F traits name v = Ok dv ->
  pat_variant (fst (dbg_arm di dv)) = Some (v_name v) /\
  wf_pnode d Datatypes.tt (fst (dbg_arm di dv)) = true /\
  expr_wf d (snd (dbg_arm di dv)) = true.
Proof.
  intros Hin Hok H. unfold debug_variant in H. inv_bind H.
  assert (Hblock : forall v', expr_wf d (dbg_arm_block di v') = true).
  { intros v'. unfold dbg_arm_block. wsimpl. apply builder_blocks_wf.
    - intros a0 E. destruct (dv_name_string v'); [|discriminate E]. inversion E. wsimpl. reflexivity.
    - wsimpl. reflexivity.
    - intros f i. apply wf_var. }
  destruct (v_fields v) as [fs|fs|] eqn:Ef.
  - inv_bind H. destruct (_ && _); [discriminate H|]. inversion H; subst dv. clear H.
    destruct (debug_field_attrs_fst _ _ _ _ _ Hb0) as [l0 [-> Hl]]. cbn [fields_list] in Hl.
    destruct Hok as [_ Hnd]. unfold dbg_arm. cbn [dv_fields dv_ident dv_list fst snd].
    split; [reflexivity|]. split; [|apply Hblock].
    apply (wf_pnode_named d v fs); try assumption; try reflexivity.
    + rewrite map_map, <- Hl, map_map.
      rewrite <- (map_indexed_snd (fun x : field * Expand_Debug.dfattr => fname_of (fst x)) l0).
      apply map_ext. intros [i [f fa]]. reflexivity.
    + rewrite forallb_map. apply forallb_true. intros [i [f fa]]. cbn [snd].
      destruct (df_ignore fa); reflexivity.
  - inv_bind H. destruct (_ && _); [discriminate H|]. inversion H; subst dv. clear H.
    destruct (debug_field_attrs_fst _ _ _ _ _ Hb0) as [l0 [-> Hl]]. cbn [fields_list] in Hl.
    unfold dbg_arm. cbn [dv_fields dv_ident dv_list fst snd].
    split; [reflexivity|]. split; [|apply Hblock].
    apply (wf_pnode_unnamed d v fs); try assumption; try reflexivity.
    + rewrite map_length, indexed_length, <- Hl, map_length. reflexivity.
    + rewrite forallb_map. apply forallb_true. intros [i [f fa]].
      destruct (df_ignore fa); reflexivity.
  - destruct (is_some _); [|discriminate H]. inversion H; subst dv. clear H.
    unfold dbg_arm. cbn [dv_fields dv_ident fst snd].
    split; [reflexivity|]. split; [apply (wf_pnode_unit d v); auto|].
    unfold opt_str_args. cbn [dv_name_string].
    destruct (name_string name _); wsimpl; reflexivity.
Qed.

Theorem debug_wf F traits d m items :
  data_named_ok (d_data d) ->
  expand_debug F traits d m = Ok items -> forallb (item_wf (d_data d)) items = true.
Proof.
  intros Hok. unfold expand_debug. intros H. destruct (d_data d) as [fs|vs|fs] eqn:Ed.
  - inv_bind H. inv_bind H. destruct (_ && _); [discriminate H|].
    inversion H; subst items. cbn [forallb]. unfold dbg_item.
    rewrite one_fn_item_wf; [reflexivity|]. unfold dbg_struct_body. apply builder_blocks_wf.
    + intros a1 E. destruct (tname_ident _ _); [|discriminate E]. inversion E. wsimpl. reflexivity.
    + wsimpl. reflexivity.
    + intros f i. apply self_field_wf.
  - inv_bind H. inv_bind H. destruct (_ && _); [discriminate H|].
    inversion H; subst items. cbn [forallb]. unfold dbg_item.
    rewrite one_fn_item_wf; [reflexivity|]. unfold dbg_enum_body.
    destruct (is_nil a0); [wsimpl; reflexivity|].
    assert (HF : Forall2 (fun v dv =>
               pat_variant (fst (dbg_arm d dv)) = Some (v_name v) /\
               wf_pnode (DEnum vs) Datatypes.tt (fst (dbg_arm d dv)) = true /\
               expr_wf (DEnum vs) (snd (dbg_arm d dv)) = true) vs a0).
    { apply (Forall2_mapM_In _ _ _ _ Hb0). intros v dv Hin Hv.
      apply (debug_variant_wf F traits _ d (DEnum vs) v dv Hin (Hok v Hin) Hv). }
    destruct (arms_wf_Forall2 (DEnum vs) (dbg_arm d) vs a0 HF) as [Hc Ha].
    wsimpl. rewrite Hc, Ha. reflexivity.
  - inv_bind H. destruct (negb (dt_unsafe a)); [discriminate H|]. inv_bind H.
    inversion H; subst items. cbn [forallb]. unfold dbg_item.
    rewrite one_fn_item_wf; [reflexivity|].
    destruct (tname_ident _ _); reflexivity.
Qed.
