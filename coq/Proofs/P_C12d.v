(** C11 / C12 — handler by handler, part 3: Debug, Default (with the inherent
    `new` impl), Into (one impl per target, each with its own bound). *)
From Educe.Proofs Require Export P_C12c P_C08 P_C10b.

(** ** Debug *)
Definition dbg_v (x : field * Expand_Debug.dfattr) : bfield :=
  view_of (f_ty (fst x)) (Expand_Debug.df_ignore (snd x)) (Expand_Debug.df_method (snd x)).

Lemma dbg_types_indexed (l : list (field * Expand_Debug.dfattr)) : forall k,
  dbg_types (index_from k l) = delegated (map dbg_v l).
Proof.
  unfold dbg_types, delegated.
  induction l as [|[f fa] r IH]; intros k; [reflexivity|]. cbn [index_from flat_map map filter].
  rewrite (IH (S k)). unfold dbg_v at 1 2. cbn [fst snd].
  destruct (Expand_Debug.df_ignore fa); [reflexivity|].
  destruct (Expand_Debug.df_method fa); reflexivity.
Qed.

Lemma debug_field_attrs_view F traits en fs l :
  debug_field_attrs F traits en fs = Ok l ->
  exists l0, l = indexed l0 /\ mapM (dbg_view F traits en) fs = Ok (map dbg_v l0).
Proof.
  unfold debug_field_attrs. intros H. apply bind_ok in H as [l0 [Hl0 H]]. inversion H; subst l.
  exists l0. split; [reflexivity|]. revert Hl0. apply mapM_sim. intros f y _ Hy. unfold dbg_view.
  apply bind_ok in Hy as [fa [Hfa Hy]]. inversion Hy; subst y. rewrite Hfa. reflexivity.
Qed.

Lemma debug_variant_group F traits name v dv :
  debug_variant F traits name v = Ok dv ->
  (let* ta := debug_variant_attr F traits (variant_tb (is_named_fields (v_fields v))) (v_attrs v) in
   let* l := mapM (dbg_view F traits (Expand_Debug.dt_named_field ta)) (fields_list (v_fields v)) in
   Ok (delegated l)) = Ok (dbg_types (dv_list dv)).
Proof.
  unfold debug_variant. intros H. apply bind_ok in H as [ta [Hta H]].
  change (debug_variant_attr F traits (variant_tb (is_named_fields (v_fields v))) (v_attrs v) = Ok ta)
    in Hta.
  rewrite Hta. cbn [bind].
  destruct (v_fields v) as [fs|fs|] eqn:Ef.
  - apply bind_ok in H as [l [Hl H]].
    destruct (debug_field_attrs_view _ _ _ _ _ Hl) as [l0 [-> Hv]].
    destruct (negb (has_shown (indexed l0)) && negb (is_some (name_string name (tname_ident (Expand_Debug.dt_name ta) (v_name v)))));
      [discriminate H|].
    inversion H; subst dv. cbn [dv_list fields_list]. cbn [fields_list] in Hv. rewrite Hv. cbn [bind].
    unfold indexed. rewrite dbg_types_indexed. reflexivity.
  - apply bind_ok in H as [l [Hl H]].
    destruct (debug_field_attrs_view _ _ _ _ _ Hl) as [l0 [-> Hv]].
    destruct (negb (has_shown (indexed l0)) && negb (is_some (name_string name (tname_ident (Expand_Debug.dt_name ta) (v_name v)))));
      [discriminate H|].
    inversion H; subst dv. cbn [dv_list fields_list]. cbn [fields_list] in Hv. rewrite Hv. cbn [bind].
    unfold indexed. rewrite dbg_types_indexed. reflexivity.
  - destruct (is_some (name_string name (tname_ident (Expand_Debug.dt_name ta) (v_name v))));
      [|discriminate H].
    inversion H; subst dv. reflexivity.
Qed.

Theorem debug_handler F traits d m items :
  expand_debug F traits d m = Ok items -> handler_ok TDebug F traits d m items.
Proof.
  unfold expand_debug, handler_ok, type_mode, delegated_of, dbg_delegated. intros H.
  destruct (d_data d) as [fs|vs|ufs] eqn:Ed.
  - apply bind_ok in H as [ta [Hta H]].
    change (Expand_Debug.build_dtattr (struct_tb (is_tuple_fields fs)) m = Ok ta) in Hta.
    rewrite Hta. cbn [bind].
    apply bind_ok in H as [l [Hl H]].
    destruct (debug_field_attrs_view _ _ _ _ _ Hl) as [l0 [-> Hv]]. rewrite Hv. cbn [bind].
    destruct (negb (has_shown (indexed l0)) && negb (is_some (tname_ident (Expand_Debug.dt_name ta) (d_name d))));
      [discriminate H|].
    inversion H; subst items; clear H.
    exists (Expand_Debug.dt_bound ta), (dbg_types (indexed l0)). split; [reflexivity|].
    split; [unfold indexed; rewrite dbg_types_indexed; reflexivity|].
    constructor; [|constructor]. apply built_by_intro; reflexivity.
  - apply bind_ok in H as [ta [Hta H]].
    change (Expand_Debug.build_dtattr enum_tb m = Ok ta) in Hta. rewrite Hta. cbn [bind].
    apply bind_ok in H as [dvs [Hdvs H]].
    destruct (is_nil dvs && negb (is_some (tname_ident (Expand_Debug.dt_name ta) (d_name d))));
      [discriminate H|].
    inversion H; subst items; clear H.
    exists (Expand_Debug.dt_bound ta), (flat_map (fun v => dbg_types (dv_list v)) dvs).
    split; [reflexivity|]. split.
    + rewrite (mapM_sim _ _ (fun dv => dbg_types (dv_list dv)) vs dvs
                 (fun v dv _ => debug_variant_group F traits _ v dv) Hdvs).
      cbn [bind]. rewrite flat_map_concat. reflexivity.
    + constructor; [|constructor]. apply built_by_intro; reflexivity.
  - apply bind_ok in H as [ta [Hta H]].
    destruct (negb (Expand_Debug.dt_unsafe ta)); [discriminate H|].
    apply bind_ok in H as [u [_ H]]. inversion H; subst items; clear H.
    exists BAuto, []. split; [reflexivity|]. split; [reflexivity|].
    constructor; [split; reflexivity|constructor].
Qed.

(** ** Default *)
Definition req_types (l : list dfield_req) : list toks :=
  flat_map (fun '(_, ty, oe) => match oe with None => [ty] | Some _ => [] end) l.

Lemma adjusted_no_type e ty : dvalue_types (auto_adjust_expr e ty) = [].
Proof. unfold auto_adjust_expr. destruct (needs_into e ty); reflexivity. Qed.

Lemma field_value_types f (r : dfraw) :
  dvalue_types (field_value_of f (adjust_f (f_ty f) r))
  = match snd r with None => [f_ty f] | Some _ => [] end.
Proof.
  unfold field_value_of, adjust_f. cbn [Expand_Default.df_expr].
  destruct (snd r); cbn [option_map]; [apply adjusted_no_type|reflexivity].
Qed.

Lemma named_types F traits : forall (l : list field) vs rs,
  mapM (fun f => let* v := default_field_value F traits f in Ok (field_name f, v)) l = Ok vs ->
  mapM (fun f => let* r := default_field_raw F traits false true f in
                 Ok (field_name f, f_ty f, snd r)) l = Ok rs ->
  flat_map (fun '(_, v) => dvalue_types v) vs = req_types rs.
Proof.
  induction l as [|f l IH]; intros vs rs Hvs Hrs; cbn [mapM] in Hvs, Hrs.
  - inversion Hvs; inversion Hrs; reflexivity.
  - apply bind_ok in Hvs as [y [Hy Hvs]]. apply bind_ok in Hvs as [ys [Hys Hvs]]. inversion Hvs; subst vs.
    apply bind_ok in Hrs as [z [Hz Hrs]]. apply bind_ok in Hrs as [zs [Hzs Hrs]]. inversion Hrs; subst rs.
    apply bind_ok in Hy as [v [Hv Hy]]. inversion Hy; subst y.
    apply bind_ok in Hz as [r [Hr Hz]]. inversion Hz; subst z.
    destruct (default_field_value_raw F traits f v Hv) as [r' [Hr' ->]].
    rewrite Hr in Hr'. inversion Hr'; subst r'.
    unfold req_types. cbn [flat_map]. rewrite field_value_types. f_equal. apply (IH ys zs Hys Hzs).
Qed.

Lemma unnamed_types F traits : forall (l : list field) i0 vs rs,
  mapM (default_field_value F traits) l = Ok vs ->
  mapMi_from (fun i f => let* r := default_field_raw F traits false true f in
                         Ok (dec i, f_ty f, snd r)) i0 l = Ok rs ->
  flat_map dvalue_types vs = req_types rs.
Proof.
  induction l as [|f l IH]; intros i0 vs rs Hvs Hrs; cbn [mapM mapMi_from] in Hvs, Hrs.
  - inversion Hvs; inversion Hrs; reflexivity.
  - apply bind_ok in Hvs as [v [Hv Hvs]]. apply bind_ok in Hvs as [ys [Hys Hvs]]. inversion Hvs; subst vs.
    apply bind_ok in Hrs as [z [Hz Hrs]]. apply bind_ok in Hrs as [zs [Hzs Hrs]]. inversion Hrs; subst rs.
    apply bind_ok in Hz as [r [Hr Hz]]. inversion Hz; subst z.
    destruct (default_field_value_raw F traits f v Hv) as [r' [Hr' ->]].
    rewrite Hr in Hr'. inversion Hr'; subst r'.
    unfold req_types. cbn [flat_map]. rewrite field_value_types. f_equal. apply (IH (S i0) ys zs Hys Hzs).
Qed.

Lemma fields_body_types F traits p fs b l :
  default_fields_body F traits p fs = Ok b -> field_reqs F traits fs = Ok l ->
  dbody_types b = req_types l.
Proof.
  intros Hb Hl. destruct fs as [fl|fl|]; cbn [default_fields_body field_reqs] in Hb, Hl.
  - apply bind_ok in Hb as [vs [Hvs Hb]]. inversion Hb; subst b. cbn [dbody_types].
    apply (named_types F traits fl vs l Hvs Hl).
  - apply bind_ok in Hb as [vs [Hvs Hb]]. inversion Hb; subst b. cbn [dbody_types].
    apply (unnamed_types F traits fl 0 vs l Hvs Hl).
  - inversion Hb; subst b. inversion Hl; subst l. reflexivity.
Qed.

Lemma plan_types F traits d m p c :
  default_plan F traits d m = Ok p -> default_cfg F traits d m = Ok c ->
  dbody_types (dp_body p) = default_delegated c.
Proof.
  intros Hp Hc. unfold default_plan in Hp. unfold default_cfg in Hc.
  rewrite build_dtattr_raw in Hp.
  apply bind_ok in Hc as [tr [Htr Hc]]. rewrite Htr in Hp. cbn [bind] in Hp.
  apply bind_ok in Hp as [body [Hbody Hp]]. inversion Hp; subst p; clear Hp.
  apply bind_ok in Hc as [breq [Hbreq Hc]]. inversion Hc; subst c; clear Hc.
  cbn [dp_body]. unfold default_delegated. cbn [SpecDefault.dc_body].
  cbn [adjust_t Expand_Default.dt_expr] in Hbody.
  destruct (dr_expr tr) as [e|]; cbn [option_map] in Hbody.
  - inversion Hbreq; subst breq; clear Hbreq.
    assert (Hb : body = DBExpr (adj None e)).
    { destruct (d_data d); apply bind_ok in Hbody as [u [_ Hbody]]; inversion Hbody; reflexivity. }
    subst body. reflexivity.
  - destruct (d_data d) as [fs|vs|ufs].
    + apply bind_ok in Hbreq as [l [Hl Hbreq]]. inversion Hbreq; subst breq; clear Hbreq.
      apply (fields_body_types F traits RSelf fs body l Hbody Hl).
    + apply bind_ok in Hbreq as [v [Hv Hbreq]]. apply bind_ok in Hbreq as [l [Hl Hbreq]].
      inversion Hbreq; subst breq; clear Hbreq.
      rewrite Hv in Hbody. cbn [bind] in Hbody.
      apply (fields_body_types F traits (RSelfV (v_name v)) (v_fields v) body l Hbody Hl).
    + rewrite select_field_raw_eq in Hbody.
      apply bind_ok in Hbreq as [[f r] [Hsel Hbreq]]. inversion Hbreq; subst breq; clear Hbreq.
      rewrite Hsel in Hbody. cbn [bind adjust_sel fst snd] in Hbody. inversion Hbody; subst body; clear Hbody.
      cbn [dbody_types flat_map]. rewrite field_value_types. cbn [snd]. reflexivity.
Qed.

Theorem default_handler F traits d m items :
  expand_default F traits d m = Ok items -> handler_ok TDefault F traits d m items.
Proof.
  intros H. destruct (default_cfg_total F traits d m items H) as [c Hc].
  unfold expand_default in H. apply bind_ok in H as [p [Hp H]]. inversion H; subst items; clear H.
  pose proof (plan_types F traits d m p c Hp Hc) as Hty.
  unfold default_plan in Hp. apply bind_ok in Hp as [ta [Hta Hp]].
  apply bind_ok in Hp as [body [_ Hp]]. inversion Hp; subst p; clear Hp.
  cbn [dp_body] in Hty.
  exists (Expand_Default.dt_bound ta), (default_delegated c).
  unfold type_mode, delegated_of. rewrite Hta, Hc. split; [reflexivity|]. split; [reflexivity|].
  unfold default_items. cbn [dp_bound dp_body dp_new]. rewrite Hty.
  constructor; [apply built_by_intro; reflexivity|].
  destruct (Expand_Default.dt_new ta); constructor; [apply built_by_intro; reflexivity|constructor].
Qed.

(** ** Into: one impl per target, each with the bound written next to its target *)
Definition into_req (c : icfg) (t : toks * bound) : breq :=
  {| rq_mode := snd t; rq_trait := into_trait (fst t);
     rq_types := into_delegated (fst t) c; rq_supers := [] |}.

Lemma into_types_spec T fl i f mm :
  into_select T fl = Ok (i, f, mm) ->
  exists fd, spec_into_select T (ifs fl) = Ok fd /\ into_types T (i, f, mm) = into_needs_conv T fd.
Proof.
  intros Hsel. pose proof (into_select_spec T fl) as Hs. rewrite Hsel in Hs.
  destruct Hs as [fa [_ [Hsp Hm]]]. exists (mk_ifield i f fa). split; [exact Hsp|].
  unfold into_types, into_needs_conv. rewrite <- Hm. destruct mm; reflexivity.
Qed.

Section IntoTop.
  Variables (F : features) (traits : list trait).

  Lemma into_enum_types T targets : forall c vl plan,
    Forall2 (vrel targets) c vl ->
    mapM (into_variant_choice T) vl = Ok plan ->
    flat_map (fun x => into_types T (snd x)) plan = into_delegated T c.
  Proof.
    intros c vl plan Hrel. revert plan.
    induction Hrel as [|ce [v fl] c vl [Hce Hfst] _ IH]; intros plan H; cbn [mapM] in H.
    - inversion H; reflexivity.
    - apply bind_ok in H as [pe [Hpe H]]. apply bind_ok in H as [plan' [Hplan H]].
      inversion H; subst plan; clear H.
      unfold into_delegated. cbn [flat_map]. fold (into_delegated T c). rewrite <- (IH plan' Hplan).
      f_equal. cbn [fst snd] in *. subst ce. cbn [snd].
      unfold into_variant_choice in Hpe. cbn [fst snd] in Hpe.
      assert (Hsel : exists ch, into_select T fl = Ok ch /\ pe = (v_name v, ch)).
      { destruct (v_fields v); [| |discriminate Hpe];
          apply bind_ok in Hpe; destruct Hpe as [ch [Hch Hpe]]; inversion Hpe; eauto. }
      destruct Hsel as [[[i f] mm] [Hsel ->]]. cbn [snd].
      destruct (into_types_spec T fl i f mm Hsel) as [fd [Hsp Hty]]. rewrite Hsp. exact Hty.
  Qed.

  Theorem into_handler d ms items :
    expand_into F traits d ms = Ok items ->
    exists targets c,
      into_cfg F traits d ms = Ok (targets, c) /\
      into_build_type true ms = Ok targets /\
      Forall2 (fun t it => built_by d (into_req c t) it /\ i_trait it = Some (into_trait (fst t)))
              targets items.
  Proof.
    intros He. unfold expand_into in He.
    apply bind_ok in He as [plan [Hplan He]]. inversion He; subst items; clear He.
    unfold into_analyse in Hplan. apply bind_ok in Hplan as [rs [Hrs Hplan]].
    unfold into_results in Hrs. unfold into_cfg.
    destruct (d_data d) as [fs|vs|us]; [| |discriminate Hrs].
    - apply bind_ok in Hrs as [targets [Ht Hrs]].
      apply bind_ok in Hrs as [fl [Hfl Hrs]]. inversion Hrs; subst rs; clear Hrs.
      rewrite Ht. cbn [bind].
      destruct (ifields_of_attrs F traits targets _ 0 _ Hfl) as [Hif Hfst].
      change (into_ifields F traits targets (fields_list fs) = Ok (ifs fl)) in Hif.
      rewrite Hif. cbn [bind]. exists targets, [(None, ifs fl)].
      split; [reflexivity|]. split; [reflexivity|].
      apply mapM_id_map in Hplan. unfold into_emit. apply Forall2_map_r.
      eapply Forall2_impl; [|exact Hplan]. intros t p Hp. cbn beta in Hp.
      unfold into_struct_target in Hp. apply bind_ok in Hp as [[[i f] mm] [Hsel Hp]].
      inversion Hp; subst p; clear Hp. destruct t as [T b]. cbn [fst] in Hsel.
      destruct (into_types_spec T fl i f mm Hsel) as [fd [Hsp Hty]].
      unfold into_emit1, into_struct_item, into_item. split; [|reflexivity].
      apply built_by_intro; [|reflexivity].
      unfold into_req, into_delegated. cbn [rq_mode rq_trait rq_types rq_supers fst snd flat_map].
      rewrite Hsp, app_nil_r, Hty. reflexivity.
    - apply bind_ok in Hrs as [targets [Ht Hrs]].
      apply bind_ok in Hrs as [vl [Hvl Hrs]]. inversion Hrs; subst rs; clear Hrs.
      rewrite Ht. cbn [bind].
      destruct (variants_vrel F traits targets vs vl Hvl) as [c [Hc [Hrel _]]].
      rewrite Hc. cbn [bind]. exists targets, c. split; [reflexivity|]. split; [reflexivity|].
      apply mapM_id_map in Hplan. unfold into_emit. apply Forall2_map_r.
      eapply Forall2_impl; [|exact Hplan]. intros t p Hp. cbn beta in Hp.
      unfold into_enum_target in Hp. apply bind_ok in Hp as [pl [Hpl Hp]].
      destruct (is_nil pl); [discriminate Hp|]. inversion Hp; subst p; clear Hp.
      destruct t as [T b]. cbn [fst] in Hpl.
      unfold into_emit1, into_enum_item, into_item. split; [|reflexivity].
      apply built_by_intro; [|reflexivity].
      unfold into_req. cbn [rq_mode rq_trait rq_types rq_supers fst snd].
      rewrite (into_enum_types T targets c vl pl Hrel Hpl). reflexivity.
  Qed.
End IntoTop.
