(** C09 — Deref / DerefMut expose exactly the designated field. *)
From Educe.Proofs Require Export P_C09a.

(** ** selection: [deref_select] is "the sole field, else the unique marked one" *)
Section Select.
  Variable F : features.
  Variable own : trait.
  Variable traits : list trait.

  Lemma dfield_inv x y :
    deref_dfield F own traits x = Ok y ->
    exists b, deref_field_flag F own traits (f_attrs (snd x)) = Ok b /\ y = mk_dfield (fst x) (snd x) b.
  Proof. unfold deref_dfield. intros H. inv_bind H. inversion H; subst. eauto. Qed.

  (** a successful search has read every field's marker *)
  Lemma foldM_pick_flags xs : forall acc o,
    foldM (deref_pick F own traits) acc xs = Ok o ->
    exists l, mapM (deref_dfield F own traits) xs = Ok l.
  Proof.
    induction xs as [|x xs IH]; intros acc o H; cbn [foldM mapM] in *.
    - eexists; reflexivity.
    - inv_bind H. unfold deref_pick in Hb. inv_bind Hb.
      destruct (IH _ _ H) as [l Hl]. unfold deref_dfield at 1. rewrite Hb0. cbn [bind].
      rewrite Hl. cbn [bind]. eexists; reflexivity.
  Qed.

  Definition pick_spec (acc : option (nat * field)) (xs : list (nat * field)) (l : list dfield)
             (r : outcome (option (nat * field))) : Prop :=
    match r with
    | Ok o =>
        match acc with
        | Some a => o = Some a /\ filter df_flag l = []
        | None => match o with
                  | None => filter df_flag l = []
                  | Some (i, f) => filter df_flag l = [mk_dfield i f true] /\ In (i, f) xs
                  end
        end
    | Err e => e = deref_err_multi own /\
               2 <= List.length (filter df_flag l) + (match acc with Some _ => 1 | None => 0 end)
    | _ => False
    end.

  Lemma foldM_pick_spec xs : forall acc l,
    mapM (deref_dfield F own traits) xs = Ok l ->
    pick_spec acc xs l (foldM (deref_pick F own traits) acc xs).
  Proof.
    induction xs as [|x xs IH]; intros acc l H; cbn [mapM foldM] in *.
    - inversion H; subst. destruct acc; cbn; auto.
    - inv_bind H. inv_bind H. inversion H; subst. clear H.
      destruct (dfield_inv _ _ Hb) as [b [Hflag Hy]]. subst a.
      unfold deref_pick at 1. rewrite Hflag. cbn [bind].
      specialize (IH (if b then (match acc with Some _ => acc | None => Some x end) else acc) _ Hb0).
      destruct b.
      + destruct acc as [a|].
        * cbn [bind pick_spec filter mk_dfield df_flag List.length]. split; [reflexivity|lia].
        * cbn [bind]. unfold pick_spec in IH |- *.
          destruct (foldM (deref_pick F own traits) (Some x) xs) as [o|e| |]; try exact IH.
          -- destruct IH as [Ho Hf]. subst o. destruct x as [i f].
             cbn [filter mk_dfield df_flag fst snd]. rewrite Hf. split; [reflexivity|left; reflexivity].
          -- destruct IH as [He Hn]. split; [exact He|].
             cbn [filter mk_dfield df_flag List.length]. lia.
      + cbn [bind]. unfold pick_spec in IH |- *.
        cbn [filter mk_dfield df_flag].
        destruct (foldM (deref_pick F own traits) acc xs) as [o|e| |]; try exact IH.
        destruct acc as [a|]; [exact IH|].
        destruct o as [[i f]|]; [|exact IH]. destruct IH as [Hf Hin]. split; [exact Hf|right; exact Hin].
  Qed.

  (** success reads every marker *)
  Lemma deref_select_flags fs x :
    deref_select F own traits fs = Ok x -> exists l, deref_dfields F own traits fs = Ok l.
  Proof.
    unfold deref_select, deref_dfields. intros H.
    destruct fs as [|f [|g r]].
    - cbn in H. discriminate H.
    - inv_bind H. cbn [indexed index_from mapM]. unfold deref_dfield. cbn [fst snd].
      rewrite Hb. cbn [bind]. eexists; reflexivity.
    - inv_bind H. eapply foldM_pick_flags. exact Hb.
  Qed.

  (** ... and, the markers being readable, the result is the specified one *)
  Theorem deref_select_spec fs l :
    deref_dfields F own traits fs = Ok l ->
    match deref_select F own traits fs with
    | Ok (i, f) => exists b, spec_select own l = Ok (mk_dfield i f b) /\ nth_error fs i = Some f
    | Err e => spec_select own l = Err e
    | _ => False
    end.
  Proof.
    unfold deref_dfields. intros H.
    destruct fs as [|f [|g r]].
    - cbn in H. inversion H; subst. cbn. reflexivity.
    - cbn [indexed index_from mapM] in H. inv_bind H. cbn [bind] in H. inversion H; subst.
      destruct (dfield_inv _ _ Hb) as [b [Hflag Hy]]. cbn [fst snd] in *. subst a.
      unfold deref_select. rewrite Hflag. cbn [bind]. exists b. split; reflexivity.
    - pose proof (foldM_pick_spec _ None _ H) as Hs.
      assert (Hl : exists y1 y2 ys, l = y1 :: y2 :: ys).
      { cbn [indexed index_from mapM] in H. inv_bind H. inv_bind H. inv_bind Hb0. inv_bind Hb0.
        inversion Hb0; subst. inversion H; subst. eauto. }
      destruct Hl as [y1 [y2 [ys Hl]]].
      unfold deref_select. fold (indexed (f :: g :: r)).
      unfold pick_spec in Hs.
      destruct (foldM (deref_pick F own traits) None (indexed (f :: g :: r))) as [o|e| |];
        cbn [bind]; try exact Hs.
      + destruct o as [[i f']|].
        * destruct Hs as [Hf Hin]. exists true. split.
          -- unfold spec_select. rewrite Hl. rewrite <- Hl. rewrite Hf. reflexivity.
          -- apply in_index_from in Hin. destruct Hin as [_ Hn].
             replace (i - 0) with i in Hn by lia. exact Hn.
        * unfold spec_select. rewrite Hl. rewrite <- Hl. rewrite Hs. reflexivity.
      + destruct Hs as [He Hn]. subst e. unfold spec_select. rewrite Hl. rewrite <- Hl.
        destruct (filter df_flag l) as [|a [|b t]]; cbn in Hn; try lia. reflexivity.
  Qed.

  Lemma deref_select_designated fs i f :
    deref_select F own traits fs = Ok (i, f) ->
    exists l b, deref_dfields F own traits fs = Ok l /\
                spec_select own l = Ok (mk_dfield i f b) /\ nth_error fs i = Some f.
  Proof.
    intros H. destruct (deref_select_flags _ _ H) as [l Hl].
    pose proof (deref_select_spec _ _ Hl) as Hs. rewrite H in Hs.
    destruct Hs as [b [Hs Hn]]. eauto.
  Qed.

  (** the error cases, the markers being readable *)
  Lemma select_none_marked fs l :
    deref_dfields F own traits fs = Ok l -> List.length fs <> 1 ->
    filter df_flag l = [] -> deref_select F own traits fs = Err (deref_err_none own).
  Proof.
    intros Hl Hlen Hf. pose proof (deref_select_spec _ _ Hl) as Hs.
    assert (Hsp : spec_select own l = Err (deref_err_none own)).
    { unfold spec_select. rewrite Hf. destruct l as [|y [|z t]]; try reflexivity.
      exfalso. apply Hlen. unfold deref_dfields in Hl. apply mapM_ok_length in Hl.
      unfold indexed in Hl. rewrite index_from_length in Hl. cbn in Hl. lia. }
    destruct (deref_select F own traits fs) as [[i f]|e| |]; try contradiction.
    - destruct Hs as [b [Hs _]]. congruence.
    - congruence.
  Qed.

  Lemma select_several_marked fs l :
    deref_dfields F own traits fs = Ok l -> List.length fs <> 1 ->
    2 <= List.length (filter df_flag l) -> deref_select F own traits fs = Err (deref_err_multi own).
  Proof.
    intros Hl Hlen Hf. pose proof (deref_select_spec _ _ Hl) as Hs.
    assert (Hsp : spec_select own l = Err (deref_err_multi own)).
    { unfold spec_select. destruct l as [|y [|z t]].
      - cbn in Hf. lia.
      - exfalso. apply Hlen. unfold deref_dfields in Hl. apply mapM_ok_length in Hl.
        unfold indexed in Hl. rewrite index_from_length in Hl. cbn in Hl. lia.
      - destruct (filter df_flag (y :: z :: t)) as [|a [|b u]]; cbn in Hf; try lia. reflexivity. }
    destruct (deref_select F own traits fs) as [[i f]|e| |]; try contradiction.
    - destruct Hs as [b [Hs _]]. congruence.
    - congruence.
  Qed.

  Lemma select_sole f b :
    deref_field_flag F own traits (f_attrs f) = Ok b -> deref_select F own traits [f] = Ok (0, f).
  Proof. intros H. unfold deref_select. rewrite H. reflexivity. Qed.

  Lemma variant_unit v :
    deref_variant_attr F own traits (v_attrs v) = Ok Datatypes.tt -> v_fields v = FUnit ->
    deref_variant F own traits v = Err E_no_unit_variant.
  Proof. intros Ha Hu. unfold deref_variant. rewrite Ha, Hu. reflexivity. Qed.

  Lemma variant_ok_not_unit v r : deref_variant F own traits v = Ok r -> v_fields v <> FUnit.
  Proof.
    unfold deref_variant. intros H Hu. inv_bind H. rewrite Hu in H. discriminate H.
  Qed.

  Lemma enum_empty d m :
    d_data d = DEnum [] -> deref_build true m = Ok true ->
    deref_analyse F own traits d m = Err (deref_err_none own).
  Proof. intros Hd Hm. unfold deref_analyse. rewrite Hd, Hm. reflexivity. Qed.
End Select.

Lemma spec_select_own own own' l f : spec_select own l = Ok f -> spec_select own' l = Ok f.
Proof.
  unfold spec_select. destruct l as [|y [|z t]]; try (intros H; exact H).
  - cbn. discriminate.
  - destruct (filter df_flag (y :: z :: t)) as [|a [|b u]]; try discriminate. intros H; exact H.
Qed.

Lemma spec_select_in own l f : spec_select own l = Ok f -> In f l.
Proof.
  unfold spec_select. intros H.
  assert (Hf : forall g, filter df_flag l = [g] -> In g l).
  { intros g Hg. assert (Hin : In g (filter df_flag l)) by (rewrite Hg; left; reflexivity).
    apply filter_In in Hin. tauto. }
  destruct l as [|y [|z t]].
  - cbn in H. discriminate.
  - inversion H; subst. left; reflexivity.
  - destruct (filter df_flag (y :: z :: t)) as [|a [|b u]] eqn:E; try discriminate.
    inversion H; subst. apply Hf. reflexivity.
Qed.

(** ** the keys of the request *)
Lemma dfields_keys F own traits fs l :
  deref_dfields F own traits fs = Ok l ->
  map df_key l = map (fun x => field_key (fst x) (snd x)) (indexed fs).
Proof.
  apply mapM_map_ok. intros x y H. apply dfield_inv in H. destruct H as [b [_ Hy]]. subst y. reflexivity.
Qed.

(** what the arm of the designated field needs of a value with the declared keys *)
Definition arm_keys_ok (i : nat) (f : field) (l : list dfield) : Prop :=
  arm_keys_ok_k i f (map df_key l).

Lemma arm_keys F own traits (fls : fields) l i f :
  fields_wf fls ->
  deref_dfields F own traits (fields_list fls) = Ok l ->
  nth_error (fields_list fls) i = Some f ->
  arm_keys_ok i f l.
Proof.
  intros Hwf Hl Hn. unfold arm_keys_ok. rewrite (dfields_keys _ _ _ _ _ Hl).
  apply arm_keys_gen; assumption.
Qed.

Lemma arm_keys_value i f l (xs : list (string * value)) :
  arm_keys_ok i f l -> map df_key l = map fst xs ->
  (exists w, lookup (field_member f i) xs = Some w) /\
  (f_name f = None -> i < List.length xs /\ forall j, j <= i -> lookup (dec j) xs <> None).
Proof. apply arm_keys_value_gen. Qed.

(** ** running the emitted bodies *)
Section Run.
  Variable I : interp.

  Definition ref_body (mutbl : bool) (i : nat) (f : field) : block :=
    if mutbl then deref_mut_struct_body i f else deref_struct_body i f.

  (** struct: `&self.f` / `&mut self.f` is the field's place; `self.f` the reference it holds *)
  Lemma run_struct_body mutbl i f vn xs h w :
    lookup (field_member f i) xs = Some w ->
    run_body I deref_env (ref_body mutbl i f) (deref_state (VData vn xs) h) =
    (RVal (if is_ref_type (f_ty f) then w else VRef (sub self_pl (field_member f i))),
     deref_state (VData vn xs) h).
  Proof.
    intros Hw. unfold ref_body, deref_mut_struct_body, deref_struct_body, run_body.
    destruct (is_ref_type (f_ty f)).
    - assert (E : eval I deref_env (EField (EVar "self") (field_member f i)) (deref_state (VData vn xs) h)
                  = (RVal w, deref_state (VData vn xs) h)).
      { cbn [eval place_of deref_env lookup String.eqb Ascii.eqb Bool.eqb].
        change (sub {| pl_root := "self"; pl_path := [] |} (field_member f i))
          with (sub self_pl (field_member f i)).
        unfold deref_state at 1. cbn [st_store]. rewrite load_self_field, Hw. reflexivity. }
      destruct mutbl; cbn [eval_block is_nil]; rewrite E; reflexivity.
    - destruct mutbl; reflexivity.
  Qed.

  (** enum: the arm of the variant [x] is in binds a reference to the field's place *)
  Definition plan_rel (own : trait) (ce : option string * list dfield) (pe : string * (nat * field)) : Prop :=
    fst ce = Some (fst pe) /\
    (exists b, spec_select own (snd ce) = Ok (mk_dfield (fst (snd pe)) (snd (snd pe)) b)) /\
    arm_keys_ok (fst (snd pe)) (snd (snd pe)) (snd ce).

  Lemma vget_none_enum own c plan :
    Forall2 (plan_rel own) c plan -> vget (A := list dfield) None c = None.
  Proof.
    induction 1 as [|[k l] pe c plan [Hk _] _ IH]; [reflexivity|].
    cbn [fst] in Hk. subst k. cbn [vget]. exact IH.
  Qed.

  Lemma eval_deref_arms own vn xs h s : forall c plan l,
    st_store s = ("self", VData (Some vn) xs) :: h ->
    Forall2 (plan_rel own) c plan ->
    vget (Some vn) c = Some l -> map df_key l = map fst xs ->
    exists fd, spec_select own l = Ok fd /\
      eval_arms (eval I) deref_env (VRef self_pl) (map deref_arm plan) s =
      (RVal (VRef (field_place fd)), s).
  Proof.
    intros c plan l Hs Hrel. revert l.
    induction Hrel as [|[k l0] [v [i f]] c plan [Hk [[b Hsel] Hkeys]] _ IH]; intros l Hget Hmap.
    - cbn in Hget. discriminate Hget.
    - cbn [fst snd] in *. subst k. cbn [vget] in Hget. cbn [map]. rewrite deref_arm_eq.
      destruct (String.eqb vn v) eqn:E.
      + apply String.eqb_eq in E. subst v. inversion Hget; subst l0. clear Hget.
        destruct (arm_keys_value _ _ _ _ Hkeys Hmap) as [[w Hw] Hun].
        exists (mk_dfield i f b). split; [exact Hsel|].
        rewrite (eval_arms_hit I deref_env (VRef self_pl) vn xs (fun k _ => VRef (sub self_pl k)) i f w).
        * cbn [eval app lookup]. rewrite String.eqb_refl. reflexivity.
        * rewrite Hs. reflexivity.
        * intros k u Hu. rewrite Hs. eapply sub_scrut_self_ref; exact Hu.
        * exact Hw.
        * exact Hun.
      + rewrite (eval_arms_skip I deref_env (VRef self_pl) vn xs) by (try (rewrite Hs; reflexivity); exact E).
        apply IH; assumption.
  Qed.
End Run.

(** ** from the analysis to the request *)
Section Top.
  Variable I : interp.
  Variable F : features.
  Variable own : trait.
  Variable traits : list trait.

  (** one variant: the analysis picks the field the request designates *)
  Lemma variant_rel1 v pe l :
    deref_variant F own traits v = Ok pe ->
    deref_dfields F own traits (fields_list (v_fields v)) = Ok l ->
    fst pe = v_name v /\
    (exists b, spec_select own l = Ok (mk_dfield (fst (snd pe)) (snd (snd pe)) b)) /\
    nth_error (fields_list (v_fields v)) (fst (snd pe)) = Some (snd (snd pe)).
  Proof.
    intros Hb Hl0. unfold deref_variant in Hb. inv_bind Hb.
    assert (Hsel : exists x, deref_select F own traits (fields_list (v_fields v)) = Ok x /\
                             pe = (v_name v, x)).
    { destruct (v_fields v); [| |discriminate Hb]; inv_bind Hb; inversion Hb; subst; eauto. }
    destruct Hsel as [[i f] [Hsel Ha]]. subst pe.
    destruct (deref_select_designated _ _ _ _ _ _ Hsel) as [l' [b [Hl [Hsp Hn]]]].
    rewrite Hl in Hl0. inversion Hl0; subst l'.
    cbn [fst snd]. split; [reflexivity|]. split; [exists b; exact Hsp|exact Hn].
  Qed.

  Lemma variants_rel vs : forall plan c,
    (forall v, In v vs -> fields_wf (v_fields v)) ->
    mapM (deref_variant F own traits) vs = Ok plan ->
    mapM (fun v => let* l := deref_dfields F own traits (fields_list (v_fields v)) in
                   Ok (Some (v_name v), l)) vs = Ok c ->
    Forall2 (plan_rel own) c plan.
  Proof.
    induction vs as [|v vs IH]; intros plan c Hwf Hp Hc; cbn [mapM] in Hp, Hc.
    - inversion Hp; inversion Hc; subst. constructor.
    - inv_bind Hp. inv_bind Hp. inversion Hp; subst. clear Hp.
      inv_bind Hc. inv_bind Hc. inversion Hc; subst. clear Hc.
      inv_bind Hb1. inversion Hb1; subst. clear Hb1.
      constructor; [|apply IH; auto; intros u Hu; apply Hwf; right; exact Hu].
      destruct (variant_rel1 _ _ _ Hb Hb3) as [Hname [Hsp Hn]].
      split; [cbn [fst]; congruence|]. split; [exact Hsp|].
      cbn [fst snd]. eapply arm_keys; eauto. apply Hwf. left; reflexivity.
  Qed.

  (** the request exists whenever the analysis succeeds *)
  Lemma deref_cfg_exists d m p :
    deref_analyse F own traits d m = Ok p -> exists c, deref_cfg F own traits d = Ok c.
  Proof.
    unfold deref_analyse, deref_cfg. destruct (d_data d) as [fs|vs|us]; intros H; [| |discriminate H].
    - inv_bind H. inv_bind H. destruct a0 as [i f].
      destruct (deref_select_flags _ _ _ _ _ Hb0) as [l Hl]. rewrite Hl. cbn [bind]. eauto.
    - inv_bind H. inv_bind H. clear H Hb. revert a0 Hb0.
      induction vs as [|v vs IH]; intros plan Hp; cbn [mapM] in *; [eauto|].
      inv_bind Hp. inv_bind Hp. destruct (IH _ Hb0) as [c Hc]. rewrite Hc.
      unfold deref_variant in Hb. inv_bind Hb.
      assert (Hsel : exists x, deref_select F own traits (fields_list (v_fields v)) = Ok x).
      { destruct (v_fields v); [| |discriminate Hb]; inv_bind Hb; eauto. }
      destruct Hsel as [x Hsel]. destruct (deref_select_flags _ _ _ _ _ Hsel) as [l Hl].
      rewrite Hl. cbn [bind]. eauto.
  Qed.

  Definition plan_body (mutbl : bool) (p : deref_plan) : block :=
    match p with
    | DPStruct i f => ref_body mutbl i f
    | DPEnum x r => deref_match (x :: r)
    end.

  (** the returned reference [r]: in every case what the emitted expression
      denotes, and — after the deref coercions rustc inserts — the reference
      to the designated field's storage / referent *)
  Theorem ref_method_place mutbl d m p c x h :
    data_wf (d_data d) ->
    deref_analyse F own traits d m = Ok p ->
    deref_cfg F own traits d = Ok c ->
    dvalue_ok c x ->
    exists fd r,
      designated_of c x = Some fd /\
      run_body I deref_env (plan_body mutbl p) (deref_state x h) = (RVal r, deref_state x h) /\
      chase (("self", x) :: h) (coercions (is_struct d) (df_ty fd)) r = spec_deref (("self", x) :: h) c x /\
      (is_ref_type (df_ty fd) = false -> r = VRef (field_place fd)) /\
      (is_struct d = true -> is_ref_type (df_ty fd) = true ->
       load (("self", x) :: h) (field_place fd) = Some r) /\
      (is_struct d = false -> r = VRef (field_place fd)).
  Proof.
    intros Hwf Hp Hc Hx. unfold deref_analyse in Hp. unfold deref_cfg in Hc. unfold is_struct.
    destruct x as [| | | | | |vn xs| | | | |]; try contradiction Hx.
    destruct Hx as [l [Hget Hmap]].
    destruct (d_data d) as [fs|vs|us]; [| |discriminate Hp].
    - (* struct *)
      inv_bind Hp. inv_bind Hp. inversion Hp; subst p. clear Hp. destruct a0 as [i f]. cbn [fst snd].
      inv_bind Hc. inversion Hc; subst c. clear Hc.
      destruct (deref_select_designated _ _ _ _ _ _ Hb0) as [l' [b [Hl [Hsp Hn]]]].
      rewrite Hl in Hb1. inversion Hb1; subst a0. clear Hb1.
      assert (Hvn : vn = None /\ l = l').
      { destruct vn; cbn in Hget; [discriminate Hget|inversion Hget; auto]. }
      destruct Hvn as [Hvn Hll]. subst vn l.
      pose proof (arm_keys _ _ _ _ _ _ _ Hwf Hl Hn) as Hkeys.
      destruct (arm_keys_value _ _ _ _ Hkeys Hmap) as [[w Hw] _].
      set (fd := mk_dfield i f b).
      assert (Hdes : designated_of [(None, l')] (VData None xs) = Some fd).
      { cbn [designated_of vget]. unfold designated. rewrite (spec_select_own own TDeref _ _ Hsp). reflexivity. }
      exists fd, (if is_ref_type (f_ty f) then w else VRef (sub self_pl (field_member f i))).
      split; [exact Hdes|]. split; [apply run_struct_body; exact Hw|].
      assert (Hload : load (("self", VData None xs) :: h) (field_place fd) = Some w).
      { unfold field_place, fd. cbn [df_key mk_dfield]. rewrite load_self_field. exact Hw. }
      unfold spec_deref. rewrite Hdes. unfold coercions. cbn [andb df_ty mk_dfield fd].
      destruct (is_ref_type (f_ty f)) eqn:Er.
      + split; [|split; [discriminate|split; [intros _ _; exact Hload|discriminate]]].
        destruct (ref_depth_ref _ Er) as [k Hk]. rewrite Hk. cbn [chase].
        replace (S k - 1) with k by lia. fold fd. rewrite Hload. reflexivity.
      + split; [reflexivity|]. split; [intros _; reflexivity|]. split; [discriminate|discriminate].
    - (* enum *)
      inv_bind Hp. inv_bind Hp. destruct a0 as [|pe plan]; [discriminate Hp|].
      inversion Hp; subst p. clear Hp.
      pose proof (variants_rel _ _ _ Hwf Hb0 Hc) as Hrel.
      destruct vn as [vn|]; [|rewrite (vget_none_enum _ _ _ Hrel) in Hget; discriminate Hget].
      destruct (eval_deref_arms I own vn xs h (deref_state (VData (Some vn) xs) h) c (pe :: plan) l
                  eq_refl Hrel Hget Hmap) as [fd [Hsp Hev]].
      assert (Hdes : designated_of c (VData (Some vn) xs) = Some fd).
      { cbn [designated_of]. rewrite Hget. unfold designated.
        rewrite (spec_select_own own TDeref _ _ Hsp). reflexivity. }
      exists fd, (VRef (field_place fd)). split; [exact Hdes|]. split.
      + cbn [plan_body]. unfold deref_match, run_body. cbn [eval_block is_nil eval deref_env lookup].
        cbn [String.eqb Ascii.eqb Bool.eqb]. change {| pl_root := "self"; pl_path := [] |} with self_pl.
        rewrite Hev. reflexivity.
      + unfold spec_deref. rewrite Hdes. unfold coercions. cbn [andb].
        split; [reflexivity|]. split; [intros _; reflexivity|]. split; [discriminate|intros _; reflexivity].
  Qed.
End Top.
