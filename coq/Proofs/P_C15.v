(** C15 — each trait's impl depends only on that trait's own attributes.

    [restrict keep d] deletes, in every `#[educe(...)]` list attribute of the input (type,
    variants, fields), every comma-separated meta whose path names a trait outside [keep]
    (token level: the chunk is deleted together with the comma that follows it; an attribute
    left without tokens is dropped).  This file: the token-level facts
    ([parse_metas] of the restricted tokens = the kept metas, parsed exactly as before), the
    generic scanners ([scan_attrs], [into_collect], [collect_attr]) on restricted attributes. *)
From Educe.Proofs Require Export P_C18b.

(** * tokens *)
Definition chunk_trait (c : toks) : option trait :=
  match parse_mpath c with
  | Some (p, _) => match get_ident p with Some s => trait_of_name s | None => None end
  | None => None
  end.
(** a chunk is deleted when its path is the name of a trait outside [keep] *)
Definition chunk_kept (keep : trait -> bool) (c : toks) : bool :=
  match chunk_trait c with Some t => keep t | None => true end.

Definition meta_trait (m : meta) : option trait :=
  match get_ident (meta_path m) with Some s => trait_of_name s | None => None end.
Definition meta_kept (keep : trait -> bool) (m : meta) : bool :=
  match meta_trait m with Some t => keep t | None => true end.

(** the chunks that stay; the last chunk is emptied rather than removed, so that a kept chunk
    is followed by a comma exactly when it was (syn parses `Trait = -1` differently when it
    ends the list) *)
Fixpoint restrict_cs (keep : trait -> bool) (cs : list toks) : list toks :=
  match cs with
  | [] => []
  | [c] => [if chunk_kept keep c then c else []]
  | c :: r => if chunk_kept keep c then c :: restrict_cs keep r else restrict_cs keep r
  end.

Fixpoint join_commas (cs : list toks) : toks :=
  match cs with
  | [] => []
  | [c] => c
  | c :: r => c ++ P "," :: join_commas r
  end.

Definition restrict_toks (keep : trait -> bool) (ts : toks) : toks :=
  join_commas (restrict_cs keep (split_commas ts)).

Definition restrict_attr (keep : trait -> bool) (a : attr) : list attr :=
  if is_educe a then
    match a_meta a with
    | AMList dl ts =>
        let ts' := restrict_toks keep ts in
        if is_nil ts' then [] else [{| a_path := a_path a; a_meta := AMList dl ts' |}]
    | _ => [a]
    end
  else [a].
Definition restrict_attrs (keep : trait -> bool) (attrs : list attr) : list attr :=
  flat_map (restrict_attr keep) attrs.

(** the input with every attribute list rewritten by [r] *)
Definition map_field (r : list attr -> list attr) (f : field) : field :=
  {| f_attrs := r (f_attrs f); f_name := f_name f; f_ty := f_ty f |}.
Definition map_fields (r : list attr -> list attr) (fs : fields) : fields :=
  match fs with
  | FNamed l => FNamed (map (map_field r) l)
  | FUnnamed l => FUnnamed (map (map_field r) l)
  | FUnit => FUnit
  end.
Definition map_variant (r : list attr -> list attr) (v : variant) : variant :=
  {| v_attrs := r (v_attrs v); v_name := v_name v; v_fields := map_fields r (v_fields v);
     v_discr := v_discr v |}.
Definition map_data (r : list attr -> list attr) (dd : data) : data :=
  match dd with
  | DStruct fs => DStruct (map_fields r fs)
  | DEnum vs => DEnum (map (map_variant r) vs)
  | DUnion fs => DUnion (map (map_field r) fs)
  end.
Definition map_dinput (r : list attr -> list attr) (d : dinput) : dinput :=
  {| d_attrs := r (d_attrs d); d_name := d_name d; d_generics := d_generics d;
     d_data := map_data r (d_data d) |}.

Definition restrict (keep : trait -> bool) (d : dinput) : dinput :=
  map_dinput (restrict_attrs keep) d.

(** ** [parse_metas] as a function of the chunks *)
Fixpoint parse_cs (cs : list toks) : outcome (list meta) :=
  match cs with
  | [] => Ok []
  | [c] => if is_nil c then Ok [] else let* m := parse_meta_chunk true c in Ok [m]
  | c :: r => let* m := parse_meta_chunk false c in
              let* ms := parse_cs r in Ok (m :: ms)
  end.

Lemma parse_chunks_cs cs : parse_chunks (is_nil (last cs [])) cs = parse_cs cs.
Proof.
  induction cs as [|c [|c2 r] IH]; [reflexivity| |].
  - cbn [last parse_chunks parse_cs]. destruct c; reflexivity.
  - change (last (c :: c2 :: r) []) with (last (c2 :: r) []).
    cbn [parse_chunks parse_cs] in *. rewrite IH. reflexivity.
Qed.

Lemma parse_metas_cs ts : parse_metas ts = parse_cs (split_commas ts).
Proof.
  unfold parse_metas. rewrite <- parse_chunks_cs.
  destruct (split_commas ts) as [|[|t c] [|c2 r]]; reflexivity.
Qed.

(** ** splitting and joining *)
Definition no_comma (c : toks) : Prop := Forall (fun t => is_punct "," t = false) c.

Lemma split_commas_no_comma ts : Forall no_comma (split_commas ts).
Proof.
  induction ts as [|t r IH]; cbn [split_commas]; [repeat constructor|].
  destruct (is_punct "," t) eqn:E; [constructor; [constructor|exact IH]|].
  destruct (split_commas r) as [|c cs]; [repeat constructor; exact E|].
  inversion IH; subst. constructor; [constructor; assumption|assumption].
Qed.

Lemma split_commas_ne ts : split_commas ts <> [].
Proof.
  destruct ts as [|t r]; cbn [split_commas]; [discriminate|].
  destruct (is_punct "," t); [discriminate|]. destruct (split_commas r); discriminate.
Qed.

Lemma split_one c : no_comma c -> split_commas c = [c].
Proof.
  induction 1 as [|t r Ht Hr IH]; [reflexivity|]. cbn [split_commas]. rewrite Ht, IH. reflexivity.
Qed.

Lemma split_app c rest : no_comma c -> split_commas (c ++ P "," :: rest) = c :: split_commas rest.
Proof.
  induction 1 as [|t r Ht Hr IH]; [reflexivity|]. cbn [app split_commas]. rewrite Ht, IH. reflexivity.
Qed.

Lemma split_join cs : cs <> [] -> Forall no_comma cs -> split_commas (join_commas cs) = cs.
Proof.
  induction cs as [|c [|c2 r] IH]; intros Hne H; [congruence| |].
  - inversion H; subst. apply split_one. assumption.
  - inversion H; subst. cbn [join_commas]. rewrite split_app by assumption.
    f_equal. apply IH; [discriminate|assumption].
Qed.

Lemma restrict_cs_ne keep cs : cs <> [] -> restrict_cs keep cs <> [].
Proof.
  induction cs as [|c [|c2 r] IH]; intros H; [congruence|discriminate|].
  cbn [restrict_cs] in *. destruct (chunk_kept keep c); [discriminate|]. apply IH. discriminate.
Qed.

Lemma restrict_cs_no_comma keep cs : Forall no_comma cs -> Forall no_comma (restrict_cs keep cs).
Proof.
  induction cs as [|c [|c2 r] IH]; intros H; [constructor| |].
  - inversion H; subst. cbn [restrict_cs]. destruct (chunk_kept keep c); repeat constructor; assumption.
  - inversion H; subst. cbn [restrict_cs] in *.
    destruct (chunk_kept keep c); [constructor; [assumption|]|]; apply IH; assumption.
Qed.

(** ** the restricted tokens parse to the kept metas *)
Lemma parse_meta_chunk_path last c m :
  parse_meta_chunk last c = Ok m -> exists rest, parse_mpath c = Some (meta_path m, rest).
Proof.
  unfold parse_meta_chunk. destruct (parse_mpath c) as [[p rest]|]; [|discriminate].
  intros H. exists rest.
  assert (E : meta_path m = p); [|rewrite E; reflexivity].
  destruct rest as [|t r]; [injection H as <-; reflexivity|].
  destruct t as [s|s|s|k s|a b c0|dl inner]; try discriminate.
  - destruct s as [|ch s]; [discriminate|].
    destruct ch as [[] [] [] [] [] [] [] []]; try discriminate.
    destruct s; [|discriminate]. bo H. injection H as <-. reflexivity.
  - destruct r; [|discriminate]. injection H as <-. reflexivity.
Qed.

Lemma parse_meta_chunk_kept keep last c m :
  parse_meta_chunk last c = Ok m -> chunk_kept keep c = meta_kept keep m.
Proof.
  intros H. apply parse_meta_chunk_path in H as [rest H].
  unfold chunk_kept, chunk_trait, meta_kept, meta_trait. rewrite H. reflexivity.
Qed.

Lemma parse_cs_restrict keep cs ms :
  parse_cs cs = Ok ms -> parse_cs (restrict_cs keep cs) = Ok (filter (meta_kept keep) ms).
Proof.
  revert ms. induction cs as [|c [|c2 r] IH]; intros ms H.
  - injection H as <-. reflexivity.
  - cbn [parse_cs restrict_cs] in *. destruct c as [|t c]; cbn [is_nil] in *.
    + injection H as <-. destruct (chunk_kept keep []); reflexivity.
    + bo H. injection H as <-. cbn [filter].
      rewrite <- (parse_meta_chunk_kept keep _ _ _ Hb).
      destruct (chunk_kept keep (t :: c)); cbn [is_nil]; [rewrite Hb; reflexivity|reflexivity].
  - change (parse_cs (c :: c2 :: r)) with
      (let* m := parse_meta_chunk false c in let* ms := parse_cs (c2 :: r) in Ok (m :: ms)) in H.
    bo H. bo H. injection H as <-. specialize (IH _ Hb0).
    change (restrict_cs keep (c :: c2 :: r)) with
      (if chunk_kept keep c then c :: restrict_cs keep (c2 :: r) else restrict_cs keep (c2 :: r)).
    cbn [filter]. rewrite <- (parse_meta_chunk_kept keep _ _ _ Hb).
    destruct (chunk_kept keep c); [|exact IH].
    destruct (restrict_cs keep (c2 :: r)) as [|c3 r3] eqn:E.
    { exfalso. apply (restrict_cs_ne keep (c2 :: r)); [discriminate|exact E]. }
    change (parse_cs (c :: c3 :: r3)) with
      (let* m := parse_meta_chunk false c in let* ms := parse_cs (c3 :: r3) in Ok (m :: ms)).
    rewrite Hb, IH. reflexivity.
Qed.

Theorem parse_metas_restrict keep ts ms :
  parse_metas ts = Ok ms ->
  parse_metas (restrict_toks keep ts) = Ok (filter (meta_kept keep) ms).
Proof.
  intros H. rewrite parse_metas_cs in *. unfold restrict_toks.
  rewrite split_join.
  - apply parse_cs_restrict. exact H.
  - apply restrict_cs_ne. apply split_commas_ne.
  - apply restrict_cs_no_comma. apply split_commas_no_comma.
Qed.

Lemma parse_metas_nil : parse_metas [] = Ok [].
Proof. reflexivity. Qed.

(** * folds of the scanner shape over restricted attributes *)
Lemma foldM_app {A S} (f : S -> A -> outcome S) l1 l2 s :
  foldM f s (l1 ++ l2) = let* s1 := foldM f s l1 in foldM f s1 l2.
Proof.
  revert s. induction l1 as [|x r IH]; intros s; [reflexivity|]. cbn [app foldM].
  destruct (f s x); cbn [bind]; auto.
Qed.

Section RestrictFoldG.
  Context {S S' : Type}.
  Variables (step : S -> meta -> outcome S) (step' : S' -> meta -> outcome S')
            (other : S -> outcome S) (other' : S' -> outcome S')
            (g : S -> S') (keep : trait -> bool).
  Hypothesis Hkept : forall s m s', meta_kept keep m = true -> step s m = Ok s' -> step' (g s) m = Ok (g s').
  Hypothesis Hdrop : forall s m s', meta_kept keep m = false -> step s m = Ok s' -> g s' = g s.
  Hypothesis Hother : forall s s', other s = Ok s' -> other' (g s) = Ok (g s').

  Lemma restrict_metas_fold_g ms : forall s s',
    foldM step s ms = Ok s' -> foldM step' (g s) (filter (meta_kept keep) ms) = Ok (g s').
  Proof.
    induction ms as [|m r IH]; intros s s' H; cbn [foldM] in H.
    - injection H as <-. reflexivity.
    - bo H. cbn [filter]. destruct (meta_kept keep m) eqn:E.
      + cbn [foldM]. rewrite (Hkept _ _ _ E Hb). cbn [bind]. apply IH. exact H.
      + rewrite <- (Hdrop _ _ _ E Hb). apply IH. exact H.
  Qed.

  Definition attr_step {T} (st : T -> meta -> outcome T) (oth : T -> outcome T) (s : T) (a : attr)
    : outcome T :=
    if is_educe a then
      match a_meta a with
      | AMList _ ts => let* ms := parse_metas ts in foldM st s ms
      | _ => oth s
      end
    else Ok s.

  Lemma restrict_attr_fold_g attrs : forall s s',
    foldM (attr_step step other) s attrs = Ok s' ->
    foldM (attr_step step' other') (g s) (restrict_attrs keep attrs) = Ok (g s').
  Proof.
    induction attrs as [|a r IH]; intros s s' H; cbn [foldM] in H.
    { injection H as <-. reflexivity. }
    bo H. unfold restrict_attrs. cbn [flat_map]. rewrite foldM_app.
    assert (Ha : foldM (attr_step step' other') (g s) (restrict_attr keep a) = Ok (g a0));
      [|rewrite Ha; cbn [bind]; apply IH; exact H].
    unfold restrict_attr. unfold attr_step in Hb at 1.
    destruct (is_educe a) eqn:Ee.
    - destruct (a_meta a) as [| |dl ts] eqn:Em.
      + cbn [foldM]. unfold attr_step. rewrite Ee, Em, (Hother _ _ Hb). reflexivity.
      + cbn [foldM]. unfold attr_step. rewrite Ee, Em, (Hother _ _ Hb). reflexivity.
      + bo Hb. pose proof (parse_metas_restrict keep ts _ Hb0) as Hp.
        pose proof (restrict_metas_fold_g _ _ _ Hb) as Hf.
        destruct (is_nil (restrict_toks keep ts)) eqn:En.
        * destruct (restrict_toks keep ts); [|discriminate]. rewrite parse_metas_nil in Hp.
          injection Hp as Hp. rewrite <- Hp in Hf. exact Hf.
        * cbn [foldM]. unfold attr_step. cbn [is_educe a_path a_meta].
          change (is_educe {| a_path := a_path a; a_meta := AMList dl (restrict_toks keep ts) |})
            with (is_educe a). rewrite Ee, Hp. cbn [bind]. rewrite Hf. reflexivity.
    - cbn [foldM]. unfold attr_step. rewrite Ee. injection Hb as <-. reflexivity.
  Qed.
End RestrictFoldG.

Section RestrictFold.
  Context {S : Type}.
  Variables (step step' : S -> meta -> outcome S) (other : S -> outcome S) (keep : trait -> bool).
  Hypothesis Hkept : forall s m s', meta_kept keep m = true -> step s m = Ok s' -> step' s m = Ok s'.
  Hypothesis Hdrop : forall s m s', meta_kept keep m = false -> step s m = Ok s' -> s' = s.

  Lemma restrict_attr_fold attrs : forall s s',
    foldM (attr_step step other) s attrs = Ok s' ->
    foldM (attr_step step' other) s (restrict_attrs keep attrs) = Ok s'.
  Proof.
    apply (restrict_attr_fold_g step step' other other (fun s => s) keep Hkept Hdrop).
    intros s s' H. exact H.
  Qed.
End RestrictFold.

(** * the scanners *)
Section RestrictScan.
  Variables (F : features) (keep : trait -> bool) (tr tr' : list trait).
  (** the kept traits that were educed still are *)
  Hypothesis Htr : forall t, keep t = true -> has_trait t tr = true -> has_trait t tr' = true.

  Lemma meta_kept_tfp m t : trait_from_path F (meta_path m) = Some t -> meta_kept keep m = keep t.
  Proof.
    intros H. apply tfp_some in H as [_ H]. unfold meta_kept, meta_trait.
    rewrite H, trait_of_name_name. reflexivity.
  Qed.

  (** [own] : the traits whose metas the scanner builds from — all of them kept *)
  Theorem scan_restrict {A} own own' (build : meta -> outcome A) attrs r :
    (forall t, own t = true -> keep t = true) ->
    (forall t, keep t = true -> own' t = own t) ->
    scan_attrs F own build tr attrs = Ok r ->
    scan_attrs F own' build tr' (restrict_attrs keep attrs) = Ok r.
  Proof.
    intros Hown Hown' H. unfold scan_attrs, scan_attr in *.
    apply (restrict_attr_fold (scan_meta F own build tr) (scan_meta F own' build tr')
                              (fun s => Ok s) keep); [| |exact H].
    - intros s m s' Hk Hs. unfold scan_meta in *.
      destruct (trait_from_path F (meta_path m)) as [t|] eqn:Et; [|discriminate].
      rewrite (meta_kept_tfp _ _ Et) in Hk.
      destruct (has_trait t tr) eqn:Eh; [|discriminate]. rewrite (Htr t Hk Eh). cbn [negb] in *.
      rewrite (Hown' t Hk). exact Hs.
    - intros s m s' Hk Hs. unfold scan_meta in Hs.
      destruct (trait_from_path F (meta_path m)) as [t|] eqn:Et; [|discriminate].
      rewrite (meta_kept_tfp _ _ Et) in Hk.
      destruct (negb (has_trait t tr)); [discriminate|].
      destruct (own t) eqn:Eo; [rewrite (Hown t Eo) in Hk; discriminate|].
      injection Hs as <-. reflexivity.
  Qed.

  Theorem into_collect_restrict attrs r :
    keep TInto = true ->
    into_collect F tr attrs = Ok r -> into_collect F tr' (restrict_attrs keep attrs) = Ok r.
  Proof.
    intros Hk H. unfold into_collect, into_collect_attr in *.
    apply (restrict_attr_fold (into_collect_meta F tr) (into_collect_meta F tr')
                              (fun s => Ok s) keep); [| |exact H].
    - intros s m s' Hkm Hs. unfold into_collect_meta in *.
      destruct (trait_from_path F (meta_path m)) as [t|] eqn:Et; [|discriminate].
      rewrite (meta_kept_tfp _ _ Et) in Hkm.
      destruct (has_trait t tr) eqn:Eh; [|discriminate]. rewrite (Htr t Hkm Eh). exact Hs.
    - intros s m s' Hkm Hs. unfold into_collect_meta in Hs.
      destruct (trait_from_path F (meta_path m)) as [t|] eqn:Et; [|discriminate].
      rewrite (meta_kept_tfp _ _ Et) in Hkm.
      destruct (negb (has_trait t tr)); [discriminate|].
      destruct (trait_eqb t TInto) eqn:Ei.
      + apply trait_eqb_eq in Ei. subst t. congruence.
      + injection Hs as <-. reflexivity.
  Qed.
End RestrictScan.
