(** C01 / J7 -- Debug, Default, Deref, DerefMut, Into, and the whole [expand]. *)
From Educe.Proofs Require Export P_C01a.

(** * Debug *)
Definition kind_of_name (has_name : bool) : option bkind :=
  Some (if has_name then BKStruct else BKMap).

Lemma dbg_entry_arity has_name key value :
  expr_arity (kind_of_name has_name) value = true ->
  expr_arity (kind_of_name has_name) (dbg_entry has_name key value) = true.
Proof.
  intros Hv. unfold dbg_entry, builder_stmt, stringify. destruct has_name;
    unfold kind_of_name in *; asimpl; rewrite Hv; reflexivity.
Qed.

Lemma dbg_named_field_arity d has_name key ty fa op :
  (forall k, expr_arity k op = true) ->
  forallb (expr_arity (kind_of_name has_name)) (dbg_named_field d has_name key ty fa op) = true.
Proof.
  intros Ho. unfold dbg_named_field, dbg_arg. destruct (df_method fa); cbn [forallb].
  - rewrite dbg_entry_arity by reflexivity. asimpl. rewrite Ho. reflexivity.
  - rewrite dbg_entry_arity by apply Ho. reflexivity.
Qed.

Lemma dbg_tuple_field_arity d ty fa op :
  (forall k, expr_arity k op = true) ->
  forallb (expr_arity (Some BKTuple)) (dbg_tuple_field d ty fa op) = true.
Proof.
  intros Ho. unfold dbg_tuple_field, dbg_arg, builder_stmt. destruct (df_method fa); asimpl;
    rewrite Ho; reflexivity.
Qed.

Lemma named_block_arity c d (name_arg : option expr) has_name
      (l : list (nat * (field * Expand_Debug.dfattr)))
      (key : field -> nat -> Expand_Debug.dfattr -> string) (op : field -> nat -> expr) :
  has_name = is_some name_arg ->
  (forall k a, name_arg = Some a -> expr_arity k a = true) ->
  (forall k f i, expr_arity k (op f i) = true) ->
  let b := (named_builder name_arg ::
            flat_map (fun '(i, (f, fa)) =>
                        if df_ignore fa then []
                        else dbg_named_field d has_name (key f i fa) (f_ty f) fa (op f i)) l)
           ++ [builder_finish] in
  forallb (expr_arity (j7_enter_block c b)) b = true.
Proof.
  intros Hn Ha Ho b.
  assert (Hk : j7_enter_block c b = kind_of_name has_name).
  { subst b. rewrite Hn. destruct name_arg; reflexivity. }
  rewrite Hk. subst b. rewrite forallb_app. cbn [forallb].
  assert (Hb : expr_arity (kind_of_name has_name) (named_builder name_arg) = true).
  { unfold named_builder, let_builder. destruct name_arg as [a|]; [|reflexivity].
    asimpl. rewrite (Ha _ a eq_refl). reflexivity. }
  rewrite Hb. cbn [andb]. rewrite forallb_flat_map.
  rewrite forallb_true; [reflexivity|]. intros [i [f fa]].
  destruct (df_ignore fa); [reflexivity|]. apply dbg_named_field_arity. intros k. apply Ho.
Qed.

Lemma tuple_block_arity c d (name_arg : expr) (l : list (nat * (field * Expand_Debug.dfattr)))
      (op : field -> nat -> expr) :
  (forall k, expr_arity k name_arg = true) ->
  (forall k f i, expr_arity k (op f i) = true) ->
  let b := (let_builder "debug_tuple" [name_arg] ::
            flat_map (fun '(i, (f, fa)) =>
                        if df_ignore fa then [] else dbg_tuple_field d (f_ty f) fa (op f i)) l)
           ++ [builder_finish] in
  forallb (expr_arity (j7_enter_block c b)) b = true.
Proof.
  intros Hn Ho b.
  assert (Hk : j7_enter_block c b = Some BKTuple) by reflexivity.
  rewrite Hk. subst b. rewrite forallb_app. cbn [forallb]. unfold let_builder at 1. asimpl.
  rewrite Hn. cbn [andb]. rewrite forallb_flat_map.
  rewrite forallb_true; [reflexivity|]. intros [i [f fa]].
  destruct (df_ignore fa); [reflexivity|]. apply dbg_tuple_field_arity. intros k. apply Ho.
Qed.

Lemma dbg_struct_body_arity d name nf l :
  walk_body j7_node (fun _ _ => true) j7_enter_block (fun c _ => c) None
            (dbg_struct_body d name nf l) = true.
Proof.
  unfold dbg_struct_body, walk_body. destruct nf.
  - apply (named_block_arity None d (option_map (fun n => stringify [I n]) name) (is_some name) l
             struct_key self_field).
    + destruct name; reflexivity.
    + intros k a E. destruct name; [|discriminate E]. inversion E. reflexivity.
    + intros k f i. reflexivity.
  - apply (tuple_block_arity None d (stringify (opt_ident_toks name)) l self_field).
    + intros k. reflexivity.
    + intros k f i. reflexivity.
Qed.

(** what the analysis guarantees about a variant: a unit variant has a name to print *)
Definition dv_ok (v : dvariant) : Prop :=
  dv_fields v = FUnit -> is_some (dv_name_string v) = true.

Lemma debug_variant_ok F traits name v dv : debug_variant F traits name v = Ok dv -> dv_ok dv.
Proof.
  unfold debug_variant, dv_ok. intros H. inv_bind H.
  destruct (v_fields v) as [l|l|] eqn:Ef.
  - inv_bind H. destruct (_ && _); [discriminate H|]. inversion H. cbn. discriminate.
  - inv_bind H. destruct (_ && _); [discriminate H|]. inversion H. cbn. discriminate.
  - destruct (is_some _) eqn:Es; [|discriminate H]. inversion H. cbn. intros _. exact Es.
Qed.

Lemma dbg_arm_arity k d v : dv_ok v -> expr_arity k (snd (dbg_arm d v)) = true.
Proof.
  intros Hok. unfold dbg_arm.
  assert (Hblock : expr_arity k (dbg_arm_block d v) = true).
  { unfold dbg_arm_block. cbv beta delta [expr_arity]. cbn [walk j7_node andb]. fold expr_arity.
    destruct (dv_named_field v).
    - apply (named_block_arity k d (option_map EStr (dv_name_string v))
               (is_some (dv_name_string v)) (dv_list v) variant_key
               (fun f i => EVar (Expand_Debug.arm_var f i))).
      + destruct (dv_name_string v); reflexivity.
      + intros k' a E. destruct (dv_name_string v); [|discriminate E]. inversion E. reflexivity.
      + intros k' f i. reflexivity.
    - apply (tuple_block_arity k d _ (dv_list v) (fun f i => EVar (Expand_Debug.arm_var f i))).
      + intros k'. reflexivity.
      + intros k' f i. reflexivity. }
  destruct (dv_fields v) as [nl|ul|] eqn:Ef; cbn [snd]; try exact Hblock.
  specialize (Hok Ef). destruct (dv_name_string v); [reflexivity|discriminate Hok].
Qed.

Lemma dbg_union_body_arity name :
  walk_body j7_node (fun _ _ => true) j7_enter_block (fun c _ => c) None (dbg_union_body name) = true.
Proof. destruct name; vm_compute; reflexivity. Qed.

Theorem debug_arity F traits d m items :
  expand_debug F traits d m = Ok items -> forallb item_arity items = true.
Proof.
  unfold expand_debug. intros H. destruct (d_data d) as [fs|vs|fs].
  - inv_bind H. inv_bind H. destruct (_ && _); [discriminate H|].
    inversion H; subst items. cbn [forallb]. unfold dbg_item. asimpl.
    rewrite dbg_struct_body_arity. reflexivity.
  - inv_bind H. inv_bind H. destruct (_ && _); [discriminate H|].
    inversion H; subst items. cbn [forallb]. unfold dbg_item.
    rewrite one_fn_item_arity; [reflexivity|]. intros k. unfold dbg_enum_body.
    destruct (is_nil a0); [reflexivity|]. asimpl. rewrite forallb_map, andb_true_r.
    apply mapM_ok_Forall2 in Hb0. clear - Hb0.
    induction Hb0 as [|v dv vs dvs Hv _ IH]; [reflexivity|]. cbn [forallb].
    rewrite (dbg_arm_arity k d dv (debug_variant_ok _ _ _ _ _ Hv)). exact IH.
  - inv_bind H. destruct (negb (dt_unsafe a)); [discriminate H|]. inv_bind H.
    inversion H; subst items. cbn [forallb]. unfold dbg_item. asimpl.
    rewrite dbg_union_body_arity. reflexivity.
Qed.

(** * Default *)
Lemma dvalue_expr_arity k v : expr_arity k (dvalue_expr v) = true.
Proof. destruct v; reflexivity. Qed.

Theorem default_arity F traits d m items :
  expand_default F traits d m = Ok items -> forallb item_arity items = true.
Proof.
  intros H. unfold expand_default in H. inv_bind H. inversion H; subst items.
  unfold default_items. cbn [forallb]. rewrite andb_true_iff. split.
  - unfold default_item. apply one_fn_item_arity. intros k. cbn [forallb]. rewrite andb_true_r.
    destruct (dp_body a) as [v|p|p fs|p fs] eqn:E; cbn [dbody_expr].
    + apply dvalue_expr_arity.
    + reflexivity.
    + asimpl. rewrite forallb_map. apply forallb_true. intros [n v]. apply dvalue_expr_arity.
    + pose proof (default_plan_path _ _ _ _ _ Hb) as Hp. rewrite E in Hp. cbn in Hp.
      destruct Hp as [->|[vn ->]]; asimpl; rewrite forallb_map; apply forallb_true; intros v;
        apply dvalue_expr_arity.
  - destruct (dp_new a); reflexivity.
Qed.

(** * Deref / DerefMut *)
Lemma deref_match_arity k arms : forallb (expr_arity k) (deref_match arms) = true.
Proof.
  unfold deref_match. asimpl. rewrite forallb_map, andb_true_r. apply forallb_true.
  intros [v [i f]]. unfold deref_arm. destruct (f_name f); reflexivity.
Qed.

Theorem deref_arity F traits d m items :
  expand_deref F traits d m = Ok items -> forallb item_arity items = true.
Proof.
  intros H. unfold expand_deref in H. inv_bind H. inversion H; subst items.
  destruct a as [i f|x r]; cbn [deref_emit forallb]; rewrite andb_true_r; unfold deref_item; asimpl;
    (rewrite body_arity_any; [reflexivity|]); intros k.
  - unfold deref_struct_body. destruct (is_ref_type (f_ty f)); reflexivity.
  - apply deref_match_arity.
Qed.

Theorem deref_mut_arity F traits d m items :
  expand_deref_mut F traits d m = Ok items -> forallb item_arity items = true.
Proof.
  intros H. unfold expand_deref_mut in H. inv_bind H. inversion H; subst items.
  destruct a as [i f|x r]; cbn [deref_mut_emit forallb]; rewrite andb_true_r;
    unfold deref_mut_item; apply one_fn_item_arity; intros k.
  - unfold deref_mut_struct_body. destruct (is_ref_type (f_ty f)); reflexivity.
  - apply deref_match_arity.
Qed.

(** * Into *)
Lemma into_conv_arity k target c operand :
  expr_arity k operand = true -> expr_arity k (into_conv target c operand) = true.
Proof.
  intros Ho. destruct c as [[i f] m]. unfold into_conv. destruct m as [p|].
  - asimpl. rewrite Ho. reflexivity.
  - destruct (flat_eqb target (hash_type (f_ty f))); [exact Ho|]. asimpl. rewrite Ho. reflexivity.
Qed.

Theorem into_arity F traits d ms items :
  expand_into F traits d ms = Ok items -> forallb item_arity items = true.
Proof.
  intros H. unfold expand_into in H. inv_bind H. inversion H; subst items.
  unfold into_emit. rewrite forallb_map. apply forallb_true. intros [[target b] p].
  unfold into_emit1. destruct p as [c|l].
  - destruct c as [[i f] m]. unfold into_struct_item, into_item. apply one_fn_item_arity.
    intros k. cbn [forallb]. rewrite andb_true_r. apply into_conv_arity. reflexivity.
  - unfold into_enum_item, into_item. apply one_fn_item_arity. intros k. asimpl.
    rewrite forallb_map, andb_true_r. apply forallb_true. intros [v [[i f] m]].
    unfold into_arm. destruct (f_name f); cbn [snd]; apply into_conv_arity; reflexivity.
Qed.

(** * the whole macro: a generic fold over the handlers, for any judgment on items that every
    handler's output satisfies *)
Section WholeGeneric.
  Variable F : features.
  Variable d : dinput.
  Variable J : item -> bool.
  Hypothesis Hh : forall traits t h m items,
    In (t, h) handlers -> h F traits d m = Ok items -> forallb J items = true.
  Hypothesis Hinto : forall traits ms items,
    expand_into F traits d ms = Ok items -> forallb J items = true.

  Lemma handlers_fold_generic traits tm : forall hs acc acc',
    incl hs handlers -> forallb J acc = true ->
    foldM (run_handler F traits d tm) acc hs = Ok acc' -> forallb J acc' = true.
  Proof.
    induction hs as [|[t h] hs IH]; intros acc acc' Hi Ha H; cbn [foldM] in H.
    - inversion H; subst. exact Ha.
    - inv_bind H. apply (IH a acc'); [intros x Hx; apply Hi; right; exact Hx| |exact H].
      destruct (run_handler_inv _ _ _ _ _ _ _ _ Hb) as [->|[m [rest [its [Hg [Hr ->]]]]]];
        [exact Ha|].
      rewrite forallb_app, Ha. cbn [andb].
      apply (Hh traits t h m its); [apply Hi; left; reflexivity|exact Hr].
  Qed.

  Theorem expand_generic items : expand F d = Ok items -> forallb J items = true.
  Proof.
    unfold expand. intros H. inv_bind H. rename a into tm. inv_bind H. rename a into its0.
    inv_bind H. destruct (is_nil a); [discriminate H|]. inversion H; subst a. clear H.
    pose proof (handlers_fold_generic _ tm handlers [] its0 (incl_refl _) eq_refl Hb0) as H0.
    destruct (tmap_get TInto tm) as [ms|].
    - destruct (has_trait TInto F).
      + inv_bind Hb1. inversion Hb1; subst items. rewrite forallb_app, H0. cbn [andb].
        apply (Hinto _ _ _ Hb2).
      + inversion Hb1; subst. exact H0.
    - inversion Hb1; subst. exact H0.
  Qed.
End WholeGeneric.

Lemma handler_arity F traits d t h m items :
  In (t, h) handlers -> h F traits d m = Ok items -> forallb item_arity items = true.
Proof.
  intros Hin Hh. unfold handlers in Hin. cbn [In] in Hin.
  repeat (destruct Hin as [Hin|Hin]; [inversion Hin; subst t h; clear Hin|]); [..|destruct Hin].
  - apply (debug_arity _ _ _ _ _ Hh).
  - apply (clone_arity _ _ _ _ _ Hh).
  - apply (copy_arity _ _ _ _ _ Hh).
  - apply (partial_eq_arity _ _ _ _ _ Hh).
  - apply (eq_arity _ _ _ _ _ Hh).
  - apply (partial_ord_arity _ _ _ _ _ Hh).
  - apply (ord_arity _ _ _ _ _ Hh).
  - apply (hash_arity _ _ _ _ _ Hh).
  - apply (default_arity _ _ _ _ _ Hh).
  - apply (deref_arity _ _ _ _ _ Hh).
  - apply (deref_mut_arity _ _ _ _ _ Hh).
Qed.

Theorem expand_arity F d items : expand F d = Ok items -> forallb item_arity items = true.
Proof.
  apply expand_generic.
  - intros traits t h m its. apply handler_arity.
  - intros traits ms its. apply into_arity.
Qed.
