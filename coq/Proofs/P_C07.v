(** C07 — Clone: what the emitted `clone` computes.  Generic lemmas (one per
    emitted construct) and the bodies of structs and of enum arms. *)
From Educe.Spec Require Export SpecClone.
From Educe.Proofs Require Export StringLemmas EvalLemmas P_C02b.

Definition source_place : place := {| pl_root := "source"; pl_path := [] |}.
Definition clone_env : env := [("self", VRef self_place)].
Definition clone_state (x : value) : state := {| st_store := [("self", x)]; st_trace := [] |}.

(** `x.clone()` through the generated impl: the returned value and the calls made *)
Definition run_clone (I : interp) (it : item) (x : value) : option (value * list event) :=
  match find_fn "clone" it with
  | Some body =>
      match run_body I clone_env body (clone_state x) with
      | (RVal v, s) => Some (v, st_trace s)
      | _ => None
      end
  | None => None
  end.

Definition logs (evs : list event) (s : state) : state :=
  {| st_store := st_store s; st_trace := st_trace s ++ evs |}.

Lemma logs_nil s : logs [] s = s.
Proof. destruct s as [st tr]. unfold logs. cbn. rewrite app_nil_r. reflexivity. Qed.
Lemma logs_log ev evs s : logs evs (log ev s) = logs (ev :: evs) s.
Proof. unfold logs, log. cbn. rewrite <- app_assoc. reflexivity. Qed.
Lemma logs_store evs s : st_store (logs evs s) = st_store s.
Proof. reflexivity. Qed.

(** ** general facts on lists of keyed things *)
Lemma NoDup_map_inj {A B} (f : A -> B) (l : list A) a b :
  NoDup (map f l) -> In a l -> In b l -> f a = f b -> a = b.
Proof.
  induction l as [|x r IH]; intros Hnd Ha Hb Hf; [destruct Ha|].
  cbn [map] in Hnd. inversion Hnd as [|? ? Hnotin Hnd']; subst.
  destruct Ha as [Ha|Ha], Hb as [Hb|Hb]; subst.
  - reflexivity.
  - exfalso. apply Hnotin. rewrite Hf. apply in_map. exact Hb.
  - exfalso. apply Hnotin. rewrite <- Hf. apply in_map. exact Ha.
  - apply IH; assumption.
Qed.

Lemma load_root_field st r vn xs k :
  lookup r st = Some (VData vn xs) ->
  load st (sub {| pl_root := r; pl_path := [] |} k) = lookup k xs.
Proof.
  intros H. unfold load, sub. cbn [pl_root pl_path app]. rewrite H.
  cbn [project_path project]. destruct (lookup k xs); reflexivity.
Qed.

Lemma load_self_field st vn xs k :
  lookup "self" st = Some (VData vn xs) -> load st (sub self_place k) = lookup k xs.
Proof. apply load_root_field. Qed.
Lemma load_source_field st vn xs k :
  lookup "source" st = Some (VData vn xs) -> load st (sub source_place k) = lookup k xs.
Proof. apply load_root_field. Qed.

Lemma tuple_fields_index vs :
  tuple_fields vs = map (fun '(i, v) => (dec i, v)) (index_from 0 vs).
Proof.
  unfold tuple_fields. f_equal. generalize 0.
  induction vs as [|x r IH]; intros i; [reflexivity|]. cbn [index_from]. f_equal. apply IH.
Qed.

Lemma tuple_fields_keyed (vs : list (string * value)) :
  map fst vs = map dec (seq 0 (List.length vs)) -> tuple_fields (map snd vs) = vs.
Proof.
  rewrite tuple_fields_index. generalize 0.
  induction vs as [|[k v] r IH]; intros i H; [reflexivity|].
  cbn [map fst snd List.length seq index_from] in *. inversion H as [[Hk Hr]].
  f_equal. apply IH. exact Hr.
Qed.

(** ** bindings introduced by matching through a reference *)
Definition rbinds (bn : string -> string) (p : place) (keys : list string) : env :=
  map (fun k => (bn k, VRef (sub p k))) keys.

Lemma match_fields_bind bn p st keys :
  (forall k, In k keys -> load st (sub p k) <> None) ->
  match_field_pats (match_pat st) st (VRef p) (map (fun k => (k, Some (PBind (bn k)))) keys)
  = Some (rbinds bn p keys).
Proof.
  induction keys as [|k r IH]; intros H; [reflexivity|].
  cbn [map match_field_pats rbinds]. fold (rbinds bn p r). unfold sub_scrut.
  destruct (load st (sub p k)) eqn:E.
  - rewrite IH by (intros k' Hk'; apply H; right; exact Hk'). reflexivity.
  - exfalso. eapply H; [left; reflexivity|exact E].
Qed.

Lemma match_tuple_bind bn p st : forall n i0,
  (forall k, In k (map dec (seq i0 n)) -> load st (sub p k) <> None) ->
  match_tuple_pats (match_pat st) st (VRef p) i0 (map (fun k => PBind (bn k)) (map dec (seq i0 n)))
  = Some (rbinds bn p (map dec (seq i0 n))).
Proof.
  induction n as [|n IH]; intros i0 H; [reflexivity|].
  cbn [seq map match_tuple_pats rbinds]. fold (rbinds bn p (map dec (seq (S i0) n))). unfold sub_scrut.
  destruct (load st (sub p (dec i0))) eqn:E.
  - rewrite IH by (intros k' Hk'; apply H; right; exact Hk'). reflexivity.
  - exfalso. eapply H; [left; reflexivity|exact E].
Qed.

Lemma lookup_rbinds bn p keys k :
  (forall k', In k' keys -> bn k = bn k' -> k = k') -> In k keys ->
  lookup (bn k) (rbinds bn p keys) = Some (VRef (sub p k)).
Proof.
  induction keys as [|k0 r IH]; intros Hinj Hin; [destruct Hin|].
  cbn [rbinds map lookup]. fold (rbinds bn p r).
  destruct (String.eqb (bn k) (bn k0)) eqn:E.
  - apply String.eqb_eq in E. rewrite (Hinj k0 (or_introl eq_refl) E). reflexivity.
  - destruct Hin as [Hin|Hin]; [subst; rewrite String.eqb_refl in E; discriminate|].
    apply IH; [|exact Hin]. intros k' Hk'. apply Hinj. right. exact Hk'.
Qed.

Lemma lookup_rbinds_none bn p keys x :
  (forall k, In k keys -> String.eqb x (bn k) = false) -> lookup x (rbinds bn p keys) = None.
Proof.
  induction keys as [|k0 r IH]; intros H; [reflexivity|].
  cbn [rbinds map lookup]. fold (rbinds bn p r). rewrite (H k0 (or_introl eq_refl)).
  apply IH. intros k Hk. apply H. right. exact Hk.
Qed.

Lemma rbinds_length bn p keys : List.length (rbinds bn p keys) = List.length keys.
Proof. apply map_length. Qed.

(** binder names of the templates *)
Definition bn_s (k : string) : string := "_s_" ^^ unraw k.
Definition bn_d (k : string) : string := "_d_" ^^ unraw k.
Definition bn_u (k : string) : string := "_" ^^ k.
Definition bn_uu (k : string) : string := "__" ^^ k.

Lemma bn_u_inj k k' : bn_u k = bn_u k' -> k = k'.
Proof. unfold bn_u. cbn. intros H. inversion H. reflexivity. Qed.
Lemma bn_uu_inj k k' : bn_uu k = bn_uu k' -> k = k'.
Proof. unfold bn_uu. cbn. intros H. inversion H. reflexivity. Qed.
Lemma bn_s_inj keys k k' :
  NoDup (map unraw keys) -> In k keys -> In k' keys -> bn_s k = bn_s k' -> k = k'.
Proof.
  intros Hnd Hk Hk' H. apply (NoDup_map_inj unraw keys k k' Hnd Hk Hk').
  unfold bn_s in H. cbn in H. inversion H. reflexivity.
Qed.
Lemma bn_d_inj keys k k' :
  NoDup (map unraw keys) -> In k keys -> In k' keys -> bn_d k = bn_d k' -> k = k'.
Proof.
  intros Hnd Hk Hk' H. apply (NoDup_map_inj unraw keys k k' Hnd Hk Hk').
  unfold bn_d in H. cbn in H. inversion H. reflexivity.
Qed.

(** ** the request of a plan, by shape *)
Definition plan_named (l : list cfield) : Prop := forall f m, In (f, m) l -> f_name f <> None.
Definition plan_unnamed (l : list cfield) : Prop := forall f m, In (f, m) l -> f_name f = None.

Lemma ckeyed_from_named i0 (l : list cfield) :
  plan_named l ->
  map (fun '(i, (f, m)) => (field_key i f, m)) (index_from i0 l) = map (fun '(f, m) => (cfield_name f, m)) l.
Proof.
  revert i0. induction l as [|[f m] r IH]; intros i0 H; [reflexivity|].
  cbn [index_from map]. f_equal.
  - unfold field_key, cfield_name. pose proof (H f m (or_introl eq_refl)) as Hn.
    destruct (f_name f); [reflexivity|congruence].
  - apply IH. intros g n Hin. apply (H g n). right. exact Hin.
Qed.
Lemma ckeyed_named l : plan_named l -> ckeyed l = map (fun '(f, m) => (cfield_name f, m)) l.
Proof. apply ckeyed_from_named. Qed.

Lemma ckeyed_from_unnamed i0 (l : list cfield) :
  plan_unnamed l ->
  map (fun '(i, (f, m)) => (field_key i f, m)) (index_from i0 l)
  = map (fun '(i, (f, m)) => (dec i, m)) (index_from i0 l).
Proof.
  revert i0. induction l as [|[f m] r IH]; intros i0 H; [reflexivity|].
  cbn [index_from map]. f_equal.
  - unfold field_key. rewrite (H f m (or_introl eq_refl)). reflexivity.
  - apply IH. intros g n Hin. apply (H g n). right. exact Hin.
Qed.
Lemma ckeyed_unnamed l : plan_unnamed l -> ckeyed l = map (fun '(i, (f, m)) => (dec i, m)) (indexed l).
Proof. apply ckeyed_from_unnamed. Qed.

Lemma ckeyed_unnamed_keys l : plan_unnamed l -> map fst (ckeyed l) = map dec (seq 0 (List.length l)).
Proof.
  intros H. rewrite (ckeyed_unnamed l H). unfold indexed. generalize 0.
  clear H. induction l as [|[f m] r IH]; intros i; [reflexivity|].
  cbn [index_from map fst List.length seq]. f_equal. apply IH.
Qed.

Lemma ckeyed_length l : List.length (ckeyed l) = List.length l.
Proof. unfold ckeyed. rewrite map_length. unfold indexed. apply index_from_length. Qed.

Lemma has_method_ckeyed l :
  has_method (ckeyed l) = existsb (fun '(f, m) => match m with Some _ => true | None => false end) l.
Proof.
  unfold ckeyed, indexed. generalize 0.
  induction l as [|[f m] r IH]; intros i; [reflexivity|].
  cbn [index_from map has_method existsb snd]. f_equal. apply IH.
Qed.

(** ** the spec on field lists *)
Lemma spec_clone_fields_keys I l xs vs evs :
  spec_clone_fields I l xs = Some (vs, evs) -> map fst vs = map fst l.
Proof.
  revert vs evs. induction l as [|[k m] r IH]; intros vs evs H.
  - inversion H. reflexivity.
  - cbn [spec_clone_fields] in H. destruct (lookup k xs) as [x|]; [|discriminate H].
    destruct (spec_clone_fields I r xs) as [[vs' evs']|]; [|discriminate H].
    inversion H; subst. cbn [map fst]. f_equal. eapply IH. reflexivity.
Qed.

Lemma spec_clone_fields_total I l xs :
  (forall k, In k (map fst l) -> In k (map fst xs)) ->
  exists vs evs, spec_clone_fields I l xs = Some (vs, evs).
Proof.
  induction l as [|[k m] r IH]; intros H; [exists [], []; reflexivity|].
  cbn [spec_clone_fields].
  destruct (lookup_some_of_keys k xs) as [x Hx]; [apply H; left; reflexivity|].
  destruct IH as [vs [evs Hr]]; [intros k' Hk'; apply H; right; exact Hk'|].
  rewrite Hx, Hr. eauto.
Qed.

Lemma spec_clone_fields_length I l xs vs evs :
  spec_clone_fields I l xs = Some (vs, evs) -> List.length vs = List.length l.
Proof.
  intros H. apply spec_clone_fields_keys in H.
  rewrite <- (map_length fst vs), H, map_length. reflexivity.
Qed.

Section Clone.
  Variable I : interp.

  (** one clone call on a reference to a place *)
  Lemma eval_clone_call m en e p x s :
    (forall s0, eval I en e s0 = (RVal (VRef p), s0)) ->
    load (st_store s) p = Some x ->
    eval I en (clone_call m e) s = (RVal (clone_field I m x), log (clone_event m x) s).
  Proof.
    intros He Hx. unfold clone_call, clone_field, clone_event. destruct m as [q|].
    - cbn [eval eval_args]. rewrite He. cbn [apply_path]. unfold call_user.
      cbn [strip_all strip]. rewrite Hx. reflexivity.
    - unfold clone_fn. cbn [eval eval_args]. rewrite He. cbn [apply_path]. unfold call_core.
      cbn [strip]. rewrite Hx. reflexivity.
  Qed.

  (** the field initialisers of a constructor expression, evaluated in order *)
  Lemma clone_fields_eval en (src : string -> expr) vn xs : forall (l : creq) vs evs s,
    (forall k m, In (k, m) l ->
                 forall s0, eval I en (src k) s0 = (RVal (VRef (sub self_place k)), s0)) ->
    st_store s = [("self", VData vn xs)] ->
    spec_clone_fields I l xs = Some (vs, evs) ->
    eval_fields (eval I) en (map (fun '(k, m) => (k, clone_call m (src k))) l) s
    = (Some vs, RVal VUnit, logs evs s)
    /\ eval_args (eval I) en (map (fun '(k, m) => clone_call m (src k)) l) s
       = (Some (map snd vs), RVal VUnit, logs evs s).
  Proof.
    induction l as [|[k m] r IH]; intros vs evs s Hsrc Hs Hspec.
    - inversion Hspec; subst. cbn [map eval_fields eval_args]. rewrite logs_nil. split; reflexivity.
    - cbn [spec_clone_fields] in Hspec.
      destruct (lookup k xs) as [x|] eqn:Hx; [|discriminate Hspec].
      destruct (spec_clone_fields I r xs) as [[vs' evs']|] eqn:Hr; [|discriminate Hspec].
      inversion Hspec; subst vs evs; clear Hspec.
      assert (Hcall : eval I en (clone_call m (src k)) s
                      = (RVal (clone_field I m x), log (clone_event m x) s)).
      { apply (eval_clone_call m en (src k) (sub self_place k) x s).
        - apply (Hsrc k m). left. reflexivity.
        - rewrite (load_self_field (st_store s) vn xs k); [exact Hx|rewrite Hs; reflexivity]. }
      destruct (IH vs' evs' (log (clone_event m x) s)) as [IHf IHa].
      { intros k' m' Hin. apply (Hsrc k' m'). right. exact Hin. }
      { exact Hs. }
      { reflexivity. }
      cbn [map eval_fields eval_args snd]. rewrite Hcall, IHf, IHa, logs_log. split; reflexivity.
  Qed.

  (** ** struct bodies *)
  Lemma struct_named_body_eq l :
    map (fun '(i, (f, m)) => (field_member f i, cs_clone_field (field_member f i) m)) (indexed l)
    = map (fun '(k, m) => (k, clone_call m (ERef (EField (EVar "self") k)))) (ckeyed l).
  Proof. unfold ckeyed. rewrite map_map. apply map_ext. intros [i [f m]]. reflexivity. Qed.

  Lemma struct_unnamed_body_eq l : plan_unnamed l ->
    map (fun '(i, (f, m)) => cs_clone_field (dec i) m) (indexed l)
    = map (fun '(k, m) => clone_call m (ERef (EField (EVar "self") k))) (ckeyed l).
  Proof.
    intros H. rewrite (ckeyed_unnamed l H). rewrite map_map. apply map_ext. intros [i [f m]]. reflexivity.
  Qed.

  Lemma self_field_src en k s0 :
    lookup "self" en = Some (VRef self_place) ->
    eval I en (ERef (EField (EVar "self") k)) s0 = (RVal (VRef (sub self_place k)), s0).
  Proof. intros H. cbn [eval place_of]. rewrite H. reflexivity. Qed.

  (** clone_struct.rs: the body of `clone` when Copy is not educed *)
  Lemma struct_clone_body fs l xs vs evs s :
    fields_wf fs -> map fst l = fields_list fs ->
    st_store s = [("self", VData None xs)] ->
    spec_clone_fields I (ckeyed l) xs = Some (vs, evs) ->
    eval_block (eval I) clone_env (clone_struct_body fs l) s = (RVal (VData None vs), logs evs s).
  Proof.
    intros Hwf Hfst Hs Hspec.
    assert (Hsrc : forall k m, In (k, m) (ckeyed l) -> forall s0,
                   eval I clone_env (ERef (EField (EVar "self") k)) s0
                   = (RVal (VRef (sub self_place k)), s0)).
    { intros k m _ s0. apply self_field_src. reflexivity. }
    destruct (clone_fields_eval clone_env (fun k => ERef (EField (EVar "self") k)) None xs
                (ckeyed l) vs evs s Hsrc Hs Hspec) as [Hf Ha].
    destruct fs as [fl|fl|]; cbn [fields_list] in Hfst.
    - unfold clone_struct_body. rewrite struct_named_body_eq.
      cbn [eval_block eval is_nil]. rewrite Hf. reflexivity.
    - assert (Hun : plan_unnamed l).
      { intros f m Hin. apply Hwf. rewrite <- Hfst. apply (in_map fst l (f, m)). exact Hin. }
      unfold clone_struct_body. rewrite (struct_unnamed_body_eq l Hun).
      cbn [eval_block eval is_nil]. rewrite Ha. cbn [apply_path].
      rewrite tuple_fields_keyed; [reflexivity|].
      rewrite (spec_clone_fields_keys _ _ _ _ _ Hspec), (spec_clone_fields_length _ _ _ _ _ Hspec).
      rewrite ckeyed_length. apply ckeyed_unnamed_keys. exact Hun.
    - destruct l; [|discriminate Hfst]. cbn in Hspec. inversion Hspec; subst.
      cbn [clone_struct_body eval_block eval path_value is_nil]. rewrite logs_nil. reflexivity.
  Qed.

  (** ** enum arms *)
  Definition cv_req (cv : cvariant) : creq := ckeyed (cv_plan cv).
  Definition cv_wf (cv : cvariant) : Prop :=
    fields_wf (cv_fields cv) /\ map fst (cv_plan cv) = fields_list (cv_fields cv).

  Lemma cv_wf_named cv fl : cv_wf cv -> cv_fields cv = FNamed fl ->
    plan_named (cv_plan cv) /\ NoDup (map unraw (map fst (cv_req cv))).
  Proof.
    intros [Hwf Hfst] Hf. rewrite Hf in Hwf, Hfst. cbn [fields_wf fields_list] in Hwf, Hfst.
    destruct Hwf as [Hn Hnd].
    assert (Hpn : plan_named (cv_plan cv)).
    { intros f m Hin. apply Hn. rewrite <- Hfst. apply (in_map fst _ (f, m)). exact Hin. }
    split; [exact Hpn|].
    unfold cv_req. rewrite (ckeyed_named _ Hpn). rewrite <- Hfst in Hnd.
    rewrite !map_map in *.
    erewrite map_ext; [exact Hnd|]. intros [f m]. reflexivity.
  Qed.

  Lemma cv_wf_unnamed cv fl : cv_wf cv -> cv_fields cv = FUnnamed fl -> plan_unnamed (cv_plan cv).
  Proof.
    intros [Hwf Hfst] Hf. rewrite Hf in Hwf, Hfst. cbn [fields_wf fields_list] in Hwf, Hfst.
    intros f m Hin. apply Hwf. rewrite <- Hfst. apply (in_map fst _ (f, m)). exact Hin.
  Qed.

  Lemma cv_wf_unit cv : cv_wf cv -> cv_fields cv = FUnit -> cv_plan cv = [].
  Proof.
    intros [_ Hfst] Hf. rewrite Hf in Hfst. cbn in Hfst. destruct (cv_plan cv); [reflexivity|discriminate].
  Qed.

  (** the arms, restated over the request *)
  Lemma clone_arm_named_eq cv fl : cv_fields cv = FNamed fl -> plan_named (cv_plan cv) ->
    clone_arm cv =
    (PStruct (RSelfV (cv_name cv))
       (map (fun k => (k, Some (PBind (bn_s k)))) (map fst (cv_req cv))) true false,
     EStruct (RSelfV (cv_name cv))
       (map (fun '(k, m) => (k, clone_call m (EVar (bn_s k)))) (cv_req cv)) true).
  Proof.
    intros Hf Hpn. unfold clone_arm, cv_req. rewrite Hf. rewrite (ckeyed_named _ Hpn).
    rewrite !map_map. f_equal.
    - f_equal. apply map_ext. intros [f m]. reflexivity.
    - f_equal. apply map_ext. intros [f m]. reflexivity.
  Qed.

  Lemma clone_arm_unnamed_eq cv fl : cv_fields cv = FUnnamed fl -> plan_unnamed (cv_plan cv) ->
    clone_arm cv =
    (PTuple (RSelfV (cv_name cv))
       (map (fun k => PBind (bn_u k)) (map fst (cv_req cv))) true false,
     ECallT (EPath (RSelfV (cv_name cv)))
       (map (fun '(k, m) => clone_call m (EVar (bn_u k))) (cv_req cv))).
  Proof.
    intros Hf Hpu. unfold clone_arm, cv_req. rewrite Hf. rewrite (ckeyed_unnamed _ Hpu).
    rewrite !map_map. f_equal.
    - f_equal. apply map_ext. intros [i [f m]]. reflexivity.
    - f_equal. apply map_ext. intros [i [f m]]. reflexivity.
  Qed.

  (** the pattern of an arm only matches its own variant *)
  Lemma clone_arm_other cv st va xs :
    load st self_place = Some (VData (Some va) xs) ->
    String.eqb va (cv_name cv) = false ->
    match_pat st (fst (clone_arm cv)) (VRef self_place) = None.
  Proof.
    intros Hl Hne. unfold clone_arm.
    destruct (cv_fields cv); cbn [fst match_pat strip is_some_path]; rewrite Hl, Hne; reflexivity.
  Qed.

  Lemma in_keys_load st r vn xs k :
    lookup r st = Some (VData vn xs) -> In k (map fst xs) ->
    load st (sub {| pl_root := r; pl_path := [] |} k) <> None.
  Proof. intros H Hin. rewrite (load_root_field st r vn xs k H). apply in_fst_lookup. exact Hin. Qed.

  (** a whole arm of `clone`, on a value of its variant *)
  Lemma clone_arm_eval cv xs vs evs s :
    cv_wf cv ->
    st_store s = [("self", VData (Some (cv_name cv)) xs)] ->
    map fst (cv_req cv) = map fst xs ->
    spec_clone_fields I (cv_req cv) xs = Some (vs, evs) ->
    exists binds,
      match_pat (st_store s) (fst (clone_arm cv)) (VRef self_place) = Some binds /\
      eval I (binds ++ clone_env) (snd (clone_arm cv)) s
      = (RVal (VData (Some (cv_name cv)) vs), logs evs s).
  Proof.
    intros Hwf Hs Hkeys Hspec.
    assert (Hself : lookup "self" (st_store s) = Some (VData (Some (cv_name cv)) xs))
      by (rewrite Hs; reflexivity).
    assert (Hload : load (st_store s) self_place = Some (VData (Some (cv_name cv)) xs))
      by (rewrite Hs; reflexivity).
    assert (Hloads : forall k, In k (map fst (cv_req cv)) -> load (st_store s) (sub self_place k) <> None).
    { intros k Hk. apply (in_keys_load _ "self" _ xs k Hself). rewrite <- Hkeys. exact Hk. }
    assert (Hlen : List.length (map fst (cv_req cv)) = List.length xs).
    { rewrite Hkeys. apply map_length. }
    destruct (cv_fields cv) as [fl|fl|] eqn:Hf.
    - (* named *)
      destruct (cv_wf_named cv fl Hwf Hf) as [Hpn Hnd].
      rewrite (clone_arm_named_eq cv fl Hf Hpn). cbn [fst snd].
      exists (rbinds bn_s self_place (map fst (cv_req cv))). split.
      + cbn [match_pat strip]. rewrite Hload, String.eqb_refl.
        rewrite map_length, Hlen, Nat.eqb_refl. cbn [orb andb].
        apply match_fields_bind. exact Hloads.
      + destruct (clone_fields_eval (rbinds bn_s self_place (map fst (cv_req cv)) ++ clone_env)
                    (fun k => EVar (bn_s k)) (Some (cv_name cv)) xs (cv_req cv) vs evs s) as [Hfe _];
          [|exact Hs|exact Hspec|].
        * intros k m Hin s0. cbn [eval]. rewrite lookup_app.
          rewrite lookup_rbinds; [reflexivity| |apply (in_map fst _ (k, m)); exact Hin].
          intros k' Hk' E. apply (bn_s_inj (map fst (cv_req cv))); try assumption.
          apply (in_map fst _ (k, m)). exact Hin.
        * cbn [eval]. rewrite Hfe. reflexivity.
    - (* unnamed *)
      pose proof (cv_wf_unnamed cv fl Hwf Hf) as Hpu.
      rewrite (clone_arm_unnamed_eq cv fl Hf Hpu). cbn [fst snd].
      assert (Hk : map fst (cv_req cv) = map dec (seq 0 (List.length (cv_plan cv))))
        by (apply ckeyed_unnamed_keys; exact Hpu).
      exists (rbinds bn_u self_place (map fst (cv_req cv))). split.
      + cbn [match_pat strip is_some_path]. rewrite Hload, String.eqb_refl.
        rewrite map_length, Hlen, Nat.eqb_refl. cbn [andb].
        rewrite Hk. apply match_tuple_bind. rewrite <- Hk. exact Hloads.
      + destruct (clone_fields_eval (rbinds bn_u self_place (map fst (cv_req cv)) ++ clone_env)
                    (fun k => EVar (bn_u k)) (Some (cv_name cv)) xs (cv_req cv) vs evs s) as [_ Hae];
          [|exact Hs|exact Hspec|].
        * intros k m Hin s0. cbn [eval]. rewrite lookup_app.
          rewrite lookup_rbinds; [reflexivity| |apply (in_map fst _ (k, m)); exact Hin].
          intros k' _ E. apply bn_u_inj. exact E.
        * cbn [eval]. rewrite Hae. cbn [apply_path].
          rewrite tuple_fields_keyed; [reflexivity|].
          rewrite (spec_clone_fields_keys _ _ _ _ _ Hspec), (spec_clone_fields_length _ _ _ _ _ Hspec).
          unfold cv_req at 2. rewrite ckeyed_length. exact Hk.
    - (* unit *)
      pose proof (cv_wf_unit cv Hwf Hf) as Hnil. unfold cv_req in Hspec. rewrite Hnil in Hspec.
      cbn in Hspec. inversion Hspec; subst.
      unfold clone_arm. rewrite Hf. cbn [fst snd]. exists []. split.
      + cbn [match_pat strip]. rewrite Hload, String.eqb_refl. reflexivity.
      + cbn [app eval path_value]. rewrite logs_nil. reflexivity.
  Qed.

  (** ** the `match self { .. }` of an enum's clone *)
  Definition cv_entry (cv : cvariant) : option string * creq := (Some (cv_name cv), cv_req cv).

  Lemma clone_arms_eval : forall cvs va xs l vs evs s,
    Forall cv_wf cvs ->
    st_store s = [("self", VData (Some va) xs)] ->
    creq_get (Some va) (map cv_entry cvs) = Some l ->
    map fst l = map fst xs ->
    spec_clone_fields I l xs = Some (vs, evs) ->
    eval_arms (eval I) clone_env (VRef self_place) (map clone_arm cvs) s
    = (RVal (VData (Some va) vs), logs evs s).
  Proof.
    induction cvs as [|cv cvs IH]; intros va xs l vs evs s Hwf Hs Hget Hkeys Hspec.
    - discriminate Hget.
    - inversion Hwf as [|? ? Hcv Hrest]; subst.
      cbn [map cv_entry creq_get] in Hget. cbn [map eval_arms].
      destruct (String.eqb va (cv_name cv)) eqn:En.
      + inversion Hget; subst l. apply String.eqb_eq in En. subst va.
        destruct (clone_arm_eval cv xs vs evs s Hcv Hs Hkeys Hspec) as [binds [Hm He]].
        destruct (clone_arm cv) as [ap ab]. cbn [fst snd] in Hm, He. rewrite Hm. exact He.
      + assert (Hload : load (st_store s) self_place = Some (VData (Some va) xs))
          by (rewrite Hs; reflexivity).
        pose proof (clone_arm_other cv (st_store s) va xs Hload En) as Hnone.
        destruct (clone_arm cv) as [ap ab]. cbn [fst] in Hnone. rewrite Hnone.
        apply (IH va xs l); assumption.
  Qed.
End Clone.
