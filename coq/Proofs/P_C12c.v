(** C11 / C12 — handler by handler, part 2: Clone (with its Copy companion),
    PartialOrd, Ord (with its PartialOrd companion). *)
From Educe.Proofs Require Export P_C12b P_C07c P_C03b.

(** ** Clone *)
Definition clone_v (x : cfield) : bfield := view_of (f_ty (fst x)) false (snd x).

Lemma clone_types_delegated l : clone_types l = delegated (map clone_v l).
Proof.
  unfold clone_types, clone_v.
  rewrite <- (collected_delegated (fun x : cfield => f_ty (fst x)) (fun _ => false) (fun x => snd x)).
  apply flat_map_ext. intros [f m]. reflexivity.
Qed.

Lemma clone_field_attrs_view F traits em fs l :
  clone_field_attrs F traits em fs = Ok l -> mapM (clone_view F traits em) fs = Ok (map clone_v l).
Proof.
  unfold clone_field_attrs. apply mapM_sim. intros f y _ H. unfold clone_view.
  apply bind_ok in H as [mm [Hm H]]. inversion H; subst y. rewrite Hm. reflexivity.
Qed.

Lemma forallb_negb_existsb {A} (p : A -> bool) l :
  forallb (fun x => negb (p x)) l = negb (existsb p l).
Proof. induction l as [|x r IH]; [reflexivity|]. cbn. rewrite IH. destruct (p x); reflexivity. Qed.

Lemma existsb_concat {A} (p : A -> bool) ls :
  existsb p (List.concat ls) = existsb (existsb p) ls.
Proof. induction ls as [|l r IH]; [reflexivity|]. cbn [List.concat existsb]. rewrite existsb_app, IH. reflexivity. Qed.

Lemma clone_v_method (l : list cfield) :
  existsb bf_method (map clone_v l)
  = existsb (fun '(f, m) => match m with Some _ => true | None => false end) l.
Proof. induction l as [|[f m] r IH]; [reflexivity|]. cbn [map existsb]. rewrite IH. destruct m; reflexivity. Qed.

Lemma no_method_views (l : list cfield) :
  (forall f m, In (f, m) l -> m = None) -> existsb bf_method (map clone_v l) = false.
Proof.
  intros H. induction l as [|[f m] r IH]; [reflexivity|]. cbn [map existsb].
  rewrite (H f m (or_introl eq_refl)). cbn [clone_v view_of bf_method snd orb].
  apply IH. intros g n Hin. apply (H g n). right. exact Hin.
Qed.

Lemma has_custom_method_views cvs :
  has_custom_method cvs
  = existsb (existsb bf_method) (map (fun cv => map clone_v (cv_plan cv)) cvs).
Proof.
  unfold has_custom_method. induction cvs as [|cv r IH]; [reflexivity|].
  cbn [map existsb]. rewrite clone_v_method, IH. reflexivity.
Qed.

Lemma clone_variant_view F traits v cv :
  clone_variant F traits v = Ok cv ->
  mapM (clone_view F traits true) (fields_list (v_fields v)) = Ok (map clone_v (cv_plan cv)).
Proof.
  unfold clone_variant. intros H. apply bind_ok in H as [_ [_ H]]. apply bind_ok in H as [l [Hl H]].
  inversion H; subst cv. cbn [cv_plan]. apply clone_field_attrs_view. exact Hl.
Qed.

Lemma clone_items_built ce d g body fb r :
  g = push_preds (d_generics d)
        (bound_preds (rq_mode r) (d_generics d) (rq_trait r) (rq_types r) (rq_supers r)) ->
  Forall (built_by d r) (clone_items ce d g body fb).
Proof.
  intros Hg. unfold clone_items. constructor; [apply built_by_intro; [exact Hg|reflexivity]|].
  destruct ce; constructor; [apply built_by_intro; [exact Hg|reflexivity]|constructor].
Qed.

(** what the Clone handler computes, in the specification's terms *)
Lemma clone_analysis F traits d m items :
  expand_clone F traits d m = Ok items ->
  exists ta l,
    build_tattr true false true m = Ok ta /\
    clone_fields F traits d = Ok l /\
    Forall (fun it => i_generics it
                      = push_preds (d_generics d)
                          (bound_preds (ta_bound ta) (d_generics d)
                             (clone_trait_of (clone_by_copy F traits d l))
                             (clone_delegated d l) [])
                      /\ i_self it = d_name d) items /\
    (** the Copy companion is emitted exactly when Copy is educed (for a struct it then is the `*self` form) *)
    List.length items = (if educed TCopy F traits then 2 else 1).
Proof.
  unfold expand_clone. intros H. apply bind_ok in H as [ta [Hta H]].
  exists ta. unfold clone_fields, clone_by_copy, clone_delegated, educed.
  set (ce := has_trait TCopy F && has_trait TCopy traits) in *.
  destruct (d_data d) as [fs|vs|ufs] eqn:Ed; cbn [is_union orb groups List.concat].
  - apply bind_ok in H as [l [Hl H]]. exists (map clone_v l). split; [exact Hta|].
    rewrite app_nil_r. split; [apply clone_field_attrs_view; exact Hl|].
    assert (Hc : ce && forallb (fun b => negb (bf_method b)) (map clone_v l) = ce).
    { destruct ce; [|reflexivity]. cbn [andb negb] in *. rewrite forallb_negb_existsb.
      rewrite no_method_views; [reflexivity|]. eapply clone_field_attrs_no_method. exact Hl. }
    rewrite Hc. rewrite <- clone_types_delegated.
    assert (Hb : Forall (fun it => i_generics it = clone_generics ta ce d (clone_types l)
                                   /\ i_self it = d_name d) items /\
                 List.length items = if ce then 2 else 1).
    { destruct ce; inversion H; subst items; (split; [repeat constructor|reflexivity]). }
    destruct Hb as [Hb Hlen]. split; [|exact Hlen].
    eapply Forall_impl; [|exact Hb]. intros it [Hg Hs]. split; [|exact Hs]. rewrite Hg.
    unfold clone_generics, clone_bound_trait, clone_trait_of. reflexivity.
  - apply bind_ok in H as [cvs [Hcvs H]].
    exists (List.concat (map (fun cv => map clone_v (cv_plan cv)) cvs)). split; [exact Hta|].
    split.
    { apply mapM_concat. rewrite mapM_map.
      apply (mapM_sim (clone_variant F traits) _ (fun cv => map clone_v (cv_plan cv)) vs cvs); [|exact Hcvs].
      intros v cv _ Hv. apply clone_variant_view. exact Hv. }
    assert (Hc : negb (has_custom_method cvs) && ce
                 = ce && forallb (fun b => negb (bf_method b))
                           (List.concat (map (fun cv => map clone_v (cv_plan cv)) cvs))).
    { rewrite forallb_negb_existsb, existsb_concat, <- has_custom_method_views. apply andb_comm. }
    rewrite <- Hc.
    assert (Hd : flat_map (fun v => clone_types (cv_plan v)) cvs
                 = delegated (List.concat (map (fun cv => map clone_v (cv_plan cv)) cvs))).
    { rewrite delegated_concat, map_map, flat_map_concat. f_equal. apply map_ext.
      intros cv. apply clone_types_delegated. }
    rewrite <- Hd.
    assert (Hb : Forall (fun it => i_generics it
                                   = clone_generics ta (negb (has_custom_method cvs) && ce) d
                                       (flat_map (fun v => clone_types (cv_plan v)) cvs)
                                   /\ i_self it = d_name d) items /\
                 List.length items = if ce then 2 else 1).
    { destruct (negb (has_custom_method cvs) && ce); inversion H; subst items;
        (split; [unfold clone_items; destruct ce; repeat constructor|destruct ce; reflexivity]). }
    destruct Hb as [Hb Hlen]. split; [|exact Hlen].
    eapply Forall_impl; [|exact Hb]. intros it [Hg Hs]. split; [|exact Hs]. rewrite Hg.
    unfold clone_generics, clone_bound_trait, clone_trait_of. reflexivity.
  - apply bind_ok in H as [l [Hl H]]. exists (map clone_v l). split; [exact Hta|].
    rewrite app_nil_r. split; [apply clone_field_attrs_view; exact Hl|].
    assert (Hty : map bf_ty (map clone_v l) = map (fun f => f_ty f) ufs).
    { rewrite <- (clone_field_attrs_fst _ _ _ _ _ Hl), !map_map. apply map_ext. intros [f mm]. reflexivity. }
    rewrite Hty. inversion H; subst items; clear H.
    split; [unfold clone_items; destruct ce; repeat constructor|destruct ce; reflexivity].
Qed.

Theorem clone_handler F traits d m items :
  expand_clone F traits d m = Ok items -> handler_ok TClone F traits d m items.
Proof.
  intros H. destruct (clone_analysis F traits d m items H) as [ta [l [Hta [Hl [Hb _]]]]].
  exists (ta_bound ta), (clone_delegated d l). unfold type_mode, tattr_mode, delegated_of.
  rewrite Hta, Hl. split; [reflexivity|]. split; [reflexivity|].
  eapply Forall_impl; [|exact Hb]. intros it [Hg Hs]. split; [|exact Hs]. rewrite Hg.
  unfold req_of, required_trait. rewrite Hl. reflexivity.
Qed.

(** ** Ord / PartialOrd: the delegated types come in rank order *)
Section SortUnique.
  Context {A : Type}.
  Definition klt (a b : Z * A) : Prop := (fst a < fst b)%Z.
  Definition kle (a b : Z * A) : Prop := (fst a <= fst b)%Z.

  Lemma sorted_perm_unique_key (l1 : list (Z * A)) : forall l2,
    StronglySorted klt l1 -> StronglySorted kle l2 -> Permutation l1 l2 -> l1 = l2.
  Proof.
    induction l1 as [|a l1 IH]; intros l2 H1 H2 Hp.
    - apply Permutation_nil in Hp. symmetry. exact Hp.
    - destruct l2 as [|b l2]; [apply Permutation_sym, Permutation_nil in Hp; discriminate Hp|].
      inversion H1 as [|? ? H1' Ha]; inversion H2 as [|? ? H2' Hb]; subst.
      assert (Hab : a = b).
      { assert (Hina : In a (b :: l2)) by (eapply Permutation_in; [exact Hp|left; reflexivity]).
        assert (Hinb : In b (a :: l1))
          by (eapply Permutation_in; [apply Permutation_sym; exact Hp|left; reflexivity]).
        destruct Hina as [Hina|Hina]; [symmetry; exact Hina|].
        destruct Hinb as [Hinb|Hinb]; [exact Hinb|].
        rewrite Forall_forall in Ha, Hb. specialize (Ha _ Hinb). specialize (Hb _ Hina).
        unfold klt, kle in *. lia. }
      subst b. f_equal. apply IH; try assumption. eapply Permutation_cons_inv. exact Hp.
  Qed.
End SortUnique.

Lemma insert_rank_perm x l : Permutation (insert_rank x l) (x :: l).
Proof.
  induction l as [|u r IH]; [apply Permutation_refl|].
  cbn [insert_rank]. destruct (fst x <=? fst u)%Z; [apply Permutation_refl|].
  eapply perm_trans; [apply perm_skip; exact IH|apply perm_swap].
Qed.

Lemma insert_rank_sorted x l : StronglySorted kle l -> StronglySorted kle (insert_rank x l).
Proof.
  induction l as [|u r IH]; intros Hs.
  - repeat constructor.
  - inversion Hs as [|? ? Hs' Hall]; subst. cbn [insert_rank].
    destruct (fst x <=? fst u)%Z eqn:E.
    + apply Z.leb_le in E. constructor; [exact Hs|]. constructor; [exact E|].
      eapply Forall_impl; [|exact Hall]. intros b Hb. unfold kle in *. lia.
    + apply Z.leb_gt in E. constructor; [apply IH; exact Hs'|].
      apply Forall_forall. intros b Hb.
      apply (Permutation_in _ (insert_rank_perm x r)) in Hb. destruct Hb as [Hb|Hb].
      * subst b. unfold kle. lia.
      * rewrite Forall_forall in Hall. apply Hall. exact Hb.
Qed.

Lemma isort_sorted l : StronglySorted kle (fold_right insert_rank [] l).
Proof. induction l as [|t r IH]; [constructor|]. cbn [fold_right]. apply insert_rank_sorted. exact IH. Qed.
Lemma isort_perm l : Permutation (fold_right insert_rank [] l) l.
Proof.
  induction l as [|t r IH]; [constructor|]. cbn [fold_right].
  eapply perm_trans; [apply insert_rank_perm|]. apply perm_skip. exact IH.
Qed.

Section OrdPlan.
  Variables (F : features) (own : trait -> bool) (traits : list trait).

  (** a planned field as the specification views it *)
  Definition ord_v (t : ofield) : Z * bfield :=
    let '(_, f, fa) := t in (oa_rank fa, view_of (f_ty f) (oa_ignore fa) (oa_method fa)).

  Lemma views_of_decl (l : list ofield) :
    Forall (decl_ok F own traits) l ->
    mapM (ord_view F traits own) (map opos l) = Ok (map ord_v l).
  Proof.
    induction l as [|[[i f] fa] r IH]; intros H; [reflexivity|].
    inversion H as [|? ? Ht Hr]; subst. cbn [map]. change (opos (i, f, fa)) with (i, f).
    cbn [mapM]. unfold ord_view at 1. cbn [fst snd]. cbn [decl_ok] in Ht. rewrite Ht. cbn [bind].
    rewrite (IH Hr). reflexivity.
  Qed.

  Lemma filter_ord_v l :
    filter (fun x => negb (bf_ignored (snd x))) (map ord_v l) = map ord_v (filter nonign l).
  Proof.
    induction l as [|[[i f] fa] r IH]; [reflexivity|]. cbn [map filter]. rewrite IH.
    cbn [ord_v snd view_of bf_ignored nonign]. destruct (negb (oa_ignore fa)); reflexivity.
  Qed.

  Lemma sorted_ord_v (m0 : list (Z * ofield)) :
    StronglySorted key_lt m0 -> Forall (fun kt => fst kt = orank (snd kt)) m0 ->
    StronglySorted klt (map ord_v (map snd m0)).
  Proof.
    induction m0 as [|[k t] r IH]; intros Hs Hk; [constructor|].
    inversion Hs as [|? ? Hs' Hall]; subst. inversion Hk as [|? ? Hk1 Hkr]; subst.
    cbn [map snd]. constructor; [apply IH; assumption|].
    rewrite map_map. apply Forall_forall. intros b Hb. apply in_map_iff in Hb as [[k' t'] [<- Hin]].
    rewrite Forall_forall in Hall, Hkr. specialize (Hall _ Hin). specialize (Hkr _ Hin).
    unfold key_lt in Hall. cbn [fst snd] in *. unfold klt.
    destruct t as [[i f] fa], t' as [[i' f'] fa']. cbn [ord_v fst orank] in *. lia.
  Qed.

  Lemma by_rank_plan p :
    plan_inv F own traits p ->
    by_rank (map ord_v (fp_declared p)) = map snd (map ord_v (sorted_fields p)).
  Proof.
    intros Hi. unfold by_rank. f_equal. rewrite filter_ord_v. symmetry.
    apply sorted_perm_unique_key.
    - unfold sorted_fields. apply sorted_ord_v; [exact (pi_sorted _ _ _ p Hi)|exact (pi_keys _ _ _ p Hi)].
    - apply isort_sorted.
    - eapply perm_trans; [apply Permutation_map; exact (pi_perm _ _ _ p Hi)|].
      apply Permutation_sym. apply isort_perm.
  Qed.

  Lemma ord_types_delegated (l : list ofield) :
    Forall (fun t => nonign t = true) l ->
    flat_map (fun '(_, f, fa) => match oa_method fa with Some _ => [] | None => [f_ty f] end) l
    = delegated (map snd (map ord_v l)).
  Proof.
    unfold delegated. induction l as [|[[i f] fa] r IH]; intros H; [reflexivity|].
    inversion H as [|? ? Ht Hr]; subst. cbn [flat_map map filter]. rewrite (IH Hr).
    cbn [nonign] in Ht. apply negb_true_iff in Ht.
    cbn [ord_v snd]. unfold delegates at 1, view_of at 1. cbn [bf_ignored bf_method].
    rewrite Ht. destruct (oa_method fa); reflexivity.
  Qed.

  Lemma plan_fields_group fs p :
    plan_fields F own traits fs = Ok p ->
    (let* l := mapM (ord_view F traits own) (indexed fs) in Ok (delegated (by_rank l)))
    = Ok (ord_types p).
  Proof.
    intros H. destruct (plan_fields_inv F own traits fs p H) as [Hi Hpos].
    rewrite <- Hpos, (views_of_decl _ (pi_decl _ _ _ p Hi)). cbn [bind].
    rewrite (by_rank_plan p Hi). unfold ord_types. f_equal. symmetry. apply ord_types_delegated.
    apply Forall_forall. intros t Hin. apply (sorted_in_declared F own traits p t Hi Hin).
  Qed.

  Lemma plan_variant_group v vp :
    plan_variant F own traits v = Ok vp ->
    (let* l := mapM (ord_view F traits own) (indexed (fields_list (v_fields v))) in
     Ok (delegated (by_rank l))) = Ok (vplan_types vp).
  Proof.
    unfold plan_variant. intros H. apply bind_ok in H as [_ [_ H]].
    destruct (v_fields v) as [fs|fs|]; cbn [fields_list].
    - apply bind_ok in H as [p [Hp H]]. inversion H; subst vp. cbn [vplan_types].
      apply plan_fields_group. exact Hp.
    - apply bind_ok in H as [p [Hp H]]. inversion H; subst vp. cbn [vplan_types].
      apply plan_fields_group. exact Hp.
    - inversion H; subst vp. reflexivity.
  Qed.

  Lemma ord_delegated_struct fs p :
    plan_fields F own traits (fields_list fs) = Ok p ->
    ord_delegated F traits own (DStruct fs) = Ok (ord_types p).
  Proof.
    intros H. unfold ord_delegated. cbn [groups mapM]. rewrite (plan_fields_group _ _ H).
    cbn [bind List.concat]. rewrite app_nil_r. reflexivity.
  Qed.

  Lemma ord_delegated_enum vs vps :
    mapM (plan_variant F own traits) vs = Ok vps ->
    ord_delegated F traits own (DEnum vs) = Ok (flat_map vplan_types vps).
  Proof.
    intros H. unfold ord_delegated. cbn [groups]. rewrite mapM_map.
    rewrite (mapM_sim _ _ vplan_types vs vps (fun v vp _ => plan_variant_group v vp) H).
    cbn [bind]. rewrite flat_map_concat. reflexivity.
  Qed.
End OrdPlan.

Theorem partial_ord_handler F traits d m items :
  expand_partial_ord F traits d m = Ok items -> handler_ok TPartialOrd F traits d m items.
Proof.
  unfold expand_partial_ord, handler_ok, type_mode, delegated_of, tattr_mode, educed. intros H.
  destruct (has_trait TOrd F && has_trait TOrd traits) eqn:Eord; cbn [negb].
  - apply bind_ok in H as [ta [Hta H]]. inversion H; subst items; clear H.
    rewrite Hta. exists (ta_bound ta), []. repeat split; constructor.
  - destruct (d_data d) as [fs|vs|ufs] eqn:Ed; [| |discriminate H].
    + apply bind_ok in H as [ta [Hta H]]. apply bind_ok in H as [p [Hp H]]. inversion H; subst items; clear H.
      rewrite Hta. exists (ta_bound ta), (ord_types p). split; [reflexivity|].
      split; [apply ord_delegated_struct; exact Hp|].
      constructor; [|constructor]. apply built_by_intro; reflexivity.
    + apply bind_ok in H as [ta [Hta H]]. apply bind_ok in H as [ty [_ H]].
      apply bind_ok in H as [vps [Hvps H]]. inversion H; subst items; clear H.
      rewrite Hta. exists (ta_bound ta), (flat_map vplan_types vps). split; [reflexivity|].
      split; [apply ord_delegated_enum; exact Hvps|].
      constructor; [|constructor]. apply built_by_intro; reflexivity.
Qed.

Lemma ord_items_built F traits d g body r :
  g = push_preds (d_generics d)
        (bound_preds (rq_mode r) (d_generics d) (rq_trait r) (rq_types r) (rq_supers r)) ->
  Forall (built_by d r) (ord_items F traits d g body).
Proof.
  intros Hg. unfold ord_items. constructor; [apply built_by_intro; [exact Hg|reflexivity]|].
  destruct (has_trait TPartialOrd F && has_trait TPartialOrd traits); constructor;
    [apply built_by_intro; [exact Hg|reflexivity]|constructor].
Qed.

Theorem ord_handler F traits d m items :
  expand_ord F traits d m = Ok items -> handler_ok TOrd F traits d m items.
Proof.
  unfold expand_ord, handler_ok, type_mode, delegated_of, tattr_mode. intros H.
  destruct (d_data d) as [fs|vs|ufs] eqn:Ed; [| |discriminate H].
  - apply bind_ok in H as [ta [Hta H]]. apply bind_ok in H as [p [Hp H]]. inversion H; subst items; clear H.
    rewrite Hta. exists (ta_bound ta), (ord_types p). split; [reflexivity|].
    split; [apply ord_delegated_struct; exact Hp|].
    apply ord_items_built. reflexivity.
  - apply bind_ok in H as [ta [Hta H]]. apply bind_ok in H as [ty [_ H]].
    apply bind_ok in H as [vps [Hvps H]]. inversion H; subst items; clear H.
    rewrite Hta. exists (ta_bound ta), (flat_map vplan_types vps). split; [reflexivity|].
    split; [apply ord_delegated_enum; exact Hvps|].
    apply ord_items_built. reflexivity.
Qed.
