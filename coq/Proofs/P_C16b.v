(** C16 — the order of the list [traits] is irrelevant.

    lib.rs builds `traits` with `trait_meta_map.keys().copied().collect()`: the keys of a HashMap,
    in an order that changes from run to run.  The model passes [map fst tm] (order of first
    appearance).  [expand_with perm] is the driver that passes [perm (map fst tm)] instead; for
    every [perm] that only reorders (or, more generally, preserves membership) the outcome is the
    outcome of [expand] — the same items in the same order, or the same error. *)
From Coq Require Import Permutation.
From Educe.Proofs Require Export P_C16.

Definition expand_with (perm : list trait -> list trait) (F : features) (d : dinput)
  : outcome (list item) :=
  let* tm := foldM (collect_attr F) [] (d_attrs d) in
  let traits := perm (map fst tm) in
  let* its := foldM (run_handler F traits d tm) [] handlers in
  let* its := (match tmap_get TInto tm with
               | Some ms => if has_trait TInto F
                            then let* l := expand_into F traits d ms in Ok (its ++ l)
                            else Ok its
               | None => Ok its
               end) in
  if is_nil its then Err E_not_set_up else Ok its.

Definition expand_alt_errs_with (perm : list trait -> list trait) (F : features) (d : dinput)
  : list err :=
  match foldM (collect_attr F) [] (d_attrs d) with
  | Ok tm =>
      let traits := perm (map fst tm) in
      match foldM (run_handler F traits d tm) [] handlers with
      | Ok _ =>
          match tmap_get TInto tm with
          | Some ms => if has_trait TInto F then into_alt_errs F traits d ms else []
          | None => []
          end
      | _ => []
      end
  | _ => []
  end.

Lemma expand_with_id F d : expand_with (fun l => l) F d = expand F d.
Proof. reflexivity. Qed.

(** membership in a trait list does not depend on its order *)
Lemma has_trait_Permutation t l l' : Permutation l l' -> has_trait t l = has_trait t l'.
Proof.
  intros H. unfold has_trait. induction H; cbn [existsb].
  - reflexivity.
  - rewrite IHPermutation. reflexivity.
  - destruct (trait_eqb t y), (trait_eqb t x); reflexivity.
  - congruence.
Qed.

Lemma attrs_ok_all (Q : meta -> Prop) attrs : (forall m, Q m) -> attrs_ok Q attrs.
Proof. intros H. apply Forall_all. exact H. Qed.

Lemma data_ok_all (Q : meta -> Prop) dd : (forall m, Q m) -> data_ok Q dd.
Proof.
  intros H.
  assert (Hf : forall fs, Forall (field_ok Q) fs).
  { intros fs. apply Forall_all. intros f. apply attrs_ok_all. exact H. }
  destruct dd as [fs|vs|fs]; cbn [data_ok]; auto.
  apply Forall_all. intros v. split; [apply attrs_ok_all; exact H|apply Hf].
Qed.

Section SameF.
  Variables (F : features) (tr tr' : list trait).
  Hypothesis Htr : forall t, has_trait t tr = has_trait t tr'.

  Let HF : forall t, has_trait t tr = true -> has_trait t F = has_trait t F := fun _ _ => eq_refl.
  Let Hs : ord_feature_agree F F tr := fun _ => eq_refl.
  Let Hd d : data_ok (path_agree F F) (d_data d) := data_ok_all _ _ (fun _ => eq_refl).

  (** every handler of the fixed list, and the Into handler *)
  Theorem handlers_membership_only d :
    Forall (fun th => forall m, snd th F tr d m = snd th F tr' d m) handlers.
  Proof. apply (cg_handlers F F tr tr' Htr HF d Hs (Hd d)). Qed.

  Theorem into_membership_only d ms : expand_into F tr d ms = expand_into F tr' d ms.
  Proof. apply (cg_expand_into F F tr tr' Htr d ms (Hd d)). Qed.

  Theorem into_alt_errs_membership_only d ms : into_alt_errs F tr d ms = into_alt_errs F tr' d ms.
  Proof. apply (cg_into_alt_errs F F tr tr' Htr d ms (Hd d)). Qed.

  (** every analysis function that takes [traits], one by one *)
  Theorem scan_membership_only {A} own (build : meta -> outcome A) attrs :
    scan_attrs F own build tr attrs = scan_attrs F own build tr' attrs.
  Proof. apply (cg_scan_same F F tr tr' Htr). apply attrs_ok_all. reflexivity. Qed.

  Theorem into_collect_membership_only attrs : into_collect F tr attrs = into_collect F tr' attrs.
  Proof. apply (cg_into_collect F F tr tr' Htr). apply attrs_ok_all. reflexivity. Qed.

  Lemma run_handler_membership_only d tm :
    Forall (fun th => forall acc, run_handler F tr d tm acc th = run_handler F tr' d tm acc th) handlers.
  Proof.
    eapply Forall_impl; [|apply (handlers_membership_only d)]. cbv beta.
    intros [t h] Hh acc. cbn [snd] in Hh. unfold run_handler.
    destruct (has_trait t F); [|reflexivity].
    destruct (tmap_get t tm) as [[|m r]|]; try reflexivity. rewrite Hh. reflexivity.
  Qed.
End SameF.

Theorem expand_with_membership perm F d :
  (forall l t, has_trait t (perm l) = has_trait t l) ->
  expand_with perm F d = expand F d.
Proof.
  intros Hp. unfold expand_with, expand. apply cg_bind_r; intros tm.
  apply cg_bind.
  - apply cg_foldM. eapply Forall_impl; [|apply (run_handler_membership_only F _ _ (fun t => Hp (map fst tm) t) d tm)].
    cbv beta. intros th H s. apply H.
  - intros its. apply cg_bind; [|reflexivity].
    destruct (tmap_get TInto tm); [|reflexivity]. destruct (has_trait TInto F); [|reflexivity].
    rewrite (into_membership_only F _ _ (fun t => Hp (map fst tm) t)). reflexivity.
Qed.

Theorem expand_with_perm perm F d :
  (forall l, Permutation (perm l) l) -> expand_with perm F d = expand F d.
Proof.
  intros Hp. apply expand_with_membership. intros l t. apply has_trait_Permutation. apply Hp.
Qed.

Theorem expand_alt_errs_with_perm perm F d :
  (forall l, Permutation (perm l) l) -> expand_alt_errs_with perm F d = expand_alt_errs F d.
Proof.
  intros Hp. unfold expand_alt_errs_with, expand_alt_errs.
  destruct (foldM (collect_attr F) [] (d_attrs d)) as [tm| | |]; try reflexivity.
  assert (Hm : forall t, has_trait t (perm (map fst tm)) = has_trait t (map fst tm)).
  { intros t. apply has_trait_Permutation. apply Hp. }
  assert (Hh : foldM (run_handler F (perm (map fst tm)) d tm) [] handlers
               = foldM (run_handler F (map fst tm) d tm) [] handlers).
  { apply cg_foldM. eapply Forall_impl; [|apply (run_handler_membership_only F _ _ Hm d tm)].
    cbv beta. intros th H s. apply H. }
  rewrite Hh. destruct (foldM (run_handler F (map fst tm) d tm) [] handlers); try reflexivity.
  destruct (tmap_get TInto tm); [|reflexivity]. destruct (has_trait TInto F); [|reflexivity].
  apply (into_alt_errs_membership_only F _ _ Hm).
Qed.

(** ** the analysis functions, one by one *)
Lemma field_ok_all (Q : meta -> Prop) f : (forall m, Q m) -> field_ok Q f.
Proof. intros H. apply attrs_ok_all. exact H. Qed.
Lemma variant_ok_all (Q : meta -> Prop) v : (forall m, Q m) -> variant_ok Q v.
Proof. intros H. split; [apply attrs_ok_all; exact H|apply Forall_all; intros f; apply field_ok_all; exact H]. Qed.

Section SameF2.
  Variables (F : features) (tr tr' : list trait).
  Hypothesis Htr : forall t, has_trait t tr = has_trait t tr'.

  Ltac triv :=
    first [ exact Htr
          | apply attrs_ok_all; intros ?; reflexivity
          | apply field_ok_all; intros ?; reflexivity
          | apply variant_ok_all; intros ?; reflexivity
          | apply data_ok_all; intros ?; reflexivity
          | apply Forall_all; intros ?; triv
          | intros; reflexivity ].

  Theorem analysis_membership_only :
    (* PartialEq *)
    (forall t, own_partial_eq tr t = own_partial_eq tr' t) /\
    (forall attrs, peq_type_attr F tr attrs = peq_type_attr F tr' attrs) /\
    (forall ei em attrs, peq_field_attr F tr ei em attrs = peq_field_attr F tr' ei em attrs) /\
    (forall fs, field_attrs F tr fs = field_attrs F tr' fs) /\
    (forall v, peq_variant F tr v = peq_variant F tr' v) /\
    (forall d g b, peq_items tr F d g b = peq_items tr' F d g b) /\
    (* Eq, Copy *)
    (forall own attrs, marker_field_attr F own tr attrs = marker_field_attr F own tr' attrs) /\
    (forall own attrs, marker_variant_attr F own tr attrs = marker_variant_attr F own tr' attrs) /\
    (forall own dd, all_field_types F own tr dd = all_field_types F own tr' dd) /\
    (* Hash *)
    (forall attrs, hash_type_attr F tr attrs = hash_type_attr F tr' attrs) /\
    (forall ei em attrs, hash_field_attr F tr ei em attrs = hash_field_attr F tr' ei em attrs) /\
    (forall fs, hash_field_attrs F tr fs = hash_field_attrs F tr' fs) /\
    (forall iv, hash_variant F tr iv = hash_variant F tr' iv) /\
    (* Clone *)
    (forall em attrs, clone_field_attr F tr em attrs = clone_field_attr F tr' em attrs) /\
    (forall attrs, clone_variant_attr F tr attrs = clone_variant_attr F tr' attrs) /\
    (forall em fs, clone_field_attrs F tr em fs = clone_field_attrs F tr' em fs) /\
    (forall v, clone_variant F tr v = clone_variant F tr' v) /\
    (* Debug *)
    (forall b attrs, debug_variant_attr F tr b attrs = debug_variant_attr F tr' b attrs) /\
    (forall a b c attrs, debug_field_attr F tr a b c attrs = debug_field_attr F tr' a b c attrs) /\
    (forall en fs, debug_field_attrs F tr en fs = debug_field_attrs F tr' en fs) /\
    (forall n v, debug_variant F tr n v = debug_variant F tr' n v) /\
    (* PartialOrd, Ord *)
    (forall t, own_ord F tr t = own_ord F tr' t) /\
    (ord_supertraits F tr = ord_supertraits F tr') /\
    (forall d g b, ord_items F tr d g b = ord_items F tr' d g b) /\
    (forall own i attrs, ord_field_attr F own tr i attrs = ord_field_attr F own tr' i attrs) /\
    (forall own attrs, ord_variant_attr F own tr attrs = ord_variant_attr F own tr' attrs) /\
    (forall own fs, plan_fields F own tr fs = plan_fields F own tr' fs) /\
    (forall own v, plan_variant F own tr v = plan_variant F own tr' v) /\
    (* Default *)
    (forall fl attrs, default_variant_attr F tr fl attrs = default_variant_attr F tr' fl attrs) /\
    (forall a b f, default_field_attr F tr a b f = default_field_attr F tr' a b f) /\
    (forall fs, ensure_no_attribute F tr fs = ensure_no_attribute F tr' fs) /\
    (forall f, default_field_value F tr f = default_field_value F tr' f) /\
    (forall p fs, default_fields_body F tr p fs = default_fields_body F tr' p fs) /\
    (forall vs, select_variant F tr vs = select_variant F tr' vs) /\
    (forall fs, select_field F tr fs = select_field F tr' fs) /\
    (forall d m, default_plan F tr d m = default_plan F tr' d m) /\
    (* Deref, DerefMut *)
    (forall own attrs, deref_field_flag F own tr attrs = deref_field_flag F own tr' attrs) /\
    (forall own attrs, deref_variant_attr F own tr attrs = deref_variant_attr F own tr' attrs) /\
    (forall own fs, deref_select F own tr fs = deref_select F own tr' fs) /\
    (forall own v, deref_variant F own tr v = deref_variant F own tr' v) /\
    (forall own d m, deref_analyse F own tr d m = deref_analyse F own tr' d m) /\
    (* Into *)
    (forall attrs, into_collect F tr attrs = into_collect F tr' attrs) /\
    (forall attrs, into_variant_attr F tr attrs = into_variant_attr F tr' attrs) /\
    (forall tg f, into_field_attr F tr tg f = into_field_attr F tr' tg f) /\
    (forall d ms, into_results F tr d ms = into_results F tr' d ms) /\
    (forall d ms, into_analyse F tr d ms = into_analyse F tr' d ms).
  Proof.
    repeat match goal with |- _ /\ _ => split end; intros.
    - apply cg_own_partial_eq; triv.
    - apply cg_peq_type_attr; triv.
    - apply cg_peq_field_attr; triv.
    - apply cg_field_attrs; triv.
    - apply cg_peq_variant; triv.
    - apply cg_peq_items; triv.
    - apply cg_marker_field_attr; triv.
    - apply cg_marker_variant_attr; triv.
    - apply cg_all_field_types; triv.
    - apply cg_hash_type_attr; triv.
    - apply cg_hash_field_attr; triv.
    - apply cg_hash_field_attrs; triv.
    - apply cg_hash_variant; triv.
    - apply cg_clone_field_attr; triv.
    - apply cg_clone_variant_attr; triv.
    - apply cg_clone_field_attrs; triv.
    - apply cg_clone_variant; triv.
    - apply cg_debug_variant_attr; triv.
    - apply cg_debug_field_attr; triv.
    - apply cg_debug_field_attrs; triv.
    - apply cg_debug_variant; triv.
    - apply cg_own_ord; triv.
    - apply cg_ord_supertraits; try triv. intros _. reflexivity.
    - apply cg_ord_items; triv.
    - apply cg_ord_field_attr; triv.
    - apply cg_ord_variant_attr; triv.
    - apply cg_plan_fields; triv.
    - apply cg_plan_variant; triv.
    - apply cg_default_variant_attr; triv.
    - apply cg_default_field_attr; triv.
    - apply cg_ensure_no_attribute; triv.
    - apply cg_default_field_value; triv.
    - apply cg_default_fields_body; triv.
    - apply cg_select_variant; triv.
    - apply cg_select_field; triv.
    - apply cg_default_plan; triv.
    - apply cg_deref_field_flag; triv.
    - apply cg_deref_variant_attr; triv.
    - apply cg_deref_select; triv.
    - apply cg_deref_variant; triv.
    - apply cg_deref_analyse; triv.
    - apply cg_into_collect; triv.
    - apply cg_into_variant_attr; triv.
    - apply cg_into_field_attr; triv.
    - apply cg_into_results; triv.
    - unfold into_analyse. rewrite (cg_into_results F F tr tr' Htr); [reflexivity|triv].
  Qed.
End SameF2.
