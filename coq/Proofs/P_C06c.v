(** C06 — part 3: the method wrapper; with no educe parameters the builder
    program is the one `#[derive(Debug)]` is specified to run. *)
From Educe.Proofs Require Export P_C06b.

(** * the `Educe__DebugField` wrapper *)
Section Wrapper.
  Variable I : interp.

  (** `let arg = { .. Educe__DebugField(fe, PhantomData::<Self>) };` binds `arg`
      to a value [w] such that formatting `&arg` with ANY formatter [fm] is the
      call `method(fe, fm)` of the user's function (recorded as [EvUser]), and a
      builder that is handed `&arg` records it as "[v] via [method]". *)
  Theorem method_wrapper ig ty sty wc m fe en r s v s1 :
    eval I en fe s = (RVal v, s1) ->
    let w := debug_field_val m v in
    eval_block (eval I) en (EDebugFieldArg ig ty sty wc m fe :: r) s =
      eval_block (eval I) (("arg", w) :: en) r s1 /\
    (forall r' s', eval I (("arg", w) :: en) (ERef (EVar "arg")) s' = (RVal (VRefTmp w), s') /\
                   debug_fmt I (VRefTmp w) r' s' = call_user I m [v; r'] s') /\
    (forall st x, strip st v = Some x -> fmt_arg_of st (VRefTmp w) = Some (FAVia m x)).
  Proof.
    intros Hfe w. split; [apply eval_block_field_arg; exact Hfe|]. split.
    - intros r' s'. split; reflexivity.
    - intros st x Hx. unfold fmt_arg_of.
      cbn [strip w debug_field_val as_debug_field String.eqb Ascii.eqb Bool.eqb]. rewrite Hx. reflexivity.
  Qed.

End Wrapper.

(** in the shape, a shown field with `method = m` is "its value via m", under its effective key *)
Theorem shape_method_field fs xs sf fc m x :
  shown_fields fs xs = Some sf ->
  In fc fs -> df_ignore (fc_attr fc) = false -> df_method (fc_attr fc) = Some m ->
  lookup (fc_store fc) xs = Some x ->
  In (effective_key fc, FAVia m x) sf.
Proof.
  revert sf. induction fs as [|g fs IH]; intros sf Hsf Hin Hig Hm Hx; [destruct Hin|].
  cbn [shown_fields] in Hsf. destruct Hin as [->|Hin].
  - rewrite Hig, Hx in Hsf. destruct (shown_fields fs xs); [|discriminate Hsf].
    inversion Hsf. left. unfold field_arg. rewrite Hm. reflexivity.
  - destruct (df_ignore (fc_attr g)); [eapply IH; eassumption|].
    destruct (lookup (fc_store g) xs); [|discriminate Hsf].
    destruct (shown_fields fs xs) as [rest|]; [|discriminate Hsf].
    inversion Hsf. right. apply (IH rest eq_refl Hin Hig Hm Hx).
Qed.

(** * no educe parameters *)
Section Plain.
  Variables (F : features) (traits : list trait).

  Lemma scan_attrs_plain {A} own (build : meta -> outcome A) attrs :
    no_educe_attrs attrs -> scan_attrs F own build traits attrs = Ok None.
  Proof.
    unfold scan_attrs. generalize (@None A) as acc.
    induction attrs as [|a r IH]; intros acc H; [reflexivity|].
    cbn [foldM]. unfold scan_attr at 1. rewrite (H a (or_introl eq_refl)). cbn [bind].
    apply IH. intros b Hb. apply H. right. exact Hb.
  Qed.

  Lemma debug_field_attr_plain en ei em attrs :
    no_educe_attrs attrs -> debug_field_attr F traits en ei em attrs = Ok dfattr_default.
  Proof. intros H. unfold debug_field_attr. rewrite scan_attrs_plain by exact H. reflexivity. Qed.

  Lemma debug_variant_attr_plain b attrs :
    no_educe_attrs attrs -> debug_variant_attr F traits b attrs = Ok (dtattr_default b).
  Proof. intros H. unfold debug_variant_attr. rewrite scan_attrs_plain by exact H. reflexivity. Qed.

  Definition dflt (f : field) : field * dfattr := (f, dfattr_default).

  Lemma debug_field_attrs_plain en fs :
    (forall f, In f fs -> no_educe_attrs (f_attrs f)) ->
    debug_field_attrs F traits en fs = Ok (indexed (map dflt fs)).
  Proof.
    intros H. unfold debug_field_attrs.
    assert (E : mapM (fun f => let* fa := debug_field_attr F traits en true true (f_attrs f) in Ok (f, fa)) fs
                = Ok (map dflt fs)).
    { induction fs as [|f r IH]; [reflexivity|]. cbn [mapM map].
      rewrite debug_field_attr_plain by (apply H; left; reflexivity). cbn [bind].
      rewrite IH by (intros g Hg; apply H; right; exact Hg). reflexivity. }
    rewrite E. reflexivity.
  Qed.

  Lemma shown_plain_named xs fl : forall i0,
    (forall f, In f fl -> f_name f <> None) ->
    shown_fields (field_cfgs (index_from i0 (map dflt fl))) xs = derive_named_fields xs fl.
  Proof.
    induction fl as [|f r IH]; intros i0 H; [reflexivity|].
    cbn [map index_from]. change (dflt f) with (f, dfattr_default). rewrite field_cfgs_cons. cbn [shown_fields derive_named_fields].
    unfold mk_fc at 1 2 3 4, effective_key, field_arg, field_member.
    cbn [fc_attr fc_store fc_ident fc_index dfattr_default df_ignore df_name df_method].
    destruct (f_name f) as [n|] eqn:E; [|exfalso; apply (H f (or_introl eq_refl)); exact E].
    fold (dflt). rewrite (IH (S i0)) by (intros g Hg; apply H; right; exact Hg). reflexivity.
  Qed.

  Lemma shown_plain_tuple xs fl : forall i0,
    (forall f, In f fl -> f_name f = None) ->
    option_map (map snd) (shown_fields (field_cfgs (index_from i0 (map dflt fl))) xs) =
    option_map (map snd) (derive_tuple_fields xs i0 fl).
  Proof.
    induction fl as [|f r IH]; intros i0 H; [reflexivity|].
    cbn [map index_from]. change (dflt f) with (f, dfattr_default). rewrite field_cfgs_cons. cbn [shown_fields derive_tuple_fields].
    unfold mk_fc at 1 2 3 4, effective_key, field_arg, field_member.
    cbn [fc_attr fc_store fc_ident fc_index dfattr_default df_ignore df_name df_method].
    rewrite (H f (or_introl eq_refl)).
    specialize (IH (S i0) (fun g Hg => H g (or_intror Hg))). fold dflt.
    destruct (lookup (dec i0) xs) as [x|]; [|reflexivity].
    destruct (shown_fields (field_cfgs (index_from (S i0) (map dflt r))) xs) as [a|],
             (derive_tuple_fields xs (S i0) r) as [b|]; cbn [option_map] in IH |- *;
      try discriminate IH; [|reflexivity].
    inversion IH as [E]. cbn [map snd]. rewrite E. reflexivity.
  Qed.

  Lemma tuple_program name sf1 sf2 :
    map snd sf1 = map snd sf2 ->
    builder_program (ShFields name STuple sf1) = builder_program (ShFields name STuple sf2).
  Proof.
    intros H. cbn [builder_program]. f_equal. f_equal.
    assert (E : forall sf : list (string * fmt_arg),
              map (fun '(_, a) => EvBuilderField None a) sf = map (EvBuilderField None) (map snd sf)).
    { intros sf. rewrite map_map. apply map_ext. intros [k a]. reflexivity. }
    rewrite !E, H. reflexivity.
  Qed.

  (** a struct / variant without parameters: the derive shape, up to the
      (unused) keys of tuple positions *)
  Lemma plain_fields_program id fs xs :
    fields_wf fs -> fs <> FUnit ->
    option_map builder_program
      (match shown_fields (field_cfgs (indexed (map dflt (fields_list fs)))) xs with
       | Some sf => Some (ShFields (Some id) (if is_named_fields fs then SStruct else STuple) sf)
       | None => None
       end) =
    option_map builder_program (derive_shape id fs xs).
  Proof.
    intros Hwf Hne. destruct fs as [fl|fl|]; [| |congruence]; cbn [fields_list is_named_fields derive_shape].
    - destruct Hwf as [Hnames _]. unfold indexed. rewrite shown_plain_named by exact Hnames.
      destruct (derive_named_fields xs fl); reflexivity.
    - cbn [fields_wf] in Hwf. pose proof (shown_plain_tuple xs fl 0 Hwf) as E. unfold indexed.
      destruct (shown_fields (field_cfgs (index_from 0 (map dflt fl))) xs) as [a|],
               (derive_tuple_fields xs 0 fl) as [b|]; cbn [option_map] in E |- *;
        try discriminate E; [|reflexivity].
      inversion E as [E']. f_equal. apply tuple_program. exact E'.
  Qed.

  Lemma variant_cfg_plain w :
    no_educe_attrs (v_attrs w) -> plain_fields (v_fields w) ->
    variant_cfg F traits w =
    Ok {| vc_variant := Some (v_name w); vc_ident := v_name w;
          vc_unit := is_unit_fields (v_fields w);
          vc_name := TNDefault; vc_named_field := is_named_fields (v_fields w);
          vc_fields := field_cfgs (indexed (map dflt (fields_list (v_fields w)))) |}.
  Proof.
    intros Ha Hf. unfold variant_cfg. rewrite debug_variant_attr_plain by exact Ha. cbn [bind].
    rewrite debug_field_attrs_plain by exact Hf. reflexivity.
  Qed.

  Lemma plain_variants_program c va xs : dc_enum_name c = None ->
    forall vs vcs,
    mapM (variant_cfg F traits) vs = Ok vcs ->
    (forall w, In w vs -> no_educe_attrs (v_attrs w) /\ plain_fields (v_fields w)) ->
    (forall w, In w vs -> fields_wf (v_fields w)) ->
    option_map builder_program
      (match find (variant_is (Some va)) vcs with Some vc => vshape c vc xs | None => None end) =
    option_map builder_program
      (match find (fun w => String.eqb va (v_name w)) vs with
       | Some w => derive_shape (v_name w) (v_fields w) xs
       | None => None
       end).
  Proof.
    intros Hc. induction vs as [|w vs IH]; intros vcs Hm Hp Hwf.
    - cbn in Hm. inversion Hm. reflexivity.
    - cbn [mapM] in Hm. inv_bind_as Hm as vc Hvc. inv_bind_as Hm as vcs' Hvcs'.
      inversion Hm; subst vcs; clear Hm.
      destruct (Hp w (or_introl eq_refl)) as [Ha Hf].
      rewrite (variant_cfg_plain w Ha Hf) in Hvc. inversion Hvc; subst vc; clear Hvc.
      cbn [find variant_is vc_variant].
      destruct (String.eqb va (v_name w)).
      + unfold vshape, effective_name. rewrite Hc.
        cbn [vc_unit vc_fields vc_named_field vc_name vc_ident level_name].
        pose proof (Hwf w (or_introl eq_refl)) as Hw.
        destruct (v_fields w) as [fl|fl|] eqn:Efs.
        * cbn [is_unit_fields]. rewrite <- Efs in Hw |- *.
          assert (Hne : v_fields w <> FUnit) by (rewrite Efs; discriminate).
          exact (plain_fields_program (v_name w) (v_fields w) xs Hw Hne).
        * cbn [is_unit_fields]. rewrite <- Efs in Hw |- *.
          assert (Hne : v_fields w <> FUnit) by (rewrite Efs; discriminate).
          exact (plain_fields_program (v_name w) (v_fields w) xs Hw Hne).
        * reflexivity.
      + apply IH; [exact Hvcs'| |]; intros u Hu; [apply Hp|apply Hwf]; right; exact Hu.
  Qed.

  (** With no educe parameters the builder program is the derive's: for every
      value of every struct (a unit struct aside: see below) and every enum. *)
  Theorem same_as_derive d p c v :
    debug_cfg_of F traits d (MPath p) = Ok c ->
    plain_data (d_data d) -> data_wf (d_data d) ->
    d_data d <> DStruct FUnit ->
    option_map builder_program (debug_shape c v) =
    option_map builder_program (derive_debug_shape d v).
  Proof.
    intros Hc Hp Hwf Hnu. unfold debug_cfg_of in Hc. unfold derive_debug_shape.
    destruct (d_data d) as [fs|vs|fs] eqn:Hd; [| |discriminate Hc].
    - cbn [build_dtattr struct_tb tb_flag bind] in Hc.
      cbn [plain_data] in Hp. rewrite (debug_field_attrs_plain _ _ Hp) in Hc. cbn [bind] in Hc.
      inversion Hc; subst c; clear Hc.
      destruct v as [| | | | | |vn xs| | | | |]; try reflexivity.
      destruct vn as [vn|]; [reflexivity|].
      cbn [debug_shape dc_variants find variant_is vc_variant vc_unit vc_fields vc_named_field
           effective_name dc_enum_name vc_name vc_ident dtattr_default dt_name dt_named_field
           tb_name0 tb_named_field0 level_name].
      assert (Hne : fs <> FUnit) by (intros ->; apply Hnu; reflexivity).
      assert (Es : negb (is_tuple_fields fs) = is_named_fields fs) by (destruct fs; [reflexivity|reflexivity|congruence]).
      rewrite Es. exact (plain_fields_program (d_name d) fs xs Hwf Hne).
    - cbn [build_dtattr enum_tb tb_flag bind] in Hc. inv_bind_as Hc as vcs Hvcs.
      inversion Hc; subst c; clear Hc.
      destruct v as [| | | | | |vn xs| | | | |]; try reflexivity.
      rewrite debug_shape_vshape. cbn [dc_variants].
      destruct vn as [va|].
      + refine (plain_variants_program _ va xs _ vs vcs Hvcs Hp Hwf). reflexivity.
      + rewrite (find_struct_in_enum F traits vs vcs Hvcs). reflexivity.
  Qed.

  (** the unit struct: educe runs `f.debug_struct("Name").finish()` where the
      derive runs `f.write_str("Name")` (same text: see Sem/Fmt.v) *)
  Theorem unit_struct_program d p c :
    debug_cfg_of F traits d (MPath p) = Ok c -> d_data d = DStruct FUnit ->
    option_map builder_program (debug_shape c (VData None [])) =
      Some [EvBuilderNew BStruct (d_name d); EvBuilderFinish] /\
    option_map builder_program (derive_debug_shape d (VData None [])) = Some [EvWriteStr (d_name d)].
  Proof.
    intros Hc Hd. unfold debug_cfg_of in Hc. unfold derive_debug_shape. rewrite Hd in *.
    cbn in Hc. inversion Hc; subst c. split; reflexivity.
  Qed.
End Plain.

(** * the request is always readable when the expansion succeeds (struct / enum) *)
Section CfgTotal.
  Variables (F : features) (traits : list trait).

  Lemma variant_cfg_total name v dv :
    debug_variant F traits name v = Ok dv -> exists vc, variant_cfg F traits v = Ok vc.
  Proof.
    unfold debug_variant, variant_cfg, variant_tb, is_named_fields. intros H.
    inv_bind_as H as ta Hta. rewrite Hta. cbn [bind].
    destruct (v_fields v) as [fl|fl|].
    - inv_bind_as H as l Hl. rewrite Hl. cbn [bind]. eauto.
    - inv_bind_as H as l Hl. rewrite Hl. cbn [bind]. eauto.
    - cbn. eauto.
  Qed.

  Lemma variants_cfg_total name vs : forall dvs,
    mapM (debug_variant F traits name) vs = Ok dvs -> exists vcs, mapM (variant_cfg F traits) vs = Ok vcs.
  Proof.
    induction vs as [|v vs IH]; intros dvs H; [exists []; reflexivity|].
    cbn [mapM] in H |- *. inv_bind_as H as dv Hdv. inv_bind_as H as dvs' Hdvs'.
    destruct (variant_cfg_total name v dv Hdv) as [vc ->]. destruct (IH dvs' Hdvs') as [vcs ->].
    cbn [bind]. eauto.
  Qed.

  Theorem debug_cfg_total d m items :
    expand_debug F traits d m = Ok items ->
    (forall fs, d_data d <> DUnion fs) ->
    exists c, debug_cfg_of F traits d m = Ok c.
  Proof.
    intros He Hnu. unfold debug_cfg_of. destruct (d_data d) as [fs|vs|fs] eqn:Hd.
    - rewrite (expand_debug_struct F traits d m fs Hd) in He.
      inv_bind_as He as ta Hta. cbv zeta in He. inv_bind_as He as l Hl.
      rewrite Hta. cbn [bind]. rewrite Hl. cbn [bind]. eauto.
    - rewrite (expand_debug_enum F traits d m vs Hd) in He.
      inv_bind_as He as ta Hta. cbv zeta in He. inv_bind_as He as dvs Hdvs.
      rewrite Hta. cbn [bind]. destruct (variants_cfg_total _ vs dvs Hdvs) as [vcs ->].
      cbn [bind]. eauto.
    - exfalso. exact (Hnu fs eq_refl).
  Qed.
End CfgTotal.
